import PpciVerif.Proofs.CEvalArith
/-!
Tree-level lemmas for C27: `Model.CEval.elaborate`/`eval` against `Spec.CInt.typeOf`/`eval`
by induction over expression trees.
-/
set_option linter.unusedSimpArgs false
namespace Proofs.CEval
open Model.CEval Model.CSyntax
open Spec.CInt (Expr Base Suffix UnOp BinOp inRange convert uac typeOf arith toU ofU litType)

/-! ### `Except` plumbing and table lookups -/

@[simp] theorem bind_ok {α β} (a : α) (f : α → Except Err β) : (Except.ok a >>= f) = f a := rfl
@[simp] theorem bind_error {α β} (e : Err) (f : α → Except Err β) : (Except.error e >>= f) = Except.error e := rfl
@[simp] theorem pure_eq_ok {α} (a : α) : (pure a : Except Err α) = Except.ok a := rfl

theorem lookup_unary (s : Sym) : unaryOperators.lookup s =
    match s with | .minus => some .neg | .tilde => some .invert | .bang => some .logicalNot | _ => none := by
  cases s <;> rfl

theorem lookup_binary (s : Sym) : binaryOperators.lookup s =
    match s with
    | .plus => some .add | .minus => some .sub | .star => some .mul | .lt => some .lt | .gt => some .gt
    | .le => some .le | .ge => some .ge | .eqeq => some .eq | .ne => some .ne | _ => none := by
  cases s <;> rfl

theorem lookup_integer (s : Sym) : integerOperators.lookup s =
    match s with
    | .slash => some .intDiv | .percent => some .intRem | .shr => some .rshift | .shl => some .lshift
    | .bar => some .or_ | .amp => some .and_ | .caret => some .xor | _ => none := by
  cases s <;> rfl

/-! ### coercions -/

@[simp] theorem coerce_ty (t : TExpr) (τ : Ty) : (coerce t τ).ty = τ := by
  unfold coerce; split <;> simp_all [TExpr.ty]

theorem eval_coerce {t : TExpr} {τ : Ty} {v : Int} (h : eval t = .ok v) (hr : InRangeM t.ty v) :
    eval (coerce t τ) = .ok (toIntegerType τ v) := by
  unfold coerce; split
  · rename_i heq; subst heq; rw [h, toIntegerType_of_inRange hr]
  · simp [eval, h]

/-- a value of type `σ` converted to a type `σ'` via the model's coercion -/
theorem eval_coerce_M {t : TExpr} {σ σ' : Spec.CInt.Ty} {v : Int} (ht : t.ty = M σ) (h : eval t = .ok v)
    (hr : inRange σ v = true) : eval (coerce t (M σ')) = .ok (convert σ' v) := by
  rw [eval_coerce h (by rw [ht]; exact (inRangeM_iff σ v).mpr hr), toIntegerType_eq_convert]

theorem promote_ty {t : TExpr} {σ : Spec.CInt.Ty} (ht : t.ty = M σ) : (Model.CEval.promote t).ty = M (Spec.CInt.promote σ) := by
  unfold Model.CEval.promote; rw [coerce_ty, ht, promoteTy_M]

theorem eval_promote {t : TExpr} {σ : Spec.CInt.Ty} {v : Int} (ht : t.ty = M σ) (h : eval t = .ok v)
    (hr : inRange σ v = true) : eval (Model.CEval.promote t) = .ok v := by
  unfold Model.CEval.promote
  rw [ht, promoteTy_M, eval_coerce_M ht h hr, convert_of_inRange (inRange_promote hr)]

/-! ### binary operators -/

theorem arithOperands_ty {a b : TExpr} {sa sb : Spec.CInt.Ty} (ha : a.ty = M sa) (hb : b.ty = M sb) :
    (arithOperands a b).1 = M (uac sa sb) ∧ (arithOperands a b).2.1.ty = M (uac sa sb) ∧
      (arithOperands a b).2.2.ty = M (uac sa sb) := by
  simp only [arithOperands, coerce_ty, promote_ty ha, promote_ty hb, commonType_M, and_self]

theorem arithOperands_evalL {a b : TExpr} {sa sb : Spec.CInt.Ty} {x : Int} (ha : a.ty = M sa) (hb : b.ty = M sb)
    (hx : eval a = .ok x) (hrx : inRange sa x = true) :
    eval (arithOperands a b).2.1 = .ok (convert (uac sa sb) x) := by
  simp only [arithOperands]
  rw [promote_ty ha, promote_ty hb, commonType_M]
  exact eval_coerce_M (promote_ty ha) (eval_promote ha hx hrx) (inRange_promote hrx)

theorem arithOperands_evalR {a b : TExpr} {sa sb : Spec.CInt.Ty} {y : Int} (ha : a.ty = M sa) (hb : b.ty = M sb)
    (hy : eval b = .ok y) (hry : inRange sb y = true) :
    eval (arithOperands a b).2.2 = .ok (convert (uac sa sb) y) := by
  simp only [arithOperands]
  rw [promote_ty ha, promote_ty hb, commonType_M]
  exact eval_coerce_M (promote_ty hb) (eval_promote hb hy hry) (inRange_promote hry)

theorem eval_bin_arith {op : BinOp} (hop : op.isArith = true) {σ : Spec.CInt.Ty} {a b : TExpr} {x y r : Int}
    (ha : eval a = .ok x) (hb : eval b = .ok y) (hx : inRange σ x = true)
    (h : Spec.CInt.evalArith op σ x y = some r) :
    eval (.bin (binSym op) (M σ) a b) = .ok r := by
  cases op <;> simp [BinOp.isArith] at hop <;>
    simp only [eval, binSym, ha, hb, bind_ok, pure_eq_ok, lookup_binary, lookup_integer, reduceCtorEq, if_false,
      Fn.apply2, fit, Spec.CInt.evalArith, false_or, or_false, true_and, false_and, and_true, true_or] at h ⊢
  · rw [arith_fit h]
  · rw [arith_fit h]
  · rw [arith_fit h]
  · split at h
    · cases h
    · rename_i hy; simp only [hy, if_false]; rw [intDiv_eq_tdiv, arith_fit h]
  · split at h
    · cases h
    · rename_i hy; simp only [hy, if_false]
      split at h
      · injection h with h; subst h
        rw [intRem_eq_tmod, toIntegerType_eq_convert, convert_of_inRange (tmod_inRange y hx)]
      · cases h
  · injection h with h; subst h; rw [band_fit]
  · injection h with h; subst h; rw [bor_fit]
  · injection h with h; subst h; rw [bxor_fit]

theorem size_M (σ : Spec.CInt.Ty) : 8 * (M σ).size = σ.bits := by cases σ <;> rfl

theorem signed_M (σ : Spec.CInt.Ty) : (M σ).isSigned = σ.signed := by cases σ <;> rfl

theorem fit_ofBool (τ : Ty) (b : Bool) : toIntegerType τ (Model.CEval.ofBool b) = Spec.CInt.ofBool b := by
  cases τ <;> cases b <;> decide

/-- a valid shift count is unchanged by the conversion to the (promoted) type of the left operand -/
theorem convert_count {s : Spec.CInt.Ty} {c : Int} (h0 : 0 ≤ c) (h1 : c < (Spec.CInt.promote s).bits) :
    convert (Spec.CInt.promote s) c = c := by
  apply convert_of_inRange
  revert h1
  cases s <;> simp [inRange, Spec.CInt.promote, Spec.CInt.Ty.minV, Spec.CInt.Ty.maxV, Spec.CInt.Ty.signed,
    Spec.CInt.Ty.bits, Spec.CInt.Ty.rank] <;> omega

theorem eval_bin_shift {op : BinOp} (hop : op.isShift = true) {σ : Spec.CInt.Ty} {a b : TExpr} {x c r : Int}
    (ha : eval a = .ok x) (hb : eval b = .ok c) (hx : inRange σ x = true)
    (h : Spec.CInt.evalShift op σ x c = some r) :
    eval (.bin (binSym op) (M σ) a b) = .ok r := by
  unfold Spec.CInt.evalShift at h
  split at h
  · cases h
  · rename_i hc
    have hc0 : ¬ c < 0 := by omega
    have hmin : min c (8 * ((M σ).size : Int)) = c := by have := size_M σ; omega
    cases op <;> simp [BinOp.isShift] at hop <;>
      simp only [eval, binSym, ha, hb, bind_ok, pure_eq_ok, lookup_binary, lookup_integer, reduceCtorEq, if_false,
        Fn.apply2, fit, false_or, or_false, true_or, or_true, false_and, and_false, if_true, hc0, hmin] at h ⊢
    · split at h
      · rename_i hs
        split at h
        · cases h
        · split at h
          · rename_i hr; injection h with h; subst h
            rw [toIntegerType_eq_convert, convert_of_inRange hr]
          · cases h
      · rename_i hs; injection h with h; subst h
        rw [toIntegerType_eq_convert, convert_unsigned (by simpa using hs)]
    · injection h with h; subst h
      rw [toIntegerType_eq_convert, convert_of_inRange (shr_inRange _ hx)]

theorem eval_bin_cmp {op : BinOp} {a b : TExpr} {x y r : Int}
    (ha : eval a = .ok x) (hb : eval b = .ok y) (h : Spec.CInt.evalCmp op x y = some r) :
    eval (.bin (binSym op) .int a b) = .ok r := by
  cases op <;> simp only [Spec.CInt.evalCmp, reduceCtorEq] at h <;>
    simp only [eval, binSym, ha, hb, bind_ok, pure_eq_ok, lookup_binary, lookup_integer, reduceCtorEq, if_false,
      Fn.apply2, fit, fit_ofBool] <;>
    (injection h with h; subst h; rfl)

/-! ### integer constants -/

def fitsM (v : Int) (τ : Ty) : Bool := decide (v ≤ limitMax τ)

theorem pickType_of_find {v : Int} {l : List Ty} {τ : Ty} (h : l.find? (fitsM v) = some τ) : pickType v l = some τ := by
  induction l with
  | nil => simp at h
  | cons a l ih =>
    cases l with
    | nil =>
      simp only [List.find?] at h
      split at h
      · injection h with h; subst h; rfl
      · cases h
    | cons b l =>
      rw [List.find?_cons] at h
      unfold pickType
      split at h
      · rename_i hf; injection h with h; subst h
        have : v ≤ limitMax a := by simpa [fitsM] using hf
        simp [this]
      · rename_i hf
        have : ¬ v ≤ limitMax a := by simpa [fitsM] using hf
        simp only [this, if_false]
        exact ih h

theorem onNumber_of_find {d u : Bool} {l : Nat} {v : Nat} {τ : Ty}
    (h : (candidateTypes d u l).find? (fitsM v) = some τ) : onNumber d u l v = .ok (.num τ v) := by
  have hfit : fitsM v τ = true := List.find?_some h
  have h1 : (v : Int) ≤ limitMax τ := by simpa [fitsM] using hfit
  have h2 : ¬ ((v : Int) > limitMax τ) := by omega
  simp only [onNumber, pickType_of_find h, h2, if_false]

theorem inRange_nat (σ : Spec.CInt.Ty) (v : Nat) : inRange σ (v : Int) = fitsM v (M σ) := by
  have hv : (0 : Int) ≤ (v : Int) := Int.natCast_nonneg v
  rw [Bool.eq_iff_iff]
  cases σ <;> simp [inRange, fitsM, limitMax, M, ofSpecTy, Ty.isSigned, Ty.size, Spec.CInt.Ty.minV, Spec.CInt.Ty.maxV,
    Spec.CInt.Ty.signed, Spec.CInt.Ty.bits]

theorem fits_mono (v : Int) : (fitsM v .int = true → fitsM v .uint = true) ∧ (fitsM v .uint = true → fitsM v .long = true) ∧
    (fitsM v .long = true → fitsM v .ulong = true) ∧ fitsM v .llong = fitsM v .long ∧ fitsM v .ullong = fitsM v .ulong := by
  simp [fitsM, limitMax, Ty.isSigned, Ty.size]; omega

theorem find_candidates (b : Base) (s : Suffix) (v : Nat) (σ : Spec.CInt.Ty) (h : litType b s v = some σ) :
    (candidateTypes (decide (b = .dec)) (Suffix.isUnsigned s) (Suffix.longs s)).find? (fitsM v) = some (M σ) := by
  unfold litType at h
  simp only [inRange_nat] at h
  obtain ⟨h1, h2, h3, h4, h5⟩ := fits_mono v
  cases b <;> cases s <;>
    simp only [Spec.CInt.litCandidates, List.find?, M, ofSpecTy, h4, h5] at h <;>
    simp only [candidateTypes, Suffix.isUnsigned, Suffix.longs, List.drop, List.flatMap, List.map, List.flatten,
      decide_true, decide_false, Bool.not_true, Bool.not_false, Bool.or_true,
      Bool.or_false, Bool.true_or, Bool.false_or, if_true, if_false, List.append, List.nil_append, List.cons_append,
      reduceCtorEq, bne_iff_ne, ne_eq, not_true, not_false_eq_true, List.find?, h4, h5, Bool.false_eq_true] <;>
    generalize fitsM (↑v) Ty.int = p1 at * <;> generalize fitsM (↑v) Ty.uint = p2 at * <;>
    generalize fitsM (↑v) Ty.long = p3 at * <;> generalize fitsM (↑v) Ty.ulong = p4 at * <;>
    cases p1 <;> cases p2 <;> cases p3 <;> cases p4 <;> simp_all [M, ofSpecTy] <;> (subst_vars; rfl)

theorem onNumber_spec (b : Base) (s : Suffix) (v : Nat) (σ : Spec.CInt.Ty) (h : litType b s v = some σ) :
    onNumber (decide (b = .dec) && decide (v ≠ 0)) (Suffix.isUnsigned s) (Suffix.longs s) v = .ok (.num (M σ) v) := by
  apply onNumber_of_find
  by_cases hv : v = 0
  · subst hv
    cases b <;> cases s <;>
      simp [litType, Spec.CInt.litCandidates, inRange, Spec.CInt.Ty.minV, Spec.CInt.Ty.maxV, Spec.CInt.Ty.signed,
        Spec.CInt.Ty.bits] at h <;> subst h <;> decide
  · simp only [hv, ne_eq, not_false_eq_true, decide_true, Bool.and_true]
    exact find_candidates b s v σ h

end Proofs.CEval
