import PpciVerif.Spec.CExpr
import PpciVerif.Proofs.CEvalArith
/-!
Lemmas about the specification `Spec.CExpr` alone (C01):

* `typeOf_ofConst` / `eval_ofConst`: on closed constant expressions `Spec.CExpr` *is* `Spec.CInt`
  (the specification validated against gcc by C27);
* `eval_inRange`: a value of an expression of type `σ` is a value of `σ`.
-/
set_option linter.unusedSimpArgs false
set_option linter.unusedVariables false
namespace Proofs.CExpr
open Spec.CInt (Ty Base Suffix UnOp BinOp inRange convert promote uac arith ofBool evalArith evalShift evalCmp evalUn
  litType ofU toU)
open Spec.CExpr
open Proofs.CEval (convert_inRange convert_of_inRange inRange_promote tmod_inRange shr_inRange)

/-! ### closed expressions -/

theorem typeOf_ofConst (e : Spec.CInt.Expr) : typeOf (ofConst e) = Spec.CInt.typeOf e := by
  induction e with
  | lit b s v => rfl
  | chr v => rfl
  | un op a ih => cases op <;> simp [ofConst, typeOf, Spec.CInt.typeOf, ih]
  | bin op a b iha ihb =>
    simp only [ofConst, typeOf, Spec.CInt.typeOf, iha, ihb]
    cases Spec.CInt.typeOf a <;> cases Spec.CInt.typeOf b <;> rfl
  | cond c a b ihc iha ihb =>
    simp only [ofConst, typeOf, Spec.CInt.typeOf, iha, ihb, ihc]
    cases Spec.CInt.typeOf c <;> cases Spec.CInt.typeOf a <;> cases Spec.CInt.typeOf b <;> rfl
  | cast τ a ih => simp [ofConst, typeOf, Spec.CInt.typeOf, ih]

theorem eval_ofConst (ρ : Env) (e : Spec.CInt.Expr) : eval ρ (ofConst e) = Spec.CInt.eval e := by
  induction e with
  | lit b s v => rfl
  | chr v => rfl
  | un op a ih =>
    simp only [ofConst, eval, Spec.CInt.eval, ih, typeOf_ofConst]
    cases Spec.CInt.typeOf a <;> cases Spec.CInt.eval a <;> rfl
  | bin op a b iha ihb =>
    cases op <;> simp only [ofConst, eval, Spec.CInt.eval, iha, ihb, typeOf_ofConst] <;>
      cases Spec.CInt.typeOf a <;> cases Spec.CInt.typeOf b <;> cases Spec.CInt.eval a <;> cases Spec.CInt.eval b <;> rfl
  | cond c a b ihc iha ihb =>
    simp only [ofConst, eval, Spec.CInt.eval, iha, ihb, ihc, typeOf_ofConst]
    cases Spec.CInt.typeOf c <;> cases Spec.CInt.typeOf a <;> cases Spec.CInt.typeOf b <;> cases Spec.CInt.eval c <;> rfl
  | cast τ a ih => simp [ofConst, eval, Spec.CInt.eval, ih]

/-! ### ranges -/

theorem ofBool_inRange (σ : Ty) (b : Bool) : inRange σ (ofBool b) = true := by
  cases σ <;> cases b <;> decide

theorem umod_inRange {σ : Ty} (h : σ.signed = false) (m : Int) : inRange σ (m % 2 ^ σ.bits) = true := by
  revert h
  cases σ <;> simp [inRange, Ty.signed, Ty.minV, Ty.maxV, Ty.bits] <;> omega

theorem arith_inRange {σ : Ty} {m r : Int} (h : arith σ m = some r) : inRange σ r = true := by
  unfold arith at h
  split at h
  · split at h
    · rename_i hr; injection h with h; subst h; exact hr
    · cases h
  · rename_i hs; injection h with h; subst h
    exact umod_inRange (by simpa using hs) m

theorem evalArith_inRange {op : BinOp} {σ : Ty} {x y r : Int} (hx : inRange σ x = true)
    (h : evalArith op σ x y = some r) : inRange σ r = true := by
  cases op <;> simp only [evalArith] at h
  case add => exact arith_inRange h
  case sub => exact arith_inRange h
  case mul => exact arith_inRange h
  case div => split at h; · cases h
              · exact arith_inRange h
  case mod =>
    split at h
    · cases h
    · split at h
      · injection h with h; subst h; exact tmod_inRange y hx
      · cases h
  case band => injection h with h; subst h; exact convert_inRange _ _
  case bor => injection h with h; subst h; exact convert_inRange _ _
  case bxor => injection h with h; subst h; exact convert_inRange _ _
  all_goals cases h

theorem evalShift_inRange {op : BinOp} {σ : Ty} {x c r : Int} (hx : inRange σ x = true)
    (h : evalShift op σ x c = some r) : inRange σ r = true := by
  unfold evalShift at h
  split at h
  · cases h
  · cases op <;> simp only at h
    case shl =>
      split at h
      · split at h
        · cases h
        · split at h
          · rename_i hr; injection h with h; subst h; exact hr
          · cases h
      · rename_i hs; injection h with h; subst h
        exact umod_inRange (by simpa using hs) _
    case shr => injection h with h; subst h; exact shr_inRange _ hx
    all_goals cases h

theorem evalCmp_inRange {op : BinOp} {x y r : Int} (h : evalCmp op x y = some r) : inRange .int r = true := by
  cases op <;> simp only [evalCmp] at h <;> cases h <;> exact ofBool_inRange _ _

theorem evalUn_inRange {op : UnOp} {σ : Ty} {x r : Int} (hop : op ≠ .lnot) (hx : inRange σ x = true)
    (h : evalUn op σ x = some r) : inRange σ r = true := by
  cases op <;> simp only [evalUn] at h
  case neg => exact arith_inRange h
  case bnot => injection h with h; subst h; exact convert_inRange _ _
  case lnot => exact absurd rfl hop
  case plus => injection h with h; subst h; exact hx

theorem char_sub_int {v : Int} (h : inRange .char v = true) : inRange .int v = true := by
  revert h; simp [inRange, Ty.signed, Ty.minV, Ty.maxV, Ty.bits]; omega

theorem litType_inRange {b : Base} {s : Suffix} {v : Nat} {σ : Ty} (h : litType b s v = some σ) :
    inRange σ (v : Int) = true := by
  unfold litType at h
  have := List.find?_some h
  simpa using this

/-- a value of an expression of type `σ` is a value of `σ` -/
theorem eval_inRange (ρ : Env) : ∀ (e : Expr) (σ : Ty) (v : Int), typeOf e = some σ → eval ρ e = some v → inRange σ v = true := by
  intro e
  induction e with
  | var τ i =>
    intro σ v ht hv
    simp only [typeOf, Option.some.injEq] at ht; subst ht
    simp only [eval] at hv
    split at hv
    · rename_i hr; injection hv with hv; subst hv; exact hr
    · cases hv
  | lit b s n =>
    intro σ v ht hv
    simp only [typeOf] at ht
    simp only [eval, ht, Option.map_some, Option.some.injEq] at hv; subst hv
    exact litType_inRange ht
  | chr n =>
    intro σ v ht hv
    simp only [typeOf] at ht
    split at ht
    · rename_i hn
      injection ht with ht; subst ht
      simp only [eval, hn, if_true, Option.some.injEq] at hv; subst hv
      exact char_sub_int (convert_inRange _ _)
    · cases ht
  | szof n =>
    intro σ v ht hv
    simp only [typeOf] at ht
    split at ht
    · rename_i hn
      injection ht with ht; subst ht
      simp only [eval, hn, if_true, Option.some.injEq] at hv; subst hv; exact hn
    · cases ht
  | un op a ih =>
    intro σ v ht hv
    cases hta : typeOf a with
    | none => cases op <;> simp [typeOf, hta] at ht
    | some ta =>
      cases hea : eval ρ a with
      | none => simp [eval, hta, hea] at hv
      | some x =>
        simp only [eval, hta, hea] at hv
        by_cases hop : op = .lnot
        · subst hop
          simp only [typeOf, hta, Option.map_some, Option.some.injEq] at ht; subst ht
          simp only [if_true, evalUn, Option.some.injEq] at hv; subst hv
          exact ofBool_inRange _ _
        · have ht' : σ = promote ta := by
            cases op <;> simp [typeOf, hta] at ht hop ⊢ <;> exact ht.symm
          subst ht'
          simp only [hop, if_false] at hv
          exact evalUn_inRange hop (convert_inRange _ _) hv
  | bin op a b iha ihb =>
    intro σ v ht hv
    cases hta : typeOf a with
    | none => simp [typeOf, hta] at ht
    | some ta =>
      cases htb : typeOf b with
      | none => simp [typeOf, hta, htb] at ht
      | some tb =>
        simp only [typeOf, hta, htb] at ht
        simp only [eval, hta, htb] at hv
        cases op
        case land =>
          simp only [BinOp.isArith, BinOp.isShift, Bool.false_eq_true, if_false, Option.some.injEq] at ht; subst ht
          cases hea : eval ρ a with
          | none => simp [hea] at hv
          | some x =>
            simp only [hea] at hv
            split at hv
            · injection hv with hv; subst hv; decide
            · cases heb : eval ρ b with
              | none => simp [heb] at hv
              | some y => simp only [heb, Option.map_some, Option.some.injEq] at hv; subst hv; exact ofBool_inRange _ _
        case lor =>
          simp only [BinOp.isArith, BinOp.isShift, Bool.false_eq_true, if_false, Option.some.injEq] at ht; subst ht
          cases hea : eval ρ a with
          | none => simp [hea] at hv
          | some x =>
            simp only [hea] at hv
            split at hv
            · injection hv with hv; subst hv; decide
            · cases heb : eval ρ b with
              | none => simp [heb] at hv
              | some y => simp only [heb, Option.map_some, Option.some.injEq] at hv; subst hv; exact ofBool_inRange _ _
        all_goals
          cases hea : eval ρ a with
          | none => simp [hea] at hv
          | some x =>
            cases heb : eval ρ b with
            | none => simp [hea, heb] at hv
            | some y =>
              simp only [hea, heb, BinOp.isArith, BinOp.isShift, Bool.false_eq_true, if_false, if_true,
                Option.some.injEq] at hv ht
              subst ht
              first
                | exact evalArith_inRange (convert_inRange _ _) hv
                | exact evalShift_inRange (convert_inRange _ _) hv
                | exact evalCmp_inRange hv
  | cond c a b ihc iha ihb =>
    intro σ v ht hv
    cases htc : typeOf c with
    | none => simp [typeOf, htc] at ht
    | some tc =>
      cases hta : typeOf a with
      | none => simp [typeOf, htc, hta] at ht
      | some ta =>
        cases htb : typeOf b with
        | none => simp [typeOf, htc, hta, htb] at ht
        | some tb =>
          simp only [typeOf, htc, hta, htb, Option.some.injEq] at ht; subst ht
          simp only [eval, htc, hta, htb] at hv
          cases hec : eval ρ c with
          | none => simp [hec] at hv
          | some x =>
            simp only [hec] at hv
            split at hv
            · cases hea : eval ρ a with
              | none => simp [hea] at hv
              | some y => simp only [hea, Option.map_some, Option.some.injEq] at hv; subst hv; exact convert_inRange _ _
            · cases heb : eval ρ b with
              | none => simp [heb] at hv
              | some y => simp only [heb, Option.map_some, Option.some.injEq] at hv; subst hv; exact convert_inRange _ _
  | cast τ a ih =>
    intro σ v ht hv
    cases hta : typeOf a with
    | none => simp [typeOf, hta] at ht
    | some ta =>
      simp only [typeOf, hta, Option.map_some, Option.some.injEq] at ht; subst ht
      cases hea : eval ρ a with
      | none => simp [eval, hea] at hv
      | some x => simp only [eval, hea, Option.map_some, Option.some.injEq] at hv; subst hv; exact convert_inRange _ _

end Proofs.CExpr
