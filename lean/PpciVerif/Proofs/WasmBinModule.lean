import PpciVerif.Proofs.WasmBin
/-! C21 helper lemmas: the module level (section chain, `normalize`). -/
namespace Proofs.WasmBin
open Model.WasmBin
open Model.Leb128 (uencLoop sencLoop unsignedDecode signedDecode signedEncode)

section Sane
variable {T : Tables} (hT : T.Sane = true)

theorem readsTo_customs (strict : Bool) : ∀ (cs : List Custom) (st : RState) (rest : Bytes) (Q : RState → Prop),
    st.last = 0 → (∀ c ∈ cs, utf8Valid c.name = true) →
    (∀ st', Step st st' 0 (cs.map Def.custom) → ReadsTo T strict st' rest Q) →
    ReadsTo T strict st (cs.flatMap (fun c => encSection 0 (encCustom c)) ++ rest) Q
  | [], st, rest, Q, hl, _, hc => by
    simpa using hc st ⟨by omega, by simp, rfl, rfl⟩
  | c :: cs, st, rest, Q, hl, hv, hc => by
    simp only [List.flatMap_cons, List.append_assoc]
    refine readsTo_section strict st _ 0 (by omega) _ _ Q (body_custom strict st c hl (hv c (by simp))) ?_
    refine readsTo_customs strict cs _ rest Q rfl (fun d hd => hv d (by simp [hd])) ?_
    intro st' h
    refine hc st' ⟨h.last, ?_, h.t4f, h.nfuncs⟩
    rw [h.defs]; simp

/-- validity of the definitions, per section -/
structure SectionsOk (T : Tables) (s : Sections) : Prop where
  customs : ∀ c ∈ s.customs, utf8Valid c.name = true
  types : ∀ x ∈ s.types, (x.params.all (typeOk T) && x.results.all (typeOk T)) = true
  imports : ∀ x ∈ s.imports, importOk T x = true
  tables : ∀ x ∈ s.tables, (x.kind == T.funcref || x.kind == T.externref) = true
  globals : ∀ x ∈ s.globals, (typeOk T x.ty && exprOk T x.init) = true
  exports : ∀ x ∈ s.exports, (utf8Valid x.name && decide (x.kind < 4)) = true
  elems : ∀ x ∈ s.elems, elemOk T x = true
  funcs : ∀ f ∈ s.funcs, (f.locals.all (typeOk T) && exprOk T f.body) = true
  datas : ∀ x ∈ s.datas, dataOk T x = true
  starts : s.starts.length ≤ 1
  datacounts : s.datacounts.length ≤ 1

include hT in
theorem readsTo_sections (strict : Bool) (s : Sections) (hs : SectionsOk T s) :
    ReadsTo T strict {} (encSections T s)
      (fun st => st.defs = s.toDefs ∧ st.type4func.length = st.nfuncs) := by
  have happ : encSections T s = encSections T s ++ [] := by simp
  rw [happ]
  simp only [encSections, List.append_assoc]
  -- custom sections
  refine readsTo_customs strict s.customs {} _ _ rfl hs.customs ?_
  intro st0 h0
  -- 1 type
  refine readsTo_vec strict 1 (by omega) (by omega) _ Def.type s.types st0 _ _ (by have := h0.last; omega)
    (fun hne => body_types hT strict st0 s.types (by have := h0.last; omega) hne hs.types) ?_
  intro st1 h1
  -- 2 import
  refine readsTo_vec strict 2 (by omega) (by omega) _ Def.imp s.imports st1 _ _ (by have := h1.last; omega)
    (fun hne => body_imports hT strict st1 s.imports (by have := h1.last; omega) hne hs.imports) ?_
  intro st2 h2
  -- 3 function
  have hstep3 : ∀ (rest : Bytes) Q, (∀ st3, st3.last ≤ 3 → st3.defs = st2.defs → st3.type4func = s.funcs.map (·.typeIdx) →
      st3.nfuncs = st2.nfuncs → ReadsTo T strict st3 rest Q) →
      ReadsTo T strict st2 (encVecSection 3 (fun (f : Func) => encU f.typeIdx) s.funcs ++ rest) Q := by
    intro rest Q hc
    have ht2 : st2.type4func = [] := by rw [h2.t4f, h1.t4f, h0.t4f]
    by_cases hx : s.funcs = []
    · simp only [hx, encVecSection, List.isEmpty_nil, if_true, List.nil_append]
      exact hc st2 (by have := h2.last; omega) rfl (by simp [ht2, hx]) rfl
    · have he : s.funcs.isEmpty = false := by cases hf : s.funcs <;> simp_all
      simp only [encVecSection, he]
      refine readsTo_section strict st2 _ 3 (by omega) _ _ Q
        (body_function strict st2 s.funcs (by have := h2.last; omega) hx) ?_
      exact hc _ (by simp) rfl (by simp [ht2]) rfl
  refine hstep3 _ _ ?_
  intro st3 h3l h3d h3t h3n
  -- 4 table
  refine readsTo_vec strict 4 (by omega) (by omega) _ Def.table s.tables st3 _ _ (by omega)
    (fun hne => body_tables hT strict st3 s.tables (by omega) hne hs.tables) ?_
  intro st4 h4
  -- 5 memory
  refine readsTo_vec strict 5 (by omega) (by omega) _ Def.memory s.memories st4 _ _ (by have := h4.last; omega)
    (fun hne => body_memories strict st4 s.memories (by have := h4.last; omega) hne) ?_
  intro st5 h5
  -- 6 global
  refine readsTo_vec strict 6 (by omega) (by omega) _ Def.global s.globals st5 _ _ (by have := h5.last; omega)
    (fun hne => body_globals hT strict st5 s.globals (by have := h5.last; omega) hne hs.globals) ?_
  intro st6 h6
  -- 7 export
  refine readsTo_vec strict 7 (by omega) (by omega) _ Def.export s.exports st6 _ _ (by have := h6.last; omega)
    (fun hne => body_exports strict st6 s.exports (by have := h6.last; omega) hne hs.exports) ?_
  intro st7 h7
  -- 8 start
  have hstep8 : ∀ (rest : Bytes) Q, (∀ st8, Step st7 st8 8 (s.starts.map Def.start) → ReadsTo T strict st8 rest Q) →
      ReadsTo T strict st7 (encOneSection 8 s.starts ++ rest) Q := by
    intro rest Q hc
    have hlen := hs.starts
    match hst : s.starts, hlen with
    | [], _ =>
      simp only [encOneSection, List.nil_append]
      exact hc st7 ⟨by have := h7.last; omega, by simp [hst], rfl, rfl⟩
    | [x], _ =>
      simp only [encOneSection]
      refine readsTo_section strict st7 _ 8 (by omega) _ _ Q (body_start strict st7 x (by have := h7.last; omega)) ?_
      exact hc _ ⟨by simp, by simp [hst], rfl, rfl⟩
    | _ :: _ :: _, h => simp at h
  refine hstep8 _ _ ?_
  intro st8 h8
  -- 9 elem
  refine readsTo_vec strict 9 (by omega) (by omega) _ Def.elem s.elems st8 _ _ (by have := h8.last; omega)
    (fun hne => body_elems hT strict st8 s.elems (by have := h8.last; omega) hne hs.elems) ?_
  intro st9 h9
  -- 10 code
  have ht9 : st9.type4func = s.funcs.map (·.typeIdx) := by
    rw [h9.t4f, h8.t4f, h7.t4f, h6.t4f, h5.t4f, h4.t4f, h3t]
  have hstep10 : ∀ (rest : Bytes) Q, (∀ st10, st10.last ≤ 10 → st10.defs = st9.defs ++ s.funcs.map Def.func →
      st10.type4func = st9.type4func → st10.nfuncs = st9.nfuncs + s.funcs.length → ReadsTo T strict st10 rest Q) →
      ReadsTo T strict st9 (encVecSection 10 (encFunc T) s.funcs ++ rest) Q := by
    intro rest Q hc
    by_cases hx : s.funcs = []
    · simp only [hx, encVecSection, List.isEmpty_nil, if_true, List.nil_append]
      exact hc st9 (by have := h9.last; omega) (by simp [hx]) rfl (by simp [hx])
    · have he : s.funcs.isEmpty = false := by cases hf : s.funcs <;> simp_all
      simp only [encVecSection, he]
      refine readsTo_section strict st9 _ 10 (by omega) _ _ Q
        (body_code hT strict st9 s.funcs (by have := h9.last; omega) hx ht9 hs.funcs) ?_
      exact hc _ (by simp) rfl rfl rfl
  refine hstep10 _ _ ?_
  intro st10 h10l h10d h10t h10n
  -- 11 data
  refine readsTo_vec strict 11 (by omega) (by omega) _ Def.data s.datas st10 _ _ (by omega)
    (fun hne => body_datas hT strict st10 s.datas (by omega) hne hs.datas) ?_
  intro st11 h11
  -- 12 datacount
  have hstep12 : ∀ Q, (∀ st12, Step st11 st12 12 (s.datacounts.map Def.datacount) → ReadsTo T strict st12 [] Q) →
      ReadsTo T strict st11 (encOneSection 12 s.datacounts ++ []) Q := by
    intro Q hc
    have hlen := hs.datacounts
    match hst : s.datacounts, hlen with
    | [], _ =>
      simp only [encOneSection, List.nil_append]
      exact hc st11 ⟨by have := h11.last; omega, by simp [hst], rfl, rfl⟩
    | [x], _ =>
      simp only [encOneSection]
      refine readsTo_section strict st11 _ 12 (by omega) _ _ Q
        (body_datacount strict st11 x (by have := h11.last; omega)) ?_
      exact hc _ ⟨by simp, by simp [hst], rfl, rfl⟩
    | _ :: _ :: _, h => simp at h
  refine hstep12 _ ?_
  intro st12 h12
  refine readsTo_nil strict st12 _ ⟨?_, ?_⟩
  · rw [h12.defs, h11.defs, h10d, h9.defs, h8.defs, h7.defs, h6.defs, h5.defs, h4.defs, h3d, h2.defs, h1.defs, h0.defs]
    simp [Sections.toDefs]
  · rw [h12.t4f, h11.t4f, h10t, ht9, h12.nfuncs, h11.nfuncs, h10n, h9.nfuncs, h8.nfuncs, h7.nfuncs, h6.nfuncs,
      h5.nfuncs, h4.nfuncs, h3n, h2.nfuncs, h1.nfuncs, h0.nfuncs]
    simp

theorem sectionsOk_of_valid (m : List Def) (h : Valid T m = true) : SectionsOk T (split m) := by
  simp only [Valid, Bool.and_eq_true, List.all_eq_true, decide_eq_true_eq] at h
  obtain ⟨⟨hall, hst⟩, hdc⟩ := h
  refine ⟨?_, ?_, ?_, ?_, ?_, ?_, ?_, ?_, ?_, hst, hdc⟩
  all_goals
    intro x hx
    simp only [split, List.mem_filterMap] at hx
    obtain ⟨d, hd, hdx⟩ := hx
    have := hall d hd
    cases d <;> simp at hdx
    subst hdx
  · simpa [defOk] using this
  · simpa [defOk] using this
  · simpa [defOk] using this
  · simpa [defOk] using this
  · simpa [defOk] using this
  · simpa [defOk] using this
  · simpa [defOk] using this
  · simpa [defOk] using this
  · simpa [defOk] using this

include hT in
/-- reading what the writer wrote gives the module back (definitions in section order) -/
theorem readModule_enc (strict : Bool) (m : List Def) (h : Valid T m = true) :
    readModule T strict (encModule T m) = .ok (normalize m) := by
  obtain ⟨f, hf, st, hr, hd, ht⟩ := readsTo_sections hT strict (split m) (sectionsOk_of_valid m h)
  have hr' := rSections_mono strict f _ _ _ (header.length + (encSections T (split m)).length + 1) hr (by omega)
  have hh : ∀ rest, rHeader (header ++ rest) = .ok ((), rest) := by
    intro rest
    have h1 := rExact_append [0x00, 0x61, 0x73, 0x6D] ([1, 0, 0, 0] ++ rest)
    have h2 := rExact_append [1, 0, 0, 0] rest
    simp only [List.length_cons, List.length_nil, List.cons_append, List.nil_append] at h1 h2
    simp [rHeader, header, h1, h2]
  simp [readModule, encModule, hh, hr', ht, normalize, hd]

include hT in
theorem row_single (id b : Nat) (hlt : id < T.count) (hk : T.opcodeKey id = some (b, none)) :
    T.reverz1 b = some id := by
  have h := sane_instr hT id hlt
  simp only [instrRowOk, hk] at h
  cases ho : T.operands id with
  | none => simp [ho] at h
  | some kinds =>
    simp only [ho, Bool.and_eq_true] at h
    have a := h.1.1.1.2
    cases hr : T.reverz1 b with
    | none => simp [hr] at a
    | some id' => simp only [hr, beq_iff_eq] at a; rw [a]

include hT in
theorem row_pair (id p s : Nat) (hlt : id < T.count) (hk : T.opcodeKey id = some (p, some s)) :
    T.reverz2 p s = some id := by
  have h := sane_instr hT id hlt
  simp only [instrRowOk, hk] at h
  cases ho : T.operands id with
  | none => simp [ho] at h
  | some kinds =>
    simp only [ho, Bool.and_eq_true] at h
    have a := h.1.2
    cases hr : T.reverz2 p s with
    | none => simp [hr] at a
    | some id' => simp only [hr, beq_iff_eq] at a; rw [a]

end Sane

/-! ### `normalize` -/

theorem filterMap_const_none {α β} (l : List α) : l.filterMap (fun _ => (none : Option β)) = [] := by
  induction l <;> simp_all

theorem split_toDefs (s : Sections) : split s.toDefs = s := by
  cases s
  simp [split, Sections.toDefs, List.filterMap_append, List.filterMap_map, Function.comp_def, filterMap_const_none]

theorem normalize_idem (m : List Def) : normalize (normalize m) = normalize m := by
  simp [normalize, split_toDefs]

theorem encModule_normalize (T : Tables) (m : List Def) : encModule T (normalize m) = encModule T m := by
  simp [encModule, normalize, split_toDefs]

theorem valid_normalize (T : Tables) (m : List Def) (h : Valid T m = true) : Valid T (normalize m) = true := by
  simp only [Valid, Bool.and_eq_true, List.all_eq_true, decide_eq_true_eq] at h ⊢
  obtain ⟨⟨hall, hst⟩, hdc⟩ := h
  refine ⟨⟨?_, by simpa [normalize, split_toDefs] using hst⟩, by simpa [normalize, split_toDefs] using hdc⟩
  intro d hd
  apply hall
  simp only [normalize, Sections.toDefs, List.mem_append, List.mem_map, split, List.mem_filterMap] at hd
  rcases hd with ((((((((((( ⟨x, ⟨d', hd', hx⟩, rfl⟩ | ⟨x, ⟨d', hd', hx⟩, rfl⟩) | ⟨x, ⟨d', hd', hx⟩, rfl⟩) |
    ⟨x, ⟨d', hd', hx⟩, rfl⟩) | ⟨x, ⟨d', hd', hx⟩, rfl⟩) | ⟨x, ⟨d', hd', hx⟩, rfl⟩) | ⟨x, ⟨d', hd', hx⟩, rfl⟩) |
    ⟨x, ⟨d', hd', hx⟩, rfl⟩) | ⟨x, ⟨d', hd', hx⟩, rfl⟩) | ⟨x, ⟨d', hd', hx⟩, rfl⟩) | ⟨x, ⟨d', hd', hx⟩, rfl⟩) |
    ⟨x, ⟨d', hd', hx⟩, rfl⟩) <;>
  · cases d' <;> simp at hx
    subst hx
    exact hd'

end Proofs.WasmBin
