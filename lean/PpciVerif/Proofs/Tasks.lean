import PpciVerif.Model.Tasks
import PpciVerif.Spec.Tasks
/-!
Helper lemmas for C34: the invariant of the depth-first walk `Model.Tasks.visit`
and its consequences.  Core Lean only.
-/
namespace Proofs.Tasks
open Model.Tasks hiding Graph
open Spec.Tasks

/-! ### facts about the specification -/

theorem Reach.trans {g : Graph} {u v w : Nat} (h1 : Reach g u v) (h2 : Reach g v w) : Reach g u w := by
  induction h1 with
  | refl _ => exact h2
  | step hd _ ih => exact Reach.step hd (ih h2)

theorem Reach.single {g : Graph} {u v : Nat} (h : Dep g u v) : Reach g u v :=
  Reach.step h (Reach.refl v)

/-! ### `Topo g done`: `done` (newest first) is duplicate-free and every entry
    is a target all of whose dependencies were finished earlier -/

def Topo (g : Graph) : List Nat → Prop
  | [] => True
  | v :: l => Topo g l ∧ v ∉ l ∧ ∃ ds, g.lookup v = some ds ∧ ∀ d, d ∈ ds → d ∈ l

theorem Topo.nodup {g : Graph} : ∀ {l : List Nat}, Topo g l → l.Nodup
  | [], _ => List.nodup_nil
  | _ :: _, ⟨ht, hn, _⟩ => List.nodup_cons.mpr ⟨hn, Topo.nodup ht⟩

/-- every entry of a `Topo` list is a target of the project -/
theorem Topo.isTarget {g : Graph} : ∀ {l : List Nat}, Topo g l → ∀ {x}, x ∈ l → IsTarget g x
  | [], _, _, hx => by simp at hx
  | _ :: _, ⟨ht, _, ds, hl, _⟩, _, hx => by
    rcases List.mem_cons.mp hx with rfl | hx'
    · exact ⟨ds, hl⟩
    · exact Topo.isTarget ht hx'

/-- a `Topo` list is closed under direct dependencies … -/
theorem Topo.dep_mem {g : Graph} : ∀ {l : List Nat}, Topo g l → ∀ {x y}, x ∈ l → Dep g x y → y ∈ l
  | [], _, _, _, hx, _ => by simp at hx
  | v :: l, ⟨ht, _, ds, hl, hds⟩, x, y, hx, hd => by
    rcases List.mem_cons.mp hx with rfl | hx'
    · obtain ⟨ds', hl', hy⟩ := hd
      rw [hl] at hl'; cases hl'
      exact List.mem_cons_of_mem _ (hds y hy)
    · exact List.mem_cons_of_mem _ (Topo.dep_mem ht hx' hd)

/-- … hence under dependency paths … -/
theorem Topo.reach_mem {g : Graph} {l : List Nat} (ht : Topo g l) {x y : Nat}
    (hx : x ∈ l) (hr : Reach g x y) : y ∈ l := by
  induction hr with
  | refl _ => exact hx
  | step hd _ ih => exact ih (ht.dep_mem hx hd)

/-- … and no entry lies on a cycle. -/
theorem Topo.acyclic {g : Graph} : ∀ {l : List Nat}, Topo g l → ∀ {x}, x ∈ l → ¬ OnCycle g x
  | [], _, _, hx => by simp at hx
  | v :: l, ht@⟨htl, hn, ds, hl, hds⟩, x, hx => by
    rcases List.mem_cons.mp hx with rfl | hx'
    · rintro ⟨w, ⟨ds', hl', hw⟩, hr⟩
      rw [hl] at hl'; cases hl'
      exact hn (htl.reach_mem (hds w hw) hr)
    · exact Topo.acyclic htl hx'

theorem Topo.suffix {g : Graph} : ∀ (l₁ : List Nat) {l₂ : List Nat}, Topo g (l₁ ++ l₂) → Topo g l₂
  | [], _, h => h
  | _ :: l₁, _, h => Topo.suffix l₁ h.1

/-- in execution order (`done.reverse`) every target comes after its dependencies -/
theorem Topo.afterDeps {g : Graph} {done : List Nat} (ht : Topo g done) : AfterDeps g done.reverse := by
  intro l₁ v l₂ h d hd
  have h' : done = l₂.reverse ++ v :: l₁.reverse := by
    have := congrArg List.reverse h
    simpa using this
  rw [h'] at ht
  obtain ⟨_, _, ds, hl, hds⟩ := Topo.suffix _ ht
  obtain ⟨ds', hl', hd'⟩ := hd
  rw [hl] at hl'; cases hl'
  simpa using hds d hd'

/-! ### the invariant of the walk -/

/-- what a call `visit g ds stack done` guarantees about its result -/
def Post (g : Graph) (ds stack done : List Nat) : Except Err (List Nat) → Prop
  | .ok done' =>
      ∃ ext, done' = ext ++ done ∧ Topo g done' ∧ (∀ d, d ∈ ds → d ∈ done') ∧
        (∀ x, x ∈ ext → x ∉ stack) ∧ (∀ x, x ∈ ext → ∃ d, d ∈ ds ∧ Reach g d x)
  | .error .loop =>
      (∃ d, d ∈ ds ∧ ∃ x, Reach g d x ∧ OnCycle g x) ∨ (∃ d, d ∈ ds ∧ ∃ s, s ∈ stack ∧ Reach g d s)
  | .error .notFound =>
      ∃ d, d ∈ ds ∧ ∃ x, Reach g d x ∧ g.lookup x = none

theorem visit_post (g : Graph) (ds stack done : List Nat) (ht : Topo g done) :
    Post g ds stack done (visit g ds stack done) := by
  fun_induction visit g ds stack done with
  | case1 stack done =>
    exact ⟨[], rfl, ht, by simp, by simp, by simp⟩
  | case2 stack done d rest hs =>
    exact Or.inr ⟨d, by simp, d, hs, Reach.refl d⟩
  | case3 stack done d rest hs hdone ih =>
    have := ih ht
    revert this
    cases visit g rest stack done with
    | ok done' =>
      rintro ⟨ext, he, ht', hmem, hst, hre⟩
      refine ⟨ext, he, ht', ?_, hst, ?_⟩
      · intro x hx
        rcases List.mem_cons.mp hx with rfl | hx'
        · rw [he]; exact List.mem_append_right _ hdone
        · exact hmem x hx'
      · intro x hx
        obtain ⟨d', hd', hr⟩ := hre x hx
        exact ⟨d', List.mem_cons_of_mem _ hd', hr⟩
    | error e =>
      cases e with
      | loop =>
        rintro (⟨d', hd', h⟩ | ⟨d', hd', h⟩)
        · exact Or.inl ⟨d', List.mem_cons_of_mem _ hd', h⟩
        · exact Or.inr ⟨d', List.mem_cons_of_mem _ hd', h⟩
      | notFound =>
        rintro ⟨d', hd', h⟩
        exact ⟨d', List.mem_cons_of_mem _ hd', h⟩
  | case4 stack done d rest hs hdone hl =>
    exact ⟨d, by simp, d, Reach.refl d, hl⟩
  | case5 stack done d rest hs hdone ds' hl e he ih =>
    have := ih ht
    rw [he] at this
    cases e with
    | loop =>
      rcases this with ⟨d', hd', x, hr, hc⟩ | ⟨d', hd', s, hs', hr⟩
      · exact Or.inl ⟨d, by simp, x, Reach.step ⟨ds', hl, hd'⟩ hr, hc⟩
      · rcases List.mem_cons.mp hs' with rfl | hs''
        · exact Or.inl ⟨s, by simp, s, Reach.refl s, d', ⟨ds', hl, hd'⟩, hr⟩
        · exact Or.inr ⟨d, by simp, s, hs'', Reach.step ⟨ds', hl, hd'⟩ hr⟩
    | notFound =>
      obtain ⟨d', hd', x, hr, hn⟩ := this
      exact ⟨d, by simp, x, Reach.step ⟨ds', hl, hd'⟩ hr, hn⟩
  | case6 stack done d rest hs hdone ds' hl done1 he ih1 ih2 =>
    have h1 := ih1 ht
    rw [he] at h1
    obtain ⟨ext1, he1, ht1, hmem1, hst1, hre1⟩ := h1
    have hd1 : d ∉ done1 := by
      rw [he1]; intro hm
      rcases List.mem_append.mp hm with hm | hm
      · exact hst1 d hm (by simp)
      · exact hdone hm
    have ht2 : Topo g (d :: done1) := ⟨ht1, hd1, ds', hl, hmem1⟩
    have h2 := ih2 ht2
    revert h2
    cases visit g rest stack (d :: done1) with
    | ok done2 =>
      rintro ⟨ext2, he2, ht', hmem2, hst2, hre2⟩
      refine ⟨ext2 ++ d :: ext1, by simp [he2, he1], ht', ?_, ?_, ?_⟩
      · intro x hx
        rcases List.mem_cons.mp hx with rfl | hx'
        · rw [he2]; simp
        · exact hmem2 x hx'
      · intro x hx
        rcases List.mem_append.mp hx with hx | hx
        · exact hst2 x hx
        · rcases List.mem_cons.mp hx with rfl | hx
          · exact hs
          · exact fun h => hst1 x hx (List.mem_cons_of_mem _ h)
      · intro x hx
        rcases List.mem_append.mp hx with hx | hx
        · obtain ⟨d', hd', hr⟩ := hre2 x hx
          exact ⟨d', List.mem_cons_of_mem _ hd', hr⟩
        · rcases List.mem_cons.mp hx with rfl | hx
          · exact ⟨x, by simp, Reach.refl x⟩
          · obtain ⟨d', hd', hr⟩ := hre1 x hx
            exact ⟨d, by simp, Reach.step ⟨ds', hl, hd'⟩ hr⟩
    | error e =>
      cases e with
      | loop =>
        rintro (⟨d', hd', h⟩ | ⟨d', hd', h⟩)
        · exact Or.inl ⟨d', List.mem_cons_of_mem _ hd', h⟩
        · exact Or.inr ⟨d', List.mem_cons_of_mem _ hd', h⟩
      | notFound =>
        rintro ⟨d', hd', h⟩
        exact ⟨d', List.mem_cons_of_mem _ hd', h⟩

/-! ### consequences for `targetSequence` -/

theorem sequence_ok {g : Graph} {req order : List Nat} (h : targetSequence g req = .ok order) :
    Topo g order.reverse ∧ (∀ v, v ∈ order ↔ Needed g req v) := by
  unfold targetSequence at h
  have hp := visit_post g req [] [] (by simp [Topo])
  cases hv : visit g req [] [] with
  | error e => rw [hv] at h; cases h
  | ok done =>
    rw [hv] at h hp
    have : order = done.reverse := by cases h; rfl
    subst this
    obtain ⟨ext, he, ht, hmem, _, hre⟩ := hp
    simp only [List.append_nil] at he
    subst he
    refine ⟨by simpa using ht, fun v => ⟨fun hv => ?_, ?_⟩⟩
    · obtain ⟨d, hd, hr⟩ := hre v (by simpa using hv)
      exact ⟨d, hd, hr⟩
    · rintro ⟨r, hr, hreach⟩
      simpa using ht.reach_mem (hmem r hr) hreach

theorem sequence_loop {g : Graph} {req : List Nat} (h : targetSequence g req = .error .loop) :
    CycleReachable g req := by
  unfold targetSequence at h
  have hp := visit_post g req [] [] (by simp [Topo])
  cases hv : visit g req [] [] with
  | ok done => rw [hv] at h; cases h
  | error e =>
    rw [hv] at h hp
    have : e = .loop := by cases h; rfl
    subst this
    rcases hp with ⟨d, hd, x, hr, hc⟩ | ⟨_, _, s, hs, _⟩
    · exact ⟨x, ⟨d, hd, hr⟩, hc⟩
    · simp at hs

theorem sequence_notFound {g : Graph} {req : List Nat} (h : targetSequence g req = .error .notFound) :
    ∃ v, Needed g req v ∧ ¬ IsTarget g v := by
  unfold targetSequence at h
  have hp := visit_post g req [] [] (by simp [Topo])
  cases hv : visit g req [] [] with
  | ok done => rw [hv] at h; cases h
  | error e =>
    rw [hv] at h hp
    have : e = .notFound := by cases h; rfl
    subst this
    obtain ⟨d, hd, x, hr, hn⟩ := hp
    exact ⟨x, ⟨d, hd, hr⟩, by rintro ⟨ds, hds⟩; rw [hn] at hds; cases hds⟩

/-- `count` form of "duplicate-free with exactly these members" -/
theorem exactlyOnce_of {g : Graph} {req order : List Nat} (hn : order.Nodup)
    (hm : ∀ v, v ∈ order ↔ Needed g req v) : ExactlyOnce g req order := by
  constructor
  · intro v hv
    rw [hn.count]; simp [(hm v).mpr hv]
  · intro v hv
    exact List.count_eq_zero.mpr (fun h => hv ((hm v).mp h))

end Proofs.Tasks
