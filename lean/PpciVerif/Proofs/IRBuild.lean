import PpciVerif.Model.IRFrag
/-!
# Proofs.IRBuild — the construction layer rebuilds a function from its raw instructions

Main result (`feedAll_spec` and the block / function level corollaries further down): feeding the raw
form (`eraseInstr`) of the instructions of a function of the fragment `funcCore` to `Model.IRBuild.feed` /
`append`, in order, never fails and — once all values of the function are defined — has rebuilt exactly
the original instructions.  In between, an operand naming a value that is defined *later* in the text
is recorded as a placeholder; `maskInstr D` describes the recorded instruction while `D` is the set of
values defined so far.
-/
namespace Proofs.IRBuild
open Spec.IR Model.IRBuild Model.IRFrag

/-! ## association lists -/

theorem lookupTy_cons (l : TyEnv) (y x : String) (t : Ty) :
    lookupTy ((y, t) :: l) x = if x = y then some t else lookupTy l x := rfl

theorem lookupTy_setTy (l : TyEnv) (x y : String) (w : Ty) :
    lookupTy (setTy l x w) y =
      if y = x then (if (lookupTy l x).isSome then some w else none) else lookupTy l y := by
  induction l with
  | nil => simp [setTy, lookupTy]
  | cons p r ih =>
    obtain ⟨k, t⟩ := p
    by_cases hxk : x = k
    · subst hxk
      by_cases hy : y = x
      · subst hy; simp [setTy, lookupTy]
      · simp [setTy, lookupTy, hy]
    · by_cases hy : y = x
      · subst hy; simp [setTy, lookupTy, hxk, ih]
      · by_cases hyk : y = k
        · subst hyk
          have hxy : ¬ x = y := hxk
          simp [setTy, lookupTy, hxy, hy]
        · simp [setTy, lookupTy, hxk, hyk, ih, hy]

theorem lookupTy_eraseKey (l : TyEnv) (x y : String) :
    lookupTy (eraseKey l x) y = if y = x then none else lookupTy l y := by
  induction l with
  | nil => simp [eraseKey, lookupTy]
  | cons p r ih =>
    obtain ⟨k, t⟩ := p
    by_cases hxk : x = k
    · subst hxk
      by_cases hy : y = x
      · subst hy; simp [eraseKey, ih]
      · simp [eraseKey, lookupTy, ih, hy]
    · by_cases hy : y = x
      · subst hy; simp [eraseKey, lookupTy, hxk, ih]
      · simp [eraseKey, lookupTy, hxk, ih, hy]

theorem lookupTy_append (a b : TyEnv) (x : String) :
    lookupTy (a ++ b) x = match lookupTy a x with | some t => some t | none => lookupTy b x := by
  induction a with
  | nil => simp [lookupTy]
  | cons p r ih =>
    obtain ⟨k, t⟩ := p
    by_cases h : x = k
    · simp [lookupTy, h]
    · simp [lookupTy, h, ih]

theorem lookupTy_isSome_iff (l : TyEnv) (x : String) :
    (lookupTy l x).isSome = true ↔ x ∈ l.map (·.1) := by
  induction l with
  | nil => simp [lookupTy]
  | cons p r ih =>
    obtain ⟨k, t⟩ := p
    by_cases h : x = k
    · simp [lookupTy, h]
    · simp [lookupTy, h, ih]

theorem lookupTy_none_iff (l : TyEnv) (x : String) :
    lookupTy l x = none ↔ x ∉ l.map (·.1) := by
  rw [← lookupTy_isSome_iff]; cases lookupTy l x <;> simp

/-! ## the invariant of a function body -/

/-- a placeholder of a value of type `T` has type `t` -/
def okPend (T t : Ty) : Prop := t = T ∨ t = .ptr ∨ (T.isBlob = true ∧ t = .blob 1 1)

/-- operand as the reader records it while exactly the values `D` of the function are defined -/
def maskOp (D : List String) : Operand → Operand
  | .loc x => if x ∈ D then .loc x else .glob x
  | .glob g => .glob g

/-- `G`: all module-level names; `env`: all values of the function; `D`: the values defined so far -/
structure Inv (G : List String) (env : TyEnv) (D : List String) (st : BState) : Prop where
  globs : ∀ g, g ∈ st.globals → g ∈ G
  locs : ∀ x, lookupTy st.locals x = if x ∈ D then lookupTy env x else none
  pend : ∀ x t, lookupTy st.pending x = some t →
    (x ∈ G ∧ x ∉ st.globals ∧ t = .ptr) ∨ (x ∉ D ∧ ∃ T, lookupTy env x = some T ∧ okPend T t)

theorem tyOf_loc (G : List String) (env : TyEnv) (x : String) : tyOf G env (.loc x) = lookupTy env x := rfl

theorem tyOf_glob (G : List String) (env : TyEnv) (g : String) (T : Ty) :
    tyOf G env (.glob g) = some T ↔ (g ∈ G ∧ T = .ptr) := by
  simp only [tyOf]
  by_cases h : G.contains g = true
  · have h' : g ∈ G := by simpa using h
    simp [h, h', eq_comm]
  · have h' : g ∉ G := by simpa using h
    simp [h, h']

/-- what one `find_value` / `get_value_ref` does to the state and returns -/
theorem lookup_spec {G : List String} {env : TyEnv} {D : List String} {st : BState}
    (h : Inv G env D st) (hdisj : ∀ x, x ∈ env.map (·.1) → x ∉ G)
    (o : Operand) (T : Ty) (hT : tyOf G env o = some T) (want : Option Ty)
    (hw : want = none ∨ want = some T ∨ (want = some (.blob 1 1) ∧ T.isBlob = true)) :
    ∃ p' t', lookup st (opName o) want = ({ st with pending := p' }, maskOp D o, t') ∧
      Inv G env D { st with pending := p' } ∧
      (want = some T → t' = T) ∧ (T = .ptr → t' = .ptr) ∧
      (want = some (.blob 1 1) → T.isBlob = true → t'.isBlob = true) ∧
      (∀ x, o = .loc x → x ∉ D → (lookupTy p' x).isSome = true) ∧
      (∀ y, (lookupTy st.pending y).isSome = true → (lookupTy p' y).isSome = true) := by
  cases o with
  | loc x =>
    have hx : lookupTy env x = some T := hT
    have hxenv : x ∈ env.map (·.1) := (lookupTy_isSome_iff env x).1 (by simp [hx])
    have hxG : x ∉ G := hdisj x hxenv
    have hxg : x ∉ st.globals := fun hm => hxG (h.globs x hm)
    by_cases hD : x ∈ D
    · -- already defined
      have hl : lookupTy st.locals x = some T := by rw [h.locs x]; simp [hD, hx]
      refine ⟨st.pending, T, ?_, ?_, ?_, ?_, ?_, ?_, ?_⟩
      · simp [lookup, opName, hl, maskOp, hD]
      · exact h
      · intro _; rfl
      · intro hp; exact hp
      · intro _ hb; exact hb
      · intro y hy hny; cases hy; exact absurd hD hny
      · intro y hy; exact hy
    · -- forward reference
      have hl : lookupTy st.locals x = none := by rw [h.locs x]; simp [hD]
      cases hp : lookupTy st.pending x with
      | some t =>
        have hold : okPend T t := by
          rcases h.pend x t hp with ⟨hg, _, _⟩ | ⟨_, T', hT', hok⟩
          · exact absurd hg hxG
          · rw [hx] at hT'; cases hT'; exact hok
        cases want with
        | none =>
          refine ⟨st.pending, t, ?_, ?_, ?_, ?_, ?_, ?_, ?_⟩
          · simp [lookup, opName, hl, hxg, hp, maskOp, hD]
          · exact h
          · intro hc; cases hc
          · intro hTp; subst hTp
            rcases hold with h1 | h1 | ⟨h1, _⟩
            · exact h1
            · exact h1
            · simp [Ty.isBlob] at h1
          · intro hc; cases hc
          · intro y hy _; cases hy; simp [hp]
          · intro y hy; exact hy
        | some w =>
          have hwok : okPend T w := by
            rcases hw with hw | hw | ⟨hw, hb⟩
            · cases hw
            · cases hw; exact Or.inl rfl
            · cases hw; exact Or.inr (Or.inr ⟨hb, rfl⟩)
          refine ⟨setTy st.pending x w, w, ?_, ?_, ?_, ?_, ?_, ?_, ?_⟩
          · simp [lookup, opName, hl, hxg, hp, maskOp, hD]
          · refine ⟨h.globs, h.locs, ?_⟩
            intro y t' hy
            rw [lookupTy_setTy] at hy
            by_cases hyx : y = x
            · subst hyx
              simp [hp] at hy
              subst hy
              exact Or.inr ⟨hD, T, hx, hwok⟩
            · simp [hyx] at hy
              exact h.pend y t' hy
          · intro hc; cases hc; rfl
          · intro hTp; subst hTp
            rcases hwok with h1 | h1 | ⟨h1, _⟩
            · exact h1
            · exact h1
            · simp [Ty.isBlob] at h1
          · intro hc _; cases hc; rfl
          · intro y hy _; cases hy; simp [lookupTy_setTy, hp]
          · intro y hy
            rw [lookupTy_setTy]
            by_cases hyx : y = x
            · subst hyx; simp [hp]
            · simp [hyx, hy]
      | none =>
        have hnew : okPend T (want.getD .ptr) := by
          rcases hw with hw | hw | ⟨hw, hb⟩
          · subst hw; exact Or.inr (Or.inl rfl)
          · subst hw; exact Or.inl rfl
          · subst hw; exact Or.inr (Or.inr ⟨hb, rfl⟩)
        refine ⟨(x, want.getD .ptr) :: st.pending, want.getD .ptr, ?_, ?_, ?_, ?_, ?_, ?_, ?_⟩
        · simp [lookup, opName, hl, hxg, hp, maskOp, hD]
        · refine ⟨h.globs, h.locs, ?_⟩
          intro y t' hy
          rw [lookupTy_cons] at hy
          by_cases hyx : y = x
          · subst hyx
            simp at hy
            subst hy
            exact Or.inr ⟨hD, T, hx, hnew⟩
          · simp [hyx] at hy
            exact h.pend y t' hy
        · intro hc; subst hc; rfl
        · intro hTp; subst hTp
          rcases hnew with h1 | h1 | ⟨h1, _⟩
          · exact h1
          · exact h1
          · simp [Ty.isBlob] at h1
        · intro hc _; subst hc; rfl
        · intro y hy _; cases hy; simp [lookupTy_cons]
        · intro y hy
          rw [lookupTy_cons]
          by_cases hyx : y = x
          · simp [hyx]
          · simp [hyx, hy]
  | glob g =>
    obtain ⟨hgG, hTp⟩ := (tyOf_glob G env g T).1 hT
    subst hTp
    have hgenv : g ∉ env.map (·.1) := fun hm => hdisj g hm hgG
    have hl : lookupTy st.locals g = none := by
      rw [h.locs g]
      have : lookupTy env g = none := (lookupTy_none_iff env g).2 hgenv
      split <;> simp [this]
    have hwant : want = none ∨ want = some .ptr := by
      rcases hw with hw | hw | ⟨_, hb⟩
      · exact Or.inl hw
      · exact Or.inr hw
      · simp [Ty.isBlob] at hb
    by_cases hgs : g ∈ st.globals
    · have hc : g ∈ st.globals := hgs
      refine ⟨st.pending, .ptr, ?_, h, ?_, ?_, ?_, ?_, ?_⟩
      · simp [lookup, opName, hl, hc, maskOp]
      · intro _; rfl
      · intro _; rfl
      · intro _ hb; simp [Ty.isBlob] at hb
      · intro y hy; cases hy
      · intro y hy; exact hy
    · have hc : g ∉ st.globals := hgs
      cases hp : lookupTy st.pending g with
      | some t =>
        have htp : t = .ptr := by
          rcases h.pend g t hp with ⟨_, _, h1⟩ | ⟨_, T', hT', _⟩
          · exact h1
          · have : lookupTy env g = none := (lookupTy_none_iff env g).2 hgenv
            rw [this] at hT'; cases hT'
        subst htp
        rcases hwant with hw' | hw'
        · subst hw'
          refine ⟨st.pending, .ptr, ?_, h, ?_, ?_, ?_, ?_, ?_⟩
          · simp [lookup, opName, hl, hc, hp, maskOp]
          · intro _; rfl
          · intro _; rfl
          · intro hcc; cases hcc
          · intro y hy; cases hy
          · intro y hy; exact hy
        · subst hw'
          refine ⟨setTy st.pending g .ptr, .ptr, ?_, ?_, ?_, ?_, ?_, ?_, ?_⟩
          · simp [lookup, opName, hl, hc, hp, maskOp]
          · refine ⟨h.globs, h.locs, ?_⟩
            intro y t' hy
            rw [lookupTy_setTy] at hy
            by_cases hyx : y = g
            · subst hyx
              simp [hp] at hy
              subst hy
              exact Or.inl ⟨hgG, hgs, rfl⟩
            · simp [hyx] at hy
              exact h.pend y t' hy
          · intro _; rfl
          · intro _; rfl
          · intro hcc; cases hcc
          · intro y hy; cases hy
          · intro y hy
            rw [lookupTy_setTy]
            by_cases hyx : y = g
            · subst hyx; simp [hp]
            · simp [hyx, hy]
      | none =>
        have hgd : want.getD .ptr = .ptr := by
          rcases hwant with hw' | hw' <;> subst hw' <;> rfl
        refine ⟨(g, want.getD .ptr) :: st.pending, want.getD .ptr, ?_, ?_, ?_, ?_, ?_, ?_, ?_⟩
        · simp [lookup, opName, hl, hc, hp, maskOp]
        · refine ⟨h.globs, h.locs, ?_⟩
          intro y t' hy
          rw [lookupTy_cons] at hy
          by_cases hyx : y = g
          · subst hyx
            simp at hy
            subst hy
            exact Or.inl ⟨hgG, hgs, hgd⟩
          · simp [hyx] at hy
            exact h.pend y t' hy
        · intro _; exact hgd
        · intro _; exact hgd
        · intro hcc; rw [hcc] at hgd; cases hgd
        · intro y hy; cases hy
        · intro y hy
          rw [lookupTy_cons]
          by_cases hyx : y = g
          · simp [hyx]
          · simp [hyx, hy]

/-! ## states that differ only in the placeholder dictionary and the block map -/

def withPR (st : BState) (p : TyEnv) (r : List String) : BState := { st with pending := p, blockRefs := r }

@[simp] theorem withPR_pending (st : BState) (p r) : (withPR st p r).pending = p := rfl
@[simp] theorem withPR_blockRefs (st : BState) (p r) : (withPR st p r).blockRefs = r := rfl
@[simp] theorem withPR_globals (st : BState) (p r) : (withPR st p r).globals = st.globals := rfl
@[simp] theorem withPR_locals (st : BState) (p r) : (withPR st p r).locals = st.locals := rfl
@[simp] theorem withPR_json (st : BState) (p r) : (withPR st p r).json = st.json := rfl
@[simp] theorem withPR_defined (st : BState) (p r) : (withPR st p r).defined = st.defined := rfl
@[simp] theorem withPR_blockDefs (st : BState) (p r) : (withPR st p r).blockDefs = st.blockDefs := rfl
@[simp] theorem withPR_curName (st : BState) (p r) : (withPR st p r).curName = st.curName := rfl
@[simp] theorem withPR_cur (st : BState) (p r) : (withPR st p r).cur = st.cur := rfl
@[simp] theorem withPR_blocks (st : BState) (p r) : (withPR st p r).blocks = st.blocks := rfl
@[simp] theorem withPR_funcs (st : BState) (p r) : (withPR st p r).funcs = st.funcs := rfl
@[simp] theorem withPR_withPR (st : BState) (p r p' r') : withPR (withPR st p r) p' r' = withPR st p' r' := rfl
theorem withPR_self (st : BState) : withPR st st.pending st.blockRefs = st := rfl

theorem Inv_withPR {G env D st} (p : TyEnv) (r r' : List String)
    (h : Inv G env D (withPR st p r)) : Inv G env D (withPR st p r') :=
  ⟨h.globs, h.locs, h.pend⟩

/-- `lookup_spec` phrased with `withPR`, starting from any state of the family -/
theorem lookup_spec' {G : List String} {env : TyEnv} {D : List String} {st : BState} {p : TyEnv} {r : List String}
    (h : Inv G env D (withPR st p r)) (hdisj : ∀ x, x ∈ env.map (·.1) → x ∉ G)
    (o : Operand) (T : Ty) (hT : tyOf G env o = some T) (want : Option Ty)
    (hw : want = none ∨ want = some T ∨ (want = some (.blob 1 1) ∧ T.isBlob = true)) :
    ∃ p' t', lookup (withPR st p r) (opName o) want = (withPR st p' r, maskOp D o, t') ∧
      Inv G env D (withPR st p' r) ∧
      (want = some T → t' = T) ∧ (T = .ptr → t' = .ptr) ∧
      (want = some (.blob 1 1) → T.isBlob = true → t'.isBlob = true) ∧
      (∀ x, o = .loc x → x ∉ D → (lookupTy p' x).isSome = true) ∧
      (∀ y, (lookupTy p y).isSome = true → (lookupTy p' y).isSome = true) := by
  obtain ⟨p', t', h1, h2, h3, h4, h5, h6, h7⟩ := lookup_spec h hdisj o T hT want hw
  exact ⟨p', t', h1, h2, h3, h4, h5, h6, h7⟩

def addRef (r : List String) (b : String) : List String := if r.contains b then r else b :: r

theorem mem_addRef {r : List String} {b c : String} (h : c ∈ addRef r b) : c ∈ r ∨ c = b := by
  unfold addRef at h
  by_cases hb : b ∈ r
  · simp only [List.contains_eq_mem, hb, decide_true, if_true] at h; exact Or.inl h
  · simp only [List.contains_eq_mem, hb, decide_false, Bool.false_eq_true, if_false, List.mem_cons] at h
    rcases h with rfl | h
    · exact Or.inr rfl
    · exact Or.inl h

theorem blockRef_withPR (st : BState) (p : TyEnv) (r : List String) (b : String) :
    blockRef (withPR st p r) b = withPR st p (addRef r b) := by
  by_cases h : b ∈ r <;> simp [blockRef, addRef, h, withPR]

/-! ## the recorded form of an instruction -/

def maskInstr (D : List String) : Instr → Instr
  | .addrof d s => .addrof d (maskOp D s)
  | .binop d ty op a b => .binop d ty op (maskOp D a) (maskOp D b)
  | .unop d ty op a => .unop d ty op (maskOp D a)
  | .cast d ty a => .cast d ty (maskOp D a)
  | .load d ty a vol => .load d ty (maskOp D a) vol
  | .store ty v a vol =>
    .store (match maskOp D v with | .loc _ => ty | .glob _ => .ptr) (maskOp D v) (maskOp D a) vol
  | .copyblob d s n => .copyblob (maskOp D d) (maskOp D s) n
  | .phi d ty ins => .phi d ty (ins.map (fun p => (p.1, maskOp D p.2)))
  | .fcall d ty c args => .fcall d ty (maskOp D c) (args.map (maskOp D))
  | .pcall c args => .pcall (maskOp D c) (args.map (maskOp D))
  | .cjump a c b y n => .cjump (maskOp D a) c (maskOp D b) y n
  | .ret v => .ret (maskOp D v)
  | i => i

@[simp] theorem opName_eraseOpnd (o : Operand) : opName (eraseOpnd o) = opName o := by
  cases o <;> rfl

/-- arguments of a call: untyped look-ups, in order -/
theorem lookupMany_spec {G : List String} {env : TyEnv} {D : List String} {st : BState}
    (hdisj : ∀ x, x ∈ env.map (·.1) → x ∉ G) (r : List String) :
    ∀ (args : List Operand) (p : TyEnv), Inv G env D (withPR st p r) →
      (∀ o ∈ args, (tyOf G env o).isSome = true) →
      ∃ p', lookupMany (withPR st p r) (args.map eraseOpnd) = (withPR st p' r, args.map (maskOp D)) ∧
        Inv G env D (withPR st p' r) ∧
        (∀ o ∈ args, ∀ x, o = .loc x → x ∉ D → (lookupTy p' x).isSome = true) ∧
        (∀ y, (lookupTy p y).isSome = true → (lookupTy p' y).isSome = true) := by
  intro args
  induction args with
  | nil => intro p h _; exact ⟨p, rfl, h, by simp, fun _ hy => hy⟩
  | cons a rest ih =>
    intro p h hops
    have ha : (tyOf G env a).isSome = true := hops a (by simp)
    obtain ⟨T, hT⟩ := Option.isSome_iff_exists.1 ha
    obtain ⟨p1, t1, e1, i1, -, -, -, f1, m1⟩ := lookup_spec' h hdisj a T hT none (Or.inl rfl)
    obtain ⟨p2, e2, i2, f2, m2⟩ := ih p1 i1 (fun o ho => hops o (by simp [ho]))
    refine ⟨p2, ?_, i2, ?_, fun y hy => m2 y (m1 y hy)⟩
    · simp [lookupMany, e1, e2]
    · intro o ho x hx hD
      rcases List.mem_cons.1 ho with rfl | ho'
      · exact m2 x (f1 x hx hD)
      · exact f2 o ho' x hx hD

theorem setIncoming_fresh (acc : List (String × Operand)) (b : String) (o : Operand)
    (h : b ∉ acc.map (·.1)) : setIncoming acc b o = acc ++ [(b, o)] := by
  induction acc with
  | nil => rfl
  | cons q r ih =>
    obtain ⟨c, v⟩ := q
    have hc : ¬ c = b := by intro hcb; apply h; simp [hcb]
    have hr : b ∉ r.map (·.1) := by intro hm; apply h; simp [hm]
    simp [setIncoming, hc, ih hr]

theorem nodupB_cons (x : String) (r : List String) :
    nodupB (x :: r) = true ↔ (x ∉ r ∧ nodupB r = true) := by
  simp [nodupB]

/-- inputs of a phi: typed look-ups; distinct blocks are appended in order -/
theorem buildPhiIns_spec {G : List String} {env : TyEnv} {D : List String} {st : BState}
    (hdisj : ∀ x, x ∈ env.map (·.1) → x ∉ G) (ty : Ty) :
    ∀ (ins : List (String × Operand)) (acc : List (String × Operand)) (p : TyEnv) (r : List String),
      Inv G env D (withPR st p r) →
      (∀ q ∈ ins, tyOf G env q.2 = some ty) →
      nodupB (ins.map (·.1)) = true → (∀ q ∈ ins, q.1 ∉ acc.map (·.1)) →
      ∃ p' r', buildPhiIns (withPR st p r) ty (ins.map (fun q => (q.1, eraseOpnd q.2))) acc =
          .ok (withPR st p' r', acc ++ ins.map (fun q => (q.1, maskOp D q.2))) ∧
        Inv G env D (withPR st p' r') ∧
        (∀ q ∈ ins, ∀ x, q.2 = .loc x → x ∉ D → (lookupTy p' x).isSome = true) ∧
        (∀ y, (lookupTy p y).isSome = true → (lookupTy p' y).isSome = true) ∧
        (∀ b, b ∈ r' → b ∈ r ∨ b ∈ ins.map (·.1)) := by
  intro ins
  induction ins with
  | nil =>
    intro acc p r h _ _ _
    exact ⟨p, r, by simp [buildPhiIns], h, by simp, fun _ hy => hy, fun b hb => Or.inl hb⟩
  | cons q rest ih =>
    intro acc p r h hty hnd hfresh
    obtain ⟨b, v⟩ := q
    have hv : tyOf G env v = some ty := hty (b, v) (by simp)
    obtain ⟨hb_rest, hnd_rest⟩ := (nodupB_cons b (rest.map (·.1))).1 (by simpa using hnd)
    have hbacc : b ∉ acc.map (·.1) := hfresh (b, v) (by simp)
    have h0 : Inv G env D (withPR st p (addRef r b)) := Inv_withPR p r _ h
    obtain ⟨p1, t1, e1, i1, ht1, -, -, f1, m1⟩ :=
      lookup_spec' h0 hdisj v ty hv (some ty) (Or.inr (Or.inl rfl))
    have ht : t1 = ty := ht1 rfl
    have hfresh' : ∀ q ∈ rest, q.1 ∉ (setIncoming acc b (maskOp D v)).map (·.1) := by
      intro q hq
      rw [setIncoming_fresh acc b _ hbacc]
      have h1 : q.1 ∉ acc.map (·.1) := hfresh q (by simp [hq])
      have h2 : q.1 ≠ b := by
        intro hqb; apply hb_rest; rw [← hqb]; exact List.mem_map_of_mem hq
      simp only [List.map_append, List.map_cons, List.map_nil, List.mem_append, List.mem_singleton, not_or]
      exact ⟨h1, h2⟩
    obtain ⟨p2, r2, e2, i2, f2, m2, b2⟩ :=
      ih (setIncoming acc b (maskOp D v)) p1 _ i1 (fun q hq => hty q (by simp [hq])) hnd_rest hfresh'
    refine ⟨p2, r2, ?_, i2, ?_, fun y hy => m2 y (m1 y hy), ?_⟩
    · simp only [List.map_cons, buildPhiIns, blockRef_withPR, opName_eraseOpnd, e1, ht]
      simp only [ne_eq, not_true_eq_false, ↓reduceIte]
      rw [e2, setIncoming_fresh acc b _ hbacc]
      simp
    · intro q hq x hx hD
      rcases List.mem_cons.1 hq with rfl | hq'
      · exact m2 x (f1 x hx hD)
      · exact f2 q hq' x hx hD
    · intro c hc
      rcases b2 c hc with h' | h'
      · rcases mem_addRef h' with h'' | rfl
        · exact Or.inl h''
        · exact Or.inr (by simp)
      · exact Or.inr (by simp [h'])

/-- an operand that is recorded as a value of the function has that value's type -/
theorem lookup_defined {G : List String} {env : TyEnv} {D : List String} {st : BState}
    (h : Inv G env D st) (o : Operand) (T : Ty) (hT : tyOf G env o = some T) (want : Option Ty)
    (x : String) (hm : maskOp D o = .loc x) : (lookup st (opName o) want).2.2 = T := by
  cases o with
  | glob g => simp [maskOp] at hm
  | loc y =>
    by_cases hD : y ∈ D
    · have hl : lookupTy st.locals y = some T := by
        rw [h.locs y]; simp only [hD, if_true]; exact hT
      simp [lookup, opName, hl]
    · simp [maskOp, hD] at hm

theorem eraseInstr_phi (d : String) (ty : Ty) (ins : List (String × Operand)) :
    eraseInstr (.phi d ty ins) = .phi d ty (ins.map (fun q => (q.1, eraseOpnd q.2))) := rfl

/-- `build` on the raw form of an instruction that satisfies the constructor checks -/
theorem build_spec {G : List String} {env : TyEnv} {D : List String} {st : BState} {p : TyEnv} {r : List String}
    (h : Inv G env D (withPR st p r)) (hdisj : ∀ x, x ∈ env.map (·.1) → x ∉ G) (i : Instr)
    (hops : ∀ o ∈ operands i, (tyOf G env o).isSome = true)
    (hty : typedOk G env i = true) (hphi : nodupB (i.phiIns.map (·.1)) = true) :
    ∃ p' r', build (withPR st p r) (eraseInstr i) = .ok (withPR st p' r', maskInstr D i) ∧
      Inv G env D (withPR st p' r') ∧
      (∀ o ∈ operands i, ∀ x, o = .loc x → x ∉ D → (lookupTy p' x).isSome = true) ∧
      (∀ y, (lookupTy p y).isSome = true → (lookupTy p' y).isSome = true) ∧
      (∀ b, b ∈ r' → b ∈ r ∨ b ∈ blockRefsOf i) := by
  have triv : ∀ (j : Instr), operands j = [] → build (withPR st p r) (eraseInstr j) = .ok (withPR st p r, maskInstr D j) →
      ∃ p' r', build (withPR st p r) (eraseInstr j) = .ok (withPR st p' r', maskInstr D j) ∧
        Inv G env D (withPR st p' r') ∧
        (∀ o ∈ operands j, ∀ x, o = .loc x → x ∉ D → (lookupTy p' x).isSome = true) ∧
        (∀ y, (lookupTy p y).isSome = true → (lookupTy p' y).isSome = true) ∧
        (∀ b, b ∈ r' → b ∈ r ∨ b ∈ blockRefsOf j) := by
    intro j hj e
    exact ⟨p, r, e, h, by simp [hj], fun _ hy => hy, fun b hb => Or.inl hb⟩
  cases i with
  | const d ty c => exact triv _ rfl rfl
  | undefined d ty => exact triv _ rfl rfl
  | literal d data => exact triv _ rfl rfl
  | exit => exact triv _ rfl rfl
  | alloc d s a =>
    have hs : s ≠ 0 := by simpa [typedOk] using hty
    exact triv _ rfl (by simp [build, eraseInstr, hs, maskInstr])
  | asm tpl ins outs cl => simp [typedOk] at hty
  | jump t =>
    refine ⟨p, addRef r t, ?_, Inv_withPR p r _ h, by simp [operands, Instr.uses], fun _ hy => hy, ?_⟩
    · simp only [eraseInstr, build, blockRef_withPR, maskInstr]
    · intro b hb
      rcases mem_addRef hb with hb | rfl
      · exact Or.inl hb
      · exact Or.inr (by simp [blockRefsOf, Instr.targets])
  | addrof d s =>
    have hs : (tyOf G env s).isSome = true := hops s (by simp [operands, Instr.uses])
    obtain ⟨T, hT⟩ := Option.isSome_iff_exists.1 hs
    have hb : T.isBlob = true := by simpa [typedOk, hT] using hty
    obtain ⟨p1, t1, e1, i1, -, -, hb1, f1, m1⟩ :=
      lookup_spec' h hdisj s T hT (some (.blob 1 1)) (Or.inr (Or.inr ⟨rfl, hb⟩))
    refine ⟨p1, r, ?_, i1, ?_, m1, fun b hb => Or.inl hb⟩
    · simp [build, eraseInstr, e1, hb1 rfl hb, maskInstr]
    · intro o ho x hx hD
      simp [operands, Instr.uses] at ho; subst ho; exact f1 x hx hD
  | binop d ty op a b =>
    obtain ⟨ha, hb⟩ : tyOf G env a = some ty ∧ tyOf G env b = some ty := by simpa [typedOk] using hty
    obtain ⟨p1, t1, e1, i1, ht1, -, -, f1, m1⟩ := lookup_spec' h hdisj a ty ha (some ty) (Or.inr (Or.inl rfl))
    obtain ⟨p2, t2, e2, i2, ht2, -, -, f2, m2⟩ := lookup_spec' i1 hdisj b ty hb (some ty) (Or.inr (Or.inl rfl))
    refine ⟨p2, r, ?_, i2, ?_, fun y hy => m2 y (m1 y hy), fun b hb => Or.inl hb⟩
    · simp [build, eraseInstr, e1, e2, ht1 rfl, ht2 rfl, maskInstr]
    · intro o ho x hx hD
      simp [operands, Instr.uses] at ho
      rcases ho with rfl | rfl
      · exact m2 x (f1 x hx hD)
      · exact f2 x hx hD
  | unop d ty op a =>
    have ha : tyOf G env a = some ty := by simpa [typedOk] using hty
    obtain ⟨p1, t1, e1, i1, ht1, -, -, f1, m1⟩ := lookup_spec' h hdisj a ty ha (some ty) (Or.inr (Or.inl rfl))
    refine ⟨p1, r, ?_, i1, ?_, m1, fun b hb => Or.inl hb⟩
    · simp [build, eraseInstr, e1, ht1 rfl, maskInstr]
    · intro o ho x hx hD
      simp [operands, Instr.uses] at ho; subst ho; exact f1 x hx hD
  | cast d ty a =>
    have ha : (tyOf G env a).isSome = true := hops a (by simp [operands, Instr.uses])
    obtain ⟨T, hT⟩ := Option.isSome_iff_exists.1 ha
    obtain ⟨p1, t1, e1, i1, -, -, -, f1, m1⟩ := lookup_spec' h hdisj a T hT none (Or.inl rfl)
    refine ⟨p1, r, ?_, i1, ?_, m1, fun b hb => Or.inl hb⟩
    · simp [build, eraseInstr, e1, maskInstr]
    · intro o ho x hx hD
      simp [operands, Instr.uses] at ho; subst ho; exact f1 x hx hD
  | ret v =>
    have ha : (tyOf G env v).isSome = true := hops v (by simp [operands, Instr.uses])
    obtain ⟨T, hT⟩ := Option.isSome_iff_exists.1 ha
    obtain ⟨p1, t1, e1, i1, -, -, -, f1, m1⟩ := lookup_spec' h hdisj v T hT none (Or.inl rfl)
    refine ⟨p1, r, ?_, i1, ?_, m1, fun b hb => Or.inl hb⟩
    · simp [build, eraseInstr, e1, maskInstr]
    · intro o ho x hx hD
      simp [operands, Instr.uses] at ho; subst ho; exact f1 x hx hD
  | load d ty a vol =>
    obtain ⟨ha, hnb⟩ : tyOf G env a = some .ptr ∧ ty.isBlob = false := by simpa [typedOk] using hty
    obtain ⟨p1, t1, e1, i1, -, hp1, -, f1, m1⟩ := lookup_spec' h hdisj a .ptr ha none (Or.inl rfl)
    refine ⟨p1, r, ?_, i1, ?_, m1, fun b hb => Or.inl hb⟩
    · simp [build, eraseInstr, e1, hp1 rfl, hnb, maskInstr]
    · intro o ho x hx hD
      simp [operands, Instr.uses] at ho; subst ho; exact f1 x hx hD
  | store ty v a vol =>
    obtain ⟨hv, ha⟩ : tyOf G env v = some ty ∧ tyOf G env a = some .ptr := by simpa [typedOk] using hty
    obtain ⟨p1, t1, e1, i1, -, -, -, f1, m1⟩ := lookup_spec' h hdisj v ty hv none (Or.inl rfl)
    obtain ⟨p2, t2, e2, i2, -, hp2, -, f2, m2⟩ := lookup_spec' i1 hdisj a .ptr ha none (Or.inl rfl)
    have hdef : ∀ x, maskOp D v = .loc x → t1 = ty := by
      intro x hx
      have := lookup_defined h v ty hv none x hx
      rw [e1] at this; exact this
    refine ⟨p2, r, ?_, i2, ?_, fun y hy => m2 y (m1 y hy), fun b hb => Or.inl hb⟩
    · simp only [build, eraseInstr, opName_eraseOpnd, e1, e2, hp2 rfl, maskInstr]
      cases hmv : maskOp D v with
      | loc x => simp [hdef x hmv]
      | glob g => simp
    · intro o ho x hx hD
      simp [operands, Instr.uses] at ho
      rcases ho with rfl | rfl
      · exact m2 x (f1 x hx hD)
      · exact f2 x hx hD
  | copyblob dd ss n =>
    have hd : (tyOf G env dd).isSome = true := hops dd (by simp [operands, Instr.uses])
    have hs : (tyOf G env ss).isSome = true := hops ss (by simp [operands, Instr.uses])
    obtain ⟨T1, hT1⟩ := Option.isSome_iff_exists.1 hd
    obtain ⟨T2, hT2⟩ := Option.isSome_iff_exists.1 hs
    obtain ⟨p1, t1, e1, i1, -, -, -, f1, m1⟩ := lookup_spec' h hdisj dd T1 hT1 none (Or.inl rfl)
    obtain ⟨p2, t2, e2, i2, -, -, -, f2, m2⟩ := lookup_spec' i1 hdisj ss T2 hT2 none (Or.inl rfl)
    refine ⟨p2, r, ?_, i2, ?_, fun y hy => m2 y (m1 y hy), fun b hb => Or.inl hb⟩
    · simp [build, eraseInstr, e1, e2, maskInstr]
    · intro o ho x hx hD
      simp [operands, Instr.uses] at ho
      rcases ho with rfl | rfl
      · exact m2 x (f1 x hx hD)
      · exact f2 x hx hD
  | cjump a c b y n =>
    have ha : (tyOf G env a).isSome = true := hops a (by simp [operands, Instr.uses])
    have hb : (tyOf G env b).isSome = true := hops b (by simp [operands, Instr.uses])
    obtain ⟨T1, hT1⟩ := Option.isSome_iff_exists.1 ha
    obtain ⟨T2, hT2⟩ := Option.isSome_iff_exists.1 hb
    obtain ⟨p1, t1, e1, i1, -, -, -, f1, m1⟩ := lookup_spec' h hdisj a T1 hT1 none (Or.inl rfl)
    obtain ⟨p2, t2, e2, i2, -, -, -, f2, m2⟩ := lookup_spec' i1 hdisj b T2 hT2 none (Or.inl rfl)
    refine ⟨p2, addRef (addRef r y) n, ?_, Inv_withPR p2 r _ i2, ?_, fun y hy => m2 y (m1 y hy), ?_⟩
    · simp only [build, eraseInstr, opName_eraseOpnd, e1, e2, blockRef_withPR, maskInstr]
    · intro o ho x hx hD
      simp [operands, Instr.uses] at ho
      rcases ho with rfl | rfl
      · exact m2 x (f1 x hx hD)
      · exact f2 x hx hD
    · intro bb hbb
      rcases mem_addRef hbb with h1 | rfl
      · rcases mem_addRef h1 with h2 | rfl
        · exact Or.inl h2
        · exact Or.inr (by simp [blockRefsOf, Instr.targets])
      · exact Or.inr (by simp [blockRefsOf, Instr.targets])
  | fcall d ty c args =>
    have hc : tyOf G env c = some .ptr := by simpa [typedOk] using hty
    obtain ⟨p1, t1, e1, i1, -, hp1, -, f1, m1⟩ := lookup_spec' h hdisj c .ptr hc none (Or.inl rfl)
    obtain ⟨p2, e2, i2, f2, m2⟩ := lookupMany_spec hdisj r args p1 i1
      (fun o ho => hops o (by simp [operands, Instr.uses, ho]))
    refine ⟨p2, r, ?_, i2, ?_, fun y hy => m2 y (m1 y hy), fun b hb => Or.inl hb⟩
    · simp [build, eraseInstr, e1, e2, hp1 rfl, maskInstr]
    · intro o ho x hx hD
      simp [operands, Instr.uses] at ho
      rcases ho with rfl | ho
      · exact m2 x (f1 x hx hD)
      · exact f2 o ho x hx hD
  | pcall c args =>
    have hc : tyOf G env c = some .ptr := by simpa [typedOk] using hty
    obtain ⟨p1, t1, e1, i1, -, hp1, -, f1, m1⟩ := lookup_spec' h hdisj c .ptr hc none (Or.inl rfl)
    obtain ⟨p2, e2, i2, f2, m2⟩ := lookupMany_spec hdisj r args p1 i1
      (fun o ho => hops o (by simp [operands, Instr.uses, ho]))
    refine ⟨p2, r, ?_, i2, ?_, fun y hy => m2 y (m1 y hy), fun b hb => Or.inl hb⟩
    · simp [build, eraseInstr, e1, e2, hp1 rfl, maskInstr]
    · intro o ho x hx hD
      simp [operands, Instr.uses] at ho
      rcases ho with rfl | ho
      · exact m2 x (f1 x hx hD)
      · exact f2 o ho x hx hD
  | phi d ty ins =>
    have hall : ∀ q ∈ ins, tyOf G env q.2 = some ty := by
      intro q hq
      have := hty
      simp only [typedOk, List.all_eq_true] at this
      simpa using this q hq
    obtain ⟨p1, r1, e1, i1, f1, m1, b1⟩ :=
      buildPhiIns_spec hdisj ty ins [] p r h hall (by simpa [Instr.phiIns] using hphi) (by simp)
    refine ⟨p1, r1, ?_, i1, ?_, m1, ?_⟩
    · rw [eraseInstr_phi]
      simp only [build, e1]
      simp [maskInstr, bind, Except.bind, pure, Except.pure]
    · intro o ho x hx hD
      simp only [operands, List.mem_map] at ho
      obtain ⟨q, hq, rfl⟩ := ho
      exact f1 q hq x hx hD
    · intro b hb
      rcases b1 b hb with h' | h'
      · exact Or.inl h'
      · exact Or.inr (by simpa [blockRefsOf] using h')

/-! ## defining a value: placeholders are replaced -/

def maskBlock (D : List String) (b : Block) : Block := { b with instrs := b.instrs.map (maskInstr D) }

theorem dst_maskInstr (D : List String) (i : Instr) : (maskInstr D i).dst? = i.dst? := by
  cases i <;> rfl

theorem isTerminator_maskInstr (D : List String) (i : Instr) : (maskInstr D i).isTerminator = i.isTerminator := by
  cases i <;> rfl

/-- operands are values of the function or module-level names -/
def opsOk (G : List String) (env : TyEnv) (i : Instr) : Prop := ∀ o ∈ operands i, (tyOf G env o).isSome = true

theorem tyOf_isSome_glob {G : List String} {env : TyEnv} {g : String}
    (h : (tyOf G env (.glob g)).isSome = true) : g ∈ G := by
  obtain ⟨T, hT⟩ := Option.isSome_iff_exists.1 h
  exact ((tyOf_glob G env g T).1 hT).1

theorem patchOpnd_maskOp {G : List String} {env : TyEnv} (D : List String) (d : String) (hd : d ∉ G)
    (o : Operand) (ho : (tyOf G env o).isSome = true) :
    patchOpnd d (.loc d) (maskOp D o) = maskOp (d :: D) o := by
  cases o with
  | glob g =>
    have hg : g ∈ G := tyOf_isSome_glob ho
    have : ¬ g = d := fun e => hd (e ▸ hg)
    simp [maskOp, patchOpnd, this]
  | loc x =>
    by_cases hx : x ∈ D
    · simp [maskOp, patchOpnd, hx]
    · by_cases hxd : x = d
      · subst hxd; simp [maskOp, patchOpnd, hx]
      · simp [maskOp, patchOpnd, hx, hxd]

/-- `replace_by` on a recorded instruction = the instruction recorded with one more value defined -/
theorem patchInstr_maskInstr {G : List String} {env : TyEnv} (D : List String) (d : String) (T : Ty)
    (hd : d ∉ G) (hT : lookupTy env d = some T) (i : Instr) (hops : opsOk G env i)
    (hty : typedOk G env i = true) :
    patchInstr d (.loc d) T (maskInstr D i) = maskInstr (d :: D) i := by
  have P := fun o (ho : o ∈ operands i) => patchOpnd_maskOp (G := G) (env := env) D d hd o (hops o ho)
  cases i with
  | const _ _ _ => rfl
  | undefined _ _ => rfl
  | literal _ _ => rfl
  | alloc _ _ _ => rfl
  | exit => rfl
  | jump _ => rfl
  | asm _ _ _ _ => simp [typedOk] at hty
  | addrof dd s => simp [maskInstr, patchInstr, P s (by simp [operands, Instr.uses])]
  | binop dd ty op a b =>
    simp [maskInstr, patchInstr, P a (by simp [operands, Instr.uses]), P b (by simp [operands, Instr.uses])]
  | unop dd ty op a => simp [maskInstr, patchInstr, P a (by simp [operands, Instr.uses])]
  | cast dd ty a => simp [maskInstr, patchInstr, P a (by simp [operands, Instr.uses])]
  | load dd ty a vol => simp [maskInstr, patchInstr, P a (by simp [operands, Instr.uses])]
  | ret v => simp [maskInstr, patchInstr, P v (by simp [operands, Instr.uses])]
  | copyblob a b n =>
    simp [maskInstr, patchInstr, P a (by simp [operands, Instr.uses]), P b (by simp [operands, Instr.uses])]
  | cjump a c b y n =>
    simp [maskInstr, patchInstr, P a (by simp [operands, Instr.uses]), P b (by simp [operands, Instr.uses])]
  | fcall dd ty c args =>
    have hargs : args.map (patchOpnd d (.loc d) ∘ maskOp D) = args.map (maskOp (d :: D)) :=
      List.map_congr_left (fun o ho => P o (by simp [operands, Instr.uses, ho]))
    simp [maskInstr, patchInstr, P c (by simp [operands, Instr.uses]), hargs]
  | pcall c args =>
    have hargs : args.map (patchOpnd d (.loc d) ∘ maskOp D) = args.map (maskOp (d :: D)) :=
      List.map_congr_left (fun o ho => P o (by simp [operands, Instr.uses, ho]))
    simp [maskInstr, patchInstr, P c (by simp [operands, Instr.uses]), hargs]
  | phi dd ty ins =>
    have hins : ins.map ((fun q => (q.1, patchOpnd d (.loc d) q.2)) ∘ (fun q => (q.1, maskOp D q.2))) =
        ins.map (fun q => (q.1, maskOp (d :: D) q.2)) :=
      List.map_congr_left (fun q hq => by
        have := P q.2 (by simp only [operands, List.mem_map]; exact ⟨q, hq, rfl⟩)
        simp [this])
    simp [maskInstr, patchInstr, hins]
  | store ty v a vol =>
    have hv := P v (by simp [operands, Instr.uses])
    have ha := P a (by simp [operands, Instr.uses])
    obtain ⟨hvt, -⟩ : tyOf G env v = some ty ∧ tyOf G env a = some .ptr := by simpa [typedOk] using hty
    simp only [maskInstr, patchInstr, hv, ha]
    congr 1
    cases v with
    | glob g =>
      have hg : g ∈ G := ((tyOf_glob G env g ty).1 hvt).1
      have : ¬ g = d := fun e => hd (e ▸ hg)
      simp [maskOp, this]
    | loc x =>
      by_cases hx : x ∈ D
      · simp [maskOp, hx]
      · by_cases hxd : x = d
        · subst hxd
          have : T = ty := by
            have h1 : lookupTy env x = some ty := hvt
            rw [hT] at h1; exact Option.some.inj h1
          simp [maskOp, hx, this]
        · simp [maskOp, hx, hxd]

theorem maskOp_cons_of_ne (D : List String) (d : String) (o : Operand) (h : o ≠ .loc d) :
    maskOp (d :: D) o = maskOp D o := by
  cases o with
  | glob g => rfl
  | loc x =>
    have : ¬ x = d := fun e => h (e ▸ rfl)
    simp [maskOp, this]

/-- an instruction that does not mention the new value is recorded as before -/
theorem maskInstr_cons_of_unused (D : List String) (d : String) (i : Instr)
    (h : ∀ o ∈ operands i, o ≠ .loc d) : maskInstr (d :: D) i = maskInstr D i := by
  have P := fun o (ho : o ∈ operands i) => maskOp_cons_of_ne D d o (h o ho)
  cases i with
  | const _ _ _ => rfl
  | undefined _ _ => rfl
  | literal _ _ => rfl
  | alloc _ _ _ => rfl
  | exit => rfl
  | jump _ => rfl
  | asm _ _ _ _ => rfl
  | addrof dd s => simp [maskInstr, P s (by simp [operands, Instr.uses])]
  | binop dd ty op a b =>
    simp [maskInstr, P a (by simp [operands, Instr.uses]), P b (by simp [operands, Instr.uses])]
  | unop dd ty op a => simp [maskInstr, P a (by simp [operands, Instr.uses])]
  | cast dd ty a => simp [maskInstr, P a (by simp [operands, Instr.uses])]
  | load dd ty a vol => simp [maskInstr, P a (by simp [operands, Instr.uses])]
  | ret v => simp [maskInstr, P v (by simp [operands, Instr.uses])]
  | copyblob a b n =>
    simp [maskInstr, P a (by simp [operands, Instr.uses]), P b (by simp [operands, Instr.uses])]
  | cjump a c b y n =>
    simp [maskInstr, P a (by simp [operands, Instr.uses]), P b (by simp [operands, Instr.uses])]
  | store ty v a vol =>
    simp [maskInstr, P v (by simp [operands, Instr.uses]), P a (by simp [operands, Instr.uses])]
  | fcall dd ty c args =>
    have hargs : args.map (maskOp (d :: D)) = args.map (maskOp D) :=
      List.map_congr_left (fun o ho => P o (by simp [operands, Instr.uses, ho]))
    simp [maskInstr, P c (by simp [operands, Instr.uses]), hargs]
  | pcall c args =>
    have hargs : args.map (maskOp (d :: D)) = args.map (maskOp D) :=
      List.map_congr_left (fun o ho => P o (by simp [operands, Instr.uses, ho]))
    simp [maskInstr, P c (by simp [operands, Instr.uses]), hargs]
  | phi dd ty ins =>
    have hins : ins.map (fun q => (q.1, maskOp (d :: D) q.2)) = ins.map (fun q => (q.1, maskOp D q.2)) :=
      List.map_congr_left (fun q hq => by
        have := P q.2 (by simp only [operands, List.mem_map]; exact ⟨q, hq, rfl⟩)
        simp [this])
    simp [maskInstr, hins]

/-- a finished instruction whose module-level operands are real module-level names is not touched when
    a function-level value named `d` (not a module-level name) replaces its placeholder -/
theorem patchInstr_of_globOk {G : List String} (d : String) (to : Operand) (T : Ty) (hd : d ∉ G) (i : Instr)
    (h : ∀ o ∈ operands i, ∀ g, o = .glob g → g ∈ G) : patchInstr d to T i = i := by
  have P : ∀ o ∈ operands i, patchOpnd d to o = o := by
    intro o ho
    cases o with
    | loc x => rfl
    | glob g =>
      have : ¬ g = d := fun e => hd (e ▸ h _ ho g rfl)
      simp [patchOpnd, this]
  cases i with
  | const _ _ _ => rfl
  | undefined _ _ => rfl
  | literal _ _ => rfl
  | alloc _ _ _ => rfl
  | exit => rfl
  | jump _ => rfl
  | asm tpl ins outs cl =>
    have h1 : ins.map (patchOpnd d to) = ins := by
      conv => rhs; rw [← List.map_id ins]
      exact List.map_congr_left (fun o ho => P o (by simp [operands, Instr.uses, ho]))
    have h2 : outs.map (patchOpnd d to) = outs := by
      conv => rhs; rw [← List.map_id outs]
      exact List.map_congr_left (fun o ho => P o (by simp [operands, Instr.uses, ho]))
    simp [patchInstr, h1, h2]
  | addrof dd s => simp [patchInstr, P s (by simp [operands, Instr.uses])]
  | binop dd ty op a b =>
    simp [patchInstr, P a (by simp [operands, Instr.uses]), P b (by simp [operands, Instr.uses])]
  | unop dd ty op a => simp [patchInstr, P a (by simp [operands, Instr.uses])]
  | cast dd ty a => simp [patchInstr, P a (by simp [operands, Instr.uses])]
  | load dd ty a vol => simp [patchInstr, P a (by simp [operands, Instr.uses])]
  | ret v => simp [patchInstr, P v (by simp [operands, Instr.uses])]
  | copyblob a b n =>
    simp [patchInstr, P a (by simp [operands, Instr.uses]), P b (by simp [operands, Instr.uses])]
  | cjump a c b y n =>
    simp [patchInstr, P a (by simp [operands, Instr.uses]), P b (by simp [operands, Instr.uses])]
  | store ty v a vol =>
    have hv : v ≠ .glob d := by
      intro e
      exact hd (h v (by simp [operands, Instr.uses]) d e)
    simp [patchInstr, P v (by simp [operands, Instr.uses]), P a (by simp [operands, Instr.uses]), hv]
  | fcall dd ty c args =>
    have hargs : args.map (patchOpnd d to) = args := by
      conv => rhs; rw [← List.map_id args]
      exact List.map_congr_left (fun o ho => P o (by simp [operands, Instr.uses, ho]))
    simp [patchInstr, P c (by simp [operands, Instr.uses]), hargs]
  | pcall c args =>
    have hargs : args.map (patchOpnd d to) = args := by
      conv => rhs; rw [← List.map_id args]
      exact List.map_congr_left (fun o ho => P o (by simp [operands, Instr.uses, ho]))
    simp [patchInstr, P c (by simp [operands, Instr.uses]), hargs]
  | phi dd ty ins =>
    have hins : ins.map (fun q => (q.1, patchOpnd d to q.2)) = ins := by
      conv => rhs; rw [← List.map_id ins]
      exact List.map_congr_left (fun q hq => by
        have := P q.2 (by simp only [operands, List.mem_map]; exact ⟨q, hq, rfl⟩)
        simp [this])
    simp [patchInstr, hins]

/-- the module-level operands of a finished function are module-level names -/
def globOk (G : List String) (i : Instr) : Prop := ∀ o ∈ operands i, ∀ g, o = .glob g → g ∈ G

/-- a stored module-level value (an address) is recorded with type `ptr` -/
def storeOk (i : Instr) : Prop := ∀ ty g a vol, i = .store ty (.glob g) a vol → ty = .ptr

def funcGlobOk (G : List String) (f : Func) : Prop := ∀ b ∈ f.blocks, ∀ i ∈ b.instrs, globOk G i ∧ storeOk i

theorem patchFunc_of_globOk {G : List String} (d : String) (to : Operand) (T : Ty) (hd : d ∉ G) (f : Func)
    (h : funcGlobOk G f) : patchFunc d to T f = f := by
  cases f with
  | mk name isGlobal ret entry params blocks =>
    simp only [patchFunc]
    congr 1
    conv => rhs; rw [← List.map_id blocks]
    apply List.map_congr_left
    intro b hb
    cases b with
    | mk bn is =>
      simp only [patchBlock, id]
      congr 1
      conv => rhs; rw [← List.map_id is]
      apply List.map_congr_left
      intro i hi
      exact patchInstr_of_globOk d to T hd i (h _ hb i hi).1

/-- what is known about the instructions recorded so far -/
structure Recd (G : List String) (env : TyEnv) (funcsDone : List Func) (D : List String)
    (blocksDone : List Block) (curDone : List Instr) (st : BState) : Prop where
  inv : Inv G env D st
  cur : st.cur = curDone.map (maskInstr D)
  blocks : st.blocks = blocksDone.map (maskBlock D)
  funcs : st.funcs = funcsDone
  fwd : ∀ j, j ∈ blocksDone.flatMap (·.instrs) ++ curDone → ∀ o ∈ operands j, ∀ x, o = .loc x → x ∉ D →
    (lookupTy st.pending x).isSome = true

theorem define_spec {G : List String} {env : TyEnv} {funcsDone : List Func} {D : List String}
    {blocksDone : List Block} {curDone : List Instr} {st : BState}
    (h : Recd G env funcsDone D blocksDone curDone st) (hdisj : ∀ x, x ∈ env.map (·.1) → x ∉ G)
    (hfuncs : ∀ f ∈ funcsDone, funcGlobOk G f)
    (hprev : ∀ j, j ∈ blocksDone.flatMap (·.instrs) ++ curDone → opsOk G env j ∧ typedOk G env j = true)
    (d : String) (T : Ty) (hT : lookupTy env d = some T) (hD : d ∉ D) :
    ∃ st2, defineLocal st d T = .ok st2 ∧ Recd G env funcsDone (d :: D) blocksDone curDone st2 ∧
      st2.defined = st.defined ∧ st2.blockRefs = st.blockRefs ∧ st2.blockDefs = st.blockDefs ∧
      st2.curName = st.curName ∧ st2.json = st.json ∧
      (∀ x, lookupTy st2.pending x = if x = d then none else lookupTy st.pending x) ∧
      st2.globals = st.globals := by
  have hdenv : d ∈ env.map (·.1) := (lookupTy_isSome_iff env d).1 (by simp [hT])
  have hdG : d ∉ G := hdisj d hdenv
  have hloc : lookupTy st.locals d = none := by rw [h.inv.locs d]; simp [hD]
  -- the new invariant, given the new placeholder dictionary
  have newInv : ∀ (st2 : BState), st2.globals = st.globals → st2.locals = (d, T) :: st.locals →
      (∀ x, lookupTy st2.pending x = if x = d then none else lookupTy st.pending x) →
      Inv G env (d :: D) st2 := by
    intro st2 hg hl hp
    refine ⟨?_, ?_, ?_⟩
    · intro g hgm; rw [hg] at hgm; exact h.inv.globs g hgm
    · intro x
      rw [hl, lookupTy_cons, h.inv.locs x]
      by_cases hx : x = d
      · subst hx; simp [hT]
      · simp [hx]
    · intro x t hx
      rw [hp x] at hx
      by_cases hxd : x = d
      · simp [hxd] at hx
      · simp only [hxd, if_false] at hx
        rcases h.inv.pend x t hx with ⟨h1, h2, h3⟩ | ⟨h1, h2⟩
        · exact Or.inl ⟨h1, by rw [hg]; exact h2, h3⟩
        · exact Or.inr ⟨by simp [hxd, h1], h2⟩
  have newFwd : ∀ (st2 : BState), (∀ x, lookupTy st2.pending x = if x = d then none else lookupTy st.pending x) →
      ∀ j, j ∈ blocksDone.flatMap (·.instrs) ++ curDone → ∀ o ∈ operands j, ∀ x, o = .loc x → x ∉ d :: D →
        (lookupTy st2.pending x).isSome = true := by
    intro st2 hp j hj o ho x hx hxD
    have hxd : ¬ x = d := fun e => hxD (by simp [e])
    have hxD' : x ∉ D := fun e => hxD (by simp [e])
    rw [hp x]; simp only [hxd, if_false]
    exact h.fwd j hj o ho x hx hxD'
  by_cases hit : (lookupTy st.pending d).isSome = true
  · -- the value was referenced before: replace the placeholder everywhere
    have hcur : st.cur.map (patchInstr d (.loc d) T) = curDone.map (maskInstr (d :: D)) := by
      rw [h.cur, List.map_map]
      apply List.map_congr_left
      intro j hj
      have := hprev j (by simp [hj])
      exact patchInstr_maskInstr D d T hdG hT j this.1 this.2
    have hblocks : st.blocks.map (patchBlock d (.loc d) T) = blocksDone.map (maskBlock (d :: D)) := by
      rw [h.blocks, List.map_map]
      apply List.map_congr_left
      intro b hb
      simp only [Function.comp, patchBlock, maskBlock, List.map_map]
      congr 1
      apply List.map_congr_left
      intro j hj
      have := hprev j (by
        simp only [List.mem_append, List.mem_flatMap]
        exact Or.inl ⟨b, hb, hj⟩)
      exact patchInstr_maskInstr D d T hdG hT j this.1 this.2
    have hfs : st.funcs.map (patchFunc d (.loc ("!dangling!" ++ d)) T) = funcsDone := by
      rw [h.funcs]
      conv => rhs; rw [← List.map_id funcsDone]
      apply List.map_congr_left
      intro f hf
      exact patchFunc_of_globOk d _ T hdG f (hfuncs f hf)
    refine ⟨{ (patchAll st d true T) with locals := (d, T) :: st.locals }, ?_, ?_, rfl, rfl, rfl, rfl, rfl, ?_, rfl⟩
    · simp [defineLocal, hit, patchAll, hloc]
    · have hp : ∀ x, lookupTy (eraseKey st.pending d) x = if x = d then none else lookupTy st.pending x :=
        fun x => lookupTy_eraseKey st.pending d x
      refine ⟨newInv _ rfl rfl hp, ?_, ?_, ?_, newFwd _ hp⟩
      · simpa [patchAll] using hcur
      · simpa [patchAll] using hblocks
      · simpa [patchAll] using hfs
    · intro x; exact lookupTy_eraseKey st.pending d x
  · -- never referenced so far
    have hnone : lookupTy st.pending d = none := by
      cases hq : lookupTy st.pending d with
      | none => rfl
      | some t => simp [hq] at hit
    have hunused : ∀ j, j ∈ blocksDone.flatMap (·.instrs) ++ curDone → ∀ o ∈ operands j, o ≠ .loc d := by
      intro j hj o ho e
      have := h.fwd j hj o ho d e hD
      simp [hnone] at this
    have hp : ∀ x, lookupTy st.pending x = if x = d then none else lookupTy st.pending x := by
      intro x
      by_cases hx : x = d
      · subst hx; simp [hnone]
      · simp [hx]
    refine ⟨{ st with locals := (d, T) :: st.locals }, ?_, ?_, rfl, rfl, rfl, rfl, rfl, hp, rfl⟩
    · simp [defineLocal, hit, hloc]
    · refine ⟨newInv _ rfl rfl hp, ?_, ?_, h.funcs, newFwd _ hp⟩
      · show st.cur = _
        rw [h.cur]
        apply List.map_congr_left
        intro j hj
        exact (maskInstr_cons_of_unused D d j (hunused j (by simp [hj]))).symm
      · show st.blocks = _
        rw [h.blocks]
        apply List.map_congr_left
        intro b hb
        simp only [maskBlock]
        congr 1
        apply List.map_congr_left
        intro j hj
        exact (maskInstr_cons_of_unused D d j (hunused j (by
          simp only [List.mem_append, List.mem_flatMap]
          exact Or.inl ⟨b, hb, hj⟩))).symm

/-! ## one instruction: `feed` then `append` -/

/-- the invariant of a function body between two instructions -/
structure FInv (gs : List String) (G : List String) (env : TyEnv) (bnames : List String) (funcsDone : List Func)
    (D : List String) (blocksDone : List Block) (curDone : List Instr) (begun inDef : List String)
    (st : BState) : Prop where
  recd : Recd G env funcsDone D blocksDone curDone st
  geq : st.globals = gs
  defd : ∀ n, n ∈ st.defined →
    n ∈ inDef ∨ n ∈ (instrDsts (blocksDone.flatMap (·.instrs) ++ curDone)).map (·.1)
  refs : ∀ b, b ∈ st.blockRefs → b ∈ bnames
  bdefs : ∀ n, n ∈ st.blockDefs ↔ n ∈ begun

def newD (D : List String) (i : Instr) : List String :=
  match i.dst? with
  | some (d, _) => d :: D
  | none => D

theorem instrDsts_append (a b : List Instr) : instrDsts (a ++ b) = instrDsts a ++ instrDsts b := by
  simp [instrDsts, List.filterMap_append]

theorem Inv_congr {G : List String} {env : TyEnv} {D : List String} {a b : BState}
    (h : Inv G env D a) (hg : b.globals = a.globals) (hl : b.locals = a.locals) (hp : b.pending = a.pending) :
    Inv G env D b :=
  ⟨fun g hm => h.globs g (hg ▸ hm), fun x => by rw [hl]; exact h.locs x,
   fun x t hx => by
     rw [hp] at hx
     rcases h.pend x t hx with ⟨h1, h2, h3⟩ | h'
     · exact Or.inl ⟨h1, by rw [hg]; exact h2, h3⟩
     · exact Or.inr h'⟩

theorem step_spec {gs : List String} {G : List String} {env : TyEnv} {bnames : List String} {funcsDone : List Func}
    {D : List String} {blocksDone : List Block} {curDone : List Instr} {begun inDef : List String} {st : BState}
    (hF : FInv gs G env bnames funcsDone D blocksDone curDone begun inDef st)
    (hdisj : ∀ x, x ∈ env.map (·.1) → x ∉ G) (hfuncs : ∀ f ∈ funcsDone, funcGlobOk G f)
    (hprev : ∀ j, j ∈ blocksDone.flatMap (·.instrs) ++ curDone → opsOk G env j ∧ typedOk G env j = true)
    (i : Instr) (hops : opsOk G env i) (hty : typedOk G env i = true)
    (hphi : nodupB (i.phiIns.map (·.1)) = true) (hrefs : ∀ b, b ∈ blockRefsOf i → b ∈ bnames)
    (hlast : ∀ j, curDone.getLast? = some j → j.isTerminator = false)
    (hdst : ∀ d T, i.dst? = some (d, T) → lookupTy env d = some T ∧ d ∉ D ∧ d ∉ inDef ∧
      d ∉ (instrDsts (blocksDone.flatMap (·.instrs) ++ curDone)).map (·.1)) :
    ∃ s1 i' st', feed st (eraseInstr i) = .ok (s1, i') ∧ append s1 i' = .ok st' ∧
      FInv gs G env bnames funcsDone (newD D i) blocksDone (curDone ++ [i]) begun inDef st' ∧
      st'.curName = st.curName ∧ st'.json = st.json := by
  obtain ⟨p', r', eb, inv1, fwdi, mono, refs'⟩ :=
    build_spec (st := st) (p := st.pending) (r := st.blockRefs) hF.recd.inv hdisj i hops hty hphi
  have eb' : build st (eraseInstr i) = .ok (withPR st p' r', maskInstr D i) := eb
  have hlastB : ∀ (DD : List String), ((curDone.map (maskInstr DD)).getLast?.map Instr.isTerminator).getD false = false := by
    intro DD
    rw [List.getLast?_map]
    cases hq : curDone.getLast? with
    | none => rfl
    | some j => simp [isTerminator_maskInstr, hlast j hq]
  have refsOk : ∀ b, b ∈ r' → b ∈ bnames := by
    intro b hb
    rcases refs' b hb with h1 | h1
    · exact hF.refs b h1
    · exact hrefs b h1
  cases hd : i.dst? with
  | none =>
    refine ⟨withPR st p' r', maskInstr D i, { (withPR st p' r') with cur := st.cur ++ [maskInstr D i] }, ?_, ?_, ?_, rfl, rfl⟩
    · simp [feed, eb', dst_maskInstr, hd, bind, Except.bind, pure, Except.pure]
    · have := hlastB D
      rw [← hF.recd.cur] at this
      simp [append, dst_maskInstr, hd, this]
    · have hD : newD D i = D := by simp [newD, hd]
      rw [hD]
      refine ⟨⟨Inv_congr inv1 rfl rfl rfl, ?_, hF.recd.blocks, hF.recd.funcs, ?_⟩, hF.geq, ?_, refsOk, hF.bdefs⟩
      · show st.cur ++ [maskInstr D i] = _
        rw [hF.recd.cur]; simp
      · intro j hj o ho x hx hxD
        show (lookupTy p' x).isSome = true
        rw [← List.append_assoc] at hj
        rcases List.mem_append.1 hj with hj | hj
        · exact mono x (hF.recd.fwd j hj o ho x hx hxD)
        · simp at hj; subst hj; exact fwdi o ho x hx hxD
      · intro n hn
        rcases hF.defd n hn with h1 | h1
        · exact Or.inl h1
        · refine Or.inr ?_
          rw [← List.append_assoc, instrDsts_append]
          simp [h1]
  | some dt =>
    obtain ⟨d, T⟩ := dt
    obtain ⟨hT, hDd, hbeg, hdsts⟩ := hdst d T hd
    have recd1 : Recd G env funcsDone D blocksDone curDone (withPR st p' r') :=
      ⟨inv1, hF.recd.cur, hF.recd.blocks, hF.recd.funcs,
       fun j hj o ho x hx hxD => mono x (hF.recd.fwd j hj o ho x hx hxD)⟩
    obtain ⟨st2, edef, recd2, hdef2, hrefs2, hbd2, hcn2, hjs2, hpend2, hgl2⟩ :=
      define_spec recd1 hdisj hfuncs hprev d T hT hDd
    have hi' : (if (lookupTy p' d).isSome = true then patchInstr d (.loc d) T (maskInstr D i) else maskInstr D i) =
        maskInstr (d :: D) i := by
      by_cases hit : (lookupTy p' d).isSome = true
      · have hdG : d ∉ G := hdisj d ((lookupTy_isSome_iff env d).1 (by simp [hT]))
        simp only [hit, if_true]
        exact patchInstr_maskInstr D d T hdG hT i hops hty
      · simp only [hit, if_false]
        refine (maskInstr_cons_of_unused D d i ?_).symm
        intro o ho e
        exact hit (fwdi o ho d e hDd)
    refine ⟨st2, maskInstr (d :: D) i,
      { st2 with cur := st2.cur ++ [maskInstr (d :: D) i], defined := d :: st2.defined }, ?_, ?_, ?_, ?_, ?_⟩
    · have : (withPR st p' r').pending = p' := rfl
      simp only [feed, eb', dst_maskInstr, hd, bind, Except.bind, this, edef, pure, Except.pure, hi']
    · have h1 := hlastB (d :: D)
      rw [← recd2.cur] at h1
      have h2 : d ∉ st2.defined := by
        rw [hdef2]
        intro hm
        rcases hF.defd d hm with h' | h'
        · exact hbeg h'
        · exact hdsts h'
      simp [append, dst_maskInstr, hd, h1, h2]
    · have hD : newD D i = d :: D := by simp [newD, hd]
      rw [hD]
      have hgeq2 : st2.globals = gs := by rw [hgl2]; exact hF.geq
      refine ⟨⟨Inv_congr recd2.inv rfl rfl rfl, ?_, recd2.blocks, recd2.funcs, ?_⟩, hgeq2, ?_, ?_, ?_⟩
      · show st2.cur ++ [maskInstr (d :: D) i] = _
        rw [recd2.cur]; simp
      · intro j hj o ho x hx hxD
        show (lookupTy st2.pending x).isSome = true
        rw [← List.append_assoc] at hj
        rcases List.mem_append.1 hj with hj | hj
        · exact recd2.fwd j hj o ho x hx hxD
        · simp at hj; subst hj
          have hxd : ¬ x = d := fun e => hxD (by simp [e])
          have hxD' : x ∉ D := fun e => hxD (by simp [e])
          rw [hpend2 x]; simp only [hxd, if_false]
          exact fwdi o ho x hx hxD'
      · intro n hn
        show n ∈ inDef ∨ _
        have hn' : n = d ∨ n ∈ st.defined := by
          have : n ∈ d :: st2.defined := hn
          rw [hdef2] at this
          simpa using this
        rw [← List.append_assoc, instrDsts_append]
        rcases hn' with rfl | hn'
        · refine Or.inr ?_
          simp [instrDsts, hd]
        · rcases hF.defd n hn' with h1 | h1
          · exact Or.inl h1
          · exact Or.inr (by simp [h1])
      · intro b hb
        have : b ∈ st2.blockRefs := hb
        rw [hrefs2] at this
        exact refsOk b this
      · intro n
        show n ∈ st2.blockDefs ↔ _
        rw [hbd2]; exact hF.bdefs n
    · exact hcn2
    · exact hjs2

/-! ## the builder programs both readers run (after their syntax is peeled off) -/

def feedApp (st : BState) (i : Instr) : Except RErr BState :=
  match feed st (eraseInstr i) with
  | .error e => .error e
  | .ok (s1, i') => append s1 i'

def feedAll : BState → List Instr → Except RErr BState
  | st, [] => .ok st
  | st, i :: r =>
    match feedApp st i with
    | .error e => .error e
    | .ok s => feedAll s r

theorem nodupB_iff (l : List String) : nodupB l = true ↔ l.Nodup := by
  induction l with
  | nil => simp [nodupB]
  | cons x r ih => simp [nodupB, ih, List.nodup_cons]

theorem noEarlyTerminator_cons2 (a b : Instr) (r : List Instr) :
    noEarlyTerminator (a :: b :: r) = (!a.isTerminator && noEarlyTerminator (b :: r)) := rfl

theorem noEarlyTerminator_mid (l r : List Instr) (j i : Instr)
    (h : noEarlyTerminator (l ++ j :: i :: r) = true) : j.isTerminator = false := by
  induction l with
  | nil =>
    simp only [List.nil_append, noEarlyTerminator_cons2, Bool.and_eq_true, Bool.not_eq_true'] at h
    exact h.1
  | cons a t ih =>
    cases t with
    | nil =>
      simp only [List.cons_append, List.nil_append, noEarlyTerminator_cons2, Bool.and_eq_true] at h
      exact ih (by simpa [noEarlyTerminator_cons2] using h.2)
    | cons b t' =>
      simp only [List.cons_append, noEarlyTerminator_cons2, Bool.and_eq_true] at h
      exact ih (by simpa using h.2)

/-- per-instruction side conditions of the fragment -/
structure IOk (G : List String) (env : TyEnv) (bnames : List String) (i : Instr) : Prop where
  ops : opsOk G env i
  ty : typedOk G env i = true
  phi : nodupB (i.phiIns.map (·.1)) = true
  refs : ∀ b, b ∈ blockRefsOf i → b ∈ bnames
  dstb : ∀ d T, i.dst? = some (d, T) → d ∉ bnames

theorem feedAll_spec {gs : List String} {G : List String} {env : TyEnv} {bnames : List String} {funcsDone : List Func}
    {blocksDone : List Block} {begun inDef : List String}
    (hdisj : ∀ x, x ∈ env.map (·.1) → x ∉ G) (hfuncs : ∀ f ∈ funcsDone, funcGlobOk G f)
    (hnd : (env.map (·.1)).Nodup) (hbegun : ∀ x, x ∈ inDef → x ∈ bnames) (post : TyEnv) :
    ∀ (rest : List Instr) (curDone : List Instr) (D : List String) (pre : TyEnv) (st : BState),
      FInv gs G env bnames funcsDone D blocksDone curDone begun inDef st →
      (∀ x, x ∈ D ↔ x ∈ pre.map (·.1)) →
      env = pre ++ instrDsts rest ++ post →
      (∀ x, x ∈ (instrDsts (blocksDone.flatMap (·.instrs) ++ curDone)).map (·.1) → x ∈ pre.map (·.1)) →
      (∀ j, j ∈ blocksDone.flatMap (·.instrs) ++ curDone → opsOk G env j ∧ typedOk G env j = true) →
      (∀ i, i ∈ rest → IOk G env bnames i) →
      noEarlyTerminator (curDone ++ rest) = true →
      ∃ st' D', feedAll st rest = .ok st' ∧
        FInv gs G env bnames funcsDone D' blocksDone (curDone ++ rest) begun inDef st' ∧
        (∀ x, x ∈ D' ↔ x ∈ (pre ++ instrDsts rest).map (·.1)) ∧
        st'.curName = st.curName ∧ st'.json = st.json := by
  intro rest
  induction rest with
  | nil =>
    intro curDone D pre st hF hD _ _ _ _ _
    exact ⟨st, D, rfl, by simpa using hF, by simpa [instrDsts] using hD, rfl, rfl⟩
  | cons i rest ih =>
    intro curDone D pre st hF hD henv hdone hprev hrest hne
    have hi := hrest i (by simp)
    have hlast : ∀ j, curDone.getLast? = some j → j.isTerminator = false := by
      intro j hj
      obtain ⟨l, rfl⟩ : ∃ l, curDone = l ++ [j] := by
        have := List.getLast?_eq_some_iff.1 hj
        obtain ⟨l, hl⟩ := this
        exact ⟨l, hl⟩
      have : noEarlyTerminator (l ++ j :: i :: rest) = true := by simpa using hne
      exact noEarlyTerminator_mid l rest j i this
    have hdst : ∀ d T, i.dst? = some (d, T) → lookupTy env d = some T ∧ d ∉ D ∧ d ∉ inDef ∧
        d ∉ (instrDsts (blocksDone.flatMap (·.instrs) ++ curDone)).map (·.1) := by
      intro d T hd
      have hsplit : env = pre ++ (d, T) :: (instrDsts rest ++ post) := by
        rw [henv]; simp [instrDsts, hd]
      have hnd' : (pre.map (·.1) ++ d :: (instrDsts rest ++ post).map (·.1)).Nodup := by
        rw [hsplit] at hnd; simpa using hnd
      have hdpre : d ∉ pre.map (·.1) := by
        have := (List.nodup_append.1 hnd').2.2
        intro hm
        exact this d hm d (by simp) rfl
      refine ⟨?_, ?_, ?_, ?_⟩
      · rw [hsplit, lookupTy_append, (lookupTy_none_iff pre d).2 hdpre]
        simp [lookupTy]
      · intro hm; exact hdpre ((hD d).1 hm)
      · intro hm; exact hi.dstb d T hd (hbegun d hm)
      · intro hm; exact hdpre (hdone d hm)
    obtain ⟨s1, i', st1, e1, e2, hF1, hcn, hjs⟩ :=
      step_spec hF hdisj hfuncs hprev i hi.ops hi.ty hi.phi hi.refs hlast hdst
    -- the new set of defined values
    let pre1 : TyEnv := pre ++ instrDsts [i]
    have hD1 : ∀ x, x ∈ newD D i ↔ x ∈ pre1.map (·.1) := by
      intro x
      cases hd : i.dst? with
      | none => simp [newD, hd, pre1, instrDsts, hD x]
      | some dt => obtain ⟨d, T⟩ := dt; simp [newD, hd, pre1, instrDsts, hD x, or_comm]
    have henv1 : env = pre1 ++ instrDsts rest ++ post := by
      rw [henv]
      have : instrDsts (i :: rest) = instrDsts [i] ++ instrDsts rest := instrDsts_append [i] rest
      rw [this]; simp [pre1]
    have hdone1 : ∀ x, x ∈ (instrDsts (blocksDone.flatMap (·.instrs) ++ (curDone ++ [i]))).map (·.1) →
        x ∈ pre1.map (·.1) := by
      intro x hx
      rw [← List.append_assoc, instrDsts_append] at hx
      simp only [List.map_append, List.mem_append] at hx
      rcases hx with hx | hx
      · simp [pre1, hdone x hx]
      · simp [pre1, hx]
    have hprev1 : ∀ j, j ∈ blocksDone.flatMap (·.instrs) ++ (curDone ++ [i]) →
        opsOk G env j ∧ typedOk G env j = true := by
      intro j hj
      rw [← List.append_assoc] at hj
      rcases List.mem_append.1 hj with hj | hj
      · exact hprev j hj
      · simp at hj; subst hj; exact ⟨hi.ops, hi.ty⟩
    obtain ⟨st', D', e3, hF', hD', hcn', hjs'⟩ :=
      ih (curDone ++ [i]) (newD D i) pre1 st1 hF1 hD1 henv1 hdone1 hprev1
        (fun j hj => hrest j (by simp [hj])) (by simpa using hne)
    refine ⟨st', D', ?_, by simpa using hF', ?_, hcn'.trans hcn, hjs'.trans hjs⟩
    · simp [feedAll, feedApp, e1, e2, e3]
    · intro x
      rw [hD' x]
      have : instrDsts (i :: rest) = instrDsts [i] ++ instrDsts rest := instrDsts_append [i] rest
      rw [this]; simp [pre1]

/-! ## blocks -/

def blockText (st : BState) (b : Block) : Except RErr BState :=
  match beginBlockText st b.name with
  | .error e => .error e
  | .ok s =>
    match feedAll s b.instrs with
    | .error e => .error e
    | .ok s' => .ok (endBlockText s')

def blockJson (st : BState) (b : Block) : Except RErr BState :=
  match beginBlockJson st b.name with
  | .error e => .error e
  | .ok s =>
    match feedAll s b.instrs with
    | .error e => .error e
    | .ok s' => endBlockJson s'

def bnamesOf (bs : List Block) : List String := bs.map (·.name)
def instrsOf (bs : List Block) : List Instr := bs.flatMap (·.instrs)

/-- what a block-level builder has to do (both readers' block routines do) -/
def BlkSpec (blk : BState → Block → Except RErr BState) : Prop :=
  ∀ {gs : List String} {G : List String} {env : TyEnv} {bnames : List String} {funcsDone : List Func}
    (_hdisj : ∀ x, x ∈ env.map (·.1) → x ∉ G) (_hfuncs : ∀ f ∈ funcsDone, funcGlobOk G f)
    (_hnd : (env.map (·.1)).Nodup) (post : TyEnv)
    (blocksDone : List Block) (b : Block) (D : List String) (pre : TyEnv) (st : BState),
    FInv gs G env bnames funcsDone D blocksDone [] (bnamesOf blocksDone) (bnamesOf blocksDone) st →
    (∀ x, x ∈ D ↔ x ∈ pre.map (·.1)) →
    env = pre ++ instrDsts b.instrs ++ post →
    (∀ x, x ∈ (instrDsts (instrsOf blocksDone)).map (·.1) → x ∈ pre.map (·.1)) →
    (∀ j, j ∈ instrsOf blocksDone → opsOk G env j ∧ typedOk G env j = true) →
    (∀ i, i ∈ b.instrs → IOk G env bnames i) →
    noEarlyTerminator b.instrs = true →
    (∀ x, x ∈ bnamesOf blocksDone → x ∈ bnames) → b.name ∈ bnames → b.name ∉ bnamesOf blocksDone →
    b.name ∉ (instrDsts (instrsOf blocksDone ++ b.instrs)).map (·.1) →
    ∃ st' D', blk st b = .ok st' ∧
      FInv gs G env bnames funcsDone D' (blocksDone ++ [b]) [] (bnamesOf (blocksDone ++ [b]))
        (bnamesOf (blocksDone ++ [b])) st' ∧
      (∀ x, x ∈ D' ↔ x ∈ (pre ++ instrDsts b.instrs).map (·.1)) ∧ st'.json = st.json

theorem Recd_congr {G : List String} {env : TyEnv} {funcsDone : List Func} {D : List String}
    {blocksDone blocksDone' : List Block} {curDone curDone' : List Instr} {a b : BState}
    (h : Recd G env funcsDone D blocksDone curDone a)
    (hg : b.globals = a.globals) (hl : b.locals = a.locals) (hp : b.pending = a.pending)
    (hc : b.cur = curDone'.map (maskInstr D)) (hb : b.blocks = blocksDone'.map (maskBlock D))
    (hf : b.funcs = a.funcs)
    (hmem : ∀ j, j ∈ blocksDone'.flatMap (·.instrs) ++ curDone' → j ∈ blocksDone.flatMap (·.instrs) ++ curDone) :
    Recd G env funcsDone D blocksDone' curDone' b :=
  ⟨Inv_congr h.inv hg hl hp, hc, hb, hf ▸ h.funcs,
   fun j hj o ho x hx hxD => by rw [hp]; exact h.fwd j (hmem j hj) o ho x hx hxD⟩

theorem blockText_spec : BlkSpec blockText := by
  intro gs G env bnames funcsDone hdisj hfuncs hnd post blocksDone b D pre st hF hD henv hdone hprev hb hne hbn hname hfresh hnodst
  -- begin
  have hbr0 : blockRef st b.name = withPR st st.pending (addRef st.blockRefs b.name) := blockRef_withPR st _ _ _
  have hnotdef : b.name ∉ (blockRef st b.name).defined := by
    rw [hbr0]; show b.name ∉ st.defined
    intro hm
    rcases hF.defd _ hm with h1 | h1
    · exact hfresh h1
    · apply hnodst
      simp only [List.append_nil] at h1
      rw [instrDsts_append]; simp [instrsOf, h1]
  have hnotbd : b.name ∉ (blockRef st b.name).blockDefs := by
    rw [hbr0]; show b.name ∉ st.blockDefs
    intro hm; exact hfresh ((hF.bdefs _).1 hm)
  let s0 : BState := { (blockRef st b.name) with
    blockDefs := b.name :: (blockRef st b.name).blockDefs, defined := b.name :: (blockRef st b.name).defined,
    curName := b.name, cur := [] }
  have e0 : beginBlockText st b.name = .ok s0 := by
    simp [beginBlockText, hnotdef, hnotbd, s0]
  have hrefsub : ∀ x, x ∈ (blockRef st b.name).blockRefs → x ∈ bnames := by
    intro x hx
    have : blockRef st b.name = withPR st st.pending (addRef st.blockRefs b.name) := blockRef_withPR st _ _ _
    rw [this] at hx
    rcases mem_addRef hx with h1 | rfl
    · exact hF.refs x h1
    · exact hname
  have hF0 : FInv gs G env bnames funcsDone D blocksDone [] (bnamesOf (blocksDone ++ [b]))
      (bnamesOf (blocksDone ++ [b])) s0 := by
    have hbr : blockRef st b.name = withPR st st.pending (addRef st.blockRefs b.name) := blockRef_withPR st _ _ _
    refine ⟨Recd_congr hF.recd ?_ ?_ ?_ rfl ?_ ?_ (fun j hj => hj), ?_, ?_, hrefsub, ?_⟩
    · simp [s0, hbr]
    · simp [s0, hbr]
    · simp [s0, hbr]
    · simp [s0, hbr, hF.recd.blocks]
    · simp [s0, hbr]
    · simp [s0, hbr, hF.geq]
    · intro n hn
      have : n = b.name ∨ n ∈ st.defined := by
        have : n ∈ b.name :: (blockRef st b.name).defined := hn
        rw [hbr] at this; simpa using this
      rcases this with rfl | h1
      · exact Or.inl (by simp [bnamesOf])
      · rcases hF.defd n h1 with h2 | h2
        · exact Or.inl (by simp [bnamesOf] at h2 ⊢; exact Or.inl h2)
        · exact Or.inr h2
    · intro n
      show n ∈ b.name :: (blockRef st b.name).blockDefs ↔ _
      rw [hbr]
      simp only [withPR_blockDefs, List.mem_cons, bnamesOf, List.map_append, List.map_cons, List.map_nil,
        List.mem_append, List.mem_singleton]
      rw [hF.bdefs n]; simp [bnamesOf, or_comm]
  have hin : ∀ x, x ∈ bnamesOf (blocksDone ++ [b]) → x ∈ bnames := by
    intro x hx
    simp only [bnamesOf, List.map_append, List.map_cons, List.map_nil, List.mem_append, List.mem_singleton] at hx
    rcases hx with h1 | rfl
    · exact hbn x (by simpa [bnamesOf] using h1)
    · exact hname
  obtain ⟨s1, D', e1, hF1, hD1, hcn1, hjs1⟩ :=
    feedAll_spec hdisj hfuncs hnd hin post b.instrs [] D pre s0 hF0 hD henv
      (by simpa [instrsOf] using hdone) (by simpa [instrsOf] using hprev) hb (by simpa using hne)
  have hcn : s1.curName = b.name := hcn1
  refine ⟨endBlockText s1, D', ?_, ?_, hD1, ?_⟩
  · simp [blockText, e0, e1]
  · simp only [List.nil_append] at hF1
    refine ⟨Recd_congr hF1.recd rfl rfl rfl rfl ?_ rfl ?_, hF1.geq, ?_, hF1.refs, hF1.bdefs⟩
    · show s1.blocks ++ [{ name := s1.curName, instrs := s1.cur }] = _
      rw [hF1.recd.blocks, hF1.recd.cur, hcn]
      simp [maskBlock]
    · intro j hj; simpa using hj
    · intro n hn
      rcases hF1.defd n hn with h1 | h1
      · exact Or.inl h1
      · exact Or.inr (by simpa using h1)
  · show s1.json = st.json
    rw [hjs1]
    have : blockRef st b.name = withPR st st.pending (addRef st.blockRefs b.name) := blockRef_withPR st _ _ _
    simp [s0, this]

theorem blockJson_spec : BlkSpec blockJson := by
  intro gs G env bnames funcsDone hdisj hfuncs hnd post blocksDone b D pre st hF hD henv hdone hprev hb hne hbn hname hfresh hnodst
  have hbr : blockRef st b.name = withPR st st.pending (addRef st.blockRefs b.name) := blockRef_withPR st _ _ _
  have hnotbd : b.name ∉ (blockRef st b.name).blockDefs := by
    rw [hbr]; show b.name ∉ st.blockDefs
    intro hm; exact hfresh ((hF.bdefs _).1 hm)
  let s0 : BState := { (blockRef st b.name) with
    blockDefs := b.name :: (blockRef st b.name).blockDefs, curName := b.name, cur := [] }
  have e0 : beginBlockJson st b.name = .ok s0 := by
    simp [beginBlockJson, hnotbd, s0]
  have hrefsub : ∀ x, x ∈ (blockRef st b.name).blockRefs → x ∈ bnames := by
    intro x hx
    rw [hbr] at hx
    rcases mem_addRef hx with h1 | rfl
    · exact hF.refs x h1
    · exact hname
  have hF0 : FInv gs G env bnames funcsDone D blocksDone [] (bnamesOf (blocksDone ++ [b]))
      (bnamesOf blocksDone) s0 := by
    refine ⟨Recd_congr hF.recd ?_ ?_ ?_ rfl ?_ ?_ (fun j hj => hj), ?_, ?_, hrefsub, ?_⟩
    · simp [s0, hbr]
    · simp [s0, hbr]
    · simp [s0, hbr]
    · simp [s0, hbr, hF.recd.blocks]
    · simp [s0, hbr]
    · simp [s0, hbr, hF.geq]
    · intro n hn
      have : n ∈ st.defined := by
        have : n ∈ (blockRef st b.name).defined := hn
        rw [hbr] at this; simpa using this
      exact hF.defd n this
    · intro n
      show n ∈ b.name :: (blockRef st b.name).blockDefs ↔ _
      rw [hbr]
      simp only [withPR_blockDefs, List.mem_cons, bnamesOf, List.map_append, List.map_cons, List.map_nil,
        List.mem_append, List.mem_singleton]
      rw [hF.bdefs n]; simp [bnamesOf, or_comm]
  obtain ⟨s1, D', e1, hF1, hD1, hcn1, hjs1⟩ :=
    feedAll_spec hdisj hfuncs hnd hbn post b.instrs [] D pre s0 hF0 hD henv
      (by simpa [instrsOf] using hdone) (by simpa [instrsOf] using hprev) hb (by simpa using hne)
  have hcn : s1.curName = b.name := hcn1
  simp only [List.nil_append] at hF1
  have hnd1 : b.name ∉ s1.defined := by
    intro hm
    rcases hF1.defd _ hm with h1 | h1
    · exact hfresh h1
    · exact hnodst (by simpa [instrsOf] using h1)
  refine ⟨closeBlock { s1 with defined := s1.curName :: s1.defined }, D', ?_, ?_, hD1, ?_⟩
  · have : s1.curName ∉ s1.defined := by rw [hcn]; exact hnd1
    simp [blockJson, e0, e1, endBlockJson, this]
  · refine ⟨Recd_congr hF1.recd rfl rfl rfl rfl ?_ rfl ?_, hF1.geq, ?_, hF1.refs, hF1.bdefs⟩
    · show s1.blocks ++ [{ name := s1.curName, instrs := s1.cur }] = _
      rw [hF1.recd.blocks, hF1.recd.cur, hcn]
      simp [maskBlock]
    · intro j hj; simpa using hj
    · intro n hn
      have : n = s1.curName ∨ n ∈ s1.defined := by
        have : n ∈ s1.curName :: s1.defined := hn
        simpa using this
      rcases this with rfl | h1
      · exact Or.inl (by simp [bnamesOf, hcn])
      · rcases hF1.defd n h1 with h2 | h2
        · exact Or.inl (by simp [bnamesOf] at h2 ⊢; exact Or.inl h2)
        · exact Or.inr (by simpa using h2)
  · show s1.json = st.json
    rw [hjs1]; simp [s0, hbr]

/-! ## all blocks of a function -/

def blocksWith (blk : BState → Block → Except RErr BState) : BState → List Block → Except RErr BState
  | st, [] => .ok st
  | st, b :: r =>
    match blk st b with
    | .error e => .error e
    | .ok s => blocksWith blk s r

theorem instrsOf_append (a b : List Block) : instrsOf (a ++ b) = instrsOf a ++ instrsOf b := by
  simp [instrsOf]

theorem instrsOf_cons (b : Block) (r : List Block) : instrsOf (b :: r) = b.instrs ++ instrsOf r := by
  simp [instrsOf]

theorem blocksWith_spec {blk : BState → Block → Except RErr BState} (hblk : BlkSpec blk)
    {gs : List String} {G : List String} {env : TyEnv} {funcsDone : List Func} (allBlocks : List Block)
    (hdisj : ∀ x, x ∈ env.map (·.1) → x ∉ G) (hfuncs : ∀ f ∈ funcsDone, funcGlobOk G f)
    (hnd : (env.map (·.1)).Nodup)
    (hnd2 : (bnamesOf allBlocks ++ (instrDsts (instrsOf allBlocks)).map (·.1)).Nodup)
    (hok : ∀ b ∈ allBlocks, ∀ i ∈ b.instrs, IOk G env (bnamesOf allBlocks) i)
    (hne : ∀ b ∈ allBlocks, noEarlyTerminator b.instrs = true) :
    ∀ (rest : List Block) (blocksDone : List Block) (D : List String) (pre : TyEnv) (st : BState),
      blocksDone ++ rest = allBlocks →
      FInv gs G env (bnamesOf allBlocks) funcsDone D blocksDone [] (bnamesOf blocksDone) (bnamesOf blocksDone) st →
      (∀ x, x ∈ D ↔ x ∈ pre.map (·.1)) →
      env = pre ++ instrDsts (instrsOf rest) →
      (∀ x, x ∈ (instrDsts (instrsOf blocksDone)).map (·.1) → x ∈ pre.map (·.1)) →
      ∃ st' D', blocksWith blk st rest = .ok st' ∧
        FInv gs G env (bnamesOf allBlocks) funcsDone D' allBlocks [] (bnamesOf allBlocks) (bnamesOf allBlocks) st' ∧
        (∀ x, x ∈ D' ↔ x ∈ env.map (·.1)) ∧ st'.json = st.json := by
  intro rest
  induction rest with
  | nil =>
    intro blocksDone D pre st hall hF hD henv _
    simp only [List.append_nil] at hall
    subst hall
    refine ⟨st, D, rfl, hF, ?_, rfl⟩
    intro x; rw [hD x, henv]; simp [instrsOf, instrDsts]
  | cons b rest ih =>
    intro blocksDone D pre st hall hF hD henv hdone
    have hbmem : b ∈ allBlocks := by rw [← hall]; simp
    have hdonemem : ∀ c, c ∈ blocksDone → c ∈ allBlocks := by intro c hc; rw [← hall]; simp [hc]
    have hprev : ∀ j, j ∈ instrsOf blocksDone → opsOk G env j ∧ typedOk G env j = true := by
      intro j hj
      simp only [instrsOf, List.mem_flatMap] at hj
      obtain ⟨c, hc, hjc⟩ := hj
      have := hok c (hdonemem c hc) j hjc
      exact ⟨this.ops, this.ty⟩
    have hbn : ∀ x, x ∈ bnamesOf blocksDone → x ∈ bnamesOf allBlocks := by
      intro x hx; rw [← hall]; simp [bnamesOf] at hx ⊢; exact Or.inl hx
    have hname : b.name ∈ bnamesOf allBlocks := by rw [← hall]; simp [bnamesOf]
    have hndn : (bnamesOf allBlocks).Nodup := (List.nodup_append.1 hnd2).1
    have hfresh : b.name ∉ bnamesOf blocksDone := by
      rw [← hall] at hndn
      simp only [bnamesOf, List.map_append, List.map_cons] at hndn
      have := (List.nodup_append.1 hndn).2.2
      intro hm
      exact this b.name (by simpa [bnamesOf] using hm) b.name (by simp) rfl
    have hnodst : b.name ∉ (instrDsts (instrsOf blocksDone ++ b.instrs)).map (·.1) := by
      intro hm
      have hdis := (List.nodup_append.1 hnd2).2.2
      apply hdis b.name hname b.name _ rfl
      rw [← hall, instrsOf_append, instrsOf_cons, instrDsts_append, instrDsts_append]
      rw [instrDsts_append] at hm
      simp only [List.map_append, List.mem_append] at hm ⊢
      rcases hm with h1 | h1
      · exact Or.inl h1
      · exact Or.inr (Or.inl h1)
    have henv' : env = pre ++ instrDsts b.instrs ++ instrDsts (instrsOf rest) := by
      rw [henv, instrsOf_cons, instrDsts_append]; simp
    obtain ⟨s1, D1, e1, hF1, hD1, hjs1⟩ :=
      hblk hdisj hfuncs hnd (instrDsts (instrsOf rest)) blocksDone b D pre st hF hD henv' hdone hprev
        (hok b hbmem) (hne b hbmem) hbn hname hfresh hnodst
    have hall1 : (blocksDone ++ [b]) ++ rest = allBlocks := by rw [← hall]; simp
    have hdone1 : ∀ x, x ∈ (instrDsts (instrsOf (blocksDone ++ [b]))).map (·.1) →
        x ∈ (pre ++ instrDsts b.instrs).map (·.1) := by
      intro x hx
      rw [instrsOf_append, instrDsts_append] at hx
      simp only [List.map_append, List.mem_append] at hx ⊢
      rcases hx with h1 | h1
      · exact Or.inl (hdone x h1)
      · exact Or.inr (by simpa [instrsOf] using h1)
    obtain ⟨st', D', e2, hF', hD', hjs2⟩ :=
      ih (blocksDone ++ [b]) D1 (pre ++ instrDsts b.instrs) s1 hall1 hF1 hD1 (by rw [henv']) hdone1
    exact ⟨st', D', by simp [blocksWith, e1, e2], hF', hD', hjs2.trans hjs1⟩

/-! ## a whole function -/

def paramsAll : BState → List (String × Ty) → Except RErr BState
  | st, [] => .ok st
  | st, p :: r =>
    match defineLocal st p.1 p.2 with
    | .error e => .error e
    | .ok s => paramsAll s r

def funcWith (blk : BState → Block → Except RErr BState) (st : BState) (f : Func) : Except RErr BState :=
  match defineGlobal st f.name with
  | .error e => .error e
  | .ok s0 =>
    match paramsAll (beginFunc s0) f.params with
    | .error e => .error e
    | .ok s1 =>
      match blocksWith blk s1 f.blocks with
      | .error e => .error e
      | .ok s2 => endFunc s2 f.name f.isGlobal f.ret f.params

/-- the state between two module-level declarations -/
structure MInv (G : List String) (gdone : List String) (funcsDone : List Func) (st : BState) : Prop where
  globals : ∀ x, x ∈ st.globals ↔ x ∈ gdone
  pend : ∀ x t, lookupTy st.pending x = some t → x ∈ G ∧ x ∉ st.globals ∧ t = .ptr
  funcs : st.funcs = funcsDone
  cur : st.cur = []
  blocks : st.blocks = []

theorem maskOp_full (D : List String) (o : Operand) (h : ∀ x, o = .loc x → x ∈ D) : maskOp D o = o := by
  cases o with
  | glob g => rfl
  | loc x => simp [maskOp, h x rfl]

/-- once every value of the function is defined, the recorded instruction is the instruction -/
theorem maskInstr_full {G : List String} {env : TyEnv} (D : List String) (i : Instr)
    (hD : ∀ x, x ∈ env.map (·.1) → x ∈ D) (hops : opsOk G env i) (hty : typedOk G env i = true) :
    maskInstr D i = i := by
  have P : ∀ o ∈ operands i, maskOp D o = o := by
    intro o ho
    apply maskOp_full
    intro x hx
    subst hx
    exact hD x ((lookupTy_isSome_iff env x).1 (hops _ ho))
  cases i with
  | const _ _ _ => rfl
  | undefined _ _ => rfl
  | literal _ _ => rfl
  | alloc _ _ _ => rfl
  | exit => rfl
  | jump _ => rfl
  | asm _ _ _ _ => rfl
  | addrof dd s => simp [maskInstr, P s (by simp [operands, Instr.uses])]
  | binop dd ty op a b =>
    simp [maskInstr, P a (by simp [operands, Instr.uses]), P b (by simp [operands, Instr.uses])]
  | unop dd ty op a => simp [maskInstr, P a (by simp [operands, Instr.uses])]
  | cast dd ty a => simp [maskInstr, P a (by simp [operands, Instr.uses])]
  | load dd ty a vol => simp [maskInstr, P a (by simp [operands, Instr.uses])]
  | ret v => simp [maskInstr, P v (by simp [operands, Instr.uses])]
  | copyblob a b n =>
    simp [maskInstr, P a (by simp [operands, Instr.uses]), P b (by simp [operands, Instr.uses])]
  | cjump a c b y n =>
    simp [maskInstr, P a (by simp [operands, Instr.uses]), P b (by simp [operands, Instr.uses])]
  | store ty v a vol =>
    obtain ⟨hvt, -⟩ : tyOf G env v = some ty ∧ tyOf G env a = some .ptr := by simpa [typedOk] using hty
    simp only [maskInstr, P v (by simp [operands, Instr.uses]), P a (by simp [operands, Instr.uses])]
    cases v with
    | loc x => rfl
    | glob g =>
      have : ty = .ptr := ((tyOf_glob G env g ty).1 hvt).2
      simp [this]
  | fcall dd ty c args =>
    have hargs : args.map (maskOp D) = args := by
      conv => rhs; rw [← List.map_id args]
      exact List.map_congr_left (fun o ho => P o (by simp [operands, Instr.uses, ho]))
    simp [maskInstr, P c (by simp [operands, Instr.uses]), hargs]
  | pcall c args =>
    have hargs : args.map (maskOp D) = args := by
      conv => rhs; rw [← List.map_id args]
      exact List.map_congr_left (fun o ho => P o (by simp [operands, Instr.uses, ho]))
    simp [maskInstr, P c (by simp [operands, Instr.uses]), hargs]
  | phi dd ty ins =>
    have hins : ins.map (fun q => (q.1, maskOp D q.2)) = ins := by
      conv => rhs; rw [← List.map_id ins]
      exact List.map_congr_left (fun q hq => by
        have := P q.2 (by simp only [operands, List.mem_map]; exact ⟨q, hq, rfl⟩)
        simp [this])
    simp [maskInstr, hins]

theorem globOk_of_opsOk {G : List String} {env : TyEnv} (i : Instr) (hops : opsOk G env i)
    (hty : typedOk G env i = true) : globOk G i ∧ storeOk i := by
  refine ⟨?_, ?_⟩
  · intro o ho g hg
    subst hg
    exact tyOf_isSome_glob (hops _ ho)
  · intro ty g a vol hi
    subst hi
    obtain ⟨hvt, -⟩ : tyOf G env (.glob g) = some ty ∧ tyOf G env a = some .ptr := by simpa [typedOk] using hty
    exact ((tyOf_glob G env g ty).1 hvt).2

/-- a module-level definition of `g` leaves finished functions as they are -/
theorem patchFunc_glob_id {G : List String} (g : String) (f : Func) (h : funcGlobOk G f) :
    patchFunc g (.glob g) .ptr f = f := by
  have PO : ∀ o : Operand, patchOpnd g (.glob g) o = o := by
    intro o
    cases o with
    | loc x => rfl
    | glob y =>
      by_cases hy : y = g
      · subst hy; simp [patchOpnd]
      · simp [patchOpnd, hy]
  have PL : ∀ l : List Operand, l.map (patchOpnd g (.glob g)) = l := by
    intro l
    conv => rhs; rw [← List.map_id l]
    exact List.map_congr_left (fun o _ => PO o)
  cases f with
  | mk name isGlobal ret entry params blocks =>
    simp only [patchFunc]
    congr 1
    conv => rhs; rw [← List.map_id blocks]
    apply List.map_congr_left
    intro b hb
    cases b with
    | mk bn is =>
      simp only [patchBlock, id]
      congr 1
      conv => rhs; rw [← List.map_id is]
      apply List.map_congr_left
      intro i hi
      have hst := (h _ hb i hi).2
      cases i with
      | store ty v a vol =>
        simp only [patchInstr, PO, id]
        by_cases hv : v = .glob g
        · subst hv
          have : ty = .ptr := hst ty g a vol rfl
          simp [this]
        · simp [hv]
      | phi dd ty ins =>
        have : ins.map (fun q => (q.1, patchOpnd g (.glob g) q.2)) = ins := by
          conv => rhs; rw [← List.map_id ins]
          exact List.map_congr_left (fun q _ => by simp [PO])
        simp [patchInstr, this]
      | _ => simp [patchInstr, PO, PL]

theorem paramsAll_spec {G : List String} {env : TyEnv} {funcsDone : List Func}
    (hdisj : ∀ x, x ∈ env.map (·.1) → x ∉ G) (hfuncs : ∀ f ∈ funcsDone, funcGlobOk G f)
    (hnd : (env.map (·.1)).Nodup) (post : TyEnv) :
    ∀ (ps : List (String × Ty)) (pre : TyEnv) (D : List String) (st : BState),
      Recd G env funcsDone D [] [] st → (∀ x, x ∈ D ↔ x ∈ pre.map (·.1)) → env = pre ++ ps ++ post →
      ∃ st' D', paramsAll st ps = .ok st' ∧ Recd G env funcsDone D' [] [] st' ∧
        (∀ x, x ∈ D' ↔ x ∈ (pre ++ ps).map (·.1)) ∧
        st'.defined = st.defined ∧ st'.blockRefs = st.blockRefs ∧ st'.blockDefs = st.blockDefs ∧
        st'.json = st.json ∧ st'.globals = st.globals := by
  intro ps
  induction ps with
  | nil =>
    intro pre D st h hD _
    exact ⟨st, D, rfl, h, by simpa using hD, rfl, rfl, rfl, rfl, rfl⟩
  | cons q ps ih =>
    intro pre D st h hD henv
    obtain ⟨n, T⟩ := q
    have hsplit : env = pre ++ (n, T) :: (ps ++ post) := by rw [henv]; simp
    have hnd' : (pre.map (·.1) ++ n :: (ps ++ post).map (·.1)).Nodup := by
      rw [hsplit] at hnd; simpa using hnd
    have hnpre : n ∉ pre.map (·.1) := by
      have := (List.nodup_append.1 hnd').2.2
      intro hm
      exact this n hm n (by simp) rfl
    have hT : lookupTy env n = some T := by
      rw [hsplit, lookupTy_append, (lookupTy_none_iff pre n).2 hnpre]
      simp [lookupTy]
    have hDn : n ∉ D := fun hm => hnpre ((hD n).1 hm)
    obtain ⟨st2, e, recd2, h1, h2, h3, _, h5, _, h7⟩ :=
      define_spec h hdisj hfuncs (by intro j hj; simp at hj) n T hT hDn
    obtain ⟨st', D', e', recd', hD', g1, g2, g3, g5, g7⟩ :=
      ih (pre ++ [(n, T)]) (n :: D) st2 recd2
        (by intro x; simp [hD x, or_comm]) (by rw [henv]; simp)
    refine ⟨st', D', ?_, recd', ?_, g1.trans h1, g2.trans h2, g3.trans h3, g5.trans h5, g7.trans h7⟩
    · simp [paramsAll, e, e']
    · intro x; rw [hD' x]; simp

/-- the conjuncts of `funcCore`, as propositions -/
structure FuncFacts (G : List String) (f : Func) : Prop where
  ndEnv : ((Func.env f).map (·.1)).Nodup
  ndNames : (bnamesOf f.blocks ++ (instrDsts (instrsOf f.blocks)).map (·.1)).Nodup
  disj : ∀ x, x ∈ (Func.env f).map (·.1) → x ∉ G
  ops : ∀ i, i ∈ instrsOf f.blocks → opsOk G (Func.env f) i
  refs : ∀ i, i ∈ instrsOf f.blocks → ∀ b, b ∈ blockRefsOf i → b ∈ bnamesOf f.blocks
  typed : ∀ i, i ∈ instrsOf f.blocks → typedOk G (Func.env f) i = true
  term : ∀ b, b ∈ f.blocks → noEarlyTerminator b.instrs = true
  entry : f.blocks.head?.map (·.name) = some f.entry
  phi : ∀ i, i ∈ instrsOf f.blocks → nodupB (i.phiIns.map (·.1)) = true

theorem funcFacts_of_core {G : List String} {f : Func} (h : funcCore G f = true) : FuncFacts G f := by
  unfold funcCore at h
  simp only [Bool.and_eq_true, List.all_eq_true, beq_iff_eq, Bool.not_eq_true', decide_eq_true_eq] at h
  obtain ⟨⟨⟨⟨⟨⟨⟨⟨h1, h2⟩, h3⟩, h4⟩, h5⟩, h6⟩, h7⟩, h8⟩, h9⟩ := h
  refine ⟨(nodupB_iff _).1 h1, (nodupB_iff _).1 h2, ?_, ?_, ?_, h6, h7, h8, h9⟩
  · intro x hx hxG
    have := h3 x hx
    simp [hxG] at this
  · intro i hi o ho; exact h4 i hi o ho
  · intro i hi b hb
    have := h5 i hi b hb
    simpa [bnamesOf] using this

theorem head?_eq_some_name {bs : List Block} {e : String}
    (h : bs.head?.map (·.name) = some e) : (bs.head?.map (·.name)).getD "!none!" = e := by
  rw [h]; rfl


theorem funcWith_spec {blk : BState → Block → Except RErr BState} (hblk : BlkSpec blk)
    {G : List String} {gdone : List String} {funcsDone : List Func} {st : BState} (f : Func)
    (hM : MInv G gdone funcsDone st) (hgsub : ∀ x, x ∈ gdone → x ∈ G) (hfn : f.name ∈ G)
    (hfresh : f.name ∉ gdone) (hfuncs : ∀ g ∈ funcsDone, funcGlobOk G g) (F : FuncFacts G f) :
    ∃ st', funcWith blk st f = .ok st' ∧ MInv G (f.name :: gdone) (funcsDone ++ [f]) st' ∧
      st'.json = st.json ∧ funcGlobOk G f := by
  -- 1. define the subroutine at module level
  have hnotg : f.name ∉ st.globals := fun hm => hfresh ((hM.globals _).1 hm)
  have hfid : st.funcs.map (patchFunc f.name (.glob f.name) .ptr) = st.funcs := by
    conv => rhs; rw [← List.map_id st.funcs]
    apply List.map_congr_left
    intro g hg
    rw [hM.funcs] at hg
    exact patchFunc_glob_id f.name g (hfuncs g hg)
  obtain ⟨s0, e0, hs0g, hs0p, hs0f, hs0j⟩ :
      ∃ s0, defineGlobal st f.name = .ok s0 ∧ s0.globals = f.name :: st.globals ∧
        (∀ x, lookupTy s0.pending x = if x = f.name then none else lookupTy st.pending x) ∧
        s0.funcs = st.funcs ∧ s0.json = st.json := by
    by_cases hit : (lookupTy st.pending f.name).isSome = true
    · refine ⟨{ (patchAll st f.name false .ptr) with globals := f.name :: st.globals }, ?_, rfl, ?_, ?_, rfl⟩
      · simp [defineGlobal, hit, patchAll, hnotg]
      · intro x; exact lookupTy_eraseKey st.pending f.name x
      · simpa [patchAll] using hfid
    · have hnone : lookupTy st.pending f.name = none := by
        cases hq : lookupTy st.pending f.name with
        | none => rfl
        | some t => simp [hq] at hit
      refine ⟨{ st with globals := f.name :: st.globals }, ?_, rfl, ?_, rfl, rfl⟩
      · simp [defineGlobal, hit, hnotg]
      · intro x
        by_cases hx : x = f.name
        · subst hx; simp [hnone]
        · simp [hx]
  -- 2. enter the function scope, define the parameters
  have hInv0 : Inv G (Func.env f) [] (beginFunc s0) := by
    refine ⟨?_, ?_, ?_⟩
    · intro g hg
      have : g ∈ f.name :: st.globals := by
        have : g ∈ s0.globals := hg
        rwa [hs0g] at this
      rcases List.mem_cons.1 this with rfl | h1
      · exact hfn
      · exact hgsub g ((hM.globals g).1 h1)
    · intro x; simp [beginFunc, lookupTy]
    · intro x t hx
      have hx' : lookupTy s0.pending x = some t := hx
      rw [hs0p x] at hx'
      by_cases hxf : x = f.name
      · simp [hxf] at hx'
      · simp only [hxf, if_false] at hx'
        obtain ⟨h1, h2, h3⟩ := hM.pend x t hx'
        refine Or.inl ⟨h1, ?_, h3⟩
        show x ∉ s0.globals
        rw [hs0g]; simp [hxf, h2]
  have hRecd0 : Recd G (Func.env f) funcsDone [] [] [] (beginFunc s0) :=
    ⟨hInv0, rfl, rfl, by show s0.funcs = _; rw [hs0f, hM.funcs], by intro j hj; simp at hj⟩
  obtain ⟨s1, D1, e1, recd1, hD1, hdef1, hrefs1, hbd1, hjs1, hgl1⟩ :=
    paramsAll_spec F.disj hfuncs F.ndEnv (instrDsts (instrsOf f.blocks)) f.params [] [] (beginFunc s0) hRecd0
      (by simp) (by simp [Func.env, Func.instrs, instrsOf])
  -- 3. the blocks
  have hF1 : FInv (f.name :: st.globals) G (Func.env f) (bnamesOf f.blocks) funcsDone D1 [] []
      (bnamesOf []) (bnamesOf []) s1 := by
    refine ⟨recd1, ?_, ?_, ?_, ?_⟩
    · rw [hgl1]; show s0.globals = _; exact hs0g
    · intro n hn; rw [hdef1] at hn; simp [beginFunc] at hn
    · intro b hb; rw [hrefs1] at hb; simp [beginFunc] at hb
    · intro n; rw [hbd1]; simp [beginFunc, bnamesOf]
  have hok : ∀ b ∈ f.blocks, ∀ i ∈ b.instrs, IOk G (Func.env f) (bnamesOf f.blocks) i := by
    intro b hb i hi
    have hmem : i ∈ instrsOf f.blocks := by
      simp only [instrsOf, List.mem_flatMap]; exact ⟨b, hb, hi⟩
    refine ⟨F.ops i hmem, F.typed i hmem, F.phi i hmem, F.refs i hmem, ?_⟩
    intro d T hd hm
    have hdis := (List.nodup_append.1 F.ndNames).2.2
    apply hdis d hm d _ rfl
    simp only [List.mem_map]
    refine ⟨(d, T), ?_, rfl⟩
    simp only [instrDsts, List.mem_filterMap]
    exact ⟨i, hmem, hd⟩
  obtain ⟨s2, D2, e2, hF2, hD2, hjs2⟩ :=
    blocksWith_spec hblk f.blocks F.disj hfuncs F.ndEnv F.ndNames hok F.term f.blocks [] D1 f.params s1
      (by simp) hF1 (by simpa using hD1) (by simp [Func.env, Func.instrs, instrsOf])
      (by intro x hx; simp [instrsOf, instrDsts] at hx)
  -- 4. leave the scope
  have hblocks : s2.blocks = f.blocks := by
    rw [hF2.recd.blocks]
    conv => rhs; rw [← List.map_id f.blocks]
    apply List.map_congr_left
    intro b hb
    cases b with
    | mk bn is =>
      simp only [maskBlock, id]
      congr 1
      conv => rhs; rw [← List.map_id is]
      apply List.map_congr_left
      intro i hi
      have hmem : i ∈ instrsOf f.blocks := by
        simp only [instrsOf, List.mem_flatMap]; exact ⟨_, hb, hi⟩
      exact maskInstr_full D2 i (fun x hx => (hD2 x).2 hx) (F.ops i hmem) (F.typed i hmem)
  have hrefsOk : (s2.blockRefs.any (fun b => !s2.blockDefs.contains b)) = false := by
    rw [List.any_eq_false]
    intro b hb
    have h1 : b ∈ bnamesOf f.blocks := hF2.refs b hb
    have h2 : b ∈ s2.blockDefs := (hF2.bdefs b).2 h1
    simp [h2]
  have hfeq : Func.mk f.name f.isGlobal f.ret ((s2.blocks.head?.map (·.name)).getD "!none!") f.params s2.blocks = f := by
    rw [hblocks, head?_eq_some_name F.entry]
  let sF : BState := { s2 with funcs := s2.funcs ++ [f], locals := [], defined := [], blockDefs := [],
                               blockRefs := [], blocks := [], cur := [], curName := "" }
  have hend : endFunc s2 f.name f.isGlobal f.ret f.params = .ok sF := by
    simp only [endFunc, hrefsOk, Bool.false_eq_true, if_false]
    rw [hfeq]
  refine ⟨sF, ?_, ?_, ?_, ?_⟩
  · simp only [funcWith, e0, e1, e2]; exact hend
  · refine ⟨?_, ?_, ?_, rfl, rfl⟩
    · intro x
      show x ∈ s2.globals ↔ _
      rw [hF2.geq]; simp [hM.globals x]
    · intro x t hx
      have hx' : lookupTy s2.pending x = some t := hx
      rcases hF2.recd.inv.pend x t hx' with h1 | ⟨h1, T, h2, _⟩
      · exact h1
      · exfalso
        apply h1
        exact (hD2 x).2 ((lookupTy_isSome_iff _ x).1 (by simp [h2]))
    · show s2.funcs ++ [f] = _
      rw [hF2.recd.funcs]
  · show s2.json = st.json
    rw [hjs2, hjs1]; show s0.json = _; exact hs0j
  · intro b hb i hi
    have hmem : i ∈ instrsOf f.blocks := by
      simp only [instrsOf, List.mem_flatMap]; exact ⟨b, hb, hi⟩
    exact globOk_of_opsOk i (F.ops i hmem) (F.typed i hmem)

/-! ## all functions of a module -/

def funcsWith (blk : BState → Block → Except RErr BState) : BState → List Func → Except RErr BState
  | st, [] => .ok st
  | st, f :: r =>
    match funcWith blk st f with
    | .error e => .error e
    | .ok s => funcsWith blk s r

theorem funcsWith_spec {blk : BState → Block → Except RErr BState} (hblk : BlkSpec blk)
    {G : List String} (hG : G.Nodup) :
    ∀ (fs : List Func) (gdone : List String) (funcsDone : List Func) (st : BState),
      MInv G gdone funcsDone st → (∀ x, x ∈ gdone → x ∈ G) →
      (∀ f, f ∈ fs → f.name ∈ G) → (gdone ++ fs.map (·.name)).Nodup →
      (∀ g ∈ funcsDone, funcGlobOk G g) → (∀ f, f ∈ fs → FuncFacts G f) →
      ∃ st', funcsWith blk st fs = .ok st' ∧ MInv G ((fs.map (·.name)).reverse ++ gdone) (funcsDone ++ fs) st' ∧
        st'.json = st.json := by
  intro fs
  induction fs with
  | nil =>
    intro gdone funcsDone st hM _ _ _ _ _
    exact ⟨st, rfl, by simpa using hM, rfl⟩
  | cons f fs ih =>
    intro gdone funcsDone st hM hgsub hnames hnd hfuncs hcore
    have hfresh : f.name ∉ gdone := by
      have := (List.nodup_append.1 hnd).2.2
      intro hm
      exact this f.name hm f.name (by simp) rfl
    obtain ⟨s1, e1, hM1, hj1, hgo⟩ :=
      funcWith_spec hblk f hM hgsub (hnames f (by simp)) hfresh hfuncs (hcore f (by simp))
    have hnd1 : ((f.name :: gdone) ++ fs.map (·.name)).Nodup := by
      have h1 := hnd
      simp only [List.map_cons] at h1
      have : (gdone ++ f.name :: fs.map (·.name)).Perm ((f.name :: gdone) ++ fs.map (·.name)) := by
        simpa using List.perm_middle
      exact this.nodup_iff.1 h1
    obtain ⟨st', e2, hM2, hj2⟩ :=
      ih (f.name :: gdone) (funcsDone ++ [f]) s1 hM1
        (by intro x hx; rcases List.mem_cons.1 hx with rfl | h1
            · exact hnames _ (by simp)
            · exact hgsub x h1)
        (fun g hg => hnames g (by simp [hg])) hnd1
        (by intro g hg; rcases List.mem_append.1 hg with h1 | h1
            · exact hfuncs g h1
            · simp at h1; subst h1; exact hgo)
        (fun g hg => hcore g (by simp [hg]))
    refine ⟨st', by simp [funcsWith, e1, e2], ?_, hj2.trans hj1⟩
    simpa using hM2

theorem pending_nil_of_no_entry (p : TyEnv) (h : ∀ x t, lookupTy p x = some t → False) : p = [] := by
  cases p with
  | nil => rfl
  | cons q r =>
    obtain ⟨k, t⟩ := q
    exact (h k t (by simp [lookupTy])).elim

/-! ## module level, before the first subroutine -/

/-- the reader's state before the first subroutine -/
structure PreInv (gdone : List String) (st : BState) : Prop where
  globals : ∀ x, x ∈ st.globals ↔ x ∈ gdone
  pending : st.pending = []
  funcs : st.funcs = []
  cur : st.cur = []
  blocks : st.blocks = []

theorem defineGlobal_fresh {gdone : List String} {st : BState} (h : PreInv gdone st) (x : String)
    (hx : x ∉ gdone) : ∃ st', defineGlobal st x = .ok st' ∧ PreInv (x :: gdone) st' := by
  have hxg : x ∉ st.globals := fun hm => hx ((h.globals x).1 hm)
  refine ⟨{ st with globals := x :: st.globals }, ?_, ⟨?_, h.pending, h.funcs, h.cur, h.blocks⟩⟩
  · simp [defineGlobal, h.pending, lookupTy, hxg]
  · intro y; simp [h.globals y]


end Proofs.IRBuild
