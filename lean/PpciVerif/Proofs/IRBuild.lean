import PpciVerif.Model.IRFrag
/-!
# Proofs.IRBuild — the construction layer rebuilds a function from its raw instructions

Main result (`feedAll_spec` and the block / function level corollaries further down): feeding the raw
form (`eraseInstr`) of the instructions of a function of the fragment `funcCore` to `Model.IRBuild.feed` /
`append`, in order, never fails and — once all values of the function are defined — has rebuilt exactly
the original instructions.  In between, an operand naming a value that is defined *later* in the text
is recorded as a placeholder; `maskInstr D` describes the recorded instruction while `D` is the set of
values defined so far.
-/
namespace Proofs.IRBuild
open Spec.IR Model.IRBuild Model.IRFrag

/-! ## association lists -/

theorem lookupTy_cons (l : TyEnv) (y x : String) (t : Ty) :
    lookupTy ((y, t) :: l) x = if x = y then some t else lookupTy l x := rfl

theorem lookupTy_setTy (l : TyEnv) (x y : String) (w : Ty) :
    lookupTy (setTy l x w) y =
      if y = x then (if (lookupTy l x).isSome then some w else none) else lookupTy l y := by
  induction l with
  | nil => simp [setTy, lookupTy]
  | cons p r ih =>
    obtain ⟨k, t⟩ := p
    by_cases hxk : x = k
    · subst hxk
      by_cases hy : y = x
      · subst hy; simp [setTy, lookupTy]
      · simp [setTy, lookupTy, hy]
    · by_cases hy : y = x
      · subst hy; simp [setTy, lookupTy, hxk, ih]
      · by_cases hyk : y = k
        · subst hyk
          have hxy : ¬ x = y := hxk
          simp [setTy, lookupTy, hxy, hy]
        · simp [setTy, lookupTy, hxk, hyk, ih, hy]

theorem lookupTy_eraseKey (l : TyEnv) (x y : String) :
    lookupTy (eraseKey l x) y = if y = x then none else lookupTy l y := by
  induction l with
  | nil => simp [eraseKey, lookupTy]
  | cons p r ih =>
    obtain ⟨k, t⟩ := p
    by_cases hxk : x = k
    · subst hxk
      by_cases hy : y = x
      · subst hy; simp [eraseKey, ih]
      · simp [eraseKey, lookupTy, ih, hy]
    · by_cases hy : y = x
      · subst hy; simp [eraseKey, lookupTy, hxk, ih]
      · simp [eraseKey, lookupTy, hxk, ih, hy]

theorem lookupTy_append (a b : TyEnv) (x : String) :
    lookupTy (a ++ b) x = match lookupTy a x with | some t => some t | none => lookupTy b x := by
  induction a with
  | nil => simp [lookupTy]
  | cons p r ih =>
    obtain ⟨k, t⟩ := p
    by_cases h : x = k
    · simp [lookupTy, h]
    · simp [lookupTy, h, ih]

theorem lookupTy_isSome_iff (l : TyEnv) (x : String) :
    (lookupTy l x).isSome = true ↔ x ∈ l.map (·.1) := by
  induction l with
  | nil => simp [lookupTy]
  | cons p r ih =>
    obtain ⟨k, t⟩ := p
    by_cases h : x = k
    · simp [lookupTy, h]
    · simp [lookupTy, h, ih]

theorem lookupTy_none_iff (l : TyEnv) (x : String) :
    lookupTy l x = none ↔ x ∉ l.map (·.1) := by
  rw [← lookupTy_isSome_iff]; cases lookupTy l x <;> simp

/-! ## the invariant of a function body -/

/-- a placeholder of a value of type `T` has type `t` -/
def okPend (T t : Ty) : Prop := t = T ∨ t = .ptr ∨ (T.isBlob = true ∧ t = .blob 1 1)

/-- operand as the reader records it while exactly the values `D` of the function are defined -/
def maskOp (D : List String) : Operand → Operand
  | .loc x => if x ∈ D then .loc x else .glob x
  | .glob g => .glob g

/-- `G`: all module-level names; `env`: all values of the function; `D`: the values defined so far -/
structure Inv (G : List String) (env : TyEnv) (D : List String) (st : BState) : Prop where
  globs : ∀ g, g ∈ st.globals → g ∈ G
  locs : ∀ x, lookupTy st.locals x = if x ∈ D then lookupTy env x else none
  pend : ∀ x t, lookupTy st.pending x = some t →
    (x ∈ G ∧ x ∉ st.globals ∧ t = .ptr) ∨ (x ∉ D ∧ ∃ T, lookupTy env x = some T ∧ okPend T t)

theorem tyOf_loc (G : List String) (env : TyEnv) (x : String) : tyOf G env (.loc x) = lookupTy env x := rfl

theorem tyOf_glob (G : List String) (env : TyEnv) (g : String) (T : Ty) :
    tyOf G env (.glob g) = some T ↔ (g ∈ G ∧ T = .ptr) := by
  simp only [tyOf]
  by_cases h : G.contains g = true
  · have h' : g ∈ G := by simpa using h
    simp [h, h', eq_comm]
  · have h' : g ∉ G := by simpa using h
    simp [h, h']

/-- what one `find_value` / `get_value_ref` does to the state and returns -/
theorem lookup_spec {G : List String} {env : TyEnv} {D : List String} {st : BState}
    (h : Inv G env D st) (hdisj : ∀ x, x ∈ env.map (·.1) → x ∉ G)
    (o : Operand) (T : Ty) (hT : tyOf G env o = some T) (want : Option Ty)
    (hw : want = none ∨ want = some T ∨ (want = some (.blob 1 1) ∧ T.isBlob = true)) :
    ∃ p' t', lookup st (opName o) want = ({ st with pending := p' }, maskOp D o, t') ∧
      Inv G env D { st with pending := p' } ∧
      (want = some T → t' = T) ∧ (T = .ptr → t' = .ptr) ∧
      (want = some (.blob 1 1) → T.isBlob = true → t'.isBlob = true) ∧
      (∀ x, o = .loc x → x ∉ D → (lookupTy p' x).isSome = true) ∧
      (∀ y, (lookupTy st.pending y).isSome = true → (lookupTy p' y).isSome = true) := by
  cases o with
  | loc x =>
    have hx : lookupTy env x = some T := hT
    have hxenv : x ∈ env.map (·.1) := (lookupTy_isSome_iff env x).1 (by simp [hx])
    have hxG : x ∉ G := hdisj x hxenv
    have hxg : x ∉ st.globals := fun hm => hxG (h.globs x hm)
    by_cases hD : x ∈ D
    · -- already defined
      have hl : lookupTy st.locals x = some T := by rw [h.locs x]; simp [hD, hx]
      refine ⟨st.pending, T, ?_, ?_, ?_, ?_, ?_, ?_, ?_⟩
      · simp [lookup, opName, hl, maskOp, hD]
      · exact h
      · intro _; rfl
      · intro hp; exact hp
      · intro _ hb; exact hb
      · intro y hy hny; cases hy; exact absurd hD hny
      · intro y hy; exact hy
    · -- forward reference
      have hl : lookupTy st.locals x = none := by rw [h.locs x]; simp [hD]
      cases hp : lookupTy st.pending x with
      | some t =>
        have hold : okPend T t := by
          rcases h.pend x t hp with ⟨hg, _, _⟩ | ⟨_, T', hT', hok⟩
          · exact absurd hg hxG
          · rw [hx] at hT'; cases hT'; exact hok
        cases want with
        | none =>
          refine ⟨st.pending, t, ?_, ?_, ?_, ?_, ?_, ?_, ?_⟩
          · simp [lookup, opName, hl, hxg, hp, maskOp, hD]
          · exact h
          · intro hc; cases hc
          · intro hTp; subst hTp
            rcases hold with h1 | h1 | ⟨h1, _⟩
            · exact h1
            · exact h1
            · simp [Ty.isBlob] at h1
          · intro hc; cases hc
          · intro y hy _; cases hy; simp [hp]
          · intro y hy; exact hy
        | some w =>
          have hwok : okPend T w := by
            rcases hw with hw | hw | ⟨hw, hb⟩
            · cases hw
            · cases hw; exact Or.inl rfl
            · cases hw; exact Or.inr (Or.inr ⟨hb, rfl⟩)
          refine ⟨setTy st.pending x w, w, ?_, ?_, ?_, ?_, ?_, ?_, ?_⟩
          · simp [lookup, opName, hl, hxg, hp, maskOp, hD]
          · refine ⟨h.globs, h.locs, ?_⟩
            intro y t' hy
            rw [lookupTy_setTy] at hy
            by_cases hyx : y = x
            · subst hyx
              simp [hp] at hy
              subst hy
              exact Or.inr ⟨hD, T, hx, hwok⟩
            · simp [hyx] at hy
              exact h.pend y t' hy
          · intro hc; cases hc; rfl
          · intro hTp; subst hTp
            rcases hwok with h1 | h1 | ⟨h1, _⟩
            · exact h1
            · exact h1
            · simp [Ty.isBlob] at h1
          · intro hc _; cases hc; rfl
          · intro y hy _; cases hy; simp [lookupTy_setTy, hp]
          · intro y hy
            rw [lookupTy_setTy]
            by_cases hyx : y = x
            · subst hyx; simp [hp]
            · simp [hyx, hy]
      | none =>
        have hnew : okPend T (want.getD .ptr) := by
          rcases hw with hw | hw | ⟨hw, hb⟩
          · subst hw; exact Or.inr (Or.inl rfl)
          · subst hw; exact Or.inl rfl
          · subst hw; exact Or.inr (Or.inr ⟨hb, rfl⟩)
        refine ⟨(x, want.getD .ptr) :: st.pending, want.getD .ptr, ?_, ?_, ?_, ?_, ?_, ?_, ?_⟩
        · simp [lookup, opName, hl, hxg, hp, maskOp, hD]
        · refine ⟨h.globs, h.locs, ?_⟩
          intro y t' hy
          rw [lookupTy_cons] at hy
          by_cases hyx : y = x
          · subst hyx
            simp at hy
            subst hy
            exact Or.inr ⟨hD, T, hx, hnew⟩
          · simp [hyx] at hy
            exact h.pend y t' hy
        · intro hc; subst hc; rfl
        · intro hTp; subst hTp
          rcases hnew with h1 | h1 | ⟨h1, _⟩
          · exact h1
          · exact h1
          · simp [Ty.isBlob] at h1
        · intro hc _; subst hc; rfl
        · intro y hy _; cases hy; simp [lookupTy_cons]
        · intro y hy
          rw [lookupTy_cons]
          by_cases hyx : y = x
          · simp [hyx]
          · simp [hyx, hy]
  | glob g =>
    obtain ⟨hgG, hTp⟩ := (tyOf_glob G env g T).1 hT
    subst hTp
    have hgenv : g ∉ env.map (·.1) := fun hm => hdisj g hm hgG
    have hl : lookupTy st.locals g = none := by
      rw [h.locs g]
      have : lookupTy env g = none := (lookupTy_none_iff env g).2 hgenv
      split <;> simp [this]
    have hwant : want = none ∨ want = some .ptr := by
      rcases hw with hw | hw | ⟨_, hb⟩
      · exact Or.inl hw
      · exact Or.inr hw
      · simp [Ty.isBlob] at hb
    by_cases hgs : g ∈ st.globals
    · have hc : g ∈ st.globals := hgs
      refine ⟨st.pending, .ptr, ?_, h, ?_, ?_, ?_, ?_, ?_⟩
      · simp [lookup, opName, hl, hc, maskOp]
      · intro _; rfl
      · intro _; rfl
      · intro _ hb; simp [Ty.isBlob] at hb
      · intro y hy; cases hy
      · intro y hy; exact hy
    · have hc : g ∉ st.globals := hgs
      cases hp : lookupTy st.pending g with
      | some t =>
        have htp : t = .ptr := by
          rcases h.pend g t hp with ⟨_, _, h1⟩ | ⟨_, T', hT', _⟩
          · exact h1
          · have : lookupTy env g = none := (lookupTy_none_iff env g).2 hgenv
            rw [this] at hT'; cases hT'
        subst htp
        rcases hwant with hw' | hw'
        · subst hw'
          refine ⟨st.pending, .ptr, ?_, h, ?_, ?_, ?_, ?_, ?_⟩
          · simp [lookup, opName, hl, hc, hp, maskOp]
          · intro _; rfl
          · intro _; rfl
          · intro hcc; cases hcc
          · intro y hy; cases hy
          · intro y hy; exact hy
        · subst hw'
          refine ⟨setTy st.pending g .ptr, .ptr, ?_, ?_, ?_, ?_, ?_, ?_, ?_⟩
          · simp [lookup, opName, hl, hc, hp, maskOp]
          · refine ⟨h.globs, h.locs, ?_⟩
            intro y t' hy
            rw [lookupTy_setTy] at hy
            by_cases hyx : y = g
            · subst hyx
              simp [hp] at hy
              subst hy
              exact Or.inl ⟨hgG, hgs, rfl⟩
            · simp [hyx] at hy
              exact h.pend y t' hy
          · intro _; rfl
          · intro _; rfl
          · intro hcc; cases hcc
          · intro y hy; cases hy
          · intro y hy
            rw [lookupTy_setTy]
            by_cases hyx : y = g
            · subst hyx; simp [hp]
            · simp [hyx, hy]
      | none =>
        have hgd : want.getD .ptr = .ptr := by
          rcases hwant with hw' | hw' <;> subst hw' <;> rfl
        refine ⟨(g, want.getD .ptr) :: st.pending, want.getD .ptr, ?_, ?_, ?_, ?_, ?_, ?_, ?_⟩
        · simp [lookup, opName, hl, hc, hp, maskOp]
        · refine ⟨h.globs, h.locs, ?_⟩
          intro y t' hy
          rw [lookupTy_cons] at hy
          by_cases hyx : y = g
          · subst hyx
            simp at hy
            subst hy
            exact Or.inl ⟨hgG, hgs, hgd⟩
          · simp [hyx] at hy
            exact h.pend y t' hy
        · intro _; exact hgd
        · intro _; exact hgd
        · intro hcc; rw [hcc] at hgd; cases hgd
        · intro y hy; cases hy
        · intro y hy
          rw [lookupTy_cons]
          by_cases hyx : y = g
          · simp [hyx]
          · simp [hyx, hy]

/-! ## states that differ only in the placeholder dictionary and the block map -/

def withPR (st : BState) (p : TyEnv) (r : List String) : BState := { st with pending := p, blockRefs := r }

@[simp] theorem withPR_pending (st : BState) (p r) : (withPR st p r).pending = p := rfl
@[simp] theorem withPR_blockRefs (st : BState) (p r) : (withPR st p r).blockRefs = r := rfl
@[simp] theorem withPR_globals (st : BState) (p r) : (withPR st p r).globals = st.globals := rfl
@[simp] theorem withPR_locals (st : BState) (p r) : (withPR st p r).locals = st.locals := rfl
@[simp] theorem withPR_json (st : BState) (p r) : (withPR st p r).json = st.json := rfl
@[simp] theorem withPR_defined (st : BState) (p r) : (withPR st p r).defined = st.defined := rfl
@[simp] theorem withPR_blockDefs (st : BState) (p r) : (withPR st p r).blockDefs = st.blockDefs := rfl
@[simp] theorem withPR_curName (st : BState) (p r) : (withPR st p r).curName = st.curName := rfl
@[simp] theorem withPR_cur (st : BState) (p r) : (withPR st p r).cur = st.cur := rfl
@[simp] theorem withPR_blocks (st : BState) (p r) : (withPR st p r).blocks = st.blocks := rfl
@[simp] theorem withPR_funcs (st : BState) (p r) : (withPR st p r).funcs = st.funcs := rfl
@[simp] theorem withPR_withPR (st : BState) (p r p' r') : withPR (withPR st p r) p' r' = withPR st p' r' := rfl
theorem withPR_self (st : BState) : withPR st st.pending st.blockRefs = st := rfl

theorem Inv_withPR {G env D st} (p : TyEnv) (r r' : List String)
    (h : Inv G env D (withPR st p r)) : Inv G env D (withPR st p r') :=
  ⟨h.globs, h.locs, h.pend⟩

/-- `lookup_spec` phrased with `withPR`, starting from any state of the family -/
theorem lookup_spec' {G : List String} {env : TyEnv} {D : List String} {st : BState} {p : TyEnv} {r : List String}
    (h : Inv G env D (withPR st p r)) (hdisj : ∀ x, x ∈ env.map (·.1) → x ∉ G)
    (o : Operand) (T : Ty) (hT : tyOf G env o = some T) (want : Option Ty)
    (hw : want = none ∨ want = some T ∨ (want = some (.blob 1 1) ∧ T.isBlob = true)) :
    ∃ p' t', lookup (withPR st p r) (opName o) want = (withPR st p' r, maskOp D o, t') ∧
      Inv G env D (withPR st p' r) ∧
      (want = some T → t' = T) ∧ (T = .ptr → t' = .ptr) ∧
      (want = some (.blob 1 1) → T.isBlob = true → t'.isBlob = true) ∧
      (∀ x, o = .loc x → x ∉ D → (lookupTy p' x).isSome = true) ∧
      (∀ y, (lookupTy p y).isSome = true → (lookupTy p' y).isSome = true) := by
  obtain ⟨p', t', h1, h2, h3, h4, h5, h6, h7⟩ := lookup_spec h hdisj o T hT want hw
  exact ⟨p', t', h1, h2, h3, h4, h5, h6, h7⟩

def addRef (r : List String) (b : String) : List String := if r.contains b then r else b :: r

theorem mem_addRef {r : List String} {b c : String} (h : c ∈ addRef r b) : c ∈ r ∨ c = b := by
  unfold addRef at h
  by_cases hb : b ∈ r
  · simp only [List.contains_eq_mem, hb, decide_true, if_true] at h; exact Or.inl h
  · simp only [List.contains_eq_mem, hb, decide_false, Bool.false_eq_true, if_false, List.mem_cons] at h
    rcases h with rfl | h
    · exact Or.inr rfl
    · exact Or.inl h

theorem blockRef_withPR (st : BState) (p : TyEnv) (r : List String) (b : String) :
    blockRef (withPR st p r) b = withPR st p (addRef r b) := by
  by_cases h : b ∈ r <;> simp [blockRef, addRef, h, withPR]

/-! ## the recorded form of an instruction -/

def maskInstr (D : List String) : Instr → Instr
  | .addrof d s => .addrof d (maskOp D s)
  | .binop d ty op a b => .binop d ty op (maskOp D a) (maskOp D b)
  | .unop d ty op a => .unop d ty op (maskOp D a)
  | .cast d ty a => .cast d ty (maskOp D a)
  | .load d ty a vol => .load d ty (maskOp D a) vol
  | .store ty v a vol =>
    .store (match maskOp D v with | .loc _ => ty | .glob _ => .ptr) (maskOp D v) (maskOp D a) vol
  | .copyblob d s n => .copyblob (maskOp D d) (maskOp D s) n
  | .phi d ty ins => .phi d ty (ins.map (fun p => (p.1, maskOp D p.2)))
  | .fcall d ty c args => .fcall d ty (maskOp D c) (args.map (maskOp D))
  | .pcall c args => .pcall (maskOp D c) (args.map (maskOp D))
  | .cjump a c b y n => .cjump (maskOp D a) c (maskOp D b) y n
  | .ret v => .ret (maskOp D v)
  | i => i

@[simp] theorem opName_eraseOpnd (o : Operand) : opName (eraseOpnd o) = opName o := by
  cases o <;> rfl

/-- arguments of a call: untyped look-ups, in order -/
theorem lookupMany_spec {G : List String} {env : TyEnv} {D : List String} {st : BState}
    (hdisj : ∀ x, x ∈ env.map (·.1) → x ∉ G) (r : List String) :
    ∀ (args : List Operand) (p : TyEnv), Inv G env D (withPR st p r) →
      (∀ o ∈ args, (tyOf G env o).isSome = true) →
      ∃ p', lookupMany (withPR st p r) (args.map eraseOpnd) = (withPR st p' r, args.map (maskOp D)) ∧
        Inv G env D (withPR st p' r) ∧
        (∀ o ∈ args, ∀ x, o = .loc x → x ∉ D → (lookupTy p' x).isSome = true) ∧
        (∀ y, (lookupTy p y).isSome = true → (lookupTy p' y).isSome = true) := by
  intro args
  induction args with
  | nil => intro p h _; exact ⟨p, rfl, h, by simp, fun _ hy => hy⟩
  | cons a rest ih =>
    intro p h hops
    have ha : (tyOf G env a).isSome = true := hops a (by simp)
    obtain ⟨T, hT⟩ := Option.isSome_iff_exists.1 ha
    obtain ⟨p1, t1, e1, i1, -, -, -, f1, m1⟩ := lookup_spec' h hdisj a T hT none (Or.inl rfl)
    obtain ⟨p2, e2, i2, f2, m2⟩ := ih p1 i1 (fun o ho => hops o (by simp [ho]))
    refine ⟨p2, ?_, i2, ?_, fun y hy => m2 y (m1 y hy)⟩
    · simp [lookupMany, e1, e2]
    · intro o ho x hx hD
      rcases List.mem_cons.1 ho with rfl | ho'
      · exact m2 x (f1 x hx hD)
      · exact f2 o ho' x hx hD

theorem setIncoming_fresh (acc : List (String × Operand)) (b : String) (o : Operand)
    (h : b ∉ acc.map (·.1)) : setIncoming acc b o = acc ++ [(b, o)] := by
  induction acc with
  | nil => rfl
  | cons q r ih =>
    obtain ⟨c, v⟩ := q
    have hc : ¬ c = b := by intro hcb; apply h; simp [hcb]
    have hr : b ∉ r.map (·.1) := by intro hm; apply h; simp [hm]
    simp [setIncoming, hc, ih hr]

theorem nodupB_cons (x : String) (r : List String) :
    nodupB (x :: r) = true ↔ (x ∉ r ∧ nodupB r = true) := by
  simp [nodupB]

/-- inputs of a phi: typed look-ups; distinct blocks are appended in order -/
theorem buildPhiIns_spec {G : List String} {env : TyEnv} {D : List String} {st : BState}
    (hdisj : ∀ x, x ∈ env.map (·.1) → x ∉ G) (ty : Ty) :
    ∀ (ins : List (String × Operand)) (acc : List (String × Operand)) (p : TyEnv) (r : List String),
      Inv G env D (withPR st p r) →
      (∀ q ∈ ins, tyOf G env q.2 = some ty) →
      nodupB (ins.map (·.1)) = true → (∀ q ∈ ins, q.1 ∉ acc.map (·.1)) →
      ∃ p' r', buildPhiIns (withPR st p r) ty (ins.map (fun q => (q.1, eraseOpnd q.2))) acc =
          .ok (withPR st p' r', acc ++ ins.map (fun q => (q.1, maskOp D q.2))) ∧
        Inv G env D (withPR st p' r') ∧
        (∀ q ∈ ins, ∀ x, q.2 = .loc x → x ∉ D → (lookupTy p' x).isSome = true) ∧
        (∀ y, (lookupTy p y).isSome = true → (lookupTy p' y).isSome = true) ∧
        (∀ b, b ∈ r' → b ∈ r ∨ b ∈ ins.map (·.1)) := by
  intro ins
  induction ins with
  | nil =>
    intro acc p r h _ _ _
    exact ⟨p, r, by simp [buildPhiIns], h, by simp, fun _ hy => hy, fun b hb => Or.inl hb⟩
  | cons q rest ih =>
    intro acc p r h hty hnd hfresh
    obtain ⟨b, v⟩ := q
    have hv : tyOf G env v = some ty := hty (b, v) (by simp)
    obtain ⟨hb_rest, hnd_rest⟩ := (nodupB_cons b (rest.map (·.1))).1 (by simpa using hnd)
    have hbacc : b ∉ acc.map (·.1) := hfresh (b, v) (by simp)
    have h0 : Inv G env D (withPR st p (addRef r b)) := Inv_withPR p r _ h
    obtain ⟨p1, t1, e1, i1, ht1, -, -, f1, m1⟩ :=
      lookup_spec' h0 hdisj v ty hv (some ty) (Or.inr (Or.inl rfl))
    have ht : t1 = ty := ht1 rfl
    have hfresh' : ∀ q ∈ rest, q.1 ∉ (setIncoming acc b (maskOp D v)).map (·.1) := by
      intro q hq
      rw [setIncoming_fresh acc b _ hbacc]
      have h1 : q.1 ∉ acc.map (·.1) := hfresh q (by simp [hq])
      have h2 : q.1 ≠ b := by
        intro hqb; apply hb_rest; rw [← hqb]; exact List.mem_map_of_mem hq
      simp only [List.map_append, List.map_cons, List.map_nil, List.mem_append, List.mem_singleton, not_or]
      exact ⟨h1, h2⟩
    obtain ⟨p2, r2, e2, i2, f2, m2, b2⟩ :=
      ih (setIncoming acc b (maskOp D v)) p1 _ i1 (fun q hq => hty q (by simp [hq])) hnd_rest hfresh'
    refine ⟨p2, r2, ?_, i2, ?_, fun y hy => m2 y (m1 y hy), ?_⟩
    · simp only [List.map_cons, buildPhiIns, blockRef_withPR, opName_eraseOpnd, e1, ht]
      simp only [ne_eq, not_true_eq_false, ↓reduceIte]
      rw [e2, setIncoming_fresh acc b _ hbacc]
      simp
    · intro q hq x hx hD
      rcases List.mem_cons.1 hq with rfl | hq'
      · exact m2 x (f1 x hx hD)
      · exact f2 q hq' x hx hD
    · intro c hc
      rcases b2 c hc with h' | h'
      · rcases mem_addRef h' with h'' | rfl
        · exact Or.inl h''
        · exact Or.inr (by simp)
      · exact Or.inr (by simp [h'])

/-- an operand that is recorded as a value of the function has that value's type -/
theorem lookup_defined {G : List String} {env : TyEnv} {D : List String} {st : BState}
    (h : Inv G env D st) (o : Operand) (T : Ty) (hT : tyOf G env o = some T) (want : Option Ty)
    (x : String) (hm : maskOp D o = .loc x) : (lookup st (opName o) want).2.2 = T := by
  cases o with
  | glob g => simp [maskOp] at hm
  | loc y =>
    by_cases hD : y ∈ D
    · have hl : lookupTy st.locals y = some T := by
        rw [h.locs y]; simp only [hD, if_true]; exact hT
      simp [lookup, opName, hl]
    · simp [maskOp, hD] at hm

theorem eraseInstr_phi (d : String) (ty : Ty) (ins : List (String × Operand)) :
    eraseInstr (.phi d ty ins) = .phi d ty (ins.map (fun q => (q.1, eraseOpnd q.2))) := rfl

/-- `build` on the raw form of an instruction that satisfies the constructor checks -/
theorem build_spec {G : List String} {env : TyEnv} {D : List String} {st : BState} {p : TyEnv} {r : List String}
    (h : Inv G env D (withPR st p r)) (hdisj : ∀ x, x ∈ env.map (·.1) → x ∉ G) (i : Instr)
    (hops : ∀ o ∈ operands i, (tyOf G env o).isSome = true)
    (hty : typedOk G env i = true) (hphi : nodupB (i.phiIns.map (·.1)) = true) :
    ∃ p' r', build (withPR st p r) (eraseInstr i) = .ok (withPR st p' r', maskInstr D i) ∧
      Inv G env D (withPR st p' r') ∧
      (∀ o ∈ operands i, ∀ x, o = .loc x → x ∉ D → (lookupTy p' x).isSome = true) ∧
      (∀ y, (lookupTy p y).isSome = true → (lookupTy p' y).isSome = true) ∧
      (∀ b, b ∈ r' → b ∈ r ∨ b ∈ blockRefsOf i) := by
  have triv : ∀ (j : Instr), operands j = [] → build (withPR st p r) (eraseInstr j) = .ok (withPR st p r, maskInstr D j) →
      ∃ p' r', build (withPR st p r) (eraseInstr j) = .ok (withPR st p' r', maskInstr D j) ∧
        Inv G env D (withPR st p' r') ∧
        (∀ o ∈ operands j, ∀ x, o = .loc x → x ∉ D → (lookupTy p' x).isSome = true) ∧
        (∀ y, (lookupTy p y).isSome = true → (lookupTy p' y).isSome = true) ∧
        (∀ b, b ∈ r' → b ∈ r ∨ b ∈ blockRefsOf j) := by
    intro j hj e
    exact ⟨p, r, e, h, by simp [hj], fun _ hy => hy, fun b hb => Or.inl hb⟩
  cases i with
  | const d ty c => exact triv _ rfl rfl
  | undefined d ty => exact triv _ rfl rfl
  | literal d data => exact triv _ rfl rfl
  | exit => exact triv _ rfl rfl
  | alloc d s a =>
    have hs : s ≠ 0 := by simpa [typedOk] using hty
    exact triv _ rfl (by simp [build, eraseInstr, hs, maskInstr])
  | asm tpl ins outs cl => simp [typedOk] at hty
  | jump t =>
    refine ⟨p, addRef r t, ?_, Inv_withPR p r _ h, by simp [operands, Instr.uses], fun _ hy => hy, ?_⟩
    · simp only [eraseInstr, build, blockRef_withPR, maskInstr]
    · intro b hb
      rcases mem_addRef hb with hb | rfl
      · exact Or.inl hb
      · exact Or.inr (by simp [blockRefsOf, Instr.targets])
  | addrof d s =>
    have hs : (tyOf G env s).isSome = true := hops s (by simp [operands, Instr.uses])
    obtain ⟨T, hT⟩ := Option.isSome_iff_exists.1 hs
    have hb : T.isBlob = true := by simpa [typedOk, hT] using hty
    obtain ⟨p1, t1, e1, i1, -, -, hb1, f1, m1⟩ :=
      lookup_spec' h hdisj s T hT (some (.blob 1 1)) (Or.inr (Or.inr ⟨rfl, hb⟩))
    refine ⟨p1, r, ?_, i1, ?_, m1, fun b hb => Or.inl hb⟩
    · simp [build, eraseInstr, e1, hb1 rfl hb, maskInstr]
    · intro o ho x hx hD
      simp [operands, Instr.uses] at ho; subst ho; exact f1 x hx hD
  | binop d ty op a b =>
    obtain ⟨ha, hb⟩ : tyOf G env a = some ty ∧ tyOf G env b = some ty := by simpa [typedOk] using hty
    obtain ⟨p1, t1, e1, i1, ht1, -, -, f1, m1⟩ := lookup_spec' h hdisj a ty ha (some ty) (Or.inr (Or.inl rfl))
    obtain ⟨p2, t2, e2, i2, ht2, -, -, f2, m2⟩ := lookup_spec' i1 hdisj b ty hb (some ty) (Or.inr (Or.inl rfl))
    refine ⟨p2, r, ?_, i2, ?_, fun y hy => m2 y (m1 y hy), fun b hb => Or.inl hb⟩
    · simp [build, eraseInstr, e1, e2, ht1 rfl, ht2 rfl, maskInstr]
    · intro o ho x hx hD
      simp [operands, Instr.uses] at ho
      rcases ho with rfl | rfl
      · exact m2 x (f1 x hx hD)
      · exact f2 x hx hD
  | unop d ty op a =>
    have ha : tyOf G env a = some ty := by simpa [typedOk] using hty
    obtain ⟨p1, t1, e1, i1, ht1, -, -, f1, m1⟩ := lookup_spec' h hdisj a ty ha (some ty) (Or.inr (Or.inl rfl))
    refine ⟨p1, r, ?_, i1, ?_, m1, fun b hb => Or.inl hb⟩
    · simp [build, eraseInstr, e1, ht1 rfl, maskInstr]
    · intro o ho x hx hD
      simp [operands, Instr.uses] at ho; subst ho; exact f1 x hx hD
  | cast d ty a =>
    have ha : (tyOf G env a).isSome = true := hops a (by simp [operands, Instr.uses])
    obtain ⟨T, hT⟩ := Option.isSome_iff_exists.1 ha
    obtain ⟨p1, t1, e1, i1, -, -, -, f1, m1⟩ := lookup_spec' h hdisj a T hT none (Or.inl rfl)
    refine ⟨p1, r, ?_, i1, ?_, m1, fun b hb => Or.inl hb⟩
    · simp [build, eraseInstr, e1, maskInstr]
    · intro o ho x hx hD
      simp [operands, Instr.uses] at ho; subst ho; exact f1 x hx hD
  | ret v =>
    have ha : (tyOf G env v).isSome = true := hops v (by simp [operands, Instr.uses])
    obtain ⟨T, hT⟩ := Option.isSome_iff_exists.1 ha
    obtain ⟨p1, t1, e1, i1, -, -, -, f1, m1⟩ := lookup_spec' h hdisj v T hT none (Or.inl rfl)
    refine ⟨p1, r, ?_, i1, ?_, m1, fun b hb => Or.inl hb⟩
    · simp [build, eraseInstr, e1, maskInstr]
    · intro o ho x hx hD
      simp [operands, Instr.uses] at ho; subst ho; exact f1 x hx hD
  | load d ty a vol =>
    obtain ⟨ha, hnb⟩ : tyOf G env a = some .ptr ∧ ty.isBlob = false := by simpa [typedOk] using hty
    obtain ⟨p1, t1, e1, i1, -, hp1, -, f1, m1⟩ := lookup_spec' h hdisj a .ptr ha none (Or.inl rfl)
    refine ⟨p1, r, ?_, i1, ?_, m1, fun b hb => Or.inl hb⟩
    · simp [build, eraseInstr, e1, hp1 rfl, hnb, maskInstr]
    · intro o ho x hx hD
      simp [operands, Instr.uses] at ho; subst ho; exact f1 x hx hD
  | store ty v a vol =>
    obtain ⟨hv, ha⟩ : tyOf G env v = some ty ∧ tyOf G env a = some .ptr := by simpa [typedOk] using hty
    obtain ⟨p1, t1, e1, i1, -, -, -, f1, m1⟩ := lookup_spec' h hdisj v ty hv none (Or.inl rfl)
    obtain ⟨p2, t2, e2, i2, -, hp2, -, f2, m2⟩ := lookup_spec' i1 hdisj a .ptr ha none (Or.inl rfl)
    have hdef : ∀ x, maskOp D v = .loc x → t1 = ty := by
      intro x hx
      have := lookup_defined h v ty hv none x hx
      rw [e1] at this; exact this
    refine ⟨p2, r, ?_, i2, ?_, fun y hy => m2 y (m1 y hy), fun b hb => Or.inl hb⟩
    · simp only [build, eraseInstr, opName_eraseOpnd, e1, e2, hp2 rfl, maskInstr]
      cases hmv : maskOp D v with
      | loc x => simp [hdef x hmv]
      | glob g => simp
    · intro o ho x hx hD
      simp [operands, Instr.uses] at ho
      rcases ho with rfl | rfl
      · exact m2 x (f1 x hx hD)
      · exact f2 x hx hD
  | copyblob dd ss n =>
    have hd : (tyOf G env dd).isSome = true := hops dd (by simp [operands, Instr.uses])
    have hs : (tyOf G env ss).isSome = true := hops ss (by simp [operands, Instr.uses])
    obtain ⟨T1, hT1⟩ := Option.isSome_iff_exists.1 hd
    obtain ⟨T2, hT2⟩ := Option.isSome_iff_exists.1 hs
    obtain ⟨p1, t1, e1, i1, -, -, -, f1, m1⟩ := lookup_spec' h hdisj dd T1 hT1 none (Or.inl rfl)
    obtain ⟨p2, t2, e2, i2, -, -, -, f2, m2⟩ := lookup_spec' i1 hdisj ss T2 hT2 none (Or.inl rfl)
    refine ⟨p2, r, ?_, i2, ?_, fun y hy => m2 y (m1 y hy), fun b hb => Or.inl hb⟩
    · simp [build, eraseInstr, e1, e2, maskInstr]
    · intro o ho x hx hD
      simp [operands, Instr.uses] at ho
      rcases ho with rfl | rfl
      · exact m2 x (f1 x hx hD)
      · exact f2 x hx hD
  | cjump a c b y n =>
    have ha : (tyOf G env a).isSome = true := hops a (by simp [operands, Instr.uses])
    have hb : (tyOf G env b).isSome = true := hops b (by simp [operands, Instr.uses])
    obtain ⟨T1, hT1⟩ := Option.isSome_iff_exists.1 ha
    obtain ⟨T2, hT2⟩ := Option.isSome_iff_exists.1 hb
    obtain ⟨p1, t1, e1, i1, -, -, -, f1, m1⟩ := lookup_spec' h hdisj a T1 hT1 none (Or.inl rfl)
    obtain ⟨p2, t2, e2, i2, -, -, -, f2, m2⟩ := lookup_spec' i1 hdisj b T2 hT2 none (Or.inl rfl)
    refine ⟨p2, addRef (addRef r y) n, ?_, Inv_withPR p2 r _ i2, ?_, fun y hy => m2 y (m1 y hy), ?_⟩
    · simp only [build, eraseInstr, opName_eraseOpnd, e1, e2, blockRef_withPR, maskInstr]
    · intro o ho x hx hD
      simp [operands, Instr.uses] at ho
      rcases ho with rfl | rfl
      · exact m2 x (f1 x hx hD)
      · exact f2 x hx hD
    · intro bb hbb
      rcases mem_addRef hbb with h1 | rfl
      · rcases mem_addRef h1 with h2 | rfl
        · exact Or.inl h2
        · exact Or.inr (by simp [blockRefsOf, Instr.targets])
      · exact Or.inr (by simp [blockRefsOf, Instr.targets])
  | fcall d ty c args =>
    have hc : tyOf G env c = some .ptr := by simpa [typedOk] using hty
    obtain ⟨p1, t1, e1, i1, -, hp1, -, f1, m1⟩ := lookup_spec' h hdisj c .ptr hc none (Or.inl rfl)
    obtain ⟨p2, e2, i2, f2, m2⟩ := lookupMany_spec hdisj r args p1 i1
      (fun o ho => hops o (by simp [operands, Instr.uses, ho]))
    refine ⟨p2, r, ?_, i2, ?_, fun y hy => m2 y (m1 y hy), fun b hb => Or.inl hb⟩
    · simp [build, eraseInstr, e1, e2, hp1 rfl, maskInstr]
    · intro o ho x hx hD
      simp [operands, Instr.uses] at ho
      rcases ho with rfl | ho
      · exact m2 x (f1 x hx hD)
      · exact f2 o ho x hx hD
  | pcall c args =>
    have hc : tyOf G env c = some .ptr := by simpa [typedOk] using hty
    obtain ⟨p1, t1, e1, i1, -, hp1, -, f1, m1⟩ := lookup_spec' h hdisj c .ptr hc none (Or.inl rfl)
    obtain ⟨p2, e2, i2, f2, m2⟩ := lookupMany_spec hdisj r args p1 i1
      (fun o ho => hops o (by simp [operands, Instr.uses, ho]))
    refine ⟨p2, r, ?_, i2, ?_, fun y hy => m2 y (m1 y hy), fun b hb => Or.inl hb⟩
    · simp [build, eraseInstr, e1, e2, hp1 rfl, maskInstr]
    · intro o ho x hx hD
      simp [operands, Instr.uses] at ho
      rcases ho with rfl | ho
      · exact m2 x (f1 x hx hD)
      · exact f2 o ho x hx hD
  | phi d ty ins =>
    have hall : ∀ q ∈ ins, tyOf G env q.2 = some ty := by
      intro q hq
      have := hty
      simp only [typedOk, List.all_eq_true] at this
      simpa using this q hq
    obtain ⟨p1, r1, e1, i1, f1, m1, b1⟩ :=
      buildPhiIns_spec hdisj ty ins [] p r h hall (by simpa [Instr.phiIns] using hphi) (by simp)
    refine ⟨p1, r1, ?_, i1, ?_, m1, ?_⟩
    · rw [eraseInstr_phi]
      simp only [build, e1]
      simp [maskInstr, bind, Except.bind, pure, Except.pure]
    · intro o ho x hx hD
      simp only [operands, List.mem_map] at ho
      obtain ⟨q, hq, rfl⟩ := ho
      exact f1 q hq x hx hD
    · intro b hb
      rcases b1 b hb with h' | h'
      · exact Or.inl h'
      · exact Or.inr (by simpa [blockRefsOf] using h')

end Proofs.IRBuild
