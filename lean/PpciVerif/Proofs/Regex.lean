import PpciVerif.Model.Regex
import PpciVerif.Spec.Lang
import PpciVerif.Spec.RegexLang
import PpciVerif.Proofs.IntSet
/-! Helper lemmas for C31, part 1: the specification (`Spec.Lang`), the smart constructors,
`nu`/`nullable`, `derivative`, `derivative_classes`. -/
namespace Proofs.Regex
open Spec.Lang Spec.RegexLang Model.Regex Model

/-! ### `Matches`: inversion lemmas -/

theorem matches_eps {σ} {s : List σ} : Matches (.eps : Rx σ) s ↔ s = [] := by
  constructor
  · intro h; cases h; rfl
  · rintro rfl; exact .eps

theorem matches_cls {σ} {p : σ → Bool} {s : List σ} : Matches (.cls p) s ↔ ∃ c, s = [c] ∧ p c = true := by
  constructor
  · intro h; cases h with | cls hc => exact ⟨_, rfl, hc⟩
  · rintro ⟨c, rfl, hc⟩; exact .cls hc

theorem matches_cat {σ} {l r : Rx σ} {s : List σ} :
    Matches (.cat l r) s ↔ ∃ u v, s = u ++ v ∧ Matches l u ∧ Matches r v := by
  constructor
  · intro h; cases h with | cat h1 h2 => exact ⟨_, _, rfl, h1, h2⟩
  · rintro ⟨u, v, rfl, h1, h2⟩; exact .cat h1 h2

theorem matches_alt {σ} {l r : Rx σ} {s : List σ} : Matches (.alt l r) s ↔ Matches l s ∨ Matches r s := by
  constructor
  · intro h; cases h with
    | altL h => exact .inl h
    | altR h => exact .inr h
  · rintro (h | h)
    · exact .altL h
    · exact .altR h

theorem matches_inter {σ} {l r : Rx σ} {s : List σ} : Matches (.inter l r) s ↔ Matches l s ∧ Matches r s := by
  constructor
  · intro h; cases h with | inter h1 h2 => exact ⟨h1, h2⟩
  · rintro ⟨h1, h2⟩; exact .inter h1 h2

/-- a non-empty string in `r*` starts with a non-empty piece in `r` -/
theorem matches_star_cons {σ} {r : Rx σ} {c : σ} {s : List σ} :
    Matches (.star r) (c :: s) ↔ ∃ u v, s = u ++ v ∧ Matches r (c :: u) ∧ Matches (.star r) v := by
  constructor
  · intro h
    generalize hw : c :: s = w at h
    generalize hq : Rx.star r = q at h
    induction h with
    | eps => cases hq
    | cls _ => cases hq
    | starNil => cases hw
    | @starCons r' u v h1 h2 _ ih2 =>
      cases hq
      cases u with
      | nil => exact ih2 hw rfl
      | cons a u' =>
        simp only [List.cons_append, List.cons.injEq] at hw
        obtain ⟨rfl, rfl⟩ := hw
        exact ⟨u', v, rfl, h1, h2⟩
    | cat _ _ => cases hq
    | altL _ => cases hq
    | altR _ => cases hq
    | inter _ _ => cases hq
  · rintro ⟨u, v, rfl, h1, h2⟩
    exact .starCons (u := c :: u) h1 h2

theorem matches_star_nil {σ} {r : Rx σ} : Matches (.star r) ([] : List σ) := .starNil

/-! ### `matchB` decides `Matches` -/

theorem mem_splits {σ} : ∀ (s u v : List σ), (u, v) ∈ splits s ↔ u ++ v = s
  | [], u, v => by
    simp only [splits, List.mem_singleton, Prod.mk.injEq, List.append_eq_nil_iff]
  | c :: s, u, v => by
    simp only [splits, List.mem_cons, Prod.mk.injEq, List.mem_map, Prod.exists]
    constructor
    · rintro (⟨rfl, rfl⟩ | ⟨a, b, hab, rfl, rfl⟩)
      · rfl
      · simp only [List.cons_append, (mem_splits s a b).1 hab]
    · intro h
      cases u with
      | nil => left; exact ⟨rfl, h⟩
      | cons a u' =>
        right
        simp only [List.cons_append, List.cons.injEq] at h
        exact ⟨u', v, (mem_splits s u' v).2 h.2, by rw [h.1], rfl⟩

theorem starAux_iff {σ} (m : List σ → Bool) (r : Rx σ) (hm : ∀ s, m s = true ↔ Matches r s) :
    ∀ (n : Nat) (s : List σ), s.length ≤ n → (starAux m n s = true ↔ Matches (.star r) s)
  | n, [], _ => by
    cases n <;> simp [starAux, matches_star_nil]
  | 0, c :: s, h => by simp at h
  | n + 1, c :: s, h => by
    simp only [starAux, List.any_eq_true, Bool.and_eq_true, Prod.exists]
    rw [matches_star_cons]
    constructor
    · rintro ⟨u, v, huv, h1, h2⟩
      have e := (mem_splits s u v).1 huv
      have hl : v.length ≤ n := by
        have := congrArg List.length e
        simp only [List.length_append, List.length_cons] at this h
        omega
      exact ⟨u, v, e.symm, (hm _).1 h1, (starAux_iff m r hm n v hl).1 h2⟩
    · rintro ⟨u, v, rfl, h1, h2⟩
      have hl : v.length ≤ n := by
        simp only [List.length_append, List.length_cons] at h
        omega
      exact ⟨u, v, (mem_splits _ u v).2 rfl, (hm _).2 h1, (starAux_iff m r hm n v hl).2 h2⟩

/-- the executable matcher of the specification decides the inductive relation -/
theorem matchB_iff {σ} : ∀ (r : Rx σ) (s : List σ), matchB r s = true ↔ Matches r s
  | .eps, s => by simp [matchB, matches_eps]
  | .cls p, s => by
    rw [matches_cls]
    match s with
    | [] => simp [matchB]
    | [c] => simp [matchB]
    | _ :: _ :: _ => simp [matchB]
  | .star r, s => by
    simp only [matchB]
    exact starAux_iff (matchB r) r (matchB_iff r) s.length s (Nat.le_refl _)
  | .cat l r, s => by
    simp only [matchB, List.any_eq_true, Bool.and_eq_true, Prod.exists, matches_cat]
    constructor
    · rintro ⟨u, v, huv, h1, h2⟩
      exact ⟨u, v, ((mem_splits s u v).1 huv).symm, (matchB_iff l u).1 h1, (matchB_iff r v).1 h2⟩
    · rintro ⟨u, v, rfl, h1, h2⟩
      exact ⟨u, v, (mem_splits _ u v).2 rfl, (matchB_iff l u).2 h1, (matchB_iff r v).2 h2⟩
  | .alt l r, s => by simp [matchB, matches_alt, matchB_iff l s, matchB_iff r s]
  | .inter l r, s => by simp [matchB, matches_inter, matchB_iff l s, matchB_iff r s]

/-! ### interface to the integer sets (C33) -/

open Spec.IntSet in
theorem mem_union (a b : SymSet) (v : Int) : Mem (IntSet.union a b) v ↔ Mem a v ∨ Mem b v := by
  unfold IntSet.union
  rw [(Proofs.IntSet.mk_spec _).2 v, Proofs.IntSet.mem_append]

open Spec.IntSet in
theorem canon_union (a b : SymSet) : Canon (IntSet.union a b) := (Proofs.IntSet.mk_spec _).1

open Spec.IntSet in
theorem mem_inter {a b : SymSet} (ha : Canon a) (hb : Canon b) (v : Int) :
    Mem (IntSet.inter a b) v ↔ Mem a v ∧ Mem b v := by
  unfold IntSet.inter
  rw [(Proofs.IntSet.mk_spec _).2 v, Proofs.IntSet.interLoop_spec a b ha hb v]

open Spec.IntSet in
theorem canon_inter (a b : SymSet) : Canon (IntSet.inter a b) := (Proofs.IntSet.mk_spec _).1

open Spec.IntSet in
theorem mem_diff {a b : SymSet} (ha : Canon a) (hb : Canon b) (v : Int) :
    Mem (IntSet.diff a b) v ↔ Mem a v ∧ ¬ Mem b v := by
  unfold IntSet.diff
  rw [(Proofs.IntSet.mk_spec _).2 v, Proofs.IntSet.diffLoop_spec a b ha hb v]

open Spec.IntSet in
theorem canon_diff (a b : SymSet) : Canon (IntSet.diff a b) := (Proofs.IntSet.mk_spec _).1

open Spec.IntSet in
/-- `IntegerSet(*s)` (re-creating a set from its members) denotes the same set -/
theorem mem_ofSet (s : SymSet) (v : Int) :
    Mem (IntSet.mk ((IntSet.iter s).map fun v => (v, v))) v ↔ Mem s v := by
  rw [(Proofs.IntSet.mk_spec _).2 v]
  constructor
  · rintro ⟨r, hr, h1, h2⟩
    obtain ⟨w, hw, rfl⟩ := List.mem_map.1 hr
    have : v = w := by simp only at h1 h2; omega
    subst this; exact (Proofs.IntSet.mem_iter s v).1 hw
  · intro h
    exact ⟨(v, v), List.mem_map.2 ⟨v, (Proofs.IntSet.mem_iter s v).2 h, rfl⟩, Int.le_refl _, Int.le_refl _⟩

open Spec.IntSet in
theorem canon_sigma : Canon sigmaSet := by simp [sigmaSet, Canon]

open Spec.IntSet in
theorem mem_sigma (v : Int) : Mem sigmaSet v ↔ 0 ≤ v ∧ v ≤ 255 := by
  simp [sigmaSet, Mem, InR]

/-! ### the language of the constructors -/

theorem L_eps {s : List Int} : L .eps s ↔ s = [] := matches_eps

theorem L_set {a : SymSet} {s : List Int} : L (.set a) s ↔ ∃ c, s = [c] ∧ Spec.IntSet.Mem a c := by
  simp only [L, denote, matches_cls, Proofs.IntSet.memB_iff]

theorem L_NULL {s : List Int} : ¬ L NULL s := by
  simp [NULL, L_set, Spec.IntSet.Mem]

theorem L_cat {l r : Re} {s : List Int} : L (.cat l r) s ↔ ∃ u v, s = u ++ v ∧ L l u ∧ L r v := matches_cat
theorem L_or {l r : Re} {s : List Int} : L (.or l r) s ↔ L l s ∨ L r s := matches_alt
theorem L_and {l r : Re} {s : List Int} : L (.and l r) s ↔ L l s ∧ L r s := matches_inter
theorem L_star_nil {e : Re} : L (.star e) [] := matches_star_nil
theorem L_star_cons {e : Re} {c : Int} {s : List Int} :
    L (.star e) (c :: s) ↔ ∃ u v, s = u ++ v ∧ L e (c :: u) ∧ L (.star e) v := matches_star_cons

theorem L_concatenate (l r : Re) (s : List Int) :
    L (concatenate l r) s ↔ ∃ u v, s = u ++ v ∧ L l u ∧ L r v := by
  unfold concatenate
  split
  · next h => subst h; simp [L_NULL]
  · split
    · next h => subst h; simp [L_NULL]
    · split
      · next h =>
        subst h
        constructor
        · intro h; exact ⟨[], s, rfl, L_eps.2 rfl, h⟩
        · rintro ⟨u, v, rfl, hu, hv⟩; rw [L_eps.1 hu]; exact hv
      · split
        · next h =>
          subst h
          constructor
          · intro h; exact ⟨s, [], (List.append_nil s).symm, h, L_eps.2 rfl⟩
          · rintro ⟨u, v, rfl, hu, hv⟩; rw [L_eps.1 hv, List.append_nil]; exact hu
        · exact L_cat

theorem L_logicalOr (l r : Re) (s : List Int) : L (logicalOr l r) s ↔ L l s ∨ L r s := by
  unfold logicalOr
  split
  · next a b =>
    simp only [symbolSetOfSet, L_set, mem_ofSet, mem_union]
    constructor
    · rintro ⟨c, rfl, h | h⟩
      · exact .inl ⟨c, rfl, h⟩
      · exact .inr ⟨c, rfl, h⟩
    · rintro (⟨c, rfl, h⟩ | ⟨c, rfl, h⟩)
      · exact ⟨c, rfl, .inl h⟩
      · exact ⟨c, rfl, .inr h⟩
  · split
    · next h => subst h; simp
    · split
      · next h => subst h; simp [L_NULL]
      · split
        · next h => subst h; simp [L_NULL]
        · exact L_or

theorem L_logicalAnd (l r : Re) (s : List Int) : L (logicalAnd l r) s ↔ L l s ∧ L r s := by
  unfold logicalAnd
  split
  · next h => subst h; simp
  · split
    · next h => subst h; simp [L_NULL]
    · split
      · next h => subst h; simp [L_NULL]
      · exact L_and

/-! ### the representation invariant is preserved -/

theorem WF_NULL : WF NULL := by simp [NULL, WF, Spec.IntSet.Canon]
theorem WF_SIGMA : WF SIGMA := canon_sigma
theorem WF_symbolSet (xs : List (Int × Int)) : WF (symbolSet xs) := (Proofs.IntSet.mk_spec _).1
theorem WF_symbol (c : Int) : WF (symbol c) := WF_symbolSet _

theorem WF_concatenate {l r : Re} (hl : WF l) (hr : WF r) : WF (concatenate l r) := by
  unfold concatenate
  repeat' split
  all_goals first | exact WF_NULL | exact hl | exact hr | exact ⟨hl, hr⟩

theorem WF_logicalOr {l r : Re} (hl : WF l) (hr : WF r) : WF (logicalOr l r) := by
  unfold logicalOr
  split
  · exact (Proofs.IntSet.mk_spec _).1
  · repeat' split
    all_goals first | exact hl | exact hr | exact ⟨hl, hr⟩

theorem WF_logicalAnd {l r : Re} (hl : WF l) (hr : WF r) : WF (logicalAnd l r) := by
  unfold logicalAnd
  repeat' split
  all_goals first | exact hl | exact hr | exact ⟨hl, hr⟩

/-! ### `nu` / `nullable` -/

theorem nu_cases : ∀ r : Re, nu r = .eps ∨ nu r = NULL
  | .eps => .inl rfl
  | .set _ => .inr rfl
  | .star _ => .inl rfl
  | .cat l r => by
    rcases nu_cases l with h1 | h1 <;> rcases nu_cases r with h2 | h2 <;> simp [nu, h1, h2, logicalAnd, NULL]
  | .or l r => by
    rcases nu_cases l with h1 | h1 <;> rcases nu_cases r with h2 | h2 <;>
      simp [nu, h1, h2, logicalOr, NULL, symbolSetOfSet] <;> decide
  | .and l r => by
    rcases nu_cases l with h1 | h1 <;> rcases nu_cases r with h2 | h2 <;> simp [nu, h1, h2, logicalAnd, NULL]

theorem L_nu_iff : ∀ (r : Re) (s : List Int), L (nu r) s ↔ s = [] ∧ L r []
  | .eps, s => by simp [nu, L_eps]
  | .set a, s => by
    simp only [nu, L_set]
    constructor
    · intro h; exact absurd h L_NULL
    · rintro ⟨_, c, h, _⟩; simp at h
  | .star e, s => by simp [nu, L_eps, L_star_nil]
  | .cat l r, s => by
    simp only [nu, L_logicalAnd, L_nu_iff l s, L_nu_iff r s, L_cat]
    constructor
    · rintro ⟨⟨h, hl⟩, _, hr⟩; exact ⟨h, [], [], rfl, hl, hr⟩
    · rintro ⟨h, u, v, huv, hl, hr⟩
      have := List.append_eq_nil_iff.1 huv.symm
      rw [this.1] at hl; rw [this.2] at hr
      exact ⟨⟨h, hl⟩, h, hr⟩
  | .or l r, s => by
    simp only [nu, L_logicalOr, L_nu_iff l s, L_nu_iff r s, L_or]
    constructor
    · rintro (⟨h, hl⟩ | ⟨h, hr⟩)
      · exact ⟨h, .inl hl⟩
      · exact ⟨h, .inr hr⟩
    · rintro ⟨h, hl | hr⟩
      · exact .inl ⟨h, hl⟩
      · exact .inr ⟨h, hr⟩
  | .and l r, s => by
    simp only [nu, L_logicalAnd, L_nu_iff l s, L_nu_iff r s, L_and]
    constructor
    · rintro ⟨⟨h, hl⟩, _, hr⟩; exact ⟨h, hl, hr⟩
    · rintro ⟨h, hl, hr⟩; exact ⟨⟨h, hl⟩, h, hr⟩

/-- `nullable r` (i.e. `nu() == EPSILON`) iff the empty string is in the language -/
theorem nullable_iff (r : Re) : nullable r = true ↔ L r [] := by
  simp only [nullable, decide_eq_true_eq]
  rcases nu_cases r with h | h
  · have := (L_nu_iff r []).1 (by rw [h]; exact L_eps.2 rfl)
    simp [h, this.2]
  · have : ¬ L r [] := fun hl => L_NULL (s := []) (by rw [← h]; exact (L_nu_iff r []).2 ⟨rfl, hl⟩)
    simp [h, this, NULL]

theorem WF_nu (r : Re) : WF (nu r) := by
  rcases nu_cases r with h | h <;> rw [h]
  · trivial
  · exact WF_NULL

/-! ### `derivative` -/

theorem WF_derivative : ∀ (r : Re) (c : Int), WF r → WF (derivative r c)
  | .eps, _, _ => WF_NULL
  | .set s, c, _ => by
    simp only [derivative]; split
    · trivial
    · exact WF_NULL
  | .star e, c, h => WF_concatenate (WF_derivative e c h) h
  | .cat l r, c, h =>
    WF_logicalOr (WF_concatenate (WF_derivative l c h.1) h.2) (WF_concatenate (WF_nu l) (WF_derivative r c h.2))
  | .or l r, c, h => WF_logicalOr (WF_derivative l c h.1) (WF_derivative r c h.2)
  | .and l r, c, h => WF_logicalAnd (WF_derivative l c h.1) (WF_derivative r c h.2)

/-- Brzozowski: `s ∈ L (∂c r) ↔ c :: s ∈ L r`, through all smart constructors -/
theorem derivative_correct : ∀ (r : Re) (c : Int) (s : List Int), WF r → (L (derivative r c) s ↔ L r (c :: s))
  | .eps, c, s, _ => by simp [derivative, L_NULL, L_eps]
  | .set a, c, s, h => by
    simp only [derivative, L_set]
    have hc := Proofs.IntSet.contains_iff a h c
    split
    · next hin =>
      rw [L_eps]
      constructor
      · rintro rfl; exact ⟨c, rfl, hc.1 hin⟩
      · rintro ⟨c', h1, _⟩; simp at h1; exact h1.2
    · next hin =>
      constructor
      · intro h'; exact absurd h' L_NULL
      · rintro ⟨c', h1, h2⟩
        simp only [List.cons.injEq] at h1
        obtain ⟨rfl, _⟩ := h1
        exact absurd (hc.2 h2) hin
  | .star e, c, s, h => by
    simp only [derivative, L_concatenate, L_star_cons]
    constructor
    · rintro ⟨u, v, rfl, h1, h2⟩; exact ⟨u, v, rfl, (derivative_correct e c u h).1 h1, h2⟩
    · rintro ⟨u, v, rfl, h1, h2⟩; exact ⟨u, v, rfl, (derivative_correct e c u h).2 h1, h2⟩
  | .cat l r, c, s, h => by
    simp only [derivative, L_logicalOr, L_concatenate, L_cat, L_nu_iff]
    constructor
    · rintro (⟨u, v, rfl, h1, h2⟩ | ⟨u, v, rfl, ⟨rfl, h1⟩, h2⟩)
      · exact ⟨c :: u, v, rfl, (derivative_correct l c u h.1).1 h1, h2⟩
      · exact ⟨[], c :: v, rfl, h1, (derivative_correct r c v h.2).1 h2⟩
    · rintro ⟨u, v, huv, h1, h2⟩
      cases u with
      | nil =>
        simp only [List.nil_append] at huv
        subst huv
        exact .inr ⟨[], s, rfl, ⟨rfl, h1⟩, (derivative_correct r c s h.2).2 h2⟩
      | cons a u' =>
        simp only [List.cons_append, List.cons.injEq] at huv
        obtain ⟨rfl, rfl⟩ := huv
        exact .inl ⟨u', v, rfl, (derivative_correct l c u' h.1).2 h1, h2⟩
  | .or l r, c, s, h => by
    simp only [derivative, L_logicalOr, L_or, derivative_correct l c s h.1, derivative_correct r c s h.2]
  | .and l r, c, s, h => by
    simp only [derivative, L_logicalAnd, L_and, derivative_correct l c s h.1, derivative_correct r c s h.2]

/-- iterated derivative -/
def derivs (r : Re) (s : List Int) : Re := s.foldl derivative r

theorem WF_derivs : ∀ (s : List Int) (r : Re), WF r → WF (derivs r s)
  | [], _, h => h
  | c :: s, r, h => WF_derivs s (derivative r c) (WF_derivative r c h)

theorem derivs_correct : ∀ (s : List Int) (r : Re) (t : List Int), WF r → (L (derivs r s) t ↔ L r (s ++ t))
  | [], _, _, _ => Iff.rfl
  | c :: s, r, t, h => by
    show L (derivs (derivative r c) s) t ↔ _
    rw [derivs_correct s (derivative r c) t (WF_derivative r c h), derivative_correct r c (s ++ t) h]
    rfl

/-- whole-string matching by derivatives -/
theorem nullable_derivs (r : Re) (s : List Int) (h : WF r) : nullable (derivs r s) = true ↔ L r s := by
  rw [nullable_iff, derivs_correct s r [] h, List.append_nil]

/-! ### derivative classes -/

open Spec.IntSet in
/-- two symbol sets have no common member -/
def Disj (a b : SymSet) : Prop := ∀ v, ¬ (Mem a v ∧ Mem b v)

open Spec.IntSet in
/-- what `compile` needs from `derivative_classes()` of a state whose derivative is `d`:
canonical sets, pairwise disjoint, covering the alphabet 0..255, and constant derivative on a class -/
structure ClassesOK {σ : Type} (cls : List SymSet) (d : Int → σ) : Prop where
  canon : ∀ K ∈ cls, Canon K
  disj : cls.Pairwise Disj
  cover : ∀ c, 0 ≤ c → c ≤ 255 → ∃ K ∈ cls, Mem K c
  coh : ∀ K ∈ cls, ∀ c1 c2, Mem K c1 → Mem K c2 → d c1 = d c2

open Spec.IntSet in
theorem mem_product {as bs : List SymSet} {K : SymSet} :
    K ∈ productIntersections as bs ↔ K ≠ [] ∧ ∃ a ∈ as, ∃ b ∈ bs, K = IntSet.inter a b := by
  simp only [productIntersections, List.mem_filter, List.mem_flatMap, List.mem_map, Bool.not_eq_true',
    List.isEmpty_eq_false_iff]
  constructor
  · rintro ⟨⟨a, ha, b, hb, rfl⟩, hne⟩; exact ⟨hne, a, ha, b, hb, rfl⟩
  · rintro ⟨hne, a, ha, b, hb, rfl⟩; exact ⟨⟨a, ha, b, hb, rfl⟩, hne⟩

open Spec.IntSet in
theorem classesOK_product {α β γ : Type} {as bs : List SymSet} {f : Int → α} {g : Int → β} (h : Int → γ)
    (ha : ClassesOK as f) (hb : ClassesOK bs g)
    (hh : ∀ c1 c2, f c1 = f c2 → g c1 = g c2 → h c1 = h c2) :
    ClassesOK (productIntersections as bs) h where
  canon := by
    intro K hK
    obtain ⟨_, a, _, b, _, rfl⟩ := mem_product.1 hK
    exact canon_inter a b
  disj := by
    unfold productIntersections
    apply List.Pairwise.filter
    rw [List.pairwise_flatMap]
    refine ⟨fun a haa => ?_, ?_⟩
    · rw [List.pairwise_map]
      refine hb.disj.imp_of_mem ?_
      intro b1 b2 hb1 hb2 hd v hv
      exact hd v ⟨((mem_inter (ha.canon a haa) (hb.canon b1 hb1) v).1 hv.1).2,
        ((mem_inter (ha.canon a haa) (hb.canon b2 hb2) v).1 hv.2).2⟩
    · refine ha.disj.imp_of_mem ?_
      intro a1 a2 ha1 ha2 hd x hx y hy v hv
      obtain ⟨b1, hb1, rfl⟩ := List.mem_map.1 hx
      obtain ⟨b2, hb2, rfl⟩ := List.mem_map.1 hy
      exact hd v ⟨((mem_inter (ha.canon a1 ha1) (hb.canon b1 hb1) v).1 hv.1).1,
        ((mem_inter (ha.canon a2 ha2) (hb.canon b2 hb2) v).1 hv.2).1⟩
  cover := by
    intro c h0 h1
    obtain ⟨a, haa, hac⟩ := ha.cover c h0 h1
    obtain ⟨b, hbb, hbc⟩ := hb.cover c h0 h1
    have hm : Mem (IntSet.inter a b) c := (mem_inter (ha.canon a haa) (hb.canon b hbb) c).2 ⟨hac, hbc⟩
    refine ⟨_, mem_product.2 ⟨?_, a, haa, b, hbb, rfl⟩, hm⟩
    intro e; rw [e] at hm; exact Proofs.IntSet.mem_nil c hm
  coh := by
    intro K hK c1 c2 h1 h2
    obtain ⟨_, a, haa, b, hbb, rfl⟩ := mem_product.1 hK
    have m1 := (mem_inter (ha.canon a haa) (hb.canon b hbb) c1).1 h1
    have m2 := (mem_inter (ha.canon a haa) (hb.canon b hbb) c2).1 h2
    exact hh c1 c2 (ha.coh a haa c1 c2 m1.1 m2.1) (hb.coh b hbb c1 c2 m1.2 m2.2)

open Spec.IntSet in
/-- derivative classes of an expression: pairwise disjoint canonical sets covering the alphabet,
and two symbols of one class have the same derivative -/
theorem classesOK_re : ∀ (r : Re), WF r → ClassesOK (derivativeClasses r) (derivative r)
  | .eps, _ => {
      canon := by intro K hK; simp only [derivativeClasses, List.mem_singleton] at hK; subst hK; exact canon_sigma
      disj := by simp [derivativeClasses]
      cover := fun c h0 h1 => ⟨sigmaSet, by simp [derivativeClasses], (mem_sigma c).2 ⟨h0, h1⟩⟩
      coh := fun _ _ _ _ _ _ => rfl }
  | .set s, h => {
      canon := by
        intro K hK
        simp only [derivativeClasses, List.mem_cons, List.not_mem_nil, or_false] at hK
        rcases hK with rfl | rfl
        · exact h
        · exact canon_diff _ _
      disj := by
        simp only [derivativeClasses, List.pairwise_cons, List.mem_singleton, forall_eq, List.not_mem_nil,
          false_implies, implies_true, List.Pairwise.nil, and_true]
        intro v hv
        exact ((mem_diff canon_sigma h v).1 hv.2).2 hv.1
      cover := by
        intro c h0 h1
        by_cases hc : Mem s c
        · exact ⟨s, by simp [derivativeClasses], hc⟩
        · exact ⟨_, by simp [derivativeClasses], (mem_diff canon_sigma h c).2 ⟨(mem_sigma c).2 ⟨h0, h1⟩, hc⟩⟩
      coh := by
        intro K hK c1 c2 h1 h2
        simp only [derivativeClasses, List.mem_cons, List.not_mem_nil, or_false] at hK
        rcases hK with rfl | rfl
        · simp [derivative, (Proofs.IntSet.contains_iff K h c1).2 h1, (Proofs.IntSet.contains_iff K h c2).2 h2]
        · have n1 := ((mem_diff canon_sigma h c1).1 h1).2
          have n2 := ((mem_diff canon_sigma h c2).1 h2).2
          have e1 : IntSet.contains s c1 = false := by
            cases hh : IntSet.contains s c1
            · rfl
            · exact absurd ((Proofs.IntSet.contains_iff s h c1).1 hh) n1
          have e2 : IntSet.contains s c2 = false := by
            cases hh : IntSet.contains s c2
            · rfl
            · exact absurd ((Proofs.IntSet.contains_iff s h c2).1 hh) n2
          simp [derivative, e1, e2] }
  | .star e, h =>
    let ih := classesOK_re e h
    { canon := ih.canon, disj := ih.disj, cover := ih.cover
      coh := by
        intro K hK c1 c2 h1 h2
        simp only [derivative, ih.coh K hK c1 c2 h1 h2] }
  | .cat l r, h => by
    have ihl := classesOK_re l h.1
    have ihr := classesOK_re r h.2
    simp only [derivativeClasses]
    split
    · exact classesOK_product _ ihl ihr (fun c1 c2 e1 e2 => by simp only [derivative, e1, e2])
    · next hn =>
      have hnu : nu l = NULL := by
        rcases nu_cases l with e | e
        · exact absurd (by simp [nullable, e]) hn
        · exact e
      exact { canon := ihl.canon, disj := ihl.disj, cover := ihl.cover
              coh := by
                intro K hK c1 c2 h1 h2
                simp only [derivative, ihl.coh K hK c1 c2 h1 h2, hnu, concatenate, if_true] }
  | .or l r, h =>
    classesOK_product _ (classesOK_re l h.1) (classesOK_re r h.2)
      (fun c1 c2 e1 e2 => by simp only [derivative, e1, e2])
  | .and l r, h =>
    classesOK_product _ (classesOK_re l h.1) (classesOK_re r h.2)
      (fun c1 c2 e1 e2 => by simp only [derivative, e1, e2])

end Proofs.Regex
