import PpciVerif.Model.Regex
import PpciVerif.Spec.Lang
import PpciVerif.Spec.RegexLang
import PpciVerif.Proofs.IntSet
/-! Helper lemmas for C31, part 1: the specification (`Spec.Lang`), the smart constructors,
`nu`/`nullable`, `derivative`, `derivative_classes`. -/
namespace Proofs.Regex
open Spec.Lang Spec.RegexLang Model.Regex Model

/-! ### `Matches`: inversion lemmas -/

theorem matches_eps {σ} {s : List σ} : Matches (.eps : Rx σ) s ↔ s = [] := by
  constructor
  · intro h; cases h; rfl
  · rintro rfl; exact .eps

theorem matches_cls {σ} {p : σ → Bool} {s : List σ} : Matches (.cls p) s ↔ ∃ c, s = [c] ∧ p c = true := by
  constructor
  · intro h; cases h with | cls hc => exact ⟨_, rfl, hc⟩
  · rintro ⟨c, rfl, hc⟩; exact .cls hc

theorem matches_cat {σ} {l r : Rx σ} {s : List σ} :
    Matches (.cat l r) s ↔ ∃ u v, s = u ++ v ∧ Matches l u ∧ Matches r v := by
  constructor
  · intro h; cases h with | cat h1 h2 => exact ⟨_, _, rfl, h1, h2⟩
  · rintro ⟨u, v, rfl, h1, h2⟩; exact .cat h1 h2

theorem matches_alt {σ} {l r : Rx σ} {s : List σ} : Matches (.alt l r) s ↔ Matches l s ∨ Matches r s := by
  constructor
  · intro h; cases h with
    | altL h => exact .inl h
    | altR h => exact .inr h
  · rintro (h | h)
    · exact .altL h
    · exact .altR h

theorem matches_inter {σ} {l r : Rx σ} {s : List σ} : Matches (.inter l r) s ↔ Matches l s ∧ Matches r s := by
  constructor
  · intro h; cases h with | inter h1 h2 => exact ⟨h1, h2⟩
  · rintro ⟨h1, h2⟩; exact .inter h1 h2

/-- a non-empty string in `r*` starts with a non-empty piece in `r` -/
theorem matches_star_cons {σ} {r : Rx σ} {c : σ} {s : List σ} :
    Matches (.star r) (c :: s) ↔ ∃ u v, s = u ++ v ∧ Matches r (c :: u) ∧ Matches (.star r) v := by
  constructor
  · intro h
    generalize hw : c :: s = w at h
    generalize hq : Rx.star r = q at h
    induction h with
    | eps => cases hq
    | cls _ => cases hq
    | starNil => cases hw
    | @starCons r' u v h1 h2 _ ih2 =>
      cases hq
      cases u with
      | nil => exact ih2 hw rfl
      | cons a u' =>
        simp only [List.cons_append, List.cons.injEq] at hw
        obtain ⟨rfl, rfl⟩ := hw
        exact ⟨u', v, rfl, h1, h2⟩
    | cat _ _ => cases hq
    | altL _ => cases hq
    | altR _ => cases hq
    | inter _ _ => cases hq
  · rintro ⟨u, v, rfl, h1, h2⟩
    exact .starCons (u := c :: u) h1 h2

theorem matches_star_nil {σ} {r : Rx σ} : Matches (.star r) ([] : List σ) := .starNil

/-! ### `matchB` decides `Matches` -/

theorem mem_splits {σ} : ∀ (s u v : List σ), (u, v) ∈ splits s ↔ u ++ v = s
  | [], u, v => by
    simp only [splits, List.mem_singleton, Prod.mk.injEq, List.append_eq_nil_iff]
  | c :: s, u, v => by
    simp only [splits, List.mem_cons, Prod.mk.injEq, List.mem_map, Prod.exists]
    constructor
    · rintro (⟨rfl, rfl⟩ | ⟨a, b, hab, rfl, rfl⟩)
      · rfl
      · simp only [List.cons_append, (mem_splits s a b).1 hab]
    · intro h
      cases u with
      | nil => left; exact ⟨rfl, h⟩
      | cons a u' =>
        right
        simp only [List.cons_append, List.cons.injEq] at h
        exact ⟨u', v, (mem_splits s u' v).2 h.2, by rw [h.1], rfl⟩

theorem starAux_iff {σ} (m : List σ → Bool) (r : Rx σ) (hm : ∀ s, m s = true ↔ Matches r s) :
    ∀ (n : Nat) (s : List σ), s.length ≤ n → (starAux m n s = true ↔ Matches (.star r) s)
  | n, [], _ => by
    cases n <;> simp [starAux, matches_star_nil]
  | 0, c :: s, h => by simp at h
  | n + 1, c :: s, h => by
    simp only [starAux, List.any_eq_true, Bool.and_eq_true, Prod.exists]
    rw [matches_star_cons]
    constructor
    · rintro ⟨u, v, huv, h1, h2⟩
      have e := (mem_splits s u v).1 huv
      have hl : v.length ≤ n := by
        have := congrArg List.length e
        simp only [List.length_append, List.length_cons] at this h
        omega
      exact ⟨u, v, e.symm, (hm _).1 h1, (starAux_iff m r hm n v hl).1 h2⟩
    · rintro ⟨u, v, rfl, h1, h2⟩
      have hl : v.length ≤ n := by
        simp only [List.length_append, List.length_cons] at h
        omega
      exact ⟨u, v, (mem_splits _ u v).2 rfl, (hm _).2 h1, (starAux_iff m r hm n v hl).2 h2⟩

/-- the executable matcher of the specification decides the inductive relation -/
theorem matchB_iff {σ} : ∀ (r : Rx σ) (s : List σ), matchB r s = true ↔ Matches r s
  | .eps, s => by simp [matchB, matches_eps]
  | .cls p, s => by
    rw [matches_cls]
    match s with
    | [] => simp [matchB]
    | [c] => simp [matchB]
    | _ :: _ :: _ => simp [matchB]
  | .star r, s => by
    simp only [matchB]
    exact starAux_iff (matchB r) r (matchB_iff r) s.length s (Nat.le_refl _)
  | .cat l r, s => by
    simp only [matchB, List.any_eq_true, Bool.and_eq_true, Prod.exists, matches_cat]
    constructor
    · rintro ⟨u, v, huv, h1, h2⟩
      exact ⟨u, v, ((mem_splits s u v).1 huv).symm, (matchB_iff l u).1 h1, (matchB_iff r v).1 h2⟩
    · rintro ⟨u, v, rfl, h1, h2⟩
      exact ⟨u, v, (mem_splits _ u v).2 rfl, (matchB_iff l u).2 h1, (matchB_iff r v).2 h2⟩
  | .alt l r, s => by simp [matchB, matches_alt, matchB_iff l s, matchB_iff r s]
  | .inter l r, s => by simp [matchB, matches_inter, matchB_iff l s, matchB_iff r s]

end Proofs.Regex
