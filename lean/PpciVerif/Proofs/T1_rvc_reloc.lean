import PpciVerif.Gen.Py_rvc_relocations
import PpciVerif.Proofs.T1_riscv_reloc
/-!
T1 translation tie for `ppci/arch/riscv/rvc_relocations.py` (`apply` of `cb_imm11`, `cbl_imm11`, `bc_imm11`
incl. the helper `apply_cool_mapping`, `bc_imm8`): `Gen.Py_rvc_relocations` = `Model.Reloc.Rvc.*`.
-/
set_option linter.unusedSimpArgs false
set_option linter.unusedTactic false
namespace Proofs.T1.RvcReloc
open Model Model.PyRt Model.Reloc Model.Reloc.Rvc Gen.Py_rvc_relocations Proofs.T1 Proofs.T1.Reloc

/-- one `bv[a:b] = v` step of a chain: rewrite the primitive into the model's and commute the lifting -/
macro "bv_step" : tactic => `(tactic| (rw [bvSet_ints]; refine liftL_bind _ _ _ (fun _ => ?_)))

theorem gen_cbImm11_apply (fuel : Nat) (S : Int) (d : List Nat) (P : Int) :
    CBImm11Relocation_apply fuel S (ints d) P = liftL (cbImm11 S d P) := by
  unfold CBImm11Relocation_apply cbImm11
  py_norm
  simp only [assert_bind, beq_iff_eq]
  by_cases hS : S % 2 = 0
  · by_cases hP : P % 2 = 0
    · simp only [hS, hP, if_true]
      rw [show (20 : Int) = ((20 : Nat) : Int) from rfl, gen_wrap_negative fuel _ 20 (by decide)]
      refine liftI_bind _ _ _ (fun rel20 => ?_)
      exact Proofs.T1.RiscvReloc.gen_jscatter d rel20
    · simp [hS, hP, liftL, errOf]
  · simp [hS, liftL, errOf]

theorem gen_cblImm11_apply (fuel : Nat) (S : Int) (d : List Nat) (P : Int) :
    CBlImm11Relocation_apply fuel S (ints d) P = liftL (cbImm11 S d P) := by
  unfold CBlImm11Relocation_apply cbImm11
  py_norm
  simp only [assert_bind, beq_iff_eq]
  by_cases hS : S % 2 = 0
  · by_cases hP : P % 2 = 0
    · simp only [hS, hP, if_true]
      rw [show (20 : Int) = ((20 : Nat) : Int) from rfl, gen_wrap_negative fuel _ 20 (by decide)]
      refine liftI_bind _ _ _ (fun rel20 => ?_)
      exact Proofs.T1.RiscvReloc.gen_jscatter d rel20
    · simp [hS, hP, liftL, errOf]
  · simp [hS, liftL, errOf]

theorem gen_cool_mapping (fuel : Nat) (d : List Nat) (rel11 : Int) :
    apply_cool_mapping fuel (ints d) 4 rel11 = liftL (coolMapping d rel11) := by
  unfold apply_cool_mapping coolMapping
  py_norm
  bv_step; bv_step; bv_step; bv_step; bv_step; bv_step; bv_step
  rw [bvSet_ints]
  rename_i d7
  cases Model.Reloc.bvSet d7 4 12 13 (rel11 / 1024 % 2) <;> rfl

theorem gen_bcImm11_apply (fuel : Nat) (S : Int) (d : List Nat) (P : Int) :
    BcImm11Relocation_apply fuel S (ints d) P = liftL (bcImm11 S d P) := by
  unfold BcImm11Relocation_apply bcImm11
  py_norm
  simp only [assert_bind, beq_iff_eq]
  by_cases hS : S % 2 = 0
  · by_cases hP : P % 2 = 0
    · simp only [hS, hP, if_true]
      rw [show (11 : Int) = ((11 : Nat) : Int) from rfl, gen_wrap_negative fuel _ 11 (by decide)]
      refine liftI_bind _ _ _ (fun rel11 => ?_)
      rw [gen_cool_mapping]
      cases coolMapping d rel11 <;> rfl
    · simp [hS, hP, liftL, errOf]
  · simp [hS, liftL, errOf]

theorem gen_bcImm8_apply (fuel : Nat) (S : Int) (d : List Nat) (P : Int) :
    BcImm8Relocation_apply fuel S (ints d) P = liftL (bcImm8 S d P) := by
  unfold BcImm8Relocation_apply bcImm8
  py_norm
  simp only [assert_bind, beq_iff_eq]
  by_cases hS : S % 2 = 0
  · by_cases hP : P % 2 = 0
    · simp only [hS, hP, if_true]
      rw [show (8 : Int) = ((8 : Nat) : Int) from rfl, gen_wrap_negative fuel _ 8 (by decide)]
      refine liftI_bind _ _ _ (fun rel8 => ?_)
      bv_step; bv_step; bv_step; bv_step
      rw [bvSet_ints]
      rename_i d4
      cases Model.Reloc.bvSet d4 4 12 13 (rel8 / 128 % 2) <;> rfl
    · simp [hS, hP, liftL, errOf]
  · simp [hS, liftL, errOf]

end Proofs.T1.RvcReloc
