import PpciVerif.Spec.Graph
import PpciVerif.Model.Dom
import PpciVerif.Proofs.Graph
/-!
Proofs about `Model.Dom` (core Lean only):

* generic facts about the `while change:` sweep (`sweepLoop`): invariants,
  stability at exit, termination by a decreasing measure
* `calculate_post_dominators` = path-defined post-dominance, terminates
* `calculate_reach` = transitive closure (≥ 1 edge), terminates
-/
namespace Proofs.Dom
open Model.Dom Spec.Graph Proofs.Graph

/-! ### lists of masks -/

theorem getM_set (st : List Nat) (v w new : Nat) (hv : v < st.length) :
    getM (st.set v new) w = if w = v then new else getM st w := by
  unfold getM
  rw [List.getD_eq_getElem?_getD, List.getD_eq_getElem?_getD, List.getElem?_set]
  by_cases h : v = w
  · subst h; simp [hv]
  · have : ¬ w = v := fun h' => h h'.symm
    simp [h, this]

theorem set_of_ge (st : List Nat) (v new : Nat) (hv : ¬ v < st.length) : st.set v new = st := by
  apply List.ext_getElem?
  intro i
  rw [List.getElem?_set]
  by_cases h : v = i
  · subst h
    have : st[v]? = none := List.getElem?_eq_none (by omega)
    simp [this]; omega
  · simp [h]

theorem testBit_full (n d : Nat) : (full n).testBit d = decide (d < n) := by
  unfold full; exact Nat.testBit_two_pow_sub_one n d

theorem testBit_mbit (v d : Nat) : (Model.Dom.bit v).testBit d = decide (v = d) := by
  unfold Model.Dom.bit
  rw [Nat.one_shiftLeft, Nat.testBit_two_pow]

theorem testBit_andFold (st : List Nat) (rest : List Nat) (a0 d : Nat) :
    (rest.foldl (fun a s => a &&& getM st s) a0).testBit d =
      (a0.testBit d && rest.all (fun s => (getM st s).testBit d)) := by
  induction rest generalizing a0 with
  | nil => simp
  | cons s ss ih => simp [ih, Nat.testBit_and, Bool.and_assoc]

theorem testBit_orFold (st : List Nat) (l : List Nat) (a0 d : Nat) :
    (l.foldl (fun a m => a ||| getM st m) a0).testBit d =
      (a0.testBit d || l.any (fun m => (getM st m).testBit d)) := by
  induction l generalizing a0 with
  | nil => simp
  | cons s ss ih => simp [ih, Nat.testBit_or, Bool.or_assoc]

theorem testBit_maskOf (l : List Nat) (d : Nat) : (maskOf l).testBit d = decide (d ∈ l) := by
  unfold maskOf
  have : ∀ a0, (l.foldl (fun a x => a ||| Model.Dom.bit x) a0).testBit d = (a0.testBit d || decide (d ∈ l)) := by
    induction l with
    | nil => intro a0; simp
    | cons s ss ih =>
      intro a0
      simp only [List.foldl_cons, ih, Nat.testBit_or, testBit_mbit, List.mem_cons, Bool.or_assoc]
      congr 1
      rw [Bool.eq_iff_iff]
      simp only [Bool.or_eq_true, decide_eq_true_eq]
      constructor
      · rintro (h | h)
        · exact Or.inl h.symm
        · exact Or.inr h
      · rintro (h | h)
        · exact Or.inl h.symm
        · exact Or.inr h
  rw [this]; simp

theorem testBit_pdNew (st : List Nat) (v s0 : Nat) (rest : List Nat) (d : Nat) :
    (pdNew st v s0 rest).testBit d = (decide (v = d) || (s0 :: rest).all (fun s => (getM st s).testBit d)) := by
  unfold pdNew
  rw [Nat.testBit_or, testBit_mbit, testBit_andFold]
  simp

/-! ### the sweep -/

section sweep
variable (f : List Nat → Nat → Option Nat)

theorem sweepNode_flag (acc : List Nat × Bool) (v : Nat) (h : acc.2 = true) : (sweepNode f acc v).2 = true := by
  unfold sweepNode
  split
  · exact h
  · split
    · rfl
    · exact h

theorem foldl_flag (l : List Nat) : ∀ acc : List Nat × Bool, acc.2 = true → (l.foldl (sweepNode f) acc).2 = true := by
  induction l with
  | nil => intro acc h; exact h
  | cons v vs ih => intro acc h; exact ih _ (sweepNode_flag f acc v h)

/-- a node on which the loop body would change nothing -/
def Stable (st : List Nat) (v : Nat) : Prop := f st v = none ∨ f st v = some (getM st v)

/-- a pass that ends with `change = False` has changed nothing, and every node is stable -/
theorem sweep_stable (l : List Nat) (st st' : List Nat)
    (h : l.foldl (sweepNode f) (st, false) = (st', false)) : st' = st ∧ ∀ v ∈ l, Stable f st v := by
  induction l with
  | nil =>
    simp at h
    exact ⟨h.symm, by simp⟩
  | cons v vs ih =>
    rw [List.foldl_cons] at h
    have hcase : sweepNode f (st, false) v = (st, false) ∧ Stable f st v ∨ (sweepNode f (st, false) v).2 = true := by
      unfold sweepNode Stable
      cases hf : f st v with
      | none => left; simp
      | some new =>
        by_cases hne : new = getM st v
        · left; simp [hne]
        · right; simp [hne]
    rcases hcase with ⟨h1, h2⟩ | h1
    · rw [h1] at h
      obtain ⟨e, hs⟩ := ih h
      refine ⟨e, ?_⟩
      intro w hw
      rcases List.mem_cons.1 hw with h' | h'
      · subst h'; exact h2
      · exact hs w h'
    · have := foldl_flag f vs _ h1
      rw [h] at this
      cases this

variable (Inv : List Nat → Prop)

theorem sweep_inv (hstep : ∀ st v new, Inv st → f st v = some new → new ≠ getM st v → Inv (st.set v new))
    (l : List Nat) : ∀ acc : List Nat × Bool, Inv acc.1 → Inv (l.foldl (sweepNode f) acc).1 := by
  induction l with
  | nil => intro acc h; exact h
  | cons v vs ih =>
    intro acc h
    rw [List.foldl_cons]
    apply ih
    unfold sweepNode
    cases hf : f acc.1 v with
    | none => exact h
    | some new =>
      by_cases hne : new = getM acc.1 v
      · simp [hne]; exact h
      · simp [hne]; exact hstep _ _ _ h hf hne

/-- what holds when the loop returns: the invariant, and every node is stable -/
theorem sweepLoop_exit (hstep : ∀ st v new, Inv st → f st v = some new → new ≠ getM st v → Inv (st.set v new))
    (n k : Nat) : ∀ st r, Inv st → sweepLoop f n k st = some r → Inv r ∧ ∀ v, v < n → Stable f r v := by
  induction k with
  | zero => intro st r _ h; simp [sweepLoop] at h
  | succ k ih =>
    intro st r hinv h
    simp only [sweepLoop] at h
    have hpass : Inv (sweepPass f n st).1 := sweep_inv f Inv hstep _ (st, false) hinv
    split at h
    · exact ih _ _ hpass h
    · rename_i hflag
      have hr : (sweepPass f n st).1 = r := by simpa using h
      have hflag' : (sweepPass f n st).2 = false := by simpa using hflag
      have heq : (List.range n).foldl (sweepNode f) (st, false) = (r, false) := by
        have : sweepPass f n st = ((sweepPass f n st).1, (sweepPass f n st).2) := rfl
        rw [hr, hflag'] at this
        exact this
      obtain ⟨e, hs⟩ := sweep_stable f _ st r heq
      subst e
      exact ⟨hinv, fun v hv => hs v (List.mem_range.2 hv)⟩

theorem sweep_measure (μ : List Nat → Nat)
    (hstep : ∀ st v new, Inv st → f st v = some new → new ≠ getM st v → Inv (st.set v new))
    (hdec : ∀ st v new, Inv st → f st v = some new → new ≠ getM st v → μ (st.set v new) < μ st)
    (l : List Nat) : ∀ acc : List Nat × Bool, Inv acc.1 →
      μ (l.foldl (sweepNode f) acc).1 ≤ μ acc.1 ∧
      (acc.2 = false → (l.foldl (sweepNode f) acc).2 = true → μ (l.foldl (sweepNode f) acc).1 < μ acc.1) := by
  induction l with
  | nil => intro acc _; exact ⟨Nat.le_refl _, fun h1 h2 => by simp at h2; rw [h1] at h2; cases h2⟩
  | cons v vs ih =>
    intro acc hinv
    rw [List.foldl_cons]
    have hcase : sweepNode f acc v = acc ∨
        (∃ new, f acc.1 v = some new ∧ new ≠ getM acc.1 v ∧ sweepNode f acc v = (acc.1.set v new, true)) := by
      unfold sweepNode
      cases hf : f acc.1 v with
      | none => left; rfl
      | some new =>
        by_cases hne : new = getM acc.1 v
        · left; simp [hne]
        · right; exact ⟨new, rfl, hne, by simp [hne]⟩
    rcases hcase with h | ⟨new, hf, hne, h⟩
    · rw [h]; exact ih acc hinv
    · rw [h]
      have hinv' : Inv (acc.1.set v new) := hstep _ _ _ hinv hf hne
      have hlt := hdec _ _ _ hinv hf hne
      obtain ⟨h1, _⟩ := ih (acc.1.set v new, true) hinv'
      simp only at h1
      exact ⟨by omega, fun _ _ => by omega⟩

theorem sweepLoop_terminates (μ : List Nat → Nat)
    (hstep : ∀ st v new, Inv st → f st v = some new → new ≠ getM st v → Inv (st.set v new))
    (hdec : ∀ st v new, Inv st → f st v = some new → new ≠ getM st v → μ (st.set v new) < μ st)
    (n k : Nat) : ∀ st, Inv st → μ st < k → (sweepLoop f n k st).isSome = true := by
  induction k with
  | zero => intro st _ h; omega
  | succ k ih =>
    intro st hinv hμ
    simp only [sweepLoop]
    have hm := sweep_measure f Inv μ hstep hdec (List.range n) (st, false) hinv
    have hpass : Inv (sweepPass f n st).1 := sweep_inv f Inv hstep _ (st, false) hinv
    split
    · rename_i hflag
      apply ih _ hpass
      have := hm.2 rfl hflag
      unfold sweepPass
      simp only at this
      omega
    · rfl

end sweep

/-! ### counting set bits of a state (the termination measure) -/

/-- all pairs `(v, d)` with `v, d < n` -/
def pairs (n : Nat) : List (Nat × Nat) := (List.range n).flatMap fun v => (List.range n).map fun d => (v, d)

theorem mem_pairs (n v d : Nat) : (v, d) ∈ pairs n ↔ v < n ∧ d < n := by
  unfold pairs
  simp only [List.mem_flatMap, List.mem_range, List.mem_map, Prod.mk.injEq]
  constructor
  · rintro ⟨a, ha, b, hb, h1, h2⟩; subst h1; subst h2; exact ⟨ha, hb⟩
  · rintro ⟨h1, h2⟩; exact ⟨v, h1, d, h2, rfl, rfl⟩

theorem sum_map_const (c : Nat) (l : List Nat) : (l.map fun _ => c).sum = l.length * c := by
  induction l with
  | nil => simp
  | cons x xs ih => simp [ih, Nat.add_mul]; omega

theorem pairs_length (n : Nat) : (pairs n).length = n * n := by
  unfold pairs
  rw [List.length_flatMap]
  simp only [List.length_map, List.length_range]
  rw [sum_map_const]; simp

theorem filter_length_lt {α : Type} (p q : α → Bool) (l : List α) (hsub : ∀ a ∈ l, p a = true → q a = true)
    (hw : ∃ a ∈ l, q a = true ∧ p a = false) : (l.filter p).length < (l.filter q).length := by
  induction l with
  | nil => obtain ⟨a, ha, _⟩ := hw; simp at ha
  | cons x xs ih =>
    have hle : (xs.filter p).length ≤ (xs.filter q).length := by
      clear ih hw
      induction xs with
      | nil => simp
      | cons y ys ih2 =>
        have hy := hsub y (by simp)
        have := ih2 (fun a ha => hsub a (by
          rcases List.mem_cons.1 ha with h | h
          · subst h; simp
          · simp [h]))
        simp only [List.filter_cons]
        cases hp : p y <;> cases hq : q y <;> simp <;> try omega
        rw [hp] at hy; simp at hy; rw [hq] at hy; cases hy
    obtain ⟨a, ha, hqa, hpa⟩ := hw
    simp only [List.filter_cons]
    rcases List.mem_cons.1 ha with h | h
    · subst h
      rw [hqa, hpa]; simp; omega
    · have := ih (fun b hb => hsub b (List.mem_cons_of_mem _ hb)) ⟨a, h, hqa, hpa⟩
      have hx := hsub x (by simp)
      cases hp : p x <;> cases hq : q x <;> simp <;> try omega
      rw [hp] at hx; simp at hx; rw [hq] at hx; cases hx

/-- number of pairs `(v, d)`, `v, d < n`, with bit `d` set in entry `v` -/
def ones (n : Nat) (st : List Nat) : Nat := ((pairs n).filter fun p => (getM st p.1).testBit p.2).length
/-- … with bit `d` clear -/
def zeros (n : Nat) (st : List Nat) : Nat := ((pairs n).filter fun p => !(getM st p.1).testBit p.2).length

theorem ones_le (n : Nat) (st : List Nat) : ones n st ≤ n * n := by
  unfold ones; rw [← pairs_length n]; exact List.length_filter_le _ _

theorem zeros_le (n : Nat) (st : List Nat) : zeros n st ≤ n * n := by
  unfold zeros; rw [← pairs_length n]; exact List.length_filter_le _ _

/-- replacing entry `v` by a proper subset (w.r.t. bits `< n`) decreases `ones` -/
theorem ones_set_lt (n : Nat) (st : List Nat) (v new : Nat) (hv : v < st.length) (hvn : v < n)
    (hsub : ∀ d, new.testBit d = true → (getM st v).testBit d = true)
    (hd : ∃ d, d < n ∧ (getM st v).testBit d = true ∧ new.testBit d = false) :
    ones n (st.set v new) < ones n st := by
  unfold ones
  apply filter_length_lt
  · rintro ⟨w, d⟩ _ h
    simp only [getM_set st v w new hv] at h
    by_cases hw : w = v
    · subst hw; simp at h; exact hsub d h
    · simpa [hw] using h
  · obtain ⟨d, hdn, h1, h2⟩ := hd
    refine ⟨(v, d), (mem_pairs n v d).2 ⟨hvn, hdn⟩, h1, ?_⟩
    simp [getM_set st v v new hv, h2]

theorem zeros_set_lt (n : Nat) (st : List Nat) (v new : Nat) (hv : v < st.length) (hvn : v < n)
    (hsub : ∀ d, (getM st v).testBit d = true → new.testBit d = true)
    (hd : ∃ d, d < n ∧ (getM st v).testBit d = false ∧ new.testBit d = true) :
    zeros n (st.set v new) < zeros n st := by
  unfold zeros
  apply filter_length_lt
  · rintro ⟨w, d⟩ _ h
    simp only [getM_set st v w new hv] at h
    by_cases hw : w = v
    · subst hw
      simp at h
      simp
      cases hb : (getM st w).testBit d with
      | false => rfl
      | true => rw [hsub d hb] at h; cases h
    · simpa [hw] using h
  · obtain ⟨d, hdn, h1, h2⟩ := hd
    refine ⟨(v, d), (mem_pairs n v d).2 ⟨hvn, hdn⟩, by simp [h1], ?_⟩
    simp [getM_set st v v new hv, h2]

/-- two masks with the same bits are equal; contrapositive with a bound on the bits -/
theorem exists_diff_bit (a b n : Nat) (ha : ∀ d, a.testBit d = true → d < n) (hb : ∀ d, b.testBit d = true → d < n)
    (hne : a ≠ b) : ∃ d, d < n ∧ a.testBit d ≠ b.testBit d := by
  apply Classical.byContradiction
  intro hno
  apply hne
  apply Nat.eq_of_testBit_eq
  intro d
  by_cases hd : d < n
  · apply Classical.byContradiction
    intro h; exact hno ⟨d, hd, h⟩
  · cases h1 : a.testBit d with
    | true => exact absurd (ha d h1) hd
    | false =>
      cases h2 : b.testBit d with
      | true => exact absurd (hb d h2) hd
      | false => rfl

/-! ### well-formed graphs: the model's rows are the edge relation -/

theorem wf_edge {g : Digraph} (hwf : g.WF) {v s : Nat} (h : s ∈ g.succ v) : g.Edge v s := by
  unfold Digraph.succ at h
  have hv : v < g.adj.length := by
    apply Classical.byContradiction
    intro hc
    rw [List.getD_eq_getElem?_getD, List.getElem?_eq_none (by omega)] at h
    simp at h
  have hrow : g.adj.getD v [] = g.adj[v] := by
    rw [List.getD_eq_getElem?_getD, List.getElem?_eq_getElem hv]; rfl
  rw [hrow] at h
  exact ⟨hwf.1 ▸ hv, hwf.2 _ (List.getElem_mem hv) s h, by unfold Digraph.succ; rw [hrow]; exact h⟩

theorem getM_map_range (n : Nat) (f : Nat → Nat) (v : Nat) (hv : v < n) :
    getM ((List.range n).map f) v = f v := by
  unfold getM
  rw [List.getD_eq_getElem?_getD, List.getElem?_map, List.getElem?_range hv]
  rfl

/-! ### calculate_post_dominators -/

section pd
variable (g : Digraph) (x : Nat)

/-- the invariant used for correctness: every entry is a set of nodes that contains the true
    post-dominator set; the exit's entry is `{exit}` -/
def PInv (st : List Nat) : Prop :=
  st.length = g.n ∧
  (∀ v, v < g.n → ∀ d, (getM st v).testBit d = true → d < g.n) ∧
  (∀ v, v < g.n → ∀ d, d < g.n → PDom g x d v → (getM st v).testBit d = true) ∧
  (x < g.n → getM st x = Model.Dom.bit x)

theorem pdF_some {st : List Nat} {v new : Nat} (h : pdF true g.adj x st v = some new) :
    v ≠ x ∧ ∃ s0 rest, g.succ v = s0 :: rest ∧ new = pdNew st v s0 rest := by
  unfold pdF at h
  by_cases hvx : v = x
  · simp [hvx] at h
  · simp only [Bool.true_and, beq_iff_eq, hvx, if_false] at h
    refine ⟨hvx, ?_⟩
    have hrow : row g.adj v = g.succ v := rfl
    rw [hrow] at h
    cases hs : g.succ v with
    | nil => rw [hs] at h; cases h
    | cons s0 rest =>
      rw [hs] at h
      exact ⟨s0, rest, rfl, by simpa using h.symm⟩

theorem pdom_succ {d v s : Nat} (hd : PDom g x d v) (hne : d ≠ v) (he : g.Edge v s) : PDom g x d s := by
  unfold PDom at *
  exact sdom_edge (g := g.rev) ⟨hd, hne⟩ ((rev_edge g s v).2 he)

theorem pinv_init (hwf : g.WF) : PInv g x (pdInit g.n x) := by
  have _ := hwf
  refine ⟨by simp [pdInit], ?_, ?_, ?_⟩
  · intro v hv d h
    rw [pdInit, getM_map_range _ _ _ hv] at h
    split at h
    · rw [testBit_mbit] at h
      have : v = d := by simpa using h
      omega
    · rw [testBit_full] at h; simpa using h
  · intro v hv d hd hp
    rw [pdInit, getM_map_range _ _ _ hv]
    split
    · rename_i hvx
      subst hvx
      have := (pdom_iff_paths g v d v).1 hp [] (Path.nil hv)
      rw [testBit_mbit]
      simp at this
      simp [this]
    · rw [testBit_full]; simpa using hd
  · intro hx
    rw [pdInit, getM_map_range _ _ _ hx]
    simp

theorem pinv_step (hwf : g.WF) (st : List Nat) (v new : Nat) (hinv : PInv g x st)
    (hf : pdF true g.adj x st v = some new) (_hne : new ≠ getM st v) : PInv g x (st.set v new) := by
  obtain ⟨hlen, hb, hup, hx⟩ := hinv
  obtain ⟨hvx, s0, rest, hrow, hnew⟩ := pdF_some g x hf
  have hs0 : g.Edge v s0 := wf_edge hwf (by rw [hrow]; simp)
  have hvn : v < g.n := hs0.1
  have hvl : v < st.length := by omega
  refine ⟨by simp [hlen], ?_, ?_, ?_⟩
  · intro w hw d h
    rw [getM_set st v w new hvl] at h
    by_cases hwv : w = v
    · simp only [hwv, if_true] at h
      rw [hnew, testBit_pdNew] at h
      simp only [Bool.or_eq_true, decide_eq_true_eq, List.all_cons, Bool.and_eq_true] at h
      rcases h with h | h
      · omega
      · exact hb s0 hs0.2.1 d h.1
    · simp only [hwv, if_false] at h
      exact hb w hw d h
  · intro w hw d hd hp
    rw [getM_set st v w new hvl]
    by_cases hwv : w = v
    · simp only [hwv, if_true]
      rw [hnew, testBit_pdNew]
      simp only [Bool.or_eq_true, decide_eq_true_eq, List.all_eq_true]
      by_cases hdv : v = d
      · exact Or.inl hdv
      · right
        intro s hs
        have he : g.Edge v s := wf_edge hwf (by rw [hrow]; exact hs)
        rw [hwv] at hp
        exact hup s he.2.1 d hd (pdom_succ g x hp (fun h => hdv h.symm) he)
    · simp only [hwv, if_false]
      exact hup w hw d hd hp
  · intro hxn
    rw [getM_set st v x new hvl]
    have : ¬ x = v := fun h => hvx h.symm
    simp only [this, if_false]
    exact hx hxn

/-- at a stable state every member of an entry lies on every path to the exit -/
theorem pd_sound (hwf : g.WF) (st : List Nat) (hinv : PInv g x st)
    (hst : ∀ v, v < g.n → Stable (pdF true g.adj x) st v)
    {v : Nat} {l : List Nat} (p : Path g v l x) : ∀ d, (getM st v).testBit d = true → d ∈ v :: l := by
  have _ := hwf
  induction p with
  | nil hv =>
    intro d h
    rw [hinv.2.2.2 hv, testBit_mbit] at h
    simp at h; simp [h]
  | @cons u w y l e p ih =>
    intro d h
    by_cases hux : u = y
    · subst hux
      rw [hinv.2.2.2 e.1, testBit_mbit] at h
      simp at h; simp [h]
    · have hw : w ∈ g.succ u := e.2.2
      have hf : ∃ s0 rest, g.succ u = s0 :: rest ∧ pdF true g.adj y st u = some (pdNew st u s0 rest) := by
        cases hs : g.succ u with
        | nil => rw [hs] at hw; simp at hw
        | cons s0 rest =>
          refine ⟨s0, rest, rfl, ?_⟩
          unfold pdF
          have hrow : row g.adj u = g.succ u := rfl
          simp [hux, hrow, hs]
      obtain ⟨s0, rest, hrow, hf⟩ := hf
      rcases hst u e.1 with hs | hs
      · rw [hf] at hs; cases hs
      · rw [hf] at hs
        have heq : pdNew st u s0 rest = getM st u := by simpa using hs
        rw [← heq, testBit_pdNew] at h
        simp only [Bool.or_eq_true, decide_eq_true_eq, List.all_eq_true] at h
        rcases h with h | h
        · simp [h]
        · exact List.mem_cons_of_mem _ (ih hinv hst d (h w (by rw [← hrow]; exact hw)))

/-- partial correctness for any amount of fuel -/
theorem pdLoop_correct (hwf : g.WF) (k : Nat) (r : List Nat)
    (h : sweepLoop (pdF true g.adj x) g.n k (pdInit g.n x) = some r) :
    r.length = g.n ∧ ∀ v, v < g.n → ∀ d, (getM r v).testBit d = true ↔ (d < g.n ∧ PDom g x d v) := by
  obtain ⟨hinv, hst⟩ := sweepLoop_exit (pdF true g.adj x) (PInv g x) (pinv_step g x hwf) g.n k _ r (pinv_init g x hwf) h
  refine ⟨hinv.1, ?_⟩
  intro v hv d
  constructor
  · intro hb
    refine ⟨hinv.2.1 v hv d hb, ?_⟩
    rw [pdom_iff_paths]
    intro l p
    exact pd_sound g x hwf r hinv hst p d hb
  · rintro ⟨hd, hp⟩
    exact hinv.2.2.1 v hv d hd hp

/-- the invariant used for termination: entries only shrink -/
def DInv (st : List Nat) : Prop :=
  st.length = g.n ∧
  (∀ v, v < g.n → ∀ d, (getM st v).testBit d = true → d < g.n) ∧
  (∀ v new, v < g.n → pdF true g.adj x st v = some new → ∀ d, new.testBit d = true → (getM st v).testBit d = true)

theorem dinv_init (hwf : g.WF) : DInv g x (pdInit g.n x) := by
  have hb : ∀ v, v < g.n → ∀ d, (getM (pdInit g.n x) v).testBit d = true → d < g.n := (pinv_init g x hwf).2.1
  refine ⟨by simp [pdInit], hb, ?_⟩
  intro v new hv hf d hd
  obtain ⟨hvx, s0, rest, hrow, hnew⟩ := pdF_some g x hf
  rw [pdInit, getM_map_range _ _ _ hv]
  simp only [hvx, if_false]
  rw [testBit_full]
  rw [hnew, testBit_pdNew] at hd
  simp only [Bool.or_eq_true, decide_eq_true_eq, List.all_cons, Bool.and_eq_true] at hd
  have hs0 : g.Edge v s0 := wf_edge hwf (by rw [hrow]; simp)
  rcases hd with hd | hd
  · simp; omega
  · simpa using hb s0 hs0.2.1 d hd.1

theorem dinv_step (hwf : g.WF) (st : List Nat) (v new : Nat) (hinv : DInv g x st)
    (hf : pdF true g.adj x st v = some new) (_hne : new ≠ getM st v) : DInv g x (st.set v new) := by
  have _ := hwf
  obtain ⟨hlen, hb, hD⟩ := hinv
  obtain ⟨_, s0, rest, hrow, _⟩ := pdF_some g x hf
  have hs0 : g.Edge v s0 := wf_edge hwf (by rw [hrow]; simp)
  have hvn : v < g.n := hs0.1
  have hvl : v < st.length := by omega
  have hsubv : ∀ d, new.testBit d = true → (getM st v).testBit d = true := hD v new hvn hf
  -- every entry of the new state is contained in the old one
  have hmono : ∀ s d, (getM (st.set v new) s).testBit d = true → (getM st s).testBit d = true := by
    intro s d h
    rw [getM_set st v s new hvl] at h
    by_cases hsv : s = v
    · simp only [hsv, if_true] at h; rw [hsv]; exact hsubv d h
    · simpa [hsv] using h
  refine ⟨by simp [hlen], ?_, ?_⟩
  · intro w hw d h
    exact hb w hw d (hmono w d h)
  · intro w new' hw hf' d hd
    obtain ⟨hwx, t0, trest, hrow', hnew'⟩ := pdF_some g x hf'
    -- the value the old state would have produced for w
    have hfold : pdF true g.adj x st w = some (pdNew st w t0 trest) := by
      unfold pdF
      have hr : row g.adj w = g.succ w := rfl
      simp [hwx, hr, hrow']
    have hle : (pdNew st w t0 trest).testBit d = true := by
      rw [hnew', testBit_pdNew] at hd
      rw [testBit_pdNew]
      simp only [Bool.or_eq_true, decide_eq_true_eq, List.all_eq_true] at hd ⊢
      rcases hd with hd | hd
      · exact Or.inl hd
      · exact Or.inr fun s hs => hmono s d (hd s hs)
    rw [getM_set st v w new hvl]
    by_cases hwv : w = v
    · simp only [hwv, if_true]
      rw [hwv] at hfold
      rw [hf] at hfold
      have : new = pdNew st v t0 trest := by simpa using hfold
      rw [this, ← hwv]; exact hle
    · simp only [hwv, if_false]
      exact hD w _ hw hfold d hle

theorem dinv_dec (hwf : g.WF) (st : List Nat) (v new : Nat) (hinv : DInv g x st)
    (hf : pdF true g.adj x st v = some new) (hne : new ≠ getM st v) : ones g.n (st.set v new) < ones g.n st := by
  obtain ⟨hlen, hb, hD⟩ := hinv
  obtain ⟨_, s0, rest, hrow, _⟩ := pdF_some g x hf
  have hs0 : g.Edge v s0 := wf_edge hwf (by rw [hrow]; simp)
  have hvn : v < g.n := hs0.1
  have hsub := hD v new hvn hf
  apply ones_set_lt g.n st v new (by omega) hvn hsub
  obtain ⟨d, hd, hdiff⟩ := exists_diff_bit new (getM st v) g.n (fun d h => hb v hvn d (hsub d h)) (hb v hvn) hne
  refine ⟨d, hd, ?_⟩
  cases h1 : new.testBit d with
  | true => exact absurd (by rw [h1, hsub d h1]) hdiff
  | false =>
    cases h2 : (getM st v).testBit d with
    | true => exact ⟨rfl, rfl⟩
    | false => exact absurd (by rw [h1, h2]) hdiff

theorem pdLoop_terminates (hwf : g.WF) : (sweepLoop (pdF true g.adj x) g.n (pdFuel g.n) (pdInit g.n x)).isSome = true := by
  apply sweepLoop_terminates (pdF true g.adj x) (DInv g x) (ones g.n) (dinv_step g x hwf) (dinv_dec g x hwf)
  · exact dinv_init g x hwf
  · have := ones_le g.n (pdInit g.n x)
    unfold pdFuel; omega

end pd

/-! ### calculate_reach -/

section reach
variable (g : Digraph)

def RInv (st : List Nat) : Prop :=
  st.length = g.n ∧
  (∀ v, v < g.n → ∀ d, (getM st v).testBit d = true → ReachPlus g v d) ∧
  (∀ v, v < g.n → ∀ s, s ∈ g.succ v → (getM st v).testBit s = true)

theorem reachPlus_lt {g : Digraph} {v d : Nat} (h : ReachPlus g v d) : d < g.n := by
  obtain ⟨w, _, l, p⟩ := h
  exact p.lt_right

theorem reachPlus_step {g : Digraph} {v m d : Nat} (e : g.Edge v m) (h : ReachPlus g m d) : ReachPlus g v d := by
  obtain ⟨w, e', l, p⟩ := h
  exact ⟨m, e, w :: l, Path.cons e' p⟩

theorem testBit_reachF (st : List Nat) (v new d : Nat) (h : reachF g.adj st v = some new) :
    new.testBit d = ((getM st v).testBit d || (g.succ v).any fun m => (getM st m).testBit d) := by
  unfold reachF at h
  have : new = (row g.adj v).foldl (fun a m => a ||| getM st m) (getM st v) := by simpa using h.symm
  rw [this, testBit_orFold]; rfl

theorem rinv_init (hwf : g.WF) : RInv g (reachInit g.n g.adj) := by
  refine ⟨by simp [reachInit], ?_, ?_⟩
  · intro v hv d h
    rw [reachInit, getM_map_range _ _ _ hv, testBit_maskOf] at h
    have hm : d ∈ g.succ v := by
      have : d ∈ row g.adj v := by simpa using h
      exact this
    have e := wf_edge hwf hm
    exact ⟨d, e, [], Path.nil e.2.1⟩
  · intro v hv s hs
    rw [reachInit, getM_map_range _ _ _ hv, testBit_maskOf]
    have : s ∈ row g.adj v := hs
    simpa using this

theorem rinv_step (hwf : g.WF) (st : List Nat) (v new : Nat) (hinv : RInv g st)
    (hf : reachF g.adj st v = some new) (_hne : new ≠ getM st v) : RInv g (st.set v new) := by
  obtain ⟨hlen, hs, hsucc⟩ := hinv
  by_cases hvl : v < st.length
  · have hvn : v < g.n := by omega
    refine ⟨by simp [hlen], ?_, ?_⟩
    · intro w hw d h
      rw [getM_set st v w new hvl] at h
      by_cases hwv : w = v
      · simp only [hwv, if_true] at h
        rw [testBit_reachF g st v new d hf] at h
        simp only [Bool.or_eq_true, List.any_eq_true] at h
        rw [hwv]
        rcases h with h | ⟨m, hm, h⟩
        · exact hs v hvn d h
        · have e := wf_edge hwf hm
          exact reachPlus_step e (hs m e.2.1 d h)
      · simp only [hwv, if_false] at h
        exact hs w hw d h
    · intro w hw s hsw
      rw [getM_set st v w new hvl]
      by_cases hwv : w = v
      · simp only [hwv, if_true]
        rw [testBit_reachF g st v new s hf]
        rw [hwv] at hsw
        simp [hsucc v hvn s hsw]
      · simp only [hwv, if_false]
        exact hsucc w hw s hsw
  · rw [set_of_ge st v new hvl]
    exact ⟨hlen, hs, hsucc⟩

/-- at a stable state every entry is closed under taking successors' entries -/
theorem reach_complete (st : List Nat) (hinv : RInv g st)
    (hst : ∀ v, v < g.n → Stable (reachF g.adj) st v)
    {u w : Nat} {l : List Nat} (p : Path g u l w) : ∀ v, g.Edge v u → (getM st v).testBit w = true := by
  induction p with
  | nil _ =>
    intro v e
    exact hinv.2.2 v e.1 _ e.2.2
  | @cons u u' w l e' p ih =>
    intro v e
    have h1 : (getM st u).testBit w = true := ih u e'
    rcases hst v e.1 with h | h
    · simp [reachF] at h
    · have := testBit_reachF g st v (getM st v) w h
      rw [this]
      simp only [Bool.or_eq_true, List.any_eq_true]
      exact Or.inr ⟨u, e.2.2, h1⟩

theorem reachLoop_correct (hwf : g.WF) (k : Nat) (r : List Nat)
    (h : sweepLoop (reachF g.adj) g.n k (reachInit g.n g.adj) = some r) :
    r.length = g.n ∧ ∀ v, v < g.n → ∀ d, (getM r v).testBit d = true ↔ ReachPlus g v d := by
  obtain ⟨hinv, hst⟩ := sweepLoop_exit (reachF g.adj) (RInv g) (rinv_step g hwf) g.n k _ r (rinv_init g hwf) h
  refine ⟨hinv.1, ?_⟩
  intro v hv d
  constructor
  · exact hinv.2.1 v hv d
  · rintro ⟨w, e, l, p⟩
    exact reach_complete g r hinv hst p v e

theorem rinv_dec (hwf : g.WF) (st : List Nat) (v new : Nat) (hinv : RInv g st)
    (hf : reachF g.adj st v = some new) (hne : new ≠ getM st v) : zeros g.n (st.set v new) < zeros g.n st := by
  have hinv' := rinv_step g hwf st v new hinv hf hne
  obtain ⟨hlen, hs, _⟩ := hinv
  have hvl : v < st.length := by
    apply Classical.byContradiction
    intro hc
    -- out of range: the entry reads as 0 and so does the new value
    have h0 : getM st v = 0 := by
      unfold getM; rw [List.getD_eq_getElem?_getD, List.getElem?_eq_none (by omega)]; rfl
    have hrow : g.succ v = [] := by
      unfold Digraph.succ; rw [List.getD_eq_getElem?_getD, List.getElem?_eq_none (by have := hwf.1; omega)]; rfl
    apply hne
    apply Nat.eq_of_testBit_eq
    intro d
    rw [testBit_reachF g st v new d hf, hrow, h0]; simp
  have hvn : v < g.n := by omega
  have hsup : ∀ d, (getM st v).testBit d = true → new.testBit d = true := by
    intro d h; rw [testBit_reachF g st v new d hf, h]; rfl
  apply zeros_set_lt g.n st v new hvl hvn hsup
  have hnb : ∀ d, new.testBit d = true → d < g.n := by
    intro d h
    have := hinv'.2.1 v hvn d (by rw [getM_set st v v new hvl]; simpa using h)
    exact reachPlus_lt this
  obtain ⟨d, hd, hdiff⟩ := exists_diff_bit new (getM st v) g.n hnb (fun d h => reachPlus_lt (hs v hvn d h)) hne
  refine ⟨d, hd, ?_⟩
  cases h2 : (getM st v).testBit d with
  | true => exact absurd (by rw [h2, hsup d h2]) hdiff
  | false =>
    cases h1 : new.testBit d with
    | true => exact ⟨rfl, rfl⟩
    | false => exact absurd (by rw [h1, h2]) hdiff

theorem reachLoop_terminates (hwf : g.WF) : (sweepLoop (reachF g.adj) g.n (pdFuel g.n) (reachInit g.n g.adj)).isSome = true := by
  apply sweepLoop_terminates (reachF g.adj) (RInv g) (zeros g.n) (rinv_step g hwf) (rinv_dec g hwf)
  · exact rinv_init g hwf
  · have := zeros_le g.n (reachInit g.n g.adj)
    unfold pdFuel; omega

end reach

/-! ### calculate_immediate_post_dominators -/

theorem filter_singleton {α : Type} (p : α → Bool) (c : α) :
    ∀ l : List α, l.Nodup → c ∈ l → (∀ y ∈ l, p y = true ↔ y = c) → l.filter p = [c] := by
  intro l
  induction l with
  | nil => intro _ h; simp at h
  | cons a as ih =>
    intro nd hc hp
    have hnd := List.nodup_cons.1 nd
    by_cases hac : a = c
    · subst hac
      have : as.filter p = [] := by
        apply List.filter_eq_nil_iff.2
        intro y hy hpy
        have := (hp y (List.mem_cons_of_mem _ hy)).1 hpy
        subst this
        exact hnd.1 hy
      rw [List.filter_cons, (hp a (by simp)).2 rfl]
      simp [this]
    · have hc' : c ∈ as := by
        rcases List.mem_cons.1 hc with h | h
        · exact absurd h.symm hac
        · exact h
      have hpa : p a = false := by
        cases h : p a with
        | false => rfl
        | true => exact absurd ((hp a (by simp)).1 h) hac
      rw [List.filter_cons, hpa]
      simp only [Bool.false_eq_true, if_false]
      exact ih hnd.2 hc' (fun y hy => hp y (List.mem_cons_of_mem _ hy))

section ipdom
variable (g : Digraph) (x : Nat)

/-- the strict post-dominator mask computed by `ipdomOf` -/
theorem testBit_spdom (r : List Nat)
    (hr : ∀ v, v < g.n → ∀ d, (getM r v).testBit d = true ↔ (d < g.n ∧ PDom g x d v))
    (v : Nat) (hv : v < g.n) (d : Nat) :
    (getM r v &&& (full g.n ^^^ Model.Dom.bit v)).testBit d = true ↔ (d < g.n ∧ SPDom g x d v) := by
  rw [Nat.testBit_and, Nat.testBit_xor, testBit_full, testBit_mbit]
  simp only [Bool.and_eq_true, hr v hv d]
  unfold SPDom SDom PDom
  constructor
  · rintro ⟨⟨h1, h2⟩, h3⟩
    refine ⟨h1, h2, ?_⟩
    intro hdv; subst hdv
    simp [h1] at h3
  · rintro ⟨h1, h2, h3⟩
    refine ⟨⟨h1, h2⟩, ?_⟩
    have : ¬ v = d := fun h => h3 h.symm
    simp [h1, this]

/-- **immediate post-dominator selection**: on the correct post-dominator sets, for every node
    from which the exit is reachable, the code's selection is the path-defined immediate
    post-dominator (`None` for the exit itself). -/
theorem ipdomOf_correct (r : List Nat)
    (hr : ∀ v, v < g.n → ∀ d, (getM r v).testBit d = true ↔ (d < g.n ∧ PDom g x d v))
    (v : Nat) (hreach : Reach g v x) :
    ipdomOf g.n r v = match Spec.Graph.ipdom g x v with
      | none => .none_
      | some c => .node c := by
  obtain ⟨l0, p0⟩ := hreach
  have hv : v < g.n := p0.lt_left
  have hxn : x < g.n := p0.lt_right
  have hrv : Reach g.rev x v := (reach_rev g x v).2 ⟨l0, p0⟩
  unfold ipdomOf
  by_cases hvx : v = x
  · -- the exit: no strict post-dominator
    have hnone : Spec.Graph.ipdom g x v = none := (idom_eq_none_iff g.rev x v).2 (Or.inr hvx)
    have hz : getM r v &&& (full g.n ^^^ Model.Dom.bit v) = 0 := by
      apply Nat.eq_of_testBit_eq
      intro d
      rw [Nat.zero_testBit]
      cases hb : (getM r v &&& (full g.n ^^^ Model.Dom.bit v)).testBit d with
      | false => rfl
      | true =>
        have := (testBit_spdom g x r hr v hv d).1 hb
        subst hvx
        have hd := (pdom_iff_paths g v d v).1 this.2.1 [] (Path.nil hv)
        simp at hd
        exact absurd hd this.2.2
    simp only [hz, if_true, hnone]
  · obtain ⟨c, hc⟩ := isIdom_exists hrv hvx
    have hsome : Spec.Graph.ipdom g x v = some c := (idom_eq_some_iff g.rev x v c).2 ⟨hrv, hvx, hc⟩
    have hcn : c < g.n := dom_lt (g := g.rev) hc.1.1 hrv
    have hcreach : Reach g.rev x c := dom_reach hc.1.1 hrv
    have hnz : getM r v &&& (full g.n ^^^ Model.Dom.bit v) ≠ 0 := by
      intro hz
      have := (testBit_spdom g x r hr v hv c).2 ⟨hcn, hc.1⟩
      rw [hz, Nat.zero_testBit] at this
      cases this
    simp only [hnz, if_false, hsome]
    -- the filter selects exactly `c`
    have hfilter : (List.range g.n).filter (fun y =>
        (getM r v &&& (full g.n ^^^ Model.Dom.bit v)).testBit y && getM r y == (getM r v &&& (full g.n ^^^ Model.Dom.bit v))) = [c] := by
      apply filter_singleton _ c _ List.nodup_range (List.mem_range.2 hcn)
      intro y hy
      have hyn : y < g.n := List.mem_range.1 hy
      simp only [Bool.and_eq_true, beq_iff_eq]
      constructor
      · rintro ⟨h1, h2⟩
        have hsy := ((testBit_spdom g x r hr v hv y).1 h1).2
        have hyi : IsIdom g.rev x y v := by
          refine ⟨hsy, ?_⟩
          intro d' hd'
          have hd'n : d' < g.n := dom_lt (g := g.rev) hd'.1 hrv
          have := (testBit_spdom g x r hr v hv d').2 ⟨hd'n, hd'⟩
          rw [← h2] at this
          exact ((hr y hyn d').1 this).2
        exact isIdom_unique hyi hc hrv
      · intro hyc
        subst hyc
        refine ⟨(testBit_spdom g x r hr v hv y).2 ⟨hyn, hc.1⟩, ?_⟩
        apply Nat.eq_of_testBit_eq
        intro d
        rw [Bool.eq_iff_iff, hr y hyn d, testBit_spdom g x r hr v hv d]
        constructor
        · rintro ⟨hd, hp⟩
          refine ⟨hd, dom_trans hp hc.1.1, ?_⟩
          intro hdv; subst hdv
          exact hc.1.2 (dom_antisymm hc.1.1 hp hrv)
        · rintro ⟨hd, hs⟩
          exact ⟨hd, hc.2 d hs⟩
    rw [hfilter]

end ipdom

end Proofs.Dom
