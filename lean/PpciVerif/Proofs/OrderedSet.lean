import PpciVerif.Model.OrderedSet
import PpciVerif.Spec.OrderedSet
/-!
C30, OrderedSet: representation invariant of the doubly linked list and its
preservation by `add` / `discard`.

`Inv s cells` : the cells `cells` (all distinct, non-sentinel, already created)
are linked `end → cells[0] → … → cells[last] → end` through `next`, and
backwards through `prev`; `_map` sends a key to a cell iff that cell is in the
chain and carries that key; `count = len(cells)`.
The abstract value is `cells.map key`.
-/
namespace Proofs.OrderedSet
open Model.OrderedSet

/-! ### chains -/

def NextCh (f : Nat → Nat) : List Nat → Prop
  | [] => True
  | [_] => True
  | a :: b :: r => f a = b ∧ NextCh f (b :: r)

def PrevCh (g : Nat → Nat) : List Nat → Prop
  | [] => True
  | [_] => True
  | a :: b :: r => g b = a ∧ PrevCh g (b :: r)

theorem NextCh_mid (f : Nat → Nat) (A : List Nat) (x y : Nat) (B : List Nat) :
    NextCh f (A ++ x :: y :: B) ↔ NextCh f (A ++ [x]) ∧ f x = y ∧ NextCh f (y :: B) := by
  induction A with
  | nil => simp [NextCh]
  | cons a A ih =>
    cases A with
    | nil => simp [NextCh, and_assoc]
    | cons a' A' =>
      simp only [List.cons_append, NextCh] at ih ⊢
      rw [ih, and_assoc]

theorem PrevCh_mid (g : Nat → Nat) (A : List Nat) (x y : Nat) (B : List Nat) :
    PrevCh g (A ++ x :: y :: B) ↔ PrevCh g (A ++ [x]) ∧ g y = x ∧ PrevCh g (y :: B) := by
  induction A with
  | nil => simp [PrevCh]
  | cons a A ih =>
    cases A with
    | nil => simp [PrevCh, and_assoc]
    | cons a' A' =>
      simp only [List.cons_append, PrevCh] at ih ⊢
      rw [ih, and_assoc]

/-- `next` only matters on all but the last element -/
theorem NextCh_congr (f f' : Nat → Nat) : ∀ (l : List Nat), (∀ a ∈ l.dropLast, f' a = f a) → NextCh f l → NextCh f' l
  | [], _, _ => trivial
  | [_], _, _ => trivial
  | a :: b :: r, h, hc => by
    simp only [NextCh] at hc ⊢
    refine ⟨by rw [h a (by simp [List.dropLast])]; exact hc.1, ?_⟩
    exact NextCh_congr f f' (b :: r) (fun x hx => h x (by simp [List.dropLast]; exact Or.inr hx)) hc.2

/-- `prev` only matters on all but the first element -/
theorem PrevCh_congr (g g' : Nat → Nat) : ∀ (l : List Nat), (∀ b ∈ l.tail, g' b = g b) → PrevCh g l → PrevCh g' l
  | [], _, _ => trivial
  | [_], _, _ => trivial
  | a :: b :: r, h, hc => by
    simp only [PrevCh] at hc ⊢
    refine ⟨by rw [h b (by simp)]; exact hc.1, ?_⟩
    exact PrevCh_congr g g' (b :: r) (fun x hx => h x (by simp at hx ⊢; exact Or.inr hx)) hc.2

theorem exists_snoc (x : Nat) (xs : List Nat) : ∃ A l, x :: xs = A ++ [l] := by
  induction xs generalizing x with
  | nil => exact ⟨[], x, rfl⟩
  | cons y ys ih =>
    obtain ⟨A, l, h⟩ := ih y
    exact ⟨x :: A, l, by simp [h]⟩

/-! ### the invariant -/

structure Inv (s : OSet) (cells : List Nat) : Prop where
  nextCh : NextCh s.next (0 :: cells ++ [0])
  prevCh : PrevCh s.prev (0 :: cells ++ [0])
  nodup : cells.Nodup
  range : ∀ i ∈ cells, 0 < i ∧ i < s.size
  lenLt : cells.length < s.size
  map : ∀ k i, s.map k = some i ↔ (i ∈ cells ∧ s.key i = k)
  count : s.count = cells.length

theorem inv_empty : Inv empty [] := by
  refine ⟨by simp [NextCh, empty], by simp [PrevCh, empty], by simp, by simp, by simp [empty], ?_, rfl⟩
  intro k i; simp [empty]

/-- iteration follows the chain and never runs out of fuel -/
theorem iterFrom_chain (s : OSet) : ∀ (cs : List Nat) (p fuel : Nat), (∀ i ∈ cs, 0 < i) →
    NextCh s.next (p :: cs ++ [0]) → cs.length ≤ fuel → iterFrom s fuel (s.next p) = .ok (cs.map s.key)
  | [], p, fuel, _, h, _ => by
    simp only [List.cons_append, List.nil_append, NextCh] at h
    rw [h.1]; cases fuel <;> rfl
  | c :: cs, p, fuel, hpos, h, hf => by
    simp only [List.cons_append, NextCh] at h
    have hc : 0 < c := hpos c (by simp)
    obtain ⟨c', rfl⟩ : ∃ c', c = c' + 1 := ⟨c - 1, by omega⟩
    obtain ⟨f', rfl⟩ : ∃ f', fuel = f' + 1 := ⟨fuel - 1, by simp at hf; omega⟩
    rw [h.1]
    have ih := iterFrom_chain s cs (c' + 1) f' (fun i hi => hpos i (by simp [hi]))
      (by simpa using h.2) (by simp at hf; omega)
    simp only [iterFrom, ih, List.map_cons]

theorem iter_eq (s : OSet) (cells : List Nat) (h : Inv s cells) : iter s = .ok (cells.map s.key) := by
  unfold iter
  exact iterFrom_chain s cells 0 s.size (fun i hi => (h.range i hi).1) h.nextCh (Nat.le_of_lt h.lenLt)

theorem toList_eq (s : OSet) (cells : List Nat) (h : Inv s cells) : toList s = cells.map s.key := by
  simp [toList, iter_eq s cells h]

theorem contains_iff (s : OSet) (cells : List Nat) (h : Inv s cells) (v : Int) :
    contains s v = true ↔ v ∈ cells.map s.key := by
  unfold contains
  constructor
  · intro hc
    obtain ⟨i, hi⟩ := Option.isSome_iff_exists.mp hc
    obtain ⟨h1, h2⟩ := (h.map v i).mp hi
    exact List.mem_map.mpr ⟨i, h1, h2⟩
  · intro hm
    obtain ⟨i, h1, h2⟩ := List.mem_map.mp hm
    rw [(h.map v i).mpr ⟨h1, h2⟩]; rfl

/-- distinct cells of the chain carry distinct keys -/
theorem keys_nodup (s : OSet) (cells : List Nat) (h : Inv s cells) : (cells.map s.key).Nodup := by
  unfold List.Nodup
  rw [List.pairwise_map]
  refine List.Pairwise.imp_of_mem ?_ h.nodup
  intro a b ha hb hne e
  have h1 := (h.map (s.key a) a).mpr ⟨ha, rfl⟩
  have h2 := (h.map (s.key a) b).mpr ⟨hb, e.symm⟩
  rw [h1] at h2
  exact hne (Option.some.inj h2)

/-! ### `add` -/

theorem zero_cons_nodup (s : OSet) (cells : List Nat) (h : Inv s cells) : (0 :: cells).Nodup := by
  rw [List.nodup_cons]
  exact ⟨fun h0 => by have := (h.range 0 h0).1; omega, h.nodup⟩

theorem add_present (s : OSet) (v : Int) (c : Nat) (hv : s.map v = some c) : add s v = s := by
  simp [add, hv]

theorem add_absent (s : OSet) (cells : List Nat) (h : Inv s cells) (v : Int) (hv : s.map v = none) :
    Inv (add s v) (cells ++ [s.size]) ∧ (cells ++ [s.size]).map (add s v).key = cells.map s.key ++ [v] := by
  obtain ⟨A, l, hAl⟩ := exists_snoc 0 cells
  have hnd : (A ++ [l]).Nodup := hAl ▸ zero_cons_nodup s cells h
  have hlt : ∀ a ∈ A ++ [l], a < s.size := by
    intro a ha; rw [← hAl] at ha
    rcases List.mem_cons.mp ha with rfl | ha
    · have := h.lenLt; omega
    · exact (h.range a ha).2
  have hchain : 0 :: cells ++ [0] = A ++ l :: 0 :: [] := by
    rw [show 0 :: cells ++ [0] = (0 :: cells) ++ [0] from rfl, hAl]; simp
  have hN := h.nextCh; rw [hchain, NextCh_mid] at hN
  have hP := h.prevCh; rw [hchain, PrevCh_mid] at hP
  obtain ⟨hN1, hN2, -⟩ := hN
  obtain ⟨hP1, hP2, -⟩ := hP
  have hnew : 0 :: (cells ++ [s.size]) ++ [0] = A ++ l :: s.size :: [0] := by
    rw [show 0 :: (cells ++ [s.size]) ++ [0] = ((0 :: cells) ++ [s.size]) ++ [0] from by simp, hAl]; simp
  have hA_ne_l : ∀ a ∈ A, a ≠ l := by
    intro a ha e; subst e
    have := List.nodup_append.mp hnd
    exact this.2.2 a ha a (by simp) rfl
  have hl_lt : l < s.size := hlt l (by simp)
  have hsz : 0 < s.size := by have := h.lenLt; omega
  have hkeys : ∀ i ∈ cells, upd s.key s.size v i = s.key i := by
    intro i hi; have := (h.range i hi).2
    simp [upd]; omega
  simp only [add, hv, hP2]
  refine ⟨⟨?_, ?_, ?_, ?_, ?_, ?_, ?_⟩, ?_⟩
  all_goals (try dsimp only)
  · -- next chain
    rw [hnew, NextCh_mid]
    refine ⟨NextCh_congr _ _ _ ?_ hN1, by simp [upd], ?_⟩
    · intro a ha
      rw [List.dropLast_concat] at ha
      have h1 := hA_ne_l a ha
      have h2 := hlt a (by simp [ha])
      simp [upd, h1]; omega
    · simp only [NextCh, and_true]
      have : s.size ≠ l := by omega
      simp [upd, this]
  · -- prev chain
    rw [hnew, PrevCh_mid]
    refine ⟨PrevCh_congr _ _ _ ?_ hP1, ?_, ?_⟩
    · intro b hb
      have hb' : b ∈ cells := by
        have : (A ++ [l]).tail = cells := by rw [← hAl]; rfl
        rw [this] at hb; exact hb
      have := h.range b hb'
      have hb0 : b ≠ 0 := by omega
      have hbs : b ≠ s.size := by omega
      simp [upd, hb0, hbs]
    · have : s.size ≠ 0 := by omega
      simp [upd, this]
    · simp [PrevCh, upd]
  · -- nodup
    rw [List.nodup_append]
    refine ⟨h.nodup, by simp, ?_⟩
    intro a ha b hb
    simp at hb; subst hb
    have := (h.range a ha).2; omega
  · intro i hi
    rcases List.mem_append.mp hi with hi | hi
    · have := h.range i hi; omega
    · simp at hi; omega
  · simp; exact h.lenLt
  · intro k i
    constructor
    · intro hm
      by_cases hk : k = v
      · simp [hk] at hm; subst hm; subst hk; simp [upd]
      · simp [hk] at hm
        obtain ⟨h1, h2⟩ := (h.map k i).mp hm
        exact ⟨by simp [h1], by rw [hkeys i h1]; exact h2⟩
    · rintro ⟨hi, hk⟩
      rcases List.mem_append.mp hi with hi | hi
      · rw [hkeys i hi] at hk
        have hne : k ≠ v := by
          intro e; subst e
          rw [(h.map k i).mpr ⟨hi, hk⟩] at hv; cases hv
        simp [hne]; exact (h.map k i).mpr ⟨hi, hk⟩
      · simp at hi; subst hi
        simp [upd] at hk; simp [hk]
  · simp [h.count]
  · rw [List.map_append, List.map_congr_left hkeys]
    simp [upd]

/-! ### `discard` -/

theorem discard_absent (s : OSet) (v : Int) (hv : s.map v = none) : discard s v = s := by
  simp [Model.OrderedSet.discard, hv]

theorem discard_present (s : OSet) (cells : List Nat) (h : Inv s cells) (v : Int) (c : Nat)
    (hv : s.map v = some c) :
    ∃ pre post, cells = pre ++ c :: post ∧ Inv (discard s v) (pre ++ post) ∧
      (pre ++ post).map (discard s v).key = (cells.map s.key).filter (· ≠ v) := by
  obtain ⟨hc, hkc⟩ := (h.map v c).mp hv
  obtain ⟨pre, post, rfl⟩ := List.append_of_mem hc
  refine ⟨pre, post, rfl, ?_⟩
  -- 0 :: pre = A ++ [p],   post ++ [0] = n :: B
  obtain ⟨A, p, hAp⟩ := exists_snoc 0 pre
  obtain ⟨n, B, hnB⟩ : ∃ n B, post ++ [0] = n :: B := by
    cases post with
    | nil => exact ⟨0, [], rfl⟩
    | cons q r => exact ⟨q, r ++ [0], rfl⟩
  have hnd0 := zero_cons_nodup s _ h
  have hchain : 0 :: (pre ++ c :: post) ++ [0] = A ++ p :: c :: n :: B := by
    rw [show 0 :: (pre ++ c :: post) ++ [0] = (0 :: pre) ++ c :: (post ++ [0]) from by simp, hAp, hnB]; simp
  have hnew : 0 :: (pre ++ post) ++ [0] = A ++ p :: n :: B := by
    rw [show 0 :: (pre ++ post) ++ [0] = (0 :: pre) ++ (post ++ [0]) from by simp, hAp, hnB]; simp
  have hN := h.nextCh; rw [hchain, NextCh_mid] at hN
  have hP := h.prevCh; rw [hchain, PrevCh_mid] at hP
  obtain ⟨hN1, hN2, hN3⟩ := hN
  obtain ⟨hP1, hP2, hP3⟩ := hP
  have hN3' := hN3; rw [show c :: n :: B = [] ++ c :: n :: B from rfl, NextCh_mid] at hN3'
  have hP3' := hP3; rw [show c :: n :: B = [] ++ c :: n :: B from rfl, PrevCh_mid] at hP3'
  obtain ⟨-, hcn, hNB⟩ := hN3'
  obtain ⟨-, hnc, hPB⟩ := hP3'
  -- distinctness facts from Nodup (0 :: pre ++ c :: post)
  have hnd1 : ((0 :: pre) ++ c :: post).Nodup := by simpa using hnd0
  rw [hAp] at hnd1
  have hsplit := List.nodup_append.mp hnd1
  have hApnd : (A ++ [p]).Nodup := hsplit.1
  have hcpost : (c :: post).Nodup := hsplit.2.1
  have hdisj : ∀ a ∈ A ++ [p], ∀ b ∈ c :: post, a ≠ b := hsplit.2.2
  have hA_ne_p : ∀ a ∈ A, a ≠ p := by
    intro a ha e; subst e
    exact (List.nodup_append.mp hApnd).2.2 a ha a (by simp) rfl
  have hpost_ne_p : ∀ b ∈ post, b ≠ p := fun b hb e => hdisj p (by simp) b (by simp [hb]) e.symm
  have hpos : ∀ i ∈ pre ++ c :: post, 0 < i := fun i hi => (h.range i hi).1
  have hpre_tail : (A ++ [p]).tail = pre := by rw [← hAp]; rfl
  have hBdrop : (n :: B).dropLast = post := by rw [← hnB]; simp
  have hpre_ne_n : ∀ b ∈ pre, b ≠ n := by
    intro b hb e
    have hn : n ∈ post ++ [0] := by rw [hnB]; simp
    rcases List.mem_append.mp hn with hn | hn
    · have hb' : b ∈ A ++ [p] := by rw [← hAp]; simp [hb]
      exact hdisj b hb' n (by simp [hn]) e
    · simp at hn; have := hpos b (by simp [hb]); omega
  have hB_ne_n : ∀ b ∈ B, b ≠ n := by
    intro b hb e
    cases post with
    | nil => simp at hnB; obtain ⟨-, rfl⟩ := hnB; simp at hb
    | cons q r =>
      simp at hnB; obtain ⟨rfl, rfl⟩ := hnB
      rcases List.mem_append.mp hb with hb | hb
      · have := (List.nodup_cons.mp (List.nodup_cons.mp hcpost).2).1
        exact this (e ▸ hb)
      · simp at hb; have := hpos q (by simp); omega
  have hsp : s.prev c = p := hP2
  simp only [Model.OrderedSet.discard, hv, hsp, hcn]
  have hkeyne : ∀ i ∈ pre ++ post, s.key i ≠ v := by
    intro i hi e
    have hi' : i ∈ pre ++ c :: post := by
      rcases List.mem_append.mp hi with hi | hi <;> simp [hi]
    have := (h.map v i).mpr ⟨hi', e⟩
    rw [hv] at this
    have hic : c = i := Option.some.inj this
    subst hic
    rcases List.mem_append.mp hi with hi | hi
    · have hb' : c ∈ A ++ [p] := by rw [← hAp]; simp [hi]
      exact hdisj c hb' c (by simp) rfl
    · exact (List.nodup_cons.mp hcpost).1 hi
  refine ⟨⟨?_, ?_, ?_, ?_, ?_, ?_, ?_⟩, ?_⟩
  all_goals (try dsimp only)
  · rw [hnew, NextCh_mid]
    refine ⟨NextCh_congr _ _ _ ?_ hN1, by simp [upd], NextCh_congr _ _ _ ?_ hNB⟩
    · intro a ha
      rw [List.dropLast_concat] at ha
      simp [upd, hA_ne_p a ha]
    · intro a ha
      rw [hBdrop] at ha
      simp [upd, hpost_ne_p a ha]
  · rw [hnew, PrevCh_mid]
    refine ⟨PrevCh_congr _ _ _ ?_ hP1, by simp [upd], PrevCh_congr _ _ _ ?_ hPB⟩
    · intro b hb
      rw [hpre_tail] at hb
      simp [upd, hpre_ne_n b hb]
    · intro b hb
      simp at hb
      simp [upd, hB_ne_n b hb]
  · have := List.nodup_append.mp h.nodup
    rw [List.nodup_append]
    exact ⟨this.1, (List.nodup_cons.mp this.2.1).2, fun a ha b hb => this.2.2 a ha b (by simp [hb])⟩
  · intro i hi
    exact h.range i (by rcases List.mem_append.mp hi with hi | hi <;> simp [hi])
  · have := h.lenLt; simp at this ⊢; omega
  · intro k i
    constructor
    · intro hm
      by_cases hk : k = v
      · simp [hk] at hm
      · simp [hk] at hm
        obtain ⟨h1, h2⟩ := (h.map k i).mp hm
        refine ⟨?_, h2⟩
        rcases List.mem_append.mp h1 with h1 | h1
        · simp [h1]
        · rcases List.mem_cons.mp h1 with rfl | h1
          · exact absurd (hkc ▸ h2 : v = k).symm hk
          · simp [h1]
    · rintro ⟨hi, hk⟩
      have hne : k ≠ v := fun e => hkeyne i hi (e ▸ hk)
      simp [hne]
      exact (h.map k i).mpr ⟨by rcases List.mem_append.mp hi with hi | hi <;> simp [hi], hk⟩
  · simp [h.count]
  · simp only [List.map_append, List.map_cons, List.filter_append, List.filter_cons, hkc]
    have hf : ∀ l : List Nat, (∀ i ∈ l, s.key i ≠ v) →
        List.filter (fun x => !decide (x = v)) (l.map s.key) = l.map s.key := by
      intro l hl
      rw [List.filter_eq_self]; intro x hx
      obtain ⟨i, hi, rfl⟩ := List.mem_map.mp hx
      simpa using hl i hi
    simp [hf pre (fun i hi => hkeyne i (by simp [hi])), hf post (fun i hi => hkeyne i (by simp [hi]))]

end Proofs.OrderedSet
