import PpciVerif.Proofs.LinkerLayout
/-! Helper lemmas for C12: when does a link fail?  (global symbol tables, simulation of the
layout by the abstract placement of `Spec.Link`). -/
namespace Proofs.Linker
open Model.Linker

/-! ### global names of a symbol table -/

def gnames (syms : List Symbol) : List String := (syms.filter (fun s => s.isGlobal)).map (·.name)
def gdefs (syms : List Symbol) : List String :=
  (syms.filter (fun s => s.isGlobal && s.value.isSome)).map (·.name)

theorem mem_gnames {syms : List Symbol} {x : String} :
    x ∈ gnames syms ↔ ∃ s ∈ syms, s.isGlobal = true ∧ s.name = x := by
  simp [gnames, List.mem_map, List.mem_filter, and_assoc]

theorem mem_gdefs {syms : List Symbol} {x : String} :
    x ∈ gdefs syms ↔ ∃ s ∈ syms, s.isGlobal = true ∧ s.value.isSome = true ∧ s.name = x := by
  simp [gdefs, List.mem_map, List.mem_filter, and_assoc]

theorem gnames_append (a b : List Symbol) : gnames (a ++ b) = gnames a ++ gnames b := by
  simp [gnames, List.filter_append]

theorem gdefs_append (a b : List Symbol) : gdefs (a ++ b) = gdefs a ++ gdefs b := by
  simp [gdefs, List.filter_append]

theorem gdefs_sub_gnames {syms : List Symbol} {x : String} (h : x ∈ gdefs syms) : x ∈ gnames syms := by
  obtain ⟨s, hs, hg, _, hn⟩ := mem_gdefs.1 h
  exact mem_gnames.2 ⟨s, hs, hg, hn⟩

/-- the symbol table seen through its global names `G` and defined global names `D` -/
structure Tab (syms : List Symbol) (G D : List String) : Prop where
  uniq : (gnames syms).Nodup
  names : ∀ x, x ∈ gnames syms ↔ x ∈ G
  defs : ∀ x, x ∈ gdefs syms ↔ x ∈ D

theorem Tab.congr {syms : List Symbol} {G D G' D' : List String} (t : Tab syms G D)
    (hg : ∀ x, x ∈ G ↔ x ∈ G') (hd : ∀ x, x ∈ D ↔ x ∈ D') : Tab syms G' D' :=
  ⟨t.uniq, fun x => (t.names x).trans (hg x), fun x => (t.defs x).trans (hd x)⟩

theorem Tab.nil : Tab [] [] [] := ⟨by simp [gnames], by simp [gnames], by simp [gdefs]⟩

theorem Tab.defs_sub {syms : List Symbol} {G D : List String} (t : Tab syms G D) {x : String} (h : x ∈ D) : x ∈ G :=
  (t.names x).1 (gdefs_sub_gnames ((t.defs x).2 h))

theorem findGlobal_none_iff {syms : List Symbol} {n : String} : findGlobal syms n = none ↔ n ∉ gnames syms := by
  unfold findGlobal
  rw [List.find?_eq_none, mem_gnames]
  constructor
  · rintro h ⟨s, hs, hg, hn⟩
    have := h s hs
    simp [hg, hn] at this
  · intro h s hs hc
    simp at hc
    exact h ⟨s, hs, hc.1, hc.2⟩

/-- two global entries with the same name are the same entry (names of globals are distinct) -/
theorem global_unique : ∀ {syms : List Symbol}, (gnames syms).Nodup → ∀ a ∈ syms, ∀ b ∈ syms,
    a.isGlobal = true → b.isGlobal = true → a.name = b.name → a = b
  | [], _, a, ha, _, _, _, _, _ => by simp at ha
  | s :: rest, hnd, a, ha, b, hb, ga, gb, e => by
    by_cases hs : s.isGlobal = true
    · have hnd' : (s.name :: gnames rest).Nodup := by simpa [gnames, List.filter_cons, hs] using hnd
      rw [List.nodup_cons] at hnd'
      rcases List.mem_cons.1 ha with ea | ha'
      · rcases List.mem_cons.1 hb with eb | hb'
        · rw [ea, eb]
        · rw [ea] at e
          exact absurd (mem_gnames.2 ⟨b, hb', gb, e.symm⟩) hnd'.1
      · rcases List.mem_cons.1 hb with eb | hb'
        · rw [eb] at e
          exact absurd (mem_gnames.2 ⟨a, ha', ga, e⟩) hnd'.1
        · exact global_unique hnd'.2 a ha' b hb' ga gb e
    · have hnd' : (gnames rest).Nodup := by simpa [gnames, List.filter_cons, hs] using hnd
      rcases List.mem_cons.1 ha with ea | ha
      · subst ea; exact absurd ga hs
      · rcases List.mem_cons.1 hb with eb | hb
        · subst eb; exact absurd gb hs
        · exact global_unique hnd' a ha b hb ga gb e

theorem findGlobal_defined_iff {syms : List Symbol} {n : String} {g : Symbol} (hu : (gnames syms).Nodup)
    (h : findGlobal syms n = some g) : g.value.isSome = true ↔ n ∈ gdefs syms := by
  have h1 := List.find?_some h
  have h2 := List.mem_of_find?_eq_some h
  simp at h1
  constructor
  · intro hv; exact mem_gdefs.2 ⟨g, h2, h1.1, hv, h1.2⟩
  · intro hd
    obtain ⟨s, hs, hg, hv, hn⟩ := mem_gdefs.1 hd
    have := global_unique hu s hs g h2 hg h1.1 (hn.trans h1.2.symm)
    rw [← this]; exact hv

/-! ### appending and defining symbols -/

theorem Tab.append_local {syms : List Symbol} {G D : List String} (t : Tab syms G D) {s : Symbol}
    (hs : s.isGlobal = false) : Tab (syms ++ [s]) G D := by
  have e1 : gnames (syms ++ [s]) = gnames syms := by simp [gnames, hs]
  have e2 : gdefs (syms ++ [s]) = gdefs syms := by simp [gdefs, hs]
  exact ⟨e1 ▸ t.uniq, fun x => by rw [e1]; exact t.names x, fun x => by rw [e2]; exact t.defs x⟩

theorem Tab.append_global {syms : List Symbol} {G D : List String} (t : Tab syms G D) {s : Symbol}
    (hs : s.isGlobal = true) (hn : s.name ∉ G) :
    Tab (syms ++ [s]) (G ++ [s.name]) (if s.value.isSome then D ++ [s.name] else D) := by
  have e1 : gnames (syms ++ [s]) = gnames syms ++ [s.name] := by simp [gnames, hs]
  refine ⟨?_, ?_, ?_⟩
  · rw [e1, List.nodup_append]
    refine ⟨t.uniq, by simp, ?_⟩
    intro a ha b hb
    simp at hb; subst hb
    intro e; subst e
    exact hn ((t.names _).1 ha)
  · intro x; rw [e1]; simp [t.names x]
  · intro x
    by_cases hv : s.value.isSome = true
    · have e2 : gdefs (syms ++ [s]) = gdefs syms ++ [s.name] := by simp [gdefs, hs, hv]
      rw [e2, if_pos hv]; simp [t.defs x]
    · have e2 : gdefs (syms ++ [s]) = gdefs syms := by simp [gdefs, hs, hv]
      rw [e2, if_neg hv]; exact t.defs x

theorem gnames_map (f : Symbol → Symbol) (hf : ∀ s, (f s).isGlobal = s.isGlobal ∧ (f s).name = s.name) :
    ∀ l : List Symbol, gnames (l.map f) = gnames l
  | [] => rfl
  | s :: rest => by
    have ih := gnames_map f hf rest
    unfold gnames at ih ⊢
    rw [List.map_cons, List.filter_cons, List.filter_cons, (hf s).1]
    by_cases hg : s.isGlobal = true
    · simp only [hg, if_true, List.map_cons, (hf s).2, ih]
    · simp only [hg]; exact ih

theorem gnames_defineGlobal (syms : List Symbol) (n : String) (sect : Option String) (v : Nat) :
    gnames (defineGlobal syms n sect v) = gnames syms := by
  unfold Model.Linker.defineGlobal
  apply gnames_map
  intro s
  split <;> exact ⟨rfl, rfl⟩

theorem mem_gdefs_defineGlobal {syms : List Symbol} {n : String} {sect : Option String} {v : Nat} {g : Symbol}
    (hg : g ∈ syms) (hgg : g.isGlobal = true) (hgn : g.name = n) (hgv : g.value.isNone = true) (x : String) :
    x ∈ gdefs (defineGlobal syms n sect v) ↔ x ∈ gdefs syms ∨ x = n := by
  rw [mem_gdefs, mem_gdefs]
  unfold Model.Linker.defineGlobal
  constructor
  · rintro ⟨s', hs', h1, h2, h3⟩
    obtain ⟨s, hs, e⟩ := List.mem_map.1 hs'
    by_cases hc : (s.isGlobal && s.name == n && s.value.isNone) = true
    · rw [if_pos hc] at e
      subst e
      simp at hc
      right; simp at h3; rw [← h3]; exact hc.1.2
    · rw [if_neg hc] at e
      subst e
      left; exact ⟨s, hs, h1, h2, h3⟩
  · rintro (⟨s, hs, h1, h2, h3⟩ | e)
    · refine ⟨s, List.mem_map.2 ⟨s, hs, ?_⟩, h1, h2, h3⟩
      have : ¬ (s.isGlobal && s.name == n && s.value.isNone) = true := by
        simp; intro _ _; cases hv : s.value with
        | none => rw [hv] at h2; cases h2
        | some _ => simp
      rw [if_neg this]
    · subst e
      refine ⟨{ g with value := some v, sect := sect }, List.mem_map.2 ⟨g, hg, ?_⟩, hgg, rfl, hgn⟩
      have : (g.isGlobal && g.name == g.name && g.value.isNone) = true := by simp [hgg, hgv]
      rw [← hgn, if_pos this]

/-! ### `inject_symbol` / `merge_global_symbol` seen through `Tab` -/

/-- list of names extended by `n` when `b` holds -/
def addIf (D : List String) (b : Bool) (n : String) : List String := if b then D ++ [n] else D

theorem mem_addIf {D : List String} {b : Bool} {n x : String} : x ∈ addIf D b n ↔ x ∈ D ∨ (b = true ∧ x = n) := by
  unfold addIf; cases b <;> simp

theorem injectSymbol_local_run {syms : List Symbol} {G D : List String} (t : Tab syms G D)
    (name : String) (sect : Option String) (value : Option Nat) (typ : String) (size : Nat) :
    ∃ syms' id, injectSymbol syms name .loc sect value typ size = .ok (syms', id) ∧ Tab syms' G D := by
  refine ⟨_, syms.length, ?_, t.append_local (s := { id := syms.length, name, binding := .loc, value, sect, typ, size }) rfl⟩
  simp [injectSymbol, addSymbol, Symbol.isGlobal]

theorem injectSymbol_global_run {syms : List Symbol} {G D : List String} (t : Tab syms G D)
    (name : String) (sect : Option String) (value : Option Nat) (typ : String) (size : Nat) :
    (name ∈ G → injectSymbol syms name .global sect value typ size = .error .CompilerError) ∧
    (name ∉ G → ∃ syms' id, injectSymbol syms name .global sect value typ size = .ok (syms', id) ∧
      Tab syms' (G ++ [name]) (addIf D value.isSome name)) := by
  constructor
  · intro hn
    have : (findGlobal syms name).isSome = true := by
      cases hf : findGlobal syms name with
      | none => exact absurd ((t.names _).2 hn) (findGlobal_none_iff.1 hf)
      | some _ => rfl
    simp [injectSymbol, addSymbol, Symbol.isGlobal, this]
  · intro hn
    have hf : findGlobal syms name = none := findGlobal_none_iff.2 (fun h => hn ((t.names _).1 h))
    refine ⟨_, syms.length, ?_, t.append_global (s := { id := syms.length, name, binding := .global, value, sect, typ, size }) rfl hn⟩
    simp [injectSymbol, addSymbol, Symbol.isGlobal, hf]

theorem mergeGlobal_run {syms : List Symbol} {G D : List String} (t : Tab syms G D)
    (name : String) (sect : Option String) (value : Option Nat) (typ : String) (size : Nat) :
    (value.isSome = true ∧ name ∈ D → mergeGlobal syms name sect value typ size = .error .CompilerError) ∧
    (¬ (value.isSome = true ∧ name ∈ D) → ∃ syms' id, mergeGlobal syms name sect value typ size = .ok (syms', id) ∧
      Tab syms' (G ++ [name]) (addIf D value.isSome name)) := by
  unfold mergeGlobal
  cases hf : findGlobal syms name with
  | none =>
    have hn : name ∉ G := fun h => findGlobal_none_iff.1 hf ((t.names _).2 h)
    have ⟨_, r2⟩ := injectSymbol_global_run t name sect value typ size
    exact ⟨fun hc => absurd (t.defs_sub hc.2) hn, fun _ => r2 hn⟩
  | some g =>
    have hdef := findGlobal_defined_iff t.uniq hf
    have h1 := List.find?_some hf
    have h2 := List.mem_of_find?_eq_some hf
    simp at h1
    have hG : name ∈ G := (t.names _).1 (mem_gnames.2 ⟨g, h2, h1.1, h1.2⟩)
    have hGeq : ∀ x, x ∈ G ↔ x ∈ G ++ [name] := by
      intro x; simp; intro e; subst e; exact hG
    cases value with
    | none =>
      refine ⟨fun hc => (by cases hc.1), fun _ => ⟨syms, g.id, rfl, t.congr hGeq (fun x => by simp [addIf])⟩⟩
    | some v =>
      simp only [Option.isSome_some, true_and]
      by_cases hD : name ∈ D
      · have : g.value.isNone = false := by
          have := hdef.2 ((t.defs _).2 hD)
          cases hv : g.value with
          | none => rw [hv] at this; cases this
          | some _ => rfl
        simp [this, hD]
      · have hgv : g.value.isNone = true := by
          cases hv : g.value with
          | none => rfl
          | some _ =>
            have := hdef.1 (by rw [hv]; rfl)
            exact absurd ((t.defs _).1 this) hD
        refine ⟨fun hc => absurd hc hD, fun _ => ⟨defineGlobal syms name sect v, g.id, by simp [hgv], ?_⟩⟩
        refine ⟨by rw [gnames_defineGlobal]; exact t.uniq, fun x => ?_, fun x => ?_⟩
        · rw [gnames_defineGlobal]; exact (t.names x).trans (hGeq x)
        · rw [mem_gdefs_defineGlobal h2 h1.1 h1.2 hgv, mem_addIf, t.defs x]; simp

/-! ### the symbol loop -/

/-- the symbol refers to a section of its own object (or is undefined) -/
def Shiftable (offs : List (String × Nat)) (s : Symbol) : Prop :=
  s.value = none ∨ ∃ n, s.sect = some n ∧ (dictGet offs n).isSome = true

theorem shiftSymbol_run {offs : List (String × Nat)} {s : Symbol} (h : Shiftable offs s) :
    ∃ value sect, shiftSymbol offs s = .ok (value, sect) ∧ value.isSome = s.value.isSome := by
  unfold shiftSymbol
  rcases h with h | ⟨n, hn, ho⟩
  · rw [h]; exact ⟨none, none, rfl, rfl⟩
  · cases hv : s.value with
    | none => exact ⟨none, none, rfl, rfl⟩
    | some v =>
      cases hd : dictGet offs n with
      | none => rw [hd] at ho; cases ho
      | some o => simp only [hn, hd]; exact ⟨_, _, rfl, rfl⟩

def symDefs (inps : List Symbol) : List String :=
  (inps.filter (fun s => s.isGlobal && s.value.isSome)).map (·.name)
def symGlobals (inps : List Symbol) : List String := (inps.filter (fun s => s.isGlobal)).map (·.name)

theorem injectOneSymbol_run {offs : List (String × Nat)} {syms : List Symbol} {G D : List String}
    (t : Tab syms G D) {s : Symbol} (hs : Shiftable offs s) :
    ((s.isGlobal = true ∧ s.value.isSome = true ∧ s.name ∈ D) → injectOneSymbol offs syms s = .error .CompilerError) ∧
    (¬ (s.isGlobal = true ∧ s.value.isSome = true ∧ s.name ∈ D) →
      ∃ syms' id, injectOneSymbol offs syms s = .ok (syms', id) ∧
        Tab syms' (G ++ symGlobals [s]) (D ++ symDefs [s])) := by
  obtain ⟨value, sect, hsh, hv⟩ := shiftSymbol_run hs
  unfold injectOneSymbol
  rw [hsh]
  simp only
  by_cases hg : s.isGlobal = true
  · simp only [hg, if_true, true_and]
    have ⟨r1, r2⟩ := mergeGlobal_run t s.name sect value s.typ s.size
    rw [hv] at r1 r2
    refine ⟨r1, fun hc => ?_⟩
    obtain ⟨syms', id, h1, t'⟩ := r2 hc
    refine ⟨syms', id, h1, t'.congr (fun x => by simp [symGlobals, hg]) (fun x => ?_)⟩
    rw [mem_addIf]
    cases hvv : s.value.isSome <;> simp [symDefs, hg, hvv]
  · simp only [hg]
    refine ⟨fun hc => absurd hc.1 (by simp), fun _ => ?_⟩
    have hb : s.binding = .loc := by
      unfold Symbol.isGlobal at hg
      cases hbb : s.binding with
      | global => rw [hbb] at hg; simp at hg
      | loc => rfl
    rw [hb]
    obtain ⟨syms', id, h1, t'⟩ := injectSymbol_local_run t s.name sect value s.typ s.size
    exact ⟨syms', id, h1, t'.congr (fun x => by simp [symGlobals, hg]) (fun x => by simp [symDefs, hg])⟩

theorem symDefs_cons (s : Symbol) (rest : List Symbol) : symDefs (s :: rest) = symDefs [s] ++ symDefs rest := by
  simp only [symDefs]; rw [← List.map_append, ← List.filter_append]; rfl

theorem symGlobals_cons (s : Symbol) (rest : List Symbol) :
    symGlobals (s :: rest) = symGlobals [s] ++ symGlobals rest := by
  simp only [symGlobals]; rw [← List.map_append, ← List.filter_append]; rfl

theorem symDefs_single (s : Symbol) :
    symDefs [s] = if s.isGlobal = true ∧ s.value.isSome = true then [s.name] else [] := by
  unfold symDefs
  by_cases h : s.isGlobal = true ∧ s.value.isSome = true
  · simp [h]
  · simp only [if_neg h]
    have : (s.isGlobal && s.value.isSome) = false := by
      cases hg : s.isGlobal <;> cases hv : s.value.isSome <;> simp_all
    simp [this]

/-- the no-clash condition for a list of new definitions against the already defined names -/
def Fresh (D : List String) (defs : List String) : Prop := defs.Nodup ∧ ∀ n ∈ defs, n ∉ D

theorem fresh_cons_iff {D : List String} {a b : List String} :
    Fresh D (a ++ b) ↔ Fresh D a ∧ Fresh (D ++ a) b := by
  unfold Fresh
  rw [List.nodup_append]
  constructor
  · rintro ⟨⟨h1, h2, h3⟩, h4⟩
    refine ⟨⟨h1, fun n hn => h4 n (by simp [hn])⟩, h2, fun n hn hc => ?_⟩
    rcases List.mem_append.1 hc with hc | hc
    · exact h4 n (by simp [hn]) hc
    · exact h3 n hc n hn rfl
  · rintro ⟨⟨h1, h2⟩, h3, h4⟩
    refine ⟨⟨h1, h3, fun x hx y hy e => ?_⟩, fun n hn => ?_⟩
    · subst e; exact h4 x hy (by simp [hx])
    · rcases List.mem_append.1 hn with hn | hn
      · exact h2 n hn
      · exact fun hc => h4 n hn (by simp [hc])

theorem injectSymbols_run : ∀ {inps : List Symbol} {offs : List (String × Nat)} {syms : List Symbol}
    {G D : List String}, Tab syms G D → (∀ s ∈ inps, Shiftable offs s) →
    (¬ Fresh D (symDefs inps) → injectSymbols offs syms inps = .error .CompilerError) ∧
    (Fresh D (symDefs inps) → ∃ syms' ids, injectSymbols offs syms inps = .ok (syms', ids) ∧
      Tab syms' (G ++ symGlobals inps) (D ++ symDefs inps))
  | [], offs, syms, G, D, t, _ => by
    refine ⟨fun h => absurd (show Fresh D (symDefs []) from ⟨by simp [symDefs], by simp [symDefs]⟩) h, fun _ => ?_⟩
    exact ⟨syms, [], rfl, t.congr (by simp [symGlobals]) (by simp [symDefs])⟩
  | s :: rest, offs, syms, G, D, t, hs => by
    have ⟨r1, r2⟩ := injectOneSymbol_run t (hs s (by simp))
    rw [symDefs_cons, symGlobals_cons]
    have hfresh1 : Fresh D (symDefs [s]) ↔ ¬ (s.isGlobal = true ∧ s.value.isSome = true ∧ s.name ∈ D) := by
      rw [symDefs_single]
      by_cases h : s.isGlobal = true ∧ s.value.isSome = true
      · simp [Fresh, h]
      · simp only [if_neg h, Fresh]
        constructor
        · intro _ hc; exact h ⟨hc.1, hc.2.1⟩
        · intro _; simp
    unfold injectSymbols
    by_cases hc : s.isGlobal = true ∧ s.value.isSome = true ∧ s.name ∈ D
    · rw [r1 hc]
      refine ⟨fun _ => rfl, fun hf => ?_⟩
      exact absurd (fresh_cons_iff.1 hf).1 (by rw [hfresh1]; exact fun h => h hc)
    · obtain ⟨syms1, id, h1, t1⟩ := r2 hc
      rw [h1]
      simp only
      have ⟨q1, q2⟩ := injectSymbols_run (inps := rest) t1 (fun x hx => hs x (by simp [hx]))
      constructor
      · intro hnf
        have : ¬ Fresh (D ++ symDefs [s]) (symDefs rest) := fun hf =>
          hnf (fresh_cons_iff.2 ⟨hfresh1.2 hc, hf⟩)
        rw [q1 this]
      · intro hf
        obtain ⟨syms2, ids, h2, t2⟩ := q2 (fresh_cons_iff.1 hf).2
        rw [h2]
        exact ⟨syms2, id :: ids, rfl, t2.congr (by simp [List.append_assoc]) (by simp [List.append_assoc])⟩

/-! ### a well-formed object is injected without any error but a symbol clash -/

theorem injectSections_run : ∀ {inps : List Section} {secs : List Section}, (∀ s ∈ inps, s.alignment ≠ 0) →
    ∃ secs' offs, injectSections secs inps = .ok (secs', offs)
  | [], secs, _ => ⟨secs, [], rfl⟩
  | inp :: rest, secs, h => by
    unfold injectSections
    have ha := h inp (by simp)
    have : ∃ secs1 off, injectSection secs inp = .ok (secs1, off) := by
      unfold injectSection; simp [ha]
    obtain ⟨secs1, off, h1⟩ := this
    obtain ⟨secs2, offs, h2⟩ := injectSections_run (inps := rest) (secs := secs1) (fun s hs => h s (by simp [hs]))
    rw [h1]; simp only; rw [h2]; exact ⟨_, _, rfl⟩

theorem find_key_isSome {β : Type} (l : List (String × β)) (k : String) :
    (l.find? (fun p => p.1 == k)).isSome = true ↔ k ∈ l.map (·.1) := by
  rw [List.find?_isSome]
  simp

theorem dictGet_isSome {d : List (String × Nat)} {k : String} : (dictGet d k).isSome = true ↔ k ∈ d.map (·.1) := by
  unfold dictGet
  have := find_key_isSome d.reverse k
  rw [List.map_reverse, List.mem_reverse] at this
  rw [← this]
  cases d.reverse.find? (fun p => p.1 == k) <;> simp

theorem idGet_isSome {m : List (Nat × Nat)} {k : Nat} : (idGet m k).isSome = true ↔ k ∈ m.map (·.1) := by
  unfold idGet
  have : (m.reverse.find? (fun p => p.1 == k)).isSome = true ↔ k ∈ m.map (·.1) := by
    rw [List.find?_isSome]; simp
  rw [← this]
  cases m.reverse.find? (fun p => p.1 == k) <;> simp

theorem map_fst_zip_of_length {α β : Type} : ∀ (a : List α) (b : List β), a.length = b.length → (a.zip b).map (·.1) = a
  | [], _, _ => by simp
  | _ :: _, [], h => by simp at h
  | x :: a, y :: b, h => by simp [map_fst_zip_of_length a b (by simpa using h)]

structure ObjOK (o : Obj) : Prop where
  aligns : ∀ s ∈ o.sections, s.alignment ≠ 0
  syms : ∀ s ∈ o.symbols, s.value = none ∨ ∃ n, s.sect = some n ∧ n ∈ o.sections.map (·.name)
  relocs : ∀ r ∈ o.relocs, r.sect ∈ o.sections.map (·.name) ∧ r.symbolId ∈ o.symbols.map (·.id)
  entry : ∀ e, o.entry = some e → e ∈ o.symbols.map (·.id)

theorem objWF_ok {o : Obj} (h : Spec.Link.objWF o = true) : ObjOK o := by
  unfold Spec.Link.objWF at h
  simp only [Bool.and_eq_true, List.all_eq_true] at h
  obtain ⟨⟨⟨h1, h2⟩, h3⟩, h4⟩ := h
  refine ⟨fun s hs => by simpa using h1 s hs, fun s hs => ?_, fun r hr => ?_, fun e he => ?_⟩
  · have := h2 s hs
    cases hv : s.value with
    | none => exact Or.inl rfl
    | some v =>
      right
      rw [hv] at this
      cases hn : s.sect with
      | none => rw [hn] at this; simp at this
      | some n =>
        rw [hn] at this
        simp at this
        obtain ⟨t, ht, e⟩ := this
        exact ⟨n, rfl, List.mem_map.2 ⟨t, ht, e⟩⟩
  · have := h3 r hr
    simp at this
    obtain ⟨⟨t, ht, e⟩, ⟨y, hy, e2⟩⟩ := this
    exact ⟨List.mem_map.2 ⟨t, ht, e⟩, List.mem_map.2 ⟨y, hy, e2⟩⟩
  · rw [he] at h4
    simp at h4
    obtain ⟨y, hy, e2⟩ := h4
    exact List.mem_map.2 ⟨y, hy, e2⟩

theorem injectRelocs_run {offs : List (String × Nat)} {idmap : List (Nat × Nat)} : ∀ {rels : List Reloc},
    (∀ r ∈ rels, r.sect ∈ offs.map (·.1) ∧ r.symbolId ∈ idmap.map (·.1)) →
    ∃ out, injectRelocs offs idmap rels = .ok out
  | [], _ => ⟨[], rfl⟩
  | r :: rest, h => by
    unfold injectRelocs injectReloc
    have hr := h r (by simp)
    cases hd : dictGet offs r.sect with
    | none =>
      have := dictGet_isSome.2 hr.1; rw [hd] at this; cases this
    | some o =>
      cases hi : idGet idmap r.symbolId with
      | none => have := idGet_isSome.2 hr.2; rw [hi] at this; cases this
      | some sid =>
        obtain ⟨out, ho⟩ := injectRelocs_run (rels := rest) (fun x hx => h x (by simp [hx]))
        simp only [ho]; exact ⟨_, rfl⟩

open Spec.Link (objDefs objGlobals)

theorem objDefs_eq (o : Obj) : objDefs o = symDefs o.symbols := rfl
theorem objGlobals_eq (o : Obj) : objGlobals o = symGlobals o.symbols := rfl

theorem injectObject_run {dst o : Obj} {G D : List String} (t : Tab dst.symbols G D) (wf : ObjOK o)
    (hentry : dst.entry = none ∨ o.entry = none) :
    (¬ Fresh D (objDefs o) → injectObject dst o = .error .CompilerError) ∧
    (Fresh D (objDefs o) → ∃ dst' tr, injectObject dst o = .ok (dst', tr) ∧
      Tab dst'.symbols (G ++ objGlobals o) (D ++ objDefs o) ∧
      dst'.entry.isSome = (dst.entry.isSome || o.entry.isSome)) := by
  obtain ⟨secs, offs, h1⟩ := injectSections_run (secs := dst.sections) wf.aligns
  have hnames := injectSections_names h1
  have hshift : ∀ s ∈ o.symbols, Shiftable offs s := by
    intro s hs
    rcases wf.syms s hs with h | ⟨n, hn, hm⟩
    · exact Or.inl h
    · exact Or.inr ⟨n, hn, dictGet_isSome.2 (hnames ▸ hm)⟩
  have ⟨r1, r2⟩ := injectSymbols_run (offs := offs) t hshift
  unfold injectObject
  rw [h1]
  simp only
  constructor
  · intro hnf
    rw [r1 hnf]
  · intro hf
    obtain ⟨syms, ids, h2, t2⟩ := r2 hf
    rw [h2]
    simp only
    have hlen := injectSymbols_length h2
    have hmap : ((o.symbols.map (·.id)).zip ids).map (·.1) = o.symbols.map (·.id) :=
      map_fst_zip_of_length _ _ (by simp [hlen])
    obtain ⟨rels, h3⟩ := injectRelocs_run (offs := offs) (idmap := (o.symbols.map (·.id)).zip ids) (rels := o.relocs)
      (fun r hr => ⟨by rw [hnames]; exact (wf.relocs r hr).1, by rw [hmap]; exact (wf.relocs r hr).2⟩)
    rw [h3]
    simp only
    have h4 : ∃ en, mergeEntry dst.entry ((o.symbols.map (·.id)).zip ids) o.entry = .ok en ∧
        en.isSome = (dst.entry.isSome || o.entry.isSome) := by
      unfold mergeEntry
      cases he : o.entry with
      | none => exact ⟨dst.entry, rfl, by simp⟩
      | some e =>
        rcases hentry with hd | hd
        · rw [hd]
          cases hi : idGet ((o.symbols.map (·.id)).zip ids) e with
          | none =>
            have := idGet_isSome.2 (show e ∈ ((o.symbols.map (·.id)).zip ids).map (·.1) by rw [hmap]; exact wf.entry e he)
            rw [hi] at this; cases this
          | some i => exact ⟨some i, by simp only [hi], by simp⟩
        · rw [he] at hd; cases hd
    obtain ⟨en, h4, hen⟩ := h4
    rw [h4]
    exact ⟨_, _, rfl, t2, hen⟩

theorem mergeObjects_run : ∀ {objs : List Obj} {dst : Obj} {G D : List String}, Tab dst.symbols G D →
    (∀ o ∈ objs, ObjOK o) →
    ((if dst.entry.isSome then 1 else 0) + (objs.filter (fun o => o.entry.isSome)).length ≤ 1) →
    (¬ Fresh D (objs.flatMap objDefs) → mergeObjects dst objs = .error .CompilerError) ∧
    (Fresh D (objs.flatMap objDefs) → ∃ dst' tr, mergeObjects dst objs = .ok (dst', tr) ∧
      Tab dst'.symbols (G ++ objs.flatMap objGlobals) (D ++ objs.flatMap objDefs))
  | [], dst, G, D, t, _, _ => by
    refine ⟨fun h => absurd (show Fresh D [] from ⟨by simp, by simp⟩) (by simpa using h), fun _ => ?_⟩
    exact ⟨dst, [], rfl, t.congr (by simp) (by simp)⟩
  | o :: rest, dst, G, D, t, wf, hen => by
    have hfilter : ((o :: rest).filter (fun o => o.entry.isSome)).length =
        (if o.entry.isSome then 1 else 0) + (rest.filter (fun o => o.entry.isSome)).length := by
      rw [List.filter_cons]; split <;> simp <;> omega
    rw [hfilter] at hen
    have hentry : dst.entry = none ∨ o.entry = none := by
      cases hd : dst.entry with
      | none => exact Or.inl rfl
      | some _ =>
        cases ho : o.entry with
        | none => exact Or.inr rfl
        | some _ => exfalso; simp [hd, ho] at hen; omega
    have ⟨r1, r2⟩ := injectObject_run t (wf o (by simp)) hentry
    simp only [List.flatMap_cons]
    unfold mergeObjects
    by_cases hf1 : Fresh D (objDefs o)
    · obtain ⟨dst1, t1, h1, tab1, hen1⟩ := r2 hf1
      rw [h1]
      simp only
      have hen' : (if dst1.entry.isSome then 1 else 0) + (rest.filter (fun o => o.entry.isSome)).length ≤ 1 := by
        rw [hen1]
        cases hd : dst.entry.isSome <;> cases ho : o.entry.isSome <;> simp [hd, ho] at hen ⊢ <;> omega
      have ⟨q1, q2⟩ := mergeObjects_run (objs := rest) tab1 (fun x hx => wf x (by simp [hx])) hen'
      constructor
      · intro hnf
        have : ¬ Fresh (D ++ objDefs o) (rest.flatMap objDefs) := fun hf => hnf (fresh_cons_iff.2 ⟨hf1, hf⟩)
        rw [q1 this]
      · intro hf
        obtain ⟨dst2, ts, h2, tab2⟩ := q2 (fresh_cons_iff.1 hf).2
        rw [h2]
        exact ⟨dst2, t1 :: ts, rfl, tab2.congr (by simp [List.append_assoc]) (by simp [List.append_assoc])⟩
    · rw [r1 hf1]
      exact ⟨fun _ => rfl, fun hf => absurd (fresh_cons_iff.1 hf).1 hf1⟩

/-! ### entry symbol and extra symbols -/

theorem initEntry_run (e : Option String) :
    ∃ d0, initEntry e = .ok d0 ∧ Tab d0.symbols e.toList [] ∧ d0.entry.isSome = e.isSome ∧ d0.sections = [] := by
  cases e with
  | none => exact ⟨{}, rfl, Tab.nil, rfl, rfl⟩
  | some n =>
    have ⟨_, r2⟩ := injectSymbol_global_run Tab.nil n none none "object" 0
    obtain ⟨syms, id, h1, t⟩ := r2 (by simp)
    refine ⟨{ symbols := syms, entry := some id }, ?_, t.congr (by simp) (by simp [addIf]), rfl, rfl⟩
    simp [initEntry, h1]

theorem addExtras_run : ∀ {xs : List (String × Nat)} {d : Obj} {G D : List String}, Tab d.symbols G D →
    (¬ Fresh G (xs.map (·.1)) → addExtras d xs = .error .CompilerError) ∧
    (Fresh G (xs.map (·.1)) → ∃ d', addExtras d xs = .ok d' ∧
      Tab d'.symbols (G ++ xs.map (·.1)) (D ++ xs.map (·.1)) ∧ d'.entry = d.entry ∧ d'.sections = d.sections)
  | [], d, G, D, t => by
    refine ⟨fun h => absurd (show Fresh G [] from ⟨by simp, by simp⟩) (by simpa using h), fun _ => ?_⟩
    exact ⟨d, rfl, t.congr (by simp) (by simp), rfl, rfl⟩
  | (n, v) :: rest, d, G, D, t => by
    have ⟨r1, r2⟩ := injectSymbol_global_run t n none (some v) "object" 0
    have hsplit : ((n, v) :: rest).map (·.1) = [n] ++ rest.map (·.1) := rfl
    rw [hsplit]
    have hf1 : Fresh G [n] ↔ n ∉ G := by simp [Fresh]
    unfold addExtras
    by_cases hn : n ∈ G
    · rw [r1 hn]
      exact ⟨fun _ => rfl, fun hf => absurd hn (hf1.1 (fresh_cons_iff.1 hf).1)⟩
    · obtain ⟨syms, id, h1, t1⟩ := r2 hn
      rw [h1]
      simp only
      have t1' : Tab ({ d with symbols := syms } : Obj).symbols (G ++ [n]) (D ++ [n]) :=
        t1.congr (fun _ => Iff.rfl) (by simp [addIf])
      have ⟨q1, q2⟩ := addExtras_run (xs := rest) t1'
      constructor
      · intro hnf
        exact q1 (fun hf => hnf (fresh_cons_iff.2 ⟨hf1.2 hn, hf⟩))
      · intro hf
        obtain ⟨d', h2, t2, e1, e2⟩ := q2 (fresh_cons_iff.1 hf).2
        exact ⟨d', h2, t2.congr (by simp [List.append_assoc]) (by simp [List.append_assoc]), e1, e2⟩

/-! ### `check_undefined_symbols` -/

theorem hasUndefined_iff {syms : List Symbol} (hu : (gnames syms).Nodup) :
    hasUndefined syms = true ↔ ∃ n ∈ gnames syms, n ∉ gdefs syms := by
  unfold hasUndefined
  rw [List.any_eq_true]
  constructor
  · rintro ⟨s, hs, hc⟩
    simp at hc
    refine ⟨s.name, mem_gnames.2 ⟨s, hs, hc.2, rfl⟩, fun hd => ?_⟩
    obtain ⟨s', hs', hg', hv', hn'⟩ := mem_gdefs.1 hd
    have := global_unique hu s' hs' s hs hg' hc.2 hn'
    rw [this, hc.1] at hv'; cases hv'
  · rintro ⟨n, hn, hd⟩
    obtain ⟨s, hs, hg, hname⟩ := mem_gnames.1 hn
    refine ⟨s, hs, ?_⟩
    cases hv : s.value with
    | none => simp [hg]
    | some v => exact absurd (mem_gdefs.2 ⟨s, hs, hg, by rw [hv]; rfl, hname⟩) hd

end Proofs.Linker
