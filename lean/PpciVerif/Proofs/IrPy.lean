import PpciVerif.Model.IrPy
import PpciVerif.Proofs.IRArith
import PpciVerif.Proofs.PyInt
import PpciVerif.Proofs.Bits
/-!
Lemmas for C24: the emitted runtime helpers of ir2py compute the IR arithmetic of `Spec.IRArith`.
-/
namespace Proofs.IrPy
open Model.IrPy Spec.IRArith Proofs.IRArith

/-! ### `correct` = `wrap` -/

theorem correct_eq (bits : Nat) (hb : 1 ≤ bits) (signed : Bool) (x : Int) :
    correct x bits signed =
      if signed = true ∧ 2 ^ (bits - 1) ≤ x % 2 ^ bits then x % 2 ^ bits - 2 ^ bits else x % 2 ^ bits := by
  have hv : Spec.Bits.fitsU bits (x % 2 ^ bits) := Proofs.Bits.fitsU_wrapU bits x
  have key := Proofs.PyInt.bitLength_eq_iff hb hv
  simp only [correct, Bool.and_eq_true, beq_iff_eq, key]

theorem correct_eq_wrap (t : Ty) (x : Int) : correct x t.bits t.signed = wrap t x := by
  cases t <;> rw [correct_eq _ (by decide)] <;> simp [wrap, Ty.signed, Ty.bits] <;> omega

/-! ### `idiv`, `irem` truncate toward zero -/

theorem idiv_eq_tdiv (x y : Int) (hy : y ≠ 0) : idiv x y = .ok (Int.tdiv x y) := by
  unfold idiv
  by_cases hx : x < 0 <;> by_cases hy' : y < 0 <;> simp only [hx, hy', if_true, if_false]
  · have h0 : ¬ (-y = 0) := by omega
    simp only [h0, if_false, Bool.not_false, Bool.not_true]
    have h1 := Int.neg_tdiv (-x) y; rw [Int.neg_neg] at h1
    have h2 := Int.tdiv_neg (-x) (-y); rw [Int.neg_neg] at h2
    rw [h1, h2, Int.neg_neg, Int.tdiv_eq_ediv_of_nonneg (by omega), Int.fdiv_eq_ediv_of_nonneg _ (by omega)]
    rfl
  · simp only [hy, if_false, Bool.not_false]
    have h1 := Int.neg_tdiv (-x) y; rw [Int.neg_neg] at h1
    rw [h1, Int.tdiv_eq_ediv_of_nonneg (by omega), Int.fdiv_eq_ediv_of_nonneg _ (by omega)]
    rfl
  · have h0 : ¬ (-y = 0) := by omega
    simp only [h0, if_false, Bool.not_false]
    have h2 := Int.tdiv_neg x (-y); rw [Int.neg_neg] at h2
    rw [h2, Int.tdiv_eq_ediv_of_nonneg (by omega), Int.fdiv_eq_ediv_of_nonneg _ (by omega)]
    rfl
  · simp only [hy, if_false]
    rw [Int.tdiv_eq_ediv_of_nonneg (by omega), Int.fdiv_eq_ediv_of_nonneg _ (by omega)]
    rfl

theorem idiv_zero (x : Int) : idiv x 0 = .error .ZeroDivisionError := by
  unfold idiv; by_cases hx : x < 0 <;> simp [hx]

theorem irem_eq_tmod (x y : Int) (hy : y ≠ 0) : irem x y = .ok (Int.tmod x y) := by
  unfold irem
  rw [tmod_eq_abs]
  by_cases hx : x < 0 <;> by_cases hy' : y < 0 <;> simp only [hx, hy', if_true, if_false]
  · have h0 : ¬ (-y = 0) := by omega
    simp only [h0, if_false]; rw [Int.fmod_eq_emod_of_nonneg _ (by omega)]
  · simp only [hy, if_false]; rw [Int.fmod_eq_emod_of_nonneg _ (by omega)]
  · have h0 : ¬ (-y = 0) := by omega
    simp only [h0, if_false]; rw [Int.fmod_eq_emod_of_nonneg _ (by omega)]; rfl
  · simp only [hy, if_false]; rw [Int.fmod_eq_emod_of_nonneg _ (by omega)]; rfl

theorem irem_zero (x : Int) : irem x 0 = .error .ZeroDivisionError := by
  unfold irem; by_cases hx : x < 0 <;> simp [hx]

/-! ### bit operators -/

theorem wrap_congr (t : Ty) (x y : Int) (h : x % 2 ^ t.bits = y % 2 ^ t.bits) : wrap t x = wrap t y := by
  cases t <;> simp [wrap, Ty.signed, Ty.bits] at h ⊢ <;> omega

open Spec.Bits in
/-- bit `i < bits` of the bit pattern `toBits t a` is bit `i` of `a` -/
theorem testBit_toBits (t : Ty) (a : Int) (i : Nat) (hi : i < t.bits) :
    (toBits t a).testBit i = Spec.Bits.testBit a i := by
  have hnn : 0 ≤ a % 2 ^ t.bits := Int.emod_nonneg _ (Proofs.Bits.pow_ne _)
  have h1 : ((toBits t a : Nat) : Int) = wrapU t.bits a := by
    unfold toBits wrapU; exact Int.toNat_of_nonneg hnn
  rw [← Proofs.Bits.testBit_natCast, h1, Proofs.Bits.testBit_wrapU]; simp [hi]

/-- a Python bit operator followed by `wrap` is the bit operator on the two's-complement patterns -/
theorem bitop_wrap (t : Ty) (a b : Int) (f : Int → Int → Int) (g : Nat → Nat → Nat) (bf : Bool → Bool → Bool)
    (hf : ∀ x y i, Spec.Bits.testBit (f x y) i = bf (Spec.Bits.testBit x i) (Spec.Bits.testBit y i))
    (hg : ∀ x y i, (g x y).testBit i = bf (x.testBit i) (y.testBit i)) :
    wrap t (f a b) = ofBits t (g (toBits t a) (toBits t b)) := by
  unfold ofBits
  apply wrap_congr
  have := @Proofs.Bits.wrapU_eq_of_testBit_eq t.bits (f a b) (Int.ofNat (g (toBits t a) (toBits t b))) (by
    intro i hi
    rw [hf]
    show _ = Spec.Bits.testBit ((g (toBits t a) (toBits t b) : Nat) : Int) i
    rw [Proofs.Bits.testBit_natCast, hg, testBit_toBits t a i hi, testBit_toBits t b i hi])
  exact this

/-! ### every integer binop -/

theorem pyModNat_of_shiftOk (t : Ty) (b : Int) (h : shiftOk t b) : pyModNat b t.bits = .ok b := by
  have hb : t.bits ≠ 0 := by cases t <;> decide
  unfold shiftOk at h
  simp only [pyModNat, hb, if_false]
  rw [Int.emod_eq_of_lt h.1 h.2]

/-- **emitted code = IR semantics** for every integer type, every arithmetic operator and all
    in-range operands for which the IR operation is defined. -/
theorem binop_exact (t : Ty) (op : Spec.IR.BinOp) (o : Op) (ho : op.arith? = some o) (a b v : Int)
    (ha : InRange t a) (hb : InRange t b) (h : binop t o a b = some v) :
    (binopPlan (.int t) op).exec a b = .ok v := by
  have hv : InRange t v := binop_inRange t o a b v ha hb h
  cases op <;> simp [Spec.IR.BinOp.arith?] at ho <;> subst ho <;>
    simp only [binop] at h
  case add =>
    replace h := Option.some.inj h
    simp [binopPlan, Spec.IR.BinOp.symbol, Plan.exec, pyInfix, applyCorr, corrOf, correct_eq_wrap, h]
  case sub =>
    replace h := Option.some.inj h
    simp [binopPlan, Spec.IR.BinOp.symbol, Plan.exec, pyInfix, applyCorr, corrOf, correct_eq_wrap, h]
  case mul =>
    replace h := Option.some.inj h
    simp [binopPlan, Spec.IR.BinOp.symbol, Plan.exec, pyInfix, applyCorr, corrOf, correct_eq_wrap, h]
  case div =>
    split at h
    · simp at h
    · rename_i hd
      replace h := Option.some.inj h
      have hb0 : b ≠ 0 := fun h0 => hd (Or.inl h0)
      simp [binopPlan, Spec.IR.BinOp.symbol, Plan.exec, applyCorr, corrOf, idiv_eq_tdiv a b hb0, correct_eq_wrap]
      rw [h]; exact wrap_of_inRange t v hv
  case rem =>
    split at h
    · simp at h
    · rename_i hd
      replace h := Option.some.inj h
      have hb0 : b ≠ 0 := fun h0 => hd (Or.inl h0)
      simp [binopPlan, Spec.IR.BinOp.symbol, Plan.exec, applyCorr, corrOf, irem_eq_tmod a b hb0, correct_eq_wrap]
      rw [h]; exact wrap_of_inRange t v hv
  case shl =>
    split at h
    · rename_i hs
      replace h := Option.some.inj h
      simp [binopPlan, Spec.IR.BinOp.symbol, Plan.exec, applyCorr, corrOf, ishl, pyModNat_of_shiftOk t b hs,
        correct_eq_wrap, h]
    · simp at h
  case shr =>
    split at h
    · rename_i hs
      replace h := Option.some.inj h
      simp [binopPlan, Spec.IR.BinOp.symbol, Plan.exec, applyCorr, corrOf, ishr, pyModNat_of_shiftOk t b hs,
        correct_eq_wrap]
      have hr := ediv_pow_inRange t a b.toNat ha
      rw [wrap_of_inRange t _ hr]
      split at h
      · exact h
      · rename_i hsg
        have ha0 : 0 ≤ a := by
          cases t <;> simp [Ty.signed] at hsg <;> simp [InRange, Ty.minVal, Ty.signed] at ha <;> omega
        rw [← h, shiftRight_logical a _ ha0]
    · simp at h
  case or =>
    replace h := Option.some.inj h
    simp [binopPlan, Spec.IR.BinOp.symbol, Plan.exec, pyInfix, applyCorr, corrOf, correct_eq_wrap]
    rw [← h]
    exact bitop_wrap t a b _ (· ||| ·) (· || ·) Proofs.PyInt.testBit_or (fun x y i => Nat.testBit_or x y i)
  case and =>
    replace h := Option.some.inj h
    simp [binopPlan, Spec.IR.BinOp.symbol, Plan.exec, pyInfix, applyCorr, corrOf, correct_eq_wrap]
    rw [← h]
    exact bitop_wrap t a b _ (· &&& ·) (· && ·) Proofs.PyInt.testBit_and (fun x y i => Nat.testBit_and x y i)
  case xor =>
    replace h := Option.some.inj h
    simp [binopPlan, Spec.IR.BinOp.symbol, Plan.exec, pyInfix, applyCorr, corrOf, correct_eq_wrap]
    rw [← h]
    exact bitop_wrap t a b _ (· ^^^ ·) (· ^^ ·) Proofs.PyInt.testBit_xor (fun x y i => Nat.testBit_xor x y i)

/-! ### unary operators and casts -/

theorem unop_exact (t : Ty) (op : Spec.IR.UnOp) (a : Int) (cfg : Spec.IR.Config) :
    Spec.IR.evalUnop cfg (.int t) op (.int a) = .ok (.int (unopExec (.int t) op a)) := by
  cases op <;> simp [Spec.IR.evalUnop, unopExec, applyCorr, corrOf, correct_eq_wrap, Model.PyInt.not]

theorem cast_int_exact (t : Ty) (x : Int) :
    castExec (castPlan (.int t)) (.int x) = .ok (Spec.IRArith.cast t x) := by
  simp [castExec, castPlan, pyInt, correct_eq_wrap, Spec.IRArith.cast]

/-- `int(x)` of the float `m·2^e` is the integer part toward zero: the unique `z` with
    `z·2^k ≤ m < (z+1)·2^k` for `m ≥ 0` and `(z-1)·2^k < m ≤ z·2^k` for `m < 0` (where `e = -k < 0`);
    for `e ≥ 0` the float is the integer `m·2^e` itself. -/
theorem pyInt_trunc_neg_exp (m : Int) (k : Nat) (hk : 0 < k) :
    let z := pyInt (.flt m (-(k : Int)))
    (0 ≤ m → z * 2 ^ k ≤ m ∧ m < (z + 1) * 2 ^ k) ∧ (m < 0 → (z - 1) * 2 ^ k < m ∧ m ≤ z * 2 ^ k) := by
  have hd : (0 : Int) < 2 ^ k := Int.pow_pos (by decide)
  have hneg : ¬ (0 : Int) ≤ -(k : Int) := by omega
  simp only [pyInt, hneg, if_false, Int.neg_neg, Int.toNat_natCast]
  refine ⟨fun hm => ?_, fun hm => ?_⟩
  · rw [Int.tdiv_eq_ediv_of_nonneg hm]
    exact ⟨Int.ediv_mul_le m (Int.ne_of_gt hd), Int.lt_ediv_add_one_mul_self m hd⟩
  · have h1 := Int.neg_tdiv (-m) (2 ^ k); rw [Int.neg_neg] at h1
    rw [h1, Int.tdiv_eq_ediv_of_nonneg (by omega)]
    have a := Int.ediv_mul_le (-m) (Int.ne_of_gt hd)
    have b := Int.lt_ediv_add_one_mul_self (-m) hd
    generalize (-m) / 2 ^ k = q at a b ⊢
    constructor
    · have : (-q - 1) * 2 ^ k = -((q + 1) * 2 ^ k) := by
        rw [show -q - 1 = -(q + 1) by omega, Int.neg_mul]
      omega
    · have : -q * 2 ^ k = -(q * 2 ^ k) := Int.neg_mul _ _
      omega

theorem pyInt_nonneg_exp (m : Int) (e : Nat) : pyInt (.flt m (e : Int)) = m * 2 ^ e := by
  simp [pyInt]

/-- float → integer cast of the emitted code: truncate toward zero, then wrap -/
theorem cast_float_exact (t : Ty) (m e : Int) :
    castExec (castPlan (.int t)) (.flt m e) = .ok (wrap t (pyInt (.flt m e))) := by
  simp [castExec, castPlan, correct_eq_wrap]

/-- the IEEE-754 binary64 value of a bit pattern as `m · 2^e` (`none` for inf / NaN) -/
def doubleValue (bits : Nat) : Option (Int × Int) :=
  let neg : Prop := bits / 2 ^ 63 = 1
  let ef : Nat := bits / 2 ^ 52 % 2048
  let fr : Nat := bits % 2 ^ 52
  if ef = 2047 then none else
  let mag : Int := if ef = 0 then (fr : Int) else ((fr + 2 ^ 52 : Nat) : Int)
  let e : Int := if ef = 0 then -1074 else (ef : Int) - 1075
  some (if neg then -mag else mag, e)

/-- `Spec.IR`'s bit-level float→int truncation is `int()` of the exact value of the double -/
theorem truncBits_eq_pyInt (bits : Nat) :
    Spec.IR.truncBits bits = (doubleValue bits).map (fun p => pyInt (.flt p.1 p.2)) := by
  unfold Spec.IR.truncBits doubleValue
  generalize bits / 2 ^ 52 % 2048 = ef
  generalize hfr : bits % 2 ^ 52 = fr
  generalize bits / 2 ^ 63 = sg
  have hfr' : fr < 2 ^ 52 := by rw [← hfr]; exact Nat.mod_lt _ (by decide)
  by_cases h1 : ef = 2047
  · simp [h1]
  · simp only [h1, if_false, Option.map_some]
    congr 1
    by_cases h0 : ef = 0
    · -- subnormal: |value| < 2^52 · 2^-1074 < 1
      have hlt : (fr : Int) < 2 ^ 1074 := by
        have h52 : (fr : Int) < 2 ^ 52 := by exact_mod_cast hfr'
        have : (2 : Int) ^ 52 ≤ 2 ^ 1074 := Proofs.Bits.pow_le_pow (by decide)
        omega
      have hz : Int.tdiv (fr : Int) (2 ^ 1074) = 0 := Int.tdiv_eq_zero_of_lt (by omega) hlt
      have hz' : Int.tdiv (-(fr : Int)) (2 ^ 1074) = 0 := by rw [Int.neg_tdiv, hz]; rfl
      have hne : ¬ (0 : Int) ≤ -1074 := by decide
      have ht : (-(-1074 : Int)).toNat = 1074 := by decide
      by_cases hn : sg = 1
      · simp only [h0, hn, if_true, pyInt, hne, if_false, ht, hz']; rfl
      · simp only [h0, hn, if_true, if_false, pyInt, hne, ht, hz]; rfl
    · by_cases hge : ef ≥ 1075
      · have he : (0 : Int) ≤ (ef : Int) - 1075 := by omega
        have ht : ((ef : Int) - 1075).toNat = ef - 1075 := by omega
        by_cases hn : sg = 1
        · simp only [h0, hn, hge, if_true, if_false, pyInt, he, ht]
          push_cast; ring
        · simp only [h0, hn, hge, if_true, if_false, pyInt, he, ht]
          push_cast; ring
      · have he : ¬ (0 : Int) ≤ (ef : Int) - 1075 := by omega
        have ht : (-((ef : Int) - 1075)).toNat = 1075 - ef := by omega
        have hdiv : Int.tdiv ((fr + 2 ^ 52 : Nat) : Int) (2 ^ (1075 - ef)) = (((fr + 2 ^ 52) / 2 ^ (1075 - ef) : Nat) : Int) := by
          rw [Int.tdiv_eq_ediv_of_nonneg (by omega)]; push_cast; rfl
        by_cases hn : sg = 1
        · simp only [h0, hn, hge, if_false, if_true, pyInt, he, ht]
          rw [Int.neg_tdiv, hdiv]
        · simp only [h0, hn, hge, if_false, pyInt, he, ht]
          rw [hdiv]

/-! ### phi filling -/

open Spec.IR in
/-- the names `fill_phis` writes for local inputs -/
def locName : Operand → String
  | .loc n => n
  | .glob n => n

open Spec.IR in
/-- all phi inputs of `is` for predecessor `p` are local values -/
def phiInputsLocal (p : String) : List Instr → Bool
  | [] => true
  | .phi _ _ ins :: r =>
    (match lookupStr ins p with | some (.loc _) => true | some (.glob _) => false | none => true) && phiInputsLocal p r
  | _ :: r => phiInputsLocal p r

open Spec.IR in
/-- Whenever Spec.IR's block-entry phi step is defined, the emitted tuple assignment reads exactly the
    same values (in the old environment) and binds the same names: **parallel assignment**. -/
theorem phi_values_agree (ctx : Ctx) (env : Env) (p : String) (is : List Instr)
    (hloc : phiInputsLocal p is = true) (vals : List (String × Val))
    (h : phiValues ctx env p is = .ok vals) :
    ∃ pairs, phiPairs locName p is = .ok pairs ∧ pairs.map (·.1) = vals.map (·.1) ∧
      (pairs.map (·.2)).mapM env.get = some (vals.map (·.2)) := by
  induction is generalizing vals with
  | nil =>
    simp [phiValues] at h; subst h
    exact ⟨[], by simp [phiPairs], rfl, by simp⟩
  | cons i r ih =>
    cases i
    case phi d ty ins =>
      simp only [phiValues] at h
      simp only [phiInputsLocal, Bool.and_eq_true] at hloc
      cases hl : lookupStr ins p with
      | none => simp [hl] at h
      | some o =>
        simp only [hl] at h hloc
        cases o with
        | glob g => simp at hloc
        | loc x =>
          cases hx : env.get x with
          | none => simp [evalOpnd, hx, bind, Except.bind] at h
          | some v =>
            cases hr : phiValues ctx env p r with
            | error e => simp [evalOpnd, hx, hr, bind, Except.bind] at h
            | ok vs =>
              simp [evalOpnd, hx, hr, bind, Except.bind, pure, Except.pure] at h
              subst h
              obtain ⟨pairs, hp, hd, hv⟩ := ih hloc.2 vs hr
              refine ⟨(d, x) :: pairs, ?_, ?_, ?_⟩
              · simp [phiPairs, hl, hp, locName, bind, Except.bind, pure, Except.pure]
              · simp [hd]
              · simp [List.mapM_cons, hx, hv]
    all_goals
      simp only [phiValues] at h
      simp only [phiInputsLocal] at hloc
      obtain ⟨pairs, hp, hd, hv⟩ := ih hloc vals h
      exact ⟨pairs, by simp [phiPairs, hp], hd, hv⟩

open Spec.IR in
/-- **Phi filling = parallel assignment**: the Python tuple assignment emitted for the edge `p → target`
    produces exactly the environment of Spec.IR's block entry (`Env.setMany` of values read before any write). -/
theorem phi_fill_parallel (ctx : Ctx) (env : Env) (p : String) (is : List Instr)
    (hloc : phiInputsLocal p is = true) (vals : List (String × Val))
    (h : phiValues ctx env p is = .ok vals) :
    ∃ pairs, phiPairs locName p is = .ok pairs ∧
      tupleAssign env (pairs.map (·.1)) (pairs.map (·.2)) = some (env.setMany vals) := by
  obtain ⟨pairs, hp, hd, hv⟩ := phi_values_agree ctx env p is hloc vals h
  refine ⟨pairs, hp, ?_⟩
  simp only [tupleAssign, hv, hd]
  simp only [bind, Option.bind, pure]
  congr 2
  exact List.zip_map_fst_snd' vals
where
  /-- `zip (map fst l) (map snd l) = l` -/
  List.zip_map_fst_snd' {α β} : ∀ l : List (α × β), (l.map (·.1)).zip (l.map (·.2)) = l
    | [] => rfl
    | (a, b) :: r => by simp [List.zip_map_fst_snd' r]

/-! ### struct formats: store then load is the identity -/

theorem fromBytesLE_toBytesLE (k n : Nat) : Spec.IR.fromBytesLE (Spec.IR.toBytesLE k n) = n % 256 ^ k := by
  induction k generalizing n with
  | zero => simp [Spec.IR.toBytesLE, Spec.IR.fromBytesLE, Nat.mod_one]
  | succ k ih =>
    simp only [Spec.IR.toBytesLE, Spec.IR.fromBytesLE, ih]
    rw [Nat.pow_succ, Nat.mul_comm (256 ^ k) 256, Nat.mod_mul]

/-- for every integer type: `load_T(store_T(v)) = v` for every value of the type
    (format size = bits/8, signed = the type's signedness) -/
theorem struct_roundtrip (t : Ty) (v : Int) (hv : InRange t v) :
    (structPack (t.bits / 8) t.signed v).map (structUnpack (t.bits / 8) t.signed) = some v := by
  cases t <;> simp [InRange, Ty.minVal, Ty.maxVal, Ty.signed, Ty.bits] at hv <;>
    simp [structPack, structUnpack, Ty.signed, Ty.bits, hv, fromBytesLE_toBytesLE] <;> omega

end Proofs.IrPy
