import PpciVerif.Gen.Py_leb128
import PpciVerif.Model.Leb128
import PpciVerif.Proofs.T1_PyRt
import PpciVerif.Proofs.T1_PyMask
/-!
T1 translation tie for `ppci/utils/leb128.py`: the definitions REGENERATED from the
source on every run (`Gen.Py_leb128`) equal the hand model `Model.Leb128` that the
property theorems of C20 are about, for every input and every `fuel` above an explicit
bound — in particular `FuelExhausted` is never returned (the loops terminate).

Proof style: unfold one loop iteration, normalise `& >> |` with literal masks to `% /`
(`simp` set below), decide the branch conditions with `omega`.  Local names and the
spelling of masks (`& 0x7F` / `% 128`) do not matter to these scripts.
-/
namespace Proofs.T1.Leb128
open Model Model.PyRt Model.Leb128 Gen.Py_leb128 Proofs.T1

def errOf : Model.Leb128.Err → PyErr
  | .ValueError => .ValueError | .StopIteration => .StopIteration | .TypeError => .TypeError

/-- bytes as the translated code sees them -/
def ints (l : List Nat) : List Int := l.map Int.ofNat

@[simp] theorem ints_nil : ints [] = [] := rfl
@[simp] theorem ints_cons (a : Nat) (l : List Nat) : ints (a :: l) = (a : Int) :: ints l := rfl

theorem mkBytes_ints (l : List Nat) (h : ∀ b ∈ l, b < 256) : PyRt.mkBytes (ints l) = .ok (ints l) := by
  unfold PyRt.mkBytes
  rw [if_pos]
  simp only [List.all_eq_true, decide_eq_true_eq, ints, List.mem_map]
  rintro x ⟨b, hb, rfl⟩
  have := h b hb
  constructor
  · exact Int.natCast_nonneg _
  · show (b : Int) < 256
    omega

/-! ### signed encoder -/

theorem sencLoop_bytes (z : Int) : ∀ b ∈ sencLoop z, b < 256 := by
  fun_induction sencLoop z with
  | case1 value byte value' signBit h =>
    intro b hb; simp at hb; subst hb
    have h1 : value % 128 < 128 := Int.emod_lt_of_pos _ (by omega)
    simp only [byte]; omega
  | case2 value byte value' signBit h ih =>
    intro b hb; simp at hb
    rcases hb with hb | hb
    · subst hb
      have h1 : value % 128 < 128 := Int.emod_lt_of_pos _ (by omega)
      simp only [byte]; omega
    · exact ih b hb

theorem gen_senc_loop (value : Int) : ∀ (data : List Int) (fuel : Nat), value.natAbs + 1 ≤ fuel →
    ∃ v', signed_leb128_encode_loop1 fuel value data = .ok (v', data ++ ints (sencLoop value)) := by
  fun_induction sencLoop value with
  | case1 value byte value' signBit h =>
    intro data fuel hf
    obtain ⟨f, rfl⟩ : ∃ f, fuel = f + 1 := ⟨fuel - 1, by omega⟩
    have hb0 : 0 ≤ value % 128 := Int.emod_nonneg _ (by omega)
    have hb1 : value % 128 < 128 := Int.emod_lt_of_pos _ (by omega)
    simp only [byte, value', signBit, decide_eq_false_iff_not, decide_eq_true_eq] at h
    unfold signed_leb128_encode_loop1
    py_norm
    simp only [decide_eq_true_eq]
    rw [if_pos (by omega)]
    refine ⟨value / 128, ?_⟩
    simp only [ints, List.map, byte]
    rw [Int.ofNat_eq_natCast, Int.toNat_of_nonneg hb0]
  | case2 value byte value' signBit h ih =>
    intro data fuel hf
    obtain ⟨f, rfl⟩ : ∃ f, fuel = f + 1 := ⟨fuel - 1, by omega⟩
    have hb0 : 0 ≤ value % 128 := Int.emod_nonneg _ (by omega)
    have hb1 : value % 128 < 128 := Int.emod_lt_of_pos _ (by omega)
    simp only [byte, value', signBit, decide_eq_false_iff_not, decide_eq_true_eq] at h
    unfold signed_leb128_encode_loop1
    py_norm
    simp only [decide_eq_true_eq]
    rw [if_neg (by omega)]
    obtain ⟨v', hv⟩ := ih (data ++ [PyInt.or (value % 128) 128]) f (by simp only [value']; omega)
    refine ⟨v', ?_⟩
    simp only [value'] at hv
    rw [hv, or_128 hb0 hb1]
    simp only [ints, List.map, byte, List.append_assoc, List.singleton_append]
    have e : value % 128 + 128 = Int.ofNat ((value % 128).toNat + 128) := by
      rw [Int.ofNat_eq_natCast]; omega
    rw [e]

/-- the regenerated signed encoder is the hand model, for every fuel above `|value| + 1` -/
theorem gen_signed_encode_eq_model (value : Int) (fuel : Nat) (hf : value.natAbs + 1 ≤ fuel) :
    signed_leb128_encode fuel value = .ok (ints (signedEncode value)) := by
  obtain ⟨v', h⟩ := gen_senc_loop value [] fuel hf
  unfold signed_leb128_encode
  simp only [h, bind_ok, List.nil_append, signedEncode]
  rw [mkBytes_ints _ (sencLoop_bytes value)]; rfl

/-! ### unsigned encoder -/

theorem uencLoop_bytes (n : Nat) : ∀ b ∈ uencLoop n, b < 256 := by
  fun_induction uencLoop n with
  | case1 value byte value' h => intro b hb; simp at hb; subst hb; simp only [byte]; omega
  | case2 value byte value' h ih =>
    intro b hb; simp at hb
    rcases hb with hb | hb
    · subst hb; simp only [byte]; omega
    · exact ih b hb

theorem gen_uenc_loop (n : Nat) : ∀ (data : List Int) (fuel : Nat), n + 1 ≤ fuel →
    ∃ v', unsigned_leb128_encode_loop1 fuel (n : Int) data = .ok (v', data ++ ints (uencLoop n)) := by
  fun_induction uencLoop n with
  | case1 value byte value' h =>
    intro data fuel hf
    obtain ⟨f, rfl⟩ : ∃ f, fuel = f + 1 := ⟨fuel - 1, by omega⟩
    simp only [value'] at h
    unfold unsigned_leb128_encode_loop1
    py_norm
    rw [if_pos (by omega)]
    refine ⟨(value : Int) / 128, ?_⟩
    simp only [ints, List.map, byte, Int.ofNat_eq_natCast, Int.natCast_emod, Nat.cast_ofNat]
  | case2 value byte value' h ih =>
    intro data fuel hf
    obtain ⟨f, rfl⟩ : ∃ f, fuel = f + 1 := ⟨fuel - 1, by omega⟩
    simp only [value'] at h
    unfold unsigned_leb128_encode_loop1
    py_norm
    rw [if_neg (by omega)]
    have hb0 : 0 ≤ (value : Int) % 128 := Int.emod_nonneg _ (by omega)
    have hb1 : (value : Int) % 128 < 128 := Int.emod_lt_of_pos _ (by omega)
    have hv' : ((value / 128 : Nat) : Int) = (value : Int) / 128 := by omega
    obtain ⟨v', hv⟩ := ih (data ++ [PyInt.or ((value : Int) % 128) 128]) f (by simp only [value']; omega)
    refine ⟨v', ?_⟩
    simp only [value', hv'] at hv
    rw [hv, or_128 hb0 hb1]
    simp only [ints, List.map, byte, List.append_assoc, List.singleton_append]
    have e : (value : Int) % 128 + 128 = Int.ofNat (value % 128 + 128) := by
      rw [Int.ofNat_eq_natCast]; omega
    rw [e]

def liftBytes : Except Model.Leb128.Err (List Nat) → Except PyErr (List Int)
  | .ok l => .ok (ints l)
  | .error e => .error (errOf e)

/-- the regenerated unsigned encoder is the hand model (incl. the rejection of negatives),
    for every fuel above `|value| + 1` -/
theorem gen_unsigned_encode_eq_model (value : Int) (fuel : Nat) (hf : value.natAbs + 1 ≤ fuel) :
    unsigned_leb128_encode fuel value = liftBytes (unsignedEncode value) := by
  unfold unsigned_leb128_encode unsignedEncode
  by_cases hneg : value < 0
  · simp [hneg, liftBytes, errOf]
  · obtain ⟨n, rfl⟩ := Int.eq_ofNat_of_zero_le (Int.not_lt.1 hneg)
    obtain ⟨v', h⟩ := gen_uenc_loop n [] fuel (by omega)
    simp only [not_true_eq_false, if_false, hneg, h, bind_ok, List.nil_append, Int.toNat_natCast, liftBytes]
    rw [mkBytes_ints _ (uencLoop_bytes n)]; rfl

/-! ### decoders -/

theorem ints_length (l : List Nat) : (ints l).length = l.length := by simp [ints]

theorem and128_natCast (b : Nat) : (b : Int) / 128 % 2 * 128 = 0 ↔ b / 128 % 2 = 0 := by omega

theorem and64_natCast (b : Nat) : (b : Int) / 64 % 2 * 64 ≠ 0 ↔ b / 64 % 2 = 1 := by omega

theorem or_shift_natCast (result byte shift : Nat) :
    PyInt.or (result : Int) (((byte : Int) % 128) * 2 ^ shift) = ((result ||| ((byte % 128) <<< shift) : Nat) : Int) := by
  rw [← Proofs.PyInt.or_natCast, Nat.shiftLeft_eq]
  push_cast
  rfl

def liftDecU : Except Model.Leb128.Err (Nat × List Nat) → Except PyErr (Int × List Int)
  | .ok (v, rest) => .ok ((v : Int), ints rest)
  | .error e => .error (errOf e)

theorem gen_udec_loop : ∀ (data : List Nat) (result shift fuel : Nat), data.length + 1 ≤ fuel →
    PyRt.bind (unsigned_leb128_decode_loop1 fuel (ints data) (result : Int) (shift : Int)) (fun s => .ok (s.2.1, s.1))
      = liftDecU (udecLoop result shift data) := by
  intro data
  induction data with
  | nil =>
    intro result shift fuel hf
    obtain ⟨f, rfl⟩ : ∃ f, fuel = f + 1 := ⟨fuel - 1, by omega⟩
    unfold unsigned_leb128_decode_loop1
    simp [PyRt.next, udecLoop, liftDecU, errOf]
  | cons byte rest ih =>
    intro result shift fuel hf
    obtain ⟨f, rfl⟩ : ∃ f, fuel = f + 1 := ⟨fuel - 1, by simp at hf; omega⟩
    unfold unsigned_leb128_decode_loop1
    py_norm
    simp only [ints_cons, PyRt.next, bind_ok, shl_natCast, or_shift_natCast, udecLoop]
    by_cases hb : byte / 128 % 2 = 0
    · rw [if_pos ((and128_natCast byte).2 hb), if_pos hb]
      simp [liftDecU]
    · rw [if_neg (fun h => hb ((and128_natCast byte).1 h)), if_neg hb]
      have := ih (result ||| ((byte % 128) <<< shift)) (shift + 7) f (by simp at hf; omega)
      rw [← this]; rfl

/-- the regenerated unsigned decoder is the hand model on every byte string (value, unread rest,
    StopIteration), for every fuel above the length of the input -/
theorem gen_unsigned_decode_eq_model (data : List Nat) (fuel : Nat) (hf : data.length + 1 ≤ fuel) :
    unsigned_leb128_decode fuel (ints data) = liftDecU (unsignedDecode data) := by
  have := gen_udec_loop data 0 0 fuel hf
  unfold unsigned_leb128_decode unsignedDecode
  rw [← this]; rfl

def liftLoopS : Except Model.Leb128.Err (Nat × Nat × Nat × List Nat) → Except PyErr (List Int × Int × Int × Int)
  | .ok (r, s, b, rest) => .ok (ints rest, (r : Int), (s : Int), (b : Int))
  | .error e => .error (errOf e)

theorem gen_sdec_loop : ∀ (data : List Nat) (result shift : Nat) (byte0 : Int) (fuel : Nat), data.length + 1 ≤ fuel →
    signed_leb128_decode_loop1 fuel (ints data) (result : Int) (shift : Int) byte0
      = liftLoopS (sdecLoop result shift data) := by
  intro data
  induction data with
  | nil =>
    intro result shift byte0 fuel hf
    obtain ⟨f, rfl⟩ : ∃ f, fuel = f + 1 := ⟨fuel - 1, by omega⟩
    unfold signed_leb128_decode_loop1
    simp [PyRt.next, sdecLoop, liftLoopS, errOf]
  | cons byte rest ih =>
    intro result shift byte0 fuel hf
    obtain ⟨f, rfl⟩ : ∃ f, fuel = f + 1 := ⟨fuel - 1, by simp at hf; omega⟩
    unfold signed_leb128_decode_loop1
    py_norm
    simp only [ints_cons, PyRt.next, bind_ok, shl_natCast, or_shift_natCast, sdecLoop]
    have e7 : (shift : Int) + 7 = ((shift + 7 : Nat) : Int) := by push_cast; rfl
    by_cases hb : byte / 128 % 2 = 0
    · rw [if_pos ((and128_natCast byte).2 hb), if_pos hb, e7]
      rfl
    · rw [if_neg (fun h => hb ((and128_natCast byte).1 h)), if_neg hb, e7]
      exact ih (result ||| ((byte % 128) <<< shift)) (shift + 7) _ f (by simp at hf; omega)

def liftDecS : Except Model.Leb128.Err (Int × List Nat) → Except PyErr (Int × List Int)
  | .ok (v, rest) => .ok (v, ints rest)
  | .error e => .error (errOf e)

theorem mask_natCast (s : Nat) : (1 : Int) * (2 : Int) ^ s - (1 : Int) = (((1 <<< s) - 1 : Nat) : Int) := by
  have h : 1 ≤ 2 ^ s := Nat.one_le_two_pow
  rw [Nat.one_shiftLeft, Int.natCast_sub h]
  push_cast; omega

/-- the regenerated signed decoder is the hand model on every byte string (value incl. the sign
    fix-up, unread rest, StopIteration), for every fuel above the length of the input -/
theorem gen_signed_decode_eq_model (data : List Nat) (fuel : Nat) (hf : data.length + 1 ≤ fuel) :
    signed_leb128_decode fuel (ints data) = liftDecS (signedDecode data) := by
  have h := gen_sdec_loop data 0 0 0 fuel hf
  unfold signed_leb128_decode signedDecode
  have h' : signed_leb128_decode_loop1 fuel (ints data) 0 0 0 = liftLoopS (sdecLoop 0 0 data) := h
  simp only [h']
  py_norm
  cases hs : sdecLoop 0 0 data with
  | error e => simp [liftLoopS, liftDecS]
  | ok v =>
    obtain ⟨r, s, b, rest⟩ := v
    simp only [liftLoopS, bind_ok]
    by_cases hb : b / 64 % 2 = 1
    · rw [if_pos ((and64_natCast b).2 hb), if_pos hb]
      simp only [shl_natCast, bind_ok, liftDecS]
      rw [mask_natCast]
      rfl
    · rw [if_neg (fun h => hb ((and64_natCast b).1 h)), if_neg hb]
      rfl

end Proofs.T1.Leb128
