import PpciVerif.Model.Burg
/-!
# Proofs.Burg — the premise `Model.Burg.premise` implies that labelling never fails

Induction over trees (mutual with lists of trees, structural).
-/
namespace Proofs.Burg
open Model.Burg

theorem lookupSym_some {sig : List Sym} {n : Nat} {f : Sym} (h : lookupSym sig n = some f) :
    f ∈ sig ∧ f.name = n := by
  unfold lookupSym at h
  refine ⟨List.mem_of_find?_eq_some h, ?_⟩
  have := List.find?_some h
  simpa using this

theorem contains_iff {l : List Nat} {a : Nat} : l.contains a = true ↔ a ∈ l := by
  simp

/-- a firing rule contributes the whole chain closure of its non-terminal -/
theorem mem_labelsAt {rules : List Rule} {r : Rule} {name : Nat} {acc : List Nat} {ks : List LTree} {nt : Nat}
    (hr : r ∈ rules) (hf : ruleFires r name acc ks = true) (hc : nt ∈ close rules r.nt) :
    nt ∈ labelsAt rules name acc ks := by
  unfold labelsAt
  rw [List.mem_flatMap]
  exact ⟨r, List.mem_filter.mpr ⟨hr, hf⟩, hc⟩

mutual
theorem cover_tree (rules : List Rule) (sig : List Sym) (g : List (Nat × List Nat))
    (hp : premise rules sig g = true) :
    ∀ (t : Tree) (s : Nat), wellSorted sig t s = true → ∀ nt, nt ∈ guarOf g s →
      nt ∈ (annot rules t).labels
  | .node n acc kids, s, hws, nt, hnt => by
    unfold wellSorted at hws
    split at hws
    · rename_i f hf
      obtain ⟨hmem, hname⟩ := lookupSym_some hf
      simp only [Bool.and_eq_true, beq_iff_eq] at hws
      obtain ⟨hres, hkids⟩ := hws
      -- the premise for symbol f and goal nt
      have hsym : symOk g rules f = true := by
        unfold premise at hp
        exact (List.all_eq_true.mp hp) f hmem
      unfold symOk at hsym
      have hnt' : nt ∈ guarOf g f.res := by rw [hres]; exact hnt
      have hany := (List.all_eq_true.mp hsym) nt hnt'
      obtain ⟨r, hr, hw⟩ := List.any_eq_true.mp hany
      unfold ruleWitness at hw
      simp only [Bool.and_eq_true, Bool.not_eq_true'] at hw
      obtain ⟨⟨hcond, hpat⟩, hclose⟩ := hw
      have hclose' : nt ∈ close rules r.nt := contains_iff.mp hclose
      -- the rule fires at this node
      have hfire : ruleFires r n acc (annotL rules kids) = true := by
        unfold ruleFires
        split at hpat
        · rename_i nm ps hpat_eq
          simp only [Bool.and_eq_true, beq_iff_eq] at hpat
          obtain ⟨hnm, hflat⟩ := hpat
          have hm := cover_list rules sig g hp kids f.args hkids ps hflat
          simp [hnm, hname, hm, hcond]
        · simp at hpat
      show nt ∈ (annot rules (.node n acc kids)).labels
      unfold annot
      exact mem_labelsAt hr hfire hclose'
    · simp at hws
theorem cover_list (rules : List Rule) (sig : List Sym) (g : List (Nat × List Nat))
    (hp : premise rules sig g = true) :
    ∀ (ts : List Tree) (ss : List Nat), wellSortedL sig ts ss = true →
      ∀ ps, flatFor g ps ss = true → matchPats ps (annotL rules ts) = true
  | [], ss, _, ps, _ => by
    unfold annotL
    cases ps <;> simp [matchPats]
  | t :: ts, [], hws, _, _ => by
    simp [wellSortedL] at hws
  | t :: ts, s :: ss, hws, ps, hflat => by
    unfold wellSortedL at hws
    simp only [Bool.and_eq_true] at hws
    obtain ⟨h1, h2⟩ := hws
    match ps, hflat with
    | [], hflat => simp [flatFor] at hflat
    | .term _ _ :: _, hflat => simp [flatFor] at hflat
    | .nt m :: ps', hflat =>
      unfold flatFor at hflat
      simp only [Bool.and_eq_true] at hflat
      obtain ⟨hm, hrest⟩ := hflat
      have ht := cover_tree rules sig g hp t s h1 m (contains_iff.mp hm)
      have hl := cover_list rules sig g hp ts ss h2 ps' hrest
      unfold annotL matchPats
      simp only [Bool.and_eq_true]
      refine ⟨?_, hl⟩
      unfold matchPat
      exact contains_iff.mpr ht
end

end Proofs.Burg
