import PpciVerif.Model.Burg
/-!
# Proofs.Burg — the premise `Model.Burg.premise` implies that labelling never fails

Induction over trees (mutual with lists of trees, structural).
-/
namespace Proofs.Burg
open Model.Burg

theorem lookupSym_some {sig : List Sym} {n : Nat} {f : Sym} (h : lookupSym sig n = some f) :
    f ∈ sig ∧ f.name = n := by
  unfold lookupSym at h
  refine ⟨List.mem_of_find?_eq_some h, ?_⟩
  have := List.find?_some h
  simpa using this

theorem contains_iff {l : List Nat} {a : Nat} : l.contains a = true ↔ a ∈ l := by
  simp

/-- what a sound closure table says is true of `close` -/
theorem ct_sound {rules : List Rule} {ct : List (Nat × List Nat)} (h : ctSound rules ct = true)
    {n nt : Nat} (hm : nt ∈ guarOf ct n) : nt ∈ close rules n := by
  unfold guarOf at hm
  split at hm
  · rename_i p hp
    have hmem : p ∈ ct := List.mem_of_find?_eq_some hp
    have hkey : p.1 = n := by
      have := List.find?_some hp
      simpa using this
    unfold ctSound at h
    have := (List.all_eq_true.mp h) p hmem
    unfold subsetB at this
    have := (List.all_eq_true.mp this) nt hm
    rw [hkey] at this
    exact contains_iff.mp this
  · simp at hm

theorem dropTo_suffix (w : Nat) : ∀ (rs : List Rule) (r : Rule) (rs' : List Rule),
    dropTo w rs = r :: rs' → ∀ x, x ∈ r :: rs' → x ∈ rs
  | [], r, rs', h, x, hx => by simp [dropTo] at h
  | a :: as, r, rs', h, x, hx => by
    unfold dropTo at h
    split at h
    · rw [h]; exact hx
    · exact List.mem_cons_of_mem _ (dropTo_suffix w as r rs' h x hx)

/-- the certificate check yields a witness rule in `rules` for every symbol of `sig` -/
theorem checkW_sound (g ct : List (Nat × List Nat)) (rules : List Rule) :
    ∀ (sig : List Sym) (rs : List Rule) (wit : List Nat), (∀ x, x ∈ rs → x ∈ rules) →
      checkW g ct rs sig wit = true → ∀ f, f ∈ sig → ∃ r, r ∈ rules ∧ witnessOk g ct f r = true
  | [], _, _, _, _, f, hf => by simp at hf
  | f0 :: fs, rs, [], _, h, f, hf => by simp [checkW] at h
  | f0 :: fs, rs, w :: ws, hsub, h, f, hf => by
    unfold checkW at h
    split at h
    · rename_i r rs' hd
      simp only [Bool.and_eq_true] at h
      have hsub' : ∀ x, x ∈ r :: rs' → x ∈ rules := fun x hx => hsub x (dropTo_suffix w rs r rs' hd x hx)
      rcases List.mem_cons.mp hf with heq | htail
      · exact ⟨r, hsub' r (List.mem_cons_self), by rw [heq]; exact h.1⟩
      · exact checkW_sound g ct rules fs (r :: rs') ws hsub' h.2 f htail
    · simp at h

/-- a firing rule contributes the whole chain closure of its non-terminal -/
theorem mem_labelsAt {rules : List Rule} {r : Rule} {name : Nat} {acc : List Nat} {ks : List LTree} {nt : Nat}
    (hr : r ∈ rules) (hf : ruleFires r name acc ks = true) (hc : nt ∈ close rules r.nt) :
    nt ∈ labelsAt rules name acc ks := by
  unfold labelsAt
  rw [List.mem_flatMap]
  exact ⟨r, List.mem_filter.mpr ⟨hr, hf⟩, hc⟩

mutual
theorem cover_tree (rules : List Rule) (sig : List Sym) (g ct : List (Nat × List Nat)) (wit : List Nat)
    (hp : premise rules sig g ct wit = true) :
    ∀ (t : Tree) (s : Nat), wellSorted sig t s = true → ∀ nt, nt ∈ guarOf g s →
      nt ∈ (annot rules t).labels
  | .node n acc kids, s, hws, nt, hnt => by
    unfold wellSorted at hws
    split at hws
    · rename_i f hf
      obtain ⟨hmem, hname⟩ := lookupSym_some hf
      simp only [Bool.and_eq_true, beq_iff_eq] at hws
      obtain ⟨hres, hkids⟩ := hws
      -- the premise for symbol f and goal nt
      have hp0 := hp
      unfold premise at hp0
      simp only [Bool.and_eq_true] at hp0
      obtain ⟨hct, hchk⟩ := hp0
      obtain ⟨r, hr, hw⟩ := checkW_sound g ct rules sig rules wit (fun _ h => h) hchk f hmem
      unfold witnessOk flatRule at hw
      simp only [Bool.and_eq_true, Bool.not_eq_true'] at hw
      obtain ⟨⟨hcond, hpat⟩, hsub⟩ := hw
      have hnt' : nt ∈ guarOf g f.res := by rw [hres]; exact hnt
      have hclose' : nt ∈ close rules r.nt := by
        unfold subsetB at hsub
        exact ct_sound hct (contains_iff.mp ((List.all_eq_true.mp hsub) nt hnt'))
      -- the rule fires at this node
      have hfire : ruleFires r n acc (annotL rules kids) = true := by
        unfold ruleFires
        split at hpat
        · rename_i nm ps hpat_eq
          simp only [Bool.and_eq_true, beq_iff_eq] at hpat
          obtain ⟨hnm, hflat⟩ := hpat
          have hm := cover_list rules sig g ct wit hp kids f.args hkids ps hflat
          simp [hnm, hname, hm, hcond]
        · simp at hpat
      show nt ∈ (annot rules (.node n acc kids)).labels
      unfold annot
      exact mem_labelsAt hr hfire hclose'
    · simp at hws
theorem cover_list (rules : List Rule) (sig : List Sym) (g ct : List (Nat × List Nat)) (wit : List Nat)
    (hp : premise rules sig g ct wit = true) :
    ∀ (ts : List Tree) (ss : List Nat), wellSortedL sig ts ss = true →
      ∀ ps, flatFor g ps ss = true → matchPats ps (annotL rules ts) = true
  | [], ss, _, ps, _ => by
    unfold annotL
    cases ps <;> simp [matchPats]
  | t :: ts, [], hws, _, _ => by
    simp [wellSortedL] at hws
  | t :: ts, s :: ss, hws, ps, hflat => by
    unfold wellSortedL at hws
    simp only [Bool.and_eq_true] at hws
    obtain ⟨h1, h2⟩ := hws
    match ps, hflat with
    | [], hflat => simp [flatFor] at hflat
    | .term _ _ :: _, hflat => simp [flatFor] at hflat
    | .nt m :: ps', hflat =>
      unfold flatFor at hflat
      simp only [Bool.and_eq_true] at hflat
      obtain ⟨hm, hrest⟩ := hflat
      have ht := cover_tree rules sig g ct wit hp t s h1 m (contains_iff.mp hm)
      have hl := cover_list rules sig g ct wit hp ts ss h2 ps' hrest
      unfold annotL matchPats
      simp only [Bool.and_eq_true]
      refine ⟨?_, hl⟩
      unfold matchPat
      exact contains_iff.mpr ht
end

end Proofs.Burg
