import PpciVerif.Proofs.RelaxObj
/-! Lemmas for C13, part 4: the candidate loop of `do_relaxations` (`Model.Relax.scan`), the registered
holes, and `do_relaxations` as a whole. -/
namespace Proofs.Relax
open Spec.Relax Model.Linker Proofs.Linker
open Model.Relax hiding Hole

theorem find_all2 {α : Type} {R : α → α → Prop} {p p' : α → Bool} : ∀ {l l' : List α}, All2 R l l' →
    (∀ a b, R a b → p a = p' b) → ∀ {a}, l.find? p = some a → ∃ b, l'.find? p' = some b ∧ R a b
  | _, _, .nil, _, _, h => by cases h
  | _, _, .cons (a := x) (b := y) hxy t, hp, a, h => by
    rw [List.find?_cons] at h ⊢
    rw [← hp x y hxy]
    cases c : p x with
    | true => rw [c] at h; cases h; exact ⟨y, rfl, hxy⟩
    | false => rw [c] at h; exact find_all2 t hp h

/-! ### the relocation table -/

/-- every shrinkable relocation type of the table occupies 4 bytes -/
theorem shrink_size {t : String} {info : RelocInfo} {k : Shrink} (h : relocInfo t = some info)
    (hk : info.shrink = some k) : info.size = 4 := by
  unfold relocInfo at h
  cases hf : rvcTable.find? (fun p => p.1 == t) with
  | none => rw [hf] at h; cases h
  | some p =>
    rw [hf] at h; cases h
    have hm := List.mem_of_find?_eq_some hf
    simp only [rvcTable, List.mem_cons, List.mem_nil_iff, or_false] at hm
    rcases hm with rfl | rfl | rfl | rfl | rfl | rfl | rfl | rfl | rfl | rfl | rfl | rfl | rfl <;>
      first | rfl | (simp at hk)

def isShrinkable (t : String) : Bool :=
  match relocInfo t with
  | some info => info.shrink.isSome
  | none => false

/-! ### one step of the candidate loop -/

/-- the candidate loop only patches section data -/
def SameShape (s s' : Section) : Prop :=
  s'.name = s.name ∧ s'.address = s.address ∧ s'.alignment = s.alignment

theorem patch_length (k : Shrink) (data : List Nat) (h : data.length = 4) : (patch k data).length = 2 := by
  match data, h with
  | [_, _, _, _], _ => rfl

theorem updSec_sameShape (n : String) (f : Section → Section) (hf : ∀ s, s.name = n → SameShape s (f s)) :
    ∀ secs : List Section, All2 SameShape secs (updSec secs n f)
  | [] => .nil
  | s :: rest => by
    rw [updSec_cons]
    refine .cons ?_ (updSec_sameShape n f hf rest)
    split
    · rename_i c; exact hf s c
    · exact ⟨rfl, rfl, rfl⟩

theorem sameShape_trans (a b c : Section) (h1 : SameShape a b) (h2 : SameShape b c) : SameShape a c :=
  ⟨h2.1.trans h1.1, h2.2.1.trans h1.2.1, h2.2.2.trans h1.2.2⟩

theorem assert_ok {c : Bool} (h : Model.Relax.assert c = .ok ()) : c = true := by
  unfold Model.Relax.assert at h
  split at h
  · assumption
  · cases h

/-- what a successful `scanStep` did -/
theorem scanStep_spec {o : Obj} {secs secs' : List Section} {r : Reloc} {c : Option Cand}
    (h : scanStep o secs r = .ok (secs', c)) :
    (c = none ∧ secs' = secs) ∨
    (∃ k sec S, c = some { hole := (r.offset + 2, 2), reloc := r } ∧ isShrinkable r.typ = true ∧
      relocInfo r.typ = some ⟨4, some k⟩ ∧ getSec secs r.sect = some sec ∧
      liftL (getSymbolIdValue { o with sections := secs } r.symbolId) = .ok S ∧
      canShrink S (sec.address + r.offset) = .ok true ∧
      ((sec.data.drop r.offset).take 4).length = 4 ∧
      secs' = updSec secs r.sect (fun s => { s with data := splice s.data r.offset (patch k ((sec.data.drop r.offset).take 4)) })) := by
  unfold scanStep at h
  obtain ⟨S, hS, h⟩ := bind_ok h
  cases hg : getSec secs r.sect with
  | none => rw [hg] at h; cases h
  | some sec =>
    rw [hg] at h
    simp only at h
    cases hi : relocInfo r.typ with
    | none => rw [hi] at h; cases h
    | some info =>
      rw [hi] at h
      simp only at h
      cases hk : info.shrink with
      | none => rw [hk] at h; cases h; exact Or.inl ⟨rfl, rfl⟩
      | some k =>
        rw [hk] at h
        simp only at h
        obtain ⟨can, hc, h⟩ := bind_ok h
        cases can with
        | false => cases h; exact Or.inl ⟨rfl, rfl⟩
        | true =>
          have hsz : info.size = 4 := shrink_size hi hk
          simp only [Bool.not_true, Bool.false_eq_true, if_false] at h
          obtain ⟨_, a1, h⟩ := bind_ok h
          obtain ⟨_, a2, h⟩ := bind_ok h
          obtain ⟨_, a3, h⟩ := bind_ok h
          have l4 : ((sec.data.drop r.offset).take 4).length = 4 := by
            have := assert_ok a1
            rw [hsz] at this
            simpa using this
          rw [hsz] at h
          have lp := patch_length k _ l4
          rw [lp] at h
          cases h
          refine Or.inr ⟨k, sec, S, rfl, ?_, ?_, rfl, hS, hc, l4, rfl⟩
          · unfold isShrinkable; rw [hi]; simp [hk]
          · cases info with | mk sz sh => simp only at hsz hk; rw [hsz, hk]

theorem scanStep_shape {o : Obj} {secs secs' : List Section} {r : Reloc} {c : Option Cand}
    (h : scanStep o secs r = .ok (secs', c)) : All2 SameShape secs secs' := by
  rcases scanStep_spec h with ⟨_, rfl⟩ | ⟨k, sec, S, _, _, _, hg, _, _, l4, rfl⟩
  · exact All2.refl' (fun _ => ⟨rfl, rfl, rfl⟩) _
  · apply updSec_sameShape
    intro s _
    exact ⟨rfl, rfl, rfl⟩

/-! ### the whole loop -/

/-- what `lst` holds after the loop: one entry per accepted relocation, in relocation order, with the
    hole right behind the two bytes that stay -/
def CandOK (c : Cand) : Prop := c.hole = (c.reloc.offset + 2, 2) ∧ isShrinkable c.reloc.typ = true

theorem scan_spec {o : Obj} : ∀ {rels : List Reloc} {secs secs' : List Section} {cs : List Cand},
    scan o secs rels = .ok (secs', cs) →
    All2 SameShape secs secs' ∧ (cs.map (·.reloc)).Sublist rels ∧ ∀ c ∈ cs, CandOK c
  | [], secs, secs', cs, h => by
    simp only [scan] at h; cases h
    exact ⟨All2.refl' (fun _ => ⟨rfl, rfl, rfl⟩) _, List.Sublist.refl _, fun _ hc => by cases hc⟩
  | r :: rest, secs, secs', cs, h => by
    simp only [scan] at h
    cases h1 : scanStep o secs r with
    | error e => rw [h1] at h; cases h
    | ok p =>
      obtain ⟨secs1, c⟩ := p
      rw [h1] at h
      simp only at h
      cases h2 : scan o secs1 rest with
      | error e => rw [h2] at h; cases h
      | ok q =>
        obtain ⟨secs2, cs2⟩ := q
        rw [h2] at h
        cases h
        obtain ⟨i1, i2, i3⟩ := scan_spec h2
        refine ⟨All2.trans' sameShape_trans (scanStep_shape h1) i1, ?_, ?_⟩
        · rcases scanStep_spec h1 with ⟨rfl, _⟩ | ⟨k, sec, S, rfl, _⟩
          · exact List.Sublist.cons _ i2
          · exact List.Sublist.cons_cons _ i2
        · intro c' hc'
          rcases scanStep_spec h1 with ⟨rfl, _⟩ | ⟨k, sec, S, rfl, hsh, _⟩
          · exact i3 c' hc'
          · rcases List.mem_cons.1 hc' with rfl | hc'
            · exact ⟨rfl, hsh⟩
            · exact i3 c' hc'

/-! ### the registered holes are ascending and disjoint when the shrinkable sites do not overlap -/

/-- the shrinkable relocation sites of one section are pairwise disjoint (4 bytes each) -/
def SitesSeparated (rels : List Reloc) : Prop :=
  rels.Pairwise (fun r₁ r₂ => r₁.sect = r₂.sect → isShrinkable r₁.typ = true → isShrinkable r₂.typ = true →
    r₁.offset + 4 ≤ r₂.offset ∨ r₂.offset + 4 ≤ r₁.offset)

theorem holesOK_of_cands {rels : List Reloc} {cs : List Cand} (hsep : SitesSeparated rels)
    (hsub : (cs.map (·.reloc)).Sublist rels) (hc : ∀ c ∈ cs, CandOK c) :
    HolesOK (cs.map (fun c => (c.reloc.sect, c.hole))) := by
  intro n
  unfold holesOf
  apply holesFrom_sortHoles
  · -- separated
    have h1 : (cs.map (·.reloc)).Pairwise _ := hsep.sublist hsub
    rw [List.pairwise_map] at h1
    have h2 : cs.Pairwise (fun a b => a.reloc.sect = b.reloc.sect →
        (a.hole.1 + a.hole.2 ≤ b.hole.1 ∨ b.hole.1 + b.hole.2 ≤ a.hole.1)) := by
      refine h1.imp_of_mem ?_
      intro a b ha hb hab hs
      obtain ⟨ea, sa⟩ := hc a ha
      obtain ⟨eb, sb⟩ := hc b hb
      have := hab hs sa sb
      rw [ea, eb]
      simp only
      omega
    rw [List.filter_map, List.map_map]
    rw [List.pairwise_map]
    refine (h2.filter _).imp_of_mem ?_
    intro a b ha hb hab
    have ha' := (List.mem_filter.1 ha).2
    have hb' := (List.mem_filter.1 hb).2
    simp only [Function.comp, beq_iff_eq] at ha' hb'
    exact hab (ha'.trans hb'.symm)
  · intro h hh
    rw [List.mem_map] at hh
    obtain ⟨p, hp, rfl⟩ := hh
    have hp' := (List.mem_filter.1 hp).1
    rw [List.mem_map] at hp'
    obtain ⟨c, hcm, rfl⟩ := hp'
    rw [(hc c hcm).1]
    exact Nat.zero_lt_two

/-! ### `do_relaxations` as a whole -/

theorem doRelaxations_inv {o o' : Obj} {m : HoleMap} (h : doRelaxations o = .ok (o', m)) :
    ∃ secs cs, scan o o.sections o.relocs = .ok (secs, cs) ∧ m = (if cs.isEmpty then [] else cs.map (fun c => (c.reloc.sect, c.hole))) ∧
      ((cs = [] ∧ o' = { o with sections := secs }) ∨
       (cs ≠ [] ∧ ∃ rels, replaceRelocs o.relocs cs = .ok rels ∧
          applyHoles m { o with sections := secs, relocs := rels } = .ok o')) := by
  unfold doRelaxations at h
  obtain ⟨⟨secs, cs⟩, h1, h⟩ := bind_ok h
  refine ⟨secs, cs, h1, ?_⟩
  simp only at h
  cases hc : cs.isEmpty with
  | true =>
    rw [hc] at h
    simp only [if_true] at h
    cases h
    have : cs = [] := List.isEmpty_iff.1 hc
    exact ⟨by simp, Or.inl ⟨this, rfl⟩⟩
  | false =>
    rw [hc] at h
    simp only [Bool.false_eq_true, if_false] at h
    obtain ⟨rels, h2, h⟩ := bind_ok h
    obtain ⟨o1, h3, h⟩ := bind_ok h
    cases h
    have hne : cs ≠ [] := fun e => by rw [e] at hc; cases hc
    exact ⟨by simp, Or.inr ⟨hne, rels, h2, by simpa using h3⟩⟩

/-- the holes `do_relaxations` registers are ascending and disjoint per section as soon as the shrinkable
    relocation sites do not overlap -/
theorem doRelaxations_holesOK {o o' : Obj} {m : HoleMap} (h : doRelaxations o = .ok (o', m))
    (hsep : SitesSeparated o.relocs) : HolesOK m := by
  obtain ⟨secs, cs, h1, hm, _⟩ := doRelaxations_inv h
  obtain ⟨_, hsub, hc⟩ := scan_spec h1
  rw [hm]
  split
  · intro n; exact trivial
  · exact holesOK_of_cands hsep hsub hc

/-- `HolesOK` only has to be checked for the sections that have a hole (decidable) -/
theorem holesOK_of_names {m : HoleMap} (h : ∀ n ∈ m.map (·.1), HolesFrom 0 (holesOf m n)) : HolesOK m := by
  intro n
  by_cases c : n ∈ m.map (·.1)
  · exact h n c
  · have : m.filter (fun p => p.1 == n) = [] := by
      rw [List.filter_eq_nil_iff]
      intro p hp hpn
      exact c (List.mem_map.2 ⟨p, hp, by simpa using hpn⟩)
    unfold holesOf
    rw [this]
    exact trivial

/-! ### the relocation entries after the replacement -/

/-- a relocation entry without its type -/
def relKey (r : Reloc) : Nat × String × Nat × Int := (r.symbolId, r.sect, r.offset, r.addend)

theorem removeFirst_perm {r : Reloc} : ∀ {l l' : List Reloc}, removeFirst r l = .ok l' → l.Perm (r :: l')
  | [], _, h => by cases h
  | x :: rest, l', h => by
    simp only [removeFirst] at h
    split at h
    · rename_i c
      cases h
      have : x = r := by simpa using c
      rw [this]
    · cases hr : removeFirst r rest with
      | error e => rw [hr] at h; cases h
      | ok rest' =>
        rw [hr] at h; cases h
        exact ((removeFirst_perm hr).cons x).trans (List.Perm.swap r x rest')

/-- the replacement keeps every entry's symbol, section, offset and addend (as a multiset): only types
    change and the shrunk entries move to the end -/
theorem replaceRelocs_keys : ∀ {cs : List Cand} {rels rels' : List Reloc}, replaceRelocs rels cs = .ok rels' →
    (rels'.map relKey).Perm (rels.map relKey)
  | [], rels, rels', h => by simp only [replaceRelocs] at h; cases h; exact List.Perm.refl _
  | c :: cs, rels, rels', h => by
    simp only [replaceRelocs] at h
    cases h1 : removeFirst c.reloc rels with
    | error e => rw [h1] at h; cases h
    | ok rels1 =>
      rw [h1] at h
      simp only at h
      split at h
      · cases h
      · have ih := replaceRelocs_keys h
        refine ih.trans ?_
        have p1 := (removeFirst_perm h1).map relKey
        rw [List.map_append, List.map_cons, List.map_nil]
        refine List.Perm.trans ?_ p1.symm
        rw [List.map_cons]
        have : relKey { c.reloc with typ := shrunkType } = relKey c.reloc := rfl
        rw [this]
        exact List.perm_append_comm.trans (List.Perm.refl _)

/-! ### the candidate loop touches only the two bytes it keeps of every accepted jump -/

theorem splice_length {data new : List Nat} {off : Nat} (h : off + new.length ≤ data.length) :
    (splice data off new).length = data.length := by
  unfold splice
  simp only [List.length_append, List.length_take, List.length_drop]
  omega

theorem splice_get {data new : List Nat} {off i : Nat} (h : off + new.length ≤ data.length)
    (hi : i < off ∨ off + new.length ≤ i) : (splice data off new)[i]? = data[i]? := by
  unfold splice
  rcases hi with hi | hi
  · rw [List.getElem?_append_left (by simp only [List.length_append, List.length_take]; omega),
      List.getElem?_append_left (by simp only [List.length_take]; omega), List.getElem?_take]
    simp [hi]
  · rw [List.getElem?_append_right (by simp only [List.length_append, List.length_take]; omega)]
    simp only [List.length_append, List.length_take, List.getElem?_drop]
    congr 1
    omega

/-- what the candidates `cs` may have changed in a section -/
def Patched (cs : List Cand) (s s' : Section) : Prop :=
  SameShape s s' ∧ s'.data.length = s.data.length ∧
  ∀ i, (∀ c ∈ cs, c.reloc.sect = s.name → i < c.reloc.offset ∨ c.reloc.offset + 2 ≤ i) → s'.data[i]? = s.data[i]?

theorem getSec_of_mem_nodup : ∀ {secs : List Section} {s : Section}, (secs.map (·.name)).Nodup → s ∈ secs →
    getSec secs s.name = some s
  | [], _, _, h => by cases h
  | a :: rest, s, hnd, hs => by
    rw [List.map_cons, List.nodup_cons] at hnd
    rw [getSec_cons]
    rcases List.mem_cons.1 hs with rfl | hs
    · simp
    · have : a.name ≠ s.name := fun e => hnd.1 (e ▸ List.mem_map.2 ⟨s, hs, rfl⟩)
      simp only [if_neg this]
      exact getSec_of_mem_nodup hnd.2 hs

theorem all2_map_mem {α : Type} {R : α → α → Prop} (f : α → α) : ∀ (l : List α), (∀ a ∈ l, R a (f a)) → All2 R l (l.map f)
  | [], _ => .nil
  | a :: rest, h => .cons (h a (by simp)) (all2_map_mem f rest (fun x hx => h x (by simp [hx])))

theorem all2_names {secs secs' : List Section} (h : All2 SameShape secs secs') :
    secs'.map (·.name) = secs.map (·.name) := by
  induction h with
  | nil => rfl
  | cons hr _ ih => simp only [List.map_cons, ih, hr.1]

def candList : Option Cand → List Cand
  | some x => [x]
  | none => []

theorem scanStep_data {o : Obj} {secs secs' : List Section} {r : Reloc} {c : Option Cand}
    (hnd : (secs.map (·.name)).Nodup) (h : scanStep o secs r = .ok (secs', c)) :
    All2 (Patched (candList c)) secs secs' := by
  rcases scanStep_spec h with ⟨rfl, rfl⟩ | ⟨k, sec, S, rfl, _, _, hg, _, _, l4, rfl⟩
  · exact All2.refl' (fun _ => ⟨⟨rfl, rfl, rfl⟩, rfl, fun _ _ => rfl⟩) _
  · have hoff : r.offset + 4 ≤ sec.data.length := by
      simp only [List.length_take, List.length_drop] at l4
      omega
    unfold updSec
    apply all2_map_mem
    intro s hs
    by_cases hb : (s.name == r.sect) = true
    · rw [if_pos hb]
      have hsn : s.name = r.sect := by simpa using hb
      have : getSec secs r.sect = some s := hsn ▸ getSec_of_mem_nodup hnd hs
      rw [hg] at this
      cases this
      have lp := patch_length k _ l4
      refine ⟨⟨rfl, rfl, rfl⟩, splice_length (by rw [lp]; omega), ?_⟩
      intro i hi
      have := hi { hole := (r.offset + 2, 2), reloc := r } (by simp [candList]) hsn.symm
      exact splice_get (by rw [lp]; omega) (by rw [lp]; exact this)
    · rw [if_neg hb]
      exact ⟨⟨rfl, rfl, rfl⟩, rfl, fun _ _ => rfl⟩

theorem patched_trans {cs₁ cs₂ : List Cand} (a b c : Section) (h1 : Patched cs₁ a b) (h2 : Patched cs₂ b c) :
    Patched (cs₁ ++ cs₂) a c := by
  obtain ⟨s1, l1, d1⟩ := h1
  obtain ⟨s2, l2, d2⟩ := h2
  refine ⟨sameShape_trans a b c s1 s2, l2.trans l1, ?_⟩
  intro i hi
  rw [d2 i (fun x hx hn => hi x (List.mem_append.2 (Or.inr hx)) (hn.trans s1.1)),
    d1 i (fun x hx hn => hi x (List.mem_append.2 (Or.inl hx)) hn)]

/-- after the candidate loop every section has its old length and its old bytes, except for the first two
    bytes of every accepted jump (section names pairwise different) -/
theorem scan_data {o : Obj} : ∀ {rels : List Reloc} {secs secs' : List Section} {cs : List Cand},
    (secs.map (·.name)).Nodup → scan o secs rels = .ok (secs', cs) → All2 (Patched cs) secs secs'
  | [], secs, secs', cs, _, h => by
    simp only [scan] at h; cases h
    exact All2.refl' (fun _ => ⟨⟨rfl, rfl, rfl⟩, rfl, fun _ _ => rfl⟩) _
  | r :: rest, secs, secs', cs, hnd, h => by
    simp only [scan] at h
    cases h1 : scanStep o secs r with
    | error e => rw [h1] at h; cases h
    | ok p =>
      obtain ⟨secs1, c⟩ := p
      rw [h1] at h
      simp only at h
      cases h2 : scan o secs1 rest with
      | error e => rw [h2] at h; cases h
      | ok q =>
        obtain ⟨secs2, cs2⟩ := q
        rw [h2] at h
        cases h
        have hnd1 : (secs1.map (·.name)).Nodup := by rw [all2_names (scanStep_shape h1)]; exact hnd
        have key := All2.trans' patched_trans (scanStep_data hnd h1) (scan_data hnd1 h2)
        cases c <;> exact key

end Proofs.Relax
