import PpciVerif.Proofs.IRLex
/-!
# Proofs.IRLexP — the tokenizer reads the printed form of every module of the text fragment back as
`toksModule` (the composition of the token-class lemmas of `Proofs.IRLex` over the whole printer)
-/
namespace Proofs.IRLex
open Model.IRBuild Model.IRText Model.IRFrag Spec.IR

abbrev T : List Char → Prop := fun _ => True

/-- characters that could extend the token before them -/
def cont (c : Char) : Bool := isIdChar c || c == '.' || c == '=' || c == '<' || c == '>'
abbrev Brk : List Char → Prop := Stops cont
/-- the text that follows starts with `;` -/
def Semi (r : List Char) : Prop := ∃ r', r = ';' :: r'

theorem stops_mono {p q : Char → Bool} (h : ∀ c, q c = false → p c = false) {r : List Char} (hr : Stops q r) :
    Stops p r := by
  cases r with
  | nil => trivial
  | cons c r => exact h c hr

theorem cont_idChar (c : Char) (h : cont c = false) : isIdChar c = false := by
  simp only [cont, Bool.or_eq_false_iff] at h; exact h.1.1.1.1

theorem idChar_digit (c : Char) (h : isIdChar c = false) : isDigit c = false := by
  simp only [isIdChar, Char.isAlphanum, Bool.or_eq_false_iff] at h
  exact h.1.2

theorem cont_numCont (c : Char) (h : cont c = false) : numCont c = false := by
  have h1 := cont_idChar c h
  simp only [cont, Bool.or_eq_false_iff] at h
  simp only [numCont, Bool.or_eq_false_iff]
  refine ⟨⟨idChar_digit c h1, h.1.1.1.2⟩, ?_⟩
  cases he : (c == 'e') with
  | false => rfl
  | true =>
    have : c = 'e' := by simpa using he
    subst this
    exact absurd h1 (by decide)

theorem semi_brk {r : List Char} (h : Semi r) : Brk r := by
  obtain ⟨r', rfl⟩ := h
  exact (by decide : cont ';' = false)

theorem lexB_id (s : String) (h : identOk s = true) : Lx Brk s.toList [.id s] :=
  (lex_id s h).mono (fun _ hr => stops_mono cont_idChar hr)
theorem lexB_nat (n : Nat) : Lx Brk (natChars n) [.int (Int.ofNat n)] :=
  (lex_nat n).mono (fun _ hr => stops_mono cont_numCont hr)
theorem lexB_int (v : Int) : Lx Brk (intChars v) [.int v] :=
  (lex_int v).mono (fun _ hr => stops_mono cont_numCont hr)

/-! ### combinators -/

theorem Lx.tThen {B : List Char → Prop} {c1 c2 : List Char} {t1 t2 : List Tok}
    (h1 : Lx T c1 t1) (h2 : Lx B c2 t2) : Lx B (c1 ++ c2) (t1 ++ t2) :=
  Lx.append h1 h2 (fun _ _ => trivial)

theorem Lx.brkThen {B : List Char → Prop} {c1 c2 : List Char} {t1 t2 : List Tok}
    (h1 : Lx Brk c1 t1) (h2 : Lx B c2 t2) (hb : ∀ rest, Brk (c2 ++ rest)) : Lx B (c1 ++ c2) (t1 ++ t2) :=
  Lx.append h1 h2 (fun r _ => hb r)

theorem Lx.sp {B : List Char → Prop} {cs : List Char} {ts : List Tok} (h : Lx B cs ts) : Lx B (' ' :: cs) ts :=
  Lx.append (lex_ws ' ' (by decide) T) h (fun _ _ => trivial)

theorem Lx.nl {B : List Char → Prop} {cs : List Char} {ts : List Tok} (h : Lx B cs ts) : Lx B ('\n' :: cs) ts :=
  Lx.append (lex_ws '\n' (by decide) T) h (fun _ _ => trivial)

theorem Lx.semi {cs : List Char} {ts : List Tok} (h : Lx Brk cs ts) : Lx Semi cs ts :=
  h.mono (fun _ hr => semi_brk hr)

theorem Lx.toT {cs : List Char} {ts : List Tok} (h : Lx T cs ts) (B : List Char → Prop) : Lx B cs ts :=
  h.mono (fun _ _ => trivial)

/-- a text piece made of fixed characters that ends in white space or in a self-delimiting symbol -/
macro "lex_lit" k:num : tactic =>
  `(tactic| (refine ⟨by decide, $k, by decide, ?_⟩; intro rest _ n;
             simp [lexFuel, lexOne, lexSym, singles, isDigit, isIdStart, isIdChar, isWs, List.takeWhile,
               List.dropWhile]))

theorem brk_sp (X : List Char) : Brk (' ' :: X) := (by decide : cont ' ' = false)

/-! ### types -/

theorem stops_nat (p : Char → Bool) (hp : ∀ c, isDigit c = true → p c = false) (n : Nat) (X : List Char) :
    Stops p (natChars n ++ X) := by
  obtain ⟨c, r, hcr⟩ := natChars_cons n
  have hd : isDigit c = true := natChars_digits n c (by rw [hcr]; simp)
  rw [hcr]
  exact hp c hd

theorem digit_not_lt (c : Char) (h : isDigit c = true) : (c == '<' || c == '=') = false := by
  cases hq : (c == '<' || c == '=') with
  | false => rfl
  | true =>
    simp only [Bool.or_eq_true, beq_iff_eq] at hq
    rcases hq with e | e <;> (subst e; exact absurd h (by decide))

theorem lex_ty (ty : Ty) : Lx Brk (tyChars ty) (tyToks ty) := by
  cases ty with
  | int t => cases t <;> exact lexB_id _ (by decide)
  | f32 => exact lexB_id "f32" (by decide)
  | f64 => exact lexB_id "f64" (by decide)
  | ptr => exact lexB_id "ptr" (by decide)
  | blob s a =>
    have e : tyChars (.blob s a) = "blob".toList ++ (['<'] ++ (natChars s ++ ([':'] ++ (natChars a ++ ['>'])))) := by
      simp only [tyChars, List.append_assoc, List.cons_append, List.nil_append]; rfl
    rw [e]
    have hgt : Lx Brk ['>'] [.sym ">"] := lex_gt.mono (fun _ hr => stops_mono (by
      intro c hc; simp only [cont, Bool.or_eq_false_iff] at hc; simp [hc.1.1.2, hc.2]) hr)
    have hcolon : Lx T [':'] [.sym ":"] := by lex_lit 1
    exact Lx.append (lex_id "blob" (by decide))
      (Lx.append lex_lt
        (Lx.append (lex_nat s) (Lx.tThen hcolon (Lx.append (lex_nat a) hgt (fun _ _ => (by decide : numCont '>' = false))))
          (fun _ _ => (by decide : numCont ':' = false)))
        (fun _ _ => by rw [List.append_assoc]; exact stops_nat _ digit_not_lt s _))
      (fun _ _ => (by decide : isIdChar '<' = false))

/-! ### lists -/

theorem bsp : cont ' ' = false := by decide
theorem bcomma : cont ',' = false := by decide
theorem brparen : cont ')' = false := by decide
theorem blparen : cont '(' = false := by decide
theorem bsemi : cont ';' = false := by decide
theorem bcolon : cont ':' = false := by decide
theorem bnl : cont '\n' = false := by decide

theorem lex_comma : Lx T [','] [.sym ","] := by lex_lit 1
theorem lex_lparen : Lx T ['('] [.sym "("] := by lex_lit 1
theorem lex_rparen : Lx T [')'] [.sym ")"] := by lex_lit 1
theorem lex_semicolon : Lx T [';'] [.sym ";"] := by lex_lit 1

theorem lex_commaSep {α : Type} (f : α → List Char) (g : α → List Tok) (B : List Char → Prop)
    (hB : ∀ r, B r → Brk r) (l : List α) (h : ∀ x ∈ l, Lx Brk (f x) (g x)) :
    Lx B (commaSep (l.map f)) (commaSepT (l.map g)) := by
  induction l with
  | nil => exact Lx.nil B
  | cons x l ih =>
    cases l with
    | nil => exact (h x (by simp)).mono hB
    | cons y l' =>
      have ih' := ih (fun z hz => h z (by simp [hz]))
      exact (h x (by simp)).brkThen (Lx.tThen lex_comma (Lx.sp ih')) (fun _ => bcomma)

theorem lex_flatten {α : Type} (f : α → List Char) (g : α → List Tok) (l : List α)
    (h : ∀ x ∈ l, Lx T (f x) (g x)) : Lx T (l.map f).flatten (l.map g).flatten := by
  induction l with
  | nil => exact Lx.nil T
  | cons x l ih =>
    simp only [List.map_cons, List.flatten_cons]
    exact Lx.tThen (h x (by simp)) (ih (fun z hz => h z (by simp [hz])))

theorem mem_insertPair (x p : String × String) (l : List (String × String)) (h : x ∈ insertPair p l) :
    x = p ∨ x ∈ l := by
  induction l with
  | nil => simpa [insertPair] using h
  | cons q r ih =>
    simp only [insertPair] at h
    split at h
    · simpa using h
    · rcases List.mem_cons.mp h with e | e
      · exact Or.inr (by simp [e])
      · rcases ih e with e' | e'
        · exact Or.inl e'
        · exact Or.inr (by simp [e'])

theorem mem_sortPairs (x : String × String) (l : List (String × String)) (h : x ∈ sortPairs l) : x ∈ l := by
  induction l with
  | nil => simpa [sortPairs] using h
  | cons p r ih =>
    simp only [sortPairs] at h
    rcases mem_insertPair x p _ h with e | e
    · simp [e]
    · simp [ih e]

/-! ### hexadecimal strings -/

theorem hexDigit_ok : ∀ n, n < 16 → isStrChar (hexDigit n) = true ∧ (hexDigit n).toNat < 128 := by decide

theorem hexlify_ok (bs : List Nat) : ∀ c ∈ hexlify bs, isStrChar c = true ∧ c.toNat < 128 := by
  induction bs with
  | nil => intro c hc; simp [hexlify] at hc
  | cons b bs ih =>
    intro c hc
    simp only [hexlify, List.mem_cons] at hc
    rcases hc with e | e | e
    · subst e; exact hexDigit_ok _ (Nat.mod_lt _ (by decide))
    · subst e; exact hexDigit_ok _ (Nat.mod_lt _ (by decide))
    · exact ih c e

theorem lex_hex (bs : List Nat) (B : List Char → Prop) :
    Lx B ('\'' :: hexlify bs ++ ['\'']) [.str (String.ofList (hexlify bs))] :=
  lex_str _ (fun c hc => (hexlify_ok bs c hc).1) (fun c hc => (hexlify_ok bs c hc).2) B

/-! ### operators -/

theorem lex_binop_sp (op : BinOp) : Lx T (binopChars op ++ [' ']) [binopTok op] := by
  cases op <;> (simp only [binopChars, BinOp.symbol, binopTok]; lex_lit 2)

theorem lex_binop (op : BinOp) {B : List Char → Prop} {Y : List Char} {tY : List Tok} (h : Lx B Y tY) :
    Lx B (binopChars op ++ ' ' :: Y) (binopTok op :: tY) := by
  have := Lx.tThen (lex_binop_sp op) h
  rw [List.append_assoc] at this
  exact this

theorem lex_unop_sp (op : UnOp) : Lx T (unopChars op ++ [' ']) [unopTok op] := by
  cases op <;> (simp only [unopChars, unopTok]; lex_lit 2)

theorem lex_unop (op : UnOp) {B : List Char → Prop} {Y : List Char} {tY : List Tok} (h : Lx B Y tY) :
    Lx B (unopChars op ++ ' ' :: Y) (unopTok op :: tY) := by
  have := Lx.tThen (lex_unop_sp op) h
  rw [List.append_assoc] at this
  exact this

theorem lex_cond_sp (c : Cond) : Lx T (condChars c ++ [' ']) [.sym c.symbol] := by
  cases c <;> (simp only [condChars, Cond.symbol]; lex_lit 2)

theorem lex_cond (c : Cond) {B : List Char → Prop} {Y : List Char} {tY : List Tok} (h : Lx B Y tY) :
    Lx B (condChars c ++ ' ' :: Y) (.sym c.symbol :: tY) := by
  have := Lx.tThen (lex_cond_sp c) h
  rw [List.append_assoc] at this
  exact this

/-! ### instructions -/

macro "norm_instr" : tactic =>
  `(tactic| (delta instrChars; dsimp only;
             simp only [instrToks, opChars, opTok, List.append_assoc, List.cons_append, List.nil_append,
               List.append_nil, ↓reduceIte, Bool.false_eq_true]))

theorem lex_eqsp : Lx T " = ".toList [.sym "="] := by lex_lit 3


theorem lit_float : Lx T "float ".toList [.id "float"] := by lex_lit 2
theorem lit_literal : Lx T " = literal ".toList [.sym "=", .id "literal"] := by lex_lit 5
theorem lit_alloc : Lx T " = alloc ".toList [.sym "=", .id "alloc"] := by lex_lit 5
theorem lit_bytes : Lx T " bytes aligned at ".toList [.id "bytes", .id "aligned", .id "at"] := by lex_lit 7
theorem lit_ptr : Lx T "ptr ".toList [.id "ptr"] := by lex_lit 2
theorem lit_addr : Lx T " = &".toList [.sym "=", .sym "&"] := by lex_lit 4
theorem lit_cast : Lx T " = cast ".toList [.sym "=", .id "cast"] := by lex_lit 5
theorem lit_load : Lx T "load ".toList [.id "load"] := by lex_lit 2
theorem lit_volatile : Lx T "volatile ".toList [.id "volatile"] := by lex_lit 2
theorem lit_store : Lx T "store ".toList [.id "store"] := by lex_lit 2
theorem lit_memcpy : Lx T "memcpy(".toList [.id "memcpy", .sym "("] := by lex_lit 2
theorem lit_phi : Lx T " = phi ".toList [.sym "=", .id "phi"] := by lex_lit 5
theorem lit_eqcall : Lx T " = call ".toList [.sym "=", .id "call"] := by lex_lit 5
theorem lit_call : Lx T "call ".toList [.id "call"] := by lex_lit 2
theorem lit_jmp : Lx T "jmp ".toList [.id "jmp"] := by lex_lit 2
theorem lit_cjmp : Lx T "cjmp ".toList [.id "cjmp"] := by lex_lit 2
theorem lit_quest : Lx T " ? ".toList [.sym "?"] := by lex_lit 3
theorem lit_colon : Lx T " : ".toList [.sym ":"] := by lex_lit 3
theorem lit_return : Lx T "return ".toList [.id "return"] := by lex_lit 2
theorem lit_colonsp : Lx T [':', ' '] [.sym ":"] := by lex_lit 2

theorem lex_const (fmt : Nat → List Char) (c : ConstVal)
    (ht : ∀ b, c = .fbits b → floatTextOk fmt b = true) : Lx Semi (constChars fmt c) (constToks fmt c) := by
  cases c with
  | int v => exact (lexB_int v).semi
  | fbits b =>
    have h := ht b rfl
    simp only [floatTextOk, Bool.and_eq_true, List.all_eq_true, decide_eq_true_eq] at h
    simp only [constChars, constToks]
    by_cases hnf : nonFinite b = true
    · simp only [hnf, ↓reduceIte] at h ⊢
      have e : "float '".toList ++ fmt b ++ ['\''] = "float ".toList ++ ('\'' :: fmt b ++ ['\'']) := by
        simp only [List.append_assoc, List.cons_append]; rfl
      rw [e]
      exact Lx.tThen lit_float (lex_str (fmt b) (List.all_eq_true.mp h.2) h.1 Semi)
    · simp only [hnf, ↓reduceIte, Bool.false_eq_true] at h ⊢
      exact lex_float (fmt b) h.2 h.1

theorem lex_instr (fmt : Nat → List Char) (i : Instr) (hn : ∀ s ∈ instrNames i, identOk s = true)
    (ht : instrText fmt i = true) (hna : ∀ t a b c, i ≠ .asm t a b c) :
    Lx Semi (instrChars fmt i) (instrToks fmt i) := by
  cases i with
  | const d ty c =>
    have hd := hn d (by simp [instrNames, Instr.dst?])
    have hc : Lx Semi (constChars fmt c) (constToks fmt c) := by
      apply lex_const
      intro b hb
      rw [hb] at ht
      simpa only [instrText] using ht
    have hfin : Lx Semi (" = ".toList ++ constChars fmt c) ([.sym "="] ++ constToks fmt c) := Lx.tThen lex_eqsp hc
    have hmid : Lx Semi (d.toList ++ (" = ".toList ++ constChars fmt c)) ([.id d] ++ ([.sym "="] ++ constToks fmt c)) :=
      (lexB_id d hd).brkThen hfin (fun _ => bsp)
    show Lx Semi (tyChars ty ++ ' ' :: d.toList ++ " = ".toList ++ constChars fmt c)
      (tyToks ty ++ [.id d, .sym "="] ++ constToks fmt c)
    simp only [List.append_assoc, List.cons_append, List.nil_append]
    exact (lex_ty ty).brkThen (Lx.sp hmid) (fun _ => bsp)
  | undefined d ty =>
    have hd := hn d (by simp [instrNames, Instr.dst?])
    norm_instr
    have e : " = undefined".toList = " = ".toList ++ "undefined".toList := by rfl
    rw [e]
    exact (lex_ty ty).brkThen (Lx.sp ((lexB_id d hd).brkThen
      (Lx.tThen lex_eqsp (lexB_id "undefined" (by decide)).semi) (fun _ => bsp))) (fun _ => bsp)
  | literal d data =>
    have hd := hn d (by simp [instrNames, Instr.dst?])
    norm_instr
    have e : " = literal '".toList = " = literal ".toList ++ ['\''] := by rfl
    rw [e]
    simp only [List.append_assoc, List.cons_append, List.nil_append]
    exact (lex_ty _).brkThen (Lx.sp ((lexB_id d hd).brkThen
      (Lx.tThen lit_literal (lex_hex data Semi)) (fun _ => bsp))) (fun _ => bsp)
  | alloc d sz al =>
    have hd := hn d (by simp [instrNames, Instr.dst?])
    norm_instr
    exact (lex_ty _).brkThen (Lx.sp ((lexB_id d hd).brkThen
      (Lx.tThen lit_alloc ((lexB_nat sz).brkThen (Lx.tThen lit_bytes (lexB_nat al).semi) (fun _ => bsp)))
      (fun _ => bsp))) (fun _ => bsp)
  | addrof d s =>
    have hd := hn d (by simp [instrNames, Instr.dst?])
    have hs := hn (opName s) (by simp [instrNames, operands, Instr.uses])
    norm_instr
    exact Lx.tThen lit_ptr ((lexB_id d hd).brkThen (Lx.tThen lit_addr (lexB_id _ hs).semi) (fun _ => bsp))
  | binop d ty op a b =>
    have hd := hn d (by simp [instrNames, Instr.dst?])
    have ha := hn (opName a) (by simp [instrNames, operands, Instr.uses])
    have hb := hn (opName b) (by simp [instrNames, operands, Instr.uses])
    norm_instr
    exact (lex_ty ty).brkThen (Lx.sp ((lexB_id d hd).brkThen
      (Lx.tThen lex_eqsp ((lexB_id _ ha).brkThen (Lx.sp (lex_binop op (lexB_id _ hb).semi)) (fun _ => bsp)))
      (fun _ => bsp))) (fun _ => bsp)
  | unop d ty op a =>
    have hd := hn d (by simp [instrNames, Instr.dst?])
    have ha := hn (opName a) (by simp [instrNames, operands, Instr.uses])
    norm_instr
    exact (lex_ty ty).brkThen (Lx.sp ((lexB_id d hd).brkThen
      (Lx.tThen lex_eqsp (lex_unop op (lexB_id _ ha).semi)) (fun _ => bsp))) (fun _ => bsp)
  | cast d ty a =>
    have hd := hn d (by simp [instrNames, Instr.dst?])
    have ha := hn (opName a) (by simp [instrNames, operands, Instr.uses])
    norm_instr
    exact (lex_ty ty).brkThen (Lx.sp ((lexB_id d hd).brkThen
      (Lx.tThen lit_cast (lexB_id _ ha).semi) (fun _ => bsp))) (fun _ => bsp)
  | load d ty a vol =>
    have hd := hn d (by simp [instrNames, Instr.dst?])
    have ha := hn (opName a) (by simp [instrNames, operands, Instr.uses])
    cases vol
    · norm_instr
      exact (lex_ty ty).brkThen (Lx.sp ((lexB_id d hd).brkThen
        (Lx.tThen lex_eqsp (Lx.tThen lit_load (lexB_id _ ha).semi)) (fun _ => bsp))) (fun _ => bsp)
    · norm_instr
      exact (lex_ty ty).brkThen (Lx.sp ((lexB_id d hd).brkThen
        (Lx.tThen lex_eqsp (Lx.tThen lit_volatile (Lx.tThen lit_load (lexB_id _ ha).semi)))
        (fun _ => bsp))) (fun _ => bsp)
  | store ty v a vol =>
    have hv := hn (opName v) (by simp [instrNames, operands, Instr.uses])
    have ha := hn (opName a) (by simp [instrNames, operands, Instr.uses])
    cases vol
    · norm_instr
      exact Lx.tThen lit_store ((lexB_id _ hv).brkThen (Lx.tThen lex_comma (Lx.sp (lexB_id _ ha).semi))
        (fun _ => bcomma))
    · norm_instr
      exact Lx.tThen lit_volatile (Lx.tThen lit_store ((lexB_id _ hv).brkThen
        (Lx.tThen lex_comma (Lx.sp (lexB_id _ ha).semi)) (fun _ => bcomma)))
  | copyblob d s n =>
    have hd := hn (opName d) (by simp [instrNames, operands, Instr.uses])
    have hs := hn (opName s) (by simp [instrNames, operands, Instr.uses])
    norm_instr
    exact Lx.tThen lit_memcpy ((lexB_id _ hd).brkThen (Lx.tThen lex_comma (Lx.sp ((lexB_id _ hs).brkThen
      (Lx.tThen lex_comma (Lx.sp ((lexB_nat n).brkThen (lex_rparen.toT Semi) (fun _ => brparen)))) (fun _ => bcomma))))
      (fun _ => bcomma))
  | phi d ty ins =>
    have hd := hn d (by simp [instrNames, Instr.dst?])
    have hp : ∀ p ∈ phiPairs ins, identOk p.1 = true ∧ identOk p.2 = true := by
      intro p hp
      have := mem_sortPairs p _ hp
      obtain ⟨q, hq, rfl⟩ := List.mem_map.mp this
      exact ⟨hn q.1 (by simp only [instrNames, blockRefsOf, List.mem_append, List.mem_map]; exact Or.inr ⟨q, hq, rfl⟩),
        hn (opName q.2) (by
          simp only [instrNames, operands, List.mem_append, List.mem_map]
          exact Or.inl (Or.inr ⟨q.2, ⟨q, hq, rfl⟩, rfl⟩))⟩
    norm_instr
    have hl := lex_commaSep (fun p : String × String => p.1.toList ++ ':' :: ' ' :: p.2.toList)
      (fun p => [.id p.1, .sym ":", .id p.2]) Semi (fun _ h => semi_brk h) (phiPairs ins)
      (fun p hp' => (lexB_id p.1 (hp p hp').1).brkThen
        (Lx.tThen lit_colonsp (lexB_id p.2 (hp p hp').2)) (fun _ => bcolon))
    exact (lex_ty ty).brkThen (Lx.sp ((lexB_id d hd).brkThen (Lx.tThen lit_phi hl) (fun _ => bsp))) (fun _ => bsp)
  | fcall d ty c args =>
    have hd := hn d (by simp [instrNames, Instr.dst?])
    have hc := hn (opName c) (by simp [instrNames, operands, Instr.uses])
    have hargs : ∀ a ∈ args, identOk (opName a) = true := fun a ha =>
      hn (opName a) (by simp only [instrNames, operands, Instr.uses, List.mem_append, List.mem_map, List.mem_cons]
                        exact Or.inl (Or.inr ⟨a, Or.inr ha, rfl⟩))
    norm_instr
    have hl := lex_commaSep opChars (fun a => [opTok a]) Brk (fun _ h => h) args
      (fun a ha => lexB_id _ (hargs a ha))
    exact (lex_ty ty).brkThen (Lx.sp ((lexB_id d hd).brkThen (Lx.tThen lit_eqcall
      ((lexB_id _ hc).brkThen (Lx.tThen lex_lparen (hl.brkThen (lex_rparen.toT Semi) (fun _ => brparen)))
        (fun _ => blparen))) (fun _ => bsp))) (fun _ => bsp)
  | pcall c args =>
    have hc := hn (opName c) (by simp [instrNames, operands, Instr.uses])
    have hargs : ∀ a ∈ args, identOk (opName a) = true := fun a ha =>
      hn (opName a) (by simp only [instrNames, operands, Instr.uses, List.mem_append, List.mem_map, List.mem_cons]
                        exact Or.inl (Or.inr ⟨a, Or.inr ha, rfl⟩))
    norm_instr
    have hl := lex_commaSep opChars (fun a => [opTok a]) Brk (fun _ h => h) args
      (fun a ha => lexB_id _ (hargs a ha))
    exact Lx.tThen lit_call
      ((lexB_id _ hc).brkThen (Lx.tThen lex_lparen (hl.brkThen (lex_rparen.toT Semi) (fun _ => brparen)))
        (fun _ => blparen))
  | asm t a b c => exact absurd rfl (hna t a b c)
  | jump t =>
    have h1 := hn t (by simp [instrNames, blockRefsOf, Instr.targets])
    norm_instr
    exact Lx.tThen lit_jmp (lexB_id _ h1).semi
  | cjump a c b y n =>
    have ha := hn (opName a) (by simp [instrNames, operands, Instr.uses])
    have hb := hn (opName b) (by simp [instrNames, operands, Instr.uses])
    have hy := hn y (by simp [instrNames, blockRefsOf, Instr.targets])
    have hn' := hn n (by simp [instrNames, blockRefsOf, Instr.targets])
    norm_instr
    exact Lx.tThen lit_cjmp ((lexB_id _ ha).brkThen (Lx.sp (lex_cond c ((lexB_id _ hb).brkThen
      (Lx.tThen lit_quest ((lexB_id _ hy).brkThen (Lx.tThen lit_colon (lexB_id _ hn').semi) (fun _ => bsp)))
      (fun _ => bsp)))) (fun _ => bsp))
  | ret v =>
    have hv := hn (opName v) (by simp [instrNames, operands, Instr.uses])
    norm_instr
    exact Lx.tThen lit_return (lexB_id _ hv).semi
  | exit =>
    norm_instr
    exact (lexB_id "exit" (by decide)).semi

/-! ### blocks, functions, variables, externals, the module -/

theorem lit_indent4 : Lx T "    ".toList [] := by lex_lit 4
theorem lit_indent2 : Lx T "  ".toList [] := by lex_lit 2
theorem lit_seminl : Lx T ";\n".toList [.sym ";"] := by lex_lit 2
theorem lit_colonbrace : Lx T ": {\n".toList [.sym ":", .sym "{"] := by lex_lit 4
theorem lit_closeblock : Lx T "  }\n\n".toList [.sym "}"] := by lex_lit 5
theorem lit_function : Lx T " function ".toList [.id "function"] := by lex_lit 3
theorem lit_procedure : Lx T " procedure ".toList [.id "procedure"] := by lex_lit 3
theorem lit_openbrace : Lx T " {\n".toList [.sym "{"] := by lex_lit 3
theorem lit_closefunc : Lx T "}\n".toList [.sym "}"] := by lex_lit 2
theorem lit_variable : Lx T " variable ".toList [.id "variable"] := by lex_lit 3
theorem lit_splparen : Lx T " (".toList [.sym "("] := by lex_lit 2
theorem lit_nl : Lx T ['\n'] [] := by lex_lit 1
theorem lit_amp : Lx T ['&'] [.sym "&"] := by lex_lit 1
theorem lit_external : Lx T "external ".toList [.id "external"] := by lex_lit 2
theorem lit_variable' : Lx T "variable ".toList [.id "variable"] := by lex_lit 2
theorem lit_procedure' : Lx T "procedure ".toList [.id "procedure"] := by lex_lit 2
theorem lit_function' : Lx T "function ".toList [.id "function"] := by lex_lit 2
theorem lit_module : Lx T "module ".toList [.id "module"] := by lex_lit 2

/-- what the text fragment says about one instruction -/
def InstrOk (fmt : Nat → List Char) (i : Instr) : Prop :=
  (∀ s ∈ instrNames i, identOk s = true) ∧ instrText fmt i = true ∧ ∀ t a b c, i ≠ .asm t a b c

theorem lex_line (fmt : Nat → List Char) (i : Instr) (h : InstrOk fmt i) :
    Lx T ("    ".toList ++ instrChars fmt i ++ ";\n".toList) (instrToks fmt i ++ [.sym ";"]) := by
  rw [List.append_assoc]
  have := Lx.tThen lit_indent4 (Lx.append (lex_instr fmt i h.1 h.2.1 h.2.2) lit_seminl (fun _ _ => ⟨_, rfl⟩))
  exact this

theorem lex_block (fmt : Nat → List Char) (b : Block) (hname : identOk b.name = true)
    (hi : ∀ i ∈ b.instrs, InstrOk fmt i) : Lx T (blockChars fmt b) (blockToks fmt b) := by
  have hl := lex_flatten (fun i => "    ".toList ++ instrChars fmt i ++ ";\n".toList)
    (fun i => instrToks fmt i ++ [.sym ";"]) b.instrs (fun i h => lex_line fmt i (hi i h))
  simp only [blockChars, blockToks, List.append_assoc, List.cons_append, List.nil_append]
  exact Lx.tThen lit_indent2 ((lexB_id _ hname).brkThen (Lx.tThen lit_colonbrace (Lx.tThen hl lit_closeblock))
    (fun _ => bcolon))

theorem lex_binding (g : Bool) : Lx Brk (bindingChars g) [bindingTok g] := by
  cases g
  · exact lexB_id "local" (by decide)
  · exact lexB_id "global" (by decide)

theorem lex_func (fmt : Nat → List Char) (f : Func) (hname : identOk f.name = true)
    (hp : ∀ p ∈ f.params, identOk p.1 = true)
    (hb : ∀ b ∈ f.blocks, identOk b.name = true ∧ ∀ i ∈ b.instrs, InstrOk fmt i) :
    Lx T (funcChars fmt f) (funcToks fmt f) := by
  have hbl := lex_flatten (blockChars fmt) (blockToks fmt) f.blocks (fun b h => lex_block fmt b (hb b h).1 (hb b h).2)
  have hpar := lex_commaSep paramChars (fun p => tyToks p.2 ++ [.id p.1]) Brk (fun _ h => h) f.params
    (fun p h => (lex_ty p.2).brkThen (Lx.sp (lexB_id p.1 (hp p h))) (fun _ => bsp))
  have hrest : Lx T (f.name.toList ++ '(' :: (commaSep (f.params.map paramChars) ++ ')' :: (" {\n".toList ++
        ((f.blocks.map (blockChars fmt)).flatten ++ "}\n".toList))))
      ([.id f.name] ++ ([.sym "("] ++ (commaSepT (f.params.map (fun p => tyToks p.2 ++ [.id p.1])) ++ ([.sym ")"] ++
        ([.sym "{"] ++ ((f.blocks.map (blockToks fmt)).flatten ++ [.sym "}"])))))) :=
    (lexB_id _ hname).brkThen (Lx.tThen lex_lparen (hpar.brkThen
      (Lx.tThen lex_rparen (Lx.tThen lit_openbrace (Lx.tThen hbl lit_closefunc))) (fun _ => brparen))) (fun _ => blparen)
  cases hret : f.ret with
  | none =>
    simp only [funcChars, funcHeadChars, funcToks, hret, List.append_assoc, List.cons_append, List.nil_append]
    exact Lx.nl ((lex_binding f.isGlobal).brkThen (Lx.tThen lit_procedure hrest) (fun _ => bsp))
  | some t =>
    simp only [funcChars, funcHeadChars, funcToks, hret, List.append_assoc, List.cons_append, List.nil_append]
    exact Lx.nl ((lex_binding f.isGlobal).brkThen (Lx.tThen lit_function ((lex_ty t).brkThen (Lx.sp hrest)
      (fun _ => bsp))) (fun _ => bsp))

theorem Lx.thenNl {cs : List Char} {ts : List Tok} (h : Lx Brk cs ts) : Lx T (cs ++ ['\n']) ts := by
  have := h.brkThen lit_nl (fun _ => bnl)
  rwa [List.append_nil] at this

theorem lex_initPart (p : InitPart) (h : ∀ n, p = .ref n → identOk n = true) :
    Lx Brk (initPartChars p) (initPartToks p) := by
  cases p with
  | bytes bs => exact lex_hex bs Brk
  | ref n => exact Lx.tThen lit_amp (lexB_id n (h n rfl))

theorem lex_var (v : GVar) (hname : identOk v.name = true) (hinit : initText v.init = true) :
    Lx T (varChars v) (varToks v) := by
  cases hi : v.init with
  | none =>
    simp only [varChars, varToks, hi, List.append_assoc, List.cons_append, List.nil_append, List.append_nil]
    exact Lx.nl ((lex_binding v.isGlobal).brkThen (Lx.tThen lit_variable ((lexB_id _ hname).brkThen
      (Lx.tThen lit_splparen ((lexB_nat v.size).brkThen (Lx.tThen lit_bytes ((lexB_nat v.align).brkThen
        (Lx.tThen lex_rparen lit_nl) (fun _ => brparen))) (fun _ => bsp))) (fun _ => bsp))) (fun _ => bsp))
  | some ps =>
    rw [hi] at hinit
    simp only [initText, List.all_eq_true] at hinit
    have hps := lex_commaSep initPartChars initPartToks Brk (fun _ h => h) ps
      (fun p hp => lex_initPart p (fun n hn => by have := hinit p hp; rw [hn] at this; exact this))
    simp only [varChars, varToks, hi, List.append_assoc, List.cons_append, List.nil_append, List.append_nil]
    exact Lx.nl ((lex_binding v.isGlobal).brkThen (Lx.tThen lit_variable ((lexB_id _ hname).brkThen
      (Lx.tThen lit_splparen ((lexB_nat v.size).brkThen (Lx.tThen lit_bytes ((lexB_nat v.align).brkThen
        (Lx.tThen lex_rparen (Lx.tThen lex_eqsp hps.thenNl)) (fun _ => brparen)))
        (fun _ => bsp))) (fun _ => bsp))) (fun _ => bsp))

theorem lex_extern (e : Extern) (hname : identOk e.name = true) : Lx T (externChars e) (externToks e) := by
  cases hk : e.kind with
  | var =>
    simp only [externChars, externToks, hk, List.append_assoc, List.cons_append, List.nil_append]
    exact Lx.nl (Lx.tThen lit_external (Lx.tThen lit_variable' ((lexB_id _ hname).brkThen lit_seminl (fun _ => bsemi))))
  | proc ts =>
    have hts := lex_commaSep tyChars tyToks Brk (fun _ h => h) ts (fun t _ => lex_ty t)
    simp only [externChars, externToks, hk, List.append_assoc, List.cons_append, List.nil_append]
    exact Lx.nl (Lx.tThen lit_external (Lx.tThen lit_procedure' ((lexB_id _ hname).brkThen
      (Lx.tThen lex_lparen (hts.brkThen (Lx.tThen lex_rparen lit_seminl) (fun _ => brparen))) (fun _ => blparen))))
  | func ts r =>
    have hts := lex_commaSep tyChars tyToks Brk (fun _ h => h) ts (fun t _ => lex_ty t)
    simp only [externChars, externToks, hk, List.append_assoc, List.cons_append, List.nil_append]
    exact Lx.nl (Lx.tThen lit_external (Lx.tThen lit_function' ((lex_ty r).brkThen (Lx.sp ((lexB_id _ hname).brkThen
      (Lx.tThen lex_lparen (hts.brkThen (Lx.tThen lex_rparen lit_seminl) (fun _ => brparen))) (fun _ => blparen)))
      (fun _ => bsp))))

/-- what `funcCore` says about inline asm: there is none -/
theorem no_asm_of_funcCore {globals : List String} {f : Func} (h : funcCore globals f = true) :
    ∀ b ∈ f.blocks, ∀ i ∈ b.instrs, ∀ t a b' c, i ≠ .asm t a b' c := by
  intro b hb i hi t a b' c he
  simp only [funcCore, Bool.and_eq_true, List.all_eq_true] at h
  have hty := h.1.1.1.2 i (by simp only [Func.instrs, List.mem_flatMap]; exact ⟨b, hb, hi⟩)
  rw [he] at hty
  simp [typedOk] at hty

theorem lex_module (fmt : Nat → List Char) (m : Module) (hname : identOk m.name = true)
    (he : Lx T (m.externs.map externChars).flatten (m.externs.map externToks).flatten)
    (hv : Lx T (m.vars.map varChars).flatten (m.vars.map varToks).flatten)
    (hf : Lx T (m.funcs.map (funcChars fmt)).flatten (m.funcs.map (funcToks fmt)).flatten) :
    tokenize (printModule fmt m) = .ok (toksModule fmt m) := by
  have hall : Lx T ("module ".toList ++ (m.name.toList ++ (";\n".toList ++ ((m.externs.map externChars).flatten ++
        ((m.vars.map varChars).flatten ++ (m.funcs.map (funcChars fmt)).flatten)))))
      ([.id "module"] ++ ([.id m.name] ++ ([.sym ";"] ++ ((m.externs.map externToks).flatten ++
        ((m.vars.map varToks).flatten ++ (m.funcs.map (funcToks fmt)).flatten))))) :=
    Lx.tThen lit_module ((lexB_id _ hname).brkThen (Lx.tThen lit_seminl (Lx.tThen he (Lx.tThen hv hf)))
      (fun _ => bsemi))
  have e1 : printModule fmt m = "module ".toList ++ (m.name.toList ++ (";\n".toList ++
      ((m.externs.map externChars).flatten ++ ((m.vars.map varChars).flatten ++
        (m.funcs.map (funcChars fmt)).flatten)))) := by
    unfold printModule
    simp only [List.append_assoc]
  have e2 : toksModule fmt m = ([.id "module"] ++ ([.id m.name] ++ ([.sym ";"] ++ ((m.externs.map externToks).flatten ++
        ((m.vars.map varToks).flatten ++ (m.funcs.map (funcToks fmt)).flatten))))) ++ [.eof] := by
    unfold toksModule
    simp only [List.append_assoc, List.cons_append, List.nil_append]
  rw [e1, e2]
  exact hall.tokenize trivial

theorem fragText_funcs (fmt : Nat → List Char) (m : Module) (h : fragText fmt m = true) :
    ∀ f ∈ m.funcs, funcText fmt f = true ∧ funcCore m.globalNames f = true := by
  intro f hf
  simp only [fragText, Bool.and_eq_true, List.all_eq_true] at h
  obtain ⟨⟨⟨⟨hcore, _⟩, _⟩, _⟩, hfuncs⟩ := h
  simp only [fragCore, Bool.and_eq_true, List.all_eq_true] at hcore
  exact ⟨hfuncs f hf, hcore.2 f hf⟩

theorem lex_func_of_text (fmt : Nat → List Char) (globals : List String) (f : Func) (ht : funcText fmt f = true)
    (hc : funcCore globals f = true) : Lx T (funcChars fmt f) (funcToks fmt f) := by
  simp only [funcText, Bool.and_eq_true, List.all_eq_true] at ht
  have hna := no_asm_of_funcCore hc
  exact lex_func fmt f ht.1.1 ht.1.2
    (fun b hb => ⟨(ht.2 b hb).1, fun i hi => ⟨((ht.2 b hb).2 i hi).1, ((ht.2 b hb).2 i hi).2, hna b hb i hi⟩⟩)

/-- **the character-to-token step**: for every module of the text fragment the tokenizer reads the printed
    characters back as exactly the token list `toksModule` -/
theorem tokenize_printModule (fmt : Nat → List Char) (m : Module) (h : fragText fmt m = true) :
    tokenize (printModule fmt m) = .ok (toksModule fmt m) := by
  have hfs := fragText_funcs fmt m h
  simp only [fragText, Bool.and_eq_true, List.all_eq_true] at h
  obtain ⟨⟨⟨⟨_, hname⟩, hext⟩, hvars⟩, _⟩ := h
  exact lex_module fmt m hname
    (lex_flatten externChars externToks m.externs (fun e he => lex_extern e (hext e he)))
    (lex_flatten varChars varToks m.vars (fun v hv => lex_var v (hvars v hv).1 (hvars v hv).2))
    (lex_flatten (funcChars fmt) (funcToks fmt) m.funcs
      (fun f hf => lex_func_of_text fmt m.globalNames f (hfs f hf).1 (hfs f hf).2))

end Proofs.IRLex
