import PpciVerif.Gen.Py_constantfolding
import PpciVerif.Model.ConstFold
import PpciVerif.Proofs.T1_PyRt
/-!
T1 translation tie for the leaf helpers of `ppci/opt/constantfolding.py`
(`correct`, `cast`, `irem`): `Gen.Py_constantfolding` (REGENERATED from the source on
every run) equals the hand model `Model.ConstFold` that the theorems of C38 are about.
The `ty` object is seen through the attributes the functions read (`ty.bits`,
`ty.signed`, `ty.is_integer`, the two `isinstance` tests), each an `Int` parameter.
-/
set_option linter.unusedSimpArgs false   -- simp sets list alternative spellings (`1 << n` / `2 ** n`)
namespace Proofs.T1.ConstFold
open Model Model.PyRt Model.ConstFold Gen.Py_constantfolding Proofs.T1

def errOf : Model.ConstFold.Err → PyErr
  | .ZeroDivisionError => .ZeroDivisionError | .ValueError => .ValueError
  | .AssertionError => .AssertionError | .NotImplementedError => .NotImplementedError

def liftI : Except Model.ConstFold.Err Int → Except PyErr Int
  | .ok v => .ok v
  | .error e => .error (errOf e)

theorem bitLength_eq {v : Int} (h : 0 ≤ v) : PyInt.bitLength v = Model.ConstFold.bitLength v.toNat := by
  obtain ⟨n, rfl⟩ := Int.eq_ofNat_of_zero_le h
  simp [PyInt.bitLength, Model.ConstFold.bitLength]

theorem gen_correct_eq_model (fuel : Nat) (value : Int) (ty : Typ) :
    Gen.Py_constantfolding.correct fuel value (ty.bits : Int) (PyRt.ofBool ty.signed) = .ok (Model.ConstFold.correct value ty) := by
  unfold Gen.Py_constantfolding.correct Model.ConstFold.correct
  have hpos : (0 : Int) < 2 ^ ty.bits := Int.pow_pos (by decide)
  have h0 : 0 ≤ value % 2 ^ ty.bits := Int.emod_nonneg _ (by omega)
  simp only [shl_natCast, pow_natCast, bind_ok, Int.one_mul]
  simp only [mod_of_pos _ hpos, bind_ok, PyRt.bitLength, PyRt.ofBool, bitLength_eq h0]
  cases ty.signed
  · simp
  · by_cases hbl : Model.ConstFold.bitLength (value % 2 ^ ty.bits).toNat = ty.bits
    · simp [hbl]
    · have : ¬ ((Model.ConstFold.bitLength (value % 2 ^ ty.bits).toNat : Int) = (ty.bits : Int)) := by omega
      simp [hbl, this]

/-- `cast` on an integer type (not a pointer type, `is_integer` true) and an `int` value -/
theorem gen_cast_eq_model (fuel : Nat) (value : Int) (ty : Typ) (isFloat : Int) :
    Gen.Py_constantfolding.cast fuel value 0 1 (ty.bits : Int) (PyRt.ofBool ty.signed) isFloat
      = .ok (Model.ConstFold.cast value ty) := by
  unfold Gen.Py_constantfolding.cast Model.ConstFold.cast
  simp [gen_correct_eq_model]

/-- `cast` to a pointer type returns the `int` unchanged (outside the hand model, shown for the record) -/
theorem gen_cast_pointer (fuel : Nat) (value isPtr isInt bits signed isFloat : Int) (h : isPtr ≠ 0) :
    Gen.Py_constantfolding.cast fuel value isPtr isInt bits signed isFloat = .ok value := by
  unfold Gen.Py_constantfolding.cast
  simp [h]

theorem gen_irem_eq_model (fuel : Nat) (a b : Int) :
    Gen.Py_constantfolding.irem fuel a b = liftI (Model.ConstFold.irem a b) := by
  unfold Gen.Py_constantfolding.irem Model.ConstFold.irem pyMod PyRt.mod
  simp only [abs_eq, pyAbs]
  by_cases hb : (if b < 0 then -b else b) = 0
  · simp [hb, liftI, errOf]
  · simp [hb, liftI]

end Proofs.T1.ConstFold
