import PpciVerif.Proofs.LinkerSim
/-! Helper lemmas for C12: assembling the failure characterisation of `link`. -/
namespace Proofs.Linker
open Model.Linker
open Spec.Link (Env envOfPieces placeLayout MemPlan memDefs placedNames memories definedNames referencedNames
  objDefs objGlobals pieces plans entryCount)

/-- `Linker.link` in a normal form: the layout step always runs over `memories inp`
    (empty for partial links and links without layout) -/
def linkN (inp : LinkInput) : Except Err (Obj × List ObjTrace) :=
  match initEntry (entryName inp) with
  | .error e => .error e
  | .ok d0 =>
    match addExtras d0 inp.extras with
    | .error e => .error e
    | .ok d1 =>
      match mergeObjects d1 inp.objs with
      | .error e => .error e
      | .ok (d2, tr) =>
        match layoutSections d2 (memories inp) with
        | .error e => .error e
        | .ok d3 =>
          match checkPlacedOnce d3 with
          | .error e => .error e
          | .ok _ =>
            if inp.partialLink then .ok (d3, tr)
            else if hasUndefined d3.symbols then .error .CompilerError else .ok (d3, tr)

theorem linkT_eq_linkN (inp : LinkInput) (hne : inp.objs ≠ [])
    (hpl : ¬ (inp.partialLink = true ∧ inp.layout.isSome = true)) : linkT inp = linkN inp := by
  unfold linkT linkN
  have : inp.objs.isEmpty = false := by
    cases h : inp.objs with
    | nil => exact absurd h hne
    | cons _ _ => rfl
  simp only [this, Bool.false_eq_true, if_false]
  cases h0 : initEntry (entryName inp) with
  | error e => rfl
  | ok d0 =>
    simp only
    cases h1 : addExtras d0 inp.extras with
    | error e => rfl
    | ok d1 =>
      simp only
      cases h2 : mergeObjects d1 inp.objs with
      | error e => rfl
      | ok p =>
        obtain ⟨d2, tr⟩ := p
        simp only
        have himg : d2.images = [] := by
          have a := initEntry_ok h0
          have b := addExtras_ok h1 a.2.2.2
          rw [mergeObjects_images h2, b.2.1, a.2.1]
        have hchk : checkPlacedOnce d2 = .ok () := by simp [checkPlacedOnce, himg]
        by_cases hp : inp.partialLink = true
        · have hl : inp.layout.isSome = false := by
            cases h : inp.layout.isSome with
            | false => rfl
            | true => exact absurd ⟨hp, h⟩ hpl
          have hm : memories inp = [] := by
            unfold memories; cases inp.layout <;> simp [hp]
          simp [hp, hl, hm, layoutSections, hchk]
        · have hp' : inp.partialLink = false := by simpa using hp
          cases hl : inp.layout with
          | none =>
            have hm : memories inp = [] := by unfold memories; simp [hl]
            simp only [hp', hm, layoutSections, checkUndefined, Bool.false_eq_true, if_false, hchk]
            by_cases hu : hasUndefined d2.symbols = true <;> simp [hu]
          | some l =>
            have hm : memories inp = l.memories := by unfold memories; simp [hl, hp']
            simp only [hp', hm, Bool.false_eq_true, if_false, layoutChecked]
            cases layoutSections d2 l.memories with
            | error e => rfl
            | ok d3 =>
              simp only
              cases checkPlacedOnce d3 with
              | error e => rfl
              | ok _ =>
                simp only [checkUndefined]
                by_cases hu : hasUndefined d3.symbols = true <;> simp [hu]

/-! ### well-formed requests -/

structure WFp (inp : LinkInput) : Prop where
  nonempty : inp.objs ≠ []
  objs : ∀ o ∈ inp.objs, ObjOK o
  entry : entryCount inp ≤ 1
  entry_extra : ∀ e, entryName inp = some e → e ∉ inp.extras.map (·.1)
  no_partial_layout : ¬ (inp.partialLink = true ∧ inp.layout.isSome = true)
  plans : ∃ ps, plans inp = some ps
  nodup : (placedNames (memories inp)).Nodup

theorem WF_unpack {inp : LinkInput} (h : Spec.Link.WF inp = true) : WFp inp := by
  unfold Spec.Link.WF at h
  simp only [Bool.and_eq_true, decide_eq_true_eq, Bool.not_eq_true', List.all_eq_true] at h
  obtain ⟨⟨⟨⟨⟨⟨h1, h2⟩, h3⟩, h4⟩, h5⟩, h6⟩, h7⟩ := h
  refine ⟨?_, fun o ho => objWF_ok (h2 o ho), h3, ?_, ?_, ?_, h7⟩
  · intro e; rw [e] at h1; simp at h1
  · intro e he
    rw [he] at h4
    simpa using h4
  · intro hc
    simp [hc.1, hc.2] at h5
  · cases hp : plans inp with
    | none => rw [hp] at h6; cases h6
    | some ps => exact ⟨ps, rfl⟩

theorem fresh_nil_iff (L : List String) : Fresh [] L ↔ L.Nodup := by simp [Fresh]

/-- the success condition of a well-formed request, in terms of `Spec.Link` -/
def OkCond (inp : LinkInput) (ps : List MemPlan) : Prop :=
  (definedNames inp).Nodup ∧ Fits (memories inp) ps ∧
  (inp.partialLink = false → ∀ n ∈ referencedNames inp, n ∈ definedNames inp)

theorem linkN_run {inp : LinkInput} (wf : WFp inp) {ps : List MemPlan} (hps : plans inp = some ps) :
    (OkCond inp ps → ∃ out tr, linkN inp = .ok (out, tr)) ∧
    (¬ OkCond inp ps → linkN inp = .error .CompilerError) := by
  -- abbreviations
  let E := (entryName inp).toList
  let X := inp.extras.map (·.1)
  let OD := inp.objs.flatMap objDefs
  let OG := inp.objs.flatMap objGlobals
  let MD := (memories inp).flatMap memDefs
  have hdef : definedNames inp = X ++ OD ++ MD := rfl
  have href : referencedNames inp = E ++ OG := rfl
  -- stage 0/1: entry and extra symbols
  obtain ⟨d0, h0, tab0, hen0, hs0⟩ := initEntry_run (entryName inp)
  have ⟨a1, a2⟩ := addExtras_run (xs := inp.extras) tab0
  have hFX : Fresh E X ↔ X.Nodup := by
    unfold Fresh
    constructor
    · exact fun h => h.1
    · intro h
      refine ⟨h, fun n hn hE => ?_⟩
      cases he : entryName inp with
      | none => simp [E, he] at hE
      | some e =>
        simp [E, he] at hE
        subst hE
        exact wf.entry_extra n he hn
  -- splitting Nodup (X ++ OD ++ MD)
  have hsplit : (X ++ OD ++ MD).Nodup ↔ X.Nodup ∧ Fresh X OD ∧ Fresh (X ++ OD) MD := by
    rw [← fresh_nil_iff, List.append_assoc, fresh_cons_iff, fresh_cons_iff, fresh_nil_iff]
    simp
  unfold linkN
  rw [h0]
  simp only
  by_cases hX : X.Nodup
  · obtain ⟨d1, h1, tab1, hen1, hs1⟩ := a2 (hFX.2 hX)
    rw [h1]
    simp only
    -- stage 2: objects
    have hcount : (if d1.entry.isSome then 1 else 0) + (inp.objs.filter (fun o => o.entry.isSome)).length ≤ 1 := by
      have := wf.entry
      unfold entryCount at this
      rw [hen1]
      cases he : entryName inp with
      | none => rw [he] at hen0 this; simp at hen0; simp [hen0] at this ⊢; omega
      | some e => rw [he] at hen0 this; simp at hen0; simp [hen0] at this ⊢; omega
    have ⟨m1, m2⟩ := mergeObjects_run (objs := inp.objs) tab1 wf.objs hcount
    by_cases hOD : Fresh ([] ++ X) OD
    · obtain ⟨d2, tr, h2, tab2⟩ := m2 hOD
      rw [h2]
      simp only
      -- stage 3: layout
      have hid0 := (initEntry_ok h0).2.2.2
      have hid1 := (addExtras_ok h1 hid0).2.2.2.1
      have hid2 := (mergeObjects_syms h2 hid1).2.1
      have hsim : SimEnv d2.sections (envOfPieces [] (pieces inp)) := by
        have : SimEnv d1.sections [] := by rw [hs1, hs0]; exact SimEnv.nil
        exact SimEnv.mergeObjects this h2
      have ⟨l1, l2⟩ := layoutSections_sim (mems := memories inp) hsim tab2 hid2 wf.nodup hps
      by_cases hL : Fresh ([] ++ X ++ OD) MD ∧ Fits (memories inp) ps
      · obtain ⟨d3, h3, tab3⟩ := l2 hL
        rw [h3]
        simp only
        have hchk : checkPlacedOnce d3 = .ok () := by
          have himg : d2.images = [] := by
            rw [mergeObjects_images h2, (addExtras_ok h1 hid0).2.1, (initEntry_ok h0).2.1]
          unfold checkPlacedOnce
          rw [layoutSections_imgnames h3, himg]
          simp [wf.nodup]
        rw [hchk]
        simp only
        have hnodup : (definedNames inp).Nodup := by
          rw [hdef, hsplit]; exact ⟨hX, by simpa using hOD, by simpa using hL.1⟩
        by_cases hp : inp.partialLink = true
        · simp only [hp, if_true]
          refine ⟨fun _ => ⟨_, _, rfl⟩, fun hn => absurd ⟨hnodup, hL.2, fun hf => ?_⟩ hn⟩
          rw [hp] at hf; cases hf
        · have hp' : inp.partialLink = false := by simpa using hp
          simp only [hp', Bool.false_eq_true, if_false]
          -- stage 4: undefined symbols
          have hund : hasUndefined d3.symbols = true ↔ ∃ n ∈ referencedNames inp, n ∉ definedNames inp := by
            rw [hasUndefined_iff tab3.uniq]
            constructor
            · rintro ⟨n, hn, hd⟩
              have hn' := (tab3.names n).1 hn
              have hd' : n ∉ definedNames inp := fun h => hd ((tab3.defs n).2 (show n ∈ [] ++ X ++ OD ++ MD from hdef ▸ h))
              refine ⟨n, ?_, hd'⟩
              rw [href]
              simp only [List.mem_append] at hn' ⊢
              rcases hn' with ((hn' | hn') | hn') | hn'
              · exact Or.inl hn'
              · exact absurd (by rw [hdef]; simp [X, hn']) hd'
              · exact Or.inr hn'
              · exact absurd (by rw [hdef]; simp [MD, hn']) hd'
            · rintro ⟨n, hn, hd⟩
              refine ⟨n, (tab3.names n).2 ?_, fun h => hd ?_⟩
              · rw [href] at hn
                simp only [List.mem_append] at hn ⊢
                rcases hn with hn | hn
                · exact Or.inl (Or.inl (Or.inl hn))
                · exact Or.inl (Or.inr hn)
              · have : n ∈ [] ++ X ++ OD ++ MD := (tab3.defs n).1 h
                rw [hdef]; exact this
          by_cases hu : hasUndefined d3.symbols = true
          · simp only [hu, if_true]
            refine ⟨fun hc => ?_, fun _ => (by first | rfl | trivial)⟩
            obtain ⟨n, hn, hd⟩ := hund.1 hu
            exact absurd (hc.2.2 hp' n hn) hd
          · simp only [hu]
            refine ⟨fun _ => ⟨_, _, rfl⟩, fun hn => absurd ⟨hnodup, hL.2, fun _ n hr => ?_⟩ hn⟩
            rcases Classical.em (n ∈ definedNames inp) with h | h
            · exact h
            · exact absurd (hund.2 ⟨n, hr, h⟩) hu
      · rw [l1 hL]
        refine ⟨fun hc => absurd ⟨?_, hc.2.1⟩ hL, fun _ => rfl⟩
        have := (hsplit.1 (hdef ▸ hc.1)).2.2
        simpa using this
    · rw [m1 hOD]
      refine ⟨fun hc => absurd ?_ hOD, fun _ => rfl⟩
      have := (hsplit.1 (hdef ▸ hc.1)).2.1
      simpa using this
  · rw [a1 (fun hf => hX (hFX.1 hf))]
    exact ⟨fun hc => absurd (hsplit.1 (hdef ▸ hc.1)).1 hX, fun _ => rfl⟩

open Spec.Link (DupGlobal UndefGlobal Overfull)

theorem okCond_iff {inp : LinkInput} {ps : List MemPlan} (hps : plans inp = some ps) :
    ¬ OkCond inp ps ↔ DupGlobal inp ∨ UndefGlobal inp ∨ Overfull inp := by
  unfold OkCond DupGlobal UndefGlobal Overfull
  rw [hps]
  constructor
  · intro h
    rcases Classical.em ((definedNames inp).Nodup) with h1 | h1
    · rcases Classical.em (Fits (memories inp) ps) with h2 | h2
      · right; left
        rcases Classical.em (inp.partialLink = false ∧ ∃ n, n ∈ referencedNames inp ∧ n ∉ definedNames inp) with h3 | h3
        · exact h3
        · refine absurd ⟨h1, h2, fun hp n hn => ?_⟩ h
          rcases Classical.em (n ∈ definedNames inp) with h4 | h4
          · exact h4
          · exact absurd ⟨hp, n, hn, h4⟩ h3
      · right; right
        refine ⟨ps, rfl, ?_⟩
        unfold Fits at h2
        rcases Classical.em (∃ p ∈ (memories inp).zip ps, p.2.need > p.1.size) with h5 | h5
        · exact h5
        · refine absurd (fun q hq => ?_) h2
          rcases Nat.lt_or_ge q.1.size q.2.need with h6 | h6
          · exact absurd ⟨q, hq, h6⟩ h5
          · exact h6
    · exact Or.inl h1
  · rintro (h | ⟨hp, n, hn, hd⟩ | ⟨ps', e, q, hq, hgt⟩) hc
    · exact h hc.1
    · exact hd (hc.2.2 hp n hn)
    · cases e
      have := hc.2.1 q hq
      omega

/-- Failure characterisation of `link` on well-formed requests. -/
theorem linkT_fails_iff {inp : LinkInput} (wf : Spec.Link.WF inp = true) :
    ((∃ e, linkT inp = .error e) ↔ DupGlobal inp ∨ UndefGlobal inp ∨ Overfull inp) ∧
    (∀ e, linkT inp = .error e → e = .CompilerError) := by
  have w := WF_unpack wf
  obtain ⟨ps, hps⟩ := w.plans
  rw [linkT_eq_linkN inp w.nonempty w.no_partial_layout]
  have ⟨r1, r2⟩ := linkN_run w hps
  rw [← okCond_iff hps]
  constructor
  · constructor
    · rintro ⟨e, he⟩ hc
      obtain ⟨out, tr, hok⟩ := r1 hc
      rw [hok] at he; cases he
    · intro hn; exact ⟨_, r2 hn⟩
  · intro e he
    rcases Classical.em (OkCond inp ps) with hc | hc
    · obtain ⟨out, tr, hok⟩ := r1 hc
      rw [hok] at he; cases he
    · rw [r2 hc] at he; cases he; rfl

end Proofs.Linker
