import PpciVerif.Proofs.Regex
/-! Helper lemmas for C31, part 2: sorting of transitions, `pick_transition` (bisect), and the
work-list invariant of `compile`, generic in the kind of state (`Regex` or `ExpressionVector`). -/
set_option linter.unusedSectionVars false
namespace Proofs.Regex
open Spec.Lang Spec.RegexLang Model.Regex Model Spec.IntSet

/-! ### small list facts -/

theorem getElem?_append_some {α} {l l' : List α} {i : Nat} {v : α} (h : l[i]? = some v) :
    (l ++ l')[i]? = some v := by
  have hi : i < l.length := by
    rcases Nat.lt_or_ge i l.length with hi | hi
    · exact hi
    · rw [List.getElem?_eq_none hi] at h; cases h
  rw [List.getElem?_append_left hi]; exact h

theorem lt_of_getElem? {α} {l : List α} {i : Nat} {v : α} (h : l[i]? = some v) : i < l.length := by
  rcases Nat.lt_or_ge i l.length with hi | hi
  · exact hi
  · rw [List.getElem?_eq_none hi] at h; cases h

theorem mem_of_getElem?' {α} {l : List α} {i : Nat} {v : α} (h : l[i]? = some v) : v ∈ l :=
  List.mem_of_getElem? h

section idx
variable {σ : Type} [DecidableEq σ]

theorem indexOf_spec {x : σ} : ∀ {l : List σ}, x ∈ l → l[indexOf x l]? = some x
  | [], h => by simp at h
  | y :: t, h => by
    unfold indexOf
    split
    · next e => simp [e]
    · next e =>
      have : x ∈ t := by
        rcases List.mem_cons.1 h with h | h
        · exact absurd h.symm e
        · exact h
      simpa using indexOf_spec this

theorem indexOf_append_of_mem {x : σ} : ∀ {l : List σ} (l' : List σ), x ∈ l → indexOf x (l ++ l') = indexOf x l
  | [], _, h => by simp at h
  | y :: t, l', h => by
    simp only [List.cons_append, indexOf]
    split
    · rfl
    · next e =>
      have : x ∈ t := by
        rcases List.mem_cons.1 h with h | h
        · exact absurd h.symm e
        · exact h
      rw [indexOf_append_of_mem l' this]

theorem indexOf_append_self {x : σ} : ∀ {l : List σ}, x ∉ l → indexOf x (l ++ [x]) = l.length
  | [], _ => by simp [indexOf]
  | y :: t, h => by
    simp only [List.cons_append, indexOf, List.length_cons]
    have hne : y ≠ x := fun e => h (by simp [e])
    have : x ∉ t := fun hx => h (List.mem_cons_of_mem _ hx)
    simp [hne, indexOf_append_self this]

theorem indexOf_unique {x : σ} : ∀ {l : List σ} {i : Nat}, l.Nodup → l[i]? = some x → indexOf x l = i
  | [], i, _, h => by simp at h
  | y :: t, i, hn, h => by
    have hn' := List.nodup_cons.1 hn
    cases i with
    | zero =>
      simp only [List.getElem?_cons_zero, Option.some.injEq] at h
      simp [indexOf, h]
    | succ i =>
      simp only [List.getElem?_cons_succ] at h
      have hx : x ∈ t := List.mem_of_getElem? h
      have hne : y ≠ x := fun e => hn'.1 (e ▸ hx)
      simp [indexOf, hne, indexOf_unique hn'.2 h]

end idx

theorem length_modifyAt {α} (f : α → α) : ∀ (n : Nat) (l : List α), (modifyAt f n l).length = l.length
  | n, [] => by cases n <;> rfl
  | 0, _ :: _ => rfl
  | n + 1, _ :: t => by simp [modifyAt, length_modifyAt f n t]

theorem getElem?_modifyAt_ne {α} (f : α → α) : ∀ (n : Nat) (l : List α) (i : Nat), i ≠ n →
    (modifyAt f n l)[i]? = l[i]?
  | n, [], _, _ => by cases n <;> rfl
  | 0, _ :: _, i, h => by
    cases i with
    | zero => exact absurd rfl h
    | succ i => rfl
  | n + 1, a :: t, i, h => by
    cases i with
    | zero => rfl
    | succ i =>
      simp only [modifyAt, List.getElem?_cons_succ]
      exact getElem?_modifyAt_ne f n t i (fun e => h (by rw [e]))

theorem getElem?_modifyAt_eq {α} (f : α → α) : ∀ (n : Nat) (l : List α) (v : α), l[n]? = some v →
    (modifyAt f n l)[n]? = some (f v)
  | n, [], _, h => by simp at h
  | 0, a :: _, v, h => by
    simp only [List.getElem?_cons_zero, Option.some.injEq] at h
    simp [modifyAt, h]
  | n + 1, a :: t, v, h => by
    simp only [List.getElem?_cons_succ] at h
    simp only [modifyAt, List.getElem?_cons_succ]
    exact getElem?_modifyAt_eq f n t v h

/-! ### sorted transition lists and `pick_transition` -/

/-- the ranges of two transitions do not overlap -/
def DisjR (x y : Trans) : Prop := x.2.1 < y.1 ∨ y.2.1 < x.1

/-- ascending, non-overlapping, non-empty ranges -/
def RangesOK (T : List Trans) : Prop := T.Pairwise (fun x y => x.2.1 < y.1) ∧ ∀ x ∈ T, x.1 ≤ x.2.1

theorem mem_insertT (x w : Trans) : ∀ (l : List Trans), w ∈ insertT x l ↔ w = x ∨ w ∈ l
  | [] => by simp [insertT]
  | y :: t => by
    unfold insertT
    split
    · simp
    · simp only [List.mem_cons, mem_insertT x w t]
      constructor
      · rintro (h | h | h)
        · exact .inr (.inl h)
        · exact .inl h
        · exact .inr (.inr h)
      · rintro (h | h | h)
        · exact .inr (.inl h)
        · exact .inl h
        · exact .inr (.inr h)

theorem lexLeT_fst {x y : Trans} (h : lexLeT x y = true) : x.1 ≤ y.1 := by
  simp only [lexLeT, Bool.or_eq_true, Bool.and_eq_true, decide_eq_true_eq] at h
  omega

theorem not_lexLeT_fst {x y : Trans} (h : ¬ lexLeT x y = true) : y.1 ≤ x.1 := by
  simp only [lexLeT, Bool.or_eq_true, Bool.and_eq_true, decide_eq_true_eq] at h
  omega

theorem rangesOK_insertT (x : Trans) (hx : x.1 ≤ x.2.1) : ∀ (l : List Trans), RangesOK l →
    (∀ y ∈ l, DisjR x y) → RangesOK (insertT x l)
  | [], _, _ => by simp [insertT, RangesOK, hx]
  | y :: t, hl, hd => by
    have hy : y.1 ≤ y.2.1 := hl.2 y (by simp)
    have hpw := List.pairwise_cons.1 hl.1
    have hdy := hd y (by simp)
    unfold insertT
    split
    · next hle =>
      have h1 := lexLeT_fst hle
      have hxy : x.2.1 < y.1 := by
        rcases hdy with h | h
        · exact h
        · omega
      refine ⟨List.pairwise_cons.2 ⟨?_, hl.1⟩, ?_⟩
      · intro z hz
        rcases List.mem_cons.1 hz with rfl | hz
        · exact hxy
        · have := hpw.1 z hz; omega
      · intro z hz
        rcases List.mem_cons.1 hz with rfl | hz
        · exact hx
        · exact hl.2 z hz
    · next hle =>
      have h1 := not_lexLeT_fst hle
      have hyx : y.2.1 < x.1 := by
        rcases hdy with h | h
        · omega
        · exact h
      have ih := rangesOK_insertT x hx t ⟨hpw.2, fun z hz => hl.2 z (List.mem_cons_of_mem _ hz)⟩
        (fun z hz => hd z (List.mem_cons_of_mem _ hz))
      refine ⟨List.pairwise_cons.2 ⟨?_, ih.1⟩, ?_⟩
      · intro z hz
        rcases (mem_insertT x z t).1 hz with rfl | hz
        · exact hyx
        · exact hpw.1 z hz
      · intro z hz
        rcases List.mem_cons.1 hz with rfl | hz
        · exact hy
        · exact ih.2 z hz

theorem rangesOK_sortT : ∀ (T : List Trans), T.Pairwise DisjR → (∀ x ∈ T, x.1 ≤ x.2.1) →
    RangesOK (sortT T) ∧ ∀ w, w ∈ sortT T ↔ w ∈ T
  | [], _, _ => by simp [sortT, RangesOK]
  | x :: t, hp, hn => by
    have hp' := List.pairwise_cons.1 hp
    have ih := rangesOK_sortT t hp'.2 (fun z hz => hn z (List.mem_cons_of_mem _ hz))
    refine ⟨rangesOK_insertT x (hn x (by simp)) _ ih.1 (fun y hy => hp'.1 y ((ih.2 y).1 hy)), ?_⟩
    intro w
    simp only [sortT, mem_insertT, ih.2 w, List.mem_cons]

theorem getD_eq' (T : List Trans) (d : Trans) (k : Nat) (hk : k < T.length) : T.getD k d = T[k] := by
  simp [List.getD, hk]

theorem rangesOK_idx (T : List Trans) (h : RangesOK T) (i j : Nat) (hij : i < j) (hj : j < T.length) :
    (T.getD i (0, 0, 0)).2.1 < (T.getD j (0, 0, 0)).1 := by
  rw [getD_eq' T _ i (by omega), getD_eq' T _ j hj]
  exact (List.pairwise_iff_getElem.1 h.1) i j (by omega) hj hij

theorem rangesOK_ne (T : List Trans) (h : RangesOK T) (i : Nat) (hi : i < T.length) :
    (T.getD i (0, 0, 0)).1 ≤ (T.getD i (0, 0, 0)).2.1 := by
  rw [getD_eq' T _ i hi]
  exact h.2 _ (List.getElem_mem hi)

theorem bisectLoop_spec (T : List Trans) (hc : RangesOK T) (v : Int) (lo hi : Nat)
    (hlh : lo ≤ hi) (hhi : hi ≤ T.length)
    (hlo : ∀ k, k < lo → (T.getD k (0, 0, 0)).1 < v)
    (hup : ∀ k, hi ≤ k → k < T.length → v ≤ (T.getD k (0, 0, 0)).1) :
    bisectLoop T v lo hi ≤ T.length ∧
    (∀ k, k < bisectLoop T v lo hi → (T.getD k (0, 0, 0)).1 < v) ∧
    (∀ k, bisectLoop T v lo hi ≤ k → k < T.length → v ≤ (T.getD k (0, 0, 0)).1) := by
  fun_induction bisectLoop T v lo hi with
  | case1 lo hi h mid hle ih =>
    apply ih (by omega) (by omega) hlo
    intro k hk hkl
    by_cases e : k = mid
    · subst e; exact hle
    · have := rangesOK_idx T hc mid k (by omega) hkl
      have := rangesOK_ne T hc mid (by omega)
      omega
  | case2 lo hi h mid hle ih =>
    apply ih (by omega) (by omega) _ hup
    intro k hk
    by_cases e : k = mid
    · subst e; omega
    · have := rangesOK_idx T hc k mid (by omega) (by omega)
      have := rangesOK_ne T hc k (by omega)
      omega
  | case3 lo hi h =>
    have : lo = hi := by omega
    subst this
    exact ⟨hhi, hlo, hup⟩

theorem pick_core (T : List Trans) (h : RangesOK T) (c : Int) (i k : Nat) (hk : k < T.length) (hlen : i ≤ T.length)
    (hlow : ∀ k, k < i → (T.getD k (0, 0, 0)).1 < c)
    (hupp : ∀ k, i ≤ k → k < T.length → c ≤ (T.getD k (0, 0, 0)).1)
    (h1 : (T.getD k (0, 0, 0)).1 ≤ c) (h2 : c ≤ (T.getD k (0, 0, 0)).2.1) :
    (if i < T.length ∧ c = (T.getD i (0, 0, 0)).1 then (Except.ok (T.getD i (0, 0, 0)).2.2 : Except Err Nat)
     else if i > 0 ∧ (T.getD (i - 1) (0, 0, 0)).1 ≤ c ∧ c ≤ (T.getD (i - 1) (0, 0, 0)).2.1 then
       .ok (T.getD (i - 1) (0, 0, 0)).2.2
     else .error .RuntimeError) = .ok (T.getD k (0, 0, 0)).2.2 := by
  by_cases hc : c = (T.getD k (0, 0, 0)).1
  · -- the range starts at c: bisect stops exactly there
    have hki : i ≤ k := by
      rcases Nat.lt_or_ge k i with hlt | hge
      · have := hlow k hlt; omega
      · exact hge
    have : k = i := by
      rcases Nat.lt_or_ge i k with hlt | hge
      · have := rangesOK_idx T h i k hlt hk
        have := rangesOK_ne T h i (by omega)
        have := hupp i (Nat.le_refl _) (by omega)
        omega
      · omega
    subst this
    rw [if_pos ⟨hk, hc⟩]
  · have hki : k < i := by
      rcases Nat.lt_or_ge k i with hlt | hge
      · exact hlt
      · have := hupp k hge hk; omega
    have hk1 : k = i - 1 := by
      rcases Nat.lt_or_ge k (i - 1) with hlt | hge
      · have := rangesOK_idx T h k (i - 1) hlt (by omega)
        have := hlow (i - 1) (by omega)
        omega
      · omega
    have hnot : ¬ (i < T.length ∧ c = (T.getD i (0, 0, 0)).1) := by
      rintro ⟨hi, e⟩
      have := rangesOK_idx T h k i hki hi
      omega
    rw [if_neg hnot, ← hk1, if_pos ⟨by omega, h1, h2⟩]

/-- on ascending non-overlapping ranges `pick_transition` finds the transition whose range holds `c` -/
theorem pick_spec (T : List Trans) (h : RangesOK T) (x : Trans) (hx : x ∈ T) (c : Int)
    (h1 : x.1 ≤ c) (h2 : c ≤ x.2.1) : pickTransition T c = .ok x.2.2 := by
  obtain ⟨hlen, hlow, hupp⟩ := bisectLoop_spec T h c 0 T.length (Nat.zero_le _) (Nat.le_refl _)
    (fun k hk => by omega) (fun k a b => by omega)
  obtain ⟨k, hk, e⟩ := List.mem_iff_getElem.1 hx
  have hkd : T.getD k (0, 0, 0) = x := by rw [getD_eq' T _ k hk, e]
  have := pick_core T h c (bisectLoop T c 0 T.length) k hk hlen hlow hupp (by rw [hkd]; exact h1) (by rw [hkd]; exact h2)
  rw [hkd] at this
  exact this

/-! ### the work-list invariant of `compile` -/

section compile
variable {σ : Type} [DecidableEq σ]

/-- the transition list `T` of state `x` is right for every symbol of the alphabet -/
def Good (O : Ops σ) (S : List σ) (T : List Trans) (x : σ) : Prop :=
  ∀ c, 0 ≤ c → c ≤ 255 → ∃ j, pickTransition T c = .ok j ∧ S[j]? = some (O.deriv x c)

omit [DecidableEq σ] in
theorem Good.mono {O : Ops σ} {S : List σ} {T : List Trans} {x : σ} (h : Good O S T x) (S' : List σ) :
    Good O (S ++ S') T x := by
  intro c h0 h1
  obtain ⟨j, hj, hs⟩ := h c h0 h1
  exact ⟨j, hj, getElem?_append_some hs⟩

/-- what the proof needs to know about the state operations (`P` = representation invariant) -/
structure Sound (O : Ops σ) (P : σ → Prop) : Prop where
  deriv : ∀ x c, P x → P (O.deriv x c)
  classes : ∀ x, P x → ClassesOK (O.classes x) (O.deriv x)

structure Inv (O : Ops σ) (P : σ → Prop) (root : σ) (st : CState σ) : Prop where
  len : st.trans.length = st.states.length
  nodup : st.states.Nodup
  pst : ∀ x ∈ st.states, P x
  stackNodup : st.stack.Nodup
  stackSub : ∀ x ∈ st.stack, x ∈ st.states
  pending : ∀ (i : Nat) (x : σ), st.states[i]? = some x → x ∈ st.stack → st.trans[i]? = some ([] : List Trans)
  done : ∀ (i : Nat) (x : σ), st.states[i]? = some x → x ∉ st.stack → ∃ T, st.trans[i]? = some T ∧ Good O st.states T x
  root0 : st.states[0]? = some root

/-- invariant while the classes of state `x` (number `n`) are processed; `done` = classes handled -/
structure Mid (O : Ops σ) (P : σ → Prop) (root x : σ) (n : Nat) (done : List SymSet) (st : CState σ) : Prop where
  len : st.trans.length = st.states.length
  nodup : st.states.Nodup
  pst : ∀ y ∈ st.states, P y
  stackNodup : st.stack.Nodup
  stackSub : ∀ y ∈ st.stack, y ∈ st.states
  root0 : st.states[0]? = some root
  xAt : st.states[n]? = some x
  xNotStack : x ∉ st.stack
  pending : ∀ (i : Nat) (y : σ), st.states[i]? = some y → y ∈ st.stack → st.trans[i]? = some ([] : List Trans)
  others : ∀ (i : Nat) (y : σ), i ≠ n → st.states[i]? = some y → y ∉ st.stack →
    ∃ T, st.trans[i]? = some T ∧ Good O st.states T y
  cur : ∃ T, st.trans[n]? = some T ∧ T.Pairwise DisjR ∧ (∀ t ∈ T, t.1 ≤ t.2.1) ∧
    (∀ t ∈ T, ∀ c, t.1 ≤ c → c ≤ t.2.1 → (∃ K ∈ done, Mem K c) ∧ st.states[t.2.2]? = some (O.deriv x c)) ∧
    (∀ K ∈ done, ∀ c, Mem K c → ∃ t ∈ T, t.1 ≤ c ∧ c ≤ t.2.1)

theorem Mid.add {O : Ops σ} {P : σ → Prop} {root x : σ} {n : Nat} {done : List SymSet} {st : CState σ}
    (h : Mid O P root x n done st) (y : σ) (hy : y ∉ st.states) (hP : P y) :
    Mid O P root x n done (Model.Regex.addState st y) where
  len := by simp [Model.Regex.addState, h.len]
  nodup := by
    simp only [Model.Regex.addState]
    exact List.nodup_append.2 ⟨h.nodup, by simp,
      fun a ha b hb => by rw [List.mem_singleton.1 hb]; exact fun e => hy (e ▸ ha)⟩
  pst := by
    intro z hz
    simp only [Model.Regex.addState, List.mem_append, List.mem_singleton] at hz
    rcases hz with hz | rfl
    · exact h.pst z hz
    · exact hP
  stackNodup := by
    simp only [Model.Regex.addState]
    exact List.nodup_cons.2 ⟨fun hm => hy (h.stackSub y hm), h.stackNodup⟩
  stackSub := by
    intro z hz
    simp only [Model.Regex.addState, List.mem_cons] at hz
    simp only [Model.Regex.addState, List.mem_append, List.mem_singleton]
    rcases hz with rfl | hz
    · exact .inr rfl
    · exact .inl (h.stackSub z hz)
  root0 := getElem?_append_some h.root0
  xAt := getElem?_append_some h.xAt
  xNotStack := by
    simp only [Model.Regex.addState, List.mem_cons, not_or]
    exact ⟨fun e => hy (e ▸ List.mem_of_getElem? h.xAt), h.xNotStack⟩
  pending := by
    intro i z hi hz
    simp only [Model.Regex.addState] at hi hz ⊢
    rcases Nat.lt_or_ge i st.states.length with hlt | hge
    · rw [List.getElem?_append_left hlt] at hi
      have hzs : z ∈ st.stack := by
        rcases List.mem_cons.1 hz with rfl | hz
        · exact absurd (List.mem_of_getElem? hi) hy
        · exact hz
      exact getElem?_append_some (h.pending i z hi hzs)
    · have hil := lt_of_getElem? hi
      simp only [List.length_append, List.length_singleton] at hil
      have : i = st.trans.length := by rw [h.len]; omega
      subst this
      simp
  others := by
    intro i z hin hi hz
    simp only [Model.Regex.addState, List.mem_cons, not_or] at hi hz ⊢
    rcases Nat.lt_or_ge i st.states.length with hlt | hge
    · rw [List.getElem?_append_left hlt] at hi
      obtain ⟨T, hT, hG⟩ := h.others i z hin hi hz.2
      exact ⟨T, getElem?_append_some hT, hG.mono _⟩
    · have hil := lt_of_getElem? hi
      simp only [List.length_append, List.length_singleton] at hil
      have : i = st.states.length := by omega
      subst this
      simp only [List.getElem?_append_right (Nat.le_refl _), Nat.sub_self, List.getElem?_cons_zero,
        Option.some.injEq] at hi
      exact absurd hi.symm hz.1
  cur := by
    obtain ⟨T, hT, hp, hne, hc, hcov⟩ := h.cur
    refine ⟨T, getElem?_append_some hT, hp, hne, ?_, hcov⟩
    intro t ht c h1 h2
    obtain ⟨a, b⟩ := hc t ht c h1 h2
    exact ⟨a, getElem?_append_some b⟩

/-- two non-empty ranges taken from disjoint sets do not overlap -/
theorem disjR_of_disj {t u : Trans} (ht : t.1 ≤ t.2.1) (hu : u.1 ≤ u.2.1)
    (h : ∀ c, t.1 ≤ c → c ≤ t.2.1 → u.1 ≤ c → c ≤ u.2.1 → False) : DisjR t u := by
  unfold DisjR
  by_cases h1 : t.2.1 < u.1
  · exact .inl h1
  · by_cases h2 : u.2.1 < t.1
    · exact .inr h2
    · exfalso
      rcases Int.le_total t.1 u.1 with h3 | h3
      · exact h u.1 h3 (by omega) (Int.le_refl _) hu
      · exact h t.1 (Int.le_refl _) ht h3 (by omega)

theorem canon_pairwise_disjR : ∀ (K : SymSet) (m : Nat), Canon K →
    (K.map fun r => ((r.1, r.2, m) : Trans)).Pairwise DisjR
  | [], _, _ => by simp
  | r :: t, m, h => by
    simp only [List.map_cons, List.pairwise_cons, List.mem_map]
    refine ⟨?_, canon_pairwise_disjR t m (Proofs.IntSet.canon_tail h)⟩
    rintro _ ⟨s, hs, rfl⟩
    have := Proofs.IntSet.canon_lb h s hs
    left; show r.2 < s.1; omega

theorem Mid.step {O : Ops σ} {P : σ → Prop} (hS : Sound O P) {root x : σ} {n : Nat}
    {done : List SymSet} {st : CState σ} (h : Mid O P root x n done st) (K : SymSet)
    (hK : Canon K) (hd : ∀ K' ∈ done, Disj K' K)
    (hcoh : ∀ c1 c2, Mem K c1 → Mem K c2 → O.deriv x c1 = O.deriv x c2) :
    Mid O P root x n (done ++ [K]) (Model.Regex.classStep O x n st K) := by
  have hPx : P x := h.pst x (List.mem_of_getElem? h.xAt)
  cases K with
  | nil =>
    simp only [Model.Regex.classStep]
    obtain ⟨T, hT, hp, hne, hc, hcov⟩ := h.cur
    refine { h with cur := ⟨T, hT, hp, hne, ?_, ?_⟩ }
    · intro t ht c h1 h2
      obtain ⟨⟨K', hK', hm⟩, b⟩ := hc t ht c h1 h2
      exact ⟨⟨K', List.mem_append_left _ hK', hm⟩, b⟩
    · intro K' hK' c hm
      rcases List.mem_append.1 hK' with hK' | hK'
      · exact hcov K' hK' c hm
      · rw [List.mem_singleton.1 hK'] at hm; exact absurd hm (Proofs.IntSet.mem_nil c)
  | cons r0 K' =>
    obtain ⟨first, last⟩ := r0
    simp only [Model.Regex.classStep]
    -- the state after the optional `add_state`
    have hfirst : Mem ((first, last) :: K') first :=
      ⟨(first, last), by simp, Int.le_refl _, Proofs.IntSet.canon_head hK⟩
    have key : ∀ st1 : CState σ, Mid O P root x n done st1 → O.deriv x first ∈ st1.states →
        Mid O P root x n (done ++ [(first, last) :: K'])
          { st1 with trans := modifyAt (fun ts => ts ++ ((first, last) :: K').map fun r =>
              (r.1, r.2, indexOf (O.deriv x first) st1.states)) n st1.trans } := by
      intro st1 h1 hin
      obtain ⟨T, hT, hp, hne, hc, hcov⟩ := h1.cur
      have hm := indexOf_spec hin
      generalize indexOf (O.deriv x first) st1.states = m at hm ⊢
      have hnewne : ∀ u ∈ (((first, last) :: K').map fun r => ((r.1, r.2, m) : Trans)), u.1 ≤ u.2.1 := by
        intro u hu
        obtain ⟨r, hr, rfl⟩ := List.mem_map.1 hu
        exact Proofs.IntSet.canon_nonempty hK r hr
      refine { h1 with len := ?_, pending := ?_, others := ?_, cur := ?_ }
      · simp only [length_modifyAt]; exact h1.len
      · intro i y hi hy
        have hin' : i ≠ n := by
          rintro rfl
          rw [h1.xAt] at hi
          exact h1.xNotStack (Option.some.inj hi ▸ hy)
        simp only [getElem?_modifyAt_ne _ _ _ _ hin']
        exact h1.pending i y hi hy
      · intro i y hin' hi hy
        simp only [getElem?_modifyAt_ne _ _ _ _ hin']
        exact h1.others i y hin' hi hy
      · refine ⟨_, getElem?_modifyAt_eq _ _ _ _ hT, ?_, ?_, ?_, ?_⟩
        · refine List.pairwise_append.2 ⟨hp, canon_pairwise_disjR _ m hK, ?_⟩
          intro t ht u hu
          obtain ⟨r, hr, rfl⟩ := List.mem_map.1 hu
          refine disjR_of_disj (hne t ht) (hnewne _ hu) ?_
          intro c a1 a2 b1 b2
          obtain ⟨⟨K0, hK0, hm0⟩, _⟩ := hc t ht c a1 a2
          exact hd K0 hK0 c ⟨hm0, ⟨r, hr, b1, b2⟩⟩
        · intro t ht
          rcases List.mem_append.1 ht with ht | ht
          · exact hne t ht
          · exact hnewne t ht
        · intro t ht c a1 a2
          rcases List.mem_append.1 ht with ht | ht
          · obtain ⟨⟨K0, hK0, hm0⟩, b⟩ := hc t ht c a1 a2
            exact ⟨⟨K0, List.mem_append_left _ hK0, hm0⟩, b⟩
          · obtain ⟨r, hr, rfl⟩ := List.mem_map.1 ht
            have hmc : Mem ((first, last) :: K') c := ⟨r, hr, a1, a2⟩
            refine ⟨⟨_, List.mem_append_right _ (List.mem_singleton.2 rfl), hmc⟩, ?_⟩
            show st1.states[m]? = _
            rw [hm, hcoh c first hmc hfirst]
        · intro K0 hK0 c hm0
          rcases List.mem_append.1 hK0 with hK0 | hK0
          · obtain ⟨t, ht, a⟩ := hcov K0 hK0 c hm0
            exact ⟨t, List.mem_append_left _ ht, a⟩
          · rw [List.mem_singleton.1 hK0] at hm0
            obtain ⟨r, hr, a1, a2⟩ := hm0
            exact ⟨(r.1, r.2, m), List.mem_append_right _ (List.mem_map.2 ⟨r, hr, rfl⟩), a1, a2⟩
    by_cases hin : O.deriv x first ∈ st.states
    · simp only [hin, if_true]
      exact key st h hin
    · simp only [hin, if_false]
      exact key (Model.Regex.addState st (O.deriv x first)) (h.add _ hin (hS.deriv x first hPx))
        (by simp [Model.Regex.addState])

theorem Mid.fold {O : Ops σ} {P : σ → Prop} (hS : Sound O P) {root x : σ} {n : Nat} :
    ∀ (todo done : List SymSet) (st : CState σ), Mid O P root x n done st →
      (done ++ todo).Pairwise Disj → (∀ K ∈ todo, Canon K) →
      (∀ K ∈ todo, ∀ c1 c2, Mem K c1 → Mem K c2 → O.deriv x c1 = O.deriv x c2) →
      Mid O P root x n (done ++ todo) (todo.foldl (Model.Regex.classStep O x n) st)
  | [], done, st, h, _, _, _ => by simpa using h
  | K :: todo, done, st, h, hp, hc, hcoh => by
    have hp' := List.pairwise_append.1 hp
    have step := h.step hS K (hc K (by simp))
      (fun K' hK' => hp'.2.2 K' hK' K (by simp)) (hcoh K (by simp))
    have := Mid.fold hS todo (done ++ [K]) _ step (by simpa using hp)
      (fun K' hK' => hc K' (List.mem_cons_of_mem _ hK'))
      (fun K' hK' => hcoh K' (List.mem_cons_of_mem _ hK'))
    simpa using this

theorem Inv.add {O : Ops σ} {P : σ → Prop} {root : σ} {st : CState σ}
    (h : Inv O P root st) (y : σ) (hy : y ∉ st.states) (hP : P y) :
    Inv O P root (Model.Regex.addState st y) where
  len := by simp [Model.Regex.addState, h.len]
  nodup := by
    simp only [Model.Regex.addState]
    exact List.nodup_append.2 ⟨h.nodup, by simp,
      fun a ha b hb => by rw [List.mem_singleton.1 hb]; exact fun e => hy (e ▸ ha)⟩
  pst := by
    intro z hz
    simp only [Model.Regex.addState, List.mem_append, List.mem_singleton] at hz
    rcases hz with hz | rfl
    · exact h.pst z hz
    · exact hP
  stackNodup := by
    simp only [Model.Regex.addState]
    exact List.nodup_cons.2 ⟨fun hm => hy (h.stackSub y hm), h.stackNodup⟩
  stackSub := by
    intro z hz
    simp only [Model.Regex.addState, List.mem_cons] at hz
    simp only [Model.Regex.addState, List.mem_append, List.mem_singleton]
    rcases hz with rfl | hz
    · exact .inr rfl
    · exact .inl (h.stackSub z hz)
  root0 := getElem?_append_some h.root0
  pending := by
    intro i z hi hz
    simp only [Model.Regex.addState] at hi hz ⊢
    rcases Nat.lt_or_ge i st.states.length with hlt | hge
    · rw [List.getElem?_append_left hlt] at hi
      have hzs : z ∈ st.stack := by
        rcases List.mem_cons.1 hz with rfl | hz
        · exact absurd (List.mem_of_getElem? hi) hy
        · exact hz
      exact getElem?_append_some (h.pending i z hi hzs)
    · have hil := lt_of_getElem? hi
      simp only [List.length_append, List.length_singleton] at hil
      have : i = st.trans.length := by rw [h.len]; omega
      subst this
      simp
  done := by
    intro i z hi hz
    simp only [Model.Regex.addState, List.mem_cons, not_or] at hi hz ⊢
    rcases Nat.lt_or_ge i st.states.length with hlt | hge
    · rw [List.getElem?_append_left hlt] at hi
      obtain ⟨T, hT, hG⟩ := h.done i z hi hz.2
      exact ⟨T, getElem?_append_some hT, hG.mono _⟩
    · have hil := lt_of_getElem? hi
      simp only [List.length_append, List.length_singleton] at hil
      have : i = st.states.length := by omega
      subst this
      simp only [List.getElem?_append_right (Nat.le_refl _), Nat.sub_self, List.getElem?_cons_zero,
        Option.some.injEq] at hi
      exact absurd hi.symm hz.1

/-- one iteration of the `while stack` loop keeps the invariant -/
theorem Inv.process {O : Ops σ} {P : σ → Prop} (hS : Sound O P) {root : σ} (hnull : P (O.null root))
    {st : CState σ} {x : σ} {rest : List σ} (h : Inv O P root st) (hst : st.stack = x :: rest) :
    Inv O P root (Model.Regex.processState O root { st with stack := rest } x) := by
  have hxs : x ∈ st.states := h.stackSub x (by rw [hst]; simp)
  have hnd := List.nodup_cons.1 (hst ▸ h.stackNodup)
  have hPx : P x := h.pst x hxs
  have hcl := hS.classes x hPx
  -- the invariant at the start of the `for` loop
  have hmid0 : Mid O P root x (indexOf x st.states) [] { st with stack := rest } := {
    len := h.len, nodup := h.nodup, pst := h.pst, stackNodup := hnd.2
    stackSub := fun y hy => h.stackSub y (by rw [hst]; exact List.mem_cons_of_mem _ hy)
    root0 := h.root0, xAt := indexOf_spec hxs, xNotStack := hnd.1
    pending := fun i y hi hy => h.pending i y hi (by rw [hst]; exact List.mem_cons_of_mem _ hy)
    others := by
      intro i y hin hi hy
      refine h.done i y hi ?_
      rw [hst]
      simp only [List.mem_cons, not_or]
      refine ⟨?_, hy⟩
      rintro rfl
      exact hin (indexOf_unique h.nodup hi).symm
    cur := ⟨[], h.pending _ x (indexOf_spec hxs) (by rw [hst]; simp), by simp, by simp, by simp, by simp⟩ }
  have hmid := Mid.fold hS (O.classes x) [] _ hmid0 (by simpa using hcl.disj) hcl.canon hcl.coh
  simp only [List.nil_append] at hmid
  unfold Model.Regex.processState
  simp only []
  generalize indexOf x st.states = n at hmid ⊢
  generalize (O.classes x).foldl (Model.Regex.classStep O x n) { st with stack := rest } = st2 at hmid ⊢
  -- after the sort
  obtain ⟨T, hT, hp, hne, hc, hcov⟩ := hmid.cur
  have hsort := rangesOK_sortT T hp hne
  have hinv3 : Inv O P root { st2 with trans := modifyAt sortT n st2.trans } := {
    len := by simp only [length_modifyAt]; exact hmid.len
    nodup := hmid.nodup, pst := hmid.pst, stackNodup := hmid.stackNodup, stackSub := hmid.stackSub
    root0 := hmid.root0
    pending := by
      intro i y hi hy
      have hin' : i ≠ n := by
        rintro rfl
        rw [hmid.xAt] at hi
        exact hmid.xNotStack (Option.some.inj hi ▸ hy)
      simp only [getElem?_modifyAt_ne _ _ _ _ hin']
      exact hmid.pending i y hi hy
    done := by
      intro i y hi hy
      by_cases hin' : i = n
      · subst hin'
        have : y = x := by rw [hmid.xAt] at hi; exact (Option.some.inj hi).symm
        subst this
        refine ⟨sortT T, getElem?_modifyAt_eq _ _ _ _ hT, ?_⟩
        intro c h0 h1
        obtain ⟨K, hK, hm⟩ := hcl.cover c h0 h1
        obtain ⟨t, ht, a1, a2⟩ := hcov K hK c hm
        exact ⟨t.2.2, pick_spec _ hsort.1 t ((hsort.2 t).2 ht) c a1 a2, (hc t ht c a1 a2).2⟩
      · simp only [getElem?_modifyAt_ne _ _ _ _ hin']
        exact hmid.others i y hin' hi hy }
  split
  · next hcnd => exact hinv3.add _ hcnd.2 hnull
  · exact hinv3

theorem processState_null {O : Ops σ} (root : σ) (st : CState σ) (x : σ) :
    (processState O root st x).stack = [] → O.null root ∈ (processState O root st x).states := by
  unfold Model.Regex.processState
  simp only
  split
  · intro e; simp [Model.Regex.addState] at e
  · next hcnd =>
    intro e
    apply Classical.byContradiction
    intro hno
    exact hcnd ⟨by simp only [List.isEmpty_iff]; exact e, hno⟩

end compile
end Proofs.Regex
