import PpciVerif.Model.DataSeg
namespace Proofs.DataSeg
open Model.DataSeg

theorem imageFrom_cons (m : Nat → Nat) (a : Nat) (v : Var) (vs : List Var) :
    imageFrom m a (v :: vs) =
      imageFrom (if v.data.isEmpty then m else applySeg m (a, v.data)) (a + v.amount) vs := by
  unfold imageFrom
  simp only [segments]
  split <;> simp_all [List.foldl_cons]

theorem layout_length (a : Nat) (vs : List Var) : (layout a vs).length = vs.length := by
  induction vs generalizing a with
  | nil => rfl
  | cons v vs ih => simp [layout, ih]

theorem layout_ge (vs : List Var) : ∀ (a i : Nat) (h : i < (layout a vs).length), a ≤ (layout a vs)[i] := by
  induction vs with
  | nil => intro a i h; simp [layout] at h
  | cons v vs ih =>
    intro a i h
    cases i with
    | zero => simp [layout]
    | succ i =>
      simp only [layout, List.getElem_cons_succ]
      have := ih (a + v.amount) i (by simpa [layout] using h)
      omega

/-- segments of variables placed at or after `a` leave everything below `a` alone -/
theorem imageFrom_below (vs : List Var) : ∀ (m : Nat → Nat) (a x : Nat), x < a → imageFrom m a vs x = m x := by
  induction vs with
  | nil => intro m a x _; rfl
  | cons v vs ih =>
    intro m a x hx
    rw [imageFrom_cons, ih _ _ _ (by omega)]
    split
    · rfl
    · simp only [applySeg]
      rw [if_neg (by omega)]

theorem layout_ge' (vs : List Var) : ∀ (a i addr : Nat), (layout a vs)[i]? = some addr → a ≤ addr := by
  induction vs with
  | nil => intro a i addr h; simp [layout] at h
  | cons v vs ih =>
    intro a i addr h
    cases i with
    | zero => simp [layout] at h; omega
    | succ i =>
      simp only [layout, List.getElem?_cons_succ] at h
      have := ih _ _ _ h
      omega

theorem layout_disjoint (vs : List Var) : ∀ (a i j : Nat) (v : Var) (ai aj : Nat), i < j →
    vs[i]? = some v → (layout a vs)[i]? = some ai → (layout a vs)[j]? = some aj →
    ai + v.amount ≤ aj := by
  induction vs with
  | nil => intro a i j v ai aj _ h; simp at h
  | cons w vs ih =>
    intro a i j v ai aj hij hv hi hj
    cases j with
    | zero => omega
    | succ j =>
      simp only [layout, List.getElem?_cons_succ] at hj
      cases i with
      | zero =>
        simp [layout] at hv hi
        subst hv; subst hi
        exact layout_ge' _ _ _ _ hj
      | succ i =>
        simp only [layout, List.getElem?_cons_succ] at hv hi
        exact ih _ i j v ai aj (by omega) hv hi hj

theorem image_read (vs : List Var) : ∀ (m : Nat → Nat) (a i : Nat) (v : Var) (addr k : Nat), WF vs →
    vs[i]? = some v → (layout a vs)[i]? = some addr → k < v.amount →
    imageFrom m a vs (addr + k) = if k < v.data.length then v.data.getD k 0 else m (addr + k) := by
  induction vs with
  | nil => intro m a i v addr k _ h; simp at h
  | cons w vs ih =>
    intro m a i v addr k wf hv ha hk
    have wfw : w.data.length ≤ w.amount := wf w (by simp)
    have wfs : WF vs := fun x hx => wf x (by simp [hx])
    rw [imageFrom_cons]
    cases i with
    | zero =>
      simp [layout] at hv ha
      subst hv; subst ha
      rw [imageFrom_below _ _ _ _ (by omega)]
      split
      · next he =>
        have : w.data.length = 0 := by simpa using he
        rw [if_neg (by omega)]
      · simp only [applySeg]
        by_cases hkl : k < w.data.length
        · rw [if_pos ⟨by omega, by omega⟩, if_pos hkl]
          congr 1; omega
        · rw [if_neg (by omega), if_neg hkl]
    | succ i =>
      simp only [layout, List.getElem?_cons_succ] at hv ha
      rw [ih _ _ i v addr k wfs hv ha hk]
      have hge := layout_ge' _ _ _ _ ha
      split
      · rfl
      · split
        · rfl
        · simp only [applySeg]
          rw [if_neg (by omega)]

end Proofs.DataSeg
