import PpciVerif.Model.AsmSyn
/-
Lexing a concatenation of self-delimiting lexemes gives back the lexemes (Model.AsmLex),
the basis of C09 theorem (1).
-/
namespace Proofs.AsmLex
open Model.AsmLex

/-- `p` fails on the first character of `r` (or `r` is empty) -/
def HeadNot (p : Char → Bool) (r : List Char) : Prop := ∀ c, r.head? = some c → p c = false

theorem headNot_nil (p) : HeadNot p [] := by intro c h; simp at h

theorem headNot_cons {p c r} : HeadNot p (c :: r) ↔ p c = false := by
  constructor
  · intro h; exact h c rfl
  · intro h d hd; simp at hd; subst hd; exact h

theorem takeWhile_append_headNot {p : Char → Bool} {a r : List Char}
    (ha : ∀ x ∈ a, p x = true) (hr : HeadNot p r) :
    (a ++ r).takeWhile p = a ∧ (a ++ r).dropWhile p = r := by
  induction a with
  | nil =>
    cases r with
    | nil => simp
    | cons c r => have := headNot_cons.mp hr; simp [List.takeWhile, List.dropWhile, this]
  | cons x a ih =>
    have hx : p x = true := ha x (by simp)
    have := ih (fun y hy => ha y (by simp [hy]))
    simp [List.takeWhile, List.dropWhile, hx, this]

/-! ### character facts -/

theorem isDigit_not_idStart {c : Char} (h : isDigit c = true) : isIdStart c = false := by
  simp only [isDigit, isIdStart, Bool.and_eq_true, decide_eq_true_eq, Bool.or_eq_false_iff,
    Bool.and_eq_false_iff, decide_eq_false_iff_not, beq_eq_false_iff_ne, ne_eq] at *
  omega

theorem isIdStart_not_digit {c : Char} (h : isIdStart c = true) : isDigit c = false := by
  cases hd : isDigit c with
  | false => rfl
  | true => rw [isDigit_not_idStart hd] at h; cases h

theorem isDigit_idChar {c : Char} (h : isDigit c = true) : isIdChar c = true := by
  simp [isIdChar, h]

theorem isIdStart_idChar {c : Char} (h : isIdStart c = true) : isIdChar c = true := by
  simp [isIdChar, h]

theorem headNot_append {p : Char → Bool} {a r : List Char}
    (ha : ∀ x ∈ a, p x = false) (hr : HeadNot p r) : HeadNot p (a ++ r) := by
  cases a with
  | nil => simpa using hr
  | cons x a => exact headNot_cons.mpr (ha x (by simp))

theorem headNot_mono {p q : Char → Bool} {r : List Char} (h : ∀ c, p c = false → q c = false)
    (hr : HeadNot p r) : HeadNot q r := fun c hc => h c (hr c hc)

/-! ### the alternatives that must NOT match -/

theorem realMatch_none_of_head {s : List Char} (h : HeadNot isDigit s) : realMatch s = none := by
  cases s with
  | nil => simp [realMatch]
  | cons c r => have := headNot_cons.mp h; simp [realMatch, List.takeWhile, this]

theorem prefixBody_none_of_head {l g : Char} {s : List Char}
    (h : HeadNot (fun c => c == g || c == '0') s) : prefixBody l g s = none := by
  cases s with
  | nil => rfl
  | cons c r =>
    have := headNot_cons.mp h
    simp only [Bool.or_eq_false_iff] at this
    simp [prefixBody, this.1, this.2]

theorem binMatch_none_of_head {s : List Char} (h : HeadNot (fun c => c == '%' || c == '0') s) :
    binMatch s = none := by simp [binMatch, prefixBody_none_of_head h]

theorem hexMatch_none_of_head {s : List Char} (h : HeadNot (fun c => c == '$' || c == '0') s) :
    hexMatch s = none := by simp [hexMatch, prefixBody_none_of_head h]

theorem beq_false_of_pred {p : Char → Bool} {c d : Char} (hc : p c = true) (hd : p d = false) :
    (c == d) = false := by
  cases h : c == d with
  | false => rfl
  | true => have := eq_of_beq h; subst this; rw [hc] at hd; cases hd

theorem beq_false_of_pred' {p : Char → Bool} {c d : Char} (hc : p c = false) (hd : p d = true) :
    (c == d) = false := by
  cases h : c == d with
  | false => rfl
  | true => have := eq_of_beq h; subst this; rw [hc] at hd; cases hd

theorem prefixBody_none_of_second {l g c : Char} {t : List Char}
    (hg : (c == g) = false) (ht : HeadNot (fun x => x == l) t) : prefixBody l g (c :: t) = none := by
  cases t with
  | nil => simp [prefixBody, hg]
  | cons b t => have := headNot_cons.mp ht; simp at this; simp [prefixBody, hg, this]

/-! ### one lexeme at the head of the input -/

theorem lexOne_id {w r : List Char} (hw : isIdent w = true) (hr : HeadNot isIdChar r) :
    lexOne (w ++ r) = .tok (.id w) r := by
  cases w with
  | nil => simp [isIdent] at hw
  | cons c cs =>
    simp only [isIdent, Bool.and_eq_true, List.all_eq_true] at hw
    obtain ⟨hc, hcs⟩ := hw
    have hd : isDigit c = false := isIdStart_not_digit hc
    have h1 : realMatch (c :: cs ++ r) = none :=
      realMatch_none_of_head (headNot_cons.mpr hd)
    have h2 : binMatch (c :: cs ++ r) = none := by
      apply binMatch_none_of_head; apply headNot_cons.mpr
      simp [beq_false_of_pred hc (by decide : isIdStart '%' = false),
        beq_false_of_pred hc (by decide : isIdStart '0' = false)]
    have h3 : hexMatch (c :: cs ++ r) = none := by
      apply hexMatch_none_of_head; apply headNot_cons.mpr
      simp [beq_false_of_pred hc (by decide : isIdStart '$' = false),
        beq_false_of_pred hc (by decide : isIdStart '0' = false)]
    have ht := takeWhile_append_headNot (p := isIdChar) (a := cs) (r := r) hcs hr
    simp only [List.cons_append] at h1 h2 h3
    simp only [lexOne, h1, h2, h3, List.cons_append, hd, hc, ht.1, ht.2]
    simp

theorem lexOne_num {d r : List Char} (hne : d ≠ []) (hd : ∀ x ∈ d, isDigit x = true)
    (hr : HeadNot (fun x => isIdChar x || x == '.') r) :
    lexOne (d ++ r) = .tok (.num (numVal 10 d)) r := by
  cases d with
  | nil => exact absurd rfl hne
  | cons c d' =>
    have hc : isDigit c = true := hd c (by simp)
    have hd' : ∀ x ∈ d', isDigit x = true := fun x hx => hd x (by simp [hx])
    have hrd : HeadNot isDigit r :=
      headNot_mono (fun x hx => by
        simp only [Bool.or_eq_false_iff] at hx
        cases hdx : isDigit x with
        | false => rfl
        | true => rw [isDigit_idChar hdx] at hx; cases hx.1) hr
    have hrdot : HeadNot (fun x => x == '.') r :=
      headNot_mono (fun x hx => by simp only [Bool.or_eq_false_iff] at hx; exact hx.2) hr
    have hrid : HeadNot isIdChar r :=
      headNot_mono (fun x hx => by simp only [Bool.or_eq_false_iff] at hx; exact hx.1) hr
    have ht := takeWhile_append_headNot (p := isDigit) (a := c :: d') (r := r) hd hrd
    have h1 : realMatch ((c :: d') ++ r) = none := by
      unfold realMatch
      simp only [ht.1, ht.2]
      cases r with
      | nil => simp
      | cons x r' => have := headNot_cons.mp hrdot; simp at this; simp [this]
    have hletter : ∀ l : Char, isIdChar l = true → isDigit l = false →
        HeadNot (fun x => x == l) (d' ++ r) := by
      intro l hl hl'
      apply headNot_append
      · intro x hx; exact beq_false_of_pred (p := isDigit) (hd' x hx) hl'
      · exact headNot_mono (fun x hx => beq_false_of_pred' hx hl) hrid
    have h2 : binMatch ((c :: d') ++ r) = none := by
      have : prefixBody 'b' '%' (c :: (d' ++ r)) = none :=
        prefixBody_none_of_second (beq_false_of_pred hc (by decide)) (hletter 'b' (by decide) (by decide))
      simp [binMatch, this]
    have h3 : hexMatch ((c :: d') ++ r) = none := by
      have : prefixBody 'x' '$' (c :: (d' ++ r)) = none :=
        prefixBody_none_of_second (beq_false_of_pred hc (by decide)) (hletter 'x' (by decide) (by decide))
      simp [hexMatch, this]
    have ht1 := ht.1
    have ht2 := ht.2
    simp only [List.cons_append] at h1 h2 h3 ht1 ht2
    simp only [lexOne, h1, h2, h3, List.cons_append, hc, ht1, ht2]
    simp

theorem beq_false_of_toNat {c d : Char} (h : c.toNat ≠ d.toNat) : (c == d) = false := by
  cases hb : c == d with
  | false => rfl
  | true => have := eq_of_beq hb; subst this; exact absurd rfl h

theorem lexOne_skip {c : Char} {r : List Char} (hc : isSkip c = true) : lexOne (c :: r) = .skip r := by
  have hn : c.toNat = 32 ∨ c.toNat = 9 := by
    simpa [isSkip, Bool.or_eq_true, beq_iff_eq] using hc
  have hd : isDigit c = false := by
    simp only [isDigit, Bool.and_eq_false_iff, decide_eq_false_iff_not]; omega
  have hi : isIdStart c = false := by
    simp only [isIdStart, Bool.or_eq_false_iff, Bool.and_eq_false_iff, decide_eq_false_iff_not,
      beq_eq_false_iff_ne, ne_eq]; omega
  have h1 : realMatch (c :: r) = none := realMatch_none_of_head (headNot_cons.mpr hd)
  have e1 : (c == '%') = false := beq_false_of_toNat (by simp; omega)
  have e2 : (c == '0') = false := beq_false_of_toNat (by simp; omega)
  have e3 : (c == '$') = false := beq_false_of_toNat (by simp; omega)
  have h2 : binMatch (c :: r) = none :=
    binMatch_none_of_head (headNot_cons.mpr (by simp [e1, e2]))
  have h3 : hexMatch (c :: r) = none :=
    hexMatch_none_of_head (headNot_cons.mpr (by simp [e3, e2]))
  simp [lexOne, h1, h2, h3, hd, hi, hc]

theorem lexOne_glyph {c : Char} {r : List Char} (hc : isGlyph c = true)
    (hr : c = '%' → HeadNot isBin r) : lexOne (c :: r) = .tok (.glyph c) r := by
  have hmem : c ∈ glyphs := by simpa [isGlyph] using hc
  have key : ∀ g : Char, g ∈ glyphs → g ≠ '%' → lexOne (g :: r) = .tok (.glyph g) r := by
    intro g hg hne
    have hd : isDigit g = false := by
      simp only [glyphs, List.mem_cons, List.not_mem_nil, or_false] at hg
      rcases hg with rfl|rfl|rfl|rfl|rfl|rfl|rfl|rfl|rfl|rfl|rfl|rfl|rfl|rfl|rfl|rfl|rfl <;> decide
    have hi : isIdStart g = false := by
      simp only [glyphs, List.mem_cons, List.not_mem_nil, or_false] at hg
      rcases hg with rfl|rfl|rfl|rfl|rfl|rfl|rfl|rfl|rfl|rfl|rfl|rfl|rfl|rfl|rfl|rfl|rfl <;> decide
    have hs : isSkip g = false := by
      simp only [glyphs, List.mem_cons, List.not_mem_nil, or_false] at hg
      rcases hg with rfl|rfl|rfl|rfl|rfl|rfl|rfl|rfl|rfl|rfl|rfl|rfl|rfl|rfl|rfl|rfl|rfl <;> decide
    have e2 : (g == '0') = false := beq_false_of_pred' hd (by decide)
    have e3 : (g == '$') = false := by
      simp only [glyphs, List.mem_cons, List.not_mem_nil, or_false] at hg
      rcases hg with rfl|rfl|rfl|rfl|rfl|rfl|rfl|rfl|rfl|rfl|rfl|rfl|rfl|rfl|rfl|rfl|rfl <;> decide
    have e1 : (g == '%') = false := by simpa using hne
    have hgl : isGlyph g = true := by simpa [isGlyph] using hg
    have h1 : realMatch (g :: r) = none := realMatch_none_of_head (headNot_cons.mpr hd)
    have h2 : binMatch (g :: r) = none :=
      binMatch_none_of_head (headNot_cons.mpr (by simp [e1, e2]))
    have h3 : hexMatch (g :: r) = none :=
      hexMatch_none_of_head (headNot_cons.mpr (by simp [e3, e2]))
    simp [lexOne, h1, h2, h3, hd, hi, hs, hgl]
  by_cases hp : c = '%'
  · subst hp
    have hb := hr rfl
    have h1 : realMatch ('%' :: r) = none :=
      realMatch_none_of_head (headNot_cons.mpr (by decide))
    have ht : r.takeWhile isBin = [] := by
      cases r with
      | nil => rfl
      | cons x r' => have := headNot_cons.mp hb; simp [List.takeWhile, this]
    have h2 : binMatch ('%' :: r) = none := by
      simp [binMatch, prefixBody, ht]
    have h3 : hexMatch ('%' :: r) = none :=
      hexMatch_none_of_head (headNot_cons.mpr (by decide))
    simp only [lexOne, h1, h2, h3]
    have : isDigit '%' = false := by decide
    have : isIdStart '%' = false := by decide
    have : isSkip '%' = false := by decide
    have : isGlyph '%' = true := by decide
    simp [*]
  · exact key c hmem hp

/-! ### lexemes -/

/-- a self-delimiting piece of text -/
inductive Lx where
  | id (w : List Char)
  | num (d : List Char)
  | glyph (c : Char)
  | sp (c : Char)
  deriving Repr, DecidableEq

def Lx.str : Lx → List Char
  | .id w => w
  | .num d => d
  | .glyph c => [c]
  | .sp c => [c]

def Lx.tok : Lx → Option Tok
  | .id w => some (.id w)
  | .num d => some (.num (numVal 10 d))
  | .glyph c => some (.glyph c)
  | .sp _ => none

def Lx.wf : Lx → Prop
  | .id w => isIdent w = true
  | .num d => d ≠ [] ∧ ∀ x ∈ d, isDigit x = true
  | .glyph c => isGlyph c = true
  | .sp c => isSkip c = true

/-- what the text after the lexeme must look like for the lexeme to be cut off there -/
def Lx.next : Lx → List Char → Prop
  | .id _, r => HeadNot isIdChar r
  | .num _, r => HeadNot (fun x => isIdChar x || x == '.') r
  | .glyph c, r => c = '%' → HeadNot isBin r
  | .sp _, _ => True

def strs (ls : List Lx) : List Char := ls.flatMap Lx.str
def toks (ls : List Lx) : List Tok := ls.filterMap Lx.tok

theorem Lx.str_ne_nil {l : Lx} (h : l.wf) : l.str ≠ [] := by
  cases l with
  | id w => cases w with
    | nil => simp [Lx.wf, isIdent] at h
    | cons c cs => simp [Lx.str]
  | num d => exact h.1
  | glyph c => simp [Lx.str]
  | sp c => simp [Lx.str]

theorem lexOne_lx {l : Lx} {r : List Char} (hw : l.wf) (hn : l.next r) :
    lexOne (l.str ++ r) = (match l.tok with | some t => .tok t r | none => .skip r) := by
  cases l with
  | id w => exact lexOne_id hw hn
  | num d => exact lexOne_num hw.1 hw.2 hn
  | glyph c => exact lexOne_glyph hw hn
  | sp c => exact lexOne_skip hw

inductive Chain : List Lx → Prop
  | nil : Chain []
  | cons {l : Lx} {rest : List Lx} : l.wf → l.next (strs rest) → Chain rest → Chain (l :: rest)

theorem lexAux_succ {f : Nat} {s : List Char} (h : s ≠ []) :
    lexAux (f + 1) s =
      (match lexOne s with
       | .tok t rest => (lexAux f rest).map (t :: ·)
       | .skip rest => lexAux f rest
       | .err => none) := by
  cases s with
  | nil => exact absurd rfl h
  | cons c cs => rfl

theorem lexAux_chain {ls : List Lx} (h : Chain ls) :
    ∀ fuel, (strs ls).length < fuel → lexAux fuel (strs ls) = some (toks ls) := by
  induction h with
  | nil => intro fuel _; cases fuel <;> simp [strs, toks, lexAux]
  | @cons l rest hw hn _ ih =>
    intro fuel hf
    have hne := Lx.str_ne_nil hw
    have hlen : 0 < l.str.length := List.length_pos_iff.mpr hne
    have hs : strs (l :: rest) = l.str ++ strs rest := by simp [strs]
    rw [hs] at hf ⊢
    simp only [List.length_append] at hf
    cases fuel with
    | zero => omega
    | succ f =>
      have hne' : l.str ++ strs rest ≠ [] := by simp [hne]
      rw [lexAux_succ hne', lexOne_lx hw hn]
      have ihf := ih f (by omega)
      cases ht : l.tok with
      | none => simp [toks, ht, ihf]
      | some t => simp [toks, ht, ihf]

theorem lex_chain {ls : List Lx} (h : Chain ls) : lex (strs ls) = some (toks ls) :=
  lexAux_chain h _ (Nat.lt_succ_self _)

end Proofs.AsmLex
