import PpciVerif.Proofs.ElfW2
/-!
C17, third layer: (2) the symbol table and (3) the RELA tables of a written file.
-/
namespace Proofs.ElfW
open Spec.Elf Model.ElfW

/-! ### (2) symbol table, state level -/

/-- where the symbol lives, as the entry says: undefined, absolute, or a section — identified by the NAME to which the
    `sh_name` of section header number `shndx` resolves — plus the section's address added to the value -/
def PlaceOK (o : Obj) (s : St) (sy : Sym) (shndx value : Nat) : Prop :=
  match sy.value, sy.sect with
  | none, _ => shndx = 0 ∧ value = 0
  | some v, none => shndx = 0xFFF1 ∧ value = v
  | some v, some sn => ∃ sec, findSec o.sections sn = some sec ∧ value = v + sec.address ∧ 1 ≤ shndx ∧
      ∃ (hd : Hdr) (nm' : Nat), s.shdrs[shndx - 1]? = some hd ∧ hd.get .sh_name = ((nm' : Nat) : Int) ∧
        strAt s.strtab nm' = some sn

theorem PlaceOK.ext {o : Obj} {s s' : St} {sy : Sym} {shndx value : Nat} (e : Ext s s') (h : PlaceOK o s sy shndx value) :
    PlaceOK o s' sy shndx value := by
  unfold PlaceOK at h ⊢
  split
  · rename_i h1; simp only [h1] at h; exact h
  · rename_i v h1 h2; simp only [h1, h2] at h; exact h
  · rename_i v sn h1 h2
    simp only [h1, h2] at h
    obtain ⟨sec, a, b, c, hd, nm', d, f, g⟩ := h
    exact ⟨sec, a, b, c, hd, nm', e.getElem d, f, e.strAt g⟩

/-- symbol-table entry `h` describes symbol `sy` -/
def SymEntryOK (o : Obj) (s : St) (sy : Sym) (h : Hdr) : Prop :=
  ∃ (nm shndx value : Nat), h = symHdr nm sy.isGlobal sy.typ shndx value sy.size ∧ strAt s.strtab nm = some sy.name ∧
    (shndx ≤ s.shdrs.length ∨ shndx = 0xFFF1) ∧ PlaceOK o s sy shndx value

theorem SymEntryOK.ext {o : Obj} {s s' : St} {sy : Sym} {h : Hdr} (e : Ext s s') (hh : SymEntryOK o s sy h) :
    SymEntryOK o s' sy h := by
  obtain ⟨nm, shndx, value, a, b, d, f⟩ := hh
  refine ⟨nm, shndx, value, a, e.strAt b, ?_, f.ext e⟩
  obtain ⟨m, hm⟩ := e.shdrs
  rcases d with d | d
  · left; rw [hm]; simp; omega
  · right; exact d

theorem writeSymbol_spec {L : Layouts} {o : Obj} {s s' : St} {nr : Nat} {sy : Sym}
    (h : s.writeSymbol {} L o nr sy = .ok s') (inv : Inv s) (hn : NoNul sy.name) :
    ∃ hdr bs, serialize L.sym hdr = .ok bs ∧ s'.body = s.body ++ bs ∧ SymEntryOK o s' sy hdr ∧
      s'.symIds = (sy.id, nr) :: s.symIds := by
  unfold St.writeSymbol at h
  simp only at h
  have inv0 : Inv { s with symIds := (sy.id, nr) :: s.symIds } := ⟨inv.strwf, inv.nums⟩
  have hf := getString_frame { s with symIds := (sy.id, nr) :: s.symIds } sy.name
  have hs := getString_spec { s with symIds := (sy.id, nr) :: s.symIds } sy.name hn inv0.strwf
  have st := getString_step { s with symIds := (sy.id, nr) :: s.symIds } sy.name hn
  rcases hg : St.getString { s with symIds := (sy.id, nr) :: s.symIds } sy.name with ⟨s1, nm⟩
  rw [hg] at h hf hs st
  simp only at h hf hs st
  have inv1 := st.2 inv0
  split at h
  · cases h
  · rename_i shndx value hplace
    split at h
    · cases h
    · rename_i bs hser
      injection h with h
      subst h
      refine ⟨_, bs, hser, by simp [St.write, hf.2.1], ?_, by simp [St.write, hf.2.2.2.2.2.1]⟩
      have e1 : Ext s1 (s1.write bs) := (write_step s1 bs).1
      refine SymEntryOK.ext e1 ⟨nm, shndx, value, rfl, hs.2.1, ?_⟩
      -- analyse `place`
      unfold PlaceOK
      cases hv : sy.value with
      | none =>
        simp only [hv] at hplace
        injection hplace with hp
        have hp1 : shndx = 0 := (Prod.mk.inj hp).1.symm
        have hp2 : value = 0 := (Prod.mk.inj hp).2.symm
        subst hp1; subst hp2
        exact ⟨Or.inl (by omega), by simp⟩
      | some v =>
        simp only [hv] at hplace
        cases hsect : sy.sect with
        | none =>
          simp only [hsect, Bool.false_eq_true, if_false] at hplace
          injection hplace with hp
          have hp1 : shndx = 0xFFF1 := (Prod.mk.inj hp).1.symm
          have hp2 : value = v := (Prod.mk.inj hp).2.symm
          subst hp1; subst hp2
          exact ⟨Or.inr rfl, by simp⟩
        | some sn =>
          simp only [hsect] at hplace
          split at hplace
          · cases hplace
          · rename_i num hnum
            split at hplace
            · cases hplace
            · rename_i sec hsec
              injection hplace with hp
              have hp1 : shndx = num := (Prod.mk.inj hp).1.symm
              have hp2 : value = v + sec.address := (Prod.mk.inj hp).2.symm
              subst hp1; subst hp2
              obtain ⟨a, hd, nm', b, c, d⟩ := inv1.nums sn shndx hnum
              have hlt : shndx - 1 < s1.shdrs.length := (List.getElem?_eq_some_iff.mp b).1
              exact ⟨Or.inl (by omega), sec, hsec, rfl, a, hd, nm', b, c, d⟩

theorem All2.imp' {α β : Type} {R S : α → β → Prop} {as : List α} {bs : List β} (f : ∀ a b, R a b → S a b)
    (h : All2 R as bs) : All2 S as bs := All2.imp f h

theorem writeSymbols_spec {L : Layouts} {o : Obj} : ∀ (syms : List Sym) (s s' : St) (nr : Nat),
    writeSymbols {} L o s nr syms = .ok s' → Inv s → (∀ sy ∈ syms, NoNul sy.name) →
    ∃ hs bytes, serializeAll L.sym hs = .ok bytes ∧ s'.body = s.body ++ bytes ∧ All2 (SymEntryOK o s') syms hs ∧
      (∀ id n, assocN id s'.symIds = some n →
        (∃ k sy, syms[k]? = some sy ∧ sy.id = id ∧ n = nr + k) ∨ assocN id s.symIds = some n) := by
  intro syms
  induction syms with
  | nil =>
    intro s s' nr h _ _
    simp [writeSymbols] at h
    subst h
    exact ⟨[], [], rfl, by simp, .nil, fun _ _ hh => Or.inr hh⟩
  | cons sy rest ih =>
    intro s s' nr h inv hn
    simp only [writeSymbols] at h
    split at h
    · cases h
    · rename_i s1 h1
      have hn1 := hn sy (by simp)
      have hnr : ∀ x ∈ rest, NoNul x.name := fun x hx => hn x (by simp [hx])
      obtain ⟨hdr, bs, a1, a2, a3, a4⟩ := writeSymbol_spec h1 inv hn1
      have st1 := writeSymbol_step h1 hn1
      obtain ⟨hs, bytes, b1, b2, b3, b4⟩ := ih s1 s' (nr + 1) h (st1.2 inv) hnr
      have strest := writeSymbols_step _ _ _ _ h hnr
      refine ⟨hdr :: hs, bs ++ bytes, by simp [serializeAll, a1, b1], by rw [b2, a2]; simp,
        .cons (a3.ext strest.1) b3, ?_⟩
      intro id n hh
      rcases b4 id n hh with ⟨k, sy', c1, c2, c3⟩ | hh
      · exact Or.inl ⟨k + 1, sy', by simp [c1], c2, by omega⟩
      · rw [a4] at hh
        simp only [assocN] at hh
        split at hh
        · rename_i heq
          injection hh with hh
          exact Or.inl ⟨0, sy, by simp, heq, by omega⟩
        · exact Or.inr hh

/-- the symbol table written into `s`: a SYMTAB header (entry size, `sh_size = entsize * (#symbols + 1)`,
    `sh_info = #locals + 1`) whose name resolves to ".symtab" and whose file range holds the null entry followed by the
    packed entries of `local_symbols + global_symbols`, each describing its symbol (`SymEntryOK`) -/
def SymTabOK (L : Layouts) (o : Obj) (s : St) : Prop :=
  ∃ (i nm off : Nat) (hs : List Hdr) (bytes : List Nat),
    s.shdrs[i]? = some (symtabHdr nm off (hsize L.sym * (o.symbols.length + 1))
      ((o.symbols.filter (fun s => !s.isGlobal)).length + 1) (wordAlign o.arch.cls) (hsize L.sym)) ∧
    strAt s.strtab nm = some symtabName ∧
    serializeAll L.sym hs = .ok bytes ∧ InBody s off (zeros (hsize L.sym) ++ bytes) ∧
    off % wordAlign o.arch.cls = 0 ∧
    All2 (SymEntryOK o s) (orderSymbols o.symbols) hs

theorem SymTabOK.ext {L : Layouts} {o : Obj} {s s' : St} (e : Ext s s') (h : SymTabOK L o s) : SymTabOK L o s' := by
  obtain ⟨i, nm, off, hs, bytes, a, b, c, d, f, g⟩ := h
  exact ⟨i, nm, off, hs, bytes, e.getElem a, e.strAt b, c, d.grow e.grow, f, All2.imp (fun _ _ x => x.ext e) g⟩

theorem writeSymbolTable_spec {L : Layouts} {o : Obj} {s s' : St} (h : writeSymbolTable {} L o s = .ok s') (inv : Inv s)
    (hn : ∀ sy ∈ o.symbols, NoNul sy.name) :
    SymTabOK L o s' ∧
    (∀ id n, assocN id s'.symIds = some n →
      (∃ k sy, (orderSymbols o.symbols)[k]? = some sy ∧ sy.id = id ∧ n = k + 1) ∨ assocN id s.symIds = some n) := by
  unfold writeSymbolTable at h
  simp only at h
  split at h
  · cases h
  · rename_i s1 h1
    split at h
    · cases h
    · rename_i s2 h2
      injection h with h
      have hno : ∀ sy ∈ orderSymbols o.symbols, NoNul sy.name := fun sy hs => hn sy (mem_orderSymbols hs)
      have st1 := alignTo_step h1
      have al := alignTo_spec h1
      have stw := write_step s1 (zeros (hsize L.sym))
      have invw := stw.2 (st1.2 inv)
      obtain ⟨hs, bytes, a1, a2, a3, a4⟩ := writeSymbols_spec _ _ _ _ h2 invw hno
      have st2 := writeSymbols_step _ _ _ _ h2 hno
      have inv2 := st2.2 invw
      obtain ⟨nm, e1, e2, e3, _, _⟩ := addHeader_spec s2 symtabName
        (fun nm => symtabHdr nm s1.tell (hsize L.sym * (o.symbols.length + 1))
          ((o.symbols.filter (fun s => !s.isGlobal)).length + 1) (wordAlign o.arch.cls) (hsize L.sym)) true
        noNul_symtab inv2.strwf
      have st3 := addHeader_step s2 symtabName
        (fun nm => symtabHdr nm s1.tell (hsize L.sym * (o.symbols.length + 1))
          ((o.symbols.filter (fun s => !s.isGlobal)).length + 1) (wordAlign o.arch.cls) (hsize L.sym)) true
        noNul_symtab (fun _ => rfl)
      have fr := addHeader_frame s2 symtabName
        (fun nm => symtabHdr nm s1.tell (hsize L.sym * (o.symbols.length + 1))
          ((o.symbols.filter (fun s => !s.isGlobal)).length + 1) (wordAlign o.arch.cls) (hsize L.sym)) true
      subst h
      refine ⟨⟨s2.shdrs.length, nm, s1.tell, hs, bytes, by rw [e1]; simp, e2, a1, ?_, al.2.2,
        All2.imp (fun _ _ x => x.ext st3.1) a3⟩, ?_⟩
      · have hin : InBody s2 s1.tell (zeros (hsize L.sym) ++ bytes) :=
          ⟨s1.body, [], by rw [a2]; simp [St.write], by simp [St.tell, St.write, st2.1.base]⟩
        exact hin.grow st3.1.grow
      · intro id n hh
        rw [fr.2.2.2.1] at hh
        rcases a4 id n hh with ⟨k, sy, c1, c2, c3⟩ | hh
        · exact Or.inl ⟨k, sy, c1, c2, by omega⟩
        · refine Or.inr ?_
          have : (s1.write (zeros (hsize L.sym))).symIds = s.symIds := by
            have := al.2.1; subst this; rfl
          rw [← this]; exact hh

/-! ### (3) RELA tables, state level -/

/-- `symbol_id_map` sends a symbol id to the 1-based position of a symbol with that id in `local_symbols + global_symbols` -/
def SymIdsOK (o : Obj) (s : St) : Prop :=
  ∀ id n, assocN id s.symIds = some n → ∃ k sy, (orderSymbols o.symbols)[k]? = some sy ∧ sy.id = id ∧ n = k + 1

/-- RELA entry `h` describes relocation `r`: offset and addend of `r`, the type the arch mapping gave, and as symbol
    index the position (in the written symbol table) of a symbol with the relocation's symbol id -/
def RelaEntryOK (c : Cls) (o : Obj) (r : Rel) (h : Hdr) : Prop :=
  ∃ (rsym rtype k : Nat) (sy : Sym), h = relaHdr c r.offset rsym rtype r.addend ∧ r.rtype = .ok rtype ∧ rsym = k + 1 ∧
    (orderSymbols o.symbols)[k]? = some sy ∧ sy.id = r.symbolId

theorem writeRelas_spec {L : Layouts} {c : Cls} {o : Obj} : ∀ (rs : List Rel) (s s' : St),
    writeRelas L c s rs = .ok s' → SymIdsOK o s →
    ∃ hs bytes, serializeAll L.rela hs = .ok bytes ∧ s'.body = s.body ++ bytes ∧ All2 (RelaEntryOK c o) rs hs ∧
      s'.symIds = s.symIds ∧ s'.secnums = s.secnums ∧ s'.base = s.base := by
  intro rs
  induction rs with
  | nil =>
    intro s s' h _
    simp [writeRelas] at h
    subst h
    exact ⟨[], [], rfl, by simp, .nil, rfl, rfl, rfl⟩
  | cons r rest ih =>
    intro s s' h hid
    simp only [writeRelas] at h
    split at h
    · cases h
    · rename_i s1 h1
      unfold St.writeRela at h1
      split at h1
      · cases h1
      · rename_i rsym hsym
        split at h1
        · cases h1
        · cases h1
        · rename_i rtype hrt
          split at h1
          · cases h1
          · rename_i bs hser
            injection h1 with h1
            subst h1
            obtain ⟨hs, bytes, b1, b2, b3, b4, b5, b6⟩ := ih (s.write bs) s' h hid
            obtain ⟨k, sy, c1, c2, c3⟩ := hid r.symbolId rsym hsym
            refine ⟨_ :: hs, bs ++ bytes, by simp [serializeAll, hser, b1], by rw [b2]; simp [St.write],
              .cons ⟨rsym, rtype, k, sy, rfl, hrt, c3, c1, c2⟩ b3, b4, b5, b6⟩

/-- the RELA table for section name `secName` written into `s` -/
def RelaTabOK (L : Layouts) (o : Obj) (s : St) (secName : List Nat) : Prop :=
  ∃ (i nm off target : Nat) (hs : List Hdr) (bytes : List Nat),
    s.shdrs[i]? = some (relaTabHdr nm off (hsize L.rela * (o.relocs.filter (fun r => r.sect = secName)).length) target
      (wordAlign o.arch.cls) (hsize L.rela)) ∧
    strAt s.strtab nm = some (relaPrefix ++ secName) ∧
    serializeAll L.rela hs = .ok bytes ∧ InBody s off bytes ∧ off % wordAlign o.arch.cls = 0 ∧
    All2 (RelaEntryOK o.arch.cls o) (o.relocs.filter (fun r => r.sect = secName)) hs ∧
    -- `sh_info` is the number of a section header whose name resolves to `secName`
    1 ≤ target ∧ ∃ (hd : Hdr) (nm' : Nat), s.shdrs[target - 1]? = some hd ∧ hd.get .sh_name = ((nm' : Nat) : Int) ∧
      strAt s.strtab nm' = some secName

theorem RelaTabOK.ext {L : Layouts} {o : Obj} {s s' : St} {n : List Nat} (e : Ext s s') (h : RelaTabOK L o s n) :
    RelaTabOK L o s' n := by
  obtain ⟨i, nm, off, target, hs, bytes, a, b, c, d, f, g, k, hd, nm', l, m, q⟩ := h
  exact ⟨i, nm, off, target, hs, bytes, e.getElem a, e.strAt b, c, d.grow e.grow, f, g, k, hd, nm', e.getElem l, m, e.strAt q⟩

theorem writeRelaGroup_spec {L : Layouts} {o : Obj} {s s' : St} {n : List Nat} (h : s.writeRelaGroup L o n = .ok s')
    (inv : Inv s) (hid : SymIdsOK o s) (hn : NoNul n) : RelaTabOK L o s' n ∧ SymIdsOK o s' := by
  unfold St.writeRelaGroup at h
  simp only at h
  split at h
  · cases h
  · rename_i s1 h1
    split at h
    · cases h
    · rename_i s2 h2
      split at h
      · cases h
      · rename_i target htarget
        injection h with h
        have al := alignTo_spec h1
        have st1 := alignTo_step h1
        have inv1 := st1.2 inv
        have hid1 : SymIdsOK o s1 := by
          have := al.2.1; subst this; exact hid
        obtain ⟨hs, bytes, a1, a2, a3, a4, a5, a6⟩ := writeRelas_spec (o := o) _ _ _ h2 hid1
        have st2 := writeRelas_step _ _ _ h2
        have inv2 := st2.2 inv1
        obtain ⟨nm, e1, e2, e3, _, _⟩ := addHeader_spec s2 (relaPrefix ++ n)
          (fun nm => relaTabHdr nm s1.tell (hsize L.rela * (o.relocs.filter (fun r => r.sect = n)).length) target
            (wordAlign o.arch.cls) (hsize L.rela)) false (noNul_rela hn) inv2.strwf
        have st3 := addHeader_step s2 (relaPrefix ++ n)
          (fun nm => relaTabHdr nm s1.tell (hsize L.rela * (o.relocs.filter (fun r => r.sect = n)).length) target
            (wordAlign o.arch.cls) (hsize L.rela)) false (noNul_rela hn) (fun _ => rfl)
        have fr := addHeader_frame s2 (relaPrefix ++ n)
          (fun nm => relaTabHdr nm s1.tell (hsize L.rela * (o.relocs.filter (fun r => r.sect = n)).length) target
            (wordAlign o.arch.cls) (hsize L.rela)) false
        obtain ⟨t1, hd, nm', t2, t3, t4⟩ := inv2.nums n target htarget
        subst h
        refine ⟨⟨s2.shdrs.length, nm, s1.tell, target, hs, bytes, by rw [e1]; simp, e2, a1, ?_, al.2.2, a3, t1, hd, nm',
          st3.1.getElem t2, t3, st3.1.strAt t4⟩, ?_⟩
        · have hin : InBody s2 s1.tell bytes := ⟨s1.body, [], by rw [a2]; simp, by simp [St.tell, a6]⟩
          exact hin.grow st3.1.grow
        · intro id k hh
          rw [fr.2.2.2.1, a4] at hh
          exact hid1 id k hh

theorem writeRelaGroups_spec {L : Layouts} {o : Obj} : ∀ (ns : List (List Nat)) (s s' : St),
    writeRelaGroups L o s ns = .ok s' → Inv s → SymIdsOK o s → (∀ n ∈ ns, NoNul n) → ∀ n ∈ ns, RelaTabOK L o s' n := by
  intro ns
  induction ns with
  | nil => intro s s' _ _ _ _ n hm; simp at hm
  | cons x rest ih =>
    intro s s' h inv hid hn n hm
    simp only [writeRelaGroups] at h
    split at h
    · cases h
    · rename_i s1 h1
      have hnx := hn x (by simp)
      have hnr : ∀ y ∈ rest, NoNul y := fun y hy => hn y (by simp [hy])
      have ⟨a, b⟩ := writeRelaGroup_spec h1 inv hid hnx
      have st1 := writeRelaGroup_step h1 hnx
      simp at hm
      rcases hm with hm | hm
      · subst hm
        exact a.ext (writeRelaGroups_step _ _ _ h hnr).1
      · exact ih _ _ h (st1.2 inv) b hnr n hm

theorem mem_insertName_self (n : List Nat) : ∀ (l : List (List Nat)), n ∈ insertName n l := by
  intro l
  induction l with
  | nil => simp [insertName]
  | cons m ms ih =>
    simp only [insertName]
    split
    · rename_i h; simp [h]
    · split <;> simp [ih]

theorem mem_insertName_of_mem {n x : List Nat} : ∀ {l : List (List Nat)}, x ∈ l → x ∈ insertName n l := by
  intro l
  induction l with
  | nil => intro h; simp at h
  | cons m ms ih =>
    intro h
    simp only [insertName]
    split
    · exact h
    · split
      · simp at h ⊢; right; exact h
      · simp at h ⊢
        rcases h with h | h
        · left; exact h
        · right; exact ih h

theorem sect_mem_relocSectionNames {rels : List Rel} {r : Rel} (h : r ∈ rels) : r.sect ∈ relocSectionNames rels := by
  unfold relocSectionNames
  have gen : ∀ (rs : List Rel) (acc : List (List Nat)), (r ∈ rs ∨ r.sect ∈ acc) →
      r.sect ∈ rs.foldl (fun acc r => insertName r.sect acc) acc := by
    intro rs
    induction rs with
    | nil => intro acc h; simpa using h
    | cons x rest ih =>
      intro acc h
      simp only [List.foldl_cons]
      apply ih
      rcases h with h | h
      · simp at h
        rcases h with h | h
        · right; subst h; exact mem_insertName_self _ _
        · left; exact h
      · right; exact mem_insertName_of_mem h
  exact gen rels [] (Or.inl h)

/-! ### `symbol_id_map` is empty until the symbol table is written -/

theorem genSectionHeader_symIds (s : St) (sec : Sec) (off : Int) : (s.genSectionHeader sec off).symIds = s.symIds :=
  (addHeader_frame s sec.name _ true).2.2.2.1

theorem genImageSectionHeaders_symIds (fo ia : Nat) : ∀ (secs : List Sec) (s : St),
    (genImageSectionHeaders fo ia s secs).symIds = s.symIds := by
  intro secs
  induction secs with
  | nil => intro s; rfl
  | cons x rest ih => intro s; simp only [genImageSectionHeaders]; rw [ih, genSectionHeader_symIds]

theorem alignTo_symIds {s s' : St} {a : Nat} (h : s.alignTo a = .ok s') : s'.symIds = s.symIds := by
  have := (alignTo_spec h).2.1
  subst this; rfl

theorem writeImages_symIds : ∀ (imgs : List Img) (s s' : St), writeImages {} s imgs = .ok s' → s'.symIds = s.symIds := by
  intro imgs
  induction imgs with
  | nil => intro s s' h; simp [writeImages] at h; subst h; rfl
  | cons img rest ih =>
    intro s s' h
    simp only [writeImages] at h
    split at h
    · cases h
    · rename_i s1 h1
      rw [ih _ _ h]
      obtain ⟨s0, d, a1, _, a3⟩ := writeImage_eq h1
      rw [a3]
      simp only [St.write]
      rw [genImageSectionHeaders_symIds]
      simp [alignTo_symIds a1]

theorem writeSections_symIds : ∀ (secs : List Sec) (s s' : St), writeSections s secs = .ok s' → s'.symIds = s.symIds := by
  intro secs
  induction secs with
  | nil => intro s s' h; simp [writeSections] at h; subst h; rfl
  | cons sec rest ih =>
    intro s s' h
    simp only [writeSections] at h
    split at h
    · exact ih _ _ h
    · split at h
      · cases h
      · rename_i s1 h1
        rw [ih _ _ h, genSectionHeader_symIds]
        simp [St.write, alignTo_symIds h1]

/-- (2)+(3), state level, tied to the file's section header table: the symbol table and (relocatable files) one RELA
    table per section with relocations are in the final state; `ShTab` says how the reader finds their headers -/
theorem export_symtab_rela {o : Obj} {t : EType} {file : List Nat}
    (h : exportObject {} (gabiLayouts o.arch.cls o.arch.en) o t = .ok file) (hn : NamesOK o) :
    ∃ (s6 : St) (hd : Rec) (phs : List Hdr) (pre : List Nat), ShTab o t file s6 hd phs pre ∧
      SymTabOK (gabiLayouts o.arch.cls o.arch.en) o s6 ∧
      (t = .rel → ∀ r ∈ o.relocs, RelaTabOK (gabiLayouts o.arch.cls o.arch.en) o s6 r.sect) := by
  obtain ⟨s1, s2, s3, s4, s6, entry, shstrndx, ehb, phb, h1, h2, h3, h4, h6, h8, h9, hfile, i1, i2, i3, i4, i5, i6,
    e2, e3, e4, e5, e6, hphn, hser, hb, _⟩ := export_states h hn
  obtain ⟨hd, phs, T⟩ := shtab_of_states h6 h8 h9 hfile hphn hser hb
  have ⟨sy, ids⟩ := writeSymbolTable_spec h3 i2 hn.syms
  have hs2 : s2.symIds = [] := by
    rw [writeSections_symIds _ _ _ h2]
    split at h1
    · rw [writeImages_symIds _ _ _ h1]; simp [initState]
    · have e := Except.ok.inj h1; rw [← e]; simp [initState]
  have hid3 : SymIdsOK o s3 := by
    intro id n hh
    rcases ids id n hh with hh | hh
    · exact hh
    · rw [hs2] at hh; simp [assocN] at hh
  refine ⟨s6, hd, phs, _, T, sy.ext (e4.trans (e5.trans e6)), ?_⟩
  intro ht r hr
  subst ht
  simp only [beq_self_eq_true, if_true] at h4
  have hnn : ∀ n ∈ relocSectionNames o.relocs, NoNul n := fun n hm => by
    obtain ⟨r', hr', e⟩ := mem_relocSectionNames hm
    rw [← e]; exact hn.rels r' hr'
  exact (writeRelaGroups_spec _ _ _ h4 i3 hid3 hnn r.sect (sect_mem_relocSectionNames hr)).ext (e5.trans e6)

/-- the guards of the composed theorem -/
structure Guard (o : Obj) : Prop where
  names : NamesOK o
  /-- section names identify sections (`ObjectFile.section_map`) -/
  inj : ∀ a ∈ o.sections, ∀ b ∈ o.sections, a.name = b.name → a = b
  /-- the sections of an image are sections of the object (the linker puts the same objects into both lists) -/
  img : ∀ img ∈ o.images, ∀ sec ∈ img.sections, sec ∈ o.sections

/-- all tables of one written file, with ONE final writer state `s6` -/
theorem export_all_tables {o : Obj} {t : EType} {file : List Nat}
    (h : exportObject {} (gabiLayouts o.arch.cls o.arch.en) o t = .ok file) (g : Guard o) :
    ∃ (s6 : St) (hd : Rec) (phs : List Hdr) (pre : List Nat), ShTab o t file s6 hd phs pre ∧
      (1 ≤ hd.get .e_shstrndx ∧ ∃ hs, phs[hd.get .e_shstrndx - 1]? = some hs ∧
        Rec.get (recOf (shdr o.arch.cls) hs) .sh_type = 3 ∧
        slice file (Rec.get (recOf (shdr o.arch.cls) hs) .sh_offset) (Rec.get (recOf (shdr o.arch.cls) hs) .sh_size)
          = some s6.strtab) ∧
      (∀ sec ∈ o.sections, ∃ (i : Nat) (h' : Hdr), phs[i]? = some h' ∧ SecRecOK file s6.strtab sec (recOf (shdr o.arch.cls) h')) ∧
      (withImages o t = true → ∀ img ∈ o.images, ∀ sec ∈ img.sections, ImgSecOK s6 img sec) ∧
      SymTabOK (gabiLayouts o.arch.cls o.arch.en) o s6 ∧
      (t = .rel → ∀ r ∈ o.relocs, RelaTabOK (gabiLayouts o.arch.cls o.arch.en) o s6 r.sect) := by
  have hn := g.names
  obtain ⟨s1, s2, s3, s4, s6, entry, shstrndx, ehb, phb, h1, h2, h3, h4, h6, h8, h9, hfile, i1, i2, i3, i4, i5, i6,
    e2, e3, e4, e5, e6, hphn, hser, hb, _⟩ := export_states h hn
  obtain ⟨hd, phs, T⟩ := shtab_of_states h6 h8 h9 hfile hphn hser hb
  have e26 : Ext s2 s6 := e3.trans (e4.trans (e5.trans e6))
  have ⟨pl, im⟩ := sections_placed_of_states h1 h2 i1 (e2.trans e26) e26 hn g.inj g.img
  have fr := writeSectionHeaders_frame h6
  have ⟨sy, ids⟩ := writeSymbolTable_spec h3 i2 hn.syms
  have hs2 : s2.symIds = [] := by
    rw [writeSections_symIds _ _ _ h2]
    split at h1
    · rw [writeImages_symIds _ _ _ h1]; simp [initState]
    · have e := Except.ok.inj h1; rw [← e]; simp [initState]
  have hid3 : SymIdsOK o s3 := by
    intro id n hh
    rcases ids id n hh with hh | hh
    · exact hh
    · rw [hs2] at hh; simp [assocN] at hh
  refine ⟨s6, hd, phs, _, T, ?_, ?_, im, sy.ext (e4.trans (e5.trans e6)), ?_⟩
  · obtain ⟨nm, a1, a2, a3, a4, a5, _, _, _⟩ := writeStringTable_spec s4 i4.strwf
    have hndx : hd.get .e_shstrndx = s4.shdrs.length + 1 := by
      have := T.shstrndx
      rw [fr.2.2, a3] at this
      simp [assoc] at this
      exact this.symm
    have hlast : s6.shdrs[s4.shdrs.length]? = some (strtabHdr nm s4.tell s6.strtab.length) := by
      rw [fr.1, a1, fr.2.1]; simp
    obtain ⟨h', b1, b2⟩ := T.patched.getElem hlast
    refine ⟨by omega, h', by rw [hndx]; simpa using b1, ?_⟩
    have hin : InBody s6 s4.tell s6.strtab := by rw [fr.2.1]; exact a4.grow e6.grow
    exact strtabRec_of T.pre_len T.file_eq (fun n hne => patchLink_get b2 n hne) (T.fits h' (List.mem_of_getElem? b1)) hin
  · intro sec hsec
    obtain ⟨i, nm, off, c1, c2, c3⟩ := pl sec hsec
    obtain ⟨h', b1, b2⟩ := T.patched.getElem c1
    exact ⟨i, h', b1, secRec_of_placed T.pre_len T.file_eq (fun n hne => patchLink_get b2 n hne)
      (T.fits h' (List.mem_of_getElem? b1)) c2 c3⟩
  · intro ht r hr
    subst ht
    simp only [beq_self_eq_true, if_true] at h4
    have hnn : ∀ n ∈ relocSectionNames o.relocs, NoNul n := fun n hm => by
      obtain ⟨r', hr', e⟩ := mem_relocSectionNames hm
      rw [← e]; exact hn.rels r' hr'
    exact (writeRelaGroups_spec _ _ _ h4 i3 hid3 hnn r.sect (sect_mem_relocSectionNames hr)).ext (e5.trans e6)

/-- objects violating one guard each (witnesses in Props/C17.lean) -/
def dupNameObj : Obj :=
  { arch := .x86_64, sections := [⟨codeN, 0, [1, 2], 4⟩, ⟨codeN, 0, [7, 7, 7], 4⟩], symbols := [], relocs := [],
    images := [], entry := none }

def strangerImgObj : Obj :=
  { arch := .arm, sections := [⟨codeN, 0x10000, [1, 2, 3, 4], 4⟩], symbols := [], relocs := [],
    images := [⟨codeN, 0x10000, [⟨codeN, 0x10000, [9, 9, 9, 9], 4⟩]⟩], entry := none }

end Proofs.ElfW
