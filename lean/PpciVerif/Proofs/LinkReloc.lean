import PpciVerif.Model.LinkReloc
import PpciVerif.Proofs.Reloc
/-! The linker's relocation step: what a successful `_do_relocation` did to the section bytes. -/
namespace Proofs.LinkReloc
open Model.LinkReloc Model.Reloc

theorem slice_length_le (data : List Nat) (b n : Nat) : (slice data b n).length ≤ n := by
  unfold slice; simp [List.length_take]

theorem slice_full {data : List Nat} {b n : Nat} (h : (slice data b n).length = n) : b + n ≤ data.length ∨ n = 0 := by
  unfold slice at h
  simp only [List.length_take, List.length_drop] at h
  omega

/-- reading back the bytes just written -/
theorem slice_splice {data new : List Nat} {b : Nat} (h : b + new.length ≤ data.length) :
    slice (splice data b new) b new.length = new := by
  unfold slice splice
  have hb : (data.take b).length = b := by simp [List.length_take]; omega
  rw [List.append_assoc, List.drop_append_of_le_length (by omega)]
  have : List.drop b (List.take b data) = [] := by
    apply List.drop_eq_nil_of_le; omega
  rw [this, List.nil_append, List.take_append_of_le_length (by omega), List.take_length]

theorem splice_length {data new : List Nat} {b : Nat} (h : b + new.length ≤ data.length) :
    (splice data b new).length = data.length := by
  unfold splice
  simp only [List.length_append, List.length_take, List.length_drop]
  omega

/-- bytes outside the site are untouched -/
theorem splice_frame {data new : List Nat} {b : Nat} (h : b + new.length ≤ data.length) (i : Nat)
    (hi : i < b ∨ b + new.length ≤ i) : (splice data b new)[i]? = data[i]? := by
  unfold splice
  have hb : (data.take b).length = b := by simp [List.length_take]; omega
  rcases hi with hi | hi
  · rw [List.append_assoc, List.getElem?_append_left (by omega), List.getElem?_take_of_lt hi]
  · rw [List.getElem?_append_right (by simp only [List.length_append]; omega)]
    simp only [List.length_append, hb, List.getElem?_drop]
    congr 1; omega

theorem bytes_slice {data : List Nat} (h : ∀ x ∈ data, x < 256) (b n : Nat) : ∀ x ∈ slice data b n, x < 256 := by
  intro x hx
  unfold slice at hx
  exact h x (List.mem_of_mem_drop (List.mem_of_mem_take hx))

theorem getSec_updSec (secs : List Sec) (n : String) (f : Sec → Sec) (hf : ∀ s, (f s).name = s.name) :
    getSec (updSec secs n f) n = (getSec secs n).map f := by
  induction secs with
  | nil => rfl
  | cons s rest ih =>
    unfold getSec updSec at *
    simp only [List.map_cons, List.find?_cons]
    by_cases hs : (s.name == n) = true
    · simp [hs, hf]
    · simp only [Bool.not_eq_true] at hs
      simp only [hs, Bool.false_eq_true, if_false]
      exact ih

/-- Everything `_do_relocation` does, when it succeeds: the symbol value `S` is the symbol's value plus its
    section's address, the site address `P` is the section address plus the offset, the site bytes are replaced
    by `apply S (site bytes) P`, every other byte of the section keeps its value. -/
theorem doRelocation_spec {isa : String} {secs secs' : List Sec} {syms : List Sym} {r : RelocEntry}
    (h : doRelocation isa secs syms r = .ok secs') :
    ∃ S sec size out,
      symbolValue secs syms r.symbolId = .ok S ∧ getSec secs r.sect = some sec
      ∧ relocSize isa r.relocType = some size
      ∧ Model.Reloc.apply isa r.relocType r.addend S (slice sec.data r.offset size) (sec.address + r.offset) = some (.ok out)
      ∧ out.length = size ∧ (slice sec.data r.offset size).length = size
      ∧ getSec secs' r.sect = some { sec with data := splice sec.data r.offset out }
      ∧ (r.offset + size ≤ sec.data.length → slice (splice sec.data r.offset out) r.offset size = out) := by
  unfold doRelocation at h
  cases hS : symbolValue secs syms r.symbolId with
  | error e => rw [hS] at h; cases h
  | ok S =>
    rw [hS] at h
    cases hsec : getSec secs r.sect with
    | none => rw [hsec] at h; cases h
    | some sec =>
      rw [hsec] at h
      cases hsz : relocSize isa r.relocType with
      | none => rw [hsz] at h; cases h
      | some size =>
        rw [hsz] at h
        simp only at h
        split at h
        · cases h
        · rename_i hlen
          cases hap : Model.Reloc.apply isa r.relocType r.addend S (slice sec.data r.offset size) (sec.address + ↑r.offset) with
          | none => rw [hap] at h; cases h
          | some res =>
            rw [hap] at h
            cases res with
            | error e => cases h
            | ok out =>
              simp only at h
              split at h
              · cases h
              · rename_i hout
                cases h
                have hlen' : (slice sec.data r.offset size).length = size := by simpa using hlen
                have hout' : out.length = size := by simpa using hout
                refine ⟨S, sec, size, out, rfl, rfl, rfl, hap, hout', hlen', ?_, ?_⟩
                · have := getSec_updSec secs r.sect (fun s => { s with data := splice s.data r.offset out }) (fun _ => rfl)
                  rw [this, hsec]; rfl
                · intro hb
                  rw [← hout']
                  exact slice_splice (by omega)

/-- the facts every per-type theorem starts from -/
theorem site {isa : String} {secs secs' : List Sec} {syms : List Sym} {r : RelocEntry} {n : Nat}
    (h : doRelocation isa secs syms r = .ok secs') (hsz : relocSize isa r.relocType = some n) (hn : 0 < n) :
    ∃ S sec out,
      symbolValue secs syms r.symbolId = .ok S ∧ getSec secs r.sect = some sec
      ∧ Model.Reloc.apply isa r.relocType r.addend S (slice sec.data r.offset n) (sec.address + r.offset) = some (.ok out)
      ∧ (slice sec.data r.offset n).length = n
      ∧ getSec secs' r.sect = some { sec with data := splice sec.data r.offset out }
      ∧ slice (splice sec.data r.offset out) r.offset n = out := by
  obtain ⟨S, sec, size, out, h1, h2, h3, h4, h5, h6, h7, h8⟩ := doRelocation_spec h
  rw [hsz] at h3
  cases h3
  refine ⟨S, sec, out, h1, h2, h4, h6, h7, h8 ?_⟩
  rcases slice_full h6 with hh | hh <;> omega

/-- what "the linked image at the site" means in the theorems below -/
def linkedSite (secs' : List Sec) (r : RelocEntry) (n : Nat) : List Nat :=
  match getSec secs' r.sect with
  | some s => slice s.data r.offset n
  | none => []

theorem linkedSite_eq {secs' : List Sec} {r : RelocEntry} {n : Nat} {sec : Sec} {out : List Nat}
    (h7 : getSec secs' r.sect = some { sec with data := splice sec.data r.offset out })
    (h8 : slice (splice sec.data r.offset out) r.offset n = out) : linkedSite secs' r n = out := by
  simp [linkedSite, h7, h8]


end Proofs.LinkReloc
