import PpciVerif.Spec.C3
import PpciVerif.Proofs.IRArith
/-! Basic facts relating `Spec.C3` (the C rendering, over `Spec.CInt`) to `Spec.IRArith`:
C's conversion is `wrap`; values of a type are values of its computation type; a result computed in
the computation type and converted back to the declared type is the wrapped exact result; bitwise
operators commute with the truncation to the declared width. -/
namespace Proofs.C3
open Spec.IRArith Spec.C3 Proofs.IRArith

theorem convert_eq_wrap (t : Ty) (v : Int) : convert t v = wrap t v := by
  cases t <;>
    simp only [convert, cTy, Spec.CInt.convert, Spec.CInt.inRange, Spec.CInt.Ty.minV, Spec.CInt.Ty.maxV,
      Spec.CInt.Ty.signed, Spec.CInt.Ty.bits, wrap, Ty.signed, Ty.bits] <;>
    simp <;> (repeat' split) <;> omega

theorem convert_of_inRange (t : Ty) (v : Int) (h : InRange t v) : convert t v = v := by
  rw [convert_eq_wrap]; exact wrap_of_inRange t v h

theorem inRange_comp (t : Ty) (v : Int) (h : InRange t v) : InRange (compTy t) v := by
  cases t <;> simp [InRange, compTy, Ty.minVal, Ty.maxVal, Ty.signed, Ty.bits] at h ⊢ <;> omega

theorem convert_comp (t : Ty) (v : Int) (h : InRange t v) : convert (compTy t) v = v :=
  convert_of_inRange _ _ (inRange_comp t v h)

theorem ite_some {p : Prop} [Decidable p] {x a : Int} (h : (if p then some x else none) = some a) : p ∧ x = a := by
  by_cases hp : p <;> simp [hp] at h
  exact ⟨hp, h⟩

/-- C `arith` in terms of wrap/InRange -/
theorem arith_eq (w : Ty) (r : Int) :
    Spec.CInt.arith (cTy w) r = if w.signed then (if InRange w r then some r else none) else some (wrap w r) := by
  cases w <;> simp [Spec.CInt.arith, cTy, Spec.CInt.inRange, Spec.CInt.Ty.minV, Spec.CInt.Ty.maxV,
      Spec.CInt.Ty.signed, Spec.CInt.Ty.bits, wrap, Ty.signed, Ty.bits, InRange, Ty.minVal, Ty.maxVal]

/-- a result computed in the computation type and converted back is the wrapped exact result -/
theorem arith_back (t : Ty) (r v : Int) (h : (Spec.CInt.arith (cTy (compTy t)) r).map (convert t) = some v) :
    wrap t r = v := by
  rw [arith_eq] at h
  cases t <;> simp [compTy, Ty.signed, convert_eq_wrap] at h
  case i8 | i16 | i32 | i64 =>
    obtain ⟨a, h1, h2⟩ := h
    obtain ⟨-, rfl⟩ := ite_some h1; exact h2
  all_goals (rw [← h]; simp [wrap, Ty.signed, Ty.bits] <;> omega)

/-- conversion back from the computation type -/
theorem wrap_wrap_comp (t : Ty) (x : Int) : wrap t (wrap (compTy t) x) = wrap t x := by
  cases t <;> simp [compTy, wrap, Ty.signed, Ty.bits] <;> omega

theorem wrap_congr (t : Ty) (x y : Int) (h : x % 2 ^ t.bits = y % 2 ^ t.bits) : wrap t x = wrap t y := by
  cases t <;> simp [wrap, Ty.signed, Ty.bits] at h ⊢ <;> omega

/-- the low `t.bits` bits of the pattern in the computation type are the pattern in `t` -/
theorem toBits_comp (t : Ty) (a : Int) : Spec.CInt.toU (cTy (compTy t)) a % 2 ^ t.bits = toBits t a := by
  cases t <;> simp [Spec.CInt.toU, compTy, cTy, Spec.CInt.Ty.bits, toBits, Ty.bits] <;> omega

theorem ofU_eq (w : Ty) (n : Nat) : Spec.CInt.ofU (cTy w) n = wrap w n := by
  have := convert_eq_wrap w n
  simpa [Spec.CInt.ofU, convert] using this

/-- a bitwise operator that commutes with truncation gives, after conversion back, the operator on the narrow patterns -/
theorem bit_back (t : Ty) (f : Nat → Nat → Nat) (hf : ∀ m n k, f m n % 2 ^ k = f (m % 2 ^ k) (n % 2 ^ k)) (a b : Int) :
    convert t (Spec.CInt.ofU (cTy (compTy t)) (f (Spec.CInt.toU (cTy (compTy t)) a) (Spec.CInt.toU (cTy (compTy t)) b)))
      = ofBits t (f (toBits t a) (toBits t b)) := by
  rw [convert_eq_wrap, ofU_eq, wrap_wrap_comp, ofBits]
  apply wrap_congr
  have h := hf (Spec.CInt.toU (cTy (compTy t)) a) (Spec.CInt.toU (cTy (compTy t)) b) t.bits
  rw [toBits_comp, toBits_comp] at h
  have h2 := hf (toBits t a) (toBits t b) t.bits
  have ha : toBits t a % 2 ^ t.bits = toBits t a := by
    cases t <;> simp [toBits, Ty.bits] <;> omega
  have hb : toBits t b % 2 ^ t.bits = toBits t b := by
    cases t <;> simp [toBits, Ty.bits] <;> omega
  rw [ha, hb] at h2
  have h3 : f (Spec.CInt.toU (cTy (compTy t)) a) (Spec.CInt.toU (cTy (compTy t)) b) % 2 ^ t.bits
      = f (toBits t a) (toBits t b) % 2 ^ t.bits := by rw [h, h2]
  generalize f (Spec.CInt.toU (cTy (compTy t)) a) (Spec.CInt.toU (cTy (compTy t)) b) = X at h3 ⊢
  generalize f (toBits t a) (toBits t b) = Y at h3 ⊢
  cases t <;> simp [Ty.bits] at h3 ⊢ <;> omega
end Proofs.C3
