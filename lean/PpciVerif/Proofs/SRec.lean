import PpciVerif.Model.SRec
import PpciVerif.Spec.SRec
/-! Helper lemmas for C19 (Motorola S-records). -/
namespace Proofs.SRec
open Spec.SRec
open Model.SRec (addrSize beBytes hexDigitU hexlifyU recordBytes toLine chunksF chunks30 dataLines typesFor writeSrecord)

/-! ### hex text -/

theorem hexVal_hexDigitU : ∀ n, n < 16 → hexVal (hexDigitU n) = some n := by decide
theorem digit_hexDigitU : ∀ n, n < 10 → digit (hexDigitU n) = some n := by decide

theorem hexBytes_hexlifyU : ∀ bs : List Nat, (∀ b ∈ bs, b < 256) → hexBytes (hexlifyU bs) = some bs
  | [], _ => by simp [hexlifyU, hexBytes]
  | b :: bs, h => by
    have hb : b < 256 := h b (by simp)
    have ih := hexBytes_hexlifyU bs (fun x hx => h x (by simp [hx]))
    simp only [hexlifyU, hexBytes, ih]
    rw [hexVal_hexDigitU (b / 16) (by omega), hexVal_hexDigitU (b % 16) (by omega)]
    simp; omega

/-! ### big-endian address field -/

theorem beBytes_length (v n : Nat) : (beBytes v n).length = n := by
  induction n with
  | zero => rfl
  | succ n ih => simp [beBytes, ih]

theorem beBytes_lt (v n : Nat) : ∀ b ∈ beBytes v n, b < 256 := by
  induction n with
  | zero => simp [beBytes]
  | succ n ih =>
    intro b hb
    simp only [beBytes, List.mem_cons] at hb
    rcases hb with rfl | hb
    · exact Nat.mod_lt _ (by omega)
    · exact ih b hb

theorem beVal_beBytes (v n : Nat) : beVal (beBytes v n) = v % 256 ^ n := by
  induction n with
  | zero => simp [beBytes, beVal, Nat.mod_one]
  | succ n ih =>
    simp only [beBytes, beVal, beBytes_length, ih]
    rw [Nat.pow_succ, Nat.mod_mul]
    rw [Nat.mul_comm (256 ^ n)]; omega

/-! ### one record -/

def lineText (typ asz address : Nat) (data : List Nat) : List Char :=
  'S' :: hexDigitU typ :: hexlifyU (recordBytes asz address data)

theorem recordBytes_lt (asz address : Nat) (data : List Nat) (hd : ∀ b ∈ data, b < 256)
    (hc : asz + data.length + 1 ≤ 255) : ∀ b ∈ recordBytes asz address data, b < 256 := by
  intro b hb
  simp only [recordBytes, List.cons_append, List.mem_cons, List.mem_append, List.not_mem_nil, or_false] at hb
  rcases hb with rfl | (hb | hb) | rfl
  · omega
  · exact beBytes_lt _ _ b hb
  · exact hd b hb
  · omega

theorem parse_lineText (typ asz address : Nat) (data : List Nat) (ht : typ < 10)
    (hs : addrLen typ = some asz) (ha : address < 256 ^ asz) (hd : ∀ b ∈ data, b < 256)
    (hc : asz + data.length + 1 ≤ 255) :
    parseRecord (lineText typ asz address data) = some ⟨typ, address, data⟩ := by
  have hb := recordBytes_lt asz address data hd hc
  simp only [lineText, parseRecord, digit_hexDigitU typ ht, hexBytes_hexlifyU _ hb]
  simp only [recordBytes, List.cons_append, hs]
  have hlen : (beBytes address asz ++ data ++ [255 - (asz + data.length + 1 + (beBytes address asz ++ data).sum) % 256]).length
      = asz + data.length + 1 := by simp [beBytes_length]; omega
  have htake : (beBytes address asz ++ data ++ [255 - (asz + data.length + 1 + (beBytes address asz ++ data).sum) % 256]).take asz
      = beBytes address asz := by
    rw [List.append_assoc, List.take_left' (beBytes_length _ _)]
  have hdrop : (beBytes address asz ++ data ++ [255 - (asz + data.length + 1 + (beBytes address asz ++ data).sum) % 256]).drop asz
      = data ++ [255 - (asz + data.length + 1 + (beBytes address asz ++ data).sum) % 256] := by
    rw [List.append_assoc, List.drop_left' (beBytes_length _ _)]
  simp only [List.sum_cons] at *
  have hsum : (asz + data.length + 1 + (beBytes address asz ++ data ++
      [255 - (asz + data.length + 1 + (beBytes address asz ++ data).sum) % 256]).sum) % 256 = 255 := by
    simp only [List.sum_append, List.sum_cons, List.sum_nil]
    omega
  have hle : asz + 1 ≤ asz + data.length + 1 := by omega
  simp only [hlen, hsum, hle, and_self, if_true, htake, hdrop, List.dropLast_concat, beVal_beBytes,
    Nat.mod_eq_of_lt ha]

theorem toLine_ok (typ asz address : Nat) (data : List Nat) (hs : addrSize typ = some asz)
    (ha : address < 256 ^ asz) (hc : asz + data.length + 1 ≤ 255) :
    toLine typ address data = .ok (lineText typ asz address data) := by
  simp only [toLine, hs]
  rw [if_neg (by omega), if_neg (by omega)]
  rfl

/-! ### chunks -/

theorem chunksF_spec : ∀ (fuel : Nat) (d : List Nat), d.length ≤ fuel →
    (chunksF fuel d).flatten = d ∧ ∀ c ∈ chunksF fuel d, c ≠ [] ∧ c.length ≤ 30 ∧ ∀ b ∈ c, b ∈ d
  | 0, d, h => by
    have : d = [] := List.eq_nil_of_length_eq_zero (by omega)
    subst this; simp [chunksF]
  | fuel + 1, d, h => by
    unfold chunksF
    split
    · next hd => subst hd; simp
    · next hd =>
      have hl : (d.drop 30).length ≤ fuel := by
        have : d.length ≠ 0 := fun h0 => hd (List.eq_nil_of_length_eq_zero h0)
        simp only [List.length_drop]; omega
      obtain ⟨ih1, ih2⟩ := chunksF_spec fuel (d.drop 30) hl
      refine ⟨by simp [ih1], ?_⟩
      intro c hc
      simp only [List.mem_cons] at hc
      rcases hc with rfl | hc
      · refine ⟨?_, by simp [List.length_take]; omega, fun b hb => List.mem_of_mem_take hb⟩
        intro h0
        have := congrArg List.length h0
        simp [List.length_take] at this
        cases d with
        | nil => exact hd rfl
        | cons x xs => simp at this
      · obtain ⟨h1, h2, h3⟩ := ih2 c hc
        exact ⟨h1, h2, fun b hb => List.mem_of_mem_drop (h3 b hb)⟩

theorem chunks30_spec (d : List Nat) :
    (chunks30 d).flatten = d ∧ ∀ c ∈ chunks30 d, c ≠ [] ∧ c.length ≤ 30 ∧ ∀ b ∈ c, b ∈ d :=
  chunksF_spec d.length d (Nat.le_refl _)

def ChunksOK (cs : List (List Nat)) : Prop := ∀ c ∈ cs, c.length ≤ 30 ∧ ∀ b ∈ c, b < 256

/-! ### the data records -/

theorem cellsOf_append (a : Nat) (d1 d2 : List Nat) :
    cellsOf a (d1 ++ d2) = cellsOf a d1 ++ cellsOf (a + d1.length) d2 := by
  induction d1 generalizing a with
  | nil => simp [cellsOf]
  | cons b bs ih => simp [cellsOf, ih, Nat.add_assoc, Nat.add_comm 1]

/-- the data records as a pure function -/
def dataRecs (typ address : Nat) : List (List Nat) → List Record
  | [] => []
  | c :: rest => ⟨typ, address, c⟩ :: dataRecs typ (address + c.length) rest

def dataText (typ asz address : Nat) : List (List Nat) → List (List Char)
  | [] => []
  | c :: rest => lineText typ asz address c :: dataText typ asz (address + c.length) rest

theorem dataLines_spec (typ asz : Nat) (ht : typ < 10) (hs : addrSize typ = some asz) (hs' : addrLen typ = some asz)
    (hasz : asz ≤ 4) (cs : List (List Nat)) : ∀ address, ChunksOK cs → address + cs.flatten.length ≤ 256 ^ asz →
    (∀ c ∈ cs, c ≠ []) →
    dataLines typ address cs = .ok (dataText typ asz address cs) ∧
      parseAll (dataText typ asz address cs) = some (dataRecs typ address cs) := by
  induction cs with
  | nil => intro _ _ _ _; exact ⟨rfl, rfl⟩
  | cons c rest ih =>
    intro address hok hend hne
    obtain ⟨hc30, hcb⟩ := hok c (by simp)
    have hc0 : 0 < c.length := List.length_pos_iff.mpr (hne c (by simp))
    simp only [List.flatten_cons, List.length_append] at hend
    obtain ⟨h1, h2⟩ := ih (address + c.length) (fun x hx => hok x (by simp [hx])) (by omega)
      (fun x hx => hne x (by simp [hx]))
    have ha : address < 256 ^ asz := by omega
    refine ⟨?_, ?_⟩
    · simp only [dataLines, toLine_ok typ asz address c hs ha (by omega), h1]; rfl
    · simp only [dataText, dataRecs, parseAll, parse_lineText typ asz address c ht hs' ha hcb (by omega), h2]

def prependM (cs : List (Nat × Nat)) : Option (List (Nat × Nat) × Nat) → Option (List (Nat × Nat) × Nat)
  | some (m, s) => some (cs ++ m, s)
  | none => none

theorem prependM_prependM (a b : List (Nat × Nat)) (o) : prependM a (prependM b o) = prependM (a ++ b) o := by
  cases o with
  | none => rfl
  | some p => obtain ⟨m, s⟩ := p; simp [prependM]

theorem prependM_nil (o) : prependM [] o = o := by
  cases o with
  | none => rfl
  | some p => obtain ⟨m, s⟩ := p; simp [prependM]

/-- the reader on a block of data records of type `typ` ∈ {1,2,3} -/
theorem body_dataRecs (typ : Nat) (ht : typ = 1 ∨ typ = 2 ∨ typ = 3) (cs : List (List Nat)) :
    ∀ (address n : Nat) (dt : Option Nat) (tail : List Record), (dt = none ∨ dt = some typ) →
    address + cs.flatten.length ≤ 256 ^ (typ + 1) →
    ∃ dt', (dt' = none ∨ dt' = some typ) ∧
      body dt n (dataRecs typ address cs ++ tail) =
        prependM (cellsOf address cs.flatten) (body dt' (n + cs.length) tail) := by
  induction cs with
  | nil =>
    intro address n dt tail hdt _
    exact ⟨dt, hdt, by simp [dataRecs, cellsOf, prependM_nil]⟩
  | cons c rest ih =>
    intro address n dt tail hdt hend
    simp only [List.flatten_cons, List.length_append] at hend
    obtain ⟨dt', h1, h2⟩ := ih (address + c.length) (n + 1) (some typ) tail (Or.inr rfl) (by omega)
    refine ⟨dt', h1, ?_⟩
    simp only [dataRecs, List.cons_append, body]
    rw [if_pos ht, if_pos ⟨hdt, by show address + c.length ≤ 256 ^ (typ + 1); omega⟩, h2]
    rw [List.flatten_cons, cellsOf_append, ← prependM_prependM, List.length_cons,
      show n + 1 + rest.length = n + (rest.length + 1) by omega]
    cases body dt' (n + (rest.length + 1)) tail with
    | none => rfl
    | some p => obtain ⟨m, s⟩ := p; rfl

/-! ### the whole file -/

theorem parseAll_append (a b : List (List Char)) (ra rb : List Record)
    (ha : parseAll a = some ra) (hb : parseAll b = some rb) : parseAll (a ++ b) = some (ra ++ rb) := by
  induction a generalizing ra with
  | nil => simp only [parseAll, Option.some.injEq] at ha; subst ha; simpa using hb
  | cons l ls ih =>
    simp only [parseAll] at ha
    cases hl : parseRecord l with
    | none => simp [hl] at ha
    | some r =>
      cases hls : parseAll ls with
      | none => simp [hl, hls] at ha
      | some rs =>
        simp only [hl, hls, Option.some.injEq] at ha
        subst ha
        simp only [List.cons_append, parseAll, hl, ih rs hls]

def hdrText : List Char := lineText 0 2 0 [72, 68, 82]

/-- the text `write_srecord` prints when data records have type `typ` (address field `asz` bytes)
    and the termination record type `e` -/
def fileText (typ asz e address : Nat) (data : List Nat) : List (List Char) :=
  hdrText :: dataText typ asz address (chunks30 data) ++ [lineText e asz 0 []]

def fileRecs (typ e address : Nat) (data : List Nat) : List Record :=
  ⟨0, 0, [72, 68, 82]⟩ :: dataRecs typ address (chunks30 data) ++ [⟨e, 0, []⟩]

theorem chunksOK_of_bytes (data : List Nat) (hd : ∀ b ∈ data, b < 256) : ChunksOK (chunks30 data) := by
  intro c hc
  obtain ⟨_, h2, h3⟩ := (chunks30_spec data).2 c hc
  exact ⟨h2, fun b hb => hd b (h3 b hb)⟩

theorem hdr_parse : parseRecord hdrText = some ⟨0, 0, [72, 68, 82]⟩ :=
  parse_lineText 0 2 0 [72, 68, 82] (by decide) rfl (by decide) (by decide) (by decide)

theorem file_spec (typ asz e address : Nat) (data : List Nat)
    (ht : typ = 1 ∨ typ = 2 ∨ typ = 3) (hasz : asz = typ + 1) (he : e = 10 - typ)
    (hd : ∀ b ∈ data, b < 256) (hend : address + data.length ≤ 256 ^ asz) :
    toLine 0 0 [72, 68, 82] = .ok hdrText ∧
    dataLines typ address (chunks30 data) = .ok (dataText typ asz address (chunks30 data)) ∧
    toLine e 0 [] = .ok (lineText e asz 0 []) ∧
    parseAll (fileText typ asz e address data) = some (fileRecs typ e address data) ∧
    Spec.SRec.read (fileText typ asz e address data) = some ⟨some [72, 68, 82], cellsOf address data, 0⟩ := by
  have hs : addrSize typ = some asz ∧ addrLen typ = some asz ∧ addrSize e = some asz ∧ addrLen e = some asz ∧
      typ < 10 ∧ e < 10 ∧ asz ≤ 4 := by
    rcases ht with rfl | rfl | rfl <;> subst hasz he <;> decide
  obtain ⟨s1, s2, s3, s4, t1, t2, t3⟩ := hs
  have hflat := (chunks30_spec data).1
  obtain ⟨d1, d2⟩ := dataLines_spec typ asz t1 s1 s2 t3 (chunks30 data) address (chunksOK_of_bytes data hd)
    (by rw [hflat]; exact hend) (fun c hc => ((chunks30_spec data).2 c hc).1)
  have hpos : 0 < 256 ^ asz := Nat.pow_pos (by decide)
  have hfin : parseRecord (lineText e asz 0 []) = some ⟨e, 0, []⟩ :=
    parse_lineText e asz 0 [] t2 s4 hpos (by simp) (by simp; omega)
  have hpa : parseAll (fileText typ asz e address data) = some (fileRecs typ e address data) := by
    have h0 : parseAll (hdrText :: dataText typ asz address (chunks30 data)) =
        some (⟨0, 0, [72, 68, 82]⟩ :: dataRecs typ address (chunks30 data)) := by
      simp only [parseAll, hdr_parse, d2]
    have : parseAll [lineText e asz 0 []] = some [⟨e, 0, []⟩] := by simp [parseAll, hfin]
    exact parseAll_append _ _ _ _ h0 this
  refine ⟨toLine_ok 0 2 0 _ rfl (by decide) (by decide), d1, toLine_ok e asz 0 [] s3 hpos (by simp; omega), hpa, ?_⟩
  obtain ⟨dt', hdt', hb⟩ := body_dataRecs typ ht (chunks30 data) address 0 none [⟨e, 0, []⟩] (Or.inl rfl)
    (by rw [hflat, ← hasz]; exact hend)
  simp only [Spec.SRec.read, hpa, fileRecs, List.cons_append]
  simp only [if_true]
  rw [hb, hflat]
  have hfinal : body dt' (0 + (chunks30 data).length) [⟨e, 0, []⟩] = some ([], 0) := by
    simp only [body]
    have h1 : ¬ (e = 1 ∨ e = 2 ∨ e = 3) := by rcases ht with rfl | rfl | rfl <;> subst he <;> decide
    have h2 : ¬ (e = 5 ∨ e = 6) := by rcases ht with rfl | rfl | rfl <;> subst he <;> decide
    have h3 : e = 7 ∨ e = 8 ∨ e = 9 := by rcases ht with rfl | rfl | rfl <;> subst he <;> decide
    have h4 : 10 - e = typ := by rcases ht with rfl | rfl | rfl <;> subst he <;> decide
    rw [if_neg h1, if_neg h2, if_pos h3, if_pos ⟨rfl, rfl, by rw [h4]; exact hdt'⟩]
  rw [hfinal]
  simp [prependM]

theorem typesFor_cases (endA : Nat) (h : endA ≤ 4294967296) :
    ∃ typ asz e, typesFor endA = (typ, e) ∧ (typ = 1 ∨ typ = 2 ∨ typ = 3) ∧ asz = typ + 1 ∧ e = 10 - typ ∧
      endA ≤ 256 ^ asz := by
  unfold typesFor
  by_cases h1 : endA ≤ 65536
  · exact ⟨1, 2, 9, by simp [h1], by simp, rfl, rfl, by simpa using h1⟩
  · by_cases h2 : endA ≤ 16777216
    · exact ⟨2, 3, 8, by simp [h1, h2], by simp, rfl, rfl, by simpa using h2⟩
    · exact ⟨3, 4, 7, by simp [h1, h2], by simp, rfl, rfl, by simpa using h⟩

/-- `write_srecord` on code that ends at or below 2^32 -/
theorem write_spec (address : Nat) (data : List Nat) (hd : ∀ b ∈ data, b < 256)
    (hend : address + data.length ≤ 4294967296) :
    ∃ typ asz e, (typ = 1 ∨ typ = 2 ∨ typ = 3) ∧ asz = typ + 1 ∧ e = 10 - typ ∧
      address + data.length ≤ 256 ^ asz ∧
      writeSrecord address data = .ok (fileText typ asz e address data) ∧
      parseAll (fileText typ asz e address data) = some (fileRecs typ e address data) ∧
      Spec.SRec.read (fileText typ asz e address data) = some ⟨some [72, 68, 82], cellsOf address data, 0⟩ := by
  obtain ⟨typ, asz, e, h1, h2, h3, h4, h5⟩ := typesFor_cases _ hend
  obtain ⟨f1, f2, f3, f4, f5⟩ := file_spec typ asz e address data h2 h3 h4 hd h5
  refine ⟨typ, asz, e, h2, h3, h4, h5, ?_, f4, f5⟩
  unfold writeSrecord
  rw [if_neg (by omega), h1]
  simp only [f1, f2, f3]
  rfl

theorem dataRecs_typ (typ : Nat) (cs : List (List Nat)) : ∀ address, ∀ r ∈ dataRecs typ address cs, r.typ = typ := by
  induction cs with
  | nil => intro _ r hr; simp [dataRecs] at hr
  | cons c rest ih =>
    intro address r hr
    simp only [dataRecs, List.mem_cons] at hr
    rcases hr with rfl | hr
    · rfl
    · exact ih _ r hr

theorem dataRecs_payload (typ : Nat) (cs : List (List Nat)) : ∀ address,
    ((dataRecs typ address cs).map (·.data)).flatten = cs.flatten := by
  induction cs with
  | nil => intro _; rfl
  | cons c rest ih => intro address; simp [dataRecs, ih]

end Proofs.SRec
