import PpciVerif.Model.Py2IrSem
import PpciVerif.Proofs.IRArith
/-!
# Proofs.Py2Ir — lemmas for C36 (no Mathlib)

* sign-bit facts about the bitwise operators of `Spec.IRArith` at i64,
* `Int.fdiv` = `Int.tdiv` corrected by the sign test that `gen_floor_div` emits,
* what the straight-line code of `Model.Py2Ir.genArith` / `genExpr` computes (`exec`).
-/
namespace Proofs.Py2Ir
open Spec.IRArith

/-! ### i64 sign bits -/

theorem inRange64 (x : Int) : InRange .i64 x ↔ -9223372036854775808 ≤ x ∧ x ≤ 9223372036854775807 := by
  simp [InRange, Ty.minVal, Ty.maxVal, Ty.signed, Ty.bits]

theorem in64_iff (x : Int) : Spec.Py.In64 x ↔ InRange .i64 x := by
  rw [inRange64]; simp [Spec.Py.In64]

theorem toBits_lt (x : Int) : toBits .i64 x < 2 ^ 64 := by
  simp only [toBits, Ty.bits]; omega

theorem toBits_testBit (x : Int) (h : InRange .i64 x) : (toBits .i64 x).testBit 63 = decide (x < 0) := by
  rw [inRange64] at h
  have : toBits .i64 x = (x % 2 ^ 64).toNat := by simp only [toBits, Ty.bits]
  rw [this, Nat.testBit_eq_decide_div_mod_eq]
  by_cases hx : x < 0
  · rw [decide_eq_true hx, decide_eq_true_iff]; omega
  · rw [decide_eq_false hx, decide_eq_false_iff_not]; omega

theorem ofBits_neg_iff (m : Nat) (h : m < 2 ^ 64) : ofBits .i64 m < 0 ↔ m.testBit 63 = true := by
  have : ofBits .i64 m = ((m:Int) + 2 ^ 63) % 2 ^ 64 - 2 ^ 63 := by simp [ofBits, wrap, Ty.signed, Ty.bits]
  rw [this, Nat.testBit_eq_decide_div_mod_eq, decide_eq_true_iff]
  omega

theorem ofBits_inRange (m : Nat) : InRange .i64 (ofBits .i64 m) := Proofs.IRArith.wrap_inRange _ _

/-- sign of `x ^ y` -/
theorem xor_neg_iff (x y : Int) (hx : InRange .i64 x) (hy : InRange .i64 y) :
    ofBits .i64 (toBits .i64 x ^^^ toBits .i64 y) < 0 ↔ ((x < 0) ↔ ¬ (y < 0)) := by
  rw [ofBits_neg_iff _ (Nat.xor_lt_two_pow (toBits_lt x) (toBits_lt y)), Nat.testBit_xor,
    toBits_testBit x hx, toBits_testBit y hy]
  by_cases h1 : x < 0 <;> by_cases h2 : y < 0 <;> simp [h1, h2]

/-- sign of `x | y` -/
theorem or_neg_iff (x y : Int) (hx : InRange .i64 x) (hy : InRange .i64 y) :
    ofBits .i64 (toBits .i64 x ||| toBits .i64 y) < 0 ↔ (x < 0 ∨ y < 0) := by
  rw [ofBits_neg_iff _ (Nat.or_lt_two_pow (toBits_lt x) (toBits_lt y)), Nat.testBit_or,
    toBits_testBit x hx, toBits_testBit y hy]
  by_cases h1 : x < 0 <;> by_cases h2 : y < 0 <;> simp [h1, h2]

/-- arithmetic shift right by 63: the sign mask -/
theorem sar63 (x : Int) (h : InRange .i64 x) : x / 2 ^ (63:Int).toNat = if x < 0 then -1 else 0 := by
  rw [inRange64] at h
  have : (63:Int).toNat = 63 := rfl
  rw [this]
  split <;> omega

theorem and_mask (s z : Int) (hs : s = 0 ∨ s = -1) (hz : z = 0 ∨ z = -1) :
    ofBits .i64 (toBits .i64 s &&& toBits .i64 z) = if s = -1 ∧ z = -1 then -1 else 0 := by
  rcases hs with rfl | rfl <;> rcases hz with rfl | rfl <;> decide +kernel

/-! ### floor division from truncating division -/

theorem tmod_nonpos (a b : Int) (ha : a ≤ 0) : Int.tmod a b ≤ 0 := by
  have h1 := Int.neg_tmod (-a) b
  rw [Int.neg_neg] at h1
  have h2 := Int.tmod_nonneg (a := -a) b (by omega)
  omega

theorem fdiv_eq_tdiv_adj (a b : Int) (hb : b ≠ 0) :
    Int.fdiv a b = Int.tdiv a b +
      (if Int.tmod a b ≠ 0 ∧ ((Int.tmod a b < 0) ↔ ¬ (b < 0)) then -1 else 0) := by
  rw [Int.fdiv_eq_tdiv]
  have hd : b ∣ a ↔ Int.tmod a b = 0 := Int.dvd_iff_tmod_eq_zero
  by_cases h0 : Int.tmod a b = 0
  · simp [hd.2 h0, h0]
  · have hnd : ¬ b ∣ a := fun h => h0 (hd.1 h)
    simp only [hnd, if_false, h0, ne_eq, not_false_eq_true, true_and]
    by_cases ha : 0 ≤ a
    · have hr : 0 ≤ Int.tmod a b := Int.tmod_nonneg b ha
      have hr' : ¬ Int.tmod a b < 0 := by omega
      by_cases hbn : 0 ≤ b
      · have : ¬ b < 0 := by omega
        simp [ha, hbn, hr', this]
      · have : b < 0 := by omega
        simp [ha, hbn, hr', this]; omega
    · have hr : Int.tmod a b ≤ 0 := tmod_nonpos a b (by omega)
      have hr' : Int.tmod a b < 0 := by omega
      by_cases hbn : 0 ≤ b
      · have hb' : ¬ b < 0 := by omega
        have : b.sign = 1 := Int.sign_eq_one_of_pos (by omega)
        simp [ha, hbn, hr', hb', this]; omega
      · have hb' : b < 0 := by omega
        have : b.sign = -1 := Int.sign_eq_neg_one_of_neg hb'
        simp [ha, hbn, hr', hb', this]


/-! ### what the emitted straight-line code computes -/
section Exec
open Model.Py2Ir

/-- the value is a parameter or was created before value number `n` -/
def Below (v : Val) (n : Nat) : Prop :=
  match v with
  | .param _ => True
  | .tmp k => k < n

theorem Below.mono {v : Val} {n m : Nat} (h : Below v n) (hnm : n ≤ m) : Below v m := by
  cases v with
  | param i => trivial
  | tmp k => simp only [Below] at h ⊢; omega

theorem get_set_below (r : Regs) (v : Val) (n d : Nat) (x : Int) (h : Below v n) (hd : n ≤ d) :
    (r.set d x).get v = r.get v := by
  cases v with
  | param i => rfl
  | tmp k =>
    simp only [Below] at h
    have : k ≠ d := by omega
    simp [Regs.get, Regs.set, this]

theorem get_set_same (r : Regs) (d : Nat) (x : Int) : (r.set d x).get (.tmp d) = some x := by
  simp [Regs.get, Regs.set]

theorem get_set_ne (r : Regs) (d k : Nat) (x : Int) (h : k ≠ d) : (r.set d x).get (.tmp k) = r.get (.tmp k) := by
  simp [Regs.get, Regs.set, h]

theorem exec_binop (μ : Val → Option Int) (r : Regs) (d : Nat) (op : String) (o : Op) (a b : Val) (x y v : Int)
    (is : List Instr) (ho : irOp? op = some o) (ha : r.get a = some x) (hb : r.get b = some y)
    (hv : binop .i64 o x y = some v) :
    exec μ (.binop d .i64 op a b :: is) r = exec μ is (r.set d v) := by
  simp [exec, execInstr, ha, hb, ho, hv]

theorem exec_const (μ : Val → Option Int) (r : Regs) (d : Nat) (v : Int) (is : List Instr) (hv : InRange .i64 v) :
    exec μ (.const d .i64 v :: is) r = exec μ is (r.set d v) := by
  simp [exec, execInstr, hv]

theorem exec_load (μ : Val → Option Int) (r : Regs) (d : Nat) (a : Val) (v : Int) (is : List Instr) (hv : μ a = some v) :
    exec μ (.load d .i64 a :: is) r = exec μ is (r.set d v) := by
  simp [exec, execInstr, hv]

theorem exec_append (μ : Val → Option Int) (xs ys : List Instr) (r r' : Regs) (h : exec μ xs r = some r') :
    exec μ (xs ++ ys) r = exec μ ys r' := by
  induction xs generalizing r with
  | nil => simp [exec] at h; simp [h]
  | cons i is ih =>
    simp only [List.cons_append, exec] at h ⊢
    cases hi : execInstr μ r i with
    | none => simp [hi] at h
    | some r1 => simp only [hi] at h ⊢; exact ih r1 h

theorem irOp_div : irOp? "/" = some .div := by decide
theorem irOp_rem : irOp? "%" = some .rem := by decide
theorem irOp_xor : irOp? "^" = some .xor := by decide
theorem irOp_shr : irOp? ">>" = some .shr := by decide
theorem irOp_sub : irOp? "-" = some .sub := by decide
theorem irOp_or : irOp? "|" = some .or := by decide
theorem irOp_and : irOp? "&" = some .and := by decide
theorem irOp_add : irOp? "+" = some .add := by decide
theorem irOp_mul : irOp? "*" = some .mul := by decide

/-- frame condition: the code only writes value numbers `≥ n` -/
def Frame (n : Nat) (r r' : Regs) : Prop := (∀ k, k < n → r'.tmps k = r.tmps k) ∧ r'.params = r.params

theorem Frame.refl (n : Nat) (r : Regs) : Frame n r r := ⟨fun _ _ => rfl, rfl⟩

theorem Frame.set {n : Nat} {r r' : Regs} (h : Frame n r r') (d : Nat) (x : Int) (hd : n ≤ d) : Frame n r (r'.set d x) := by
  refine ⟨fun k hk => ?_, h.2⟩
  have : k ≠ d := by omega
  simp [Regs.set, this, h.1 k hk]

theorem Frame.trans {n m : Nat} {r r' r'' : Regs} (h1 : Frame n r r') (h2 : Frame m r' r'') (hnm : n ≤ m) : Frame n r r'' :=
  ⟨fun k hk => by rw [h2.1 k (by omega), h1.1 k hk], by rw [h2.2, h1.2]⟩

theorem Frame.get {n : Nat} {r r' : Regs} (h : Frame n r r') (v : Val) (hv : Below v n) : r'.get v = r.get v := by
  cases v with
  | param i => simp [Regs.get, h.2]
  | tmp k => simp only [Below] at hv; simp [Regs.get, h.1 k hv]


/-- **`gen_floor_div` computes the floor division.**  For all operand values of the type with a
    non-zero divisor whose floor quotient is a value of the type, the eleven emitted instructions
    execute without undefined behaviour and leave `Int.fdiv a b` in the result value. -/
theorem floorDiv_exec (μ : Val → Option Int) (r : Regs) (va vb : Val) (n : Nat) (a b : Int)
    (ha : r.get va = some a) (hb : r.get vb = some b) (hva : Below va n) (hvb : Below vb n)
    (hra : InRange .i64 a) (hrb : InRange .i64 b) (hnz : b ≠ 0) (hres : InRange .i64 (Int.fdiv a b)) :
    ∃ r', exec μ (floorDivCode .i64 va vb n) r = some r' ∧ r'.get (.tmp (n + 10)) = some (Int.fdiv a b)
      ∧ Frame n r r' := by
  -- the division is defined
  have hnd : ¬ divUndefined .i64 a b := by
    intro h
    rcases h with h | ⟨_, h1, h2⟩
    · exact hnz h
    · subst h2
      have h1' : a = -9223372036854775808 := by
        simpa [Spec.IRArith.Ty.minVal, Spec.IRArith.Ty.signed, Spec.IRArith.Ty.bits] using h1
      subst h1'
      rw [inRange64] at hres
      have : Int.fdiv (-9223372036854775808) (-1) = 9223372036854775808 := by decide +kernel
      omega
  have hq : binop .i64 .div a b = some (Int.tdiv a b) := by simp [binop, hnd]
  have hr : binop .i64 .rem a b = some (Int.tmod a b) := by simp [binop, hnd]
  have hqr := Proofs.IRArith.tdiv_inRange .i64 a b hra hrb hnd
  have hrr := Proofs.IRArith.tmod_inRange .i64 a b hra hrb hnz
  have key := fdiv_eq_tdiv_adj a b hnz
  generalize Int.tdiv a b = q at *
  generalize Int.tmod a b = rr at *
  have h63 : InRange .i64 63 := by decide
  have h0 : InRange .i64 0 := by decide
  have hsh : shiftOk .i64 63 := by decide
  -- the values
  obtain ⟨mixed, hmixed⟩ : ∃ x, binop .i64 .xor rr b = some x := ⟨_, rfl⟩
  have hmixv : mixed = ofBits .i64 (toBits .i64 rr ^^^ toBits .i64 b) := (Option.some.inj hmixed).symm
  have hmr : InRange .i64 mixed := hmixv ▸ ofBits_inRange _
  have hmix : mixed < 0 ↔ ((rr < 0) ↔ ¬ (b < 0)) := hmixv ▸ xor_neg_iff rr b hrr hrb
  obtain ⟨differ, hdv⟩ : ∃ x : Int, x = if mixed < 0 then -1 else 0 := ⟨_, rfl⟩
  have hdiffer : binop .i64 .shr mixed 63 = some differ := by
    simp only [binop, hsh, if_true, Spec.IRArith.Ty.signed]; rw [sar63 mixed hmr, hdv]
  obtain ⟨ng, hng⟩ : ∃ x, binop .i64 .sub 0 rr = some x := ⟨_, rfl⟩
  have hngv : ng = wrap .i64 (0 - rr) := (Option.some.inj hng).symm
  have hngr : InRange .i64 ng := hngv ▸ Proofs.IRArith.wrap_inRange _ _
  obtain ⟨either, heither⟩ : ∃ x, binop .i64 .or rr ng = some x := ⟨_, rfl⟩
  have heithv : either = ofBits .i64 (toBits .i64 rr ||| toBits .i64 ng) := (Option.some.inj heither).symm
  have her : InRange .i64 either := heithv ▸ ofBits_inRange _
  have heith : either < 0 ↔ (rr < 0 ∨ ng < 0) := heithv ▸ or_neg_iff rr ng hrr hngr
  obtain ⟨nonzero, hnv⟩ : ∃ x : Int, x = if either < 0 then -1 else 0 := ⟨_, rfl⟩
  have hnonzero : binop .i64 .shr either 63 = some nonzero := by
    simp only [binop, hsh, if_true, Spec.IRArith.Ty.signed]; rw [sar63 either her, hnv]
  obtain ⟨adjust, hadjust⟩ : ∃ x, binop .i64 .and differ nonzero = some x := ⟨_, rfl⟩
  have hadjv : adjust = ofBits .i64 (toBits .i64 differ &&& toBits .i64 nonzero) := (Option.some.inj hadjust).symm
  have hfinal : binop .i64 .add q adjust = some (wrap .i64 (q + adjust)) := rfl
  -- run
  refine ⟨(((((((((((r.set n q).set (n+1) rr).set (n+2) 63).set (n+3) 0).set (n+4) mixed).set (n+5) differ).set (n+6) ng).set
      (n+7) either).set (n+8) nonzero).set (n+9) adjust).set (n+10) (wrap .i64 (q + adjust))), ?_, ?_, ?_⟩
  · unfold floorDivCode
    have hb2 : ∀ (rg : Regs) (d : Nat) (x : Int), n ≤ d → (rg.set d x).get vb = rg.get vb :=
      fun rg d x hd => get_set_below rg vb n d x hvb hd
    rw [exec_binop μ r n "/" .div va vb a b q _ irOp_div ha hb hq]
    rw [exec_binop μ _ (n+1) "%" .rem va vb a b rr _ irOp_rem
      (by rw [get_set_below _ va n n _ hva (Nat.le_refl _)]; exact ha)
      (by rw [hb2 _ _ _ (Nat.le_refl _)]; exact hb) hr]
    simp only [Model.Py2Ir.Ty.bits, show (64 - 1 : Nat) = 63 from rfl, Int.ofNat_eq_natCast,
      show ((63 : Nat) : Int) = 63 from rfl]
    rw [exec_const μ _ (n+2) 63 _ h63, exec_const μ _ (n+3) 0 _ h0]
    rw [exec_binop μ _ (n+4) "^" .xor (.tmp (n+1)) vb rr b mixed _ irOp_xor
      (by simp [Regs.get, Regs.set])
      (by rw [hb2 _ _ _ (by omega), hb2 _ _ _ (by omega), hb2 _ _ _ (by omega), hb2 _ _ _ (by omega)]; exact hb) hmixed]
    rw [exec_binop μ _ (n+5) ">>" .shr (.tmp (n+4)) (.tmp (n+2)) mixed 63 differ _ irOp_shr
      (by simp [Regs.get, Regs.set]) (by simp [Regs.get, Regs.set]) hdiffer]
    rw [exec_binop μ _ (n+6) "-" .sub (.tmp (n+3)) (.tmp (n+1)) 0 rr ng _ irOp_sub
      (by simp [Regs.get, Regs.set]) (by simp [Regs.get, Regs.set]) hng]
    rw [exec_binop μ _ (n+7) "|" .or (.tmp (n+1)) (.tmp (n+6)) rr ng either _ irOp_or
      (by simp [Regs.get, Regs.set]) (by simp [Regs.get, Regs.set]) heither]
    rw [exec_binop μ _ (n+8) ">>" .shr (.tmp (n+7)) (.tmp (n+2)) either 63 nonzero _ irOp_shr
      (by simp [Regs.get, Regs.set]) (by simp [Regs.get, Regs.set]) hnonzero]
    rw [exec_binop μ _ (n+9) "&" .and (.tmp (n+5)) (.tmp (n+8)) differ nonzero adjust _ irOp_and
      (by simp [Regs.get, Regs.set]) (by simp [Regs.get, Regs.set]) hadjust]
    rw [exec_binop μ _ (n+10) "+" .add (.tmp n) (.tmp (n+9)) q adjust _ _ irOp_add
      (by simp [Regs.get, Regs.set]) (by simp [Regs.get, Regs.set]) hfinal]
    rfl
  · rw [get_set_same]
    congr 1
    -- the adjustment is the sign test of `fdiv_eq_tdiv_adj`
    have hnz' : (rr < 0 ∨ ng < 0) ↔ rr ≠ 0 := by
      have hrr' := (inRange64 rr).1 hrr
      have : ng = ((0 - rr) + 2 ^ 63) % 2 ^ 64 - 2 ^ 63 := by
        rw [hngv]; simp [wrap, Spec.IRArith.Ty.signed, Spec.IRArith.Ty.bits]
      omega
    have hd01 : differ = 0 ∨ differ = -1 := by rw [hdv]; split <;> simp
    have hn01 : nonzero = 0 ∨ nonzero = -1 := by rw [hnv]; split <;> simp
    have hadj : adjust = if differ = -1 ∧ nonzero = -1 then -1 else 0 := hadjv ▸ and_mask differ nonzero hd01 hn01
    have hd1 : differ = -1 ↔ mixed < 0 := by
      rw [hdv]; by_cases c : mixed < 0 <;> simp [c]
    have hn1 : nonzero = -1 ↔ either < 0 := by
      rw [hnv]; by_cases c : either < 0 <;> simp [c]
    have hval : q + adjust = Int.fdiv a b := by
      rw [key, hadj]
      simp only [hd1, hn1, hmix, heith, hnz']
      by_cases c1 : rr ≠ 0 <;> by_cases c2 : ((rr < 0) ↔ ¬ (b < 0)) <;> simp [c1, c2]
    rw [hval, Proofs.IRArith.wrap_of_inRange _ _ hres]
  · exact ((((((((((((Frame.refl n r).set n q (Nat.le_refl _)).set (n+1) rr (by omega)).set (n+2) 63 (by omega)).set (n+3) 0
      (by omega)).set (n+4) mixed (by omega)).set (n+5) differ (by omega)).set (n+6) ng (by omega)).set (n+7) either
      (by omega)).set (n+8) nonzero (by omega)).set (n+9) adjust (by omega)).set (n+10) _ (by omega))


/-- one wrap-around instruction whose exact result is a value of the type -/
theorem wrapOp_exec (μ : Val → Option Int) (r : Regs) (va vb : Val) (n : Nat) (a b v : Int) (sym : String) (o : Op)
    (ho : irOp? sym = some o) (hbin : binop .i64 o a b = some (wrap .i64 v))
    (ha : r.get va = some a) (hb : r.get vb = some b) (hvr : InRange .i64 v) :
    ∃ r', exec μ [.binop n .i64 sym va vb] r = some r' ∧ r'.get (.tmp n) = some v ∧ Frame n r r' := by
  refine ⟨r.set n v, ?_, get_set_same _ _ _, (Frame.refl n r).set n v (Nat.le_refl _)⟩
  rw [exec_binop μ r n sym o va vb a b v [] ho ha hb (by rw [hbin, Proofs.IRArith.wrap_of_inRange _ _ hvr])]
  rfl

/-- **Operators.** Whatever code `gen_arithmetic` emits for an `ast` operator on two i64 values: if
    CPython's result of the operation on the operand values is an int `v` within 64 bits, the code
    executes without undefined behaviour and yields `v`. -/
theorem genArith_exec (op : Spec.Py.BinOp) (μ : Val → Option Int) (r : Regs) (va vb : Val) (n : Nat) (a b v : Int)
    (code : List Instr) (vr : Val) (n' : Nat)
    (hg : genArith op.astName .i64 va vb n = .ok (code, vr, n'))
    (ha : r.get va = some a) (hb : r.get vb = some b) (hva : Below va n) (hvb : Below vb n)
    (hra : InRange .i64 a) (hrb : InRange .i64 b)
    (hv : (Spec.Py.binop op a b).int? = some v) (hvr : InRange .i64 v) :
    ∃ r', exec μ code r = some r' ∧ r'.get vr = some v ∧ Frame n r r' ∧ n ≤ n' ∧ Below vr n' := by
  cases op with
  | add =>
    simp [genArith, lookup, binopMap, Spec.Py.BinOp.astName] at hg
    obtain ⟨rfl, rfl, rfl⟩ := hg
    simp [Spec.Py.binop, Spec.Py.Res.int?] at hv; subst hv
    obtain ⟨r', h1, h2, h3⟩ := wrapOp_exec μ r va vb n a b (a + b) "+" .add irOp_add rfl ha hb hvr
    exact ⟨r', h1, h2, h3, by omega, by simp [Below]⟩
  | sub =>
    simp [genArith, lookup, binopMap, Spec.Py.BinOp.astName] at hg
    obtain ⟨rfl, rfl, rfl⟩ := hg
    simp [Spec.Py.binop, Spec.Py.Res.int?] at hv; subst hv
    obtain ⟨r', h1, h2, h3⟩ := wrapOp_exec μ r va vb n a b (a - b) "-" .sub irOp_sub rfl ha hb hvr
    exact ⟨r', h1, h2, h3, by omega, by simp [Below]⟩
  | mult =>
    simp [genArith, lookup, binopMap, Spec.Py.BinOp.astName] at hg
    obtain ⟨rfl, rfl, rfl⟩ := hg
    simp [Spec.Py.binop, Spec.Py.Res.int?] at hv; subst hv
    obtain ⟨r', h1, h2, h3⟩ := wrapOp_exec μ r va vb n a b (a * b) "*" .mul irOp_mul rfl ha hb hvr
    exact ⟨r', h1, h2, h3, by omega, by simp [Below]⟩
  | div =>
    exfalso
    simp only [Spec.Py.binop] at hv
    split at hv <;> simp [Spec.Py.Res.int?] at hv
  | floordiv =>
    simp [genArith, lookup, binopMap, Spec.Py.BinOp.astName, Model.Py2Ir.Ty.isSigned] at hg
    obtain ⟨rfl, rfl, rfl⟩ := hg
    simp only [Spec.Py.binop] at hv
    split at hv
    · simp [Spec.Py.Res.int?] at hv
    · rename_i hnz
      simp [Spec.Py.Res.int?] at hv; subst hv
      obtain ⟨r', h1, h2, h3⟩ := floorDiv_exec μ r va vb n a b ha hb hva hvb hra hrb hnz hvr
      exact ⟨r', h1, h2, h3, by omega, by simp [Below]⟩
  | mod =>
    simp [genArith, lookup, binopMap, Spec.Py.BinOp.astName] at hg

/-- the local variables of the Python function live in memory: `x` is an i64 lvalue whose slot
    holds `σ x` -/
def LocalsOk (locals : List (String × Var)) (σ : Spec.Py.Env) (μ : Val → Option Int) : Prop :=
  ∀ x v, σ x = some v →
    ∃ var, lookup x locals = some var ∧ var.lvalue = true ∧ var.ty = .i64 ∧ μ var.addr = some v

/-- **Expressions.** For every integer expression tree: if `gen_expr` produces code and CPython's
    evaluation stays within 64 bits with value `x`, the code has type i64, executes without
    undefined behaviour and leaves `x` in its result value; it only writes fresh value numbers. -/
theorem genExpr_exec (locals : List (String × Var)) (σ : Spec.Py.Env) (μ : Val → Option Int)
    (hl : LocalsOk locals σ μ) (e : Spec.Py.Expr) :
    ∀ (n : Nat) (r : Regs) (x : Int) (code : List Instr) (vr : Val) (t : Model.Py2Ir.Ty) (n' : Nat),
      genExpr locals (embed e) n = .ok (code, vr, t, n') → Spec.Py.eval64 σ e = some x →
      ∃ r', exec μ code r = some r' ∧ r'.get vr = some x ∧ t = .i64 ∧ Frame n r r' ∧ n ≤ n' ∧ Below vr n'
        ∧ InRange .i64 x := by
  induction e with
  | num v =>
    intro n r x code vr t n' hg he
    simp only [embed, genExpr, Except.ok.injEq, Prod.mk.injEq] at hg
    obtain ⟨rfl, rfl, rfl, rfl⟩ := hg
    simp only [Spec.Py.eval64] at he
    split at he
    · rename_i h64
      have hx : v = x := Option.some.inj he
      subst hx
      have hr := (in64_iff v).1 h64
      exact ⟨r.set n v, by rw [exec_const μ r n v [] hr]; rfl, get_set_same _ _ _, rfl,
        (Frame.refl n r).set n v (Nat.le_refl _), by omega, by simp [Below], hr⟩
    · simp at he
  | name y =>
    intro n r x code vr t n' hg he
    simp only [Spec.Py.eval64] at he
    cases hs : σ y with
    | none => simp [hs] at he
    | some v =>
      simp only [hs] at he
      split at he
      · rename_i h64
        have hx : v = x := Option.some.inj he
        subst hx
        obtain ⟨var, hlk, hlv, hty, hmu⟩ := hl y v hs
        simp only [embed, genExpr, hlk, hlv, if_true, Except.ok.injEq, Prod.mk.injEq] at hg
        obtain ⟨rfl, rfl, rfl, rfl⟩ := hg
        have hr := (in64_iff v).1 h64
        refine ⟨r.set n v, ?_, get_set_same _ _ _, hty, (Frame.refl n r).set n v (Nat.le_refl _), by omega,
          by simp [Below], hr⟩
        rw [hty, exec_load μ r n var.addr v [] hmu]; rfl
      · simp at he
  | binop op a b iha ihb =>
    intro n r x code vr t n' hg he
    simp only [embed, genExpr] at hg
    cases hga : genExpr locals (embed a) n with
    | error er => simp [hga] at hg
    | ok ra =>
      obtain ⟨ca, va, ta, n1⟩ := ra
      simp only [hga] at hg
      cases hgb : genExpr locals (embed b) n1 with
      | error er => simp [hgb] at hg
      | ok rb =>
        obtain ⟨cb, vb, tb, n2⟩ := rb
        simp only [hgb] at hg
        simp only [Spec.Py.eval64] at he
        cases hea : Spec.Py.eval64 σ a with
        | none => simp [hea] at he
        | some xa =>
          cases heb : Spec.Py.eval64 σ b with
          | none => simp [hea, heb] at he
          | some xb =>
            simp only [hea, heb] at he
            cases hop : (Spec.Py.binop op xa xb).int? with
            | none => simp [hop] at he
            | some v =>
              simp only [hop] at he
              split at he
              · rename_i h64
                have hx : v = x := Option.some.inj he
                subst hx
                obtain ⟨r1, hx1, hg1, hta, hf1, hn1, hb1, hra⟩ := iha n r xa ca va ta n1 hga hea
                obtain ⟨r2, hx2, hg2, htb, hf2, hn2, hb2, hrb⟩ := ihb n1 r1 xb cb vb tb n2 hgb heb
                subst hta; subst htb
                simp only [ne_eq, not_true_eq_false, if_false] at hg
                cases hgc : genArith op.astName .i64 va vb n2 with
                | error er => simp [hgc] at hg
                | ok rc =>
                  obtain ⟨cc, vc, n3⟩ := rc
                  simp only [hgc, Except.ok.injEq, Prod.mk.injEq] at hg
                  obtain ⟨rfl, rfl, rfl, rfl⟩ := hg
                  have hva2 : r2.get va = some xa := by rw [hf2.get va hb1]; exact hg1
                  obtain ⟨r3, hx3, hg3, hf3, hn3, hb3⟩ := genArith_exec op μ r2 va vb n2 xa xb v cc vc n3 hgc hva2 hg2
                    (hb1.mono hn2) hb2 hra hrb hop ((in64_iff v).1 h64)
                  refine ⟨r3, ?_, hg3, rfl, (hf1.trans hf2 hn1).trans hf3 (by omega), by omega, hb3, (in64_iff v).1 h64⟩
                  rw [List.append_assoc, exec_append μ ca (cb ++ cc) r r1 hx1, exec_append μ cb cc r1 r2 hx2]
                  exact hx3
              · simp at he

end Exec

end Proofs.Py2Ir
