import PpciVerif.Proofs.Relax
import PpciVerif.Proofs.LinkerLayout
/-! Lemmas for C13, part 2: what `_apply_relaxation_holes` (`Model.Relax.applyHoles`) does to the symbols,
the relocation entries, the section data and the section addresses of the images. -/
namespace Proofs.Relax
open Spec.Relax Model.Linker Proofs.Linker
open Model.Relax hiding Hole

/-- every per-section hole list (after the sort) is ascending and disjoint -/
def HolesOK (m : HoleMap) : Prop := ∀ n, HolesFrom 0 (holesOf m n)

/-! ### symbols -/

/-- the relation between a symbol before and after `_apply_relaxation_holes` -/
def SymShift (m : HoleMap) (s s' : Symbol) : Prop :=
  match s.sect with
  | none => s' = s
  | some n => ∃ v, s.value = some v ∧ removedBefore (holesOf m n) v ≤ v ∧
      s' = { s with value := some (phi (holesOf m n) v) }

theorem shiftSymbol_spec {m : HoleMap} (hok : HolesOK m) {s s' : Symbol} (h : Model.Relax.shiftSymbol m s = .ok s') :
    SymShift m s s' := by
  unfold Model.Relax.shiftSymbol at h
  unfold SymShift
  cases hs : s.sect with
  | none => rw [hs] at h; cases h; rfl
  | some n =>
    rw [hs] at h
    simp only at h ⊢
    cases hv : s.value with
    | none => rw [hv] at h; cases h
    | some v =>
      rw [hv] at h
      simp only at h
      cases hsub : sub? v (countHoles v (holesOf m n)) with
      | error e => rw [hsub] at h; cases h
      | ok v' =>
        rw [hsub] at h
        cases h
        obtain ⟨e, hle⟩ := sub_countHoles (hok n) hsub
        exact ⟨v, rfl, hle, by rw [e]⟩

theorem shiftSymbols_spec {m : HoleMap} (hok : HolesOK m) : ∀ {syms syms' : List Symbol},
    shiftSymbols m syms = .ok syms' → All2 (SymShift m) syms syms'
  | [], syms', h => by simp only [shiftSymbols] at h; cases h; exact All2.nil
  | s :: rest, syms', h => by
    simp only [shiftSymbols] at h
    cases h1 : Model.Relax.shiftSymbol m s with
    | error e => rw [h1] at h; cases h
    | ok s' =>
      rw [h1] at h
      cases h2 : shiftSymbols m rest with
      | error e => rw [h2] at h; cases h
      | ok r =>
        rw [h2] at h
        cases h
        exact All2.cons (shiftSymbol_spec hok h1) (shiftSymbols_spec hok h2)

/-! ### relocation entries -/

def RelShift (m : HoleMap) (r r' : Reloc) : Prop :=
  removedBefore (holesOf m r.sect) r.offset ≤ r.offset ∧
    r' = { r with offset := phi (holesOf m r.sect) r.offset }

theorem shiftReloc_spec {m : HoleMap} (hok : HolesOK m) {r r' : Reloc} (h : shiftReloc m r = .ok r') :
    RelShift m r r' := by
  unfold shiftReloc at h
  split at h
  · cases h
  · cases hsub : sub? r.offset (countHoles r.offset (holesOf m r.sect)) with
    | error e => rw [hsub] at h; cases h
    | ok v' =>
      rw [hsub] at h
      cases h
      obtain ⟨e, hle⟩ := sub_countHoles (hok r.sect) hsub
      exact ⟨hle, by rw [e]⟩

theorem shiftRelocs_spec {m : HoleMap} (hok : HolesOK m) : ∀ {rels rels' : List Reloc},
    shiftRelocs m rels = .ok rels' → All2 (RelShift m) rels rels'
  | [], rels', h => by simp only [shiftRelocs] at h; cases h; exact All2.nil
  | r :: rest, rels', h => by
    simp only [shiftRelocs] at h
    cases h1 : shiftReloc m r with
    | error e => rw [h1] at h; cases h
    | ok r' =>
      rw [h1] at h
      cases h2 : shiftRelocs m rest with
      | error e => rw [h2] at h; cases h
      | ok rs =>
        rw [h2] at h
        cases h
        exact All2.cons (shiftReloc_spec hok h1) (shiftRelocs_spec hok h2)

/-! ### section data -/

def SecPunch (m : HoleMap) (s s' : Section) : Prop :=
  s'.name = s.name ∧ s'.address = s.address ∧ s'.alignment = s.alignment ∧
    punch s.data (holesOf m s.name) = .ok s'.data

theorem punchSections_spec {m : HoleMap} : ∀ {secs secs' : List Section},
    punchSections m secs = .ok secs' → All2 (SecPunch m) secs secs'
  | [], secs', h => by simp only [punchSections] at h; cases h; exact All2.nil
  | s :: rest, secs', h => by
    simp only [punchSections] at h
    cases h1 : punchSection m s with
    | error e => rw [h1] at h; cases h
    | ok s' =>
      rw [h1] at h
      cases h2 : punchSections m rest with
      | error e => rw [h2] at h; cases h
      | ok r =>
        rw [h2] at h
        cases h
        refine All2.cons ?_ (punchSections_spec h2)
        unfold punchSection at h1
        cases hp : punch s.data (holesOf m s.name) with
        | error e => rw [hp] at h1; cases h1
        | ok d => rw [hp] at h1; cases h1; exact ⟨rfl, rfl, rfl, hp⟩

/-! ### looking sections up by name in related lists -/

theorem getSec_forall₂ {R : Section → Section → Prop} (hR : ∀ s s', R s s' → s'.name = s.name) :
    ∀ {olds news : List Section}, All2 R olds news → ∀ n,
      (getSec olds n = none ∧ getSec news n = none) ∨
      (∃ so sn, getSec olds n = some so ∧ getSec news n = some sn ∧ R so sn)
  | _, _, .nil, n => Or.inl ⟨rfl, rfl⟩
  | _, _, .cons (a := so) (b := sn) (as := ro) (bs := rn) h t, n => by
    rw [getSec_cons, getSec_cons, hR so sn h]
    by_cases c : so.name = n
    · simp only [if_pos c]; exact Or.inr ⟨so, sn, rfl, rfl, h⟩
    · simp only [if_neg c]; exact getSec_forall₂ hR t n

theorem resolve_forall₂ {R : Section → Section → Prop} (hR : ∀ s s', R s s' → s'.name = s.name)
    {olds news : List Section} (h : All2 R olds news) :
    ∀ names : List String, All2 R (resolve olds names) (resolve news names)
  | [] => All2.nil
  | n :: rest => by
    have ih := resolve_forall₂ hR h rest
    unfold resolve at ih ⊢
    rw [List.filterMap_cons, List.filterMap_cons]
    rcases getSec_forall₂ hR h n with ⟨a, b⟩ | ⟨so, sn, a, b, r⟩
    · rw [a, b]; exact ih
    · rw [a, b]; exact All2.cons r ih

/-! ### the section addresses of one image -/

/-- `section.address -= delta; delta += section_changes[section.name]` along the sections of an image -/
def shiftRes (m : HoleMap) : Nat → List Section → List Section
  | _, [] => []
  | d, s :: r => setAddress (s.address - d) s :: shiftRes m (d + change m s.name) r

/-- none of the subtractions underflows -/
def ShiftFits (m : HoleMap) : Nat → List Section → Prop
  | _, [] => True
  | d, s :: r => d ≤ s.address ∧ ShiftFits m (d + change m s.name) r

theorem shiftImage_spec (m : HoleMap) : ∀ (names : List String) (secs secs' : List Section) (d : Nat),
    names.Nodup → shiftImage m secs d names = .ok secs' →
    (∀ n, n ∉ names → getSec secs' n = getSec secs n) ∧
    resolve secs' names = shiftRes m d (resolve secs names) ∧ ShiftFits m d (resolve secs names) ∧
    (resolve secs names).length = names.length
  | [], secs, secs', d, _, h => by
    simp only [shiftImage] at h; cases h
    exact ⟨fun _ _ => rfl, rfl, trivial, rfl⟩
  | n :: rest, secs, secs', d, hnd, h => by
    rw [List.nodup_cons] at hnd
    simp only [shiftImage] at h
    cases hg : getSec secs n with
    | none => rw [hg] at h; cases h
    | some sec =>
      rw [hg] at h
      simp only at h
      cases hsub : sub? sec.address d with
      | error e => rw [hsub] at h; cases h
      | ok a =>
        rw [hsub] at h
        simp only at h
        have ha : d ≤ sec.address ∧ a = sec.address - d := by
          unfold sub? at hsub
          split at hsub
          · cases hsub; exact ⟨by assumption, rfl⟩
          · cases hsub
        obtain ⟨ih1, ih2, ih3, ih4⟩ := shiftImage_spec m rest _ secs' _ hnd.2 h
        have hname : sec.name = n := getSec_some_name hg
        have hother : ∀ k, k ≠ n → getSec (updSec secs n (setAddress a)) k = getSec secs k :=
          fun k hk => getSec_updSec_other secs n k _ (fun s => rfl) hk
        have hrest : resolve (updSec secs n (setAddress a)) rest = resolve secs rest :=
          resolve_congr (fun k hk => hother k (fun e => hnd.1 (e ▸ hk)))
        have hn' : getSec secs' n = some (setAddress a sec) := by
          rw [ih1 n hnd.1, getSec_updSec_same secs n (setAddress a) (fun s => rfl), hg]; rfl
        refine ⟨?_, ?_, ?_, ?_⟩
        · intro k hk
          have hk1 : k ≠ n := fun e => hk (by simp [e])
          have hk2 : k ∉ rest := fun e => hk (by simp [e])
          rw [ih1 k hk2, hother k hk1]
        · show (n :: rest).filterMap (getSec secs') = _
          rw [List.filterMap_cons, hn']
          show _ :: resolve secs' rest = shiftRes m d ((n :: rest).filterMap (getSec secs))
          rw [List.filterMap_cons, hg]
          simp only [shiftRes]
          rw [ih2, hrest, hname, ha.2]
          rfl
        · show ShiftFits m d ((n :: rest).filterMap (getSec secs))
          rw [List.filterMap_cons, hg]
          simp only [ShiftFits]
          rw [hrest] at ih3
          rw [hname]
          exact ⟨ha.1, ih3⟩
        · show ((n :: rest).filterMap (getSec secs)).length = _
          rw [List.filterMap_cons, hg]
          rw [hrest] at ih4
          simp only [List.length_cons]
          exact congrArg (· + 1) ih4

/-- all images: with pairwise different placed names every image is shifted on its own -/
theorem shiftImages_spec (m : HoleMap) : ∀ (imgs : List Image) (secs secs' : List Section),
    (imgs.flatMap (·.sections)).Nodup → shiftImages m secs imgs = .ok secs' →
    (∀ n, n ∉ imgs.flatMap (·.sections) → getSec secs' n = getSec secs n) ∧
    ∀ img ∈ imgs, resolve secs' img.sections = shiftRes m 0 (resolve secs img.sections) ∧
      ShiftFits m 0 (resolve secs img.sections) ∧ (resolve secs img.sections).length = img.sections.length
  | [], secs, secs', _, h => by
    simp only [shiftImages] at h; cases h
    exact ⟨fun _ _ => rfl, fun _ hi => by cases hi⟩
  | img :: rest, secs, secs', hnd, h => by
    rw [List.flatMap_cons, List.nodup_append] at hnd
    obtain ⟨hnd1, hnd2, hdisj⟩ := hnd
    simp only [shiftImages] at h
    cases h1 : shiftImage m secs 0 img.sections with
    | error e => rw [h1] at h; cases h
    | ok secs1 =>
      rw [h1] at h
      simp only at h
      obtain ⟨a1, a2, a3, a4⟩ := shiftImage_spec m img.sections secs secs1 0 hnd1 h1
      obtain ⟨b1, b2⟩ := shiftImages_spec m rest secs1 secs' hnd2 h
      refine ⟨?_, ?_⟩
      · intro n hn
        rw [List.flatMap_cons, List.mem_append] at hn
        rw [b1 n (fun e => hn (Or.inr e)), a1 n (fun e => hn (Or.inl e))]
      · intro i hi
        rcases List.mem_cons.1 hi with rfl | hi
        · refine ⟨?_, a3, a4⟩
          rw [← a2]
          exact resolve_congr (fun k hk => b1 k (fun e => hdisj k hk k e rfl))
        · obtain ⟨c1, c2, c3⟩ := b2 i hi
          have hcong : resolve secs1 i.sections = resolve secs i.sections :=
            resolve_congr (fun k hk => a1 k (fun e => hdisj k e k (List.mem_flatMap.2 ⟨i, hi, hk⟩) rfl))
          rw [hcong] at c1 c2 c3
          exact ⟨c1, c2, c3⟩

/-! ### chains -/

/-- old sections vs. punched sections: same name and address, `change` bytes shorter -/
def Shorter (m : HoleMap) (so sn : Section) : Prop :=
  sn.name = so.name ∧ sn.address = so.address ∧ sn.data.length + change m so.name = so.data.length

/-- consecutive sections of an image that did not overlap before do not overlap afterwards -/
theorem chain_shiftRes (m : HoleMap) : ∀ {olds news : List Section}, All2 (Shorter m) olds news →
    ∀ (cur D : Nat), Chain cur olds → D ≤ cur → Chain (cur - D) (shiftRes m D news) ∧ ShiftFits m D news
  | _, _, .nil, _, _, _, _ => ⟨trivial, trivial⟩
  | _, _, .cons (a := so) (b := sn) (as := ro) (bs := rn) h t, cur, D, hc, hD => by
    obtain ⟨hn, ha, hl⟩ := h
    obtain ⟨hc1, hc2⟩ := hc
    have ih := chain_shiftRes m t (so.address + so.data.length) (D + change m sn.name) hc2 (by rw [hn]; omega)
    simp only [shiftRes, Chain, ShiftFits, setAddress]
    refine ⟨⟨by omega, ?_⟩, by omega, ih.2⟩
    have e : sn.address - D + sn.data.length = so.address + so.data.length - (D + change m sn.name) := by
      rw [hn]; omega
    rw [e]
    exact ih.1

theorem change_eq_totalSize (m : HoleMap) (n : String) : change m n = totalSize (holesOf m n) := by
  unfold change
  generalize holesOf m n = hs
  induction hs with
  | nil => rfl
  | cons h rest ih => simp only [List.map_cons, List.sum_cons, totalSize, ih]

theorem shorter_of_punch {m : HoleMap} {so sn : Section} (h : SecPunch m so sn) : Shorter m so sn := by
  obtain ⟨h1, h2, _, h4⟩ := h
  refine ⟨h1, h2, ?_⟩
  rw [change_eq_totalSize]
  exact punch_length _ _ _ h4

/-! ### everything but the address is left alone by the image loop -/

def SameButAddr (a b : Section) : Prop := b.name = a.name ∧ b.alignment = a.alignment ∧ b.data = a.data

theorem All2.refl' {α : Type} {R : α → α → Prop} (hr : ∀ a, R a a) : ∀ l : List α, All2 R l l
  | [] => .nil
  | a :: l => .cons (hr a) (All2.refl' hr l)

theorem All2.trans' {α : Type} {R S T : α → α → Prop} (hrst : ∀ a b c, R a b → S b c → T a c) :
    ∀ {l₁ l₂ l₃ : List α}, All2 R l₁ l₂ → All2 S l₂ l₃ → All2 T l₁ l₃
  | _, _, _, .nil, .nil => .nil
  | _, _, _, .cons h1 t1, .cons h2 t2 => .cons (hrst _ _ _ h1 h2) (All2.trans' hrst t1 t2)

theorem updSec_sameButAddr (n : String) (a : Nat) : ∀ secs : List Section, All2 SameButAddr secs (updSec secs n (setAddress a))
  | [] => .nil
  | s :: rest => by
    rw [updSec_cons]
    refine .cons ?_ (updSec_sameButAddr n a rest)
    split
    · exact ⟨rfl, rfl, rfl⟩
    · exact ⟨rfl, rfl, rfl⟩

theorem sameButAddr_trans (a b c : Section) (h1 : SameButAddr a b) (h2 : SameButAddr b c) : SameButAddr a c :=
  ⟨h2.1.trans h1.1, h2.2.1.trans h1.2.1, h2.2.2.trans h1.2.2⟩

theorem shiftImage_same (m : HoleMap) : ∀ (names : List String) (secs secs' : List Section) (d : Nat),
    shiftImage m secs d names = .ok secs' → All2 SameButAddr secs secs'
  | [], secs, secs', d, h => by
    simp only [shiftImage] at h; cases h
    exact All2.refl' (fun _ => ⟨rfl, rfl, rfl⟩) _
  | n :: rest, secs, secs', d, h => by
    simp only [shiftImage] at h
    cases hg : getSec secs n with
    | none => rw [hg] at h; cases h
    | some sec =>
      rw [hg] at h
      simp only at h
      cases hsub : sub? sec.address d with
      | error e => rw [hsub] at h; cases h
      | ok a =>
        rw [hsub] at h
        simp only at h
        exact All2.trans' sameButAddr_trans (updSec_sameButAddr n a secs) (shiftImage_same m rest _ secs' _ h)

theorem shiftImages_same (m : HoleMap) : ∀ (imgs : List Image) (secs secs' : List Section),
    shiftImages m secs imgs = .ok secs' → All2 SameButAddr secs secs'
  | [], secs, secs', h => by
    simp only [shiftImages] at h; cases h
    exact All2.refl' (fun _ => ⟨rfl, rfl, rfl⟩) _
  | img :: rest, secs, secs', h => by
    simp only [shiftImages] at h
    cases h1 : shiftImage m secs 0 img.sections with
    | error e => rw [h1] at h; cases h
    | ok secs1 =>
      rw [h1] at h
      simp only at h
      exact All2.trans' sameButAddr_trans (shiftImage_same m _ _ _ _ h1) (shiftImages_same m rest secs1 secs' h)

/-! ### `_apply_relaxation_holes` as a whole -/

theorem bind_ok {α β : Type} {x : Except Model.Relax.Err α} {f : α → Except Model.Relax.Err β} {r : β}
    (h : (x >>= f) = .ok r) : ∃ a, x = .ok a ∧ f a = .ok r := by
  cases x with
  | error e => cases h
  | ok a => exact ⟨a, rfl, h⟩

/-- section data and names after `_apply_relaxation_holes`, position by position -/
def SecData (m : HoleMap) (s s' : Section) : Prop :=
  s'.name = s.name ∧ s'.alignment = s.alignment ∧ punch s.data (holesOf m s.name) = .ok s'.data

theorem applyHoles_spec {m : HoleMap} {o o' : Obj} (hok : HolesOK m) (h : applyHoles m o = .ok o') :
    All2 (SymShift m) o.symbols o'.symbols ∧ All2 (RelShift m) o.relocs o'.relocs ∧
    o'.images = o.images ∧ o'.entry = o.entry ∧ All2 (SecData m) o.sections o'.sections ∧
    ∃ secsP, All2 (SecPunch m) o.sections secsP ∧ shiftImages m secsP o.images = .ok o'.sections := by
  unfold applyHoles at h
  obtain ⟨syms, h1, h⟩ := bind_ok h
  obtain ⟨rels, h2, h⟩ := bind_ok h
  obtain ⟨secsP, h3, h⟩ := bind_ok h
  obtain ⟨secs, h4, h⟩ := bind_ok h
  cases h
  have hp := punchSections_spec h3
  refine ⟨shiftSymbols_spec hok h1, shiftRelocs_spec hok h2, rfl, rfl, ?_, secsP, hp, h4⟩
  exact All2.trans' (fun a b c (hab : SecPunch m a b) (hbc : SameButAddr b c) =>
    (⟨hbc.1.trans hab.1, hbc.2.1.trans hab.2.2.1, by rw [hbc.2.2]; exact hab.2.2.2⟩ : SecData m a c))
    hp (shiftImages_same m _ _ _ h4)

/-- the images after relaxation: every image whose sections formed an ascending non-overlapping chain
    still does, and the addresses are the old ones minus the bytes removed from the sections in front -/
theorem applyHoles_images {m : HoleMap} {o o' : Obj} (hok : HolesOK m) (h : applyHoles m o = .ok o')
    (hnd : (o.images.flatMap (·.sections)).Nodup) :
    ∀ img ∈ o.images, ∃ news, All2 (Shorter m) (resolve o.sections img.sections) news ∧
      resolve o'.sections img.sections = shiftRes m 0 news ∧
      (Chain img.address (resolve o.sections img.sections) → Chain img.address (resolve o'.sections img.sections)) := by
  obtain ⟨_, _, _, _, _, secsP, hp, h4⟩ := applyHoles_spec hok h
  obtain ⟨_, b2⟩ := shiftImages_spec m o.images secsP o'.sections hnd h4
  intro img hi
  obtain ⟨c1, _, _⟩ := b2 img hi
  have hs : All2 (Shorter m) o.sections secsP := hp.imp (fun _ _ => shorter_of_punch)
  have hr := resolve_forall₂ (R := Shorter m) (fun s s' h => h.1) hs img.sections
  refine ⟨resolve secsP img.sections, hr, c1, ?_⟩
  intro hc
  rw [c1]
  have := (chain_shiftRes m hr img.address 0 hc (Nat.zero_le _)).1
  simpa using this

end Proofs.Relax
