import PpciVerif.Model.ConstFold
import PpciVerif.Spec.IRArith
import PpciVerif.Spec.ConstExpr
import PpciVerif.Proofs.IRArith
/-! Helper lemmas for C38: the model's `correct` is the specification's `wrap`, `irem` is the
truncating remainder, results of the defined operations are values of the type. -/
namespace Proofs.ConstFold
open Model.ConstFold Spec.IRArith Spec.ConstExpr Proofs.IRArith

deriving instance DecidableEq for Except

/-- the model's descriptor of a specification type -/
def tyOf : Ty → Typ
  | .i8 => i8 | .i16 => i16 | .i32 => i32 | .i64 => i64
  | .u8 => u8 | .u16 => u16 | .u32 => u32 | .u64 => u64

theorem tyOf_injective (a b : Ty) (h : tyOf a = tyOf b) : a = b := by
  cases a <;> cases b <;> first | rfl | exact absurd h (by decide)

/-! ### `correct` = `wrap` -/

theorem bitLength_eq_iff (v bits : Nat) (hb : 0 < bits) (hv : v < 2 ^ bits) :
    bitLength v = bits ↔ 2 ^ (bits - 1) ≤ v := by
  unfold bitLength
  split
  · subst_vars; constructor
    · intro h; omega
    · intro h; have := Nat.two_pow_pos (bits - 1); omega
  · rename_i hne
    have h1 : v.log2 < bits := (Nat.log2_lt hne).2 hv
    constructor
    · intro h
      have : ¬ v.log2 < bits - 1 := by omega
      rw [Nat.log2_lt hne] at this; omega
    · intro h
      have : ¬ v.log2 < bits - 1 := by rw [Nat.log2_lt hne]; omega
      omega

/-- `correct` without `bit_length`: subtract `2^bits` iff signed and the top bit is set -/
theorem correct_eq (t : Typ) (hb : 0 < t.bits) (x : Int) : correct x t =
    if t.signed = true ∧ (2:Int) ^ (t.bits - 1) ≤ x % 2 ^ t.bits then x % 2 ^ t.bits - 2 ^ t.bits
    else x % 2 ^ t.bits := by
  have key : (bitLength (x % 2 ^ t.bits).toNat == t.bits) = decide ((2:Int) ^ (t.bits - 1) ≤ x % 2 ^ t.bits) := by
    have hpos : (0:Int) < 2 ^ t.bits := Int.pow_pos (by omega)
    have h0 : 0 ≤ x % 2 ^ t.bits := Int.emod_nonneg _ (by omega)
    have h1 : x % 2 ^ t.bits < 2 ^ t.bits := Int.emod_lt_of_pos _ hpos
    have hv : (x % 2 ^ t.bits).toNat < 2 ^ t.bits := by
      have : ((x % 2 ^ t.bits).toNat : Int) < ((2 ^ t.bits : Nat) : Int) := by
        rw [Int.toNat_of_nonneg h0]; push_cast; exact h1
      exact_mod_cast this
    have := bitLength_eq_iff _ t.bits hb hv
    rw [Bool.eq_iff_iff]; simp only [beq_iff_eq, decide_eq_true_eq]
    rw [this]
    constructor
    · intro h
      have : ((2 ^ (t.bits - 1) : Nat) : Int) ≤ ((x % 2 ^ t.bits).toNat : Int) := by exact_mod_cast h
      rw [Int.toNat_of_nonneg h0] at this; push_cast at this; exact this
    · intro h
      have : ((2 ^ (t.bits - 1) : Nat) : Int) ≤ ((x % 2 ^ t.bits).toNat : Int) := by
        rw [Int.toNat_of_nonneg h0]; push_cast; exact h
      exact_mod_cast this
  simp only [correct, key, Bool.and_eq_true, decide_eq_true_eq]

theorem correct_eq_wrap (ty : Ty) (x : Int) : correct x (tyOf ty) = wrap ty x := by
  cases ty <;> rw [correct_eq _ (by decide)] <;>
    simp only [tyOf, i8, i16, i32, i64, u8, u16, u32, u64, wrap, Ty.signed, Ty.bits] <;> simp <;> omega

/-! ### `irem` -/

/-- `irem` is the remainder of the division that truncates toward zero; it raises exactly for 0 -/
theorem irem_eq_tmod (a b : Int) (hb : b ≠ 0) : irem a b = .ok (Int.tmod a b) := by
  have hab : pyAbs b ≠ 0 := by unfold pyAbs; split <;> omega
  have hnn : 0 ≤ pyAbs b := by unfold pyAbs; split <;> omega
  rw [tmod_eq_abs]
  simp only [irem, pyMod, hab, if_false, Int.fmod_eq_emod_of_nonneg _ hnn]
  simp only [pyAbs]

theorem irem_zero (a : Int) : irem a 0 = .error .ZeroDivisionError := by
  simp [irem, pyMod, pyAbs]

/-! ### one operation -/

/-- the operator is a key of `ConstantFolder.ops` -/
def Foldable (op : Op) : Prop := (ops.lookup op.symbol).isSome = true

instance (op : Op) : Decidable (Foldable op) := by unfold Foldable; infer_instance

/-- Defined at run time with value `v` ⇒ the table entry computes `v` (and does not raise). -/
theorem enhance_agrees (ty : Ty) (op : Op) (f : PyOp) (a b v : Int)
    (hf : ops.lookup op.symbol = some f) (ha : InRange ty a) (hb : InRange ty b)
    (h : binop ty op a b = some v) : enhance f (tyOf ty) a b = .ok v := by
  cases op <;> simp [ops, Op.symbol, List.lookup] at hf <;> subst hf <;> simp only [binop] at h
  · simp at h; simp [enhance, PyOp.apply, correct_eq_wrap, h]
  · simp at h; simp [enhance, PyOp.apply, correct_eq_wrap, h]
  · simp at h; simp [enhance, PyOp.apply, correct_eq_wrap, h]
  · -- % : irem = truncating remainder, already a value of the type
    split at h
    · simp at h
    · rename_i hd
      simp at h; subst h
      have hb0 : b ≠ 0 := fun h0 => hd (Or.inl h0)
      simp only [enhance, PyOp.apply, irem_eq_tmod a b hb0, correct_eq_wrap]
      rw [wrap_of_inRange ty _ (tmod_inRange ty a b ha hb hb0)]
  · -- <<
    split at h
    · rename_i hs
      simp at h; subst h
      have : ¬ b < 0 := by have := hs.1; omega
      simp [enhance, PyOp.apply, this, correct_eq_wrap]
    · simp at h
  · -- >>
    split at h
    · rename_i hs
      replace h := Option.some.inj h
      have hn : ¬ b < 0 := by have := hs.1; omega
      have hr := ediv_pow_inRange ty a b.toNat ha
      simp only [enhance, PyOp.apply, hn, if_false, correct_eq_wrap, wrap_of_inRange ty _ hr]
      split at h
      · rw [← h]
      · rename_i hsg
        have ha0 : 0 ≤ a := by
          cases ty <;> simp [Ty.signed] at hsg <;> simp [InRange, Ty.minVal, Ty.signed] at ha <;> omega
        rw [← h, shiftRight_logical a _ ha0]
    · simp at h

/-- Whatever the operands: a result of a table entry is a value of the type. -/
theorem enhance_inRange (ty : Ty) (f : PyOp) (a b r : Int) (h : enhance f (tyOf ty) a b = .ok r) :
    InRange ty r := by
  unfold enhance at h
  split at h
  · simp at h; rw [← h, correct_eq_wrap]; exact wrap_inRange ty _
  · simp at h

/-! ### range of every created constant -/

theorem evalConst_binop_inRange (ty : Ty) (op : String) (a b : Expr) (t : Typ) (r : Int)
    (h : evalConst (.binop (tyOf ty) op a b) = .ok (t, r)) : t = tyOf ty ∧ InRange ty r := by
  simp only [evalConst] at h
  split at h
  · simp at h
  split at h
  · simp at h
  split at h
  · simp at h
  split at h
  · simp at h
  split at h
  · simp at h
  split at h
  · rename_i _ ta va _ _ _ _ _ hty _ f _ _ res hres
    simp at h hty
    obtain ⟨h1, h2⟩ := h
    subst h1 h2
    exact ⟨hty, enhance_inRange ty f _ _ _ hres⟩
  · simp at h

theorem evalConst_cast_inRange (ty : Ty) (src : Expr) (t : Typ) (r : Int)
    (h : evalConst (.cast (tyOf ty) src) = .ok (t, r)) : t = tyOf ty ∧ InRange ty r := by
  simp only [evalConst] at h
  split at h
  · simp at h
  · simp at h
    obtain ⟨h1, h2⟩ := h
    subst h1 h2
    exact ⟨rfl, by rw [Model.ConstFold.cast, correct_eq_wrap]; exact wrap_inRange ty _⟩

/-! ### `try_eval_const` -/

theorem tryEvalConst_of_ok (e : Expr) (r : Typ × Int) (h : evalConst e = .ok r) :
    tryEvalConst e = .ok (some r) := by simp [tryEvalConst, h]

theorem evalConst_of_tryEvalConst (e : Expr) (r : Typ × Int) (h : tryEvalConst e = .ok (some r)) :
    evalConst e = .ok r := by
  unfold tryEvalConst at h
  split at h <;> simp at h
  subst h; assumption

/-- `try_eval_const` never lets the exceptions of an undefined operation escape -/
theorem tryEvalConst_no_raise (e : Expr) (x : Err) (h : tryEvalConst e = .error x) :
    x ≠ .ZeroDivisionError ∧ x ≠ .ValueError := by
  unfold tryEvalConst at h
  split at h <;> simp at h
  rename_i e' h1 h2 _
  subst h
  exact ⟨h1, h2⟩

/-! ### expression trees -/

/-- the model's view of a specification tree -/
def embed : SExpr → Expr
  | .const ty v => .const (tyOf ty) v
  | .cast ty e => .cast (tyOf ty) (embed e)
  | .binop ty op a b => .binop (tyOf ty) op.symbol (embed a) (embed b)

/-- every operator of the tree is in the folder's table -/
def AllFoldable : SExpr → Prop
  | .const _ _ => True
  | .cast _ e => AllFoldable e
  | .binop _ op a b => Foldable op ∧ AllFoldable a ∧ AllFoldable b

theorem embed_ty (e : SExpr) : (embed e).ty = tyOf e.ty := by cases e <;> rfl

/-- run-time values of well-formed trees are values of their type -/
theorem evalConst_embed (e : SExpr) (v : Int) (hwf : e.WF) (hf : AllFoldable e) (h : e.eval = some v) :
    evalConst (embed e) = .ok (tyOf e.ty, v) ∧ isConst (embed e) = true ∧ InRange e.ty v := by
  induction e generalizing v with
  | const ty c => simp [SExpr.eval] at h; subst h; exact ⟨rfl, rfl, hwf⟩
  | cast ty src ih =>
    simp only [SExpr.eval, Option.map_eq_some_iff] at h
    obtain ⟨w, hw, rfl⟩ := h
    obtain ⟨h1, h2, _⟩ := ih w hwf hf hw
    refine ⟨?_, by simpa [embed, isConst] using h2, cast_inRange ty w⟩
    simp [embed, evalConst, h1, Model.ConstFold.cast, correct_eq_wrap, Spec.IRArith.cast, SExpr.ty]
  | binop ty op a b iha ihb =>
    obtain ⟨hta, htb, hwa, hwb⟩ := hwf
    obtain ⟨hop, hfa, hfb⟩ := hf
    simp only [SExpr.eval] at h
    split at h
    · rename_i va vb hea heb
      obtain ⟨a1, a2, a3⟩ := iha va hwa hfa hea
      obtain ⟨b1, b2, b3⟩ := ihb vb hwb hfb heb
      rw [hta] at a1 a3; rw [htb] at b1 b3
      unfold Foldable at hop
      obtain ⟨f, hfl⟩ := Option.isSome_iff_exists.mp hop
      have hv := enhance_agrees ty op f va vb v hfl a3 b3 h
      refine ⟨?_, by simp [embed, isConst, hop, a2, b2], ?_⟩
      · simp [embed, evalConst, a1, b1, hfl, hv, SExpr.ty]
      · exact enhance_inRange ty f va vb v hv
    · simp at h

/-! ### the pass does not raise on well-typed constant trees -/

theorem apply_err (f : PyOp) (a b : Int) (x : Err) (h : f.apply a b = .error x) :
    x = .ZeroDivisionError ∨ x = .ValueError := by
  cases f <;> simp only [PyOp.apply, pyMod, irem] at h
  case add | sub | mul => simp at h
  case mod => split at h <;> simp at h; exact Or.inl h.symm
  case irem =>
    split at h
    · rename_i e he; split at he <;> simp at he; simp at h; rw [← h, ← he]; exact Or.inl rfl
    · simp at h
  case lshift => split at h <;> simp at h; exact Or.inr h.symm
  case rshift => split at h <;> simp at h; exact Or.inr h.symm

/-- typing alone (no range, no definedness): `eval_const` on a well-typed tree over the folder's
    operators either returns a constant of the tree's type or raises one of the two exceptions of
    an undefined operation — never an assertion failure or `NotImplementedError`. -/
theorem evalConst_embed_total (e : SExpr) (hwf : e.WF) (hf : AllFoldable e) :
    (∃ v, evalConst (embed e) = .ok (tyOf e.ty, v)) ∨ evalConst (embed e) = .error .ZeroDivisionError
      ∨ evalConst (embed e) = .error .ValueError := by
  induction e with
  | const ty c => exact Or.inl ⟨c, rfl⟩
  | cast ty src ih =>
    rcases ih hwf hf with ⟨v, hv⟩ | h | h
    · exact Or.inl ⟨Model.ConstFold.cast v (tyOf ty), by simp [embed, evalConst, hv, SExpr.ty]⟩
    · exact Or.inr (Or.inl (by simp [embed, evalConst, h]))
    · exact Or.inr (Or.inr (by simp [embed, evalConst, h]))
  | binop ty op a b iha ihb =>
    obtain ⟨hta, htb, hwa, hwb⟩ := hwf
    obtain ⟨hop, hfa, hfb⟩ := hf
    obtain ⟨f, hfl⟩ := Option.isSome_iff_exists.mp hop
    rcases iha hwa hfa with ⟨va, hva⟩ | h | h
    · rcases ihb hwb hfb with ⟨vb, hvb⟩ | h' | h'
      · rw [hta] at hva; rw [htb] at hvb
        cases hap : f.apply va vb with
        | ok r => exact Or.inl ⟨correct r (tyOf ty), by simp [embed, evalConst, hva, hvb, hfl, enhance, hap, SExpr.ty]⟩
        | error x =>
          rcases apply_err f va vb x hap with rfl | rfl
          · exact Or.inr (Or.inl (by simp [embed, evalConst, hva, hvb, hfl, enhance, hap]))
          · exact Or.inr (Or.inr (by simp [embed, evalConst, hva, hvb, hfl, enhance, hap]))
      · exact Or.inr (Or.inl (by simp [embed, evalConst, hva, h']))
      · exact Or.inr (Or.inr (by simp [embed, evalConst, hva, h']))
    · exact Or.inr (Or.inl (by simp [embed, evalConst, h]))
    · exact Or.inr (Or.inr (by simp [embed, evalConst, h]))

theorem tryEvalConst_embed_total (e : SExpr) (hwf : e.WF) (hf : AllFoldable e) :
    (∃ v, tryEvalConst (embed e) = .ok (some (tyOf e.ty, v))) ∨ tryEvalConst (embed e) = .ok none := by
  rcases evalConst_embed_total e hwf hf with ⟨v, hv⟩ | h | h
  · exact Or.inl ⟨v, tryEvalConst_of_ok _ _ hv⟩
  · exact Or.inr (by simp [tryEvalConst, h])
  · exact Or.inr (by simp [tryEvalConst, h])

end Proofs.ConstFold
