import PpciVerif.Model.ConstFold
import PpciVerif.Spec.IRArith
import PpciVerif.Spec.ConstExpr
import PpciVerif.Proofs.IRArith
/-! Helper lemmas for C38: the model's `correct` is the specification's `wrap`, `irem` is the
truncating remainder, results of the defined operations are values of the type. -/
namespace Proofs.ConstFold
open Model.ConstFold Spec.IRArith Spec.ConstExpr Proofs.IRArith

deriving instance DecidableEq for Except

/-- the model's descriptor of a specification type -/
def tyOf : Ty → Typ
  | .i8 => i8 | .i16 => i16 | .i32 => i32 | .i64 => i64
  | .u8 => u8 | .u16 => u16 | .u32 => u32 | .u64 => u64

theorem tyOf_injective (a b : Ty) (h : tyOf a = tyOf b) : a = b := by
  cases a <;> cases b <;> first | rfl | exact absurd h (by decide)

/-! ### `correct` = `wrap` -/

theorem bitLength_eq_iff (v bits : Nat) (hb : 0 < bits) (hv : v < 2 ^ bits) :
    bitLength v = bits ↔ 2 ^ (bits - 1) ≤ v := by
  unfold bitLength
  split
  · subst_vars; constructor
    · intro h; omega
    · intro h; have := Nat.two_pow_pos (bits - 1); omega
  · rename_i hne
    have h1 : v.log2 < bits := (Nat.log2_lt hne).2 hv
    constructor
    · intro h
      have : ¬ v.log2 < bits - 1 := by omega
      rw [Nat.log2_lt hne] at this; omega
    · intro h
      have : ¬ v.log2 < bits - 1 := by rw [Nat.log2_lt hne]; omega
      omega

/-- `correct` without `bit_length`: subtract `2^bits` iff signed and the top bit is set -/
theorem correct_eq (t : Typ) (hb : 0 < t.bits) (x : Int) : correct x t =
    if t.signed = true ∧ (2:Int) ^ (t.bits - 1) ≤ x % 2 ^ t.bits then x % 2 ^ t.bits - 2 ^ t.bits
    else x % 2 ^ t.bits := by
  have key : (bitLength (x % 2 ^ t.bits).toNat == t.bits) = decide ((2:Int) ^ (t.bits - 1) ≤ x % 2 ^ t.bits) := by
    have hpos : (0:Int) < 2 ^ t.bits := Int.pow_pos (by omega)
    have h0 : 0 ≤ x % 2 ^ t.bits := Int.emod_nonneg _ (by omega)
    have h1 : x % 2 ^ t.bits < 2 ^ t.bits := Int.emod_lt_of_pos _ hpos
    have hv : (x % 2 ^ t.bits).toNat < 2 ^ t.bits := by
      have : ((x % 2 ^ t.bits).toNat : Int) < ((2 ^ t.bits : Nat) : Int) := by
        rw [Int.toNat_of_nonneg h0]; push_cast; exact h1
      exact_mod_cast this
    have := bitLength_eq_iff _ t.bits hb hv
    rw [Bool.eq_iff_iff]; simp only [beq_iff_eq, decide_eq_true_eq]
    rw [this]
    constructor
    · intro h
      have : ((2 ^ (t.bits - 1) : Nat) : Int) ≤ ((x % 2 ^ t.bits).toNat : Int) := by exact_mod_cast h
      rw [Int.toNat_of_nonneg h0] at this; push_cast at this; exact this
    · intro h
      have : ((2 ^ (t.bits - 1) : Nat) : Int) ≤ ((x % 2 ^ t.bits).toNat : Int) := by
        rw [Int.toNat_of_nonneg h0]; push_cast; exact h
      exact_mod_cast this
  simp only [correct, key, Bool.and_eq_true, decide_eq_true_eq]

theorem correct_eq_wrap (ty : Ty) (x : Int) : correct x (tyOf ty) = wrap ty x := by
  cases ty <;> rw [correct_eq _ (by decide)] <;>
    simp only [tyOf, i8, i16, i32, i64, u8, u16, u32, u64, wrap, Ty.signed, Ty.bits] <;> simp <;> omega

/-! ### `irem` -/

/-- `irem` is the remainder of the division that truncates toward zero; it raises exactly for 0 -/
theorem irem_eq_tmod (a b : Int) (hb : b ≠ 0) : irem a b = .ok (Int.tmod a b) := by
  have hab : pyAbs b ≠ 0 := by unfold pyAbs; split <;> omega
  have hnn : 0 ≤ pyAbs b := by unfold pyAbs; split <;> omega
  rw [tmod_eq_abs]
  simp only [irem, pyMod, hab, if_false, Int.fmod_eq_emod_of_nonneg _ hnn]
  simp only [pyAbs]

theorem irem_zero (a : Int) : irem a 0 = .error .ZeroDivisionError := by
  simp [irem, pyMod, pyAbs]

/-! ### one operation -/

/-- the operator is a key of `ConstantFolder.ops` -/
def Foldable (op : Op) : Prop := (ops.lookup op.symbol).isSome = true

instance (op : Op) : Decidable (Foldable op) := by unfold Foldable; infer_instance

/-- Defined at run time with value `v` ⇒ the table entry computes `v` (and does not raise). -/
theorem enhance_agrees (ty : Ty) (op : Op) (f : PyOp) (a b v : Int)
    (hf : ops.lookup op.symbol = some f) (ha : InRange ty a) (hb : InRange ty b)
    (h : binop ty op a b = some v) : enhance f (tyOf ty) a b = .ok v := by
  cases op <;> simp [ops, Op.symbol, List.lookup] at hf <;> subst hf <;> simp only [binop] at h
  · simp at h; simp [enhance, PyOp.apply, correct_eq_wrap, h]
  · simp at h; simp [enhance, PyOp.apply, correct_eq_wrap, h]
  · simp at h; simp [enhance, PyOp.apply, correct_eq_wrap, h]
  · -- % : irem = truncating remainder, already a value of the type
    split at h
    · simp at h
    · rename_i hd
      simp at h; subst h
      have hb0 : b ≠ 0 := fun h0 => hd (Or.inl h0)
      simp only [enhance, PyOp.apply, irem_eq_tmod a b hb0, correct_eq_wrap]
      rw [wrap_of_inRange ty _ (tmod_inRange ty a b ha hb hb0)]
  · -- <<
    split at h
    · rename_i hs
      simp at h; subst h
      have : ¬ b < 0 := by have := hs.1; omega
      simp [enhance, PyOp.apply, this, correct_eq_wrap]
    · simp at h
  · -- >>
    split at h
    · rename_i hs
      replace h := Option.some.inj h
      have hn : ¬ b < 0 := by have := hs.1; omega
      have hr := ediv_pow_inRange ty a b.toNat ha
      simp only [enhance, PyOp.apply, hn, if_false, correct_eq_wrap, wrap_of_inRange ty _ hr]
      split at h
      · rw [← h]
      · rename_i hsg
        have ha0 : 0 ≤ a := by
          cases ty <;> simp [Ty.signed] at hsg <;> simp [InRange, Ty.minVal, Ty.signed] at ha <;> omega
        rw [← h, shiftRight_logical a _ ha0]
    · simp at h

/-- Whatever the operands: a result of a table entry is a value of the type. -/
theorem enhance_inRange (ty : Ty) (f : PyOp) (a b r : Int) (h : enhance f (tyOf ty) a b = .ok r) :
    InRange ty r := by
  unfold enhance at h
  split at h
  · simp at h; rw [← h, correct_eq_wrap]; exact wrap_inRange ty _
  · simp at h

/-! ### range of every created constant -/

theorem evalConst_binop_inRange (ty : Ty) (op : String) (a b : Expr) (t : Typ) (r : Int)
    (h : evalConst (.binop (tyOf ty) op a b) = .ok (t, r)) : t = tyOf ty ∧ InRange ty r := by
  simp only [evalConst] at h
  split at h
  · simp at h
  split at h
  · simp at h
  split at h
  · simp at h
  split at h
  · simp at h
  split at h
  · simp at h
  split at h
  · rename_i _ ta va _ _ _ _ _ hty _ f _ _ res hres
    simp at h hty
    obtain ⟨h1, h2⟩ := h
    subst h1 h2
    exact ⟨hty, enhance_inRange ty f _ _ _ hres⟩
  · simp at h

theorem evalConst_cast_inRange (ty : Ty) (src : Expr) (t : Typ) (r : Int)
    (h : evalConst (.cast (tyOf ty) src) = .ok (t, r)) : t = tyOf ty ∧ InRange ty r := by
  simp only [evalConst] at h
  split at h
  · simp at h
  · simp at h
    obtain ⟨h1, h2⟩ := h
    subst h1 h2
    exact ⟨rfl, by rw [Model.ConstFold.cast, correct_eq_wrap]; exact wrap_inRange ty _⟩

/-! ### `try_eval_const` -/

theorem tryEvalConst_of_ok (e : Expr) (r : Typ × Int) (h : evalConst e = .ok r) :
    tryEvalConst e = .ok (some r) := by simp [tryEvalConst, h]

theorem evalConst_of_tryEvalConst (e : Expr) (r : Typ × Int) (h : tryEvalConst e = .ok (some r)) :
    evalConst e = .ok r := by
  unfold tryEvalConst at h
  split at h <;> simp at h
  subst h; assumption

/-- `try_eval_const` never lets the exceptions of an undefined operation escape -/
theorem tryEvalConst_no_raise (e : Expr) (x : Err) (h : tryEvalConst e = .error x) :
    x ≠ .ZeroDivisionError ∧ x ≠ .ValueError := by
  unfold tryEvalConst at h
  split at h <;> simp at h
  rename_i e' h1 h2 _
  subst h
  exact ⟨h1, h2⟩

/-! ### expression trees -/

/-- the model's view of a specification tree -/
def embed : SExpr → Expr
  | .const ty v => .const (tyOf ty) v
  | .cast ty e => .cast (tyOf ty) (embed e)
  | .binop ty op a b => .binop (tyOf ty) op.symbol (embed a) (embed b)

/-- every operator of the tree is in the folder's table -/
def AllFoldable : SExpr → Prop
  | .const _ _ => True
  | .cast _ e => AllFoldable e
  | .binop _ op a b => Foldable op ∧ AllFoldable a ∧ AllFoldable b

theorem embed_ty (e : SExpr) : (embed e).ty = tyOf e.ty := by cases e <;> rfl

/-- run-time values of well-formed trees are values of their type -/
theorem evalConst_embed (e : SExpr) (v : Int) (hwf : e.WF) (hf : AllFoldable e) (h : e.eval = some v) :
    evalConst (embed e) = .ok (tyOf e.ty, v) ∧ isConst (embed e) = true ∧ InRange e.ty v := by
  induction e generalizing v with
  | const ty c => simp [SExpr.eval] at h; subst h; exact ⟨rfl, rfl, hwf⟩
  | cast ty src ih =>
    simp only [SExpr.eval, Option.map_eq_some_iff] at h
    obtain ⟨w, hw, rfl⟩ := h
    obtain ⟨h1, h2, _⟩ := ih w hwf hf hw
    refine ⟨?_, by simpa [embed, isConst] using h2, cast_inRange ty w⟩
    simp [embed, evalConst, h1, Model.ConstFold.cast, correct_eq_wrap, Spec.IRArith.cast, SExpr.ty]
  | binop ty op a b iha ihb =>
    obtain ⟨hta, htb, hwa, hwb⟩ := hwf
    obtain ⟨hop, hfa, hfb⟩ := hf
    simp only [SExpr.eval] at h
    split at h
    · rename_i va vb hea heb
      obtain ⟨a1, a2, a3⟩ := iha va hwa hfa hea
      obtain ⟨b1, b2, b3⟩ := ihb vb hwb hfb heb
      rw [hta] at a1 a3; rw [htb] at b1 b3
      unfold Foldable at hop
      obtain ⟨f, hfl⟩ := Option.isSome_iff_exists.mp hop
      have hv := enhance_agrees ty op f va vb v hfl a3 b3 h
      refine ⟨?_, by simp [embed, isConst, hop, a2, b2], ?_⟩
      · simp [embed, evalConst, a1, b1, hfl, hv, SExpr.ty]
      · exact enhance_inRange ty f va vb v hv
    · simp at h

/-! ### the pass does not raise on well-typed constant trees -/

theorem apply_err (f : PyOp) (a b : Int) (x : Err) (h : f.apply a b = .error x) :
    x = .ZeroDivisionError ∨ x = .ValueError := by
  cases f <;> simp only [PyOp.apply, pyMod, irem] at h
  case add | sub | mul => simp at h
  case mod => split at h <;> simp at h; exact Or.inl h.symm
  case irem =>
    split at h
    · rename_i e he; split at he <;> simp at he; simp at h; rw [← h, ← he]; exact Or.inl rfl
    · simp at h
  case lshift => split at h <;> simp at h; exact Or.inr h.symm
  case rshift => split at h <;> simp at h; exact Or.inr h.symm

/-- typing alone (no range, no definedness): `eval_const` on a well-typed tree over the folder's
    operators either returns a constant of the tree's type or raises one of the two exceptions of
    an undefined operation — never an assertion failure or `NotImplementedError`. -/
theorem evalConst_embed_total (e : SExpr) (hwf : e.WF) (hf : AllFoldable e) :
    (∃ v, evalConst (embed e) = .ok (tyOf e.ty, v)) ∨ evalConst (embed e) = .error .ZeroDivisionError
      ∨ evalConst (embed e) = .error .ValueError := by
  induction e with
  | const ty c => exact Or.inl ⟨c, rfl⟩
  | cast ty src ih =>
    rcases ih hwf hf with ⟨v, hv⟩ | h | h
    · exact Or.inl ⟨Model.ConstFold.cast v (tyOf ty), by simp [embed, evalConst, hv, SExpr.ty]⟩
    · exact Or.inr (Or.inl (by simp [embed, evalConst, h]))
    · exact Or.inr (Or.inr (by simp [embed, evalConst, h]))
  | binop ty op a b iha ihb =>
    obtain ⟨hta, htb, hwa, hwb⟩ := hwf
    obtain ⟨hop, hfa, hfb⟩ := hf
    obtain ⟨f, hfl⟩ := Option.isSome_iff_exists.mp hop
    rcases iha hwa hfa with ⟨va, hva⟩ | h | h
    · rcases ihb hwb hfb with ⟨vb, hvb⟩ | h' | h'
      · rw [hta] at hva; rw [htb] at hvb
        cases hap : f.apply va vb with
        | ok r => exact Or.inl ⟨correct r (tyOf ty), by simp [embed, evalConst, hva, hvb, hfl, enhance, hap, SExpr.ty]⟩
        | error x =>
          rcases apply_err f va vb x hap with rfl | rfl
          · exact Or.inr (Or.inl (by simp [embed, evalConst, hva, hvb, hfl, enhance, hap]))
          · exact Or.inr (Or.inr (by simp [embed, evalConst, hva, hvb, hfl, enhance, hap]))
      · exact Or.inr (Or.inl (by simp [embed, evalConst, hva, h']))
      · exact Or.inr (Or.inr (by simp [embed, evalConst, hva, h']))
    · exact Or.inr (Or.inl (by simp [embed, evalConst, h]))
    · exact Or.inr (Or.inr (by simp [embed, evalConst, h]))

theorem tryEvalConst_embed_total (e : SExpr) (hwf : e.WF) (hf : AllFoldable e) :
    (∃ v, tryEvalConst (embed e) = .ok (some (tyOf e.ty, v))) ∨ tryEvalConst (embed e) = .ok none := by
  rcases evalConst_embed_total e hwf hf with ⟨v, hv⟩ | h | h
  · exact Or.inl ⟨v, tryEvalConst_of_ok _ _ hv⟩
  · exact Or.inr (by simp [tryEvalConst, h])
  · exact Or.inr (by simp [tryEvalConst, h])

/-! ### run-time semantics of model trees with parameters; soundness of `on_block` -/

def tyOfTyp? (t : Typ) : Option Ty := Ty.all.find? (fun ty => tyOf ty == t)
def opOfSym? (s : String) : Option Op := Op.all.find? (fun o => o.symbol == s)

theorem tyOfTyp?_some (t : Typ) (ty : Ty) (h : tyOfTyp? t = some ty) : tyOf ty = t := by
  have := List.find?_some h; simpa using this

theorem tyOfTyp?_tyOf (ty : Ty) : tyOfTyp? (tyOf ty) = some ty := by cases ty <;> decide

theorem opOfSym?_some (s : String) (o : Op) (h : opOfSym? s = some o) : o.symbol = s := by
  have := List.find?_some h; simpa using this

theorem opOfSym?_symbol (o : Op) : opOfSym? o.symbol = some o := by cases o <;> decide

/-- run-time value of a model tree under `Spec.IRArith`, parameters (`other`) taken from `env`;
    `none` if the tree is ill-typed, a constant/parameter is not a value of its type, or an operation
    is undefined -/
def evalE (env : Nat → Int) : Expr → Option Int
  | .const ty v => (tyOfTyp? ty).bind fun t => if InRange t v then some v else none
  | .other ty id => (tyOfTyp? ty).bind fun t => if InRange t (env id) then some (env id) else none
  | .cast ty src => (tyOfTyp? ty).bind fun t => (evalE env src).map (Spec.IRArith.cast t)
  | .binop ty op a b =>
    (tyOfTyp? ty).bind fun t => (opOfSym? op).bind fun o =>
      if a.ty = ty ∧ b.ty = ty then
        (evalE env a).bind fun va => (evalE env b).bind fun vb => binop t o va vb
      else none

/-- defined values are values of the tree's type -/
theorem evalE_inRange (env : Nat → Int) (e : Expr) (v : Int) (h : evalE env e = some v) :
    ∃ t, tyOfTyp? e.ty = some t ∧ InRange t v := by
  induction e generalizing v with
  | const ty c =>
    simp only [evalE, Option.bind_eq_some_iff] at h
    obtain ⟨t, ht, h⟩ := h
    split at h <;> simp at h
    subst h; exact ⟨t, ht, by assumption⟩
  | other ty id =>
    simp only [evalE, Option.bind_eq_some_iff] at h
    obtain ⟨t, ht, h⟩ := h
    split at h <;> simp at h
    subst h; exact ⟨t, ht, by assumption⟩
  | cast ty src _ =>
    simp only [evalE, Option.bind_eq_some_iff, Option.map_eq_some_iff] at h
    obtain ⟨t, ht, w, _, rfl⟩ := h
    exact ⟨t, ht, cast_inRange t w⟩
  | binop ty op a b iha ihb =>
    simp only [evalE, Option.bind_eq_some_iff] at h
    obtain ⟨t, ht, o, _, h⟩ := h
    split at h
    · simp only [Option.bind_eq_some_iff] at h
      obtain ⟨va, hva, vb, hvb, h⟩ := h
      rename_i htt
      obtain ⟨ta, hta, ra⟩ := iha va hva
      obtain ⟨tb, htb, rb⟩ := ihb vb hvb
      rw [htt.1, ht] at hta; rw [htt.2, ht] at htb
      simp at hta htb; subst hta htb
      exact ⟨t, ht, binop_inRange t o va vb v ra rb h⟩
    · simp at h

/-- **`eval_const` is sound on model trees**: a tree that `is_const` accepts and that has run-time
    value `v` evaluates to the constant `v` of its type. -/
theorem evalConst_sound (env : Nat → Int) (e : Expr) (v : Int) (hc : isConst e = true)
    (h : evalE env e = some v) : evalConst e = .ok (e.ty, v) := by
  induction e generalizing v with
  | const ty c =>
    simp only [evalE, Option.bind_eq_some_iff] at h
    obtain ⟨t, _, h⟩ := h
    split at h <;> simp at h
    subst h; rfl
  | other ty id => simp [isConst] at hc
  | cast ty src ih =>
    simp only [isConst] at hc
    simp only [evalE, Option.bind_eq_some_iff, Option.map_eq_some_iff] at h
    obtain ⟨t, ht, w, hw, rfl⟩ := h
    have := tyOfTyp?_some _ _ ht
    subst this
    simp [evalConst, ih w hc hw, Model.ConstFold.cast, correct_eq_wrap, Spec.IRArith.cast, Expr.ty]
  | binop ty op a b iha ihb =>
    simp only [isConst, Bool.and_eq_true] at hc
    obtain ⟨⟨hl, hca⟩, hcb⟩ := hc
    simp only [evalE, Option.bind_eq_some_iff] at h
    obtain ⟨t, ht, o, ho, h⟩ := h
    split at h
    · rename_i htt
      simp only [Option.bind_eq_some_iff] at h
      obtain ⟨va, hva, vb, hvb, h⟩ := h
      have e1 := tyOfTyp?_some _ _ ht
      have e2 := opOfSym?_some _ _ ho
      subst e1 e2
      obtain ⟨f, hf⟩ := Option.isSome_iff_exists.mp hl
      obtain ⟨ta, hta, ra⟩ := evalE_inRange env a va hva
      obtain ⟨tb, htb, rb⟩ := evalE_inRange env b vb hvb
      rw [htt.1, tyOfTyp?_tyOf] at hta; rw [htt.2, tyOfTyp?_tyOf] at htb
      simp at hta htb; subst hta htb
      have hv := enhance_agrees t o f va vb v hf ra rb h
      have ea := iha va hca hva
      have eb := ihb vb hcb hvb
      rw [htt.1] at ea; rw [htt.2] at eb
      simp [evalConst, ea, eb, hf, hv]
      rfl
    · simp at h

theorem onInstr_replace_inv (ins : Expr) (t : Typ) (r : Int) (h : onInstr ins = .ok (.replace t r)) :
    isConst ins = true ∧ evalConst ins = .ok (t, r) := by
  simp only [onInstr] at h
  split at h
  · simp at h
  · split at h
    · rename_i hc
      split at h
      · simp at h
      · simp at h
      · rename_i t' v' heq
        simp at h; obtain ⟨h1, h2⟩ := h; subst h1 h2
        exact ⟨hc, evalConst_of_tryEvalConst _ _ heq⟩
    · repeat' split at h
      all_goals try (simp at h; done)

theorem onInstr_rechain_inv (ins y' : Expr) (t : Typ) (r : Int) (h : onInstr ins = .ok (.rechain y' t r)) :
    ∃ op t1 c1 c2 va vb, ins = .binop t op (.binop t1 op y' c1) c2 ∧ (op = "+" ∨ op = "-") ∧
      isConst c1 = true ∧ isConst c2 = true ∧ evalConst c1 = .ok (t, va) ∧ evalConst c2 = .ok (t, vb) ∧
      t = y'.ty ∧ r = chainConst t va vb := by
  simp only [onInstr] at h
  split at h
  · simp at h
  · split at h
    · repeat' split at h
      all_goals try (simp at h; done)
    · repeat' split at h
      all_goals try (simp at h; done)
      rename_i _ _ ty op t1 op1 y c1 c2 _ _ hcond _ _ _ _ ta va tb vb h1 h2 hab hta hty
      simp at h hab hta hty
      obtain ⟨rfl, rfl, rfl⟩ := h
      subst hab
      subst hta
      have e1 := evalConst_of_tryEvalConst _ _ h1
      have e2 := evalConst_of_tryEvalConst _ _ h2
      simp only [Bool.or_eq_true, Bool.and_eq_true, beq_iff_eq] at hcond
      rcases hcond with ⟨⟨⟨rfl, k1⟩, rfl⟩, k2⟩ | ⟨⟨⟨rfl, k1⟩, rfl⟩, k2⟩
      · exact ⟨"+", t1, c1, c2, va, vb, rfl, Or.inl rfl, k1, k2, e1, e2, hty, rfl⟩
      · exact ⟨"-", t1, c1, c2, va, vb, rfl, Or.inr rfl, k1, k2, e1, e2, hty, rfl⟩

theorem ty_binop (ty : Typ) (op : String) (a b : Expr) : (Expr.binop ty op a b).ty = ty := rfl
theorem ty_const (ty : Typ) (v : Int) : (Expr.const ty v).ty = ty := rfl
theorem ty_cast (ty : Typ) (s : Expr) : (Expr.cast ty s).ty = ty := rfl

/-- **One step of `on_block` preserves the run-time value**, for every shape the model's matcher
    accepts and every value of the parameters: if the instruction (with its operand tree) has
    run-time value `v`, so has the instruction that `on_block` leaves behind. -/
theorem onInstr_sound (env : Nat → Int) (ins : Expr) (act : Action) (v : Int)
    (ho : onInstr ins = .ok act) (h : evalE env ins = some v) :
    evalE env (applyAction ins act) = some v := by
  cases act with
  | skip => simpa [applyAction] using h
  | keep => simpa [applyAction] using h
  | replace t r =>
    obtain ⟨hc, he⟩ := onInstr_replace_inv ins t r ho
    have hs := evalConst_sound env ins v hc h
    rw [he] at hs
    simp at hs; obtain ⟨rfl, rfl⟩ := hs
    obtain ⟨t', ht', hr⟩ := evalE_inRange env ins r h
    simp [applyAction, evalE, ht', hr]
  | rechain y t r =>
    obtain ⟨op, t1, c1, c2, va, vb, rfl, hop, k1, k2, e1, e2, hty, rfl⟩ := onInstr_rechain_inv ins y t r ho
    simp only [evalE, Option.bind_eq_some_iff] at h
    obtain ⟨tt, htt, o, ho', h⟩ := h
    split at h
    · rename_i hty2
      simp only [Option.bind_eq_some_iff, ty_binop] at h hty2
      obtain ⟨w, hw, v2, hv2, h⟩ := h
      obtain ⟨rfl, hc2t⟩ := hty2
      -- inner instruction
      obtain ⟨tt', htt', o', ho'', hw⟩ := hw
      rw [htt] at htt'; rw [ho'] at ho''
      simp at htt' ho''; subst htt' ho''
      split at hw
      · rename_i hty1
        simp only [Option.bind_eq_some_iff] at hw
        obtain ⟨yv, hyv, v1, hv1, hw⟩ := hw
        have s1 := evalConst_sound env c1 v1 k1 hv1
        have s2 := evalConst_sound env c2 v2 k2 hv2
        rw [e1] at s1; rw [e2] at s2
        simp at s1 s2
        obtain ⟨_, rfl⟩ := s1; obtain ⟨_, rfl⟩ := s2
        have ett := tyOfTyp?_some _ _ htt
        subst ett
        have hr : InRange tt (chainConst (tyOf tt) va vb) := by
          rw [chainConst, Model.ConstFold.cast, correct_eq_wrap]; exact wrap_inRange tt _
        simp only [applyAction, evalE, htt, ho', Option.bind_some, ty_const, ← hty, and_self, if_true, hyv, hr]
        rw [chainConst, Model.ConstFold.cast, correct_eq_wrap]
        have eo := opOfSym?_some _ _ ho'
        rcases hop with rfl | rfl
        · have : o = .add := by cases o <;> simp [Op.symbol] at eo <;> rfl
          subst this
          simp only [binop, Option.some.injEq] at hw h ⊢
          rw [← h, ← hw, wrap_add_wrap_left, wrap_add_wrap_right, Int.add_assoc]
        · have : o = .sub := by cases o <;> simp [Op.symbol] at eo <;> rfl
          subst this
          simp only [binop, Option.some.injEq] at hw h ⊢
          rw [← h, ← hw, wrap_sub_wrap_left, wrap_sub_wrap_right]; congr 1; omega
      · simp at hw
    · simp at h

theorem applyAction_ty (env : Nat → Int) (ins : Expr) (act : Action) (v : Int)
    (ho : onInstr ins = .ok act) (h : evalE env ins = some v) : (applyAction ins act).ty = ins.ty := by
  cases act with
  | skip => rfl
  | keep => rfl
  | replace t r =>
    obtain ⟨hc, he⟩ := onInstr_replace_inv ins t r ho
    have hs := evalConst_sound env ins v hc h
    rw [he] at hs; simp at hs
    simp [applyAction, ty_const, hs.1]
  | rechain y t r =>
    obtain ⟨op, t1, c1, c2, va, vb, rfl, _⟩ := onInstr_rechain_inv ins y t r ho
    rfl

/-- **The pass preserves the run-time value of every function (tree)**: whatever `on_block` does to
    the instructions below the returned value — folds, chain rewrites, nested or repeated — if the
    function returned `v` for given parameter values before the pass, it returns `v` after it. -/
theorem passTree_sound (env : Nat → Int) (e e' : Expr) (v : Int)
    (hp : passTree e = .ok e') (h : evalE env e = some v) : evalE env e' = some v ∧ e'.ty = e.ty := by
  induction e generalizing e' v with
  | const ty c => simp [passTree] at hp; subst hp; exact ⟨h, rfl⟩
  | other ty id => simp [passTree] at hp; subst hp; exact ⟨h, rfl⟩
  | cast ty src ih =>
    simp only [passTree] at hp
    split at hp
    · simp at hp
    · rename_i src' hs
      split at hp
      · simp at hp
      · rename_i act ha
        simp at hp; subst hp
        simp only [evalE, Option.bind_eq_some_iff, Option.map_eq_some_iff] at h
        obtain ⟨t, ht, w, hw, rfl⟩ := h
        obtain ⟨i1, _⟩ := ih src' w hs hw
        have hv : evalE env (.cast ty src') = some (Spec.IRArith.cast t w) := by
          simp [evalE, ht, i1]
        exact ⟨onInstr_sound env _ act _ ha hv, applyAction_ty env _ act _ ha hv⟩
  | binop ty op a b iha ihb =>
    simp only [passTree] at hp
    split at hp
    · simp at hp
    · rename_i a' hsa
      split at hp
      · simp at hp
      · rename_i b' hsb
        split at hp
        · simp at hp
        · rename_i act hact
          simp at hp; subst hp
          have h0 := h
          simp only [evalE, Option.bind_eq_some_iff] at h
          obtain ⟨t, ht, o, ho, h⟩ := h
          split at h
          · rename_i htt
            simp only [Option.bind_eq_some_iff] at h
            obtain ⟨va, hva, vb, hvb, h⟩ := h
            obtain ⟨a1, a2⟩ := iha a' va hsa hva
            obtain ⟨b1, b2⟩ := ihb b' vb hsb hvb
            have hv : evalE env (.binop ty op a' b') = some v := by
              simp [evalE, ht, ho, a2, b2, htt.1, htt.2, a1, b1, h]
            exact ⟨onInstr_sound env _ act _ hact hv, applyAction_ty env _ act _ hact hv⟩
          · simp at h

end Proofs.ConstFold
