import PpciVerif.Model.AsmParse
import PpciVerif.Gen.Asm_rvf
/-! Kernel checks on the regenerated C09 table of the `rvf` assembler (one module per configuration so that
    a change of one ISA rebuilds one check). -/
namespace Proofs.AsmTab.rvf
open Model.AsmSyn Model.AsmParse

theorem wellSpaced : configWellSpaced Gen.Asm_rvf.config = true := by decide +kernel

theorem ranked : rankedB Gen.Asm_rvf.grammar Gen.Asm_rvf.ranks = true := by decide +kernel

end Proofs.AsmTab.rvf
