import PpciVerif.Model.AsmParse
import PpciVerif.Gen.Asm_or1k
/-! Kernel checks on the regenerated C09 table of the `or1k` assembler (one module per configuration so that
    a change of one ISA rebuilds one check). -/
namespace Proofs.AsmTab.or1k
open Model.AsmSyn Model.AsmParse

theorem wellSpaced : configWellSpaced Gen.Asm_or1k.config = true := by decide +kernel

theorem ranked : rankedB Gen.Asm_or1k.grammar Gen.Asm_or1k.ranks = true := by decide +kernel

end Proofs.AsmTab.or1k
