import PpciVerif.Model.AsmParse
import PpciVerif.Gen.Asm_m68k
/-! Kernel checks on the regenerated C09 table of the `m68k` assembler (one module per configuration so that
    a change of one ISA rebuilds one check). -/
namespace Proofs.AsmTab.m68k
open Model.AsmSyn Model.AsmParse

theorem wellSpaced : configWellSpaced Gen.Asm_m68k.config = true := by decide +kernel

theorem ranked : rankedB Gen.Asm_m68k.grammar Gen.Asm_m68k.ranks = true := by decide +kernel

end Proofs.AsmTab.m68k
