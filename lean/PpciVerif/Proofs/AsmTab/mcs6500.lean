import PpciVerif.Model.AsmParse
import PpciVerif.Gen.Asm_mcs6500
/-! Kernel checks on the regenerated C09 table of the `mcs6500` assembler (one module per configuration so that
    a change of one ISA rebuilds one check). -/
namespace Proofs.AsmTab.mcs6500
open Model.AsmSyn Model.AsmParse

theorem wellSpaced : configWellSpaced Gen.Asm_mcs6500.config = true := by decide +kernel

theorem ranked : rankedB Gen.Asm_mcs6500.grammar Gen.Asm_mcs6500.ranks = true := by decide +kernel

end Proofs.AsmTab.mcs6500
