import PpciVerif.Model.AsmParse
import PpciVerif.Gen.Asm_riscv
/-! Kernel checks on the regenerated C09 table of the `riscv` assembler (one module per configuration so that
    a change of one ISA rebuilds one check). -/
namespace Proofs.AsmTab.riscv
open Model.AsmSyn Model.AsmParse

theorem wellSpaced : configWellSpaced Gen.Asm_riscv.config = true := by decide +kernel

theorem ranked : rankedB Gen.Asm_riscv.grammar Gen.Asm_riscv.ranks = true := by decide +kernel

end Proofs.AsmTab.riscv
