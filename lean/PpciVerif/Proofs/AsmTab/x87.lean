import PpciVerif.Model.AsmParse
import PpciVerif.Gen.Asm_x87
/-! Kernel checks on the regenerated C09 table of the `x87` assembler (one module per configuration so that
    a change of one ISA rebuilds one check). -/
namespace Proofs.AsmTab.x87
open Model.AsmSyn Model.AsmParse

theorem wellSpaced : configWellSpaced Gen.Asm_x87.config = true := by decide +kernel

theorem ranked : rankedB Gen.Asm_x87.grammar Gen.Asm_x87.ranks = true := by decide +kernel

end Proofs.AsmTab.x87
