import PpciVerif.Model.AsmParse
import PpciVerif.Gen.Asm_msp430
/-! Kernel checks on the regenerated C09 table of the `msp430` assembler (one module per configuration so that
    a change of one ISA rebuilds one check). -/
namespace Proofs.AsmTab.msp430
open Model.AsmSyn Model.AsmParse

theorem wellSpaced : configWellSpaced Gen.Asm_msp430.config = true := by decide +kernel

theorem ranked : rankedB Gen.Asm_msp430.grammar Gen.Asm_msp430.ranks = true := by decide +kernel

end Proofs.AsmTab.msp430
