import PpciVerif.Model.AsmParse
import PpciVerif.Gen.Asm_mips
/-! Kernel checks on the regenerated C09 table of the `mips` assembler (one module per configuration so that
    a change of one ISA rebuilds one check). -/
namespace Proofs.AsmTab.mips
open Model.AsmSyn Model.AsmParse

theorem wellSpaced : configWellSpaced Gen.Asm_mips.config = true := by decide +kernel

theorem ranked : rankedB Gen.Asm_mips.grammar Gen.Asm_mips.ranks = true := by decide +kernel

end Proofs.AsmTab.mips
