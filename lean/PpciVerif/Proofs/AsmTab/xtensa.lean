import PpciVerif.Model.AsmParse
import PpciVerif.Gen.Asm_xtensa
/-! Kernel checks on the regenerated C09 table of the `xtensa` assembler (one module per configuration so that
    a change of one ISA rebuilds one check). -/
namespace Proofs.AsmTab.xtensa
open Model.AsmSyn Model.AsmParse

theorem wellSpaced : configWellSpaced Gen.Asm_xtensa.config = true := by decide +kernel

theorem ranked : rankedB Gen.Asm_xtensa.grammar Gen.Asm_xtensa.ranks = true := by decide +kernel

end Proofs.AsmTab.xtensa
