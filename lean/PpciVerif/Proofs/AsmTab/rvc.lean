import PpciVerif.Model.AsmParse
import PpciVerif.Gen.Asm_rvc
/-! Kernel checks on the regenerated C09 table of the `rvc` assembler (one module per configuration so that
    a change of one ISA rebuilds one check). -/
namespace Proofs.AsmTab.rvc
open Model.AsmSyn Model.AsmParse

theorem wellSpaced : configWellSpaced Gen.Asm_rvc.config = true := by decide +kernel

theorem ranked : rankedB Gen.Asm_rvc.grammar Gen.Asm_rvc.ranks = true := by decide +kernel

end Proofs.AsmTab.rvc
