import PpciVerif.Model.AsmParse
import PpciVerif.Gen.Asm_arm
/-! Kernel checks on the regenerated C09 table of the `arm` assembler (one module per configuration so that
    a change of one ISA rebuilds one check). -/
namespace Proofs.AsmTab.arm
open Model.AsmSyn Model.AsmParse

theorem wellSpaced : configWellSpaced Gen.Asm_arm.config = true := by decide +kernel

/-- the hand-written register-list rules are left recursive: no ranking exists -/
theorem not_ranked : rankedB Gen.Asm_arm.grammar Gen.Asm_arm.ranks = false := by decide +kernel

end Proofs.AsmTab.arm
