import PpciVerif.Model.AsmParse
import PpciVerif.Gen.Asm_microblaze
/-! Kernel checks on the regenerated C09 table of the `microblaze` assembler (one module per configuration so that
    a change of one ISA rebuilds one check). -/
namespace Proofs.AsmTab.microblaze
open Model.AsmSyn Model.AsmParse

theorem wellSpaced : configWellSpaced Gen.Asm_microblaze.config = true := by decide +kernel

theorem ranked : rankedB Gen.Asm_microblaze.grammar Gen.Asm_microblaze.ranks = true := by decide +kernel

end Proofs.AsmTab.microblaze
