import PpciVerif.Model.AsmParse
import PpciVerif.Gen.Asm_rvfx
/-! Kernel checks on the regenerated C09 table of the `rvfx` assembler (one module per configuration so that
    a change of one ISA rebuilds one check). -/
namespace Proofs.AsmTab.rvfx
open Model.AsmSyn Model.AsmParse

theorem wellSpaced : configWellSpaced Gen.Asm_rvfx.config = true := by decide +kernel

theorem ranked : rankedB Gen.Asm_rvfx.grammar Gen.Asm_rvfx.ranks = true := by decide +kernel

end Proofs.AsmTab.rvfx
