import PpciVerif.Model.AsmParse
import PpciVerif.Gen.Asm_avr
/-! Kernel checks on the regenerated C09 table of the `avr` assembler (one module per configuration so that
    a change of one ISA rebuilds one check). -/
namespace Proofs.AsmTab.avr
open Model.AsmSyn Model.AsmParse

theorem wellSpaced : configWellSpaced Gen.Asm_avr.config = true := by decide +kernel

theorem ranked : rankedB Gen.Asm_avr.grammar Gen.Asm_avr.ranks = true := by decide +kernel

end Proofs.AsmTab.avr
