import PpciVerif.Model.AsmParse
import PpciVerif.Gen.Asm_stm8
/-! Kernel checks on the regenerated C09 table of the `stm8` assembler (one module per configuration so that
    a change of one ISA rebuilds one check). -/
namespace Proofs.AsmTab.stm8
open Model.AsmSyn Model.AsmParse

theorem wellSpaced : configWellSpaced Gen.Asm_stm8.config = true := by decide +kernel

theorem ranked : rankedB Gen.Asm_stm8.grammar Gen.Asm_stm8.ranks = true := by decide +kernel

end Proofs.AsmTab.stm8
