import PpciVerif.Model.AsmParse
import PpciVerif.Gen.Asm_thumb
/-! Kernel checks on the regenerated C09 table of the `thumb` assembler (one module per configuration so that
    a change of one ISA rebuilds one check). -/
namespace Proofs.AsmTab.thumb
open Model.AsmSyn Model.AsmParse

theorem wellSpaced : configWellSpaced Gen.Asm_thumb.config = true := by decide +kernel

/-- the hand-written register-list rules are left recursive: no ranking exists -/
theorem not_ranked : rankedB Gen.Asm_thumb.grammar Gen.Asm_thumb.ranks = false := by decide +kernel

end Proofs.AsmTab.thumb
