import PpciVerif.Spec.Graph
/-!
Proofs about `Spec.Graph` (core Lean only).

* path algebra (`Path.append`, splitting at a vertex, simple paths, pigeonhole)
* `reachSet_iff`, `reachB_iff_path`, `reachAvoidB_iff`, `domB_iff`, `reachPlusB_iff`
* order facts of dominance on reachable nodes: reflexive, transitive,
  antisymmetric, the dominators of a node form a chain, edge lemma
* immediate dominators: uniqueness, existence, `idom_eq_some_iff`, `checkIdom_sound`
* reversed graph: `rev_edge`, `path_rev`, `pdom_iff_paths`
-/
namespace Proofs.Graph
open Spec.Graph Spec.Graph.Digraph

/-! ### bit masks -/

theorem testBit_bit (v i : Nat) : (bit v).testBit i = decide (v = i) := by
  unfold bit
  rw [Nat.one_shiftLeft, Nat.testBit_two_pow]

theorem testBit_orList {α : Type} (f : α → Nat) (l : List α) (a i : Nat) :
    (orList f a l).testBit i = (a.testBit i || l.any (fun x => (f x).testBit i)) := by
  unfold orList
  induction l generalizing a with
  | nil => simp
  | cons x xs ih => simp [ih, Nat.testBit_or, Bool.or_assoc]

theorem testBit_succMask (g : Digraph) (a : Option Nat) (u w : Nat) :
    (succMask g a u).testBit w = decide (w ∈ g.succ u ∧ w < g.n ∧ some w ≠ a) := by
  unfold succMask
  rw [testBit_orList]
  simp only [Nat.zero_testBit, Bool.false_or]
  rw [Bool.eq_iff_iff]
  simp only [List.any_eq_true, decide_eq_true_eq]
  constructor
  · rintro ⟨x, hx, h⟩
    split at h
    · rename_i hc
      rw [testBit_bit] at h
      have : x = w := by simpa using h
      subst this; exact ⟨hx, hc⟩
    · simp at h
  · rintro ⟨h1, h2⟩
    exact ⟨w, h1, by rw [if_pos h2, testBit_bit]; simp⟩

theorem testBit_expand (g : Digraph) (a : Option Nat) (S w : Nat) :
    (expand g a S).testBit w =
      (S.testBit w || decide (∃ u, u < g.n ∧ S.testBit u = true ∧ w ∈ g.succ u ∧ w < g.n ∧ some w ≠ a)) := by
  unfold expand
  rw [testBit_orList]
  congr 1
  rw [Bool.eq_iff_iff]
  simp only [List.any_eq_true, List.mem_range, decide_eq_true_eq]
  constructor
  · rintro ⟨u, hu, h⟩
    split at h
    · rename_i hS
      rw [testBit_succMask] at h
      exact ⟨u, hu, hS, by simpa using h⟩
    · simp at h
  · rintro ⟨u, hu, hS, h⟩
    exact ⟨u, hu, by rw [if_pos hS, testBit_succMask]; simpa using h⟩

/-! ### paths -/

theorem _root_.Spec.Graph.Path.lt_left {g : Digraph} {u v : Nat} {l : List Nat} (p : Path g u l v) : u < g.n := by
  cases p with
  | nil h => exact h
  | cons e _ => exact e.1

theorem _root_.Spec.Graph.Path.lt_right {g : Digraph} {u v : Nat} {l : List Nat} (p : Path g u l v) : v < g.n := by
  induction p with
  | nil h => exact h
  | cons _ _ ih => exact ih

theorem _root_.Spec.Graph.Path.mem_lt {g : Digraph} {u v : Nat} {l : List Nat} (p : Path g u l v) : ∀ x ∈ u :: l, x < g.n := by
  induction p with
  | nil h => intro x hx; simp at hx; subst hx; exact h
  | cons e _ ih =>
    intro x hx
    rcases List.mem_cons.1 hx with h | h
    · subst h; exact e.1
    · exact ih x h

theorem _root_.Spec.Graph.Path.last_mem {g : Digraph} {u v : Nat} {l : List Nat} (p : Path g u l v) : v ∈ u :: l := by
  induction p with
  | nil _ => simp
  | cons _ _ ih => exact List.mem_cons_of_mem _ ih

theorem _root_.Spec.Graph.Path.append {g : Digraph} {u w v : Nat} {l1 l2 : List Nat}
    (p : Path g u l1 w) (q : Path g w l2 v) : Path g u (l1 ++ l2) v := by
  induction p with
  | nil _ => simpa using q
  | cons e _ ih => exact Path.cons e (ih q)

theorem _root_.Spec.Graph.Path.snoc {g : Digraph} {u w v : Nat} {l : List Nat}
    (p : Path g u l w) (e : g.Edge w v) : Path g u (l ++ [v]) v :=
  p.append (Path.cons e (Path.nil e.2.1))

/-- split a path at (the first occurrence of) a vertex on it -/
theorem _root_.Spec.Graph.Path.split {g : Digraph} {u v x : Nat} {l : List Nat} (p : Path g u l v) (hx : x ∈ u :: l) :
    ∃ l1 l2, l = l1 ++ l2 ∧ Path g u l1 x ∧ Path g x l2 v := by
  induction p with
  | nil h =>
    simp at hx; subst hx
    exact ⟨[], [], rfl, Path.nil h, Path.nil h⟩
  | @cons u w v l e p ih =>
    by_cases hxu : x = u
    · subst hxu
      exact ⟨[], w :: l, rfl, Path.nil e.1, Path.cons e p⟩
    · have : x ∈ w :: l := by
        rcases List.mem_cons.1 hx with h | h
        · exact absurd h hxu
        · exact h
      obtain ⟨l1, l2, hl, p1, p2⟩ := ih this
      exact ⟨w :: l1, l2, by simp [hl], Path.cons e p1, p2⟩

/-- split a path at the *last* occurrence of a vertex on it -/
theorem _root_.Spec.Graph.Path.split_last {g : Digraph} {u v x : Nat} {l : List Nat} (p : Path g u l v) (hx : x ∈ u :: l) :
    ∃ l1 l2, l = l1 ++ l2 ∧ Path g u l1 x ∧ Path g x l2 v ∧ x ∉ l2 := by
  induction p with
  | nil h =>
    simp at hx; subst hx
    exact ⟨[], [], rfl, Path.nil h, Path.nil h, by simp⟩
  | @cons u w v l e p ih =>
    by_cases hin : x ∈ w :: l
    · obtain ⟨l1, l2, hl, p1, p2, hn⟩ := ih hin
      exact ⟨w :: l1, l2, by simp [hl], Path.cons e p1, p2, hn⟩
    · have hxu : x = u := by
        rcases List.mem_cons.1 hx with h | h
        · exact h
        · exact absurd h hin
      subst hxu
      exact ⟨[], w :: l, rfl, Path.nil e.1, Path.cons e p, hin⟩

/-- every path contains a simple path (no repeated vertex) between the same ends,
    using only vertices of the original one -/
theorem _root_.Spec.Graph.Path.simple {g : Digraph} {u v : Nat} {l : List Nat} (p : Path g u l v) :
    ∃ l', Path g u l' v ∧ (u :: l').Nodup ∧ ∀ x ∈ l', x ∈ l := by
  induction p with
  | nil h => exact ⟨[], Path.nil h, by simp, by simp⟩
  | @cons u w v l e p ih =>
    obtain ⟨l', p', nd, sub⟩ := ih
    by_cases hu : u ∈ w :: l'
    · obtain ⟨l1, l2, hl, _, p2, hn⟩ := p'.split_last hu
      refine ⟨l2, p2, ?_, ?_⟩
      · have : (l1 ++ l2).Nodup := by rw [← hl]; exact (List.nodup_cons.1 nd).2
        exact List.nodup_cons.2 ⟨hn, (List.nodup_append.1 this).2.1⟩
      · intro x hx
        have : x ∈ l' := by rw [hl]; exact List.mem_append_right _ hx
        exact List.mem_cons_of_mem _ (sub x this)
    · refine ⟨w :: l', Path.cons e p', List.nodup_cons.2 ⟨hu, nd⟩, ?_⟩
      intro x hx
      rcases List.mem_cons.1 hx with h | h
      · subst h; simp
      · exact List.mem_cons_of_mem _ (sub x h)

/-- pigeonhole: a duplicate-free list of numbers `< n` has at most `n` entries -/
theorem nodup_length_le (n : Nat) : ∀ l : List Nat, l.Nodup → (∀ x ∈ l, x < n) → l.length ≤ n := by
  induction n with
  | zero =>
    intro l _ h
    cases l with
    | nil => simp
    | cons a _ => exact absurd (h a (by simp)) (by omega)
  | succ n ih =>
    intro l nd h
    have nd' : (l.erase n).Nodup := nd.erase n
    have h' : ∀ x ∈ l.erase n, x < n := by
      intro x hx
      have hxl : x ∈ l := List.mem_of_mem_erase hx
      have : x ≠ n := by
        intro hxn; subst hxn
        exact (List.Nodup.not_mem_erase nd) hx
      have := h x hxl
      omega
    have := ih _ nd' h'
    have hl : (l.erase n).length ≥ l.length - 1 := by
      rw [List.length_erase]; split <;> omega
    omega

/-! ### reachability: the Boolean closure = existence of a path -/

/-- all vertices of the path are allowed (differ from the avoided one) -/
def Avoids (a : Option Nat) (u : Nat) (l : List Nat) : Prop := ∀ x ∈ u :: l, some x ≠ a

theorem expand_mono (g : Digraph) (a : Option Nat) (S w : Nat) (h : S.testBit w = true) :
    (expand g a S).testBit w = true := by
  rw [testBit_expand, h]; rfl

theorem closure_mono (g : Digraph) (a : Option Nat) (k : Nat) : ∀ (S w : Nat), S.testBit w = true →
    (closure g a k S).testBit w = true := by
  induction k with
  | zero => intro S w h; simpa [closure] using h
  | succ k ih =>
    intro S w h
    simp only [closure]
    split
    · exact h
    · exact ih _ _ (expand_mono g a S w h)

/-- a set that `expand` does not enlarge contains everything reachable from its members -/
theorem closed_contains (g : Digraph) (a : Option Nat) (S : Nat) (hc : expand g a S = S)
    {u v : Nat} {l : List Nat} (p : Path g u l v) (hu : S.testBit u = true) (hav : Avoids a u l) :
    S.testBit v = true := by
  induction p with
  | nil _ => exact hu
  | @cons u w v l e p ih =>
    apply ih
    · rw [← hc, testBit_expand]
      have hw : some w ≠ a := hav w (by simp)
      simp only [Bool.or_eq_true, decide_eq_true_eq]
      exact Or.inr ⟨u, e.1, hu, e.2.2, e.2.1, hw⟩
    · intro x hx; exact hav x (List.mem_cons_of_mem _ hx)

theorem closure_complete (g : Digraph) (a : Option Nat) (k : Nat) : ∀ (S : Nat) {u v : Nat} {l : List Nat},
    Path g u l v → S.testBit u = true → Avoids a u l → l.length ≤ k → (closure g a k S).testBit v = true := by
  induction k with
  | zero =>
    intro S u v l p hu _ hl
    have : l = [] := List.length_eq_zero_iff.1 (by omega)
    subst this
    cases p
    simpa [closure] using hu
  | succ k ih =>
    intro S u v l p hu hav hl
    simp only [closure]
    split
    · rename_i hc
      exact closed_contains g a S hc p hu hav
    · cases p with
      | nil _ => exact closure_mono g a k _ _ (expand_mono g a S _ hu)
      | @cons _ w _ l e p =>
        apply ih _ p
        · rw [testBit_expand]
          have hw : some w ≠ a := hav w (by simp)
          simp only [Bool.or_eq_true, decide_eq_true_eq]
          exact Or.inr ⟨u, e.1, hu, e.2.2, e.2.1, hw⟩
        · intro x hx; exact hav x (List.mem_cons_of_mem _ hx)
        · simpa using hl

theorem closure_sound (g : Digraph) (a : Option Nat) (P : Nat → Prop)
    (hstep : ∀ u w, P u → g.Edge u w → some w ≠ a → P w) (k : Nat) :
    ∀ S, (∀ w, S.testBit w = true → P w) → ∀ w, (closure g a k S).testBit w = true → P w := by
  induction k with
  | zero => intro S h w hw; exact h w (by simpa [closure] using hw)
  | succ k ih =>
    intro S h w hw
    simp only [closure] at hw
    split at hw
    · exact h w hw
    · refine ih _ ?_ w hw
      intro x hx
      rw [testBit_expand] at hx
      simp only [Bool.or_eq_true, decide_eq_true_eq] at hx
      rcases hx with hx | ⟨u, hu, hSu, hmem, hxn, hxa⟩
      · exact h x hx
      · exact hstep u x (h u hSu) ⟨hu, hxn, hmem⟩ hxa

/-- **`reachSet` is path reachability** (avoiding the optional vertex) -/
theorem reachSet_iff (g : Digraph) (a : Option Nat) (u v : Nat) :
    (reachSet g a u).testBit v = true ↔ ∃ l, Path g u l v ∧ Avoids a u l := by
  unfold reachSet
  constructor
  · intro h
    split at h
    · rename_i hu
      refine closure_sound g a (fun w => ∃ l, Path g u l w ∧ Avoids a u l) ?_ g.n (bit u) ?_ v h
      · rintro x w ⟨l, p, hav⟩ e hw
        refine ⟨l ++ [w], p.snoc e, ?_⟩
        intro y hy
        rw [← List.cons_append, List.mem_append] at hy
        rcases hy with hy | hy
        · exact hav y hy
        · simp at hy; subst hy; exact hw
      · intro w hw
        rw [testBit_bit] at hw
        have : u = w := by simpa using hw
        subst this
        exact ⟨[], Path.nil hu.1, by intro x hx; simp at hx; subst hx; exact hu.2⟩
    · simp at h
  · rintro ⟨l, p, hav⟩
    have hu : u < g.n ∧ some u ≠ a := ⟨p.lt_left, hav u (by simp)⟩
    rw [if_pos hu]
    obtain ⟨l', p', nd, sub⟩ := p.simple
    have hav' : Avoids a u l' := by
      intro x hx
      rcases List.mem_cons.1 hx with h | h
      · subst h; exact hu.2
      · exact hav x (List.mem_cons_of_mem _ (sub x h))
    have hlen : (u :: l').length ≤ g.n := nodup_length_le g.n _ nd p'.mem_lt
    refine closure_complete g a g.n (bit u) p' ?_ hav' (by simp at hlen; omega)
    rw [testBit_bit]; simp

theorem avoids_none (u : Nat) (l : List Nat) : Avoids none u l := by intro x _; simp

theorem avoids_some (d u : Nat) (l : List Nat) : Avoids (some d) u l ↔ d ∉ u :: l := by
  unfold Avoids
  constructor
  · intro h hd; exact h d hd rfl
  · intro h x hx hxd
    have : x = d := by simpa using hxd
    subst this; exact h hx

/-- **`reachB` decides path reachability** -/
theorem reachB_iff_path (g : Digraph) (u v : Nat) : reachB g u v = true ↔ Reach g u v := by
  unfold reachB Reach
  rw [reachSet_iff]
  exact ⟨fun ⟨l, p, _⟩ => ⟨l, p⟩, fun ⟨l, p⟩ => ⟨l, p, avoids_none u l⟩⟩

theorem reachAvoidB_iff (g : Digraph) (d u v : Nat) : reachAvoidB g d u v = true ↔ ReachAvoid g d u v := by
  unfold reachAvoidB ReachAvoid
  rw [reachSet_iff]
  exact ⟨fun ⟨l, p, h⟩ => ⟨l, p, (avoids_some d u l).1 h⟩, fun ⟨l, p, h⟩ => ⟨l, p, (avoids_some d u l).2 h⟩⟩

/-- **`domB` decides dominance**: `v` is unreachable in `g ∖ {d}` iff every path
    from the entry to `v` passes through `d`. -/
theorem domB_iff (g : Digraph) (e d v : Nat) : domB g e d v = true ↔ Dom g e d v := by
  unfold domB Dom
  rw [Bool.not_eq_true', ← Bool.not_eq_true, reachAvoidB_iff]
  unfold ReachAvoid
  constructor
  · intro h l p
    apply Classical.byContradiction
    intro hd
    exact h ⟨l, p, hd⟩
  · rintro h ⟨l, p, hd⟩
    exact hd (h l p)

theorem sdomB_iff (g : Digraph) (e d v : Nat) : sdomB g e d v = true ↔ SDom g e d v := by
  unfold sdomB SDom
  simp [domB_iff]

theorem edgeB_iff (g : Digraph) (u v : Nat) : g.edgeB u v = true ↔ g.Edge u v := by
  unfold Digraph.edgeB; simp

theorem reachPlusB_iff (g : Digraph) (u v : Nat) : reachPlusB g u v = true ↔ ReachPlus g u v := by
  unfold reachPlusB ReachPlus
  simp only [List.any_eq_true, List.mem_range, Bool.and_eq_true, edgeB_iff, reachB_iff_path]
  constructor
  · rintro ⟨w, _, e, r⟩; exact ⟨w, e, r⟩
  · rintro ⟨w, e, r⟩; exact ⟨w, e.2.1, e, r⟩

theorem reachPlusSet_iff (g : Digraph) (u v : Nat) : (reachPlusSet g u).testBit v = true ↔ ReachPlus g u v := by
  unfold reachPlusSet ReachPlus
  rw [testBit_orList]
  simp only [Nat.zero_testBit, Bool.false_or, List.any_eq_true, List.mem_range]
  constructor
  · rintro ⟨w, _, h⟩
    split at h
    · rename_i he
      exact ⟨w, (edgeB_iff g u w).1 he, (reachB_iff_path g w v).1 h⟩
    · simp at h
  · rintro ⟨w, e, r⟩
    exact ⟨w, e.2.1, by rw [if_pos ((edgeB_iff g u w).2 e)]; exact (reachB_iff_path g w v).2 r⟩

/-! ### order facts of dominance -/

theorem dom_entry (g : Digraph) (e v : Nat) : Dom g e e v := fun _ _ => by simp

theorem dom_refl (g : Digraph) (e v : Nat) : Dom g e v v := fun _ p => p.last_mem

theorem dom_trans {g : Digraph} {e a b v : Nat} (h1 : Dom g e a b) (h2 : Dom g e b v) : Dom g e a v := by
  intro l p
  obtain ⟨l1, l2, hl, p1, _⟩ := p.split (h2 l p)
  have := h1 l1 p1
  rw [hl, ← List.cons_append]
  exact List.mem_append_left _ this

/-- a dominator of a reachable node is a node that is itself reachable -/
theorem dom_reach {g : Digraph} {e d v : Nat} (h : Dom g e d v) (r : Reach g e v) : Reach g e d := by
  obtain ⟨l, p⟩ := r
  obtain ⟨l1, _, _, p1, _⟩ := p.split (h l p)
  exact ⟨l1, p1⟩

theorem dom_lt {g : Digraph} {e d v : Nat} (h : Dom g e d v) (r : Reach g e v) : d < g.n := by
  obtain ⟨_, p⟩ := dom_reach h r
  exact p.lt_right

/-- antisymmetry on reachable nodes -/
theorem dom_antisymm {g : Digraph} {e a b : Nat} (hab : Dom g e a b) (hba : Dom g e b a)
    (r : Reach g e b) : a = b := by
  apply Classical.byContradiction
  intro hne
  have key : ∀ k, ∀ l, l.length ≤ k → ¬ Path g e l b := by
    intro k
    induction k with
    | zero =>
      intro l hl p
      have : l = [] := List.length_eq_zero_iff.1 (by omega)
      subst this
      cases p
      -- e = b; a dominates b = e via the trivial path, so a = e = b
      have := hab [] (Path.nil ‹_›)
      simp at this
      exact hne this
    | succ k ih =>
      intro l hl p
      obtain ⟨l1, l2, hl12, p1, p2⟩ := p.split (hab l p)
      have hl2 : l2 ≠ [] := by
        intro h; subst h; cases p2; exact hne rfl
      obtain ⟨l3, l4, hl34, p3, _⟩ := p1.split (hba l1 p1)
      refine ih l3 ?_ p3
      have : l2.length > 0 := List.length_pos_iff.2 hl2
      have h1 : l.length = l1.length + l2.length := by rw [hl12]; simp
      have h2 : l1.length = l3.length + l4.length := by rw [hl34]; simp
      omega
  obtain ⟨l, p⟩ := r
  exact key l.length l (Nat.le_refl _) p

/-- the dominators of a reachable node form a chain -/
theorem dom_chain {g : Digraph} {e a b v : Nat} (ha : Dom g e a v) (hb : Dom g e b v)
    (r : Reach g e v) : Dom g e a b ∨ Dom g e b a := by
  apply Classical.byContradiction
  intro hno
  have hnab : ¬ Dom g e a b := fun h => hno (Or.inl h)
  have hnba : ¬ Dom g e b a := fun h => hno (Or.inr h)
  -- a path to b avoiding a, a path to a avoiding b
  have ⟨lb, pb, hb'⟩ : ∃ l, Path g e l b ∧ a ∉ e :: l := by
    apply Classical.byContradiction
    intro h; apply hnab; intro l p
    apply Classical.byContradiction
    intro hd; exact h ⟨l, p, hd⟩
  have ⟨la, pa, ha'⟩ : ∃ l, Path g e l a ∧ b ∉ e :: l := by
    apply Classical.byContradiction
    intro h; apply hnba; intro l p
    apply Classical.byContradiction
    intro hd; exact h ⟨l, p, hd⟩
  obtain ⟨l, p⟩ := r
  -- split at the last occurrence of a
  obtain ⟨l1, l2, _, _, p2, hn2⟩ := p.split_last (ha l p)
  -- pa ++ l2 is a path to v, it contains b, which is not on pa, so b ∈ l2
  have hbm := hb (la ++ l2) (pa.append p2)
  rw [← List.cons_append, List.mem_append] at hbm
  have hbl2 : b ∈ l2 := by
    rcases hbm with h | h
    · exact absurd h ha'
    · exact h
  obtain ⟨l3, l4, hl34, _, p4⟩ := p2.split (List.mem_cons_of_mem a hbl2)
  -- pb ++ l4 is a path to v avoiding a
  have ham := ha (lb ++ l4) (pb.append p4)
  rw [← List.cons_append, List.mem_append] at ham
  rcases ham with h | h
  · exact hb' h
  · exact hn2 (by rw [hl34]; exact List.mem_append_right _ h)

/-- if `d` strictly dominates `v` and `p → v` is an edge with `p` reachable, then `d` dominates `p` -/
theorem sdom_edge {g : Digraph} {e d p v : Nat} (h : SDom g e d v) (hp : g.Edge p v) : Dom g e d p := by
  intro l q
  have := h.1 (l ++ [v]) (q.snoc hp)
  rw [← List.cons_append, List.mem_append] at this
  rcases this with h' | h'
  · exact h'
  · simp at h'; exact absurd h' h.2

/-! ### immediate dominators -/

theorem isIdom_unique {g : Digraph} {e d d' v : Nat} (h : IsIdom g e d v) (h' : IsIdom g e d' v)
    (r : Reach g e v) : d = d' :=
  dom_antisymm (h'.2 d h.1) (h.2 d' h'.1) (dom_reach h'.1.1 r)

/-- a finite non-empty chain has an element that everything else is related to -/
theorem exists_top {α : Type} (R : α → α → Prop) (hrefl : ∀ a, R a a)
    (htrans : ∀ a b c, R a b → R b c → R a c) :
    ∀ (L : List α), L ≠ [] → (∀ a ∈ L, ∀ b ∈ L, R a b ∨ R b a) → ∃ m ∈ L, ∀ a ∈ L, R a m := by
  intro L
  induction L with
  | nil => intro h; exact absurd rfl h
  | cons x xs ih =>
    intro _ htot
    by_cases hxs : xs = []
    · subst hxs
      exact ⟨x, by simp, by intro a ha; simp at ha; subst ha; exact hrefl a⟩
    · obtain ⟨m, hm, hall⟩ := ih hxs (fun a ha b hb => htot a (List.mem_cons_of_mem _ ha) b (List.mem_cons_of_mem _ hb))
      rcases htot x (by simp) m (List.mem_cons_of_mem _ hm) with h | h
      · refine ⟨m, List.mem_cons_of_mem _ hm, ?_⟩
        intro a ha
        rcases List.mem_cons.1 ha with h' | h'
        · subst h'; exact h
        · exact hall a h'
      · refine ⟨x, by simp, ?_⟩
        intro a ha
        rcases List.mem_cons.1 ha with h' | h'
        · subst h'; exact hrefl a
        · exact htrans _ _ _ (hall a h') h

/-- every reachable node other than the entry has an immediate dominator -/
theorem isIdom_exists {g : Digraph} {e v : Nat} (r : Reach g e v) (hne : v ≠ e) : ∃ d, IsIdom g e d v := by
  let L := (List.range g.n).filter (fun d => sdomB g e d v)
  have hmem : ∀ d, d ∈ L ↔ SDom g e d v := by
    intro d
    simp only [L, List.mem_filter, List.mem_range, sdomB_iff]
    exact ⟨fun h => h.2, fun h => ⟨dom_lt h.1 r, h⟩⟩
  have hL : L ≠ [] := by
    have : e ∈ L := (hmem e).2 ⟨dom_entry g e v, fun h => hne h.symm⟩
    intro h; rw [h] at this; simp at this
  obtain ⟨m, hm, hall⟩ := exists_top (fun a b => Dom g e a b) (dom_refl g e) (fun _ _ _ => dom_trans) L hL
    (fun a ha b hb => dom_chain ((hmem a).1 ha).1 ((hmem b).1 hb).1 r)
  exact ⟨m, (hmem m).1 hm, fun d' hd' => hall d' ((hmem d').2 hd')⟩

/-- `idomOf` with a dominance test that is correct on nodes finds exactly the immediate dominator -/
theorem idomOf_eq_some_iff (g : Digraph) (e : Nat) (dom : Nat → Nat → Bool) (v : Nat)
    (hdom : ∀ d, d < g.n → ∀ w, dom d w = true ↔ Dom g e d w) (r : Reach g e v) (d : Nat) :
    idomOf g.n dom v = some d ↔ IsIdom g e d v := by
  have hpred : ∀ x, x < g.n →
      ((dom x v && x != v && (List.range g.n).all fun d' => !(dom d' v && d' != v) || dom d' x) = true
        ↔ IsIdom g e x v) := by
    intro x hx
    simp only [Bool.and_eq_true, List.all_eq_true, List.mem_range, Bool.or_eq_true, Bool.not_eq_true',
      bne_iff_ne, ne_eq]
    unfold IsIdom SDom
    constructor
    · rintro ⟨⟨h1, h2⟩, h3⟩
      refine ⟨⟨(hdom x hx v).1 h1, h2⟩, ?_⟩
      rintro d' ⟨hd', hne'⟩
      have hlt := dom_lt hd' r
      rcases h3 d' hlt with h | h
      · have : dom d' v = true := (hdom d' hlt v).2 hd'
        rw [Bool.and_eq_false_iff] at h
        rcases h with h | h
        · rw [this] at h; exact absurd h (by simp)
        · simp at h; exact absurd h hne'
      · exact (hdom d' hlt x).1 h
    · rintro ⟨⟨h1, h2⟩, h3⟩
      refine ⟨⟨(hdom x hx v).2 h1, h2⟩, ?_⟩
      intro d' hlt
      by_cases hs : dom d' v = true ∧ d' ≠ v
      · right
        exact (hdom d' hlt x).2 (h3 d' ⟨(hdom d' hlt v).1 hs.1, hs.2⟩)
      · left
        rw [Bool.and_eq_false_iff]
        by_cases h : dom d' v = true
        · right
          have : d' = v := Classical.byContradiction fun hc => hs ⟨h, hc⟩
          simp [this]
        · left; simpa using h
  unfold idomOf
  constructor
  · intro h
    have hx := List.find?_some h
    have hmem := List.mem_of_find?_eq_some h
    exact (hpred d (List.mem_range.1 hmem)).1 hx
  · intro h
    have hdlt : d < g.n := dom_lt h.1.1 r
    cases hf : (List.range g.n).find? _ with
    | none =>
      rw [List.find?_eq_none] at hf
      exact absurd ((hpred d hdlt).2 h) (hf d (List.mem_range.2 hdlt))
    | some x =>
      have hx := List.find?_some hf
      have hmem := List.mem_of_find?_eq_some hf
      have := (hpred x (List.mem_range.1 hmem)).1 hx
      rw [isIdom_unique this h r]

/-- **the reference `idom` is the path-defined immediate dominator** -/
theorem idom_eq_some_iff (g : Digraph) (e v d : Nat) :
    idom g e v = some d ↔ (Reach g e v ∧ v ≠ e ∧ IsIdom g e d v) := by
  unfold idom
  by_cases hc : (reachB g e v && v != e) = true
  · rw [if_pos hc]
    simp only [Bool.and_eq_true, reachB_iff_path, bne_iff_ne, ne_eq] at hc
    rw [idomOf_eq_some_iff g e (domB g e) v (fun d _ w => domB_iff g e d w) hc.1 d]
    exact ⟨fun h => ⟨hc.1, hc.2, h⟩, fun h => h.2.2⟩
  · rw [if_neg hc]
    simp only [Bool.and_eq_true, reachB_iff_path, bne_iff_ne, ne_eq] at hc
    constructor
    · intro h; cases h
    · rintro ⟨h1, h2, _⟩; exact absurd ⟨h1, h2⟩ hc

theorem idom_eq_none_iff (g : Digraph) (e v : Nat) :
    idom g e v = none ↔ (¬ Reach g e v ∨ v = e) := by
  constructor
  · intro h
    apply Classical.byContradiction
    intro hc
    have hr : Reach g e v := Classical.byContradiction fun h' => hc (Or.inl h')
    have hne : v ≠ e := fun h' => hc (Or.inr h')
    obtain ⟨d, hd⟩ := isIdom_exists hr hne
    have := (idom_eq_some_iff g e v d).2 ⟨hr, hne, hd⟩
    rw [h] at this; cases this
  · intro h
    cases hi : idom g e v with
    | none => rfl
    | some d =>
      have := (idom_eq_some_iff g e v d).1 hi
      rcases h with h | h
      · exact absurd this.1 h
      · exact absurd h this.2.1

/-! ### the table-driven versions compute the same values -/

theorem domT_eq (g : Digraph) (e d v : Nat) :
    domT (domTable g e) (reachSet g none e) d v = domB g e d v := by
  unfold domT domTable domB reachAvoidB
  by_cases hd : d < g.n
  · simp [hd]
  · have : ((List.map (fun d => reachSet g (some d) e) (List.range g.n)).toArray)[d]? = none := by
      simp; omega
    rw [this]
    -- avoiding a non-node is avoiding nothing
    congr 1
    rw [Bool.eq_iff_iff, reachSet_iff, reachSet_iff]
    constructor
    · rintro ⟨l, p, _⟩
      refine ⟨l, p, ?_⟩
      intro x hx hxd
      have h1 := p.mem_lt x hx
      have : x = d := by simpa using hxd
      omega
    · rintro ⟨l, p, _⟩; exact ⟨l, p, avoids_none e l⟩

theorem idomT_eq (g : Digraph) (e v : Nat) :
    idomT g e (domTable g e) (reachSet g none e) v = idom g e v := by
  unfold idomT idom reachB
  have : domT (domTable g e) (reachSet g none e) = domB g e := by
    funext d w; exact domT_eq g e d w
  rw [this]

theorem mem_preds (g : Digraph) (p y : Nat) : p ∈ g.preds y ↔ g.Edge p y := by
  unfold Digraph.preds
  simp only [List.mem_filter, List.mem_range, edgeB_iff]
  exact ⟨fun h => h.2, fun h => ⟨h.1, h⟩⟩

theorem predTable_getD (g : Digraph) (y : Nat) : (predTable g).getD y [] = g.preds y := by
  unfold predTable
  by_cases hy : y < g.n
  · simp [Array.getD, hy]
  · have : g.preds y = [] := by
      apply List.eq_nil_iff_forall_not_mem.2
      intro p hp
      exact hy ((mem_preds g p y).1 hp).2.1
    simp [Array.getD, hy, this]

theorem dfT_eq (g : Digraph) (e x y : Nat) :
    dfT (predTable g) (domTable g e) (reachSet g none e) x y = dfB g e x y := by
  unfold dfT dfB
  have h1 : domT (domTable g e) (reachSet g none e) = domB g e := by
    funext d w; exact domT_eq g e d w
  have h2 : (fun y => (predTable g).getD y []) = g.preds := by
    funext y; exact predTable_getD g y
  rw [h1, h2]

/-- `dfB` decides dominance-frontier membership as defined by paths -/
theorem dfB_iff (g : Digraph) (e x y : Nat) : dfB g e x y = true ↔ InDF g e x y := by
  unfold dfB dfOf InDF
  simp only [Bool.and_eq_true, List.any_eq_true, mem_preds, domB_iff, Bool.not_eq_true',
    Bool.and_eq_false_iff]
  unfold SDom
  constructor
  · rintro ⟨⟨p, he, hd⟩, h⟩
    refine ⟨⟨p, he, hd⟩, ?_⟩
    rintro ⟨h1, h2⟩
    rcases h with h | h
    · have := (domB_iff g e x y).2 h1
      rw [this] at h; cases h
    · simp at h; exact h2 h
  · rintro ⟨⟨p, he, hd⟩, h⟩
    refine ⟨⟨p, he, hd⟩, ?_⟩
    by_cases hdy : domB g e x y = true
    · right
      have : x = y := Classical.byContradiction fun hc => h ⟨(domB_iff g e x y).1 hdy, hc⟩
      simp [this]
    · left; simpa using hdy

/-- **validator soundness**: if `checkIdom` accepts a claimed map, every entry is the
    path-defined immediate dominator (and `none` exactly for the entry / unreachable nodes) -/
theorem checkIdom_sound (g : Digraph) (e : Nat) (out : List (Option Nat)) (h : checkIdom g e out = true) :
    out.length = g.n ∧ ∀ v, v < g.n →
      (∀ d, out.getD v none = some d ↔ (Reach g e v ∧ v ≠ e ∧ IsIdom g e d v)) ∧
      (out.getD v none = none ↔ (¬ Reach g e v ∨ v = e)) := by
  unfold checkIdom at h
  simp only [Bool.and_eq_true, beq_iff_eq, List.all_eq_true, List.mem_range] at h
  refine ⟨h.1, ?_⟩
  intro v hv
  have := h.2 v hv
  rw [idomT_eq] at this
  rw [this]
  exact ⟨fun d => idom_eq_some_iff g e v d, idom_eq_none_iff g e v⟩

/-! ### the reversed graph; post-dominance in terms of paths to the exit -/

theorem rev_n (g : Digraph) : g.rev.n = g.n := rfl

theorem rev_succ (g : Digraph) (v : Nat) (hv : v < g.n) : g.rev.succ v = g.preds v := by
  unfold Digraph.rev Digraph.succ
  simp [hv]

theorem rev_edge (g : Digraph) (u v : Nat) : g.rev.Edge u v ↔ g.Edge v u := by
  constructor
  · rintro ⟨hu, hv, hm⟩
    rw [rev_n] at hu hv
    rw [rev_succ g u hu] at hm
    unfold Digraph.preds at hm
    simp only [List.mem_filter, List.mem_range, edgeB_iff] at hm
    exact hm.2
  · intro h
    refine ⟨h.2.1, h.1, ?_⟩
    rw [rev_succ g u h.2.1]
    unfold Digraph.preds
    simp only [List.mem_filter, List.mem_range, edgeB_iff]
    exact ⟨h.1, h⟩

/-- vertex list (after the start) of the reversed walk -/
def revList (u : Nat) (l : List Nat) : List Nat := (u :: l).reverse.tail

theorem revList_mem (u : Nat) (l : List Nat) (v : Nat) (hlast : (u :: l).getLast (by simp) = v) (x : Nat) :
    x ∈ v :: revList u l ↔ x ∈ u :: l := by
  unfold revList
  have : (u :: l).reverse = v :: (u :: l).reverse.tail := by
    have h := List.head_reverse (l := u :: l) (by simp)
    rw [hlast] at h
    rw [← h]
    exact (List.cons_head_tail _).symm
  rw [← this, List.mem_reverse]

theorem _root_.Spec.Graph.Path.getLast {g : Digraph} {u v : Nat} {l : List Nat} (p : Path g u l v) :
    (u :: l).getLast (by simp) = v := by
  induction p with
  | nil _ => rfl
  | cons _ _ ih => rw [List.getLast_cons (by simp)]; exact ih

theorem path_rev_of {g : Digraph} {u v : Nat} {l : List Nat} (p : Path g u l v) :
    Path g.rev v (revList u l) u := by
  induction p with
  | nil h => exact Path.nil h
  | @cons u w v l e p ih =>
    have : revList u (w :: l) = revList w l ++ [u] := by
      unfold revList
      rw [List.reverse_cons (a := u)]
      rw [List.tail_append_of_ne_nil (by simp)]
    rw [this]
    exact ih.snoc ((rev_edge g w u).2 e)

theorem rev_rev_edge (g : Digraph) (u v : Nat) : g.rev.rev.Edge u v ↔ g.Edge u v := by
  rw [rev_edge, rev_edge]

theorem path_congr {g h : Digraph} (hn : g.n = h.n) (he : ∀ u v, g.Edge u v → h.Edge u v)
    {u v : Nat} {l : List Nat} (p : Path g u l v) : Path h u l v := by
  induction p with
  | nil hu => exact Path.nil (hn ▸ hu)
  | cons e _ ih => exact Path.cons (he _ _ e) ih

/-- **post-dominance in terms of forward paths**: `d` post-dominates `v` iff every
    path from `v` to the exit `x` passes through `d` -/
theorem pdom_iff_paths (g : Digraph) (x d v : Nat) :
    PDom g x d v ↔ ∀ l, Path g v l x → d ∈ v :: l := by
  unfold PDom Dom
  constructor
  · intro h l p
    have q := path_rev_of p
    have := h _ q
    exact (revList_mem v l x p.getLast d).1 this
  · intro h l p
    have q : Path g v (revList x l) x :=
      path_congr (g := g.rev.rev) (h := g) rfl (fun a b => (rev_rev_edge g a b).1) (path_rev_of p)
    have := h _ q
    exact (revList_mem x l v p.getLast d).1 this

theorem reach_rev (g : Digraph) (u v : Nat) : Reach g.rev u v ↔ Reach g v u := by
  constructor
  · rintro ⟨l, p⟩
    exact ⟨_, path_congr (g := g.rev.rev) (h := g) rfl (fun a b => (rev_rev_edge g a b).1) (path_rev_of p)⟩
  · rintro ⟨l, p⟩; exact ⟨_, path_rev_of p⟩

end Proofs.Graph
