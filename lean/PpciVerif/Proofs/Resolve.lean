import PpciVerif.Spec.LinkGuard
import PpciVerif.Model.LinkReloc
import PpciVerif.Proofs.Reloc
import PpciVerif.Proofs.RelocRv2
import PpciVerif.Proofs.RelocX86
import PpciVerif.Proofs.RelocThumb
import PpciVerif.Proofs.RelocArm
/-! One lemma for all proved relocation types: a successful `apply` under `resolvable` designates `target`. -/
namespace Proofs.Reloc
open Model.Reloc Model.LinkReloc Spec.RelocSem Spec.LinkGuard

theorem apply_resolves {isa ty : String} {A S P : Int} {data out : List Nat}
    (hap : Model.Reloc.apply isa ty A S data P = some (.ok out)) (hsz : relocSize isa ty = some data.length)
    (hb : Bytes data) (hg : resolvable isa ty A S P data) :
    decodeTarget isa ty out P = some (target isa ty A S) := by
  unfold resolvable at hg
  split at hg
  · simp only [relocSize, Option.some.injEq] at hsz
    simp only [Model.Reloc.apply, Option.some.injEq] at hap
    simp only [decodeTarget]; rw [bImm12_target hsz.symm hap hg]; simp [target]
  · simp only [relocSize, Option.some.injEq] at hsz
    simp only [Model.Reloc.apply, Option.some.injEq] at hap
    simp only [decodeTarget]; rw [bImm20_target hsz.symm hb hap hg]; simp [target]
  · simp only [relocSize, Option.some.injEq] at hsz
    simp only [Model.Reloc.apply, Option.some.injEq] at hap
    simp only [decodeTarget]; rw [bImm20_target hsz.symm hb (show Riscv.bImm20 S data P = .ok out from hap) hg]; simp [target]
  · simp only [relocSize, Option.some.injEq] at hsz
    simp only [Model.Reloc.apply, Option.some.injEq] at hap
    simp only [decodeTarget]; rw [bImm20_target hsz.symm hb hap hg]; simp [target]
  · simp only [relocSize, Option.some.injEq] at hsz
    simp only [Model.Reloc.apply, Option.some.injEq] at hap
    simp only [decodeTarget]; rw [bcImm11_target hsz.symm hb hap hg]; simp [target]
  · simp only [relocSize, Option.some.injEq] at hsz
    simp only [Model.Reloc.apply, Option.some.injEq] at hap
    simp only [decodeTarget]; rw [bcImm8_target hsz.symm hb hap hg]; simp [target]
  · simp only [relocSize, Option.some.injEq] at hsz
    simp only [Model.Reloc.apply, Option.some.injEq] at hap
    simp only [decodeTarget]; rw [imm24_target hsz.symm hap hg]; simp [target]
  · simp only [relocSize, Option.some.injEq] at hsz
    simp only [Model.Reloc.apply, Option.some.injEq] at hap
    simp only [decodeTarget]; rw [ldrImm12_target hsz.symm hb hg.1 hg.2 hap]; simp [target]
  · simp only [relocSize, Option.some.injEq] at hsz
    simp only [Model.Reloc.apply, Option.some.injEq] at hap
    simp only [decodeTarget]; rw [wrapNew11_target hsz.symm hb hg hap]; simp [target]
  · simp only [relocSize, Option.some.injEq] at hsz
    simp only [Model.Reloc.apply, Option.some.injEq] at hap
    simp only [decodeTarget]; rw [rel8_target hsz.symm hb hg hap]; simp [target]
  · simp only [relocSize, Option.some.injEq] at hsz
    simp only [Model.Reloc.apply, Option.some.injEq] at hap
    simp only [decodeTarget]; rw [lit8_target hsz.symm hb hg hap]; simp [target]
  · simp only [relocSize, Option.some.injEq] at hsz
    simp only [Model.Reloc.apply, Option.some.injEq] at hap
    simp only [decodeTarget]; rw [blImm11_target hsz.symm hb hg.1 hg.2.1 hg.2.2.1 hap hg.2.2.2]; simp [target]
  · simp only [relocSize, Option.some.injEq] at hsz
    simp only [Model.Reloc.apply, Option.some.injEq] at hap
    simp only [decodeTarget]; rw [rel32_target hsz.symm hap hg]; simp [target]
  · simp only [relocSize, Option.some.injEq] at hsz
    simp only [Model.Reloc.apply, Option.some.injEq] at hap
    simp only [decodeTarget]; rw [jmp8_target hsz.symm hap hg]; simp [target]
  · simp only [relocSize, Option.some.injEq] at hsz
    simp only [Model.Reloc.apply, Option.some.injEq] at hap
    simp only [decodeTarget]; rw [(abs32_target hsz.symm hg hap).1]; simp [target]
  · simp only [relocSize, Option.some.injEq] at hsz
    simp only [Model.Reloc.apply, Option.some.injEq] at hap
    simp only [decodeTarget]; rw [(abs64_target hsz.symm hg hap).1]; simp [target]
  · exact hg.elim

end Proofs.Reloc
