import PpciVerif.Model.Encode
import PpciVerif.Proofs.Token
/-!
The generic lemma behind C10 part (3) (and C08 Thm A): if no LATER pattern writes a bit of an
operand's field (`orderedOK`), then after `set_all_patterns` the field reads exactly the bits
stored for that operand, `v mod 2^w` — hence decodes to `v` iff `v` fits (`decode_stored_iff`).
-/
namespace Proofs.Encode
open Model.Tables Model.Token Model.Encode Proofs.Token

def descs (ts : List Inst) : List TokenDesc := ts.map (·.1)

theorem findField_mem {t : TokenDesc} {n : String} {f : FieldDesc} (h : findField t n = some f) : f ∈ t.fields :=
  List.mem_of_find?_eq_some h

theorem wf_of_wfToken {t : TokenDesc} (h : wfToken t = true) {f : FieldDesc} (hf : f ∈ t.fields) : WF t.size f := by
  unfold wfToken at h
  simp only [Bool.and_eq_true, List.all_eq_true] at h
  exact wf_of_wfField (h.2 f hf)

theorem seqSet_descs {ts ts' : List Inst} {f : String} {v : Int} (h : seqSet ts f v = .ok ts') : descs ts' = descs ts := by
  induction ts generalizing ts' with
  | nil => simp [seqSet] at h
  | cons a rest ih =>
    obtain ⟨t, bv⟩ := a
    unfold seqSet at h
    split at h
    · split at h
      · cases h
      · cases h; simp [descs]
    · split at h
      · cases h
      · rename_i rest' hrest
        cases h
        simp only [descs, List.map_cons, List.cons.injEq, true_and]
        exact ih hrest

theorem partsOverlap_false {f g : FieldDesc} (h : partsOverlap f g = false) :
    ∀ p ∈ f.parts, ∀ q ∈ g.parts, Disj p q := by
  intro p hp q hq
  unfold partsOverlap at h
  have h1 := (List.any_eq_false.mp h) p hp
  simp only [Bool.not_eq_true] at h1
  have h2 := (List.any_eq_false.mp h1) q hq
  simp only [Bool.not_eq_true', Bool.not_eq_false] at h2
  simpa [partDisj, Disj] using h2

/-- after `set_field(f, v)` the field `f` reads the stored bits `v mod 2^w` -/
theorem seqSet_get_same {ts ts' : List Inst} {f : String} {v : Int}
    (hwf : ∀ t ∈ descs ts, wfToken t = true) (h : seqSet ts f v = .ok ts') :
    ∃ fd, resolveField (descs ts) f = some fd ∧ seqGet ts' f = .ok (stored (width fd) v) := by
  induction ts generalizing ts' with
  | nil => simp [seqSet] at h
  | cons a rest ih =>
    obtain ⟨t, bv⟩ := a
    have hwt : wfToken t = true := hwf t (by simp [descs])
    unfold seqSet at h
    split at h
    · rename_i ff hff
      split at h
      · cases h
      · rename_i bv' hset
        cases h
        refine ⟨ff, by simp [descs, resolveField, hff], ?_⟩
        simp only [seqGet, hff]
        exact (setField_spec (wf_of_wfToken hwt (findField_mem hff)) hset).1
    · rename_i hff
      split at h
      · cases h
      · rename_i rest' hrest
        cases h
        obtain ⟨fd, h1, h2⟩ := ih (fun t ht => hwf t (by simp only [descs, List.map_cons, List.mem_cons]; exact Or.inr ht)) hrest
        refine ⟨fd, by simpa [descs, resolveField, hff] using h1, ?_⟩
        simp only [seqGet, hff]
        exact h2

/-- `set_field(f, v)` leaves every field that shares no bit with `f` unchanged -/
theorem seqSet_get_other {ts ts' : List Inst} {f g : String} {v : Int}
    (hwf : ∀ t ∈ descs ts, wfToken t = true) (h : seqSet ts f v = .ok ts')
    (hno : fieldsOverlap (descs ts) f g = false) : seqGet ts' g = seqGet ts g := by
  induction ts generalizing ts' with
  | nil => simp [seqSet] at h
  | cons a rest ih =>
    obtain ⟨t, bv⟩ := a
    have hwt : wfToken t = true := hwf t (by simp [descs])
    simp only [descs, List.map_cons, fieldsOverlap] at hno
    unfold seqSet at h
    split at h
    · rename_i ff hff
      split at h
      · cases h
      · rename_i bv' hset
        cases h
        rw [hff] at hno
        cases hg : findField t g with
        | none => simp [seqGet, hg]
        | some gg =>
          rw [hg] at hno
          simp only [seqGet, hg]
          exact getField_setField_other (wf_of_wfToken hwt (findField_mem hff))
            (wf_of_wfToken hwt (findField_mem hg)) (partsOverlap_false hno) hset
    · rename_i hff
      split at h
      · cases h
      · rename_i rest' hrest
        cases h
        rw [hff] at hno
        cases hg : findField t g with
        | some gg => simp [seqGet, hg]
        | none =>
          rw [hg] at hno
          simp only [seqGet, hg]
          exact ih (fun t ht => hwf t (by simp only [descs, List.map_cons, List.mem_cons]; exact Or.inr ht)) hrest hno

theorem applyWrites_descs {ts ts' : List Inst} {ws : List (String × Int)} (h : applyWrites ts ws = .ok ts') :
    descs ts' = descs ts := by
  induction ws generalizing ts with
  | nil => simp [applyWrites] at h; rw [h]
  | cons w ws ih =>
    obtain ⟨f, v⟩ := w
    unfold applyWrites at h
    split at h
    · cases h
    · rename_i ts1 h1
      rw [ih h, seqSet_descs h1]

/-- later writes that share no bit with `f` leave `f` as it is -/
theorem applyWrites_preserves {ts ts' : List Inst} {ws : List (String × Int)} {f : String}
    (hwf : ∀ t ∈ descs ts, wfToken t = true) (h : applyWrites ts ws = .ok ts')
    (hno : ∀ g ∈ ws.map (·.1), fieldsOverlap (descs ts) g f = false) : seqGet ts' f = seqGet ts f := by
  induction ws generalizing ts with
  | nil => simp [applyWrites] at h; rw [h]
  | cons w ws ih =>
    obtain ⟨g, v⟩ := w
    unfold applyWrites at h
    split at h
    · cases h
    · rename_i ts1 h1
      have hd := seqSet_descs h1
      rw [ih (by rw [hd]; exact hwf) h (by rw [hd]; intro g' hg'; exact hno g' (by simp only [List.map_cons, List.mem_cons]; exact Or.inr hg'))]
      exact seqSet_get_other hwf h1 (hno g (by simp))

theorem allSome_cons {α : Type} {x : Option α} {rest : List (Option α)} {ys : List α}
    (h : allSome (x :: rest) = some ys) : ∃ y ys', x = some y ∧ allSome rest = some ys' ∧ ys = y :: ys' := by
  cases x with
  | none => simp [allSome] at h
  | some y =>
    simp only [allSome] at h
    split at h
    · cases h
    · rename_i ys' hys
      cases h
      exact ⟨y, ys', rfl, hys, rfl⟩

theorem writes_fields {pw : List (PatDesc × Option Int)} {ws : List (String × Int)}
    (h : allSome (pw.map toWrite) = some ws) : ws.map (·.1) = pw.map (·.1.field) := by
  induction pw generalizing ws with
  | nil => simp [allSome] at h; subst h; rfl
  | cons a rest ih =>
    obtain ⟨y, ys', h1, h2, h3⟩ := allSome_cons (by simpa using h)
    subst h3
    obtain ⟨p, ov⟩ := a
    cases ov with
    | none => simp [toWrite] at h1
    | some v =>
      simp only [toWrite, Option.map_some, Option.some.injEq] at h1
      subst h1
      simp [ih h2]

/-- GENERIC LEMMA.  Patterns are applied in order; if `orderedOK` holds then after all of them
    every non-fixed pattern's field reads exactly the bits stored for its value. -/
theorem ordered_recoverable (ts ts' : List Inst) (pw : List (PatDesc × Option Int)) (ws : List (String × Int))
    (hwf : ∀ t ∈ descs ts, wfToken t = true)
    (hws : allSome (pw.map toWrite) = some ws) (happ : applyWrites ts ws = .ok ts')
    (hord : orderedOK (descs ts) (pw.map (·.1)) = true) :
    ∀ pv ∈ pw, isFixed pv.1.val = false →
      ∃ v fd, pv.2 = some v ∧ resolveField (descs ts) pv.1.field = some fd
        ∧ seqGet ts' pv.1.field = .ok (stored (width fd) v) := by
  induction pw generalizing ts ws with
  | nil => intro pv hpv; cases hpv
  | cons a rest ih =>
    obtain ⟨y, ws', h1, h2, h3⟩ := allSome_cons (by simpa using hws)
    subst h3
    obtain ⟨p, ov⟩ := a
    cases ov with
    | none => simp [toWrite] at h1
    | some v =>
      simp only [toWrite, Option.map_some, Option.some.injEq] at h1
      subst h1
      unfold applyWrites at happ
      split at happ
      · cases happ
      · rename_i ts1 hset
        have hd := seqSet_descs hset
        simp only [List.map_cons, orderedOK, Bool.and_eq_true, Bool.or_eq_true] at hord
        intro pv hpv hnf
        rcases List.mem_cons.mp hpv with rfl | hin
        · simp only at hnf ⊢
          obtain ⟨fd, hres, hget⟩ := seqSet_get_same hwf hset
          refine ⟨v, fd, rfl, hres, ?_⟩
          rw [← hget]
          apply applyWrites_preserves (by rw [hd]; exact hwf) happ
          intro g hg
          rw [writes_fields h2] at hg
          have hall := hord.1.resolve_left (by simp [hnf])
          rw [List.all_eq_true] at hall
          obtain ⟨q, hq, rfl⟩ := List.mem_map.mp hg
          rw [hd]
          have := hall q.1 (List.mem_map.mpr ⟨q, hq, rfl⟩)
          simpa using this
        · have := ih ts1 ws' (by rw [hd]; exact hwf) h2 happ (by rw [hd]; exact hord.2) pv hin hnf
          rw [hd] at this
          exact this


theorem resolveField_mem {ds : List TokenDesc} {f : String} {fd : FieldDesc} (h : resolveField ds f = some fd) :
    ∃ t ∈ ds, fd ∈ t.fields := by
  induction ds with
  | nil => simp [resolveField] at h
  | cons t rest ih =>
    unfold resolveField at h
    split at h
    · rename_i ff hff
      cases h
      exact ⟨t, by simp, findField_mem hff⟩
    · obtain ⟨t', ht', hfd⟩ := ih h
      exact ⟨t', by simp [ht'], hfd⟩

theorem patWrites_pats (flat : List (InstrDesc × Vals)) :
    (patWrites flat).map (·.1) = (flat.map (·.1)).flatMap (·.patterns) := by
  induction flat with
  | nil => rfl
  | cons a rest ih =>
    obtain ⟨c, vals⟩ := a
    simp only [patWrites, List.flatMap_cons, List.map_append, List.map_map, List.map_cons] at ih ⊢
    rw [ih]
    congr 1
    induction c.patterns with
    | nil => rfl
    | cons p ps ihp => simp [ihp]

theorem descs_init (ds : List TokenDesc) : descs (ds.map (fun d => (d, d.init))) = ds := by
  induction ds with
  | nil => rfl
  | cons d rest ih =>
    simp only [descs, List.map_cons, List.cons.injEq, true_and] at ih ⊢
    exact ih

open Spec.Field in
/-- C10 (3), lifted: for a declarative instance whose class shape passes `checkFlat`, after
    `Instruction.encode` every field written from an operand holds `v mod 2^w`, and reading it back under
    the field's declared signedness gives the operand `v` if and only if `v` fits the field. -/
theorem encode_operand_fields (tt : List TokenDesc) (flat : List (InstrDesc × Vals)) (ts : List Inst)
    (hchk : checkFlat tt (flat.map (·.1)) = true) (henc : encodeTokens tt flat = .ok ts) :
    ∀ pv ∈ patWrites flat, isFixed pv.1.val = false →
      ∃ v fd raw, pv.2 = some v ∧ seqGet ts pv.1.field = .ok raw ∧ (raw : Int) = v % 2 ^ width fd
        ∧ (decode fd.signed (width fd) raw = v ↔ fits fd.signed (width fd) v) := by
  unfold checkFlat at hchk
  unfold encodeTokens at henc
  cases hds : tokenDescs tt (flat.map (·.1)) with
  | none => rw [hds] at hchk; cases hchk
  | some ds =>
    rw [hds] at hchk henc
    simp only [Bool.and_eq_true] at hchk
    obtain ⟨⟨hwfb, hord⟩, _⟩ := hchk
    cases hws : writes flat with
    | none => rw [hws] at henc; cases henc
    | some ws =>
      rw [hws] at henc
      simp only at henc
      have hdescs : descs (ds.map (fun d => (d, d.init))) = ds := descs_init ds
      have hwf : ∀ t ∈ descs (ds.map (fun d => (d, d.init))), wfToken t = true := by
        rw [hdescs]; exact fun t ht => List.all_eq_true.mp hwfb t ht
      intro pv hpv hnf
      obtain ⟨v, fd, h1, h2, h3⟩ := ordered_recoverable _ ts (patWrites flat) ws hwf hws henc
        (by rw [hdescs, patWrites_pats]; exact hord) pv hpv hnf
      rw [hdescs] at h2
      obtain ⟨t, ht, hfd⟩ := resolveField_mem h2
      have hW := wf_of_wfToken (List.all_eq_true.mp hwfb t ht) hfd
      refine ⟨v, fd, stored (width fd) v, h1, h3, stored_cast _ _, ?_⟩
      rw [stored_cast]
      exact decode_stored_iff fd.signed (width_pos hW) v

/-- what `isaOK` gives for one class: every declarative shape of a covered class passes `checkFlat` -/
theorem instrOK_shapes {tt : List TokenDesc} {is : List InstrDesc} (hok : isaOK tt is = true)
    {c : InstrDesc} (hc : c ∈ is) (hcov : covered c = true) :
    ∃ flats, expand is expandFuel c = some flats
      ∧ ∀ flat ∈ flats, declarativeFlat flat = true → checkFlat tt flat = true := by
  unfold isaOK at hok
  have h := List.all_eq_true.mp hok c hc
  unfold instrOK at h
  rw [hcov] at h
  simp only [Bool.not_true, Bool.false_or] at h
  cases he : expand is expandFuel c with
  | none => rw [he] at h; cases h
  | some flats =>
    rw [he] at h
    refine ⟨flats, rfl, fun flat hf hd => ?_⟩
    have := List.all_eq_true.mp h flat hf
    rw [hd] at this
    simpa using this

end Proofs.Encode
