import PpciVerif.Model.ObjSer
/-! Helper lemmas for C14 (object-file persistence): codecs. -/
namespace Proofs.ObjSer
open Model.ObjSer

/-! ### `Except` plumbing -/
section
variable {α β : Type}
@[simp] theorem bind_ok (a : α) (f : α → Except Err β) : (Except.ok a >>= f) = f a := rfl
@[simp] theorem bind_error (e : Err) (f : α → Except Err β) : (Except.error e >>= f) = Except.error e := rfl
@[simp] theorem map_ok (a : α) (f : α → β) : (f <$> (Except.ok a : Except Err α)) = Except.ok (f a) := rfl
@[simp] theorem pure_eq_ok (a : α) : (pure a : Except Err α) = Except.ok a := rfl
@[simp] theorem exmap_ok (a : α) (f : α → β) : Except.map f (Except.ok a : Except Err α) = Except.ok (f a) := rfl
end

/-! ### hex digits -/

theorem hexVal_hexDigit (n : Nat) (h : n < 16) : hexVal (hexDigit n) = some n := by
  have : ∀ m : Fin 16, hexVal (hexDigit m.val) = some m.val := by decide
  exact this ⟨n, h⟩

theorem hexDigit_ascii (n : Nat) (h : n < 16) : (hexDigit n).toNat < 128 := by
  have : ∀ m : Fin 16, (hexDigit m.val).toNat < 128 := by decide
  exact this ⟨n, h⟩

theorem parseDigits_append (b : Nat) (xs ys : List Char) (acc : Nat) :
    parseDigits b acc (xs ++ ys) = (parseDigits b acc xs).bind (fun a => parseDigits b a ys) := by
  induction xs generalizing acc with
  | nil => simp [parseDigits]
  | cons c cs ih =>
    simp only [List.cons_append, parseDigits]
    cases hexVal c with
    | none => simp
    | some d =>
      by_cases hd : d < b
      · simp [hd, ih]
      · simp [hd]

theorem parseDigits_natToHex (n : Nat) : parseDigits 16 0 (natToHex n) = some n := by
  fun_induction natToHex n with
  | case1 n h =>
    simp [parseDigits, hexVal_hexDigit n h, h]
  | case2 n h ih =>
    rw [parseDigits_append, ih]
    have h2 : n % 16 < 16 := Nat.mod_lt _ (by omega)
    simp only [Option.bind_some, parseDigits, hexVal_hexDigit _ h2, h2, if_true]
    congr 1; omega

theorem natToHex_ne_nil (n : Nat) : natToHex n ≠ [] := by
  fun_induction natToHex n with
  | case1 n h => simp
  | case2 n h ih => simp

theorem parseNat_natToHex (n : Nat) : parseNat 16 (natToHex n) = .ok n := by
  have h := natToHex_ne_nil n
  simp [parseNat, parseDigits_natToHex, h]

/-- `make_num(hex(x)) == x` for every integer -/
theorem makeNum_pyHex (x : Int) : makeNum (pyHex x) = .ok x := by
  unfold pyHex
  by_cases hx : x < 0
  · simp only [hx, if_true]
    have h1 : ['0', 'x'].isPrefixOf ('-' :: '0' :: 'x' :: natToHex (-x).toNat) = false := by
      simp [List.isPrefixOf]
    have h2 : ['-', '0', 'x'].isPrefixOf ('-' :: '0' :: 'x' :: natToHex (-x).toNat) = true := by
      simp [List.isPrefixOf]
    simp only [makeNum, h1, h2, if_true, List.drop_succ_cons, List.drop_zero, parseNat_natToHex, toInt]
    simp; omega
  · simp only [hx, if_false]
    have h1 : ['0', 'x'].isPrefixOf ('0' :: 'x' :: natToHex x.toNat) = true := by
      simp [List.isPrefixOf]
    simp only [makeNum, h1, if_true, List.drop_succ_cons, List.drop_zero, parseNat_natToHex, toInt]
    simp; omega

/-! ### bytes -/

def IsBytes (bs : List Nat) : Prop := ∀ b ∈ bs, b < 256

theorem hexlify_ascii (bs : List Nat) : (hexlify bs).any (fun c => decide (c.toNat ≥ 128)) = false := by
  induction bs with
  | nil => simp [hexlify]
  | cons b bs ih =>
    have h1 := hexDigit_ascii (b / 16 % 16) (Nat.mod_lt _ (by omega))
    have h2 := hexDigit_ascii (b % 16) (Nat.mod_lt _ (by omega))
    simp only [hexlify, List.any_cons, ih, Bool.or_false]
    simp; omega

theorem unhexPairs_hexlify (bs : List Nat) (h : IsBytes bs) : unhexPairs (hexlify bs) = .ok bs := by
  induction bs with
  | nil => simp [hexlify, unhexPairs]
  | cons b bs ih =>
    have hb : b < 256 := h b (by simp)
    have ih' := ih (fun x hx => h x (by simp [hx]))
    simp only [hexlify, unhexPairs, hexVal_hexDigit _ (Nat.mod_lt (b / 16) (by omega : 16 > 0)),
      hexVal_hexDigit _ (Nat.mod_lt b (by omega : 16 > 0)), ih']
    have : b / 16 % 16 * 16 + b % 16 = b := by omega
    simp [this]

theorem unhexlify_hexlify (bs : List Nat) (h : IsBytes bs) : unhexlify (hexlify bs) = .ok bs := by
  simp [unhexlify, hexlify_ascii, unhexPairs_hexlify bs h]

theorem asc2binParts_chunks (n : Nat) (hn : 0 < n) (bs : List Nat) (h : IsBytes bs) :
    asc2binParts ((chunks n bs).map (fun p => Json.str (hexlify p))) = .ok bs := by
  fun_induction chunks n bs with
  | case1 xs hx =>
    rcases hx with hx | hx
    · subst hx; simp [asc2binParts]
    · omega
  | case2 xs hx ih =>
    have h1 : IsBytes (xs.take n) := fun b hb => h b (List.mem_of_mem_take hb)
    have h2 : IsBytes (xs.drop n) := fun b hb => h b (List.mem_of_mem_drop hb)
    simp only [List.map_cons, asc2binParts, unhexlify_hexlify _ h1, ih h2]
    simp

/-- `asc2bin(bin2asc(b)) == b` for every byte string (both sides of the 30-byte rule) -/
theorem asc2bin_bin2asc (bs : List Nat) (h : IsBytes bs) : asc2bin (bin2asc bs) = .ok bs := by
  unfold bin2asc
  by_cases hl : bs.length > 30
  · simp only [hl, if_true, asc2bin]
    exact asc2binParts_chunks 30 (by omega) bs h
  · simp only [hl, if_false, asc2bin]
    exact unhexlify_hexlify bs h

end Proofs.ObjSer
