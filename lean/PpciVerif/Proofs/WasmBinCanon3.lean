import PpciVerif.Proofs.WasmBinCanon2
/-! C21 helper lemmas, converse direction, module level: invariant of the strict section loop.
(The thirteen cases of `step_inv` were first produced by a script and are maintained by hand.) -/
namespace Proofs.WasmBin
open Model.WasmBin
open Model.Leb128 (uencLoop sencLoop unsignedDecode signedDecode signedEncode)

/-- `encSections` with the function section taken from `_type4func` instead of from the funcs -/
def encSections' (T : Tables) (s : Sections) (t4f : List Nat) : Bytes :=
  s.customs.flatMap (fun c => encSection 0 (encCustom c)) ++
  encVecSection 1 (encFuncType T) s.types ++
  encVecSection 2 (encImport T) s.imports ++
  encVecSection 3 encU t4f ++
  encVecSection 4 (encTable T) s.tables ++
  encVecSection 5 encLimits s.memories ++
  encVecSection 6 (encGlobal T) s.globals ++
  encVecSection 7 encExport s.exports ++
  encOneSection 8 s.starts ++
  encVecSection 9 (encElem T) s.elems ++
  encVecSection 10 (encFunc T) s.funcs ++
  encVecSection 11 (encData T) s.datas ++
  encOneSection 12 s.datacounts

/-- nothing of a section with an id above `k` has been read yet -/
structure EmptyAfter (k : Nat) (s : Sections) : Prop where
  e1 : k < 1 → s.types = []
  e2 : k < 2 → s.imports = []
  e4 : k < 4 → s.tables = []
  e5 : k < 5 → s.memories = []
  e6 : k < 6 → s.globals = []
  e7 : k < 7 → s.exports = []
  e8 : k < 8 → s.starts = []
  e9 : k < 9 → s.elems = []
  e10 : k < 10 → s.funcs = []
  e11 : k < 11 → s.datas = []
  e12 : k < 12 → s.datacounts = []

/-- invariant of the strict section loop: `C` are the bytes consumed so far -/
structure Inv (T : Tables) (st : RState) (C : Bytes) (s : Sections) : Prop where
  defs : st.defs = s.toDefs
  empty : EmptyAfter st.last s
  t4f0 : st.last < 3 → st.type4func = []
  bytes : C = encSections' T s st.type4func
  nfuncs : st.nfuncs = s.funcs.length
  tys : s.funcs.map (·.typeIdx) = st.type4func.take s.funcs.length
  le : s.funcs.length ≤ st.type4func.length
  ok : SectionsOk T s

theorem orderOk_lt {last id : Nat} (h0 : id ≠ 0) (h : orderOk last id = true) : last < id := by
  simpa [orderOk, h0] using h

section Sane
variable {T : Tables} (hT : T.Sane = true)
include hT

theorem rFuncs_ok (t4f : List Nat) : ∀ (n i : Nat) (bs rest : Bytes) (fs : List Func),
    rFuncs T true t4f n i bs = .ok (fs, rest) →
    bs = fs.flatMap (encFunc T) ++ rest ∧ fs.length = n ∧
      (∀ f ∈ fs, (f.locals.all (typeOk T) && exprOk T f.body) = true) ∧
      fs.map (·.typeIdx) = (t4f.drop i).take n ∧ (n = 0 ∨ i + n ≤ t4f.length)
  | 0, i, bs, rest, fs, h => by
    obtain ⟨rfl, rfl⟩ := pure_ok (by simpa [rFuncs] using h)
    simp
  | n + 1, i, bs, rest, fs, h => by
    simp only [rFuncs] at h
    obtain ⟨⟨ls, body⟩, r, h1, h2⟩ := bind_ok h
    obtain ⟨ti, r2, h3, h4⟩ := bind_ok h2
    obtain ⟨hti, rfl⟩ := liftOpt_ok h3
    obtain ⟨gs, r3, h5, h6⟩ := bind_ok h4
    obtain ⟨rfl, rfl⟩ := pure_ok h6
    obtain ⟨e1, o1⟩ := rFunc_ok hT ti h1
    obtain ⟨e2, l2, o2, t2, b2⟩ := rFuncs_ok t4f n (i + 1) _ _ _ h5
    have hi : i < t4f.length := by
      rcases Nat.lt_or_ge i t4f.length with h | h
      · exact h
      · rw [List.getElem?_eq_none h] at hti; simp at hti
    have hget : t4f[i] = ti := by
      rw [List.getElem?_eq_getElem hi] at hti; simpa using hti
    refine ⟨by rw [e1, e2]; simp, by simp [l2], ?_, ?_, by omega⟩
    · intro f hf
      simp only [List.mem_cons] at hf
      rcases hf with rfl | hf
      · exact o1
      · exact o2 f hf
    · rw [List.map_cons, t2, List.drop_eq_getElem_cons hi, List.take_succ_cons, hget]

/-- one section keeps the invariant and appends exactly its frame to the consumed bytes -/
theorem step_inv {st st' : RState} {C : Bytes} {s : Sections} {id : Nat} {payload : Bytes}
    (inv : Inv T st C s) (h : rSectionBody T true st id payload = .ok (st', [])) :
    ∃ s', Inv T st' (C ++ encSection id payload) s' := by
  simp only [rSectionBody] at h
  obtain ⟨u, r, hg, hbody⟩ := bind_ok h
  obtain ⟨hord, rfl⟩ := guardP_ok hg
  simp only [Bool.not_true, Bool.false_or] at hord
  obtain ⟨defs0, empty0, t4f0, bytes0, nfuncs0, tys0, le0, ok0⟩ := inv
  have inv : Inv T st C s := ⟨defs0, empty0, t4f0, bytes0, nfuncs0, tys0, le0, ok0⟩
  split at hbody
  · -- 0 custom
    obtain ⟨c, r1, h1, h2⟩ := bind_ok hbody
    obtain ⟨hst, hr⟩ := pure_ok h2
    obtain ⟨e1, rfl, v1⟩ := rCustom_ok h1
    subst hst
    have hl : st.last = 0 := by simpa [orderOk] using hord
    have ft := inv.t4f0 (by omega)
    have f_types := inv.empty.e1 (by omega)
    have f_imports := inv.empty.e2 (by omega)
    have f_tables := inv.empty.e4 (by omega)
    have f_memories := inv.empty.e5 (by omega)
    have f_globals := inv.empty.e6 (by omega)
    have f_exports := inv.empty.e7 (by omega)
    have f_starts := inv.empty.e8 (by omega)
    have f_elems := inv.empty.e9 (by omega)
    have f_funcs := inv.empty.e10 (by omega)
    have f_datas := inv.empty.e11 (by omega)
    have f_datacounts := inv.empty.e12 (by omega)
    refine ⟨{ s with customs := s.customs ++ [c] }, ?_, ⟨fun _ => by simpa using inv.empty.e1 (by omega), fun _ => by simpa using inv.empty.e2 (by omega), fun _ => by simpa using inv.empty.e4 (by omega), fun _ => by simpa using inv.empty.e5 (by omega), fun _ => by simpa using inv.empty.e6 (by omega), fun _ => by simpa using inv.empty.e7 (by omega), fun _ => by simpa using inv.empty.e8 (by omega), fun _ => by simpa using inv.empty.e9 (by omega), fun _ => by simpa using inv.empty.e10 (by omega), fun _ => by simpa using inv.empty.e11 (by omega), fun _ => by simpa using inv.empty.e12 (by omega)⟩, ?_, ?_, ?_, ?_, ?_, ?_⟩
    · simp [inv.defs, Sections.toDefs, f_types, f_imports, f_tables, f_memories, f_globals, f_exports, f_starts, f_elems, f_funcs, f_datas, f_datacounts]
    · intro _; simpa using ft
    · simp [inv.bytes, e1, encSections', encVecSection, encOneSection, ft, f_types, f_imports, f_tables, f_memories, f_globals, f_exports, f_starts, f_elems, f_funcs, f_datas, f_datacounts]
    · simpa using inv.nfuncs
    · simpa using inv.tys
    · simpa using inv.le
    · exact ⟨fun x hx => by simp only [List.mem_append, List.mem_singleton] at hx; rcases hx with hx | rfl; exact inv.ok.customs x hx; exact v1, inv.ok.types, inv.ok.imports, inv.ok.tables, inv.ok.globals, inv.ok.exports, inv.ok.elems, inv.ok.funcs, inv.ok.datas, inv.ok.starts, inv.ok.datacounts⟩
  · -- 1 types
    obtain ⟨xs, r1, h1, h2⟩ := bind_ok hbody
    obtain ⟨e1, q1⟩ := rVec_ok (rFuncType T true) (encFuncType T) (fun x => (x.params.all (typeOk T) && x.results.all (typeOk T)) = true) (fun bs x r h => rFuncType_ok hT h) h1
    simp only [addDefs] at h2
    obtain ⟨u2, r2, g1, g2⟩ := bind_ok h2
    obtain ⟨hne, rfl⟩ := guardP_ok g1
    obtain ⟨hst, hr⟩ := pure_ok g2
    subst hst
    subst hr
    have he : xs.isEmpty = false := by simpa using hne
    have hl : st.last < 1 := orderOk_lt (by omega) hord
    have ft : 1 < 3 → st.type4func = [] := fun _ => inv.t4f0 (by omega)
    have f_types := inv.empty.e1 (by omega)
    have f_imports := inv.empty.e2 (by omega)
    have f_tables := inv.empty.e4 (by omega)
    have f_memories := inv.empty.e5 (by omega)
    have f_globals := inv.empty.e6 (by omega)
    have f_exports := inv.empty.e7 (by omega)
    have f_starts := inv.empty.e8 (by omega)
    have f_elems := inv.empty.e9 (by omega)
    have f_funcs := inv.empty.e10 (by omega)
    have f_datas := inv.empty.e11 (by omega)
    have f_datacounts := inv.empty.e12 (by omega)
    refine ⟨{ s with types := xs }, ?_, ⟨fun h => by simp at h, fun _ => by simpa using inv.empty.e2 (by omega), fun _ => by simpa using inv.empty.e4 (by omega), fun _ => by simpa using inv.empty.e5 (by omega), fun _ => by simpa using inv.empty.e6 (by omega), fun _ => by simpa using inv.empty.e7 (by omega), fun _ => by simpa using inv.empty.e8 (by omega), fun _ => by simpa using inv.empty.e9 (by omega), fun _ => by simpa using inv.empty.e10 (by omega), fun _ => by simpa using inv.empty.e11 (by omega), fun _ => by simpa using inv.empty.e12 (by omega)⟩, ?_, ?_, ?_, ?_, ?_, ?_⟩
    · simp [inv.defs, Sections.toDefs, f_types, f_imports, f_tables, f_memories, f_globals, f_exports, f_starts, f_elems, f_funcs, f_datas, f_datacounts]
    · intro _; exact inv.t4f0 (by omega)
    · have ft' := ft (by omega); simp [inv.bytes, e1, encSections', encVecSection, encOneSection, he, ft', f_types, f_imports, f_tables, f_memories, f_globals, f_exports, f_starts, f_elems, f_funcs, f_datas, f_datacounts]
    · simpa using inv.nfuncs
    · simpa using inv.tys
    · simpa using inv.le
    · exact ⟨inv.ok.customs, q1, inv.ok.imports, inv.ok.tables, inv.ok.globals, inv.ok.exports, inv.ok.elems, inv.ok.funcs, inv.ok.datas, inv.ok.starts, inv.ok.datacounts⟩
  · -- 2 imports
    obtain ⟨xs, r1, h1, h2⟩ := bind_ok hbody
    obtain ⟨e1, q1⟩ := rVec_ok (rImport T true) (encImport T) (fun x => importOk T x = true) (fun bs x r h => rImport_ok hT h) h1
    simp only [addDefs] at h2
    obtain ⟨u2, r2, g1, g2⟩ := bind_ok h2
    obtain ⟨hne, rfl⟩ := guardP_ok g1
    obtain ⟨hst, hr⟩ := pure_ok g2
    subst hst
    subst hr
    have he : xs.isEmpty = false := by simpa using hne
    have hl : st.last < 2 := orderOk_lt (by omega) hord
    have ft : 2 < 3 → st.type4func = [] := fun _ => inv.t4f0 (by omega)
    have f_imports := inv.empty.e2 (by omega)
    have f_tables := inv.empty.e4 (by omega)
    have f_memories := inv.empty.e5 (by omega)
    have f_globals := inv.empty.e6 (by omega)
    have f_exports := inv.empty.e7 (by omega)
    have f_starts := inv.empty.e8 (by omega)
    have f_elems := inv.empty.e9 (by omega)
    have f_funcs := inv.empty.e10 (by omega)
    have f_datas := inv.empty.e11 (by omega)
    have f_datacounts := inv.empty.e12 (by omega)
    refine ⟨{ s with imports := xs }, ?_, ⟨fun h => by simp at h, fun h => by simp at h, fun _ => by simpa using inv.empty.e4 (by omega), fun _ => by simpa using inv.empty.e5 (by omega), fun _ => by simpa using inv.empty.e6 (by omega), fun _ => by simpa using inv.empty.e7 (by omega), fun _ => by simpa using inv.empty.e8 (by omega), fun _ => by simpa using inv.empty.e9 (by omega), fun _ => by simpa using inv.empty.e10 (by omega), fun _ => by simpa using inv.empty.e11 (by omega), fun _ => by simpa using inv.empty.e12 (by omega)⟩, ?_, ?_, ?_, ?_, ?_, ?_⟩
    · simp [inv.defs, Sections.toDefs, f_imports, f_tables, f_memories, f_globals, f_exports, f_starts, f_elems, f_funcs, f_datas, f_datacounts]
    · intro _; exact inv.t4f0 (by omega)
    · have ft' := ft (by omega); simp [inv.bytes, e1, encSections', encVecSection, encOneSection, he, ft', f_imports, f_tables, f_memories, f_globals, f_exports, f_starts, f_elems, f_funcs, f_datas, f_datacounts]
    · simpa using inv.nfuncs
    · simpa using inv.tys
    · simpa using inv.le
    · exact ⟨inv.ok.customs, inv.ok.types, q1, inv.ok.tables, inv.ok.globals, inv.ok.exports, inv.ok.elems, inv.ok.funcs, inv.ok.datas, inv.ok.starts, inv.ok.datacounts⟩
  · -- 3 function
    obtain ⟨xs, r1, h1, h2⟩ := bind_ok hbody
    obtain ⟨e1, _⟩ := rVec_ok (rU true) encU (fun _ => True) (fun bs x r h => ⟨rU_ok h, trivial⟩) h1
    obtain ⟨u2, r2, g1, g2⟩ := bind_ok h2
    obtain ⟨hne, rfl⟩ := guardP_ok g1
    obtain ⟨hst, hr⟩ := pure_ok g2
    subst hst
    subst hr
    have he : xs.isEmpty = false := by simpa using hne
    have hl : st.last < 3 := orderOk_lt (by omega) hord
    have ft := inv.t4f0 hl
    have f_tables := inv.empty.e4 (by omega)
    have f_memories := inv.empty.e5 (by omega)
    have f_globals := inv.empty.e6 (by omega)
    have f_exports := inv.empty.e7 (by omega)
    have f_starts := inv.empty.e8 (by omega)
    have f_elems := inv.empty.e9 (by omega)
    have f_funcs := inv.empty.e10 (by omega)
    have f_datas := inv.empty.e11 (by omega)
    have f_datacounts := inv.empty.e12 (by omega)
    refine ⟨s, ?_, ⟨fun h => by simp at h, fun h => by simp at h, fun _ => by simpa using inv.empty.e4 (by omega), fun _ => by simpa using inv.empty.e5 (by omega), fun _ => by simpa using inv.empty.e6 (by omega), fun _ => by simpa using inv.empty.e7 (by omega), fun _ => by simpa using inv.empty.e8 (by omega), fun _ => by simpa using inv.empty.e9 (by omega), fun _ => by simpa using inv.empty.e10 (by omega), fun _ => by simpa using inv.empty.e11 (by omega), fun _ => by simpa using inv.empty.e12 (by omega)⟩, ?_, ?_, ?_, ?_, ?_, inv.ok⟩
    · simpa using inv.defs
    · intro hh; simp at hh
    · simp [inv.bytes, e1, ft, encSections', encVecSection, encOneSection, he, f_tables, f_memories, f_globals, f_exports, f_starts, f_elems, f_funcs, f_datas, f_datacounts]
    · simpa using inv.nfuncs
    · simp [f_funcs]
    · simp [f_funcs]
  · -- 4 tables
    obtain ⟨xs, r1, h1, h2⟩ := bind_ok hbody
    obtain ⟨e1, q1⟩ := rVec_ok (rTable T true) (encTable T) (fun x => (x.kind == T.funcref || x.kind == T.externref) = true) (fun bs x r h => rTable_ok hT h) h1
    simp only [addDefs] at h2
    obtain ⟨u2, r2, g1, g2⟩ := bind_ok h2
    obtain ⟨hne, rfl⟩ := guardP_ok g1
    obtain ⟨hst, hr⟩ := pure_ok g2
    subst hst
    subst hr
    have he : xs.isEmpty = false := by simpa using hne
    have hl : st.last < 4 := orderOk_lt (by omega) hord
    have ft : 4 < 3 → st.type4func = [] := fun _ => inv.t4f0 (by omega)
    have f_tables := inv.empty.e4 (by omega)
    have f_memories := inv.empty.e5 (by omega)
    have f_globals := inv.empty.e6 (by omega)
    have f_exports := inv.empty.e7 (by omega)
    have f_starts := inv.empty.e8 (by omega)
    have f_elems := inv.empty.e9 (by omega)
    have f_funcs := inv.empty.e10 (by omega)
    have f_datas := inv.empty.e11 (by omega)
    have f_datacounts := inv.empty.e12 (by omega)
    refine ⟨{ s with tables := xs }, ?_, ⟨fun h => by simp at h, fun h => by simp at h, fun h => by simp at h, fun _ => by simpa using inv.empty.e5 (by omega), fun _ => by simpa using inv.empty.e6 (by omega), fun _ => by simpa using inv.empty.e7 (by omega), fun _ => by simpa using inv.empty.e8 (by omega), fun _ => by simpa using inv.empty.e9 (by omega), fun _ => by simpa using inv.empty.e10 (by omega), fun _ => by simpa using inv.empty.e11 (by omega), fun _ => by simpa using inv.empty.e12 (by omega)⟩, ?_, ?_, ?_, ?_, ?_, ?_⟩
    · simp [inv.defs, Sections.toDefs, f_tables, f_memories, f_globals, f_exports, f_starts, f_elems, f_funcs, f_datas, f_datacounts]
    · intro hh; simp at hh
    · simp [inv.bytes, e1, encSections', encVecSection, encOneSection, he, f_tables, f_memories, f_globals, f_exports, f_starts, f_elems, f_funcs, f_datas, f_datacounts]
    · simpa using inv.nfuncs
    · simpa using inv.tys
    · simpa using inv.le
    · exact ⟨inv.ok.customs, inv.ok.types, inv.ok.imports, q1, inv.ok.globals, inv.ok.exports, inv.ok.elems, inv.ok.funcs, inv.ok.datas, inv.ok.starts, inv.ok.datacounts⟩
  · -- 5 memories
    obtain ⟨xs, r1, h1, h2⟩ := bind_ok hbody
    obtain ⟨e1, q1⟩ := rVec_ok (rLimits true) (encLimits) (fun _ => True) (fun bs x r h => ⟨rLimits_ok h, trivial⟩) h1
    simp only [addDefs] at h2
    obtain ⟨u2, r2, g1, g2⟩ := bind_ok h2
    obtain ⟨hne, rfl⟩ := guardP_ok g1
    obtain ⟨hst, hr⟩ := pure_ok g2
    subst hst
    subst hr
    have he : xs.isEmpty = false := by simpa using hne
    have hl : st.last < 5 := orderOk_lt (by omega) hord
    have ft : 5 < 3 → st.type4func = [] := fun _ => inv.t4f0 (by omega)
    have f_memories := inv.empty.e5 (by omega)
    have f_globals := inv.empty.e6 (by omega)
    have f_exports := inv.empty.e7 (by omega)
    have f_starts := inv.empty.e8 (by omega)
    have f_elems := inv.empty.e9 (by omega)
    have f_funcs := inv.empty.e10 (by omega)
    have f_datas := inv.empty.e11 (by omega)
    have f_datacounts := inv.empty.e12 (by omega)
    refine ⟨{ s with memories := xs }, ?_, ⟨fun h => by simp at h, fun h => by simp at h, fun h => by simp at h, fun h => by simp at h, fun _ => by simpa using inv.empty.e6 (by omega), fun _ => by simpa using inv.empty.e7 (by omega), fun _ => by simpa using inv.empty.e8 (by omega), fun _ => by simpa using inv.empty.e9 (by omega), fun _ => by simpa using inv.empty.e10 (by omega), fun _ => by simpa using inv.empty.e11 (by omega), fun _ => by simpa using inv.empty.e12 (by omega)⟩, ?_, ?_, ?_, ?_, ?_, ?_⟩
    · simp [inv.defs, Sections.toDefs, f_memories, f_globals, f_exports, f_starts, f_elems, f_funcs, f_datas, f_datacounts]
    · intro hh; simp at hh
    · simp [inv.bytes, e1, encSections', encVecSection, encOneSection, he, f_memories, f_globals, f_exports, f_starts, f_elems, f_funcs, f_datas, f_datacounts]
    · simpa using inv.nfuncs
    · simpa using inv.tys
    · simpa using inv.le
    · exact ⟨inv.ok.customs, inv.ok.types, inv.ok.imports, inv.ok.tables, inv.ok.globals, inv.ok.exports, inv.ok.elems, inv.ok.funcs, inv.ok.datas, inv.ok.starts, inv.ok.datacounts⟩
  · -- 6 globals
    obtain ⟨xs, r1, h1, h2⟩ := bind_ok hbody
    obtain ⟨e1, q1⟩ := rVec_ok (rGlobal T true) (encGlobal T) (fun x => (typeOk T x.ty && exprOk T x.init) = true) (fun bs x r h => rGlobal_ok hT h) h1
    simp only [addDefs] at h2
    obtain ⟨u2, r2, g1, g2⟩ := bind_ok h2
    obtain ⟨hne, rfl⟩ := guardP_ok g1
    obtain ⟨hst, hr⟩ := pure_ok g2
    subst hst
    subst hr
    have he : xs.isEmpty = false := by simpa using hne
    have hl : st.last < 6 := orderOk_lt (by omega) hord
    have ft : 6 < 3 → st.type4func = [] := fun _ => inv.t4f0 (by omega)
    have f_globals := inv.empty.e6 (by omega)
    have f_exports := inv.empty.e7 (by omega)
    have f_starts := inv.empty.e8 (by omega)
    have f_elems := inv.empty.e9 (by omega)
    have f_funcs := inv.empty.e10 (by omega)
    have f_datas := inv.empty.e11 (by omega)
    have f_datacounts := inv.empty.e12 (by omega)
    refine ⟨{ s with globals := xs }, ?_, ⟨fun h => by simp at h, fun h => by simp at h, fun h => by simp at h, fun h => by simp at h, fun h => by simp at h, fun _ => by simpa using inv.empty.e7 (by omega), fun _ => by simpa using inv.empty.e8 (by omega), fun _ => by simpa using inv.empty.e9 (by omega), fun _ => by simpa using inv.empty.e10 (by omega), fun _ => by simpa using inv.empty.e11 (by omega), fun _ => by simpa using inv.empty.e12 (by omega)⟩, ?_, ?_, ?_, ?_, ?_, ?_⟩
    · simp [inv.defs, Sections.toDefs, f_globals, f_exports, f_starts, f_elems, f_funcs, f_datas, f_datacounts]
    · intro hh; simp at hh
    · simp [inv.bytes, e1, encSections', encVecSection, encOneSection, he, f_globals, f_exports, f_starts, f_elems, f_funcs, f_datas, f_datacounts]
    · simpa using inv.nfuncs
    · simpa using inv.tys
    · simpa using inv.le
    · exact ⟨inv.ok.customs, inv.ok.types, inv.ok.imports, inv.ok.tables, q1, inv.ok.exports, inv.ok.elems, inv.ok.funcs, inv.ok.datas, inv.ok.starts, inv.ok.datacounts⟩
  · -- 7 exports
    obtain ⟨xs, r1, h1, h2⟩ := bind_ok hbody
    obtain ⟨e1, q1⟩ := rVec_ok (rExport true) (encExport) (fun x => (utf8Valid x.name && decide (x.kind < 4)) = true) (fun bs x r h => rExport_ok h) h1
    simp only [addDefs] at h2
    obtain ⟨u2, r2, g1, g2⟩ := bind_ok h2
    obtain ⟨hne, rfl⟩ := guardP_ok g1
    obtain ⟨hst, hr⟩ := pure_ok g2
    subst hst
    subst hr
    have he : xs.isEmpty = false := by simpa using hne
    have hl : st.last < 7 := orderOk_lt (by omega) hord
    have ft : 7 < 3 → st.type4func = [] := fun _ => inv.t4f0 (by omega)
    have f_exports := inv.empty.e7 (by omega)
    have f_starts := inv.empty.e8 (by omega)
    have f_elems := inv.empty.e9 (by omega)
    have f_funcs := inv.empty.e10 (by omega)
    have f_datas := inv.empty.e11 (by omega)
    have f_datacounts := inv.empty.e12 (by omega)
    refine ⟨{ s with exports := xs }, ?_, ⟨fun h => by simp at h, fun h => by simp at h, fun h => by simp at h, fun h => by simp at h, fun h => by simp at h, fun h => by simp at h, fun _ => by simpa using inv.empty.e8 (by omega), fun _ => by simpa using inv.empty.e9 (by omega), fun _ => by simpa using inv.empty.e10 (by omega), fun _ => by simpa using inv.empty.e11 (by omega), fun _ => by simpa using inv.empty.e12 (by omega)⟩, ?_, ?_, ?_, ?_, ?_, ?_⟩
    · simp [inv.defs, Sections.toDefs, f_exports, f_starts, f_elems, f_funcs, f_datas, f_datacounts]
    · intro hh; simp at hh
    · simp [inv.bytes, e1, encSections', encVecSection, encOneSection, he, f_exports, f_starts, f_elems, f_funcs, f_datas, f_datacounts]
    · simpa using inv.nfuncs
    · simpa using inv.tys
    · simpa using inv.le
    · exact ⟨inv.ok.customs, inv.ok.types, inv.ok.imports, inv.ok.tables, inv.ok.globals, q1, inv.ok.elems, inv.ok.funcs, inv.ok.datas, inv.ok.starts, inv.ok.datacounts⟩
  · -- 8 starts
    obtain ⟨x, r1, h1, h2⟩ := bind_ok hbody
    obtain ⟨hst, hr⟩ := pure_ok h2
    subst hst
    subst hr
    have e1 := rU_ok h1
    have hl : st.last < 8 := orderOk_lt (by omega) hord
    have f_starts := inv.empty.e8 (by omega)
    have f_elems := inv.empty.e9 (by omega)
    have f_funcs := inv.empty.e10 (by omega)
    have f_datas := inv.empty.e11 (by omega)
    have f_datacounts := inv.empty.e12 (by omega)
    refine ⟨{ s with starts := [x] }, ?_, ⟨fun h => by simp at h, fun h => by simp at h, fun h => by simp at h, fun h => by simp at h, fun h => by simp at h, fun h => by simp at h, fun h => by simp at h, fun _ => by simpa using inv.empty.e9 (by omega), fun _ => by simpa using inv.empty.e10 (by omega), fun _ => by simpa using inv.empty.e11 (by omega), fun _ => by simpa using inv.empty.e12 (by omega)⟩, ?_, ?_, ?_, ?_, ?_, ?_⟩
    · simp [inv.defs, Sections.toDefs, f_starts, f_elems, f_funcs, f_datas, f_datacounts]
    · intro hh; simp at hh
    · simp [inv.bytes, e1, encSections', encVecSection, encOneSection, f_starts, f_elems, f_funcs, f_datas, f_datacounts]
    · simpa using inv.nfuncs
    · simpa using inv.tys
    · simpa using inv.le
    · exact ⟨inv.ok.customs, inv.ok.types, inv.ok.imports, inv.ok.tables, inv.ok.globals, inv.ok.exports, inv.ok.elems, inv.ok.funcs, inv.ok.datas, by simp, inv.ok.datacounts⟩
  · -- 9 elems
    obtain ⟨xs, r1, h1, h2⟩ := bind_ok hbody
    obtain ⟨e1, q1⟩ := rVec_ok (rElem T true) (encElem T) (fun x => elemOk T x = true) (fun bs x r h => rElem_ok hT h) h1
    simp only [addDefs] at h2
    obtain ⟨u2, r2, g1, g2⟩ := bind_ok h2
    obtain ⟨hne, rfl⟩ := guardP_ok g1
    obtain ⟨hst, hr⟩ := pure_ok g2
    subst hst
    subst hr
    have he : xs.isEmpty = false := by simpa using hne
    have hl : st.last < 9 := orderOk_lt (by omega) hord
    have ft : 9 < 3 → st.type4func = [] := fun _ => inv.t4f0 (by omega)
    have f_elems := inv.empty.e9 (by omega)
    have f_funcs := inv.empty.e10 (by omega)
    have f_datas := inv.empty.e11 (by omega)
    have f_datacounts := inv.empty.e12 (by omega)
    refine ⟨{ s with elems := xs }, ?_, ⟨fun h => by simp at h, fun h => by simp at h, fun h => by simp at h, fun h => by simp at h, fun h => by simp at h, fun h => by simp at h, fun h => by simp at h, fun h => by simp at h, fun _ => by simpa using inv.empty.e10 (by omega), fun _ => by simpa using inv.empty.e11 (by omega), fun _ => by simpa using inv.empty.e12 (by omega)⟩, ?_, ?_, ?_, ?_, ?_, ?_⟩
    · simp [inv.defs, Sections.toDefs, f_elems, f_funcs, f_datas, f_datacounts]
    · intro hh; simp at hh
    · simp [inv.bytes, e1, encSections', encVecSection, encOneSection, he, f_elems, f_funcs, f_datas, f_datacounts]
    · simpa using inv.nfuncs
    · simpa using inv.tys
    · simpa using inv.le
    · exact ⟨inv.ok.customs, inv.ok.types, inv.ok.imports, inv.ok.tables, inv.ok.globals, inv.ok.exports, q1, inv.ok.funcs, inv.ok.datas, inv.ok.starts, inv.ok.datacounts⟩
  · -- 10 code
    obtain ⟨n, r1, h1, h2⟩ := bind_ok hbody
    obtain ⟨xs, r2, h3, h4⟩ := bind_ok h2
    obtain ⟨u2, r3, g1, g2⟩ := bind_ok h4
    obtain ⟨hne, rfl⟩ := guardP_ok g1
    obtain ⟨hst, hr⟩ := pure_ok g2
    subst hst
    subst hr
    have e1 := rU_ok h1
    obtain ⟨e2, l2, o2, t2, b2⟩ := rFuncs_ok hT _ _ _ _ _ _ h3
    have he : xs.isEmpty = false := by simpa using hne
    have hl : st.last < 10 := orderOk_lt (by omega) hord
    have f_funcs := inv.empty.e10 (by omega)
    have f_datas := inv.empty.e11 (by omega)
    have f_datacounts := inv.empty.e12 (by omega)
    refine ⟨{ s with funcs := xs }, ?_, ⟨fun h => by simp at h, fun h => by simp at h, fun h => by simp at h, fun h => by simp at h, fun h => by simp at h, fun h => by simp at h, fun h => by simp at h, fun h => by simp at h, fun h => by simp at h, fun _ => by simpa using inv.empty.e11 (by omega), fun _ => by simpa using inv.empty.e12 (by omega)⟩, ?_, ?_, ?_, ?_, ?_, ?_⟩
    · simp [inv.defs, Sections.toDefs, f_funcs, f_datas, f_datacounts]
    · intro hh; simp at hh
    · simp [inv.bytes, e1, e2, l2, encSections', encVecSection, encOneSection, encVec, he, f_funcs, f_datas, f_datacounts]
    · simp [inv.nfuncs, f_funcs]
    · simpa [l2] using t2
    · show xs.length ≤ st.type4func.length
      omega
    · exact ⟨inv.ok.customs, inv.ok.types, inv.ok.imports, inv.ok.tables, inv.ok.globals, inv.ok.exports, inv.ok.elems, o2, inv.ok.datas, inv.ok.starts, inv.ok.datacounts⟩
  · -- 11 datas
    obtain ⟨xs, r1, h1, h2⟩ := bind_ok hbody
    obtain ⟨e1, q1⟩ := rVec_ok (rData T true) (encData T) (fun x => dataOk T x = true) (fun bs x r h => rData_ok hT h) h1
    simp only [addDefs] at h2
    obtain ⟨u2, r2, g1, g2⟩ := bind_ok h2
    obtain ⟨hne, rfl⟩ := guardP_ok g1
    obtain ⟨hst, hr⟩ := pure_ok g2
    subst hst
    subst hr
    have he : xs.isEmpty = false := by simpa using hne
    have hl : st.last < 11 := orderOk_lt (by omega) hord
    have ft : 11 < 3 → st.type4func = [] := fun _ => inv.t4f0 (by omega)
    have f_datas := inv.empty.e11 (by omega)
    have f_datacounts := inv.empty.e12 (by omega)
    refine ⟨{ s with datas := xs }, ?_, ⟨fun h => by simp at h, fun h => by simp at h, fun h => by simp at h, fun h => by simp at h, fun h => by simp at h, fun h => by simp at h, fun h => by simp at h, fun h => by simp at h, fun h => by simp at h, fun h => by simp at h, fun _ => by simpa using inv.empty.e12 (by omega)⟩, ?_, ?_, ?_, ?_, ?_, ?_⟩
    · simp [inv.defs, Sections.toDefs, f_datas, f_datacounts]
    · intro hh; simp at hh
    · simp [inv.bytes, e1, encSections', encVecSection, encOneSection, he, f_datas, f_datacounts]
    · simpa using inv.nfuncs
    · simpa using inv.tys
    · simpa using inv.le
    · exact ⟨inv.ok.customs, inv.ok.types, inv.ok.imports, inv.ok.tables, inv.ok.globals, inv.ok.exports, inv.ok.elems, inv.ok.funcs, q1, inv.ok.starts, inv.ok.datacounts⟩
  · -- 12 datacounts
    obtain ⟨x, r1, h1, h2⟩ := bind_ok hbody
    obtain ⟨hst, hr⟩ := pure_ok h2
    subst hst
    subst hr
    have e1 := rU_ok h1
    have hl : st.last < 12 := orderOk_lt (by omega) hord
    have f_datacounts := inv.empty.e12 (by omega)
    refine ⟨{ s with datacounts := [x] }, ?_, ⟨fun h => by simp at h, fun h => by simp at h, fun h => by simp at h, fun h => by simp at h, fun h => by simp at h, fun h => by simp at h, fun h => by simp at h, fun h => by simp at h, fun h => by simp at h, fun h => by simp at h, fun h => by simp at h⟩, ?_, ?_, ?_, ?_, ?_, ?_⟩
    · simp [inv.defs, Sections.toDefs, f_datacounts]
    · intro hh; simp at hh
    · simp [inv.bytes, e1, encSections', encVecSection, encOneSection, f_datacounts]
    · simpa using inv.nfuncs
    · simpa using inv.tys
    · simpa using inv.le
    · exact ⟨inv.ok.customs, inv.ok.types, inv.ok.imports, inv.ok.tables, inv.ok.globals, inv.ok.exports, inv.ok.elems, inv.ok.funcs, inv.ok.datas, inv.ok.starts, by simp⟩
  · -- unknown section id
    simp at hbody

omit hT in
theorem sectionBody_id_le {strict : Bool} {st : RState} {id : Nat} {payload : Bytes} {x : RState × Bytes}
    (h : rSectionBody T strict st id payload = .ok x) : id ≤ 12 := by
  obtain ⟨st', rest⟩ := x
  simp only [rSectionBody] at h
  obtain ⟨u, r, hg, hbody⟩ := bind_ok h
  split at hbody <;> first | omega | simp at hbody

omit hT in
theorem rFrame_ok {bs rest payload : Bytes} {id : Nat} (h : rFrame true bs = .ok ((id, payload), rest)) :
    bs = id :: (encSized payload ++ rest) := by
  obtain ⟨i, r, h1, h2⟩ := bind_ok h
  obtain ⟨p, r2, h3, h4⟩ := bind_ok h2
  obtain ⟨hp, rfl⟩ := pure_ok h4
  simp only [Prod.mk.injEq] at hp
  obtain ⟨rfl, rfl⟩ := hp
  rw [rByte_ok h1, rSizedBytes_ok h3]

theorem rSections_ok : ∀ (fuel : Nat) (st st' : RState) (bs rest C : Bytes) (s : Sections),
    Inv T st C s → rSections T true fuel st bs = .ok (st', rest) → rest = [] ∧ ∃ s', Inv T st' (C ++ bs) s'
  | 0, _, _, _, _, _, _, _, h => by simp [rSections] at h
  | f + 1, st, st', bs, rest, C, s, inv, h => by
    simp only [rSections] at h
    split at h
    · rename_i he
      simp only [Except.ok.injEq, Prod.mk.injEq] at h
      obtain ⟨rfl, rfl⟩ := h
      have : bs = [] := by simpa using he
      subst this
      exact ⟨rfl, s, by simpa using inv⟩
    · split at h
      · simp at h
      · rename_i id payload r hfr
        split at h
        · simp at h
        · rename_i st1 rem hb
          split at h
          · rename_i hrem
            have : rem = [] := by simpa using hrem
            subst this
            obtain ⟨s1, inv1⟩ := step_inv hT inv hb
            obtain ⟨hr, s2, inv2⟩ := rSections_ok f st1 st' r rest _ s1 inv1 h
            have hid : id < 128 := by have := sectionBody_id_le hb; omega
            have e := rFrame_ok hfr
            refine ⟨hr, s2, ?_⟩
            have : C ++ bs = C ++ encSection id payload ++ r := by
              rw [e]; simp [encSection, encU_small id hid]
            rw [this]; exact inv2
          · simp at h

omit hT in
theorem rHeader_ok {bs rest : Bytes} {u : Unit} (h : rHeader bs = .ok (u, rest)) : bs = header ++ rest := by
  simp only [rHeader] at h
  obtain ⟨magic, r, h1, h2⟩ := bind_ok h
  obtain ⟨u1, r2, h3, h4⟩ := bind_ok h2
  obtain ⟨hm, rfl⟩ := guardP_ok h3
  obtain ⟨ver, r3, h5, h6⟩ := bind_ok h4
  obtain ⟨hv, rfl⟩ := guardP_ok h6
  obtain ⟨e1, _⟩ := rExact_ok h1
  obtain ⟨e2, _⟩ := rExact_ok h5
  have hm' : magic = [0x00, 0x61, 0x73, 0x6D] := by simpa using hm
  have hv' : ver = [1, 0, 0, 0] := by simpa using hv
  rw [e1, e2, hm', hv']; simp [header]

omit hT in
theorem valid_of_sectionsOk (s : Sections) (h : SectionsOk T s) : Valid T s.toDefs = true := by
  simp only [Valid, Bool.and_eq_true, List.all_eq_true, decide_eq_true_eq, split_toDefs]
  refine ⟨⟨?_, h.starts⟩, h.datacounts⟩
  intro d hd
  simp only [Sections.toDefs, List.mem_append, List.mem_map] at hd
  rcases hd with ((((((((((( ⟨x, hx, rfl⟩ | ⟨x, hx, rfl⟩) | ⟨x, hx, rfl⟩) | ⟨x, hx, rfl⟩) | ⟨x, hx, rfl⟩) | ⟨x, hx, rfl⟩) |
    ⟨x, hx, rfl⟩) | ⟨x, hx, rfl⟩) | ⟨x, hx, rfl⟩) | ⟨x, hx, rfl⟩) | ⟨x, hx, rfl⟩) | ⟨x, hx, rfl⟩)
  · simpa [defOk] using h.customs x hx
  · simpa [defOk] using h.types x hx
  · simpa [defOk] using h.imports x hx
  · simpa [defOk] using h.tables x hx
  · simp [defOk]
  · simpa [defOk] using h.globals x hx
  · simpa [defOk] using h.exports x hx
  · simp [defOk]
  · simpa [defOk] using h.elems x hx
  · simpa [defOk] using h.funcs x hx
  · simpa [defOk] using h.datas x hx
  · simp [defOk]

/-- **converse**: whatever the strict reader accepts is what the writer emits for the module it
    returns, and that module is in the feature set -/
theorem readModule_ok {bs : Bytes} {m : List Def} (h : readModule T true bs = .ok m) :
    encModule T m = bs ∧ Valid T m = true ∧ normalize m = m := by
  simp only [readModule] at h
  split at h
  · simp at h
  · rename_i st rest hrun
    split at h
    · simp at h
    · rename_i hchk
      simp only [Except.ok.injEq] at h
      subst h
      obtain ⟨u, r, h1, h2⟩ := bind_ok hrun
      have e1 := rHeader_ok h1
      have inv0 : Inv T {} [] {} :=
        ⟨rfl, ⟨fun _ => rfl, fun _ => rfl, fun _ => rfl, fun _ => rfl, fun _ => rfl, fun _ => rfl, fun _ => rfl,
          fun _ => rfl, fun _ => rfl, fun _ => rfl, fun _ => rfl⟩, fun _ => rfl, by simp [encSections', encVecSection, encOneSection],
          rfl, rfl, by simp,
          ⟨by simp, by simp, by simp, by simp, by simp, by simp, by simp, by simp, by simp, by simp, by simp⟩⟩
      obtain ⟨_, s, inv⟩ := rSections_ok hT _ _ _ _ _ _ _ inv0 h2
      have hlen : st.type4func.length = s.funcs.length := by
        have : (st.type4func.length == st.nfuncs) = true := by simpa using hchk
        rw [← inv.nfuncs]; simpa using this
      have htys : s.funcs.map (·.typeIdx) = st.type4func := by
        have := inv.tys
        rw [← hlen, List.take_length] at this
        exact this
      have henc : encSections' T s st.type4func = encSections T s := by
        rw [← htys]
        simp [encSections', encSections, encVecSection, encVec, List.flatMap_map]
      refine ⟨?_, ?_, ?_⟩
      · rw [inv.defs, encModule, split_toDefs, ← henc, ← inv.bytes, e1]; simp
      · rw [inv.defs]; exact valid_of_sectionsOk s inv.ok
      · rw [inv.defs, normalize, split_toDefs]

end Sane

end Proofs.WasmBin
