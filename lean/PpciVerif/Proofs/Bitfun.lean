import PpciVerif.Model.Bitfun
import PpciVerif.Spec.ArmImm
import PpciVerif.Proofs.PyInt
/-!
The hand model of `ppci/utils/bitfun.py` computes the `Spec.Bits` definitions
(helper lemmas for `Props/C39.lean`).
-/
namespace Proofs.Bitfun
open Spec.Bits Proofs.Bits Proofs.PyInt Model Model.Bitfun

/-! ### rotl / rotr -/

theorem rotl_eq {bits : Nat} (hb : 0 < bits) {v : Int} (hv : fitsU bits v) (count : Int) :
    Model.Bitfun.rotl v count bits = .ok (Spec.Bits.rotl bits v count : Int) := by
  unfold Model.Bitfun.rotl
  rw [if_neg (by omega)]
  dsimp only
  congr 1
  apply eq_of_testBit_eq; intro i
  have hc := idx_lt hb count
  have hcc := idx_cast hb count
  generalize (count % (bits : Int)).toNat = c at *
  rw [testBit_or, and_mask, ← wrapU, testBit_wrapU, testBit_mul_pow, testBit_div_pow, testBit_rotl]
  have hidx : ((i : Int) - count) % bits = ((i : Int) - c) % bits := by rw [hcc, Int.sub_emod_emod]
  rw [hidx]
  by_cases hi : i < bits
  · by_cases hci : c ≤ i
    · have e : ((i : Int) - c) % bits = ((i - c : Nat) : Int) := by
        rw [Int.emod_eq_of_lt (by omega) (by omega)]; omega
      rw [e, testBit_of_fitsU hv (show bits ≤ i + (bits - c) by omega)]
      simp [hi, hci]
    · have e : ((i : Int) - c) % bits = ((i + bits - c : Nat) : Int) := by
        rw [← Int.add_emod_right, Int.emod_eq_of_lt (by omega) (by omega)]; omega
      rw [e]
      have : i + (bits - c) = i + bits - c := by omega
      simp [hi, hci, this]
  · rw [testBit_of_fitsU hv (show bits ≤ i + (bits - c) by omega)]
    simp [hi]

theorem rotr_eq {bits : Nat} (hb : 0 < bits) {v : Int} (hv : fitsU bits v) (count : Int) :
    Model.Bitfun.rotr v count bits = .ok (Spec.Bits.rotr bits v count : Int) := by
  unfold Model.Bitfun.rotr
  rw [if_neg (by omega)]
  dsimp only
  congr 1
  apply eq_of_testBit_eq; intro i
  have hc := idx_lt hb count
  have hcc := idx_cast hb count
  generalize (count % (bits : Int)).toNat = c at *
  rw [testBit_or, and_mask, ← wrapU, testBit_wrapU, testBit_mul_pow, testBit_div_pow, testBit_rotr]
  have hidx : ((i : Int) + count) % bits = ((i : Int) + c) % bits := by rw [hcc, Int.add_emod_emod]
  rw [hidx]
  by_cases hi : i < bits
  · by_cases hci : i + c < bits
    · have e : ((i : Int) + c) % bits = ((i + c : Nat) : Int) := by
        rw [Int.emod_eq_of_lt (by omega) (by omega)]; omega
      rw [e]
      simp [hi, show ¬ (bits - c ≤ i) by omega]
      congr 1
    · have e : ((i : Int) + c) % bits = ((i + c - bits : Nat) : Int) := by
        have : (i : Int) + c = ((i : Int) + c - bits) + bits := by omega
        rw [this, Int.add_emod_right, Int.emod_eq_of_lt (by omega) (by omega)]; omega
      rw [e, testBit_of_fitsU hv (show bits ≤ i + c by omega)]
      have : i - (bits - c) = i + c - bits := by omega
      simp [hi, show bits - c ≤ i by omega, this]
  · rw [testBit_of_fitsU hv (show bits ≤ i + c by omega)]
    simp [hi]

/-! ### rotate_right / rotate_left (width 32) -/

theorem rotateRight_eq {v n : Int} (hv : fitsU 32 v) (h0 : 0 ≤ n) (h1 : n ≤ 32) :
    rotateRight v n = .ok (Spec.Bits.rotr 32 v n : Int) := by
  unfold rotateRight
  rw [if_neg (by omega), if_neg (by omega)]
  dsimp only
  congr 1
  apply eq_of_testBit_eq; intro i
  obtain ⟨k, rfl⟩ := Int.eq_ofNat_of_zero_le h0
  have hk : k ≤ 32 := by omega
  simp only [Int.toNat_natCast]
  rw [testBit_or, and_mask, testBit_mul_pow, ← wrapU, testBit_wrapU, testBit_div_pow, testBit_rotr]
  by_cases hi : i < 32
  · by_cases hik : i + k < 32
    · have e : (((i : Int) + (k : Int)) % ((32 : Nat) : Int)).toNat = i + k := by omega
      rw [e]; simp [hi, show ¬ (32 - k ≤ i) by omega]
    · have e : (((i : Int) + (k : Int)) % ((32 : Nat) : Int)).toNat = i + k - 32 := by omega
      rw [e, testBit_of_fitsU hv (show 32 ≤ i + k by omega)]
      have : i - (32 - k) = i + k - 32 := by omega
      simp [hi, show 32 - k ≤ i by omega, this]; omega
  · rw [testBit_of_fitsU hv (show 32 ≤ i + k by omega)]
    simp [hi]
    intro _ _
    exact testBit_of_fitsU hv (by omega)

theorem rotateLeft_eq {v n : Int} (hv : fitsU 32 v) (h0 : 0 ≤ n) (h1 : n < 32) :
    rotateLeft v n = .ok (Spec.Bits.rotl 32 v n : Int) := by
  unfold rotateLeft
  rw [if_neg (by omega), if_neg (by omega), rotateRight_eq hv (by omega) (by omega)]
  have := rotl_eq_rotr_sub 32 v n
  simp only [Nat.cast_ofNat] at this
  rw [this]

/-! ### reverse_bits -/

theorem revLoop_eq (p : Nat) : ∀ (y v : Int),
    revLoop y v p = y + (ofBits p (fun i => testBit v (p - 1 - i)) : Int) := by
  induction p with
  | zero => intro y v; simp [revLoop, ofBits]
  | succ p ih =>
    intro y v
    simp only [revLoop]
    rw [ih, and_one]
    simp only [ofBits]
    have e1 : ofBits p (fun i => testBit (v / 2) (p - 1 - i)) = ofBits p (fun i => testBit v (p - i)) :=
      ofBits_congr (fun i hi => by
        have := testBit_div_pow v 1 (p - 1 - i)
        simp only [Int.pow_one] at this
        rw [this]; congr 1; omega)
    have e2 : (v % 2) * 2 ^ p = if testBit v (p - p) then (2 : Int) ^ p else 0 := by
      have : p - p = 0 := by omega
      rw [this, testBit_zero_eq]
      rcases Int.emod_two_eq v with h | h <;> simp [h]
    rw [e1]; push_cast; rw [← e2]; ring

theorem reverseBits_eq (v : Int) (bits : Nat) : reverseBits v bits = (Spec.Bits.reverse bits v : Int) := by
  unfold reverseBits Spec.Bits.reverse
  rw [revLoop_eq]; simp

/-! ### two's complement conversions -/

theorem toUnsigned_eq (v : Int) (bits : Nat) : toUnsigned v bits = wrapU bits v := by
  simp [toUnsigned, correct, wrapU]

theorem toSigned_eq {bits : Nat} (hb : 1 ≤ bits) (v : Int) : toSigned v bits = wrapS bits v := by
  unfold toSigned correct wrapS
  have hf := fitsU_wrapU bits v
  unfold wrapU at hf
  have key := bitLength_eq_iff hb hf
  have h2 := pow_pred bits hb
  simp only [Bool.true_and, beq_iff_eq]
  by_cases h : 2 ^ (bits - 1) ≤ v % 2 ^ bits
  · rw [if_pos (key.2 h), if_neg (by omega)]
  · rw [if_neg (fun hh => h (key.1 hh)), if_pos (by omega)]

theorem signExtend_eq {bits : Nat} (hb : 1 ≤ bits) (v : Int) : signExtend v bits = .ok (wrapS bits v) := by
  unfold signExtend
  rw [if_neg (by omega)]
  dsimp only
  congr 1
  rw [and_mask, and_pow]
  unfold wrapS
  have hm := emod_mul v (2 ^ (bits - 1)) 2 (pow_pos _) (by decide)
  have h2 := pow_pred bits hb
  rw [Int.mul_comm, ← h2] at hm
  have h0 := Int.emod_nonneg v (pow_ne (bits - 1))
  have h1 := Int.emod_lt_of_pos v (pow_pos (bits - 1))
  unfold testBit
  rcases Int.emod_two_eq (v / 2 ^ (bits - 1)) with h | h
  · rw [h] at hm; simp only [h]; rw [hm]
    simp only [Int.mul_zero, Int.add_zero]
    rw [if_pos h1]; simp
  · rw [h] at hm; simp only [h]; rw [hm]
    simp only [Int.mul_one, decide_true, if_true]
    split <;> omega

/-! ### clz / ctz / popcnt -/

theorem clzLoop_spec (bits : Nat) (hb : 1 ≤ bits) (v : Int) :
    ∀ (r count : Nat), count + r = bits → (∀ i, bits - count ≤ i → i < bits → testBit v i = false) →
      IsClz bits v (clzLoop (2 ^ (bits - 1)) (v * 2 ^ count) count r) := by
  intro r
  induction r with
  | zero =>
    intro count hc hz
    simp only [clzLoop]
    have : count = bits := by omega
    subst this
    exact ⟨Nat.le_refl _, hz, fun h => absurd h (Nat.lt_irrefl _)⟩
  | succ r ih =>
    intro count hc hz
    simp only [clzLoop]
    have hbit : PyInt.and (v * 2 ^ count) (2 ^ (bits - 1)) = 0 ↔ testBit v (bits - 1 - count) = false := by
      rw [and_pow_eq_zero, testBit_mul_pow]; simp [show count ≤ bits - 1 by omega]
    by_cases h : PyInt.and (v * 2 ^ count) (2 ^ (bits - 1)) = 0
    · rw [if_pos h]
      have e : v * 2 ^ count * 2 = v * 2 ^ (count + 1) := by rw [pow_succ']; ring
      rw [e]
      apply ih (count + 1) (by omega)
      intro i h1 h2
      by_cases hi : i = bits - 1 - count
      · subst hi; exact hbit.1 h
      · exact hz i (by omega) h2
    · rw [if_neg h]
      refine ⟨by omega, hz, fun _ => ?_⟩
      have := (not_congr hbit).1 h
      simpa using this

theorem clz_eq {bits : Nat} (hb : 1 ≤ bits) (v : Int) : Model.Bitfun.clz v bits = .ok (Spec.Bits.clz bits v) := by
  unfold Model.Bitfun.clz
  rw [if_neg (by omega)]
  congr 1
  have := clzLoop_spec bits hb v bits 0 (by omega) (fun i h1 h2 => by omega)
  simp only [Int.pow_zero, Int.mul_one] at this
  exact isClz_unique this (clz_isClz bits v)

theorem ctzLoop_spec (bits : Nat) (v : Int) :
    ∀ (r count : Nat), count + r = bits → (∀ i, i < count → testBit v i = false) →
      IsCtz bits v (ctzLoop (v / 2 ^ count) count r) := by
  intro r
  induction r with
  | zero =>
    intro count hc hz
    simp only [ctzLoop]
    have : count = bits := by omega
    subst this
    exact ⟨Nat.le_refl _, hz, fun h => absurd h (Nat.lt_irrefl _)⟩
  | succ r ih =>
    intro count hc hz
    simp only [ctzLoop]
    have hbit : v / 2 ^ count % 2 = 0 ↔ testBit v count = false := by
      unfold testBit
      rcases Int.emod_two_eq (v / 2 ^ count) with h | h <;> simp [h]
    by_cases h : v / 2 ^ count % 2 = 0
    · rw [if_pos h]
      have e : v / 2 ^ count / 2 = v / 2 ^ (count + 1) := by
        rw [ediv_ediv _ _ _ (Int.le_of_lt (pow_pos count)), pow_succ', Int.mul_comm]
      rw [e]
      apply ih (count + 1) (by omega)
      intro i h1
      by_cases hi : i = count
      · subst hi; exact hbit.1 h
      · exact hz i (by omega)
    · rw [if_neg h]
      refine ⟨by omega, hz, fun _ => ?_⟩
      have := (not_congr hbit).1 h
      simpa using this

theorem ctz_eq (v : Int) (bits : Nat) : Model.Bitfun.ctz v bits = Spec.Bits.ctz bits v := by
  unfold Model.Bitfun.ctz
  have := ctzLoop_spec bits v bits 0 (by omega) (fun i h => by omega)
  simp only [Int.pow_zero, Int.ediv_one] at this
  exact isCtz_unique this (ctz_isCtz bits v)

theorem foldl_count (p : Nat → Bool) (l : List Nat) (k : Nat) :
    l.foldl (fun c i => if p i then c + 1 else c) k = k + (l.filter p).length := by
  induction l generalizing k with
  | nil => simp
  | cons a l ih =>
    simp only [List.foldl_cons, List.filter_cons]
    rw [ih]
    by_cases h : p a <;> simp [h]; omega

theorem popcnt_eq (v : Int) (bits : Nat) : popcnt v bits = popcount bits v := by
  unfold popcnt popcount
  have e : (fun count i => if PyInt.and v (2 ^ i) ≠ 0 then count + 1 else count)
      = (fun (count : Nat) i => if testBit v i then count + 1 else count) := by
    funext count i
    have := and_pow_eq_zero v i
    by_cases h : testBit v i
    · have hne : PyInt.and v (2 ^ i) ≠ 0 := fun hh => by rw [this.1 hh] at h; cases h
      rw [if_pos hne, if_pos h]
    · have hz : PyInt.and v (2 ^ i) = 0 := this.2 (by simpa using h)
      rw [if_neg (by simp [hz]), if_neg h]
  rw [e, foldl_count]; simp

end Proofs.Bitfun
