import PpciVerif.Proofs.Opt.SSA
import PpciVerif.Proofs.IRArith
/-!
# Proofs.Opt.Typing — integer-typed locals always hold values in the range of their type

From the checked facts `ssaCheck` + `tyCheck` (integer operands of integer binops / phis / returns have the
declared integer type; integer-valued calls are direct calls of a subroutine with that result type) it follows
that `TyInv` is an invariant of `Spec.IR.step` for every activation on the stack.  This is what the rewrite
`x + 0 → x` needs (`wrap t v = v`).
-/
namespace Proofs.Opt
open Spec.IR Model.Opt Model.OptCheck

/-- if `ty` is an integer type and `w` an integer value, the value is in the range of the type -/
def IntOK (ty : Option Ty) (w : Val) : Prop :=
  ∀ t v, ty = some (.int t) → w = .int v → Spec.IRArith.InRange t v

def TyInv (f : Func) (env : Env) : Prop := ∀ x w, env.get x = some w → IntOK (declTy f x) w

theorem TyInv.set {f : Func} {env : Env} (h : TyInv f env) {d : String} {w : Val} (hw : IntOK (declTy f d) w) :
    TyInv f (env.set d w) := by
  intro x w' hx
  by_cases e : x = d
  · subst e; rw [Env.get_set_eq] at hx; cases hx; exact hw
  · rw [Env.get_set_ne _ _ _ _ e] at hx; exact h x w' hx

theorem TyInv.setMany {f : Func} : ∀ {vals : List (String × Val)} {env : Env}, TyInv f env →
    (∀ zv ∈ vals, IntOK (declTy f zv.1) zv.2) → TyInv f (env.setMany vals)
  | [], _, h, _ => h
  | (z, w) :: vs, env, h, hv => by
    rw [setMany_cons]
    exact TyInv.setMany (h.set (hv (z, w) (by simp))) (fun zv hzv => hv zv (by simp [hzv]))

theorem evalOpnd_intOK {ctx : Ctx} {f : Func} {env : Env} (h : TyInv f env) {o : Operand} {w : Val}
    (ho : evalOpnd ctx env o = .ok w) : IntOK (opTy f o) w := by
  cases o with
  | glob g => intro t v ht; simp [opTy] at ht
  | loc x =>
    simp only [evalOpnd] at ho
    cases hx : env.get x with
    | none => simp [hx] at ho
    | some w' => simp only [hx, Except.ok.injEq] at ho; subst ho; exact h x w' hx

theorem intBinop_inRange {t : ITy} {op : BinOp} {x y v : Int} (hx : Spec.IRArith.InRange t x)
    (hy : Spec.IRArith.InRange t y) (h : intBinop t op x y = .ok (.int v)) : Spec.IRArith.InRange t v := by
  simp only [intBinop] at h
  cases ha : op.arith? with
  | some o =>
    simp only [ha] at h
    cases hb : Spec.IRArith.binop t o x y with
    | none => simp [hb] at h
    | some r =>
      simp only [hb, Except.ok.injEq, Val.int.injEq] at h; subst h
      exact Proofs.IRArith.binop_inRange t o x y r hx hy hb
  | none =>
    simp only [ha] at h
    split at h <;>
      (simp only [Except.ok.injEq, Val.int.injEq] at h; subst h; exact Proofs.IRArith.wrap_inRange t _)

theorem lookupStr_none_of_not_param {f : Func} {d : String} (h : isParam f d = false) : lookupStr f.params d = none := by
  simp only [isParam] at h
  have : ∀ (ps : List (String × Ty)), (ps.any fun p => decide (p.1 = d)) = false → lookupStr ps d = none := by
    intro ps
    induction ps with
    | nil => intro _; rfl
    | cons p ps ih =>
      intro hp
      simp only [List.any_cons, Bool.or_eq_false_iff, decide_eq_false_iff_not] at hp
      obtain ⟨y, ty⟩ := p
      simp only [lookupStr]
      have : ¬ d = y := fun e => hp.1 e.symm
      simp only [this, ↓reduceIte]
      exact ih hp.2
  exact this _ h

/-- the declared type of a name defined by an instruction is the instruction's result type -/
theorem declTy_of_def {f : Func} {T : DomTab} (hf : SSAFacts f T) {q : Pos} {i : Instr} {d : String} {ty : Ty}
    (hi : instrAtPos f q = some i) (hd : i.dst? = some (d, ty)) : declTy f d = some ty := by
  have hdn : dstName i = some d := by simp [dstName, hd]
  simp only [declTy, lookupStr_none_of_not_param (not_param_of_def hf hi hdn), defPos_of_def hf hi hdn, hi,
    Option.bind, hd, Option.map]

theorem instrTyOk_of_at {m : Module} {f : Func} (hty : tyCheck m f = true) {q : Pos} {i : Instr}
    (hi : instrAtPos f q = some i) : instrTyOk m f i = true := by
  obtain ⟨b, hb, hib⟩ := instrAtPos_iff.1 hi
  simp only [tyCheck, List.all_eq_true] at hty
  exact hty b (findBlock_mem hb).1 i (List.mem_of_getElem? hib)


/-! ### results of instructions are in range -/

theorem intOK_of_not_int {ty : Option Ty} {w : Val} (h : ∀ t, ty ≠ some (.int t)) : IntOK ty w :=
  fun t _ ht _ => absurd ht (h t)

/-- the value assigned by an effect instruction fits the declared type of its result -/
theorem effect_result_ok {ctx : Ctx} {m : Module} {f : Func} {T : DomTab} (hf : SSAFacts f T) (hty : tyCheck m f = true)
    {env : Env} (hinv : TyInv f env) {q : Pos} {i : Instr} (hi : instrAtPos f q = some i)
    {fname : String} {mem : Mem} {p : Mem × Option (String × Val)}
    (he : effect ctx fname mem env i = some (.ok p)) : ∀ d w, p.2 = some (d, w) → IntOK (declTy f d) w := by
  have hok := instrTyOk_of_at hty hi
  intro d w hp
  cases i <;> simp only [effect, Option.some.injEq, bind, Except.bind, pure, Except.pure, reduceCtorEq] at he
  case const d' ty c =>
    cases hv : Spec.IR.evalConst ctx.cfg ty c with
    | error e => simp [hv] at he
    | ok v =>
      simp only [hv, Except.ok.injEq] at he; subst he
      simp only [Option.some.injEq, Prod.mk.injEq] at hp; obtain ⟨rfl, rfl⟩ := hp
      rw [declTy_of_def hf hi rfl]
      intro t x ht hx
      simp only [Option.some.injEq] at ht; subst ht; subst hx
      cases c <;> simp only [Spec.IR.evalConst, Except.ok.injEq, Val.int.injEq, reduceCtorEq] at hv
      subst hv; exact Proofs.IRArith.wrap_inRange t _
  case undefined d' ty =>
    simp only [Except.ok.injEq] at he; subst he
    simp only [Option.some.injEq, Prod.mk.injEq] at hp; obtain ⟨rfl, rfl⟩ := hp
    intro t x _ hx; cases hx
  case literal d' data =>
    split at he
    · simp only [Except.ok.injEq] at he; subst he
      simp only [Option.some.injEq, Prod.mk.injEq] at hp; obtain ⟨rfl, rfl⟩ := hp
      rw [declTy_of_def hf hi rfl]; exact intOK_of_not_int (by intro t; simp)
    · simp at he
  case alloc d' sz al =>
    simp only [Except.ok.injEq] at he; subst he
    simp only [Option.some.injEq, Prod.mk.injEq] at hp; obtain ⟨rfl, rfl⟩ := hp
    rw [declTy_of_def hf hi rfl]; exact intOK_of_not_int (by intro t; simp)
  case addrof d' src =>
    cases hv : evalOpnd ctx env src with
    | error e => simp [hv] at he
    | ok v =>
      simp only [hv, Except.ok.injEq] at he; subst he
      simp only [Option.some.injEq, Prod.mk.injEq] at hp; obtain ⟨rfl, rfl⟩ := hp
      rw [declTy_of_def hf hi rfl]; exact intOK_of_not_int (by intro t; simp)
  case binop d' ty op a b =>
    cases hx : evalOpnd ctx env a with
    | error e => simp [hx] at he
    | ok x =>
      cases hy : evalOpnd ctx env b with
      | error e => simp [hx, hy] at he
      | ok y =>
        cases hv : evalBinop ctx.cfg ty op x y with
        | error e => simp [hx, hy, hv] at he
        | ok v =>
          simp only [hx, hy, hv, Except.ok.injEq] at he; subst he
          simp only [Option.some.injEq, Prod.mk.injEq] at hp; obtain ⟨rfl, rfl⟩ := hp
          rw [declTy_of_def hf hi rfl]
          intro t r ht hr
          simp only [Option.some.injEq] at ht; subst ht; subst hr
          simp only [instrTyOk, Bool.and_eq_true, decide_eq_true_eq] at hok
          cases x <;> cases y <;> simp only [evalBinop, reduceCtorEq] at hv
          case int.int xv yv =>
            exact intBinop_inRange (evalOpnd_intOK hinv hx t xv hok.1 rfl) (evalOpnd_intOK hinv hy t yv hok.2 rfl) hv
  case unop d' ty op a =>
    cases hx : evalOpnd ctx env a with
    | error e => simp [hx] at he
    | ok x =>
      cases hv : evalUnop ctx.cfg ty op x with
      | error e => simp [hx, hv] at he
      | ok v =>
        simp only [hx, hv, Except.ok.injEq] at he; subst he
        simp only [Option.some.injEq, Prod.mk.injEq] at hp; obtain ⟨rfl, rfl⟩ := hp
        rw [declTy_of_def hf hi rfl]
        intro t r ht hr
        simp only [Option.some.injEq] at ht; subst ht; subst hr
        cases x <;> simp only [evalUnop, Except.ok.injEq, Val.int.injEq, reduceCtorEq] at hv
        subst hv; exact Proofs.IRArith.wrap_inRange t _
  case cast d' ty a =>
    cases hx : evalOpnd ctx env a with
    | error e => simp [hx] at he
    | ok x =>
      cases hv : evalCast ctx.cfg ty x with
      | error e => simp [hx, hv] at he
      | ok v =>
        simp only [hx, hv, Except.ok.injEq] at he; subst he
        simp only [Option.some.injEq, Prod.mk.injEq] at hp; obtain ⟨rfl, rfl⟩ := hp
        rw [declTy_of_def hf hi rfl]
        intro t r ht hr
        simp only [Option.some.injEq] at ht; subst ht; subst hr
        cases x <;> simp only [evalCast, Except.ok.injEq, Val.int.injEq, reduceCtorEq] at hv
        · subst hv; exact Proofs.IRArith.cast_inRange t _
        · split at hv
          · split at hv
            · rename_i hz hr
              simp only [Except.ok.injEq, Val.int.injEq] at hv; subst hv
              simpa [intInRange] using hr
            · simp at hv
          · simp at hv
  case load d' ty addr vol =>
    cases ha : evalAddr ctx env addr "load" with
    | error e => simp [ha] at he
    | ok a =>
      simp only [ha] at he
      split at he
      · rename_i bs hbs
        simp only [Except.ok.injEq] at he; subst he
        simp only [Option.some.injEq, Prod.mk.injEq] at hp; obtain ⟨rfl, rfl⟩ := hp
        rw [declTy_of_def hf hi rfl]
        intro t r ht hr
        simp only [Option.some.injEq] at ht; subst ht
        simp only [decodeVal] at hr
        split at hr
        · cases hr
        · simp only [Val.int.injEq] at hr; subst hr; exact Proofs.IRArith.wrap_inRange t _
      · simp at he
  case store ty v addr vol =>
    cases ha : evalAddr ctx env addr "store" with
    | error e => simp [ha] at he
    | ok a =>
      cases hx : evalOpnd ctx env v with
      | error e => simp [ha, hx] at he
      | ok x =>
        cases hb : encodeVal ctx.cfg ty x with
        | error e => simp [ha, hx, hb] at he
        | ok bs =>
          simp only [ha, hx, hb] at he
          split at he
          · simp only [Except.ok.injEq] at he; subst he; simp at hp
          · simp at he
  case copyblob d' src n =>
    cases hd : evalAddr ctx env d' "memcpy" with
    | error e => simp [hd] at he
    | ok da =>
      cases hs : evalAddr ctx env src "memcpy" with
      | error e => simp [hd, hs] at he
      | ok sa =>
        cases hc : copyBytes ctx.cfg mem da sa n with
        | error e => simp [hd, hs, hc] at he
        | ok m' => simp only [hd, hs, hc, Except.ok.injEq] at he; subst he; simp at hp
  case phi d' ty ins => simp only [Except.ok.injEq] at he; subst he; simp at hp


/-! ### the invariant for all activations -/

theorem bindParams_get {cfg : Config} : ∀ {ps : List (String × Ty)} {vs : List Val} {env : Env},
    bindParams cfg ps vs = some env → ∀ x w, env.get x = some w → ∃ ty v0, lookupStr ps x = some ty ∧ w = normVal cfg ty v0
  | [], [], env, h, x, w, hx => by
    simp only [bindParams, Option.some.injEq] at h; subst h; simp [Env.get] at hx
  | (n, ty) :: ps, v :: vs, env, h, x, w, hx => by
    simp only [bindParams, Option.map_eq_some_iff] at h
    obtain ⟨env', henv', rfl⟩ := h
    simp only [Env.get] at hx
    by_cases e : x = n
    · simp only [e, ↓reduceIte, Option.some.injEq] at hx
      exact ⟨ty, v, by simp [lookupStr, e], hx.symm⟩
    · simp only [e, ↓reduceIte] at hx
      obtain ⟨ty', v0, h1, h2⟩ := bindParams_get henv' x w hx
      exact ⟨ty', v0, by simp [lookupStr, e, h1], h2⟩
  | [], _ :: _, _, h, _, _, _ => by simp [bindParams] at h
  | _ :: _, [], _, h, _, _, _ => by simp [bindParams] at h

theorem tyInv_params {cfg : Config} {f : Func} {vs : List Val} {env : Env} (h : bindParams cfg f.params vs = some env) :
    TyInv f env := by
  intro x w hx t v ht hw
  obtain ⟨ty, v0, hl, hn⟩ := bindParams_get h x w hx
  simp only [declTy, hl, Option.some.injEq] at ht
  subst ht; subst hw
  cases v0 <;> simp only [normVal, Val.int.injEq, reduceCtorEq] at hn
  subst hn; exact Proofs.IRArith.wrap_inRange t _

/-- per-activation typing invariant -/
structure TyFrameOK (m : Module) (fr : Frame) : Prop where
  facts : SSAFacts fr.fn (computeDoms fr.fn)
  ty : tyCheck m fr.fn = true
  inv : TyInv fr.fn fr.env
  pos : ∃ b k, fr.fn.findBlock fr.cur = some b ∧ fr.rest = b.instrs.drop k

/-- what the callee `(rt, cf)` returns fits the declared type of the name `rt` in the caller -/
def RetOK (rt : Option String) (cf : Func) (c : Frame) : Prop :=
  ∀ d, rt = some d → ∀ t, declTy c.fn d = some (.int t) → cf.ret = some (.int t)

def TyChain (m : Module) : Option String → Func → List Frame → Prop
  | _, _, [] => True
  | rt, cf, c :: cs => TyFrameOK m c ∧ RetOK rt cf c ∧ TyChain m c.retTo c.fn cs

def TyStateOK (ctx : Ctx) (s : State) : Prop :=
  TyFrameOK ctx.mod s.top ∧ TyChain ctx.mod s.top.retTo s.top.fn s.callers

def ModTy (m : Module) : Prop := ∀ f ∈ m.funcs, SSAFacts f (computeDoms f) ∧ tyCheck m f = true

theorem phiValues_intOK {ctx : Ctx} {m : Module} {f : Func} {T : DomTab} (hf : SSAFacts f T) (hty : tyCheck m f = true)
    {env : Env} (hinv : TyInv f env) {pred : String} {bQ : Block} {Q : String} (hbQ : f.findBlock Q = some bQ)
    {vals : List (String × Val)} (hv : phiValues ctx env pred bQ.instrs = .ok vals) :
    ∀ zv ∈ vals, IntOK (declTy f zv.1) zv.2 := by
  -- generalise over the suffix of the block
  have key : ∀ (l : List Instr) (k0 : Nat), bQ.instrs.drop k0 = l → ∀ vals, phiValues ctx env pred l = .ok vals →
      ∀ zv ∈ vals, IntOK (declTy f zv.1) zv.2 := by
    intro l
    induction l with
    | nil => intro k0 _ vals h zv hzv; simp [phiValues] at h; subst h; simp at hzv
    | cons i r ih =>
      intro k0 hk vals h zv hzv
      obtain ⟨hik, hdrop, _⟩ := drop_eq_cons hk
      cases hp : i.isPhi with
      | false =>
        rw [phiValues_nonphi _ _ _ _ hp] at h
        exact ih (k0 + 1) hdrop vals h zv hzv
      | true =>
        obtain ⟨d, ty, ins, rfl⟩ := removable_not_phi_or hp
        have hi : instrAtPos f (Q, k0) = some (.phi d ty ins) := instrAtPos_iff.2 ⟨bQ, hbQ, hik⟩
        have hok := instrTyOk_of_at hty hi
        simp only [phiValues] at h
        cases hl : lookupStr ins pred with
        | none => simp [hl] at h
        | some o =>
          simp only [hl] at h
          cases hv : evalOpnd ctx env o with
          | error e => simp [hv, bind, Except.bind] at h
          | ok v =>
            simp only [hv, bind, Except.bind] at h
            cases hr : phiValues ctx env pred r with
            | error e => simp [hr] at h
            | ok vs =>
              simp only [hr, pure, Except.pure, Except.ok.injEq] at h
              subst h
              rcases List.mem_cons.1 hzv with rfl | hmem
              · simp only
                rw [declTy_of_def hf hi rfl]
                intro t x ht hx
                simp only [Option.some.injEq] at ht; subst ht
                simp only [instrTyOk, List.all_eq_true, decide_eq_true_eq] at hok
                exact evalOpnd_intOK hinv hv t x (hok (pred, o) (lookupStr_mem hl)) hx
              · exact ih (k0 + 1) hdrop vs hr zv hmem
  exact key bQ.instrs 0 (by simp) vals hv


theorem tyChain_congr {m : Module} {rt : Option String} {cf : Func} {cs : List Frame} (h : TyChain m rt cf cs) :
    TyChain m rt cf cs := h

/-- the typing invariant is preserved by every step -/
theorem ty_step {ctx : Ctx} (hm : ModTy ctx.mod) {s t : State} (hs : TyStateOK ctx s) (h : step ctx s = .next t) :
    TyStateOK ctx t := by
  have hE := stepE_ok_of_step_next h
  obtain ⟨⟨hf, hty, hinv, b, k, hb, hrest⟩, hchain⟩ := hs
  cases hr : s.top.rest with
  | nil => rw [stepE_nil hr] at hE; simp at hE
  | cons i rest' =>
    rw [hr] at hrest
    obtain ⟨hik, hdrop, hklt⟩ := drop_eq_cons hrest.symm
    have hi : instrAtPos s.top.fn (s.top.cur, k) = some i := instrAtPos_iff.2 ⟨b, hb, hik⟩
    have hpos' : ∃ b k, s.top.fn.findBlock s.top.cur = some b ∧ rest' = b.instrs.drop k := ⟨b, k + 1, hb, hdrop.symm⟩
    cases he : effect ctx s.top.fn.name s.mem s.top.env i with
    | some eff =>
      rw [stepE_effect hr he] at hE
      cases eff with
      | error e => simp [Except.map] at hE
      | ok p =>
        simp only [Except.map, Except.ok.injEq, StepR.next.injEq] at hE
        subst hE
        refine ⟨⟨hf, hty, ?_, hpos'⟩, hchain⟩
        simp only [applyEff]
        cases hp2 : p.2 with
        | none => exact hinv
        | some dv =>
          obtain ⟨d, w⟩ := dv
          exact hinv.set (effect_result_ok hf hty hinv hi he d w hp2)
    | none =>
      cases i <;> simp only [effect, reduceCtorEq] at he
      case jump tgt =>
        rw [stepE_jump hr] at hE
        cases hb2 : enterBlock ctx { s.top with rest := rest' } tgt with
        | error e => simp [hb2, bind, Except.bind] at hE
        | ok nf =>
          simp only [hb2, bind, Except.bind, pure, Except.pure, Except.ok.injEq, StepR.next.injEq] at hE
          subst hE
          obtain ⟨bQ, vals, hbQ, hvals, rfl⟩ := enterBlock_shape hb2
          exact ⟨⟨hf, hty, hinv.setMany (phiValues_intOK hf hty hinv hbQ hvals), bQ, 0, hbQ, by simp⟩, hchain⟩
      case cjump a c b2 yes no =>
        rw [stepE_cjump hr] at hE
        cases hx : evalOpnd ctx s.top.env a with
        | error e => simp [hx, bind, Except.bind] at hE
        | ok x =>
          cases hy : evalOpnd ctx s.top.env b2 with
          | error e => simp [hx, hy, bind, Except.bind] at hE
          | ok y =>
            cases ht : evalCond c x y with
            | error e => simp [hx, hy, ht, bind, Except.bind] at hE
            | ok tv =>
              simp only [hx, hy, ht, bind, Except.bind] at hE
              cases hb2 : enterBlock ctx { s.top with rest := rest' } (if tv then yes else no) with
              | error e => simp [hb2] at hE
              | ok nf =>
                simp only [hb2, pure, Except.pure, Except.ok.injEq, StepR.next.injEq] at hE
                subst hE
                obtain ⟨bQ, vals, hbQ, hvals, rfl⟩ := enterBlock_shape hb2
                exact ⟨⟨hf, hty, hinv.setMany (phiValues_intOK hf hty hinv hbQ hvals), bQ, 0, hbQ, by simp⟩, hchain⟩
      case ret v =>
        have hok := instrTyOk_of_at hty hi
        rw [stepE_ret hr] at hE
        cases hret : s.top.fn.ret with
        | none => simp [hret] at hE
        | some rty =>
          simp only [hret] at hE
          cases hx : evalOpnd ctx s.top.env v with
          | error e => simp [hx, bind, Except.bind] at hE
          | ok x =>
            simp only [hx, bind, Except.bind, doReturn] at hE
            cases hcs : s.callers with
            | nil => simp only [hcs] at hE; split at hE <;> simp at hE
            | cons c cs =>
              rw [hcs] at hchain
              obtain ⟨hc, hretok, hcc⟩ := hchain
              simp only [hcs] at hE
              cases hrt : s.top.retTo with
              | none =>
                simp only [hrt, Except.ok.injEq, StepR.next.injEq] at hE; subst hE
                exact ⟨hc, hcc⟩
              | some d =>
                simp only [hrt, Except.ok.injEq, StepR.next.injEq] at hE; subst hE
                refine ⟨⟨hc.facts, hc.ty, hc.inv.set ?_, hc.pos⟩, hcc⟩
                intro t xv ht hxv
                have := hretok d hrt t ht
                rw [hret] at this
                simp only [Option.some.injEq] at this; subst this
                simp only [instrTyOk, hret, decide_eq_true_eq] at hok
                exact evalOpnd_intOK hinv hx t xv hok hxv
      case exit =>
        rw [stepE_exit hr] at hE
        cases hret : s.top.fn.ret with
        | some rty => simp [hret] at hE
        | none =>
          simp only [hret, doReturn] at hE
          cases hcs : s.callers with
          | nil => simp [hcs] at hE
          | cons c cs =>
            rw [hcs] at hchain
            obtain ⟨hc, _, hcc⟩ := hchain
            simp only [hcs] at hE
            cases hrt : s.top.retTo with
            | none =>
              simp only [hrt, Except.ok.injEq, StepR.next.injEq] at hE; subst hE
              exact ⟨hc, hcc⟩
            | some d => simp [hrt] at hE
      case fcall d ty callee args =>
        have hok := instrTyOk_of_at hty hi
        rw [stepE_fcall hr, doCall_eq] at hE
        cases hn : calleeName ctx s.top.env callee with
        | error e => simp [hn, bind, Except.bind] at hE
        | ok name =>
          cases hvs : evalOpnds ctx s.top.env args with
          | error e => simp [hn, hvs, bind, Except.bind] at hE
          | ok vs =>
            simp only [hn, hvs, bind, Except.bind, callNamed] at hE
            have hadv : TyFrameOK ctx.mod { s.top with rest := rest' } := ⟨hf, hty, hinv, hpos'⟩
            have hdecl : declTy s.top.fn d = some ty := declTy_of_def hf hi rfl
            cases hff : ctx.mod.findFunc name with
            | some g =>
              simp only [hff] at hE
              have hg := hm g (findFunc_mem hff)
              split at hE
              · simp [throw, throwThe, MonadExceptOf.throw] at hE
              · cases hnf : newFrame ctx.cfg g vs s.mem.stack.size (some d) with
                | error e => simp [hnf] at hE
                | ok nf =>
                  simp only [Option.map, hnf, pure, Except.pure, Except.ok.injEq, StepR.next.injEq] at hE
                  subst hE
                  obtain ⟨bE, env, hbE, rfl⟩ := newFrame_shape hnf
                  have henv : bindParams ctx.cfg g.params vs = some env := by
                    simp only [newFrame] at hnf
                    cases hp : bindParams ctx.cfg g.params vs with
                    | none => simp [hp] at hnf
                    | some env' =>
                      simp only [hp, hbE, Except.ok.injEq, Frame.mk.injEq] at hnf
                      rw [hnf.2.2.2.1]
                  refine ⟨⟨hg.1, hg.2, tyInv_params henv, bE, 0, hbE, by simp⟩, hadv, ?_, hchain⟩
                  intro d' hd' t ht
                  simp only [Option.some.injEq] at hd'; subst hd'
                  simp only at ht
                  rw [hdecl] at ht
                  simp only [Option.some.injEq] at ht; subst ht
                  -- the callee of an integer-valued call is a direct callee with that result type
                  cases callee with
                  | loc x => simp [instrTyOk] at hok
                  | glob gn =>
                    have hname : name = gn := by
                      simp only [calleeName] at hn
                      split at hn
                      · simp only [pure, Except.pure, Except.ok.injEq] at hn; exact hn.symm
                      · simp [throw, throwThe, MonadExceptOf.throw] at hn
                    subst hname
                    simp only [instrTyOk, hff, decide_eq_true_eq] at hok
                    exact hok
            | none =>
              simp only [hff] at hE
              cases hfe : ctx.mod.findExtern name with
              | none => simp [hfe, throw, throwThe, MonadExceptOf.throw] at hE
              | some e =>
                simp only [hfe] at hE
                split at hE
                · simp [throw, throwThe, MonadExceptOf.throw] at hE
                · split at hE
                  · rename_i as rty d2 ty2 hk heq
                    simp only [pure, Except.pure, Except.ok.injEq, StepR.next.injEq] at hE
                    subst hE
                    simp only [Option.some.injEq, Prod.mk.injEq] at heq
                    obtain ⟨rfl, rfl⟩ := heq
                    refine ⟨⟨hf, hty, hinv.set ?_, hpos'⟩, hchain⟩
                    rw [hdecl]
                    intro t xv ht hxv
                    simp only [Option.some.injEq] at ht; subst ht
                    cases callee with
                    | loc x => simp [instrTyOk] at hok
                    | glob gn =>
                      have hname : name = gn := by
                        simp only [calleeName] at hn
                        split at hn
                        · simp only [pure, Except.pure, Except.ok.injEq] at hn; exact hn.symm
                        · simp [throw, throwThe, MonadExceptOf.throw] at hn
                      subst hname
                      simp only [instrTyOk, hff, hfe, hk, decide_eq_true_eq] at hok
                      subst hok
                      generalize ctx.oracle s.trace.length name vs = raw at hxv
                      cases raw <;> simp only [normVal, Val.int.injEq, reduceCtorEq] at hxv
                      subst hxv; exact Proofs.IRArith.wrap_inRange t _
                  · rename_i heq; simp at heq
                  · rename_i heq; simp at heq
                  · simp [throw, throwThe, MonadExceptOf.throw] at hE
                  · simp [throw, throwThe, MonadExceptOf.throw] at hE
      case pcall callee args =>
        rw [stepE_pcall hr, doCall_eq] at hE
        cases hn : calleeName ctx s.top.env callee with
        | error e => simp [hn, bind, Except.bind] at hE
        | ok name =>
          cases hvs : evalOpnds ctx s.top.env args with
          | error e => simp [hn, hvs, bind, Except.bind] at hE
          | ok vs =>
            simp only [hn, hvs, bind, Except.bind, callNamed] at hE
            have hadv : TyFrameOK ctx.mod { s.top with rest := rest' } := ⟨hf, hty, hinv, hpos'⟩
            cases hff : ctx.mod.findFunc name with
            | some g =>
              simp only [hff] at hE
              have hg := hm g (findFunc_mem hff)
              split at hE
              · rename_i heq; simp at heq
              · cases hnf : newFrame ctx.cfg g vs s.mem.stack.size none with
                | error e => simp [hnf] at hE
                | ok nf =>
                  simp only [Option.map, hnf, pure, Except.pure, Except.ok.injEq, StepR.next.injEq] at hE
                  subst hE
                  obtain ⟨bE, env, hbE, rfl⟩ := newFrame_shape hnf
                  have henv : bindParams ctx.cfg g.params vs = some env := by
                    simp only [newFrame] at hnf
                    cases hp : bindParams ctx.cfg g.params vs with
                    | none => simp [hp] at hnf
                    | some env' =>
                      simp only [hp, hbE, Except.ok.injEq, Frame.mk.injEq] at hnf
                      rw [hnf.2.2.2.1]
                  refine ⟨⟨hg.1, hg.2, tyInv_params henv, bE, 0, hbE, by simp⟩, hadv, ?_, hchain⟩
                  intro d' hd'; cases hd'
            | none =>
              simp only [hff] at hE
              cases hfe : ctx.mod.findExtern name with
              | none => simp [hfe, throw, throwThe, MonadExceptOf.throw] at hE
              | some e =>
                simp only [hfe] at hE
                split at hE
                · simp [throw, throwThe, MonadExceptOf.throw] at hE
                · split at hE
                  · rename_i heq; simp at heq
                  · simp only [pure, Except.pure, Except.ok.injEq, StepR.next.injEq] at hE
                    subst hE
                    exact ⟨hadv, hchain⟩
                  · simp only [pure, Except.pure, Except.ok.injEq, StepR.next.injEq] at hE
                    subst hE
                    exact ⟨hadv, hchain⟩
                  · simp [throw, throwThe, MonadExceptOf.throw] at hE
                  · simp [throw, throwThe, MonadExceptOf.throw] at hE

theorem initState_ty {ctx : Ctx} (hm : ModTy ctx.mod) {fname : String} {args : List Val} {s : State}
    (h : initState ctx fname args = .ok s) : TyStateOK ctx s := by
  simp only [initState] at h
  cases hf : ctx.mod.findFunc fname with
  | none => simp [hf] at h
  | some f =>
    simp only [hf] at h
    cases hnf : newFrame ctx.cfg f args 0 none with
    | error e => simp [hnf, bind, Except.bind] at h
    | ok nf =>
      simp only [hnf, bind, Except.bind, pure, Except.pure, Except.ok.injEq] at h
      subst h
      obtain ⟨bE, env, hbE, rfl⟩ := newFrame_shape hnf
      have henv : bindParams ctx.cfg f.params args = some env := by
        simp only [newFrame] at hnf
        cases hp : bindParams ctx.cfg f.params args with
        | none => simp [hp] at hnf
        | some env' =>
          simp only [hp, hbE, Except.ok.injEq, Frame.mk.injEq] at hnf
          rw [hnf.2.2.2.1]
      have hg := hm f (findFunc_mem hf)
      exact ⟨⟨hg.1, hg.2, tyInv_params henv, bE, 0, hbE, by simp⟩, trivial⟩

end Proofs.Opt
