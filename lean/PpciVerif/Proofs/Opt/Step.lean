import PpciVerif.Proofs.Opt.Basic
import PpciVerif.Model.Opt
/-!
# Proofs.Opt.Step — `Spec.IR.stepE` split by instruction class

* `effect`: the 13 instruction kinds that neither transfer control nor call: their result is a new memory and
  an optional assignment; `stepE_effect` says `stepE` is exactly that.
* one equation lemma for each of jump / cjump / ret / exit / fcall / pcall.
-/
namespace Proofs.Opt
open Spec.IR

/-- a frame with the head instruction consumed -/
def Frame.adv (fr : Frame) (rest : List Instr) : Frame := { fr with rest := rest }

/-- result of a non-control, non-call instruction: new memory, optional assignment -/
def effect (ctx : Ctx) (fname : String) (mem : Mem) (env : Env) :
    Instr → Option (Except Err (Mem × Option (String × Val)))
  | .const d ty c => some (do
      let v ← evalConst ctx.cfg ty c
      pure (mem, some (d, v)))
  | .undefined d _ => some (pure (mem, some (d, .undef)))
  | .literal d _ => some (
      match ctx.layout.lits.find? (fun p => p.1 = (fname, d)) with
      | some (_, a) => pure (mem, some (d, .int a))
      | none => .error (.ub s!"literal {d} has no address"))
  | .alloc d size align => some (
      let cur := ctx.cfg.stackBase + mem.stack.size
      let a := alignUp cur align
      pure ({ mem with stack := mem.stack ++ Array.replicate (a - cur + size) none }, some (d, .int a)))
  | .addrof d src => some (do
      let v ← evalOpnd ctx env src
      pure (mem, some (d, v)))
  | .binop d ty op a b => some (do
      let x ← evalOpnd ctx env a
      let y ← evalOpnd ctx env b
      let v ← evalBinop ctx.cfg ty op x y
      pure (mem, some (d, v)))
  | .unop d ty op a => some (do
      let x ← evalOpnd ctx env a
      let v ← evalUnop ctx.cfg ty op x
      pure (mem, some (d, v)))
  | .cast d ty a => some (do
      let x ← evalOpnd ctx env a
      let v ← evalCast ctx.cfg ty x
      pure (mem, some (d, v)))
  | .load d ty addr _ => some (do
      let a ← evalAddr ctx env addr "load"
      match mem.readBytes ctx.cfg a (ty.size ctx.cfg) with
      | some bs => pure (mem, some (d, decodeVal ctx.cfg ty bs))
      | none => .error (.ub s!"load from unmapped address {a}"))
  | .store ty v addr _ => some (do
      let a ← evalAddr ctx env addr "store"
      let x ← evalOpnd ctx env v
      let bs ← encodeVal ctx.cfg ty x
      match mem.writeBytes ctx.cfg a bs with
      | some m' => pure (m', none)
      | none => .error (.ub s!"store to unmapped address {a}"))
  | .copyblob d src n => some (do
      let da ← evalAddr ctx env d "memcpy"
      let sa ← evalAddr ctx env src "memcpy"
      let m' ← copyBytes ctx.cfg mem da sa n
      pure (m', none))
  | .phi .. => some (pure (mem, none))
  | .asm .. => some (.error (.unsupported "inline asm"))
  | _ => none

/-- the state after a non-control instruction -/
def applyEff (s : State) (rest : List Instr) (p : Mem × Option (String × Val)) : State :=
  { s with mem := p.1,
           top := { s.top with rest := rest,
                               env := match p.2 with
                                 | some (d, v) => s.top.env.set d v
                                 | none => s.top.env } }

theorem stepE_effect {ctx : Ctx} {s : State} {i : Instr} {rest : List Instr}
    {r : Except Err (Mem × Option (String × Val))}
    (h : s.top.rest = i :: rest) (he : effect ctx s.top.fn.name s.mem s.top.env i = some r) :
    stepE ctx s = r.map (fun p => StepR.next (applyEff s rest p)) := by
  cases i <;> simp only [effect, Option.some.injEq, reduceCtorEq] at he <;> subst he <;>
    simp only [stepE, h, applyEff]
  case literal d data =>
    cases hl : ctx.layout.lits.find? (fun p => p.1 = (s.top.fn.name, d)) with
    | none => simp [hl, Except.map]
    | some p => obtain ⟨_, a⟩ := p; simp [hl, Except.map, pure, Except.pure]
  case load d ty addr vol =>
    cases evalAddr ctx s.top.env addr "load" with
    | error e => rfl
    | ok a =>
      cases hr : s.mem.readBytes ctx.cfg a (ty.size ctx.cfg) <;>
        simp [hr, bind, Except.bind, Except.map, pure, Except.pure]
  case store ty v addr vol =>
    cases evalAddr ctx s.top.env addr "store" with
    | error e => rfl
    | ok a =>
      cases evalOpnd ctx s.top.env v with
      | error e => rfl
      | ok x =>
        cases hb : encodeVal ctx.cfg ty x with
        | error e => simp [hb, bind, Except.bind, Except.map]
        | ok bs =>
          cases hw : s.mem.writeBytes ctx.cfg a bs <;>
            simp [hb, hw, bind, Except.bind, Except.map, pure, Except.pure]
  all_goals simp only [bind, Except.bind, pure, Except.pure, Except.map]
  all_goals (repeat' split) <;> simp_all

/-! ### control instructions -/

theorem stepE_nil {ctx : Ctx} {s : State} (h : s.top.rest = []) :
    stepE ctx s = .error (.ub s!"block {s.top.cur} is not terminated") := by
  simp only [stepE, h]

theorem stepE_jump {ctx : Ctx} {s : State} {t : String} {rest : List Instr}
    (h : s.top.rest = .jump t :: rest) :
    stepE ctx s = (do
      let fr' ← enterBlock ctx { s.top with rest := rest } t
      pure (.next { s with top := fr' })) := by
  simp only [stepE, h]

theorem stepE_cjump {ctx : Ctx} {s : State} {a b : Operand} {c : Cond} {yes no : String} {rest : List Instr}
    (h : s.top.rest = .cjump a c b yes no :: rest) :
    stepE ctx s = (do
      let x ← evalOpnd ctx s.top.env a
      let y ← evalOpnd ctx s.top.env b
      let t ← evalCond c x y
      let fr' ← enterBlock ctx { s.top with rest := rest } (if t then yes else no)
      pure (.next { s with top := fr' })) := by
  simp only [stepE, h]

theorem stepE_ret {ctx : Ctx} {s : State} {v : Operand} {rest : List Instr}
    (h : s.top.rest = .ret v :: rest) :
    stepE ctx s = (match s.top.fn.ret with
      | none => .error (.ub "return in a procedure")
      | some _ => do
        let x ← evalOpnd ctx s.top.env v
        doReturn ctx { s with top := { s.top with rest := rest } } (some x)) := by
  simp only [stepE, h]
  cases s.top.fn.ret <;> rfl

theorem stepE_exit {ctx : Ctx} {s : State} {rest : List Instr}
    (h : s.top.rest = .exit :: rest) :
    stepE ctx s = (match s.top.fn.ret with
      | some _ => .error (.ub "exit in a function")
      | none => doReturn ctx { s with top := { s.top with rest := rest } } none) := by
  simp only [stepE, h]
  cases s.top.fn.ret <;> rfl

theorem stepE_fcall {ctx : Ctx} {s : State} {d : String} {ty : Ty} {callee : Operand} {args : List Operand}
    {rest : List Instr} (h : s.top.rest = .fcall d ty callee args :: rest) :
    stepE ctx s = doCall ctx s { s.top with rest := rest } (some (d, ty)) callee args := by
  simp only [stepE, h]

theorem stepE_pcall {ctx : Ctx} {s : State} {callee : Operand} {args : List Operand}
    {rest : List Instr} (h : s.top.rest = .pcall callee args :: rest) :
    stepE ctx s = doCall ctx s { s.top with rest := rest } none callee args := by
  simp only [stepE, h]

/-! ### congruence: an instruction's effect depends on its operands only through their values -/

theorem evalAddr_congr {ctx ctx' : Ctx} {env env' : Env} {o o' : Operand} (w : String)
    (h : evalOpnd ctx' env' o' = evalOpnd ctx env o) : evalAddr ctx' env' o' w = evalAddr ctx env o w := by
  simp only [evalAddr, h]

theorem evalOpnds_congr {ctx ctx' : Ctx} {env env' : Env} (g : Operand → Operand) :
    ∀ (os : List Operand), (∀ o ∈ os, evalOpnd ctx' env' (g o) = evalOpnd ctx env o) →
      evalOpnds ctx' env' (os.map g) = evalOpnds ctx env os
  | [], _ => rfl
  | o :: os, h => by
    simp only [List.map, evalOpnds]
    rw [h o (by simp), evalOpnds_congr g os (fun o ho => h o (by simp [ho]))]

theorem effect_congr {ctx ctx' : Ctx} (hcfg : ctx'.cfg = ctx.cfg) (hlay : ctx'.layout = ctx.layout)
    {env env' : Env} {i : Instr} (g : Operand → Operand) (fname : String) (mem : Mem)
    (hops : ∀ o ∈ i.uses, evalOpnd ctx' env' (g o) = evalOpnd ctx env o) :
    effect ctx' fname mem env' (Model.Opt.mapOps g i) = effect ctx fname mem env i := by
  cases i <;> simp only [Model.Opt.mapOps, effect, hcfg, hlay] <;> (try rfl)
  case addrof d src => rw [hops src (by simp [Instr.uses])]
  case binop d ty op a b => rw [hops a (by simp [Instr.uses]), hops b (by simp [Instr.uses])]
  case unop d ty op a => rw [hops a (by simp [Instr.uses])]
  case cast d ty a => rw [hops a (by simp [Instr.uses])]
  case load d ty addr vol => rw [evalAddr_congr "load" (hops addr (by simp [Instr.uses]))]
  case store ty v addr vol =>
    rw [evalAddr_congr "store" (hops addr (by simp [Instr.uses])), hops v (by simp [Instr.uses])]
  case copyblob d src n =>
    rw [evalAddr_congr "memcpy" (hops d (by simp [Instr.uses])), evalAddr_congr "memcpy" (hops src (by simp [Instr.uses]))]

end Proofs.Opt
