import PpciVerif.Proofs.Opt.Step
import PpciVerif.Model.OptCheck
/-!
# Proofs.Opt.Align — soundness of `Model.OptCheck.checkAlign`

Deleting unused side-effect-free instructions and inserting fresh constants preserves the behaviour of every
defined run.  Forward simulation with stuttering: the environments of corresponding activations agree on
all names that are neither deleted nor inserted; memory, trace and stack shape are equal.
No well-formedness assumption is needed.
-/
namespace Proofs.Opt
open Spec.IR Model.Opt Model.OptCheck

/-! ### environments -/

theorem Env.get_set_eq : ∀ (e : Env) (x : String) (v : Val), (e.set x v).get x = some v
  | [], x, v => by simp [Env.set, Env.get]
  | (y, w) :: r, x, v => by
    by_cases h : x = y
    · simp [Env.set, Env.get, h]
    · simp [Env.set, Env.get, h, Env.get_set_eq r x v]

theorem Env.get_set_ne : ∀ (e : Env) (x y : String) (v : Val), y ≠ x → (e.set x v).get y = e.get y
  | [], x, y, v, h => by simp [Env.set, Env.get, h]
  | (z, w) :: r, x, y, v, h => by
    by_cases hx : x = z
    · subst hx; simp [Env.set, Env.get, h]
    · by_cases hy : y = z
      · simp [Env.set, Env.get, hx, hy]
      · simp [Env.set, Env.get, hx, hy, Env.get_set_ne r x y v h]

/-- the two environments agree outside `X` -/
def EnvAgree (X : List String) (e e' : Env) : Prop := ∀ x, x ∉ X → e.get x = e'.get x

theorem EnvAgree.set_both {X : List String} {e e' : Env} (h : EnvAgree X e e') (d : String) (v : Val) :
    EnvAgree X (e.set d v) (e'.set d v) := by
  intro x hx
  by_cases hd : x = d
  · subst hd; rw [Env.get_set_eq, Env.get_set_eq]
  · rw [Env.get_set_ne _ _ _ _ hd, Env.get_set_ne _ _ _ _ hd]; exact h x hx

theorem EnvAgree.set_left {X : List String} {e e' : Env} (h : EnvAgree X e e') {d : String} (hd : d ∈ X) (v : Val) :
    EnvAgree X (e.set d v) e' := by
  intro x hx
  have : x ≠ d := fun hxd => hx (hxd ▸ hd)
  rw [Env.get_set_ne _ _ _ _ this]; exact h x hx

theorem EnvAgree.set_right {X : List String} {e e' : Env} (h : EnvAgree X e e') {d : String} (hd : d ∈ X) (v : Val) :
    EnvAgree X e (e'.set d v) := by
  intro x hx
  have : x ≠ d := fun hxd => hx (hxd ▸ hd)
  rw [Env.get_set_ne _ _ _ _ this]; exact h x hx

theorem EnvAgree.refl (X : List String) (e : Env) : EnvAgree X e e := fun _ _ => rfl

theorem evalOpnd_agree {ctx ctx' : Ctx} (hlay : ctx'.layout = ctx.layout) {X : List String} {e e' : Env}
    (h : EnvAgree X e e') {o : Operand} (ho : opAvoids X o = true) :
    evalOpnd ctx' e' o = evalOpnd ctx e o := by
  cases o with
  | loc x =>
    have hx : x ∉ X := by simpa [opAvoids] using ho
    simp only [evalOpnd, h x hx]
  | glob g => simp only [evalOpnd, hlay]

/-! ### alignment of instruction lists -/

inductive Align (D N : List String) : List Instr → List Instr → Prop
  | nil : Align D N [] []
  | keep {i : Instr} {r r' : List Instr} : avoids (D ++ N) i = true → Align D N r r' → Align D N (i :: r) (i :: r')
  | del {i : Instr} {r r' : List Instr} : isDel D i = true → Align D N r r' → Align D N (i :: r) r'
  | ins {i' : Instr} {r r' : List Instr} : isIns N i' = true → Align D N r r' → Align D N r (i' :: r')

theorem alignF_sound (D N : List String) : ∀ (n : Nat) (l l' : List Instr), alignF D N n l l' = true → Align D N l l'
  | 0, _, _, h => by simp [alignF] at h
  | _ + 1, [], [], _ => .nil
  | n + 1, i :: r, [], h => by
    simp only [alignF, Bool.and_eq_true] at h
    exact .del h.1 (alignF_sound D N n r [] h.2)
  | n + 1, [], i' :: r', h => by
    simp only [alignF, Bool.and_eq_true] at h
    exact .ins h.1 (alignF_sound D N n [] r' h.2)
  | n + 1, i :: r, i' :: r', h => by
    simp only [alignF] at h
    split at h
    · rename_i hk
      obtain ⟨he, ha⟩ := hk
      subst he
      exact .keep ha (alignF_sound D N n r r' h)
    · split at h
      · rename_i hd
        exact .del hd (alignF_sound D N n r (i' :: r') h)
      · split at h
        · rename_i hi
          exact .ins hi (alignF_sound D N n (i :: r) r' h)
        · simp at h

theorem alignB_sound (D N : List String) (l l' : List Instr) (h : alignB D N l l' = true) : Align D N l l' :=
  alignF_sound D N _ l l' h

/-! ### static relation between the two modules -/

inductive BlocksRel (D N : List String) : List Block → List Block → Prop
  | nil : BlocksRel D N [] []
  | cons {b b' : Block} {bs bs' : List Block} : b'.name = b.name → Align D N b.instrs b'.instrs →
      BlocksRel D N bs bs' → BlocksRel D N (b :: bs) (b' :: bs')

structure FnRel (D N : List String) (f f' : Func) : Prop where
  name : f'.name = f.name
  params : f'.params = f.params
  ret : f'.ret = f.ret
  entry : f'.entry = f.entry
  blocks : BlocksRel D N f.blocks f'.blocks

inductive FuncsRel : List Func → List Func → Prop
  | nil : FuncsRel [] []
  | cons {f f' : Func} {fs fs' : List Func} : (∃ D N, FnRel D N f f') → FuncsRel fs fs' → FuncsRel (f :: fs) (f' :: fs')

structure ModRel (m m' : Module) : Prop where
  externs : m'.externs = m.externs
  vars : m'.vars = m.vars
  funcs : FuncsRel m.funcs m'.funcs

theorem blocksB_sound (D N : List String) : ∀ (bs bs' : List Block), blocksB D N bs bs' = true → BlocksRel D N bs bs'
  | [], [], _ => .nil
  | b :: bs, b' :: bs', h => by
    simp only [blocksB, Bool.and_eq_true, decide_eq_true_eq] at h
    exact .cons h.1.1.symm (alignB_sound D N _ _ h.1.2) (blocksB_sound D N bs bs' h.2)
  | [], _ :: _, h => by simp [blocksB] at h
  | _ :: _, [], h => by simp [blocksB] at h

theorem checkAlignFn_sound {f f' : Func} (h : checkAlignFn f f' = true) : ∃ D N, FnRel D N f f' := by
  simp only [checkAlignFn, Bool.and_eq_true, decide_eq_true_eq] at h
  exact ⟨_, _, ⟨h.1.1.1.1.symm, h.1.1.1.2.symm, h.1.1.2.symm, h.1.2.symm, blocksB_sound _ _ _ _ h.2⟩⟩

theorem funcsB_sound : ∀ (fs fs' : List Func), funcsB fs fs' = true → FuncsRel fs fs'
  | [], [], _ => .nil
  | f :: fs, f' :: fs', h => by
    simp only [funcsB, Bool.and_eq_true] at h
    exact .cons (checkAlignFn_sound h.1) (funcsB_sound fs fs' h.2)
  | [], _ :: _, h => by simp [funcsB] at h
  | _ :: _, [], h => by simp [funcsB] at h

theorem checkAlign_modRel {m m' : Module} (h : checkAlign m m' = true) : ModRel m m' := by
  simp only [checkAlign, Bool.and_eq_true, decide_eq_true_eq] at h
  exact ⟨h.1.1.symm, h.1.2.symm, funcsB_sound _ _ h.2⟩

/-! ### lookups -/

theorem findBlock_rel {D N : List String} : ∀ {bs bs' : List Block}, BlocksRel D N bs bs' → ∀ (n : String),
    (bs.find? (·.name = n) = none → bs'.find? (·.name = n) = none) ∧
    (∀ b, bs.find? (·.name = n) = some b → ∃ b', bs'.find? (·.name = n) = some b' ∧ Align D N b.instrs b'.instrs)
  | _, _, .nil, n => by simp
  | _, _, .cons (b := b) (b' := b') hn ha hr, n => by
    have ih := findBlock_rel hr n
    by_cases hb : b.name = n
    · simp [List.find?, hb, hn]; exact ha
    · simp only [List.find?, hb, hn, decide_false]; exact ih

theorem findFunc_rel : ∀ {fs fs' : List Func}, FuncsRel fs fs' → ∀ (n : String),
    (fs.find? (·.name = n) = none → fs'.find? (·.name = n) = none) ∧
    (∀ f, fs.find? (·.name = n) = some f → ∃ f', fs'.find? (·.name = n) = some f' ∧ ∃ D N, FnRel D N f f')
  | _, _, .nil, n => by simp
  | _, _, .cons (f := f) (f' := f') hf hr, n => by
    have ih := findFunc_rel hr n
    obtain ⟨D, N, hfr⟩ := hf
    by_cases hb : f.name = n
    · simp [List.find?, hb, hfr.name]; exact ⟨D, N, hfr⟩
    · simp only [List.find?, hb, hfr.name, decide_false]; exact ih


/-! ### the layout (addresses of globals, literals, functions) is the same -/

theorem filterMap_align {α : Type} {D N : List String} (g : Instr → Option α)
    (hrem : ∀ i, removable i = true → g i = none) (hconst : ∀ d ty c, g (.const d ty c) = none) :
    ∀ {l l' : List Instr}, Align D N l l' → l'.filterMap g = l.filterMap g
  | _, _, .nil => rfl
  | _, _, .keep _ h => by simp only [List.filterMap_cons, filterMap_align g hrem hconst h]
  | _, _, .del (i := i) hd h => by
    have : g i = none := hrem i (by simp only [isDel, Bool.and_eq_true] at hd; exact hd.1)
    simp only [List.filterMap_cons, this, filterMap_align g hrem hconst h]
  | _, _, .ins (i' := i') hi h => by
    have : g i' = none := by
      cases i' <;> simp only [isIns, Bool.false_eq_true] at hi
      exact hconst _ _ _
    simp only [List.filterMap_cons, this, filterMap_align g hrem hconst h]

theorem blockLits_rel {D N : List String} (fname : String) : ∀ {bs bs' : List Block}, BlocksRel D N bs bs' →
    (bs'.flatMap fun b => b.instrs.filterMap fun
      | .literal d data => some (fname, d, data)
      | _ => none) =
    (bs.flatMap fun b => b.instrs.filterMap fun
      | .literal d data => some (fname, d, data)
      | _ => none)
  | _, _, .nil => rfl
  | _, _, .cons _ ha hr => by
    simp only [List.flatMap_cons]
    rw [blockLits_rel fname hr, filterMap_align _ (by intro i hi; cases i <;> simp_all [removable]) (by intros; rfl) ha]

theorem literals_rel : ∀ {fs fs' : List Func}, FuncsRel fs fs' →
    (fs'.flatMap fun f => f.blocks.flatMap fun b => b.instrs.filterMap fun
      | .literal d data => some (f.name, d, data)
      | _ => none) =
    (fs.flatMap fun f => f.blocks.flatMap fun b => b.instrs.filterMap fun
      | .literal d data => some (f.name, d, data)
      | _ => none)
  | _, _, .nil => rfl
  | _, _, .cons ⟨D, N, hf⟩ hr => by
    simp only [List.flatMap_cons]
    rw [literals_rel hr, hf.name, blockLits_rel _ hf.blocks]

theorem funcNames_rel : ∀ {fs fs' : List Func}, FuncsRel fs fs' → fs'.map (·.name) = fs.map (·.name)
  | _, _, .nil => rfl
  | _, _, .cons ⟨_, _, hf⟩ hr => by simp only [List.map_cons, funcNames_rel hr, hf.name]

theorem ModRel.literals {m m' : Module} (h : ModRel m m') : m'.literals = m.literals :=
  literals_rel h.funcs

theorem ModRel.layout {m m' : Module} (h : ModRel m m') (cfg : Config) : mkLayout cfg m' = mkLayout cfg m := by
  simp only [mkLayout, h.literals, h.vars, Module.codeNames, funcNames_rel h.funcs, h.externs]

theorem ModRel.initGlob {m m' : Module} (h : ModRel m m') (cfg : Config) (l : Layout) :
    initGlob cfg m' l = initGlob cfg m l := by
  simp only [Spec.IR.initGlob, h.literals, h.vars]


/-! ### phi values on block entry -/

theorem phiValues_nonphi (c : Ctx) (e : Env) (pred : String) {i : Instr} (r : List Instr) (h : i.isPhi = false) :
    phiValues c e pred (i :: r) = phiValues c e pred r := by
  cases i <;> first | rfl | simp [Instr.isPhi] at h

theorem lookupStr_mem {β : Type} : ∀ {l : List (String × β)} {k : String} {v : β}, lookupStr l k = some v → (k, v) ∈ l
  | [], _, _, h => by simp [lookupStr] at h
  | (y, w) :: r, k, v, h => by
    simp only [lookupStr] at h
    by_cases hk : k = y
    · simp only [hk, ↓reduceIte, Option.some.injEq] at h; subst h; simp [hk]
    · simp only [hk, ↓reduceIte] at h; exact List.mem_cons_of_mem _ (lookupStr_mem h)

theorem setMany_cons (e : Env) (d : String) (v : Val) (vs : List (String × Val)) :
    e.setMany ((d, v) :: vs) = (e.set d v).setMany vs := rfl

theorem removable_not_phi_or {i : Instr} : i.isPhi = true → ∃ d ty ins, i = .phi d ty ins := by
  cases i <;> simp [Instr.isPhi]

theorem phiValues_align {ctx ctx' : Ctx} (hlay : ctx'.layout = ctx.layout) {D N : List String} {e e' : Env}
    (hag : EnvAgree (D ++ N) e e') (pred : String) :
    ∀ {l l' : List Instr}, Align D N l l' → ∀ vals, phiValues ctx e pred l = .ok vals →
      ∃ vals', phiValues ctx' e' pred l' = .ok vals' ∧
        ∀ e0 e0', EnvAgree (D ++ N) e0 e0' → EnvAgree (D ++ N) (e0.setMany vals) (e0'.setMany vals')
  | _, _, .nil, vals, h => by
    simp only [phiValues, Except.ok.injEq] at h; subst h
    exact ⟨[], rfl, fun _ _ h => h⟩
  | _, _, .keep (i := i) (r := r) (r' := r') hav hal, vals, h => by
    cases hp : i.isPhi with
    | false =>
      rw [phiValues_nonphi _ _ _ _ hp] at h ⊢
      exact phiValues_align hlay hag pred hal vals h
    | true =>
      obtain ⟨d, ty, ins, rfl⟩ := removable_not_phi_or hp
      simp only [phiValues] at h ⊢
      cases hl : lookupStr ins pred with
      | none => simp [hl] at h
      | some o =>
        simp only [hl] at h ⊢
        have ho : opAvoids (D ++ N) o = true := by
          simp only [avoids, Bool.and_eq_true, List.all_eq_true] at hav
          exact hav.1 o (by simp [allOps, Instr.uses, Instr.phiIns]; exact ⟨pred, lookupStr_mem hl⟩)
        rw [evalOpnd_agree hlay hag ho]
        cases hv : evalOpnd ctx e o with
        | error err => simp [hv, bind, Except.bind] at h
        | ok v =>
          simp only [hv, bind, Except.bind] at h ⊢
          cases hr : phiValues ctx e pred r with
          | error err => simp [hr] at h
          | ok vs =>
            simp only [hr, pure, Except.pure, Except.ok.injEq] at h
            subst h
            obtain ⟨vs', hvs', hagr⟩ := phiValues_align hlay hag pred hal vs hr
            refine ⟨(d, v) :: vs', by simp [hvs', pure, Except.pure], ?_⟩
            intro e0 e0' h0
            rw [setMany_cons, setMany_cons]
            exact hagr _ _ (h0.set_both d v)
  | _, _, .del (i := i) (r := r) hd hal, vals, h => by
    simp only [isDel, Bool.and_eq_true] at hd
    cases hp : i.isPhi with
    | false =>
      rw [phiValues_nonphi _ _ _ _ hp] at h
      exact phiValues_align hlay hag pred hal vals h
    | true =>
      obtain ⟨d, ty, ins, rfl⟩ := removable_not_phi_or hp
      have hdD : d ∈ D ++ N := by
        have := hd.2; simp [dstName, Instr.dst?] at this; exact List.mem_append_left _ this
      simp only [phiValues] at h
      cases hl : lookupStr ins pred with
      | none => simp [hl] at h
      | some o =>
        simp only [hl] at h
        cases hv : evalOpnd ctx e o with
        | error err => simp [hv, bind, Except.bind] at h
        | ok v =>
          simp only [hv, bind, Except.bind] at h
          cases hr : phiValues ctx e pred r with
          | error err => simp [hr] at h
          | ok vs =>
            simp only [hr, pure, Except.pure, Except.ok.injEq] at h
            subst h
            obtain ⟨vs', hvs', hagr⟩ := phiValues_align hlay hag pred hal vs hr
            refine ⟨vs', hvs', ?_⟩
            intro e0 e0' h0
            rw [setMany_cons]
            exact hagr _ _ (h0.set_left hdD v)
  | _, _, .ins (i' := i') hi hal, vals, h => by
    have hp : i'.isPhi = false := by cases i' <;> simp_all [isIns, Instr.isPhi]
    rw [phiValues_nonphi _ _ _ _ hp]
    exact phiValues_align hlay hag pred hal vals h


/-! ### dynamic relation between activations and states -/

structure FrRelDN (D N : List String) (fr fr' : Frame) : Prop where
  fn : FnRel D N fr.fn fr'.fn
  cur : fr'.cur = fr.cur
  rest : Align D N fr.rest fr'.rest
  env : EnvAgree (D ++ N) fr.env fr'.env
  sp : fr'.spSave = fr.spSave
  retTo : fr'.retTo = fr.retTo

def FrRel (fr fr' : Frame) : Prop := ∃ D N, FrRelDN D N fr fr'

inductive FramesRel : List Frame → List Frame → Prop
  | nil : FramesRel [] []
  | cons {c c' : Frame} {cs cs' : List Frame} : FrRel c c' → FramesRel cs cs' → FramesRel (c :: cs) (c' :: cs')

structure StRel (s s' : State) : Prop where
  mem : s'.mem = s.mem
  trace : s'.trace = s.trace
  top : FrRel s.top s'.top
  callers : FramesRel s.callers s'.callers

/-- the results of corresponding steps correspond -/
def ResRel : StepR → StepR → Prop
  | .next t, .next t' => StRel t t'
  | .done o, .done o' => o' = o
  | _, _ => False

/-- the two static contexts differ in the module only, and the modules are related -/
structure CtxRel (ctx ctx' : Ctx) : Prop where
  cfg : ctx'.cfg = ctx.cfg
  layout : ctx'.layout = ctx.layout
  oracle : ctx'.oracle = ctx.oracle
  mod : ModRel ctx.mod ctx'.mod

theorem mkCtx_rel {m m' : Module} (h : ModRel m m') (cfg : Config) (oracle : Oracle) :
    CtxRel (mkCtx cfg m oracle) (mkCtx cfg m' oracle) :=
  ⟨rfl, h.layout cfg, rfl, h⟩

theorem enterBlock_sim {ctx ctx' : Ctx} (hc : CtxRel ctx ctx') {D N : List String} {fr fr' : Frame}
    (hfn : FnRel D N fr.fn fr'.fn) (hcur : fr'.cur = fr.cur) (henv : EnvAgree (D ++ N) fr.env fr'.env)
    (hsp : fr'.spSave = fr.spSave) (hrt : fr'.retTo = fr.retTo) (t : String) {nf : Frame}
    (h : enterBlock ctx fr t = .ok nf) : ∃ nf', enterBlock ctx' fr' t = .ok nf' ∧ FrRelDN D N nf nf' := by
  simp only [enterBlock, Func.findBlock] at h ⊢
  have hfb := findBlock_rel hfn.blocks t
  cases hb : fr.fn.blocks.find? (·.name = t) with
  | none => simp [hb] at h
  | some b =>
    obtain ⟨b', hb', hal⟩ := hfb.2 b hb
    simp only [hb, hb'] at h ⊢
    cases hv : phiValues ctx fr.env fr.cur b.instrs with
    | error e => simp [hv, bind, Except.bind] at h
    | ok vals =>
      obtain ⟨vals', hv', hag⟩ := phiValues_align hc.layout henv fr.cur hal vals hv
      simp only [hv, bind, Except.bind, pure, Except.pure, Except.ok.injEq] at h
      subst h
      refine ⟨{ fr' with cur := t, rest := b'.instrs, env := fr'.env.setMany vals' },
        by simp only [hcur, hv', bind, Except.bind, pure, Except.pure], ?_⟩
      exact ⟨hfn, rfl, hal, hag _ _ henv, hsp, hrt⟩

theorem newFrame_sim {cfg : Config} {D N : List String} {f f' : Func} (hfn : FnRel D N f f')
    (args : List Val) (sp : Nat) (rt : Option String) {fr : Frame}
    (h : newFrame cfg f args sp rt = .ok fr) : ∃ fr', newFrame cfg f' args sp rt = .ok fr' ∧ FrRelDN D N fr fr' := by
  simp only [newFrame, Func.findBlock, hfn.params, hfn.entry] at h ⊢
  have hfb := findBlock_rel hfn.blocks f.entry
  cases hp : bindParams cfg f.params args with
  | none => simp [hp] at h
  | some env =>
    cases hb : f.blocks.find? (·.name = f.entry) with
    | none => simp [hp, hb] at h
    | some b =>
      obtain ⟨b', hb', hal⟩ := hfb.2 b hb
      simp only [hp, hb, Except.ok.injEq] at h
      subst h
      exact ⟨{ fn := f', cur := f.entry, rest := b'.instrs, env := env, spSave := sp, retTo := rt },
        by simp only [hp, hb'], ⟨hfn, rfl, hal, EnvAgree.refl _ _, rfl, rfl⟩⟩


theorem finalGlobals_rel {ctx ctx' : Ctx} (hc : CtxRel ctx ctx') (mem : Mem) :
    finalGlobals ctx' mem = finalGlobals ctx mem := by
  simp only [finalGlobals, hc.cfg, hc.layout, hc.mod.vars]

theorem doReturn_sim {ctx ctx' : Ctx} (hc : CtxRel ctx ctx') {s s' : State} (hs : StRel s s') (v : Option Val)
    {R : StepR} (h : doReturn ctx s v = .ok R) : ∃ R', doReturn ctx' s' v = .ok R' ∧ ResRel R R' := by
  obtain ⟨mem, top, callers, trace⟩ := s
  obtain ⟨mem', top', callers', trace'⟩ := s'
  obtain ⟨hmem, htr, ⟨D, N, htop⟩, hcs⟩ := hs
  simp only at hmem htr htop hcs
  subst hmem htr
  cases hcs with
  | nil =>
    simp only [doReturn, htop.sp, finalGlobals_rel hc] at h ⊢
    split at h
    · simp at h
    · simp only [Except.ok.injEq] at h; subst h
      exact ⟨_, rfl, rfl⟩
  | cons hcc hcs =>
    rename_i c c' cs cs'
    simp only [doReturn, htop.sp, htop.retTo] at h ⊢
    obtain ⟨D2, N2, hc2⟩ := hcc
    cases hrt : top.retTo with
    | none =>
      simp only [hrt, Except.ok.injEq] at h ⊢; subst h
      exact ⟨_, rfl, ⟨rfl, rfl, ⟨D2, N2, hc2⟩, hcs⟩⟩
    | some d =>
      cases v with
      | none => simp [hrt] at h
      | some x =>
        simp only [hrt, Except.ok.injEq] at h ⊢; subst h
        refine ⟨_, rfl, ?_⟩
        exact ⟨rfl, rfl, ⟨D2, N2, ⟨hc2.fn, hc2.cur, hc2.rest, hc2.env.set_both d x, hc2.sp, hc2.retTo⟩⟩, hcs⟩

/-! ### calls -/

/-- the name of the called subroutine (first part of `doCall`) -/
def calleeName (ctx : Ctx) (env : Env) (callee : Operand) : Except Err String :=
  match callee with
  | .glob g =>
    if (ctx.layout.code.any (fun p => p.1 = g)) then pure g
    else throw (.ub s!"call of non-function global {g}")
  | .loc _ => do
    let a ← evalAddr ctx env callee "call"
    match ctx.layout.codeAt a with
    | some g => pure g
    | none => throw (.ub "indirect call of an address that is not a function")

/-- the call once the callee and the argument values are known (second part of `doCall`) -/
def callNamed (ctx : Ctx) (s : State) (fr : Frame) (dst : Option (String × Ty)) (name : String) (vs : List Val) :
    Except Err StepR :=
  match ctx.mod.findFunc name with
  | some f =>
    match f.ret, dst with
    | none, some _ => throw (.ub s!"function call of procedure {name}")
    | _, _ => do
      let nf ← newFrame ctx.cfg f vs s.mem.stack.size (dst.map (·.1))
      pure (.next { s with top := nf, callers := fr :: s.callers })
  | none =>
    match ctx.mod.findExtern name with
    | some e =>
      if anyUndef vs then throw (.undefRead s!"argument of external call {name}") else
      match e.kind, dst with
      | .func _ rty, some (d, _) =>
        let r := normVal ctx.cfg rty (ctx.oracle s.trace.length name vs)
        pure (.next { s with top := { fr with env := fr.env.set d r },
                             trace := s.trace ++ [{ name := name, args := vs, result := some r }] })
      | .func _ rty, none =>
        let r := normVal ctx.cfg rty (ctx.oracle s.trace.length name vs)
        pure (.next { s with top := fr, trace := s.trace ++ [{ name := name, args := vs, result := some r }] })
      | .proc _, none =>
        pure (.next { s with top := fr, trace := s.trace ++ [{ name := name, args := vs, result := none }] })
      | .proc _, some _ => throw (.ub s!"function call of external procedure {name}")
      | .var, _ => throw (.ub s!"call of external variable {name}")
    | none => throw (.ub s!"call of unknown function {name}")

theorem doCall_eq (ctx : Ctx) (s : State) (fr : Frame) (dst : Option (String × Ty)) (callee : Operand)
    (args : List Operand) :
    doCall ctx s fr dst callee args = (do
      let name ← calleeName ctx fr.env callee
      let vs ← evalOpnds ctx fr.env args
      callNamed ctx s fr dst name vs) := by
  unfold doCall calleeName callNamed
  cases callee with
  | glob g =>
    simp only []
    split <;> rfl
  | loc x =>
    simp only [bind, Except.bind]
    cases evalAddr ctx fr.env (.loc x) "call" with
    | error e => rfl
    | ok a =>
      simp only []
      cases ctx.layout.codeAt a <;> rfl


theorem calleeName_agree {ctx ctx' : Ctx} (hc : CtxRel ctx ctx') {X : List String} {e e' : Env}
    (hag : EnvAgree X e e') {callee : Operand} (ho : opAvoids X callee = true) :
    calleeName ctx' e' callee = calleeName ctx e callee := by
  cases callee with
  | glob g => simp only [calleeName, hc.layout]
  | loc x => simp only [calleeName, hc.layout, evalAddr_congr "call" (evalOpnd_agree hc.layout hag ho)]

theorem callNamed_sim {ctx ctx' : Ctx} (hc : CtxRel ctx ctx') {s s' : State} (hmem : s'.mem = s.mem)
    (htr : s'.trace = s.trace) (hcs : FramesRel s.callers s'.callers) {D N : List String} {fr fr' : Frame}
    (hfr : FrRelDN D N fr fr') (dst : Option (String × Ty)) (name : String) (vs : List Val) {R : StepR}
    (h : callNamed ctx s fr dst name vs = .ok R) :
    ∃ R', callNamed ctx' s' fr' dst name vs = .ok R' ∧ ResRel R R' := by
  unfold callNamed at h ⊢
  have hff := findFunc_rel hc.mod.funcs name
  simp only [Module.findFunc] at h ⊢
  cases hf : ctx.mod.funcs.find? (·.name = name) with
  | some f =>
    obtain ⟨f', hf', D2, N2, hfn⟩ := hff.2 f hf
    simp only [hf, hf', hfn.ret] at h ⊢
    have push : ∀ (rt : Option String),
        (do let nf ← newFrame ctx.cfg f vs s.mem.stack.size rt
            pure (StepR.next { s with top := nf, callers := fr :: s.callers }) : Except Err StepR) = .ok R →
        ∃ R', (do let nf ← newFrame ctx'.cfg f' vs s'.mem.stack.size rt
                  pure (StepR.next { s' with top := nf, callers := fr' :: s'.callers }) : Except Err StepR) = .ok R' ∧
          ResRel R R' := by
      intro rt h2
      cases hnf : newFrame ctx.cfg f vs s.mem.stack.size rt with
      | error e => simp [hnf, bind, Except.bind] at h2
      | ok nf =>
        obtain ⟨nf', hnf', hrel⟩ := newFrame_sim hfn vs s.mem.stack.size rt hnf
        simp only [hnf, bind, Except.bind, pure, Except.pure, Except.ok.injEq] at h2
        subst h2
        refine ⟨.next { s' with top := nf', callers := fr' :: s'.callers },
          by simp only [hc.cfg, hmem, hnf', bind, Except.bind, pure, Except.pure], ?_⟩
        exact ⟨hmem, htr, ⟨D2, N2, hrel⟩, .cons ⟨D, N, hfr⟩ hcs⟩
    cases hret : f.ret <;> cases dst <;> simp only [hret] at h ⊢
    · exact push _ h
    · simp [throw, throwThe, MonadExceptOf.throw] at h
    · exact push _ h
    · exact push _ h
  | none =>
    have hf' := hff.1 hf
    simp only [hf, hf', Module.findExtern, hc.mod.externs] at h ⊢
    cases he : ctx.mod.externs.find? (·.name = name) with
    | none => simp [he, throw, throwThe, MonadExceptOf.throw] at h
    | some e =>
      simp only [he] at h ⊢
      split at h
      · simp [throw, throwThe, MonadExceptOf.throw] at h
      · rename_i hun
        simp only [hun, Bool.false_eq_true, ↓reduceIte]
        split at h
        · rename_i as rty d ty hk
          simp only [pure, Except.pure, Except.ok.injEq] at h; subst h
          refine ⟨_, rfl, ?_⟩
          refine ⟨hmem, by simp only [htr, hc.cfg, hc.oracle], ⟨D, N, ?_⟩, hcs⟩
          simp only [htr, hc.cfg, hc.oracle]
          exact ⟨hfr.fn, hfr.cur, hfr.rest, hfr.env.set_both _ _, hfr.sp, hfr.retTo⟩
        · rename_i as rty hk
          simp only [pure, Except.pure, Except.ok.injEq] at h; subst h
          refine ⟨_, rfl, ?_⟩
          exact ⟨hmem, by simp only [htr, hc.cfg, hc.oracle], ⟨D, N, hfr⟩, hcs⟩
        · rename_i as hk
          simp only [pure, Except.pure, Except.ok.injEq] at h; subst h
          refine ⟨_, rfl, ?_⟩
          exact ⟨hmem, by simp only [htr], ⟨D, N, hfr⟩, hcs⟩
        · simp [throw, throwThe, MonadExceptOf.throw] at h
        · simp [throw, throwThe, MonadExceptOf.throw] at h


/-! ### one kept instruction -/

theorem mapOps_id (i : Instr) : Model.Opt.mapOps id i = i := by
  cases i <;> simp [Model.Opt.mapOps]

theorem stepE_ok_of_step_next {ctx : Ctx} {s t : State} (h : step ctx s = .next t) : stepE ctx s = .ok (.next t) := by
  simp only [step] at h
  cases hs : stepE ctx s with
  | error e => simp [hs] at h
  | ok r => simp only [hs] at h; rw [h]

theorem stepE_ok_of_step_done {ctx : Ctx} {s : State} {r g tr} (h : step ctx s = .done (.ok r g tr)) :
    stepE ctx s = .ok (.done (.ok r g tr)) := by
  simp only [step] at h
  cases hs : stepE ctx s with
  | error e => simp [hs] at h
  | ok r => simp only [hs] at h; rw [h]

theorem step_of_stepE {ctx : Ctx} {s : State} {R : StepR} (h : stepE ctx s = .ok R) : step ctx s = R := by
  simp only [step, h]

theorem uses_avoid {X : List String} {i : Instr} (hav : avoids X i = true) : ∀ o ∈ i.uses, opAvoids X o = true := by
  intro o ho
  simp only [avoids, Bool.and_eq_true, List.all_eq_true] at hav
  exact hav.1 o (by simp [allOps, ho])

theorem keep_sim {ctx ctx' : Ctx} (hc : CtxRel ctx ctx') {s s' : State} {D N : List String}
    {i : Instr} {r r' : List Instr}
    (hmem : s'.mem = s.mem) (htr : s'.trace = s.trace) (hcs : FramesRel s.callers s'.callers)
    (hfn : FnRel D N s.top.fn s'.top.fn) (hcur : s'.top.cur = s.top.cur)
    (hrest : s.top.rest = i :: r) (hrest' : s'.top.rest = i :: r') (hav : avoids (D ++ N) i = true)
    (hal : Align D N r r') (henv : EnvAgree (D ++ N) s.top.env s'.top.env)
    (hsp : s'.top.spSave = s.top.spSave) (hrt : s'.top.retTo = s.top.retTo)
    {R : StepR} (h : stepE ctx s = .ok R) : ∃ R', stepE ctx' s' = .ok R' ∧ ResRel R R' := by
  have hops : ∀ o ∈ i.uses, evalOpnd ctx' s'.top.env o = evalOpnd ctx s.top.env o :=
    fun o ho => evalOpnd_agree hc.layout henv (uses_avoid hav o ho)
  have hfrA : FrRelDN D N { s.top with rest := r } { s'.top with rest := r' } := ⟨hfn, hcur, hal, henv, hsp, hrt⟩
  cases he : effect ctx s.top.fn.name s.mem s.top.env i with
  | some eff =>
    have he' : effect ctx' s'.top.fn.name s'.mem s'.top.env i = some eff := by
      have := effect_congr hc.cfg hc.layout (i := i) id s.top.fn.name s.mem hops
      rw [mapOps_id] at this
      rw [hfn.name, hmem, this, he]
    rw [stepE_effect hrest he] at h
    rw [stepE_effect hrest' he']
    cases eff with
    | error e => simp [Except.map] at h
    | ok p =>
      simp only [Except.map, Except.ok.injEq] at h ⊢
      subst h
      refine ⟨_, rfl, ?_⟩
      refine ⟨rfl, htr, ⟨D, N, ?_⟩, hcs⟩
      refine ⟨hfn, hcur, hal, ?_, hsp, hrt⟩
      simp only [applyEff]
      cases p.2 with
      | none => exact henv
      | some dv => exact henv.set_both _ _
  | none =>
    cases i <;> simp only [effect, reduceCtorEq] at he
    case jump t =>
      rw [stepE_jump hrest] at h
      rw [stepE_jump hrest']
      cases hb : enterBlock ctx { s.top with rest := r } t with
      | error e => simp [hb, bind, Except.bind] at h
      | ok nf =>
        obtain ⟨nf', hb', hrel⟩ := enterBlock_sim hc (fr := { s.top with rest := r }) (fr' := { s'.top with rest := r' })
          hfn hcur henv hsp hrt t hb
        simp only [hb, bind, Except.bind, pure, Except.pure, Except.ok.injEq] at h
        subst h
        exact ⟨.next { s' with top := nf' }, by simp only [hb', bind, Except.bind, pure, Except.pure],
          ⟨hmem, htr, ⟨D, N, hrel⟩, hcs⟩⟩
    case cjump a c b yes no =>
      rw [stepE_cjump hrest] at h
      rw [stepE_cjump hrest', hops a (by simp [Instr.uses]), hops b (by simp [Instr.uses])]
      cases hx : evalOpnd ctx s.top.env a with
      | error e => simp [hx, bind, Except.bind] at h
      | ok x =>
        cases hy : evalOpnd ctx s.top.env b with
        | error e => simp [hx, hy, bind, Except.bind] at h
        | ok y =>
          cases ht : evalCond c x y with
          | error e => simp [hx, hy, ht, bind, Except.bind] at h
          | ok tv =>
            simp only [hx, hy, ht, bind, Except.bind] at h ⊢
            cases hb : enterBlock ctx { s.top with rest := r } (if tv then yes else no) with
            | error e => simp [hb] at h
            | ok nf =>
              obtain ⟨nf', hb', hrel⟩ := enterBlock_sim hc (fr := { s.top with rest := r })
                (fr' := { s'.top with rest := r' }) hfn hcur henv hsp hrt _ hb
              simp only [hb, pure, Except.pure, Except.ok.injEq] at h
              subst h
              exact ⟨.next { s' with top := nf' }, by simp only [hb', pure, Except.pure],
                ⟨hmem, htr, ⟨D, N, hrel⟩, hcs⟩⟩
    case ret v =>
      rw [stepE_ret hrest] at h
      rw [stepE_ret hrest', hfn.ret, hops v (by simp [Instr.uses])]
      cases hr : s.top.fn.ret with
      | none => simp [hr] at h
      | some rt =>
        simp only [hr] at h ⊢
        cases hx : evalOpnd ctx s.top.env v with
        | error e => simp [hx, bind, Except.bind] at h
        | ok x =>
          simp only [hx, bind, Except.bind] at h ⊢
          exact doReturn_sim hc (s := { s with top := { s.top with rest := r } })
            (s' := { s' with top := { s'.top with rest := r' } }) ⟨hmem, htr, ⟨D, N, hfrA⟩, hcs⟩ _ h
    case exit =>
      rw [stepE_exit hrest] at h
      rw [stepE_exit hrest', hfn.ret]
      cases hr : s.top.fn.ret with
      | some rt => simp [hr] at h
      | none =>
        simp only [hr] at h ⊢
        exact doReturn_sim hc (s := { s with top := { s.top with rest := r } })
          (s' := { s' with top := { s'.top with rest := r' } }) ⟨hmem, htr, ⟨D, N, hfrA⟩, hcs⟩ _ h
    case fcall d ty callee args =>
      rw [stepE_fcall hrest, doCall_eq] at h
      rw [stepE_fcall hrest', doCall_eq]
      have hcal : calleeName ctx' s'.top.env callee = calleeName ctx s.top.env callee :=
        calleeName_agree hc henv (uses_avoid hav callee (by simp [Instr.uses]))
      have hargs : evalOpnds ctx' s'.top.env args = evalOpnds ctx s.top.env args := by
        have := evalOpnds_congr (ctx := ctx) (ctx' := ctx') (env := s.top.env) (env' := s'.top.env) id args
          (fun o ho => hops o (by simp [Instr.uses, ho]))
        simpa using this
      simp only at h ⊢
      rw [hcal, hargs]
      cases hn : calleeName ctx s.top.env callee with
      | error e => simp [hn, bind, Except.bind] at h
      | ok name =>
        cases hvs : evalOpnds ctx s.top.env args with
        | error e => simp [hn, hvs, bind, Except.bind] at h
        | ok vs =>
          simp only [hn, hvs, bind, Except.bind] at h ⊢
          exact callNamed_sim hc hmem htr hcs hfrA _ _ _ h
    case pcall callee args =>
      rw [stepE_pcall hrest, doCall_eq] at h
      rw [stepE_pcall hrest', doCall_eq]
      have hcal : calleeName ctx' s'.top.env callee = calleeName ctx s.top.env callee :=
        calleeName_agree hc henv (uses_avoid hav callee (by simp [Instr.uses]))
      have hargs : evalOpnds ctx' s'.top.env args = evalOpnds ctx s.top.env args := by
        have := evalOpnds_congr (ctx := ctx) (ctx' := ctx') (env := s.top.env) (env' := s'.top.env) id args
          (fun o ho => hops o (by simp [Instr.uses, ho]))
        simpa using this
      simp only at h ⊢
      rw [hcal, hargs]
      cases hn : calleeName ctx s.top.env callee with
      | error e => simp [hn, bind, Except.bind] at h
      | ok name =>
        cases hvs : evalOpnds ctx s.top.env args with
        | error e => simp [hn, hvs, bind, Except.bind] at h
        | ok vs =>
          simp only [hn, hvs, bind, Except.bind] at h ⊢
          exact callNamed_sim hc hmem htr hcs hfrA _ _ _ h


/-! ### deleted and inserted instructions -/

/-- a removable instruction changes nothing but (possibly) the binding of its own result -/
theorem removable_effect (ctx : Ctx) (fname : String) (mem : Mem) (env : Env) {i : Instr} (hr : removable i = true) :
    ∃ eff, effect ctx fname mem env i = some eff ∧
      ∀ p, eff = .ok p → p.1 = mem ∧ (p.2 = none ∨ ∃ d v, dstName i = some d ∧ p.2 = some (d, v)) := by
  cases i <;> simp only [removable, Bool.false_eq_true] at hr <;> simp only [effect] <;>
    refine ⟨_, rfl, ?_⟩ <;> intro p hp <;>
    simp only [bind, Except.bind, pure, Except.pure] at hp
  case const d ty c =>
    cases hv : Spec.IR.evalConst ctx.cfg ty c with
    | error e => simp [hv] at hp
    | ok v => simp only [hv, Except.ok.injEq] at hp; subst hp; exact ⟨rfl, .inr ⟨d, v, rfl, rfl⟩⟩
  case undefined d ty => simp only [Except.ok.injEq] at hp; subst hp; exact ⟨rfl, .inr ⟨d, _, rfl, rfl⟩⟩
  case addrof d src =>
    cases hv : evalOpnd ctx env src with
    | error e => simp [hv] at hp
    | ok v => simp only [hv, Except.ok.injEq] at hp; subst hp; exact ⟨rfl, .inr ⟨d, v, rfl, rfl⟩⟩
  case binop d ty op a b =>
    cases hx : evalOpnd ctx env a with
    | error e => simp [hx] at hp
    | ok x =>
      cases hy : evalOpnd ctx env b with
      | error e => simp [hx, hy] at hp
      | ok y =>
        cases hv : evalBinop ctx.cfg ty op x y with
        | error e => simp [hx, hy, hv] at hp
        | ok v => simp only [hx, hy, hv, Except.ok.injEq] at hp; subst hp; exact ⟨rfl, .inr ⟨d, v, rfl, rfl⟩⟩
  case unop d ty op a =>
    cases hx : evalOpnd ctx env a with
    | error e => simp [hx] at hp
    | ok x =>
      cases hv : evalUnop ctx.cfg ty op x with
      | error e => simp [hx, hv] at hp
      | ok v => simp only [hx, hv, Except.ok.injEq] at hp; subst hp; exact ⟨rfl, .inr ⟨d, v, rfl, rfl⟩⟩
  case cast d ty a =>
    cases hx : evalOpnd ctx env a with
    | error e => simp [hx] at hp
    | ok x =>
      cases hv : evalCast ctx.cfg ty x with
      | error e => simp [hx, hv] at hp
      | ok v => simp only [hx, hv, Except.ok.injEq] at hp; subst hp; exact ⟨rfl, .inr ⟨d, v, rfl, rfl⟩⟩
  case load d ty addr vol =>
    cases ha : evalAddr ctx env addr "load" with
    | error e => simp [ha] at hp
    | ok a =>
      simp only [ha] at hp
      cases hb : mem.readBytes ctx.cfg a (ty.size ctx.cfg) with
      | none => simp [hb] at hp
      | some bs => simp only [hb, Except.ok.injEq] at hp; subst hp; exact ⟨rfl, .inr ⟨d, _, rfl, rfl⟩⟩
  case phi d ty ins => simp only [Except.ok.injEq] at hp; subst hp; exact ⟨rfl, .inl rfl⟩

theorem iter_snoc {ctx : Ctx} : ∀ {k : Nat} {s t u : State}, iter ctx k s = some t → step ctx t = .next u →
    iter ctx (k + 1) s = some u
  | 0, s, t, u, h, hs => by simp [iter] at h; subst h; simp [iter, hs]
  | k + 1, s, t, u, h, hs => by
    simp only [iter] at h
    cases h1 : step ctx s with
    | done o => simp [h1] at h
    | next s1 =>
      simp only [h1] at h
      have := iter_snoc h hs
      simp only [iter, h1]; exact this

theorem align_sim {ctx ctx' : Ctx} (hc : CtxRel ctx ctx') {D N : List String} :
    ∀ {l l' : List Instr}, Align D N l l' → ∀ (s s' : State), s.top.rest = l → s'.top.rest = l' →
      s'.mem = s.mem → s'.trace = s.trace → FramesRel s.callers s'.callers →
      FnRel D N s.top.fn s'.top.fn → s'.top.cur = s.top.cur → EnvAgree (D ++ N) s.top.env s'.top.env →
      s'.top.spSave = s.top.spSave → s'.top.retTo = s.top.retTo →
      ∀ {R : StepR}, stepE ctx s = .ok R →
      ∃ k s'', iter ctx' k s' = some s'' ∧
        ((∃ t, R = .next t ∧ StRel t s'') ∨ ∃ R', stepE ctx' s'' = .ok R' ∧ ResRel R R')
  | _, _, .nil, s, s', hl, _, _, _, _, _, _, _, _, _, R, h => by
    rw [stepE_nil hl] at h; simp at h
  | _, _, .keep hav hal, s, s', hl, hl', hmem, htr, hcs, hfn, hcur, henv, hsp, hrt, R, h =>
    ⟨0, s', rfl, .inr (keep_sim hc hmem htr hcs hfn hcur hl hl' hav hal henv hsp hrt h)⟩
  | _, _, .del (i := i) (r := r) hd hal, s, s', hl, hl', hmem, htr, hcs, hfn, hcur, henv, hsp, hrt, R, h => by
    simp only [isDel, Bool.and_eq_true] at hd
    obtain ⟨eff, he, hp⟩ := removable_effect ctx s.top.fn.name s.mem s.top.env hd.1
    rw [stepE_effect hl he] at h
    cases eff with
    | error e => simp [Except.map] at h
    | ok p =>
      simp only [Except.map, Except.ok.injEq] at h
      obtain ⟨hp1, hp2⟩ := hp p rfl
      refine ⟨0, s', rfl, .inl ⟨_, h.symm, ?_⟩⟩
      refine ⟨by simp only [applyEff, hp1, hmem], htr, ⟨D, N, ?_⟩, hcs⟩
      refine ⟨hfn, hcur, by simpa only [applyEff, hl'] using hal, ?_, hsp, hrt⟩
      simp only [applyEff]
      rcases hp2 with hp2 | ⟨d, v, hdn, hp2⟩
      · rw [hp2]; exact henv
      · rw [hp2]
        have hdD : d ∈ D ++ N := by
          have := hd.2; simp only [hdn] at this
          exact List.mem_append_left _ (by simpa using this)
        exact henv.set_left hdD v
  | _, _, .ins (i' := i') (r' := r') hi hal, s, s', hl, hl', hmem, htr, hcs, hfn, hcur, henv, hsp, hrt, R, h => by
    cases i' <;> simp only [isIns, Bool.and_eq_true, Bool.false_eq_true] at hi
    case const d ty c =>
      have hdN : d ∈ D ++ N := List.mem_append_right _ (by simpa using hi.1)
      obtain ⟨v, hv⟩ : ∃ v, Spec.IR.evalConst ctx'.cfg ty c = .ok v := by
        have := hi.2
        cases ty <;> cases c <;> simp_all [constOk, Spec.IR.evalConst]
      have he : effect ctx' s'.top.fn.name s'.mem s'.top.env (.const d ty c) = some (.ok (s'.mem, some (d, v))) := by
        simp only [effect, hv, bind, Except.bind, pure, Except.pure]
      have hs1 : step ctx' s' = .next (applyEff s' r' (s'.mem, some (d, v))) := by
        apply step_of_stepE
        rw [stepE_effect hl' he]; rfl
      obtain ⟨k, s'', hk, hres⟩ := align_sim hc hal s (applyEff s' r' (s'.mem, some (d, v))) hl rfl hmem htr hcs hfn hcur
        (by simp only [applyEff]; exact henv.set_right hdN v) hsp hrt h
      exact ⟨k + 1, s'', iter_succ hs1 hk, hres⟩

theorem align_hstep {ctx ctx' : Ctx} (hc : CtxRel ctx ctx') {s s' t : State} (hs : StRel s s')
    (h : step ctx s = .next t) : ∃ k t', iter ctx' k s' = some t' ∧ StRel t t' := by
  obtain ⟨hmem, htr, ⟨D, N, htop⟩, hcs⟩ := hs
  obtain ⟨k, s'', hk, hres⟩ := align_sim hc htop.rest s s' rfl rfl hmem htr hcs htop.fn htop.cur htop.env htop.sp htop.retTo
    (stepE_ok_of_step_next h)
  rcases hres with ⟨t0, ht0, hrel⟩ | ⟨R', hR', hrel⟩
  · simp only [StepR.next.injEq] at ht0; subst ht0
    exact ⟨k, s'', hk, hrel⟩
  · cases R' with
    | done o => simp [ResRel] at hrel
    | next t' => exact ⟨k + 1, t', iter_snoc hk (step_of_stepE hR'), hrel⟩

theorem align_hdone {ctx ctx' : Ctx} (hc : CtxRel ctx ctx') {s s' : State} {r g tr} (hs : StRel s s')
    (h : step ctx s = .done (.ok r g tr)) : ∃ k, run ctx' k s' = .ok r g tr := by
  obtain ⟨hmem, htr, ⟨D, N, htop⟩, hcs⟩ := hs
  obtain ⟨k, s'', hk, hres⟩ := align_sim hc htop.rest s s' rfl rfl hmem htr hcs htop.fn htop.cur htop.env htop.sp htop.retTo
    (stepE_ok_of_step_done h)
  rcases hres with ⟨t0, ht0, _⟩ | ⟨R', hR', hrel⟩
  · simp at ht0
  · cases R' with
    | next t' => simp [ResRel] at hrel
    | done o =>
      simp only [ResRel] at hrel; subst hrel
      refine ⟨k + 1, ?_⟩
      rw [run_iter hk 1]
      simp only [run, step_of_stepE hR']

theorem initState_sim {ctx ctx' : Ctx} (hc : CtxRel ctx ctx') (fname : String) (args : List Val) {s : State}
    (h : initState ctx fname args = .ok s) : ∃ s', initState ctx' fname args = .ok s' ∧ StRel s s' := by
  simp only [initState, Module.findFunc] at h ⊢
  have hff := findFunc_rel hc.mod.funcs fname
  cases hf : ctx.mod.funcs.find? (·.name = fname) with
  | none => simp [hf] at h
  | some f =>
    obtain ⟨f', hf', D, N, hfn⟩ := hff.2 f hf
    simp only [hf, hf'] at h ⊢
    cases hnf : newFrame ctx.cfg f args 0 none with
    | error e => simp [hnf, bind, Except.bind] at h
    | ok fr =>
      obtain ⟨fr', hnf', hrel⟩ := newFrame_sim hfn args 0 none hnf
      simp only [hnf, bind, Except.bind, pure, Except.pure, Except.ok.injEq] at h
      subst h
      refine ⟨{ mem := { glob := initGlob ctx'.cfg ctx'.mod ctx'.layout, stack := #[] }, top := fr', callers := [], trace := [] },
        by simp only [hc.cfg, hnf', bind, Except.bind, pure, Except.pure], ?_⟩
      refine ⟨?_, rfl, ⟨D, N, hrel⟩, .nil⟩
      simp only [hc.cfg, hc.layout, hc.mod.initGlob]

/-- **Soundness of the alignment validator**: deleting unused side-effect-free instructions and inserting
    fresh constants (as recognised by `checkAlign`) preserves every defined behaviour. -/
theorem checkAlign_sound {m m' : Module} (h : checkAlign m m' = true) (cfg : Config) : Preserves cfg m m' := by
  intro oracle fname args fuel r g tr hex
  have hc := mkCtx_rel (checkAlign_modRel h) cfg oracle
  simp only [exec] at hex ⊢
  cases hi : initState (mkCtx cfg m oracle) fname args with
  | error e => simp [hi] at hex
  | ok s =>
    obtain ⟨s', hi', hrel⟩ := initState_sim hc fname args hi
    simp only [hi] at hex
    obtain ⟨n', hn'⟩ := sim_run (ctx := mkCtx cfg m oracle) (ctx' := mkCtx cfg m' oracle) StRel
      (fun _ _ _ hR hs => align_hstep hc hR hs) (fun _ _ _ _ _ hR hs => align_hdone hc hR hs) fuel s s' r g tr hrel hex
    exact ⟨n', by simp only [hi', hn']⟩

end Proofs.Opt
