import PpciVerif.Spec.IR
/-!
# Proofs.Opt.Basic — simulation ⇒ preservation of observable behaviour (C02)

`Preserves cfg m m'`: every *defined* terminating run of `m` (outcome `.ok ret globals trace`: no UB, no
undefined read, nothing unsupported, fuel sufficient) is reproduced by `m'` with the same outcome, for every
oracle of the external functions, every function name, every argument vector.  (The fuel = number of
executed instructions may differ: passes delete and insert instructions.)
-/
namespace Proofs.Opt
open Spec.IR

/-- observable behaviour of every defined run is preserved -/
def Preserves (cfg : Config) (m m' : Module) : Prop :=
  ∀ (oracle : Oracle) (fname : String) (args : List Val) (fuel : Nat) r g tr,
    exec cfg m oracle fname args fuel = .ok r g tr →
    ∃ fuel', exec cfg m' oracle fname args fuel' = .ok r g tr

theorem Preserves.refl (cfg : Config) (m : Module) : Preserves cfg m m :=
  fun _ _ _ fuel _ _ _ h => ⟨fuel, h⟩

theorem Preserves.trans {cfg : Config} {m1 m2 m3 : Module}
    (h12 : Preserves cfg m1 m2) (h23 : Preserves cfg m2 m3) : Preserves cfg m1 m3 := by
  intro o f a n r g t h
  obtain ⟨n2, h2⟩ := h12 o f a n r g t h
  exact h23 o f a n2 r g t h2

/-- `k` steps, all of them `.next` -/
def iter (ctx : Ctx) : Nat → State → Option State
  | 0, s => some s
  | n + 1, s =>
    match step ctx s with
    | .next t => iter ctx n t
    | .done _ => none

theorem run_iter {ctx : Ctx} : ∀ {k : Nat} {s t : State}, iter ctx k s = some t →
    ∀ n, run ctx (k + n) s = run ctx n t
  | 0, s, t, h, n => by
    simp [iter] at h; subst h; simp
  | k + 1, s, t, h, n => by
    have e : k + 1 + n = (k + n) + 1 := by omega
    rw [e]
    simp only [iter] at h
    simp only [run]
    cases hs : step ctx s with
    | next u => rw [hs] at h; simp only at h ⊢; exact run_iter h n
    | done o => rw [hs] at h; simp at h

theorem iter_zero (ctx : Ctx) (s : State) : iter ctx 0 s = some s := rfl

theorem iter_one {ctx : Ctx} {s t : State} (h : step ctx s = .next t) : iter ctx 1 s = some t := by
  simp [iter, h]

theorem iter_succ {ctx : Ctx} {s t u : State} {k : Nat} (h : step ctx s = .next t) (h2 : iter ctx k t = some u) :
    iter ctx (k + 1) s = some u := by
  simp [iter, h, h2]

/-- forward simulation with stuttering ⇒ defined outcomes are reproduced -/
theorem sim_run {ctx ctx' : Ctx} (R : State → State → Prop)
    (hstep : ∀ s s' t, R s s' → step ctx s = .next t → ∃ k t', iter ctx' k s' = some t' ∧ R t t')
    (hdone : ∀ s s' r g tr, R s s' → step ctx s = .done (.ok r g tr) → ∃ k, run ctx' k s' = .ok r g tr) :
    ∀ (n : Nat) (s s' : State) r g tr, R s s' → run ctx n s = .ok r g tr → ∃ n', run ctx' n' s' = .ok r g tr
  | 0, s, s', r, g, tr, _, h => by simp [run] at h
  | n + 1, s, s', r, g, tr, hR, h => by
    simp only [run] at h
    cases hs : step ctx s with
    | next t =>
      rw [hs] at h
      obtain ⟨k, t', hk, hR'⟩ := hstep s s' t hR hs
      obtain ⟨n', hn'⟩ := sim_run R hstep hdone n t t' r g tr hR' h
      exact ⟨k + n', by rw [run_iter hk]; exact hn'⟩
    | done o =>
      rw [hs] at h
      simp only at h
      subst h
      exact hdone s s' r g tr hR hs

end Proofs.Opt
