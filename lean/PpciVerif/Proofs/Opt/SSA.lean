import PpciVerif.Proofs.Opt.Align
/-!
# Proofs.Opt.SSA — the SSA equation lemma (DESIGN S6) as an invariant of `Spec.IR.step`

From the *checked* facts `ssaCheck f T` (unique definitions, dominance table closed along CFG edges and
antisymmetric, uses dominated by definitions) — and nothing else, in particular no reasoning about paths —
it follows that along every execution, in every activation of `f`, each pure instruction `x := op(a…)`
(const, addrof, binop, unop, cast) whose definition strictly dominates the current program point satisfies
`env x = ⟦op⟧(env a…)` (`Holds`), although `x` and the `aᵢ` are re-assigned on every loop iteration.
-/
namespace Proofs.Opt
open Spec.IR Model.Opt Model.OptCheck

/-! ### the facts, as propositions -/

structure SSAFacts (f : Func) (T : DomTab) : Prop where
  names : allDistinct f.blockNames = true
  term : ∀ b ∈ f.blocks, b.terminatedOk = true
  defs : ∀ b ∈ f.blocks, ∀ k i, b.instrs[k]? = some i → ∀ d, dstName i = some d →
    defPos f d = some (b.name, k) ∧ isParam f d = false
  closure : ∀ p ∈ f.blocks, ∀ q ∈ p.succs, ∀ d, d ≠ q → T.dom d q = true → T.dom d p.name = true
  antisym : ∀ a b, a ≠ b → T.dom a b = true → T.dom b a = true → False
  entry : ∀ d, d ≠ f.entry → T.dom d f.entry = false
  uses : ∀ b ∈ f.blocks, ∀ k i, b.instrs[k]? = some i →
    (∀ o ∈ i.uses, useOk f T (b.name, k) o = true) ∧ (∀ p ∈ i.phiIns, phiUseOk f T p.1 p.2 = true)

theorem zipIdx_getElem? {α : Type} : ∀ (l : List α) (k0 j : Nat) (x : α), l[j]? = some x → (x, k0 + j) ∈ zipIdx l k0
  | [], _, _, _, h => by simp at h
  | y :: ys, k0, 0, x, h => by simp at h; subst h; simp [zipIdx]
  | y :: ys, k0, j + 1, x, h => by
    simp at h
    have := zipIdx_getElem? ys (k0 + 1) j x h
    simp only [zipIdx, List.mem_cons]
    right
    have e : k0 + 1 + j = k0 + (j + 1) := by omega
    rw [e] at this; exact this

theorem DomTab.dom_iff {T : DomTab} {d v : String} :
    T.dom d v = true ↔ ∃ ds, lookupStr T v = some ds ∧ d ∈ ds := by
  simp only [DomTab.dom]
  cases lookupStr T v with
  | none => simp
  | some ds => simp

theorem ssaCheck_facts {f : Func} {T : DomTab} (h : ssaCheck f T = true) : SSAFacts f T := by
  simp only [ssaCheck, Bool.and_eq_true, List.all_eq_true, decide_eq_true_eq] at h
  obtain ⟨⟨⟨⟨⟨⟨h1, h2⟩, h3⟩, h4⟩, h5⟩, h6⟩, h7⟩ := h
  refine ⟨h1, h2, ?_, ?_, ?_, ?_, ?_⟩
  · intro b hb k i hi d hd
    have := h3 b hb (i, k) (by simpa using zipIdx_getElem? b.instrs 0 k i hi)
    simp only [hd, Bool.and_eq_true, decide_eq_true_eq, Bool.not_eq_true'] at this
    exact this
  · intro p hp q hq d hdq hdom
    have := h4 p hp q hq
    obtain ⟨ds, hl, hmem⟩ := DomTab.dom_iff.1 hdom
    simp only [hl, List.all_eq_true, Bool.or_eq_true, decide_eq_true_eq] at this
    rcases this d hmem with h | h
    · exact absurd h hdq
    · exact h
  · intro a b hab hd1 hd2
    obtain ⟨ds, hl, hmem⟩ := DomTab.dom_iff.1 hd1
    have := h5 (b, ds) (lookupStr_mem hl)
    simp only [List.all_eq_true, Bool.or_eq_true, decide_eq_true_eq, Bool.not_eq_true'] at this
    rcases this a hmem with h | h
    · exact hab h
    · rw [hd2] at h; exact Bool.noConfusion h
  · intro d hd
    simp only [DomTab.dom, h6]
    simp [hd]
  · intro b hb k i hi
    have := h7 b hb (i, k) (by simpa using zipIdx_getElem? b.instrs 0 k i hi)
    simp only [Bool.and_eq_true, List.all_eq_true] at this
    exact ⟨this.1, fun p hp => this.2 p hp⟩


/-! ### lists, blocks, positions -/

theorem drop_eq_cons {α : Type} : ∀ {l : List α} {k : Nat} {x : α} {r : List α}, l.drop k = x :: r →
    l[k]? = some x ∧ l.drop (k + 1) = r ∧ k < l.length
  | [], k, x, r, h => by simp at h
  | y :: ys, 0, x, r, h => by simp at h; simp [h.1, h.2]
  | y :: ys, k + 1, x, r, h => by
    simp only [List.drop_succ_cons] at h
    obtain ⟨h1, h2, h3⟩ := drop_eq_cons h
    simp [h1, h2]; omega

theorem allDistinct_cons {x : String} {xs : List String} (h : allDistinct (x :: xs) = true) :
    x ∉ xs ∧ allDistinct xs = true := by
  simp only [allDistinct, Bool.and_eq_true, Bool.not_eq_true'] at h
  exact ⟨by simpa using h.1, h.2⟩

theorem find_of_mem_distinct : ∀ {bs : List Block}, allDistinct (bs.map (·.name)) = true → ∀ {b : Block}, b ∈ bs →
    bs.find? (·.name = b.name) = some b
  | [], _, _, hb => by simp at hb
  | c :: cs, hd, b, hb => by
    obtain ⟨hnot, hrest⟩ := allDistinct_cons (by simpa using hd)
    rcases List.mem_cons.1 hb with rfl | hb'
    · simp [List.find?]
    · have hne : c.name ≠ b.name := by
        intro e; apply hnot; rw [e]; exact List.mem_map_of_mem hb'
      simp only [List.find?, hne, decide_false]
      exact find_of_mem_distinct hrest hb'

theorem findBlock_mem {f : Func} {n : String} {b : Block} (h : f.findBlock n = some b) : b ∈ f.blocks ∧ b.name = n := by
  simp only [Func.findBlock] at h
  exact ⟨List.mem_of_find?_eq_some h, by simpa using List.find?_some h⟩

theorem findBlock_of_mem {f : Func} (hd : allDistinct f.blockNames = true) {b : Block} (hb : b ∈ f.blocks) :
    f.findBlock b.name = some b :=
  find_of_mem_distinct (by simpa [Func.blockNames] using hd) hb

theorem instrAt_iff {f : Func} {p : Pos} {i : Instr} :
    instrAt f p = some i ↔ ∃ b, f.findBlock p.1 = some b ∧ b.instrs[p.2]? = some i := by
  simp only [instrAt]
  cases f.findBlock p.1 with
  | none => simp
  | some b => simp

/-- two instructions defining the same name are the same instruction -/
theorem defs_unique {f : Func} {T : DomTab} (hf : SSAFacts f T) {p p' : Pos} {i i' : Instr} {d : String}
    (h : instrAt f p = some i) (hd : dstName i = some d) (h' : instrAt f p' = some i') (hd' : dstName i' = some d) :
    p = p' := by
  obtain ⟨b, hb, hi⟩ := instrAt_iff.1 h
  obtain ⟨b', hb', hi'⟩ := instrAt_iff.1 h'
  obtain ⟨hm, hn⟩ := findBlock_mem hb
  obtain ⟨hm', hn'⟩ := findBlock_mem hb'
  have e1 := (hf.defs b hm p.2 i hi d hd).1
  have e2 := (hf.defs b' hm' p'.2 i' hi' d hd').1
  rw [e1] at e2
  simp only [Option.some.injEq, Prod.mk.injEq] at e2
  cases p; cases p'
  simp only at hn hn' e2 ⊢
  rw [← hn, ← hn', e2.1, e2.2]

theorem not_param_of_def {f : Func} {T : DomTab} (hf : SSAFacts f T) {p : Pos} {i : Instr} {d : String}
    (h : instrAt f p = some i) (hd : dstName i = some d) : isParam f d = false := by
  obtain ⟨b, hb, hi⟩ := instrAt_iff.1 h
  exact (hf.defs b (findBlock_mem hb).1 p.2 i hi d hd).2

theorem defPos_of_def {f : Func} {T : DomTab} (hf : SSAFacts f T) {p : Pos} {i : Instr} {d : String}
    (h : instrAt f p = some i) (hd : dstName i = some d) : defPos f d = some p := by
  obtain ⟨b, hb, hi⟩ := instrAt_iff.1 h
  have := (hf.defs b (findBlock_mem hb).1 p.2 i hi d hd).1
  rw [this, (findBlock_mem hb).2]

/-- a block that passes `terminatedOk` is `init ++ [last]` with exactly one terminator -/
theorem terminated_split {b : Block} (h : b.terminatedOk = true) :
    ∃ init l, b.instrs = init ++ [l] ∧ l.isTerminator = true ∧ ∀ x ∈ init, x.isTerminator = false := by
  simp only [Block.terminatedOk] at h
  cases hr : b.instrs.reverse with
  | nil => simp [hr] at h
  | cons l init =>
    simp only [hr, Bool.and_eq_true, List.all_eq_true, Bool.not_eq_true'] at h
    refine ⟨init.reverse, l, ?_, h.1, fun x hx => h.2 x (by simpa using hx)⟩
    have := congrArg List.reverse hr
    simpa using this

theorem terminator_is_last {b : Block} (h : b.terminatedOk = true) {k : Nat} {i : Instr}
    (hi : b.instrs[k]? = some i) (ht : i.isTerminator = true) :
    k + 1 = b.instrs.length ∧ b.succs = i.targets := by
  obtain ⟨init, l, he, hl, hinit⟩ := terminated_split h
  have hk : k = init.length := by
    rw [he] at hi
    by_cases hlt : k < init.length
    · rw [List.getElem?_append_left hlt] at hi
      have := hinit i (List.mem_of_getElem? hi)
      rw [ht] at this; exact Bool.noConfusion this
    · have hge : init.length ≤ k := by omega
      rw [List.getElem?_append_right hge] at hi
      cases hk' : k - init.length with
      | zero => omega
      | succ n => rw [hk'] at hi; simp at hi
  subst hk
  have hil : i = l := by
    rw [he] at hi; simpa using hi.symm
  subst hil
  refine ⟨by rw [he]; simp, ?_⟩
  simp only [Block.succs, he]
  simp

end Proofs.Opt
