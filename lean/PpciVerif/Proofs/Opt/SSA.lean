import PpciVerif.Proofs.Opt.Align
/-!
# Proofs.Opt.SSA — the SSA equation lemma (DESIGN S6) as an invariant of `Spec.IR.step`

From the *checked* facts `ssaCheck f T` (unique definitions, dominance table closed along CFG edges and
antisymmetric, uses dominated by definitions) — and nothing else, in particular no reasoning about paths —
it follows that along every execution, in every activation of `f`, each pure instruction `x := op(a…)`
(const, addrof, binop, unop, cast) whose definition strictly dominates the current program point satisfies
`env x = ⟦op⟧(env a…)` (`Holds`), although `x` and the `aᵢ` are re-assigned on every loop iteration.
-/
namespace Proofs.Opt
open Spec.IR Model.Opt Model.OptCheck

/-! ### the facts, as propositions -/

structure SSAFacts (f : Func) (T : DomTab) : Prop where
  names : allDistinct f.blockNames = true
  term : ∀ b ∈ f.blocks, b.terminatedOk = true
  defs : ∀ b ∈ f.blocks, ∀ k i, b.instrs[k]? = some i → ∀ d, dstName i = some d →
    defPos f d = some (b.name, k) ∧ isParam f d = false
  closure : ∀ p ∈ f.blocks, ∀ q ∈ p.succs, ∀ d, d ≠ q → T.dom d q = true → T.dom d p.name = true
  antisym : ∀ a b, a ≠ b → T.dom a b = true → T.dom b a = true → False
  entry : ∀ d, d ≠ f.entry → T.dom d f.entry = false
  uses : ∀ b ∈ f.blocks, ∀ k i, b.instrs[k]? = some i →
    (∀ o ∈ i.uses, useOk f T (b.name, k) o = true) ∧ (∀ p ∈ i.phiIns, phiUseOk f T p.1 p.2 = true)

theorem zipIdx_getElem? {α : Type} : ∀ (l : List α) (k0 j : Nat) (x : α), l[j]? = some x → (x, k0 + j) ∈ zipIdx l k0
  | [], _, _, _, h => by simp at h
  | y :: ys, k0, 0, x, h => by simp at h; subst h; simp [zipIdx]
  | y :: ys, k0, j + 1, x, h => by
    simp at h
    have := zipIdx_getElem? ys (k0 + 1) j x h
    simp only [zipIdx, List.mem_cons]
    right
    have e : k0 + 1 + j = k0 + (j + 1) := by omega
    rw [e] at this; exact this

theorem DomTab.dom_iff {T : DomTab} {d v : String} :
    T.dom d v = true ↔ ∃ ds, lookupStr T v = some ds ∧ d ∈ ds := by
  simp only [DomTab.dom]
  cases lookupStr T v with
  | none => simp
  | some ds => simp

theorem ssaCheck_facts {f : Func} {T : DomTab} (h : ssaCheck f T = true) : SSAFacts f T := by
  simp only [ssaCheck, Bool.and_eq_true, List.all_eq_true, decide_eq_true_eq] at h
  obtain ⟨⟨⟨⟨⟨⟨h1, h2⟩, h3⟩, h4⟩, h5⟩, h6⟩, h7⟩ := h
  refine ⟨h1, h2, ?_, ?_, ?_, ?_, ?_⟩
  · intro b hb k i hi d hd
    have := h3 b hb (i, k) (by simpa using zipIdx_getElem? b.instrs 0 k i hi)
    simp only [hd, Bool.and_eq_true, decide_eq_true_eq, Bool.not_eq_true'] at this
    exact this
  · intro p hp q hq d hdq hdom
    have := h4 p hp q hq
    obtain ⟨ds, hl, hmem⟩ := DomTab.dom_iff.1 hdom
    simp only [hl, List.all_eq_true, Bool.or_eq_true, decide_eq_true_eq] at this
    rcases this d hmem with h | h
    · exact absurd h hdq
    · exact h
  · intro a b hab hd1 hd2
    obtain ⟨ds, hl, hmem⟩ := DomTab.dom_iff.1 hd1
    have := h5 (b, ds) (lookupStr_mem hl)
    simp only [List.all_eq_true, Bool.or_eq_true, decide_eq_true_eq, Bool.not_eq_true'] at this
    rcases this a hmem with h | h
    · exact hab h
    · rw [hd2] at h; exact Bool.noConfusion h
  · intro d hd
    simp only [DomTab.dom, h6]
    simp [hd]
  · intro b hb k i hi
    have := h7 b hb (i, k) (by simpa using zipIdx_getElem? b.instrs 0 k i hi)
    simp only [Bool.and_eq_true, List.all_eq_true] at this
    exact ⟨this.1, fun p hp => this.2 p hp⟩


/-! ### lists, blocks, positions -/

theorem drop_eq_cons {α : Type} : ∀ {l : List α} {k : Nat} {x : α} {r : List α}, l.drop k = x :: r →
    l[k]? = some x ∧ l.drop (k + 1) = r ∧ k < l.length
  | [], k, x, r, h => by simp at h
  | y :: ys, 0, x, r, h => by simp at h; simp [h.1, h.2]
  | y :: ys, k + 1, x, r, h => by
    simp only [List.drop_succ_cons] at h
    obtain ⟨h1, h2, h3⟩ := drop_eq_cons h
    simp [h1, h2]; omega

theorem allDistinct_cons {x : String} {xs : List String} (h : allDistinct (x :: xs) = true) :
    x ∉ xs ∧ allDistinct xs = true := by
  simp only [allDistinct, Bool.and_eq_true, Bool.not_eq_true'] at h
  exact ⟨by simpa using h.1, h.2⟩

theorem find_of_mem_distinct : ∀ {bs : List Block}, allDistinct (bs.map (·.name)) = true → ∀ {b : Block}, b ∈ bs →
    bs.find? (·.name = b.name) = some b
  | [], _, _, hb => by simp at hb
  | c :: cs, hd, b, hb => by
    obtain ⟨hnot, hrest⟩ := allDistinct_cons (by simpa using hd)
    rcases List.mem_cons.1 hb with rfl | hb'
    · simp [List.find?]
    · have hne : c.name ≠ b.name := by
        intro e; apply hnot; rw [e]; exact List.mem_map_of_mem hb'
      simp only [List.find?, hne, decide_false]
      exact find_of_mem_distinct hrest hb'

theorem findBlock_mem {f : Func} {n : String} {b : Block} (h : f.findBlock n = some b) : b ∈ f.blocks ∧ b.name = n := by
  simp only [Func.findBlock] at h
  exact ⟨List.mem_of_find?_eq_some h, by simpa using List.find?_some h⟩

theorem findBlock_of_mem {f : Func} (hd : allDistinct f.blockNames = true) {b : Block} (hb : b ∈ f.blocks) :
    f.findBlock b.name = some b :=
  find_of_mem_distinct (by simpa [Func.blockNames] using hd) hb

theorem instrAtPos_iff {f : Func} {p : Pos} {i : Instr} :
    instrAtPos f p = some i ↔ ∃ b, f.findBlock p.1 = some b ∧ b.instrs[p.2]? = some i := by
  simp only [instrAtPos]
  cases f.findBlock p.1 with
  | none => simp
  | some b => simp

/-- two instructions defining the same name are the same instruction -/
theorem defs_unique {f : Func} {T : DomTab} (hf : SSAFacts f T) {p p' : Pos} {i i' : Instr} {d : String}
    (h : instrAtPos f p = some i) (hd : dstName i = some d) (h' : instrAtPos f p' = some i') (hd' : dstName i' = some d) :
    p = p' := by
  obtain ⟨b, hb, hi⟩ := instrAtPos_iff.1 h
  obtain ⟨b', hb', hi'⟩ := instrAtPos_iff.1 h'
  obtain ⟨hm, hn⟩ := findBlock_mem hb
  obtain ⟨hm', hn'⟩ := findBlock_mem hb'
  have e1 := (hf.defs b hm p.2 i hi d hd).1
  have e2 := (hf.defs b' hm' p'.2 i' hi' d hd').1
  rw [e1] at e2
  simp only [Option.some.injEq, Prod.mk.injEq] at e2
  cases p; cases p'
  simp only at hn hn' e2 ⊢
  rw [← hn, ← hn', e2.1, e2.2]

theorem not_param_of_def {f : Func} {T : DomTab} (hf : SSAFacts f T) {p : Pos} {i : Instr} {d : String}
    (h : instrAtPos f p = some i) (hd : dstName i = some d) : isParam f d = false := by
  obtain ⟨b, hb, hi⟩ := instrAtPos_iff.1 h
  exact (hf.defs b (findBlock_mem hb).1 p.2 i hi d hd).2

theorem defPos_of_def {f : Func} {T : DomTab} (hf : SSAFacts f T) {p : Pos} {i : Instr} {d : String}
    (h : instrAtPos f p = some i) (hd : dstName i = some d) : defPos f d = some p := by
  obtain ⟨b, hb, hi⟩ := instrAtPos_iff.1 h
  have := (hf.defs b (findBlock_mem hb).1 p.2 i hi d hd).1
  rw [this, (findBlock_mem hb).2]

/-- a block that passes `terminatedOk` is `init ++ [last]` with exactly one terminator -/
theorem terminated_split {b : Block} (h : b.terminatedOk = true) :
    ∃ init l, b.instrs = init ++ [l] ∧ l.isTerminator = true ∧ ∀ x ∈ init, x.isTerminator = false := by
  simp only [Block.terminatedOk] at h
  cases hr : b.instrs.reverse with
  | nil => simp [hr] at h
  | cons l init =>
    simp only [hr, Bool.and_eq_true, List.all_eq_true, Bool.not_eq_true'] at h
    refine ⟨init.reverse, l, ?_, h.1, fun x hx => h.2 x (by simpa using hx)⟩
    have := congrArg List.reverse hr
    simpa using this

theorem terminator_is_last {b : Block} (h : b.terminatedOk = true) {k : Nat} {i : Instr}
    (hi : b.instrs[k]? = some i) (ht : i.isTerminator = true) :
    k + 1 = b.instrs.length ∧ b.succs = i.targets := by
  obtain ⟨init, l, he, hl, hinit⟩ := terminated_split h
  have hk : k = init.length := by
    rw [he] at hi
    by_cases hlt : k < init.length
    · rw [List.getElem?_append_left hlt] at hi
      have := hinit i (List.mem_of_getElem? hi)
      rw [ht] at this; exact Bool.noConfusion this
    · have hge : init.length ≤ k := by omega
      rw [List.getElem?_append_right hge] at hi
      cases hk' : k - init.length with
      | zero => omega
      | succ n => rw [hk'] at hi; simp at hi
  subst hk
  have hil : i = l := by
    rw [he] at hi; simpa using hi.symm
  subst hil
  refine ⟨by rw [he]; simp, ?_⟩
  simp only [Block.succs, he]
  simp


/-! ### pure instructions and their equations -/

/-- instructions whose result is a function of the current values of their operands only -/
def pureKind : Instr → Bool
  | .const .. | .addrof .. | .binop .. | .unop .. | .cast .. => true
  | _ => false

/-- the equation of instruction `i` holds in `env`: re-executing `i` now would assign its result the value
    that the result already has -/
def Holds (ctx : Ctx) (env : Env) (i : Instr) : Prop :=
  ∃ d v, dstName i = some d ∧ (∀ fname mem, effect ctx fname mem env i = some (.ok (mem, some (d, v)))) ∧
    env.get d = some v

/-- executing a pure instruction: the result does not depend on memory or the function name -/
theorem pure_effect {ctx : Ctx} {fname : String} {mem : Mem} {env : Env} {i : Instr} (hp : pureKind i = true)
    {p : Mem × Option (String × Val)} (h : effect ctx fname mem env i = some (.ok p)) :
    ∃ d v, dstName i = some d ∧ p = (mem, some (d, v)) ∧
      ∀ fname' mem', effect ctx fname' mem' env i = some (.ok (mem', some (d, v))) := by
  cases i <;> simp only [pureKind, Bool.false_eq_true] at hp <;>
    simp only [effect, Option.some.injEq, bind, Except.bind, pure, Except.pure] at h ⊢
  case const d ty c =>
    cases hv : Spec.IR.evalConst ctx.cfg ty c with
    | error e => simp [hv] at h
    | ok v => simp only [hv, Except.ok.injEq] at h; exact ⟨d, v, rfl, h.symm, fun _ _ => rfl⟩
  case addrof d src =>
    cases hv : evalOpnd ctx env src with
    | error e => simp [hv] at h
    | ok v => simp only [hv, Except.ok.injEq] at h; exact ⟨d, v, rfl, h.symm, fun _ _ => rfl⟩
  case binop d ty op a b =>
    cases hx : evalOpnd ctx env a with
    | error e => simp [hx] at h
    | ok x =>
      cases hy : evalOpnd ctx env b with
      | error e => simp [hx, hy] at h
      | ok y =>
        cases hv : evalBinop ctx.cfg ty op x y with
        | error e => simp [hx, hy, hv] at h
        | ok v => simp only [hx, hy, hv, Except.ok.injEq] at h; exact ⟨d, v, rfl, h.symm, fun _ _ => by simp only [hv]⟩
  case unop d ty op a =>
    cases hx : evalOpnd ctx env a with
    | error e => simp [hx] at h
    | ok x =>
      cases hv : evalUnop ctx.cfg ty op x with
      | error e => simp [hx, hv] at h
      | ok v => simp only [hx, hv, Except.ok.injEq] at h; exact ⟨d, v, rfl, h.symm, fun _ _ => by simp only [hv]⟩
  case cast d ty a =>
    cases hx : evalOpnd ctx env a with
    | error e => simp [hx] at h
    | ok x =>
      cases hv : evalCast ctx.cfg ty x with
      | error e => simp [hx, hv] at h
      | ok v => simp only [hx, hv, Except.ok.injEq] at h; exact ⟨d, v, rfl, h.symm, fun _ _ => by simp only [hv]⟩

theorem evalOpnd_set_ne (ctx : Ctx) (env : Env) (z : String) (w : Val) {o : Operand} (h : o ≠ .loc z) :
    evalOpnd ctx (env.set z w) o = evalOpnd ctx env o := by
  cases o with
  | glob g => rfl
  | loc x =>
    have : x ≠ z := fun e => h (by rw [e])
    simp only [evalOpnd, Env.get_set_ne _ _ _ _ this]

/-- assigning a name that is neither the result nor an operand of `i` keeps the equation of `i` -/
theorem Holds.set {ctx : Ctx} {env : Env} {i : Instr} (h : Holds ctx env i) {z : String} (w : Val)
    (hd : dstName i ≠ some z) (hu : Operand.loc z ∉ i.uses) : Holds ctx (env.set z w) i := by
  obtain ⟨d, v, hdn, heff, hget⟩ := h
  refine ⟨d, v, hdn, ?_, ?_⟩
  · intro fname mem
    have := effect_congr (ctx := ctx) (ctx' := ctx) rfl rfl (env := env) (env' := env.set z w) (i := i) id fname mem
      (fun o ho => evalOpnd_set_ne ctx env z w (fun e => hu (e ▸ ho)))
    rw [mapOps_id] at this
    rw [this]; exact heff fname mem
  · have : d ≠ z := fun e => hd (by rw [hdn, e])
    rw [Env.get_set_ne _ _ _ _ this]; exact hget

/-! ### freshness from the static facts -/

theorem sdomPt_irrefl (T : DomTab) (p : Pos) : sdomPt T p p = false := by
  simp [sdomPt]

/-- The instruction at `q` defines `z`; `j` at `p` is an instruction whose position strictly dominates `q`,
    or lies in another block that dominates the block of `q`.  Then `z` is neither the result nor an operand
    of `j`. -/
theorem fresh_of_facts {f : Func} {T : DomTab} (hf : SSAFacts f T) {p q : Pos} {j i : Instr} {z : String}
    (hj : instrAtPos f p = some j) (hi : instrAtPos f q = some i) (hz : dstName i = some z)
    (hdom : sdomPt T p q = true ∨ (p.1 ≠ q.1 ∧ T.dom p.1 q.1 = true)) :
    dstName j ≠ some z ∧ Operand.loc z ∉ j.uses := by
  have hdom' : sdomPt T p q = true ∨ (p.1 ≠ q.1 ∧ T.dom p.1 q.1 = true) := hdom
  constructor
  · intro hdj
    have e := defs_unique hf hj hdj hi hz
    subst e
    rcases hdom with h | h
    · rw [sdomPt_irrefl] at h; exact Bool.noConfusion h
    · exact h.1 rfl
  · intro hu
    obtain ⟨b, hb, hjb⟩ := instrAtPos_iff.1 hj
    obtain ⟨hbm, hbn⟩ := findBlock_mem hb
    have huse := (hf.uses b hbm p.2 j hjb).1 _ hu
    simp only [useOk, not_param_of_def hf hi hz, Bool.false_or, defPos_of_def hf hi hz] at huse
    -- huse : sdomPt T q (b.name, p.2)
    rw [hbn] at huse
    rcases hdom with h | h
    · -- sdomPt p q and sdomPt q p
      simp only [sdomPt] at h huse
      by_cases e : p.1 = q.1
      · simp only [e, ↓reduceIte, decide_eq_true_eq] at h huse; omega
      · have e' : ¬ q.1 = p.1 := fun x => e x.symm
        simp only [e, e', ↓reduceIte] at h huse
        exact hf.antisym _ _ e h huse
    · simp only [sdomPt] at huse
      have e' : ¬ q.1 = p.1 := fun x => h.1 x.symm
      simp only [e', ↓reduceIte] at huse
      exact hf.antisym _ _ h.1 h.2 huse


/-! ### the invariant -/

theorem instrAtPos_det {f : Func} {p : Pos} {i j : Instr} (hi : instrAtPos f p = some i) (hj : instrAtPos f p = some j) :
    i = j := by rw [hi] at hj; exact Option.some.inj hj

theorem sdomPt_succ {T : DomTab} {p : Pos} {c : String} {k : Nat} (h : sdomPt T p (c, k + 1) = true)
    (hne : p ≠ (c, k)) : sdomPt T p (c, k) = true := by
  simp only [sdomPt] at h ⊢
  by_cases e : p.1 = c
  · simp only [e, ↓reduceIte, decide_eq_true_eq] at h ⊢
    have : p.2 ≠ k := fun e2 => hne (by cases p; simp_all)
    omega
  · simp only [e, ↓reduceIte] at h ⊢; exact h

theorem pure_not_terminator {j : Instr} (h : pureKind j = true) : j.isTerminator = false := by
  cases j <;> simp_all [pureKind, Instr.isTerminator]

/-- the equations that must hold after the instruction `i` at `(cur, k)` has been executed -/
theorem inv_advance {ctx : Ctx} {f : Func} {T : DomTab} (hf : SSAFacts f T) {cur : String} {k : Nat} {i : Instr}
    (hi : instrAtPos f (cur, k) = some i) {env env' : Env}
    (hinv : ∀ p j, instrAtPos f p = some j → pureKind j = true → sdomPt T p (cur, k) = true → Holds ctx env j)
    (hupd : env' = env ∨ ∃ z w, dstName i = some z ∧ env' = env.set z w)
    (hself : pureKind i = true → Holds ctx env' i) :
    ∀ p j, instrAtPos f p = some j → pureKind j = true → sdomPt T p (cur, k + 1) = true → Holds ctx env' j := by
  intro p j hj hpj hdom
  by_cases hp : p = (cur, k)
  · subst hp
    have := instrAtPos_det hi hj; subst this
    exact hself hpj
  · have hdom' := sdomPt_succ hdom hp
    have hh := hinv p j hj hpj hdom'
    rcases hupd with rfl | ⟨z, w, hz, rfl⟩
    · exact hh
    · obtain ⟨h1, h2⟩ := fresh_of_facts hf hj hi hz (.inl hdom')
      exact hh.set w h1 h2

/-- the name assigned by a non-pure instruction is fresh for all equations of the next program point -/
theorem fresh_advance {f : Func} {T : DomTab} (hf : SSAFacts f T) {cur : String} {k : Nat} {i : Instr}
    (hi : instrAtPos f (cur, k) = some i) {d : String} (hz : dstName i = some d) (hnp : pureKind i = false) :
    ∀ p j, instrAtPos f p = some j → pureKind j = true → sdomPt T p (cur, k + 1) = true →
      dstName j ≠ some d ∧ Operand.loc d ∉ j.uses := by
  intro p j hj hpj hdom
  have hp : p ≠ (cur, k) := by
    intro e; subst e
    have := instrAtPos_det hi hj; subst this
    rw [hnp] at hpj; exact Bool.noConfusion hpj
  exact fresh_of_facts hf hj hi hz (.inl (sdomPt_succ hdom hp))

theorem phiValues_names {ctx : Ctx} {env : Env} {pred : String} : ∀ {l : List Instr} {vals : List (String × Val)},
    phiValues ctx env pred l = .ok vals → ∀ zv ∈ vals, ∃ (k : Nat) (ty : Ty) (ins : List (String × Operand)), l[k]? = some (Instr.phi zv.1 ty ins)
  | [], vals, h, zv, hzv => by simp [phiValues] at h; subst h; simp at hzv
  | i :: r, vals, h, zv, hzv => by
    cases hp : i.isPhi with
    | false =>
      rw [phiValues_nonphi _ _ _ _ hp] at h
      obtain ⟨k, ty, ins, hk⟩ := phiValues_names h zv hzv
      exact ⟨k + 1, ty, ins, by simpa using hk⟩
    | true =>
      obtain ⟨d, ty, ins, rfl⟩ := removable_not_phi_or hp
      simp only [phiValues] at h
      cases hl : lookupStr ins pred with
      | none => simp [hl] at h
      | some o =>
        simp only [hl] at h
        cases hv : evalOpnd ctx env o with
        | error e => simp [hv, bind, Except.bind] at h
        | ok v =>
          simp only [hv, bind, Except.bind] at h
          cases hr : phiValues ctx env pred r with
          | error e => simp [hr] at h
          | ok vs =>
            simp only [hr, pure, Except.pure, Except.ok.injEq] at h
            subst h
            rcases List.mem_cons.1 hzv with rfl | hmem
            · exact ⟨0, ty, ins, by simp⟩
            · obtain ⟨k, ty', ins', hk⟩ := phiValues_names hr zv hmem
              exact ⟨k + 1, ty', ins', by simpa using hk⟩

theorem Holds.setMany {ctx : Ctx} {j : Instr} : ∀ {vals : List (String × Val)} {env : Env}, Holds ctx env j →
    (∀ zv ∈ vals, dstName j ≠ some zv.1 ∧ Operand.loc zv.1 ∉ j.uses) → Holds ctx (env.setMany vals) j
  | [], _, h, _ => h
  | (z, w) :: vs, env, h, hfresh => by
    rw [setMany_cons]
    have := hfresh (z, w) (by simp)
    exact Holds.setMany (h.set w this.1 this.2) (fun zv hzv => hfresh zv (by simp [hzv]))

/-- the equations that must hold at the start of block `Q`, entered from the terminator `i` at `(cur, k)` -/
theorem inv_enter {ctx : Ctx} {f : Func} {T : DomTab} (hf : SSAFacts f T) {cur : String} {k : Nat} {i : Instr}
    {b bQ : Block} (hb : f.findBlock cur = some b) (hi : b.instrs[k]? = some i) (hterm : i.isTerminator = true)
    {Q : String} (hQ : Q ∈ i.targets) (hbQ : f.findBlock Q = some bQ) {env : Env}
    (hinv : ∀ p j, instrAtPos f p = some j → pureKind j = true → sdomPt T p (cur, k) = true → Holds ctx env j)
    {vals : List (String × Val)} (hvals : phiValues ctx env cur bQ.instrs = .ok vals) :
    ∀ p j, instrAtPos f p = some j → pureKind j = true → sdomPt T p (Q, 0) = true → Holds ctx (env.setMany vals) j := by
  intro p j hj hpj hdom
  obtain ⟨hbm, hbn⟩ := findBlock_mem hb
  obtain ⟨hlast, hsuccs⟩ := terminator_is_last (hf.term b hbm) hi hterm
  -- p lies in another block that dominates Q
  have hpQ : p.1 ≠ Q ∧ T.dom p.1 Q = true := by
    simp only [sdomPt] at hdom
    by_cases e : p.1 = Q
    · simp [e] at hdom
    · simp only [e, ↓reduceIte] at hdom; exact ⟨e, hdom⟩
  have hdomcur : T.dom p.1 cur = true := by
    have := hf.closure b hbm Q (by rw [hsuccs]; exact hQ) p.1 hpQ.1 hpQ.2
    rw [hbn] at this; exact this
  have hdomk : sdomPt T p (cur, k) = true := by
    simp only [sdomPt]
    by_cases e : p.1 = cur
    · simp only [e, ↓reduceIte, decide_eq_true_eq]
      obtain ⟨b2, hb2, hj2⟩ := instrAtPos_iff.1 hj
      rw [e, hb] at hb2
      have := Option.some.inj hb2; subst this
      obtain ⟨hlt, _⟩ := List.getElem?_eq_some_iff.1 hj2
      have hne : p.2 ≠ k := by
        intro e2; rw [e2, hi] at hj2
        have := Option.some.inj hj2; subst this
        rw [pure_not_terminator hpj] at hterm; exact Bool.noConfusion hterm
      omega
    · simp only [e, ↓reduceIte]; exact hdomcur
  refine (hinv p j hj hpj hdomk).setMany ?_
  intro zv hzv
  obtain ⟨kz, ty, ins, hkz⟩ := phiValues_names hvals zv hzv
  have hiz : instrAtPos f (Q, kz) = some (Instr.phi zv.1 ty ins) := instrAtPos_iff.2 ⟨bQ, hbQ, hkz⟩
  exact fresh_of_facts hf hj hiz rfl (.inr hpQ)


/-- invariant of one activation; `rt` = the name that the callee above will assign on return (if any) -/
def FrameInv (ctx : Ctx) (T : DomTab) (fr : Frame) (rt : Option String) : Prop :=
  ∃ b k, fr.fn.findBlock fr.cur = some b ∧ fr.rest = b.instrs.drop k ∧
    (∀ p j, instrAtPos fr.fn p = some j → pureKind j = true → sdomPt T p (fr.cur, k) = true → Holds ctx fr.env j) ∧
    (∀ d, rt = some d → ∀ p j, instrAtPos fr.fn p = some j → pureKind j = true → sdomPt T p (fr.cur, k) = true →
        dstName j ≠ some d ∧ Operand.loc d ∉ j.uses)

def FrameOK (ctx : Ctx) (fr : Frame) (rt : Option String) : Prop :=
  SSAFacts fr.fn (computeDoms fr.fn) ∧ FrameInv ctx (computeDoms fr.fn) fr rt

def ChainOK (ctx : Ctx) : Option String → List Frame → Prop
  | _, [] => True
  | rt, c :: cs => FrameOK ctx c rt ∧ ChainOK ctx c.retTo cs

def StateOK (ctx : Ctx) (s : State) : Prop := FrameOK ctx s.top none ∧ ChainOK ctx s.top.retTo s.callers

def ModFacts (m : Module) : Prop := ∀ f ∈ m.funcs, SSAFacts f (computeDoms f)

theorem self_not_used {f : Func} {T : DomTab} (hf : SSAFacts f T) {q : Pos} {i : Instr} {d : String}
    (hi : instrAtPos f q = some i) (hd : dstName i = some d) : Operand.loc d ∉ i.uses := by
  intro hu
  obtain ⟨b, hb, hib⟩ := instrAtPos_iff.1 hi
  obtain ⟨hbm, hbn⟩ := findBlock_mem hb
  have huse := (hf.uses b hbm q.2 i hib).1 _ hu
  simp only [useOk, not_param_of_def hf hi hd, Bool.false_or, defPos_of_def hf hi hd] at huse
  rw [hbn] at huse
  have : sdomPt T q (q.1, q.2) = false := sdomPt_irrefl T q
  rw [this] at huse; exact Bool.noConfusion huse

/-- what an effect instruction assigns is its own result -/
theorem effect_dst {ctx : Ctx} {fname : String} {mem : Mem} {env : Env} {i : Instr}
    {p : Mem × Option (String × Val)} (h : effect ctx fname mem env i = some (.ok p)) :
    p.2 = none ∨ ∃ z w, dstName i = some z ∧ p.2 = some (z, w) := by
  cases i <;> simp only [effect, Option.some.injEq, bind, Except.bind, pure, Except.pure, reduceCtorEq] at h
  case const d ty c =>
    cases hv : Spec.IR.evalConst ctx.cfg ty c with
    | error e => simp [hv] at h
    | ok v => simp only [hv, Except.ok.injEq] at h; subst h; exact .inr ⟨d, v, rfl, rfl⟩
  case undefined d ty => simp only [Except.ok.injEq] at h; subst h; exact .inr ⟨d, _, rfl, rfl⟩
  case literal d data =>
    split at h
    · simp only [Except.ok.injEq] at h; subst h; exact .inr ⟨d, _, rfl, rfl⟩
    · simp at h
  case alloc d sz al => simp only [Except.ok.injEq] at h; subst h; exact .inr ⟨d, _, rfl, rfl⟩
  case addrof d src =>
    cases hv : evalOpnd ctx env src with
    | error e => simp [hv] at h
    | ok v => simp only [hv, Except.ok.injEq] at h; subst h; exact .inr ⟨d, v, rfl, rfl⟩
  case binop d ty op a b =>
    cases hx : evalOpnd ctx env a with
    | error e => simp [hx] at h
    | ok x =>
      cases hy : evalOpnd ctx env b with
      | error e => simp [hx, hy] at h
      | ok y =>
        cases hv : evalBinop ctx.cfg ty op x y with
        | error e => simp [hx, hy, hv] at h
        | ok v => simp only [hx, hy, hv, Except.ok.injEq] at h; subst h; exact .inr ⟨d, v, rfl, rfl⟩
  case unop d ty op a =>
    cases hx : evalOpnd ctx env a with
    | error e => simp [hx] at h
    | ok x =>
      cases hv : evalUnop ctx.cfg ty op x with
      | error e => simp [hx, hv] at h
      | ok v => simp only [hx, hv, Except.ok.injEq] at h; subst h; exact .inr ⟨d, v, rfl, rfl⟩
  case cast d ty a =>
    cases hx : evalOpnd ctx env a with
    | error e => simp [hx] at h
    | ok x =>
      cases hv : evalCast ctx.cfg ty x with
      | error e => simp [hx, hv] at h
      | ok v => simp only [hx, hv, Except.ok.injEq] at h; subst h; exact .inr ⟨d, v, rfl, rfl⟩
  case load d ty addr vol =>
    cases ha : evalAddr ctx env addr "load" with
    | error e => simp [ha] at h
    | ok a =>
      simp only [ha] at h
      split at h
      · simp only [Except.ok.injEq] at h; subst h; exact .inr ⟨d, _, rfl, rfl⟩
      · simp at h
  case store ty v addr vol =>
    cases ha : evalAddr ctx env addr "store" with
    | error e => simp [ha] at h
    | ok a =>
      cases hx : evalOpnd ctx env v with
      | error e => simp [ha, hx] at h
      | ok x =>
        cases hb : encodeVal ctx.cfg ty x with
        | error e => simp [ha, hx, hb] at h
        | ok bs =>
          simp only [ha, hx, hb] at h
          split at h
          · simp only [Except.ok.injEq] at h; subst h; exact .inl rfl
          · simp at h
  case copyblob d src n =>
    cases hd : evalAddr ctx env d "memcpy" with
    | error e => simp [hd] at h
    | ok da =>
      cases hs : evalAddr ctx env src "memcpy" with
      | error e => simp [hd, hs] at h
      | ok sa =>
        cases hc : copyBytes ctx.cfg mem da sa n with
        | error e => simp [hd, hs, hc] at h
        | ok m' => simp only [hd, hs, hc, Except.ok.injEq] at h; subst h; exact .inl rfl
  case phi d ty ins => simp only [Except.ok.injEq] at h; subst h; exact .inl rfl

theorem enterBlock_shape {ctx : Ctx} {fr nf : Frame} {t : String} (h : enterBlock ctx fr t = .ok nf) :
    ∃ bQ vals, fr.fn.findBlock t = some bQ ∧ phiValues ctx fr.env fr.cur bQ.instrs = .ok vals ∧
      nf = { fr with cur := t, rest := bQ.instrs, env := fr.env.setMany vals } := by
  simp only [enterBlock] at h
  cases hb : fr.fn.findBlock t with
  | none => simp [hb] at h
  | some bQ =>
    simp only [hb] at h
    cases hv : phiValues ctx fr.env fr.cur bQ.instrs with
    | error e => simp [hv, bind, Except.bind] at h
    | ok vals =>
      simp only [hv, bind, Except.bind, pure, Except.pure, Except.ok.injEq] at h
      exact ⟨bQ, vals, rfl, hv, h.symm⟩

theorem newFrame_shape {cfg : Config} {f : Func} {vs : List Val} {sp : Nat} {rt : Option String} {nf : Frame}
    (h : newFrame cfg f vs sp rt = .ok nf) :
    ∃ bE env, f.findBlock f.entry = some bE ∧ nf = { fn := f, cur := f.entry, rest := bE.instrs, env := env, spSave := sp, retTo := rt } := by
  simp only [newFrame] at h
  cases hp : bindParams cfg f.params vs with
  | none => simp [hp] at h
  | some env =>
    cases hb : f.findBlock f.entry with
    | none => simp [hp, hb] at h
    | some bE =>
      simp only [hp, hb, Except.ok.injEq] at h
      exact ⟨bE, env, rfl, h.symm⟩

/-- a fresh activation satisfies the invariant: nothing strictly dominates the entry point -/
theorem frameOK_new {ctx : Ctx} {f : Func} (hf : SSAFacts f (computeDoms f)) {bE : Block} (hb : f.findBlock f.entry = some bE)
    (env : Env) (sp : Nat) (rt : Option String) :
    FrameOK ctx { fn := f, cur := f.entry, rest := bE.instrs, env := env, spSave := sp, retTo := rt } none := by
  refine ⟨hf, bE, 0, hb, by simp, ?_, ?_⟩
  · intro p j _ _ hdom
    simp only [sdomPt] at hdom
    by_cases e : p.1 = f.entry
    · simp [e] at hdom
    · simp only [e, ↓reduceIte] at hdom
      rw [hf.entry p.1 e] at hdom; exact Bool.noConfusion hdom
  · intro d hd; cases hd

theorem FrameOK.weaken {ctx : Ctx} {fr : Frame} {rt : Option String} (h : FrameOK ctx fr rt) : FrameOK ctx fr none := by
  obtain ⟨hf, b, k, hb, hr, hinv, _⟩ := h
  exact ⟨hf, b, k, hb, hr, hinv, fun d hd => by cases hd⟩


theorem findFunc_mem {m : Module} {n : String} {f : Func} (h : m.findFunc n = some f) : f ∈ m.funcs :=
  List.mem_of_find?_eq_some h

/-- the invariant after an instruction that stays in the block (`env'` as described by `hupd`) -/
theorem frameOK_advance {ctx : Ctx} {fr : Frame} {b : Block} {k : Nat} {i : Instr} {rest' : List Instr}
    (hf : SSAFacts fr.fn (computeDoms fr.fn)) (hb : fr.fn.findBlock fr.cur = some b)
    (hik : b.instrs[k]? = some i) (hrest' : b.instrs.drop (k + 1) = rest')
    (hinv : ∀ p j, instrAtPos fr.fn p = some j → pureKind j = true →
      sdomPt (computeDoms fr.fn) p (fr.cur, k) = true → Holds ctx fr.env j)
    {env' : Env} (hupd : env' = fr.env ∨ ∃ z w, dstName i = some z ∧ env' = fr.env.set z w)
    (hself : pureKind i = true → Holds ctx env' i) (rt : Option String)
    (hrt : ∀ d, rt = some d → dstName i = some d ∧ pureKind i = false) :
    FrameOK ctx { fr with rest := rest', env := env' } rt := by
  have hi : instrAtPos fr.fn (fr.cur, k) = some i := instrAtPos_iff.2 ⟨b, hb, hik⟩
  refine ⟨hf, b, k + 1, hb, hrest'.symm, inv_advance hf hi hinv hupd hself, ?_⟩
  intro d hd
  obtain ⟨h1, h2⟩ := hrt d hd
  exact fresh_advance hf hi h1 h2

/-- **S6**: the equations of all pure instructions that strictly dominate the current point are an invariant
    of execution (for all activations on the stack) -/
theorem inv_step {ctx : Ctx} (hm : ModFacts ctx.mod) {s t : State} (hs : StateOK ctx s) (h : step ctx s = .next t) :
    StateOK ctx t := by
  have hE := stepE_ok_of_step_next h
  obtain ⟨⟨hf, b, k, hb, hrest, hinv, _⟩, hchain⟩ := hs
  cases hr : s.top.rest with
  | nil => rw [stepE_nil hr] at hE; simp at hE
  | cons i rest' =>
    rw [hr] at hrest
    obtain ⟨hik, hdrop, hklt⟩ := drop_eq_cons hrest.symm
    have hi : instrAtPos s.top.fn (s.top.cur, k) = some i := instrAtPos_iff.2 ⟨b, hb, hik⟩
    cases he : effect ctx s.top.fn.name s.mem s.top.env i with
    | some eff =>
      rw [stepE_effect hr he] at hE
      cases eff with
      | error e => simp [Except.map] at hE
      | ok p =>
        simp only [Except.map, Except.ok.injEq, StepR.next.injEq] at hE
        subst hE
        refine ⟨?_, hchain⟩
        have hupd : (match p.2 with | some (d, v) => s.top.env.set d v | none => s.top.env) = s.top.env ∨
            ∃ z w, dstName i = some z ∧ (match p.2 with | some (d, v) => s.top.env.set d v | none => s.top.env) = s.top.env.set z w := by
          rcases effect_dst he with h0 | ⟨z, w, hz, h1⟩
          · left; rw [h0]
          · right; exact ⟨z, w, hz, by rw [h1]⟩
        refine frameOK_advance (fr := s.top) hf hb hik hdrop hinv hupd ?_ none (fun d hd => by cases hd)
        intro hp
        obtain ⟨d, v, hd, hpeq, hall⟩ := pure_effect hp he
        subst hpeq
        refine ⟨d, v, hd, ?_, by simp only [Env.get_set_eq]⟩
        intro fname mem
        have hnot := self_not_used hf hi hd
        have := effect_congr (ctx := ctx) (ctx' := ctx) rfl rfl (env := s.top.env) (env' := s.top.env.set d v) (i := i) id fname mem
          (fun o ho => evalOpnd_set_ne ctx s.top.env d v (fun e => hnot (e ▸ ho)))
        rw [mapOps_id] at this
        rw [this]; exact hall fname mem
    | none =>
      cases i <;> simp only [effect, reduceCtorEq] at he
      case jump tgt =>
        rw [stepE_jump hr] at hE
        cases hb2 : enterBlock ctx { s.top with rest := rest' } tgt with
        | error e => simp [hb2, bind, Except.bind] at hE
        | ok nf =>
          simp only [hb2, bind, Except.bind, pure, Except.pure, Except.ok.injEq, StepR.next.injEq] at hE
          subst hE
          obtain ⟨bQ, vals, hbQ, hvals, rfl⟩ := enterBlock_shape hb2
          refine ⟨⟨hf, bQ, 0, hbQ, by simp, ?_, fun d hd => by cases hd⟩, hchain⟩
          exact inv_enter hf hb hik rfl (by simp [Instr.targets]) hbQ hinv hvals
      case cjump a c b2 yes no =>
        rw [stepE_cjump hr] at hE
        cases hx : evalOpnd ctx s.top.env a with
        | error e => simp [hx, bind, Except.bind] at hE
        | ok x =>
          cases hy : evalOpnd ctx s.top.env b2 with
          | error e => simp [hx, hy, bind, Except.bind] at hE
          | ok y =>
            cases ht : evalCond c x y with
            | error e => simp [hx, hy, ht, bind, Except.bind] at hE
            | ok tv =>
              simp only [hx, hy, ht, bind, Except.bind] at hE
              cases hb2 : enterBlock ctx { s.top with rest := rest' } (if tv then yes else no) with
              | error e => simp [hb2] at hE
              | ok nf =>
                simp only [hb2, pure, Except.pure, Except.ok.injEq, StepR.next.injEq] at hE
                subst hE
                obtain ⟨bQ, vals, hbQ, hvals, rfl⟩ := enterBlock_shape hb2
                refine ⟨⟨hf, bQ, 0, hbQ, by simp, ?_, fun d hd => by cases hd⟩, hchain⟩
                exact inv_enter hf hb hik rfl (by cases tv <;> simp [Instr.targets]) hbQ hinv hvals
      case ret v =>
        rw [stepE_ret hr] at hE
        cases hret : s.top.fn.ret with
        | none => simp [hret] at hE
        | some rty =>
          simp only [hret] at hE
          cases hx : evalOpnd ctx s.top.env v with
          | error e => simp [hx, bind, Except.bind] at hE
          | ok x =>
            simp only [hx, bind, Except.bind, doReturn] at hE
            cases hcs : s.callers with
            | nil => simp only [hcs] at hE; split at hE <;> simp at hE
            | cons c cs =>
              rw [hcs] at hchain
              obtain ⟨hc, hcc⟩ := hchain
              simp only [hcs] at hE
              cases hrt : s.top.retTo with
              | none =>
                simp only [hrt, Except.ok.injEq, StepR.next.injEq] at hE; subst hE
                exact ⟨hc.weaken, hcc⟩
              | some d =>
                simp only [hrt, Except.ok.injEq, StepR.next.injEq] at hE; subst hE
                rw [hrt] at hc
                obtain ⟨hcf, cb, ck, hcb, hcr, hcinv, hcfresh⟩ := hc
                refine ⟨⟨hcf, cb, ck, hcb, hcr, ?_, fun d hd => by cases hd⟩, hcc⟩
                intro p j hj hpj hdom
                obtain ⟨h1, h2⟩ := hcfresh d rfl p j hj hpj hdom
                exact (hcinv p j hj hpj hdom).set x h1 h2
      case exit =>
        rw [stepE_exit hr] at hE
        cases hret : s.top.fn.ret with
        | some rty => simp [hret] at hE
        | none =>
          simp only [hret, doReturn] at hE
          cases hcs : s.callers with
          | nil => simp [hcs] at hE
          | cons c cs =>
            rw [hcs] at hchain
            obtain ⟨hc, hcc⟩ := hchain
            simp only [hcs] at hE
            cases hrt : s.top.retTo with
            | none =>
              simp only [hrt, Except.ok.injEq, StepR.next.injEq] at hE; subst hE
              exact ⟨hc.weaken, hcc⟩
            | some d => simp [hrt] at hE
      case fcall d ty callee args =>
        rw [stepE_fcall hr, doCall_eq] at hE
        cases hn : calleeName ctx s.top.env callee with
        | error e => simp [hn, bind, Except.bind] at hE
        | ok name =>
          cases hvs : evalOpnds ctx s.top.env args with
          | error e => simp [hn, hvs, bind, Except.bind] at hE
          | ok vs =>
            simp only [hn, hvs, bind, Except.bind, callNamed] at hE
            have hadv : ∀ rt, (∀ d', rt = some d' → d' = d) → FrameOK ctx { s.top with rest := rest' } rt := by
              intro rt hrt
              have := frameOK_advance (ctx := ctx) (fr := s.top) (env' := s.top.env) hf hb hik hdrop hinv (.inl rfl)
                (fun hp => by simp [pureKind] at hp) rt
                (fun d' hd' => by rw [hrt d' hd']; exact ⟨rfl, rfl⟩)
              simpa using this
            cases hff : ctx.mod.findFunc name with
            | some g =>
              simp only [hff] at hE
              have hg := hm g (findFunc_mem hff)
              split at hE
              · simp [throw, throwThe, MonadExceptOf.throw] at hE
              · cases hnf : newFrame ctx.cfg g vs s.mem.stack.size (some d) with
                | error e => simp [hnf] at hE
                | ok nf =>
                  simp only [Option.map, hnf, pure, Except.pure, Except.ok.injEq, StepR.next.injEq] at hE
                  subst hE
                  obtain ⟨bE, env, hbE, rfl⟩ := newFrame_shape hnf
                  exact ⟨frameOK_new hg hbE env _ _, hadv (some d) (fun d' hd' => (Option.some.inj hd').symm), hchain⟩
            | none =>
              simp only [hff] at hE
              cases hfe : ctx.mod.findExtern name with
              | none => simp [hfe, throw, throwThe, MonadExceptOf.throw] at hE
              | some e =>
                simp only [hfe] at hE
                split at hE
                · simp [throw, throwThe, MonadExceptOf.throw] at hE
                · split at hE
                  · rename_i as rty d2 ty2 hk heq
                    simp only [pure, Except.pure, Except.ok.injEq, StepR.next.injEq] at hE
                    subst hE
                    simp only [Option.some.injEq, Prod.mk.injEq] at heq
                    obtain ⟨rfl, rfl⟩ := heq
                    refine ⟨?_, hchain⟩
                    exact frameOK_advance (ctx := ctx) (fr := s.top) hf hb hik hdrop hinv (.inr ⟨d, _, rfl, rfl⟩)
                      (fun hp => by simp [pureKind] at hp) none (fun d' hd' => by cases hd')
                  · rename_i heq; simp at heq
                  · rename_i heq; simp at heq
                  · simp [throw, throwThe, MonadExceptOf.throw] at hE
                  · simp [throw, throwThe, MonadExceptOf.throw] at hE
      case pcall callee args =>
        rw [stepE_pcall hr, doCall_eq] at hE
        cases hn : calleeName ctx s.top.env callee with
        | error e => simp [hn, bind, Except.bind] at hE
        | ok name =>
          cases hvs : evalOpnds ctx s.top.env args with
          | error e => simp [hn, hvs, bind, Except.bind] at hE
          | ok vs =>
            simp only [hn, hvs, bind, Except.bind, callNamed] at hE
            have hadv : FrameOK ctx { s.top with rest := rest' } none := by
              have := frameOK_advance (ctx := ctx) (fr := s.top) (env' := s.top.env) hf hb hik hdrop hinv (.inl rfl)
                (fun hp => by simp [pureKind] at hp) none (fun d' hd' => by cases hd')
              simpa using this
            cases hff : ctx.mod.findFunc name with
            | some g =>
              simp only [hff] at hE
              have hg := hm g (findFunc_mem hff)
              split at hE
              · rename_i heq; simp at heq
              · cases hnf : newFrame ctx.cfg g vs s.mem.stack.size none with
                | error e => simp [hnf] at hE
                | ok nf =>
                  simp only [Option.map, hnf, pure, Except.pure, Except.ok.injEq, StepR.next.injEq] at hE
                  subst hE
                  obtain ⟨bE, env, hbE, rfl⟩ := newFrame_shape hnf
                  exact ⟨frameOK_new hg hbE env _ _, hadv, hchain⟩
            | none =>
              simp only [hff] at hE
              cases hfe : ctx.mod.findExtern name with
              | none => simp [hfe, throw, throwThe, MonadExceptOf.throw] at hE
              | some e =>
                simp only [hfe] at hE
                split at hE
                · simp [throw, throwThe, MonadExceptOf.throw] at hE
                · split at hE
                  · rename_i heq; simp at heq
                  · simp only [pure, Except.pure, Except.ok.injEq, StepR.next.injEq] at hE
                    subst hE
                    exact ⟨hadv, hchain⟩
                  · simp only [pure, Except.pure, Except.ok.injEq, StepR.next.injEq] at hE
                    subst hE
                    exact ⟨hadv, hchain⟩
                  · simp [throw, throwThe, MonadExceptOf.throw] at hE
                  · simp [throw, throwThe, MonadExceptOf.throw] at hE


theorem initState_ok {ctx : Ctx} (hm : ModFacts ctx.mod) {fname : String} {args : List Val} {s : State}
    (h : initState ctx fname args = .ok s) : StateOK ctx s := by
  simp only [initState] at h
  cases hf : ctx.mod.findFunc fname with
  | none => simp [hf] at h
  | some f =>
    simp only [hf] at h
    cases hnf : newFrame ctx.cfg f args 0 none with
    | error e => simp [hnf, bind, Except.bind] at h
    | ok nf =>
      simp only [hnf, bind, Except.bind, pure, Except.pure, Except.ok.injEq] at h
      subst h
      obtain ⟨bE, env, hbE, rfl⟩ := newFrame_shape hnf
      exact ⟨frameOK_new (hm f (findFunc_mem hf)) hbE env _ _, trivial⟩

/-- `defPos` finds an instruction that defines the name -/
theorem defPos_spec {f : Func} {T : DomTab} (hf : SSAFacts f T) {x : String} {p : Pos} (h : defPos f x = some p) :
    ∃ i, instrAtPos f p = some i ∧ dstName i = some x := by
  simp only [defPos] at h
  obtain ⟨b, hbm, hb⟩ := List.exists_of_findSome?_eq_some h
  simp only [Option.map_eq_some_iff] at hb
  obtain ⟨k, hk, rfl⟩ := hb
  obtain ⟨hlt, hpred⟩ := List.findIdx?_eq_some_iff_getElem.1 hk
  refine ⟨b.instrs[k], instrAtPos_iff.2 ⟨b, findBlock_of_mem hf.names hbm, by simp [List.getElem?_eq_getElem hlt]⟩, ?_⟩
  simpa using hpred.1



end Proofs.Opt
