import PpciVerif.Proofs.Opt.Typing
/-!
# Proofs.Opt.LAS — load after store: the loaded value is the stored value

`x := load (int t) p` preceded in the same block by `store (int t) v p` with no instruction in between that may
write memory (`lasSrc`): along every execution, whenever the load strictly dominates the program point of an
activation, `env x = env v` (`LasAt`).  Memory side: a window invariant for the running activation (between
the store and the load the bytes at `p` are the encoding of `v`); value side: as for the SSA equations.
-/
namespace Proofs.Opt
open Spec.IR Model.Opt Model.OptCheck

/-! ### memory -/

theorem Mem.read_write_same {cfg : Config} {m m' : Mem} {a : Nat} {b : Option Nat} (h : m.write cfg a b = some m') :
    m'.read cfg a = some b := by
  simp only [Mem.write] at h
  simp only [Mem.read]
  split at h
  · rename_i hs
    split at h
    · rename_i hlt
      simp only [Option.some.injEq] at h; subst h
      simp [hs, hlt]
    · simp at h
  · rename_i hs
    split at h
    · rename_i hg
      split at h
      · rename_i hlt
        simp only [Option.some.injEq] at h; subst h
        simp [hs, hg, hlt]
      · simp at h
    · simp at h

theorem Mem.read_write_ne {cfg : Config} {m m' : Mem} {a a' : Nat} {b : Option Nat} (h : m.write cfg a b = some m')
    (hne : a' ≠ a) : m'.read cfg a' = m.read cfg a' := by
  simp only [Mem.write] at h
  simp only [Mem.read]
  split at h
  · rename_i hs
    split at h
    · simp only [Option.some.injEq] at h; subst h
      by_cases hs' : cfg.stackBase ≤ a'
      · simp only [hs', ↓reduceIte]
        rw [Array.getElem?_setIfInBounds_ne]; omega
      · simp [hs']
    · simp at h
  · rename_i hs
    split at h
    · rename_i hg
      split at h
      · simp only [Option.some.injEq] at h; subst h
        by_cases hs' : cfg.stackBase ≤ a'
        · simp [hs']
        · simp only [hs', ↓reduceIte]
          by_cases hg' : cfg.globBase ≤ a'
          · simp only [hg', ↓reduceIte]
            rw [Array.getElem?_setIfInBounds_ne]; omega
          · simp [hg']
      · simp at h
    · simp at h

theorem Mem.readBytes_writeBytes_disjoint {cfg : Config} : ∀ (bs : List (Option Nat)) {m m' : Mem} {a : Nat},
    m.writeBytes cfg a bs = some m' → ∀ a', a' < a → m'.read cfg a' = m.read cfg a'
  | [], m, m', a, h, a', _ => by simp [Mem.writeBytes] at h; subst h; rfl
  | b :: bs, m, m', a, h, a', hlt => by
    simp only [Mem.writeBytes, bind, Option.bind] at h
    cases hw : m.write cfg a b with
    | none => simp [hw] at h
    | some m1 =>
      simp only [hw] at h
      rw [Mem.readBytes_writeBytes_disjoint bs h a' (by omega), Mem.read_write_ne hw (by omega)]

/-- reading back what was just written -/
theorem Mem.readBytes_writeBytes {cfg : Config} : ∀ (bs : List (Option Nat)) {m m' : Mem} {a : Nat},
    m.writeBytes cfg a bs = some m' → m'.readBytes cfg a bs.length = some bs
  | [], _, _, _, _ => rfl
  | b :: bs, m, m', a, h => by
    simp only [Mem.writeBytes, bind, Option.bind] at h
    cases hw : m.write cfg a b with
    | none => simp [hw] at h
    | some m1 =>
      simp only [hw] at h
      have h1 : m'.read cfg a = some b := by
        rw [Mem.readBytes_writeBytes_disjoint bs h a (by omega)]; exact Mem.read_write_same hw
      simp only [List.length_cons, Mem.readBytes, bind, Option.bind, h1, Mem.readBytes_writeBytes bs h, pure]

/-- `alloc` (the stack grows) does not change what can be read -/
theorem Mem.read_grow {cfg : Config} (m : Mem) (extra : Array (Option Nat)) {a : Nat} {b : Option Nat}
    (h : m.read cfg a = some b) : ({ m with stack := m.stack ++ extra } : Mem).read cfg a = some b := by
  simp only [Mem.read] at h ⊢
  split
  · rename_i hs
    simp only [hs, ↓reduceIte] at h
    have hlt : a - cfg.stackBase < m.stack.size := by
      by_cases hl : a - cfg.stackBase < m.stack.size
      · exact hl
      · rw [Array.getElem?_eq_none (by omega)] at h; cases h
    rw [Array.getElem?_append_left hlt]; exact h
  · rename_i hs
    simp only [hs, ↓reduceIte] at h; exact h

theorem Mem.readBytes_grow {cfg : Config} (m : Mem) (extra : Array (Option Nat)) : ∀ (n a : Nat) {bs : List (Option Nat)},
    m.readBytes cfg a n = some bs → ({ m with stack := m.stack ++ extra } : Mem).readBytes cfg a n = some bs
  | 0, _, _, h => h
  | n + 1, a, bs, h => by
    simp only [Mem.readBytes, bind, Option.bind] at h ⊢
    cases hr : m.read cfg a with
    | none => simp [hr] at h
    | some b =>
      simp only [hr] at h
      cases hrs : m.readBytes cfg (a + 1) n with
      | none => simp [hrs] at h
      | some r =>
        simp only [hrs] at h
        rw [Mem.read_grow m extra hr, Mem.readBytes_grow m extra n (a + 1) hrs]; exact h


/-! ### encode / decode round trip for integer types -/

theorem fromBytesLE_toBytesLE : ∀ (n y : Nat), fromBytesLE (toBytesLE n y) = y % 256 ^ n
  | 0, y => by simp [toBytesLE, fromBytesLE, Nat.mod_one]
  | n + 1, y => by
    simp only [toBytesLE, fromBytesLE, fromBytesLE_toBytesLE n (y / 256)]
    rw [Nat.pow_succ, Nat.mul_comm (256 ^ n) 256, Nat.mod_mul]

theorem definedBytes_map_some : ∀ (l : List Nat), definedBytes (l.map some) = some l
  | [] => rfl
  | b :: r => by simp [definedBytes, definedBytes_map_some r]

theorem definedBytes_replicate_none (n : Nat) (h : 0 < n) : definedBytes (List.replicate n none) = none := by
  cases n with
  | zero => omega
  | succ k => simp [List.replicate, definedBytes]

theorem encodeVal_length {cfg : Config} {ty : Ty} {w : Val} {bs : List (Option Nat)}
    (h : encodeVal cfg ty w = .ok bs) : bs.length = ty.size cfg := by
  have hlen : ∀ (n y : Nat), (toBytesLE n y).length = n := by
    intro n; induction n with
    | zero => intro y; rfl
    | succ k ih => intro y; simp [toBytesLE, ih]
  cases ty <;> cases w <;> simp only [encodeVal, Except.ok.injEq, reduceCtorEq] at h <;> subst h <;>
    simp [hlen, Ty.size]

theorem wrap_toNat_emod (t : ITy) {x : Int} (hx : Spec.IRArith.InRange t x) :
    Spec.IRArith.wrap t ((((x % pow2 (8 * (t.bits / 8))).toNat % 256 ^ (t.bits / 8) : Nat) : Int)) = x := by
  cases t <;>
    simp only [Spec.IRArith.InRange, Spec.IRArith.Ty.minVal, Spec.IRArith.Ty.maxVal, Spec.IRArith.Ty.signed,
      Spec.IRArith.Ty.bits, Spec.IRArith.wrap, pow2, Nat.reduceDiv, Nat.reduceMul, Nat.reducePow, Nat.reduceSub,
      Int.reducePow, ↓reduceIte, Bool.false_eq_true] at hx ⊢ <;>
    omega

/-- what is stored at an integer type and read back at the same type is the stored value -/
theorem decode_encode_int {cfg : Config} {t : ITy} {w : Val} {bs : List (Option Nat)}
    (hw : ∀ x, w = .int x → Spec.IRArith.InRange t x) (h : encodeVal cfg (.int t) w = .ok bs) :
    decodeVal cfg (.int t) bs = w := by
  cases w with
  | flt f => simp [encodeVal] at h
  | undef =>
    simp only [encodeVal, Except.ok.injEq] at h; subst h
    have : 0 < (Ty.int t).size cfg := by cases t <;> simp [Ty.size, Spec.IRArith.Ty.bits]
    simp only [decodeVal, definedBytes_replicate_none _ this]
  | int x =>
    simp only [encodeVal, Except.ok.injEq] at h; subst h
    simp only [decodeVal, definedBytes_map_some, fromBytesLE_toBytesLE, Ty.size]
    rw [wrap_toNat_emod t (hw x rfl)]

theorem evalAddr_what {ctx : Ctx} {env : Env} {o : Operand} {w1 w2 : String} {a : Nat}
    (h : evalAddr ctx env o w1 = .ok a) : evalAddr ctx env o w2 = .ok a := by
  simp only [evalAddr, bind, Except.bind] at h ⊢
  cases hv : evalOpnd ctx env o with
  | error e => simp [hv] at h
  | ok v =>
    simp only [hv] at h ⊢
    cases v with
    | int z =>
      simp only at h ⊢
      split at h
      · simp at h
      · rename_i hz; simp only [hz, ↓reduceIte]; exact h
    | flt f => simp at h
    | undef => simp at h


/-! ### what `lasSrc` finds -/

theorem scanBack_spec {instrs : List Instr} {p : Operand} {t : ITy} : ∀ {n q : Nat} {v : Operand},
    scanBack instrs p t n = some (q, v) →
    q < n ∧ (∃ vol, instrs[q]? = some (.store (.int t) v p vol)) ∧
      ∀ k, q < k → k < n → ∃ i, instrs[k]? = some i ∧ isWriter i = false
  | 0, q, v, h => by simp [scanBack] at h
  | n + 1, q, v, h => by
    simp only [scanBack] at h
    cases hi : instrs[n]? with
    | none => simp [hi] at h
    | some i =>
      simp only [hi] at h
      by_cases hw : isWriter i = true
      · cases i <;> simp only [isWriter, Bool.false_eq_true] at hw <;> try (simp [isWriter] at h; done)
        case store ty v' a vol =>
          simp only at h
          split at h
          · rename_i hc
            simp only [Option.some.injEq, Prod.mk.injEq] at h
            obtain ⟨rfl, rfl⟩ := h
            obtain ⟨rfl, rfl⟩ := hc
            exact ⟨by omega, ⟨vol, hi⟩, fun k h1 h2 => by omega⟩
          · simp at h
      · have hw' : isWriter i = false := by simpa using hw
        have h' : scanBack instrs p t n = some (q, v) := by
          cases i <;> simp only [isWriter, reduceCtorEq] at hw' <;> simpa [isWriter] using h
        obtain ⟨h1, h2, h3⟩ := scanBack_spec h'
        refine ⟨by omega, h2, ?_⟩
        intro k hk1 hk2
        by_cases e : k = n
        · subst e; exact ⟨i, hi, hw'⟩
        · exact h3 k hk1 (by omega)

/-- everything the checker established about a forwarded load -/
structure LasSpec (f : Func) (x : String) (px : Pos) (q : Nat) (v p : Operand) (t : ITy) : Prop where
  load : instrAtPos f px = some (.load x (.int t) p false)
  lt : q < px.2
  store : ∃ vol, instrAtPos f (px.1, q) = some (.store (.int t) v p vol)
  between : ∀ k, q < k → k < px.2 → ∃ i, instrAtPos f (px.1, k) = some i ∧ isWriter i = false
  vty : opTy f v = some (.int t)

theorem lasSrc_spec {f : Func} {T : DomTab} (hf : SSAFacts f T) {x : String} {px : Pos} {q : Nat} {v p : Operand} {t : ITy}
    (h : lasSrc f x = some (px, q, v, p, t)) : LasSpec f x px q v p t := by
  simp only [lasSrc] at h
  cases hp : defPos f x with
  | none => simp [hp] at h
  | some px' =>
    simp only [hp] at h
    cases hb : f.findBlock px'.1 with
    | none => simp [hb] at h
    | some b =>
      simp only [hb] at h
      obtain ⟨i0, hi0, hd0⟩ := defPos_spec hf hp
      obtain ⟨b0, hb0, hib0⟩ := instrAtPos_iff.1 hi0
      rw [hb] at hb0; have := Option.some.inj hb0; subst this
      rw [hib0] at h
      cases i0 <;> try (simp at h; done)
      case load d ty p' vol =>
        simp only [dstName, Instr.dst?, Option.map, Option.some.injEq] at hd0; subst hd0
        cases ty <;> try (simp at h; done)
        case int t' =>
          cases vol <;> try (simp at h; done)
          simp only at h
          cases hs : scanBack b.instrs p' t' px'.2 with
          | none => simp [hs] at h
          | some qv =>
            obtain ⟨q', v'⟩ := qv
            simp only [hs] at h
            split at h
            · rename_i hty
              simp only [Option.some.injEq, Prod.mk.injEq] at h
              obtain ⟨rfl, rfl, rfl, rfl, rfl⟩ := h
              obtain ⟨h1, ⟨vol, h2⟩, h3⟩ := scanBack_spec hs
              exact ⟨hi0, h1, ⟨vol, instrAtPos_iff.2 ⟨b, hb, h2⟩⟩,
                fun k hk1 hk2 => by
                  obtain ⟨i, hi, hw⟩ := h3 k hk1 hk2
                  exact ⟨i, instrAtPos_iff.2 ⟨b, hb, hi⟩, hw⟩,
                hty⟩
            · simp at h

theorem sdomPt_lt {T : DomTab} {B : String} {k q : Nat} {c : Pos} (h : sdomPt T (B, k) c = true) (hq : q < k) :
    sdomPt T (B, q) c = true := by
  simp only [sdomPt] at h ⊢
  by_cases e : B = c.1
  · simp only [e, ↓reduceIte, decide_eq_true_eq] at h ⊢; omega
  · simp only [e, ↓reduceIte] at h ⊢; exact h


/-! ### the invariant -/

/-- every forwarded load that strictly dominates `u` holds the value of the stored operand -/
def LasAt (ctx : Ctx) (f : Func) (T : DomTab) (u : Pos) (env : Env) : Prop :=
  ∀ x v, loadOf f T u x = some v → evalOpnd ctx env v = evalOpnd ctx env (.loc x)

theorem loadOf_some {f : Func} {T : DomTab} {u : Pos} {x : String} {v : Operand} (h : loadOf f T u x = some v) :
    ∃ px q p t, lasSrc f x = some (px, q, v, p, t) ∧ sdomPt T px u = true := by
  simp only [loadOf] at h
  cases hs : lasSrc f x with
  | none => simp [hs] at h
  | some r =>
    obtain ⟨px, q, v', p, t⟩ := r
    simp only [hs] at h
    split at h
    · rename_i hd
      simp only [Option.some.injEq] at h; subst h
      exact ⟨px, q, p, t, rfl, hd⟩
    · simp at h

/-- between the store and the load the bytes at the address are the encoding of the stored operand -/
def WinAt (ctx : Ctx) (f : Func) (cur : String) (k : Nat) (mem : Mem) (env : Env) : Prop :=
  ∀ x px q v p t, lasSrc f x = some (px, q, v, p, t) → px.1 = cur → q < k → k ≤ px.2 →
    ∃ a w bs, evalAddr ctx env p "load" = .ok a ∧ evalOpnd ctx env v = .ok w ∧
      encodeVal ctx.cfg (.int t) w = .ok bs ∧ mem.readBytes ctx.cfg a ((Ty.int t).size ctx.cfg) = some bs

/-- the point `(cur, k)` lies in no store–load window -/
def NoWin (f : Func) (cur : String) (k : Nat) : Prop :=
  ∀ x px q v p t, lasSrc f x = some (px, q, v, p, t) → px.1 = cur → q < k → k ≤ px.2 → False

/-- the name `d` is neither a forwarded load nor its stored operand, for loads dominating `u` -/
def RtFresh (f : Func) (T : DomTab) (u : Pos) (d : String) : Prop :=
  ∀ x v, loadOf f T u x = some v → x ≠ d ∧ v ≠ .loc d

theorem las_fresh {f : Func} {T : DomTab} (hf : SSAFacts f T) {x : String} {px : Pos} {q : Nat} {v p : Operand} {t : ITy}
    (hsrc : lasSrc f x = some (px, q, v, p, t)) {c : Pos} {i : Instr} {z : String}
    (hi : instrAtPos f c = some i) (hz : dstName i = some z)
    (hdom : sdomPt T (px.1, q) c = true ∨ (px.1 ≠ c.1 ∧ T.dom px.1 c.1 = true)) :
    v ≠ .loc z ∧ p ≠ .loc z := by
  have sp := lasSrc_spec hf hsrc
  obtain ⟨vol, hst⟩ := sp.store
  have := (fresh_of_facts hf hst hi hz hdom).2
  simp only [Instr.uses, List.mem_cons, List.not_mem_nil, or_false, not_or] at this
  exact ⟨fun e => this.1 e.symm, fun e => this.2 e.symm⟩

theorem las_fresh_x {f : Func} {T : DomTab} (hf : SSAFacts f T) {x : String} {px : Pos} {q : Nat} {v p : Operand} {t : ITy}
    (hsrc : lasSrc f x = some (px, q, v, p, t)) {c : Pos} {i : Instr} {z : String}
    (hi : instrAtPos f c = some i) (hz : dstName i = some z)
    (hdom : sdomPt T px c = true ∨ (px.1 ≠ c.1 ∧ T.dom px.1 c.1 = true)) : x ≠ z := by
  have sp := lasSrc_spec hf hsrc
  have := (fresh_of_facts hf sp.load hi hz hdom).1
  simpa [dstName, Instr.dst?] using this

/-- the stored operand is not the load itself -/
theorem las_v_ne_x {f : Func} {T : DomTab} (hf : SSAFacts f T) {x : String} {px : Pos} {q : Nat} {v p : Operand} {t : ITy}
    (hsrc : lasSrc f x = some (px, q, v, p, t)) : v ≠ .loc x ∧ p ≠ .loc x := by
  have sp := lasSrc_spec hf hsrc
  obtain ⟨vol, hst⟩ := sp.store
  have hdom : sdomPt T (px.1, q) px = true := by simp [sdomPt, sp.lt]
  have hdx : dstName (Instr.load x (Ty.int t) p false) = some x := rfl
  have := (fresh_of_facts hf hst sp.load hdx (.inl hdom)).2
  simp only [Instr.uses, List.mem_cons, List.not_mem_nil, or_false, not_or] at this
  exact ⟨fun e => this.1 e.symm, fun e => this.2 e.symm⟩

theorem lasAt_advance {ctx : Ctx} {f : Func} {T : DomTab} (hf : SSAFacts f T) {cur : String} {k : Nat} {i : Instr}
    (hi : instrAtPos f (cur, k) = some i) {env env' : Env} (hinv : LasAt ctx f T (cur, k) env)
    (hupd : env' = env ∨ ∃ z w, dstName i = some z ∧ env' = env.set z w)
    (hself : ∀ x q v p t, lasSrc f x = some ((cur, k), q, v, p, t) → evalOpnd ctx env' v = evalOpnd ctx env' (.loc x)) :
    LasAt ctx f T (cur, k + 1) env' := by
  intro x v hl
  obtain ⟨px, q, p, t, hsrc, hdom⟩ := loadOf_some hl
  by_cases hp : px = (cur, k)
  · subst hp; exact hself x q v p t hsrc
  · have hdom' := sdomPt_succ hdom hp
    have hh := hinv x v (by simp [loadOf, hsrc, hdom'])
    rcases hupd with rfl | ⟨z, w, hz, rfl⟩
    · exact hh
    · have sp := lasSrc_spec hf hsrc
      have h1 := las_fresh hf hsrc hi hz (.inl (sdomPt_lt (by simpa using hdom') sp.lt))
      have h2 := las_fresh_x hf hsrc hi hz (.inl hdom')
      rw [evalOpnd_set_ne ctx env z w h1.1, evalOpnd_set_ne ctx env z w (by intro e; cases e; exact h2 rfl)]
      exact hh

theorem rtFresh_advance {f : Func} {T : DomTab} (hf : SSAFacts f T) {cur : String} {k : Nat} {i : Instr}
    (hi : instrAtPos f (cur, k) = some i) {d : String} (hz : dstName i = some d)
    (hnl : ∀ x q v p t, lasSrc f x = some ((cur, k), q, v, p, t) → False) : RtFresh f T (cur, k + 1) d := by
  intro x v hl
  obtain ⟨px, q, p, t, hsrc, hdom⟩ := loadOf_some hl
  have hp : px ≠ (cur, k) := fun e => hnl x q v p t (e ▸ hsrc)
  have hdom' := sdomPt_succ hdom hp
  have sp := lasSrc_spec hf hsrc
  exact ⟨las_fresh_x hf hsrc hi hz (.inl hdom'),
    (las_fresh hf hsrc hi hz (.inl (sdomPt_lt (by simpa using hdom') sp.lt))).1⟩

theorem evalOpnd_setMany_ne (ctx : Ctx) : ∀ (vals : List (String × Val)) (env : Env) {o : Operand},
    (∀ zv ∈ vals, o ≠ .loc zv.1) → evalOpnd ctx (env.setMany vals) o = evalOpnd ctx env o
  | [], _, _, _ => rfl
  | (z, w) :: vs, env, o, h => by
    rw [setMany_cons, evalOpnd_setMany_ne ctx vs _ (fun zv hzv => h zv (by simp [hzv])),
      evalOpnd_set_ne ctx env z w (h (z, w) (by simp))]

theorem lasAt_enter {ctx : Ctx} {f : Func} {T : DomTab} (hf : SSAFacts f T) {cur : String} {k : Nat} {i : Instr}
    {b bQ : Block} (hb : f.findBlock cur = some b) (hi : b.instrs[k]? = some i) (hterm : i.isTerminator = true)
    {Q : String} (hQ : Q ∈ i.targets) (hbQ : f.findBlock Q = some bQ) {env : Env}
    (hinv : LasAt ctx f T (cur, k) env)
    {vals : List (String × Val)} (hvals : phiValues ctx env cur bQ.instrs = .ok vals) :
    LasAt ctx f T (Q, 0) (env.setMany vals) := by
  intro x v hl
  obtain ⟨px, q, p, t, hsrc, hdom⟩ := loadOf_some hl
  have sp := lasSrc_spec hf hsrc
  obtain ⟨hbm, hbn⟩ := findBlock_mem hb
  obtain ⟨hlast, hsuccs⟩ := terminator_is_last (hf.term b hbm) hi hterm
  have hpQ : px.1 ≠ Q ∧ T.dom px.1 Q = true := by
    simp only [sdomPt] at hdom
    by_cases e : px.1 = Q
    · simp [e] at hdom
    · simp only [e, ↓reduceIte] at hdom; exact ⟨e, hdom⟩
  have hdomcur : T.dom px.1 cur = true := by
    have := hf.closure b hbm Q (by rw [hsuccs]; exact hQ) px.1 hpQ.1 hpQ.2
    rw [hbn] at this; exact this
  have hdomk : sdomPt T px (cur, k) = true := by
    simp only [sdomPt]
    by_cases e : px.1 = cur
    · simp only [e, ↓reduceIte, decide_eq_true_eq]
      obtain ⟨b2, hb2, hj2⟩ := instrAtPos_iff.1 sp.load
      rw [e, hb] at hb2
      have := Option.some.inj hb2; subst this
      obtain ⟨hlt, _⟩ := List.getElem?_eq_some_iff.1 hj2
      have hne : px.2 ≠ k := by
        intro e2; rw [e2, hi] at hj2
        have := Option.some.inj hj2; subst this
        simp [Instr.isTerminator] at hterm
      omega
    · simp only [e, ↓reduceIte]; exact hdomcur
  have hh := hinv x v (by simp [loadOf, hsrc, hdomk])
  have hfresh : ∀ zv ∈ vals, v ≠ .loc zv.1 ∧ x ≠ zv.1 := by
    intro zv hzv
    obtain ⟨kz, ty, ins, hkz⟩ := phiValues_names hvals zv hzv
    have hiz : instrAtPos f (Q, kz) = some (Instr.phi zv.1 ty ins) := instrAtPos_iff.2 ⟨bQ, hbQ, hkz⟩
    exact ⟨(las_fresh hf hsrc hiz rfl (.inr hpQ)).1, las_fresh_x hf hsrc hiz rfl (.inr hpQ)⟩
  rw [evalOpnd_setMany_ne ctx vals env (fun zv hzv => (hfresh zv hzv).1),
    evalOpnd_setMany_ne ctx vals env (fun zv hzv e => by cases e; exact (hfresh zv hzv).2 rfl)]
  exact hh


def LasFrameInv (ctx : Ctx) (T : DomTab) (fr : Frame) (rt : Option String) (win : Nat → Prop) : Prop :=
  ∃ b k, fr.fn.findBlock fr.cur = some b ∧ fr.rest = b.instrs.drop k ∧ LasAt ctx fr.fn T (fr.cur, k) fr.env ∧
    (∀ d, rt = some d → RtFresh fr.fn T (fr.cur, k) d) ∧ win k

def LasTop (ctx : Ctx) (s : State) : Prop :=
  SSAFacts s.top.fn (computeDoms s.top.fn) ∧
  LasFrameInv ctx (computeDoms s.top.fn) s.top none (fun k => WinAt ctx s.top.fn s.top.cur k s.mem s.top.env)

def LasCaller (ctx : Ctx) (c : Frame) (rt : Option String) : Prop :=
  SSAFacts c.fn (computeDoms c.fn) ∧ LasFrameInv ctx (computeDoms c.fn) c rt (fun k => NoWin c.fn c.cur k)

def LasChain (ctx : Ctx) : Option String → List Frame → Prop
  | _, [] => True
  | rt, c :: cs => LasCaller ctx c rt ∧ LasChain ctx c.retTo cs

def LasStateOK (ctx : Ctx) (s : State) : Prop := LasTop ctx s ∧ LasChain ctx s.top.retTo s.callers

theorem winAt_of_noWin {ctx : Ctx} {f : Func} {cur : String} {k : Nat} (h : NoWin f cur k) (mem : Mem) (env : Env) :
    WinAt ctx f cur k mem env :=
  fun x px q v p t h1 h2 h3 h4 => (h x px q v p t h1 h2 h3 h4).elim

/-- a writer at `(cur, k)` that is not the store of a window closes every window -/
theorem noWin_after_writer {f : Func} {T : DomTab} (hf : SSAFacts f T) {cur : String} {k : Nat} {i : Instr}
    (hi : instrAtPos f (cur, k) = some i) (hw : isWriter i = true) (hns : ∀ ty v p vol, i ≠ .store ty v p vol) :
    NoWin f cur (k + 1) := by
  intro x px q v p t hsrc hcur hq hk
  have sp := lasSrc_spec hf hsrc
  by_cases e : q = k
  · subst e
    obtain ⟨vol, hst⟩ := sp.store
    rw [hcur] at hst
    exact hns _ _ _ _ (instrAtPos_det hi hst)
  · obtain ⟨j, hj, hjw⟩ := sp.between k (by omega) (by omega)
    rw [hcur] at hj
    have := instrAtPos_det hi hj; subst this
    rw [hw] at hjw; exact Bool.noConfusion hjw

theorem nonwriter_reads {ctx : Ctx} {fname : String} {mem : Mem} {env : Env} {i : Instr}
    {p : Mem × Option (String × Val)} (he : effect ctx fname mem env i = some (.ok p)) (hw : isWriter i = false) :
    ∀ a n bs, mem.readBytes ctx.cfg a n = some bs → p.1.readBytes ctx.cfg a n = some bs := by
  intro a n bs hr
  cases i <;> simp only [isWriter, Bool.true_eq_false] at hw <;>
    simp only [effect, Option.some.injEq, bind, Except.bind, pure, Except.pure, reduceCtorEq] at he
  case const d ty c =>
    cases hv : Spec.IR.evalConst ctx.cfg ty c with
    | error e => simp [hv] at he
    | ok v => simp only [hv, Except.ok.injEq] at he; subst he; exact hr
  case undefined d ty => simp only [Except.ok.injEq] at he; subst he; exact hr
  case literal d data =>
    split at he
    · simp only [Except.ok.injEq] at he; subst he; exact hr
    · simp at he
  case alloc d sz al =>
    simp only [Except.ok.injEq] at he; subst he
    exact Mem.readBytes_grow mem _ n a hr
  case addrof d src =>
    cases hv : evalOpnd ctx env src with
    | error e => simp [hv] at he
    | ok v => simp only [hv, Except.ok.injEq] at he; subst he; exact hr
  case binop d ty op a1 b1 =>
    cases hx : evalOpnd ctx env a1 with
    | error e => simp [hx] at he
    | ok x =>
      cases hy : evalOpnd ctx env b1 with
      | error e => simp [hx, hy] at he
      | ok y =>
        cases hv : evalBinop ctx.cfg ty op x y with
        | error e => simp [hx, hy, hv] at he
        | ok v => simp only [hx, hy, hv, Except.ok.injEq] at he; subst he; exact hr
  case unop d ty op a1 =>
    cases hx : evalOpnd ctx env a1 with
    | error e => simp [hx] at he
    | ok x =>
      cases hv : evalUnop ctx.cfg ty op x with
      | error e => simp [hx, hv] at he
      | ok v => simp only [hx, hv, Except.ok.injEq] at he; subst he; exact hr
  case cast d ty a1 =>
    cases hx : evalOpnd ctx env a1 with
    | error e => simp [hx] at he
    | ok x =>
      cases hv : evalCast ctx.cfg ty x with
      | error e => simp [hx, hv] at he
      | ok v => simp only [hx, hv, Except.ok.injEq] at he; subst he; exact hr
  case load d ty addr vol =>
    cases ha : evalAddr ctx env addr "load" with
    | error e => simp [ha] at he
    | ok a0 =>
      simp only [ha] at he
      split at he
      · simp only [Except.ok.injEq] at he; subst he; exact hr
      · simp at he
  case phi d ty ins => simp only [Except.ok.injEq] at he; subst he; exact hr


/-- the load and store effects, spelled out -/
theorem effect_load_ok {ctx : Ctx} {fname : String} {mem : Mem} {env : Env} {x : String} {ty : Ty} {addr : Operand}
    {vol : Bool} {p : Mem × Option (String × Val)} (he : effect ctx fname mem env (.load x ty addr vol) = some (.ok p)) :
    ∃ a bs, evalAddr ctx env addr "load" = .ok a ∧ mem.readBytes ctx.cfg a (ty.size ctx.cfg) = some bs ∧
      p = (mem, some (x, decodeVal ctx.cfg ty bs)) := by
  simp only [effect, Option.some.injEq, bind, Except.bind, pure, Except.pure] at he
  cases ha : evalAddr ctx env addr "load" with
  | error e => simp [ha] at he
  | ok a =>
    simp only [ha] at he
    cases hb : mem.readBytes ctx.cfg a (ty.size ctx.cfg) with
    | none => simp [hb] at he
    | some bs => simp only [hb, Except.ok.injEq] at he; exact ⟨a, bs, rfl, hb, he.symm⟩

theorem effect_store_ok {ctx : Ctx} {fname : String} {mem : Mem} {env : Env} {ty : Ty} {v addr : Operand}
    {vol : Bool} {p : Mem × Option (String × Val)} (he : effect ctx fname mem env (.store ty v addr vol) = some (.ok p)) :
    ∃ a w bs, evalAddr ctx env addr "store" = .ok a ∧ evalOpnd ctx env v = .ok w ∧ encodeVal ctx.cfg ty w = .ok bs ∧
      mem.writeBytes ctx.cfg a bs = some p.1 ∧ p.2 = none := by
  simp only [effect, Option.some.injEq, bind, Except.bind, pure, Except.pure] at he
  cases ha : evalAddr ctx env addr "store" with
  | error e => simp [ha] at he
  | ok a =>
    cases hx : evalOpnd ctx env v with
    | error e => simp [ha, hx] at he
    | ok w =>
      cases hb : encodeVal ctx.cfg ty w with
      | error e => simp [ha, hx, hb] at he
      | ok bs =>
        simp only [ha, hx, hb] at he
        cases hw : mem.writeBytes ctx.cfg a bs with
        | none => simp [hw] at he
        | some m' =>
          simp only [hw, Except.ok.injEq] at he; subst he
          exact ⟨a, w, bs, rfl, rfl, hb, hw, rfl⟩

theorem evalAddr_set_ne (ctx : Ctx) (env : Env) (z : String) (w : Val) {o : Operand} (h : o ≠ .loc z) (what : String) :
    evalAddr ctx (env.set z w) o what = evalAddr ctx env o what := by
  simp only [evalAddr, evalOpnd_set_ne ctx env z w h]

/-- one effect instruction of the running activation -/
theorem las_effect {ctx : Ctx} {m : Module} {f : Func} (hf : SSAFacts f (computeDoms f)) {cur : String} {k : Nat} {i : Instr}
    (hi : instrAtPos f (cur, k) = some i) {fname : String} {mem : Mem} {env : Env} (hty : TyInv f env)
    (hinv : LasAt ctx f (computeDoms f) (cur, k) env) (hwin : WinAt ctx f cur k mem env)
    {p : Mem × Option (String × Val)} (he : effect ctx fname mem env i = some (.ok p))
    (env' : Env) (henv' : env' = match p.2 with | some (d, v) => env.set d v | none => env) (_hm : m = m) :
    LasAt ctx f (computeDoms f) (cur, k + 1) env' ∧ WinAt ctx f cur (k + 1) p.1 env' := by
  have hupd : env' = env ∨ ∃ z w, dstName i = some z ∧ env' = env.set z w := by
    rcases effect_dst he with h0 | ⟨z, w, hz, h1⟩
    · left; rw [henv', h0]
    · right; exact ⟨z, w, hz, by rw [henv', h1]⟩
  constructor
  · refine lasAt_advance hf hi hinv hupd ?_
    intro x q v pp t hsrc
    have sp := lasSrc_spec hf hsrc
    have := instrAtPos_det hi sp.load; subst this
    obtain ⟨a, bs, ha, hbs, rfl⟩ := effect_load_ok he
    obtain ⟨a', w, bs', ha', hv, henc, hrd⟩ := hwin x (cur, k) q v pp t hsrc rfl sp.lt (Nat.le_refl k)
    rw [ha] at ha'; simp only [Except.ok.injEq] at ha'; subst ha'
    rw [hbs] at hrd; simp only [Option.some.injEq] at hrd; subst hrd
    have hdec : decodeVal ctx.cfg (.int t) bs = w :=
      decode_encode_int (fun n hn => evalOpnd_intOK hty hv t n sp.vty hn) henc
    subst henv'
    simp only [hdec]
    rw [evalOpnd_set_ne ctx env x w (las_v_ne_x hf hsrc).1, hv]
    simp only [evalOpnd, Env.get_set_eq]
  · intro x px q v pp t hsrc hcur hq hk
    have sp := lasSrc_spec hf hsrc
    by_cases e : q = k
    · subst e
      obtain ⟨vol, hst⟩ := sp.store
      rw [hcur] at hst
      have := instrAtPos_det hi hst; subst this
      obtain ⟨a, w, bs, ha, hv, henc, hwr, hp2⟩ := effect_store_ok he
      have henv : env' = env := by rw [henv', hp2]
      subst henv
      refine ⟨a, w, bs, evalAddr_what ha, hv, henc, ?_⟩
      rw [← encodeVal_length henc]
      exact Mem.readBytes_writeBytes bs hwr
    · obtain ⟨a, w, bs, ha, hv, henc, hrd⟩ := hwin x px q v pp t hsrc hcur (by omega) (by omega)
      obtain ⟨j, hj, hjw⟩ := sp.between k (by omega) (by omega)
      rw [hcur] at hj
      have := instrAtPos_det hi hj; subst this
      have hrd' := nonwriter_reads he hjw a _ bs hrd
      rcases hupd with rfl | ⟨z, w', hz, rfl⟩
      · exact ⟨a, w, bs, ha, hv, henc, hrd'⟩
      · have hfr := las_fresh hf hsrc hi hz (.inl (by rw [hcur]; simp [sdomPt]; omega))
        exact ⟨a, w, bs, by rw [evalAddr_set_ne ctx env z w' hfr.2]; exact ha,
          by rw [evalOpnd_set_ne ctx env z w' hfr.1]; exact hv, henc, hrd'⟩


theorem lasAt_entry {ctx : Ctx} {f : Func} (hf : SSAFacts f (computeDoms f)) (env : Env) :
    LasAt ctx f (computeDoms f) (f.entry, 0) env := by
  intro x v hl
  obtain ⟨px, q, p, t, _, hdom⟩ := loadOf_some hl
  simp only [sdomPt] at hdom
  by_cases e : px.1 = f.entry
  · simp [e] at hdom
  · simp only [e, ↓reduceIte] at hdom
    rw [hf.entry px.1 e] at hdom; exact Bool.noConfusion hdom

theorem lasTop_new {ctx : Ctx} {f : Func} (hf : SSAFacts f (computeDoms f)) {bE : Block} (hb : f.findBlock f.entry = some bE)
    (env : Env) (sp : Nat) (rt : Option String) (mem : Mem) (callers : List Frame) (trace : List Event) :
    LasTop ctx { mem := mem, top := { fn := f, cur := f.entry, rest := bE.instrs, env := env, spSave := sp, retTo := rt },
                 callers := callers, trace := trace } :=
  ⟨hf, bE, 0, hb, by simp, lasAt_entry hf env, (fun d hd => by cases hd),
    fun x px q v p t _ _ hq _ => by omega⟩

/-- the caller frame left behind by a call at `(cur, k)` -/
theorem lasCaller_adv {ctx : Ctx} {fr : Frame} {b : Block} {k : Nat} {i : Instr} {rest' : List Instr}
    (hf : SSAFacts fr.fn (computeDoms fr.fn)) (hb : fr.fn.findBlock fr.cur = some b) (hik : b.instrs[k]? = some i)
    (hdrop : b.instrs.drop (k + 1) = rest') (hinv : LasAt ctx fr.fn (computeDoms fr.fn) (fr.cur, k) fr.env)
    (hw : isWriter i = true) (hns : ∀ ty v p vol, i ≠ .store ty v p vol) (hnl : ∀ x ty p vol, i ≠ .load x ty p vol)
    (rt : Option String) (hrt : ∀ d, rt = some d → dstName i = some d) :
    LasCaller ctx { fr with rest := rest' } rt := by
  have hi : instrAtPos fr.fn (fr.cur, k) = some i := instrAtPos_iff.2 ⟨b, hb, hik⟩
  have hnosrc : ∀ x q v p t, lasSrc fr.fn x = some ((fr.cur, k), q, v, p, t) → False := by
    intro x q v p t hsrc
    exact hnl _ _ _ _ (instrAtPos_det hi (lasSrc_spec hf hsrc).load)
  refine ⟨hf, b, k + 1, hb, hdrop.symm, ?_, ?_, noWin_after_writer hf hi hw hns⟩
  · exact lasAt_advance hf hi hinv (.inl rfl) (fun x q v p t hsrc => (hnosrc x q v p t hsrc).elim)
  · intro d hd
    exact rtFresh_advance hf hi (hrt d hd) hnosrc

theorem las_step {ctx : Ctx} (hm : ModTy ctx.mod) {s t : State} (hty : TyStateOK ctx s) (hs : LasStateOK ctx s)
    (h : step ctx s = .next t) : LasStateOK ctx t := by
  have hE := stepE_ok_of_step_next h
  obtain ⟨⟨hf, b, k, hb, hrest, hinv, _, hwin⟩, hchain⟩ := hs
  have htyI : TyInv s.top.fn s.top.env := hty.1.inv
  cases hr : s.top.rest with
  | nil => rw [stepE_nil hr] at hE; simp at hE
  | cons i rest' =>
    rw [hr] at hrest
    obtain ⟨hik, hdrop, hklt⟩ := drop_eq_cons hrest.symm
    have hi : instrAtPos s.top.fn (s.top.cur, k) = some i := instrAtPos_iff.2 ⟨b, hb, hik⟩
    cases he : effect ctx s.top.fn.name s.mem s.top.env i with
    | some eff =>
      rw [stepE_effect hr he] at hE
      cases eff with
      | error e => simp [Except.map] at hE
      | ok p =>
        simp only [Except.map, Except.ok.injEq, StepR.next.injEq] at hE
        subst hE
        obtain ⟨h1, h2⟩ := las_effect (m := ctx.mod) hf hi htyI hinv hwin he _ rfl rfl
        exact ⟨⟨hf, b, k + 1, hb, hdrop.symm, h1, (fun d hd => by cases hd), h2⟩, hchain⟩
    | none =>
      cases i <;> simp only [effect, reduceCtorEq] at he
      case jump tgt =>
        rw [stepE_jump hr] at hE
        cases hb2 : enterBlock ctx { s.top with rest := rest' } tgt with
        | error e => simp [hb2, bind, Except.bind] at hE
        | ok nf =>
          simp only [hb2, bind, Except.bind, pure, Except.pure, Except.ok.injEq, StepR.next.injEq] at hE
          subst hE
          obtain ⟨bQ, vals, hbQ, hvals, rfl⟩ := enterBlock_shape hb2
          refine ⟨⟨hf, bQ, 0, hbQ, by simp, ?_, (fun d hd => by cases hd), fun x px q v p t _ _ hq _ => by omega⟩, hchain⟩
          exact lasAt_enter hf hb hik rfl (by simp [Instr.targets]) hbQ hinv hvals
      case cjump a c b2 yes no =>
        rw [stepE_cjump hr] at hE
        cases hx : evalOpnd ctx s.top.env a with
        | error e => simp [hx, bind, Except.bind] at hE
        | ok x =>
          cases hy : evalOpnd ctx s.top.env b2 with
          | error e => simp [hx, hy, bind, Except.bind] at hE
          | ok y =>
            cases ht : evalCond c x y with
            | error e => simp [hx, hy, ht, bind, Except.bind] at hE
            | ok tv =>
              simp only [hx, hy, ht, bind, Except.bind] at hE
              cases hb2 : enterBlock ctx { s.top with rest := rest' } (if tv then yes else no) with
              | error e => simp [hb2] at hE
              | ok nf =>
                simp only [hb2, pure, Except.pure, Except.ok.injEq, StepR.next.injEq] at hE
                subst hE
                obtain ⟨bQ, vals, hbQ, hvals, rfl⟩ := enterBlock_shape hb2
                refine ⟨⟨hf, bQ, 0, hbQ, by simp, ?_, (fun d hd => by cases hd),
                  fun x px q v p t _ _ hq _ => by omega⟩, hchain⟩
                exact lasAt_enter hf hb hik rfl (by cases tv <;> simp [Instr.targets]) hbQ hinv hvals
      case ret v =>
        rw [stepE_ret hr] at hE
        cases hret : s.top.fn.ret with
        | none => simp [hret] at hE
        | some rty =>
          simp only [hret] at hE
          cases hx : evalOpnd ctx s.top.env v with
          | error e => simp [hx, bind, Except.bind] at hE
          | ok x =>
            simp only [hx, bind, Except.bind, doReturn] at hE
            cases hcs : s.callers with
            | nil => simp only [hcs] at hE; split at hE <;> simp at hE
            | cons c cs =>
              rw [hcs] at hchain
              obtain ⟨⟨hcf, cb, ck, hcb, hcr, hcinv, hcfresh, hcnw⟩, hcc⟩ := hchain
              simp only [hcs] at hE
              cases hrt : s.top.retTo with
              | none =>
                simp only [hrt, Except.ok.injEq, StepR.next.injEq] at hE; subst hE
                exact ⟨⟨hcf, cb, ck, hcb, hcr, hcinv, (fun d hd => by cases hd), winAt_of_noWin hcnw _ _⟩, hcc⟩
              | some d =>
                simp only [hrt, Except.ok.injEq, StepR.next.injEq] at hE; subst hE
                refine ⟨⟨hcf, cb, ck, hcb, hcr, ?_, (fun d hd => by cases hd), winAt_of_noWin hcnw _ _⟩, hcc⟩
                intro x' v' hl
                obtain ⟨h1, h2⟩ := hcfresh d hrt x' v' hl
                simp only
                rw [evalOpnd_set_ne ctx c.env d x h2, evalOpnd_set_ne ctx c.env d x (by intro e; cases e; exact h1 rfl)]
                exact hcinv x' v' hl
      case exit =>
        rw [stepE_exit hr] at hE
        cases hret : s.top.fn.ret with
        | some rty => simp [hret] at hE
        | none =>
          simp only [hret, doReturn] at hE
          cases hcs : s.callers with
          | nil => simp [hcs] at hE
          | cons c cs =>
            rw [hcs] at hchain
            obtain ⟨⟨hcf, cb, ck, hcb, hcr, hcinv, _, hcnw⟩, hcc⟩ := hchain
            simp only [hcs] at hE
            cases hrt : s.top.retTo with
            | none =>
              simp only [hrt, Except.ok.injEq, StepR.next.injEq] at hE; subst hE
              exact ⟨⟨hcf, cb, ck, hcb, hcr, hcinv, (fun d hd => by cases hd), winAt_of_noWin hcnw _ _⟩, hcc⟩
            | some d => simp [hrt] at hE
      case fcall d ty callee args =>
        rw [stepE_fcall hr, doCall_eq] at hE
        cases hn : calleeName ctx s.top.env callee with
        | error e => simp [hn, bind, Except.bind] at hE
        | ok name =>
          cases hvs : evalOpnds ctx s.top.env args with
          | error e => simp [hn, hvs, bind, Except.bind] at hE
          | ok vs =>
            simp only [hn, hvs, bind, Except.bind, callNamed] at hE
            have hadv : ∀ rt, (∀ d', rt = some d' → d' = d) → LasCaller ctx { s.top with rest := rest' } rt := by
              intro rt hrt
              exact lasCaller_adv (fr := s.top) hf hb hik hdrop hinv rfl (by intros; simp) (by intros; simp) rt
                (fun d' hd' => by rw [hrt d' hd']; rfl)
            cases hff : ctx.mod.findFunc name with
            | some g =>
              simp only [hff] at hE
              have hg := (hm g (findFunc_mem hff)).1
              split at hE
              · simp [throw, throwThe, MonadExceptOf.throw] at hE
              · cases hnf : newFrame ctx.cfg g vs s.mem.stack.size (some d) with
                | error e => simp [hnf] at hE
                | ok nf =>
                  simp only [Option.map, hnf, pure, Except.pure, Except.ok.injEq, StepR.next.injEq] at hE
                  subst hE
                  obtain ⟨bE, env, hbE, rfl⟩ := newFrame_shape hnf
                  exact ⟨lasTop_new hg hbE env _ _ _ _ _, hadv (some d) (fun d' hd' => (Option.some.inj hd').symm), hchain⟩
            | none =>
              simp only [hff] at hE
              cases hfe : ctx.mod.findExtern name with
              | none => simp [hfe, throw, throwThe, MonadExceptOf.throw] at hE
              | some e =>
                simp only [hfe] at hE
                split at hE
                · simp [throw, throwThe, MonadExceptOf.throw] at hE
                · split at hE
                  · rename_i as rty d2 ty2 hk heq
                    simp only [pure, Except.pure, Except.ok.injEq, StepR.next.injEq] at hE
                    subst hE
                    simp only [Option.some.injEq, Prod.mk.injEq] at heq
                    obtain ⟨rfl, rfl⟩ := heq
                    have hnosrc : ∀ x q v p t, lasSrc s.top.fn x = some ((s.top.cur, k), q, v, p, t) → False := by
                      intro x q v p t hsrc
                      have := instrAtPos_det hi (lasSrc_spec hf hsrc).load
                      simp at this
                    refine ⟨⟨hf, b, k + 1, hb, hdrop.symm, ?_, (fun d hd => by cases hd), ?_⟩, hchain⟩
                    · exact lasAt_advance hf hi hinv (.inr ⟨d, _, rfl, rfl⟩)
                        (fun x q v p t hsrc => (hnosrc x q v p t hsrc).elim)
                    · exact winAt_of_noWin (noWin_after_writer hf hi rfl (by intros; simp)) _ _
                  · rename_i heq; simp at heq
                  · rename_i heq; simp at heq
                  · simp [throw, throwThe, MonadExceptOf.throw] at hE
                  · simp [throw, throwThe, MonadExceptOf.throw] at hE
      case pcall callee args =>
        rw [stepE_pcall hr, doCall_eq] at hE
        cases hn : calleeName ctx s.top.env callee with
        | error e => simp [hn, bind, Except.bind] at hE
        | ok name =>
          cases hvs : evalOpnds ctx s.top.env args with
          | error e => simp [hn, hvs, bind, Except.bind] at hE
          | ok vs =>
            simp only [hn, hvs, bind, Except.bind, callNamed] at hE
            have hadv : LasCaller ctx { s.top with rest := rest' } none :=
              lasCaller_adv (fr := s.top) hf hb hik hdrop hinv rfl (by intros; simp) (by intros; simp) none
                (fun d' hd' => by cases hd')
            cases hff : ctx.mod.findFunc name with
            | some g =>
              simp only [hff] at hE
              have hg := (hm g (findFunc_mem hff)).1
              split at hE
              · rename_i heq; simp at heq
              · cases hnf : newFrame ctx.cfg g vs s.mem.stack.size none with
                | error e => simp [hnf] at hE
                | ok nf =>
                  simp only [Option.map, hnf, pure, Except.pure, Except.ok.injEq, StepR.next.injEq] at hE
                  subst hE
                  obtain ⟨bE, env, hbE, rfl⟩ := newFrame_shape hnf
                  exact ⟨lasTop_new hg hbE env _ _ _ _ _, hadv, hchain⟩
            | none =>
              simp only [hff] at hE
              cases hfe : ctx.mod.findExtern name with
              | none => simp [hfe, throw, throwThe, MonadExceptOf.throw] at hE
              | some e =>
                simp only [hfe] at hE
                obtain ⟨hcf, cb, ck, hcb, hcr, hcinv, hcfr, hcnw⟩ := hadv
                split at hE
                · simp [throw, throwThe, MonadExceptOf.throw] at hE
                · split at hE
                  · rename_i heq; simp at heq
                  · simp only [pure, Except.pure, Except.ok.injEq, StepR.next.injEq] at hE
                    subst hE
                    exact ⟨⟨hcf, cb, ck, hcb, hcr, hcinv, (fun d hd => by cases hd), winAt_of_noWin hcnw _ _⟩, hchain⟩
                  · simp only [pure, Except.pure, Except.ok.injEq, StepR.next.injEq] at hE
                    subst hE
                    exact ⟨⟨hcf, cb, ck, hcb, hcr, hcinv, (fun d hd => by cases hd), winAt_of_noWin hcnw _ _⟩, hchain⟩
                  · simp [throw, throwThe, MonadExceptOf.throw] at hE
                  · simp [throw, throwThe, MonadExceptOf.throw] at hE

theorem initState_las {ctx : Ctx} (hm : ModTy ctx.mod) {fname : String} {args : List Val} {s : State}
    (h : initState ctx fname args = .ok s) : LasStateOK ctx s := by
  simp only [initState] at h
  cases hf : ctx.mod.findFunc fname with
  | none => simp [hf] at h
  | some f =>
    simp only [hf] at h
    cases hnf : newFrame ctx.cfg f args 0 none with
    | error e => simp [hnf, bind, Except.bind] at h
    | ok nf =>
      simp only [hnf, bind, Except.bind, pure, Except.pure, Except.ok.injEq] at h
      subst h
      obtain ⟨bE, env, hbE, rfl⟩ := newFrame_shape hnf
      exact ⟨lasTop_new (hm f (findFunc_mem hf)).1 hbE env _ _ _ _ _, trivial⟩

end Proofs.Opt
