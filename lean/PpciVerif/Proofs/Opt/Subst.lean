import PpciVerif.Proofs.Opt.SSA
/-!
# Proofs.Opt.Subst — soundness of `Model.OptCheck.checkSubst`

Replacing operands by operands that hold the same value (common subexpressions, constants, folded constant
expressions) preserves the behaviour of every defined run.  Lock-step simulation: the transformed state is
the original state with the function bodies exchanged; the equality of the operand values comes from the
SSA equation invariant `inv_step` of the ORIGINAL execution.
-/
namespace Proofs.Opt
open Spec.IR Model.Opt Model.OptCheck

/-! ### what the equations give -/

def emptyMem : Mem := { glob := #[], stack := #[] }

theorem Holds.const {ctx : Ctx} {env : Env} {d : String} {ty : Ty} {c : ConstVal} (h : Holds ctx env (.const d ty c)) :
    ∃ v, Spec.IR.evalConst ctx.cfg ty c = .ok v ∧ env.get d = some v := by
  obtain ⟨d', v, hd, heff, hget⟩ := h
  simp only [dstName, Instr.dst?, Option.map, Option.some.injEq] at hd; subst hd
  have := heff "" emptyMem
  simp only [effect, Option.some.injEq, bind, Except.bind, pure, Except.pure] at this
  cases hv : Spec.IR.evalConst ctx.cfg ty c with
  | error e => simp [hv] at this
  | ok w => simp only [hv, Except.ok.injEq, Prod.mk.injEq, Option.some.injEq, true_and] at this; exact ⟨w, rfl, this ▸ hget⟩

theorem Holds.binop {ctx : Ctx} {env : Env} {d : String} {ty : Ty} {op : BinOp} {a b : Operand}
    (h : Holds ctx env (.binop d ty op a b)) :
    ∃ x y v, evalOpnd ctx env a = .ok x ∧ evalOpnd ctx env b = .ok y ∧ evalBinop ctx.cfg ty op x y = .ok v ∧
      env.get d = some v := by
  obtain ⟨d', v, hd, heff, hget⟩ := h
  simp only [dstName, Instr.dst?, Option.map, Option.some.injEq] at hd; subst hd
  have := heff "" emptyMem
  simp only [effect, Option.some.injEq, bind, Except.bind, pure, Except.pure] at this
  cases hx : evalOpnd ctx env a with
  | error e => simp [hx] at this
  | ok x =>
    cases hy : evalOpnd ctx env b with
    | error e => simp [hx, hy] at this
    | ok y =>
      cases hv : evalBinop ctx.cfg ty op x y with
      | error e => simp [hx, hy, hv] at this
      | ok w =>
        simp only [hx, hy, hv, Except.ok.injEq, Prod.mk.injEq, Option.some.injEq, true_and] at this
        exact ⟨x, y, w, rfl, rfl, rfl, this ▸ hget⟩

theorem Holds.cast {ctx : Ctx} {env : Env} {d : String} {ty : Ty} {a : Operand} (h : Holds ctx env (.cast d ty a)) :
    ∃ x v, evalOpnd ctx env a = .ok x ∧ evalCast ctx.cfg ty x = .ok v ∧ env.get d = some v := by
  obtain ⟨d', v, hd, heff, hget⟩ := h
  simp only [dstName, Instr.dst?, Option.map, Option.some.injEq] at hd; subst hd
  have := heff "" emptyMem
  simp only [effect, Option.some.injEq, bind, Except.bind, pure, Except.pure] at this
  cases hx : evalOpnd ctx env a with
  | error e => simp [hx] at this
  | ok x =>
    cases hv : evalCast ctx.cfg ty x with
    | error e => simp [hx, hv] at this
    | ok w =>
      simp only [hx, hv, Except.ok.injEq, Prod.mk.injEq, Option.some.injEq, true_and] at this
      exact ⟨x, w, rfl, rfl, this ▸ hget⟩

/-- `defPos` finds an instruction that defines the name -/
theorem defPos_spec {f : Func} {T : DomTab} (hf : SSAFacts f T) {x : String} {p : Pos} (h : defPos f x = some p) :
    ∃ i, instrAtPos f p = some i ∧ dstName i = some x := by
  simp only [defPos] at h
  obtain ⟨b, hbm, hb⟩ := List.exists_of_findSome?_eq_some h
  simp only [Option.map_eq_some_iff] at hb
  obtain ⟨k, hk, rfl⟩ := hb
  obtain ⟨hlt, hpred⟩ := List.findIdx?_eq_some_iff_getElem.1 hk |>.imp (fun _ => id) (fun h => h)
  refine ⟨b.instrs[k], instrAtPos_iff.2 ⟨b, findBlock_of_mem hf.names hbm, by simp [List.getElem?_eq_getElem hlt]⟩, ?_⟩
  simpa using hpred.1

end Proofs.Opt
