import PpciVerif.Proofs.Opt.LAS
/-!
# Proofs.Opt.Subst — soundness of `Model.OptCheck.checkSubst`

Replacing operands by operands that hold the same value (common subexpressions, constants, folded constant
expressions) preserves the behaviour of every defined run.  Lock-step simulation: the transformed state is
the original state with the function bodies exchanged; the equality of the operand values comes from the
SSA equation invariant `inv_step` of the ORIGINAL execution.
-/
namespace Proofs.Opt
open Spec.IR Model.Opt Model.OptCheck

/-! ### what the equations give -/

def emptyMem : Mem := { glob := #[], stack := #[] }

theorem Holds.const {ctx : Ctx} {env : Env} {d : String} {ty : Ty} {c : ConstVal} (h : Holds ctx env (.const d ty c)) :
    ∃ v, Spec.IR.evalConst ctx.cfg ty c = .ok v ∧ env.get d = some v := by
  obtain ⟨d', v, hd, heff, hget⟩ := h
  simp only [dstName, Instr.dst?, Option.map, Option.some.injEq] at hd; subst hd
  have := heff "" emptyMem
  simp only [effect, Option.some.injEq, bind, Except.bind, pure, Except.pure] at this
  cases hv : Spec.IR.evalConst ctx.cfg ty c with
  | error e => simp [hv] at this
  | ok w => simp only [hv, Except.ok.injEq, Prod.mk.injEq, Option.some.injEq, true_and] at this; exact ⟨w, rfl, this ▸ hget⟩

theorem Holds.binop {ctx : Ctx} {env : Env} {d : String} {ty : Ty} {op : BinOp} {a b : Operand}
    (h : Holds ctx env (.binop d ty op a b)) :
    ∃ x y v, evalOpnd ctx env a = .ok x ∧ evalOpnd ctx env b = .ok y ∧ evalBinop ctx.cfg ty op x y = .ok v ∧
      env.get d = some v := by
  obtain ⟨d', v, hd, heff, hget⟩ := h
  simp only [dstName, Instr.dst?, Option.map, Option.some.injEq] at hd; subst hd
  have := heff "" emptyMem
  simp only [effect, Option.some.injEq, bind, Except.bind, pure, Except.pure] at this
  cases hx : evalOpnd ctx env a with
  | error e => simp [hx] at this
  | ok x =>
    cases hy : evalOpnd ctx env b with
    | error e => simp [hx, hy] at this
    | ok y =>
      cases hv : evalBinop ctx.cfg ty op x y with
      | error e => simp [hx, hy, hv] at this
      | ok w =>
        simp only [hx, hy, hv, Except.ok.injEq, Prod.mk.injEq, Option.some.injEq, true_and] at this
        exact ⟨x, y, w, rfl, rfl, hv, this ▸ hget⟩

theorem Holds.cast {ctx : Ctx} {env : Env} {d : String} {ty : Ty} {a : Operand} (h : Holds ctx env (.cast d ty a)) :
    ∃ x v, evalOpnd ctx env a = .ok x ∧ evalCast ctx.cfg ty x = .ok v ∧ env.get d = some v := by
  obtain ⟨d', v, hd, heff, hget⟩ := h
  simp only [dstName, Instr.dst?, Option.map, Option.some.injEq] at hd; subst hd
  have := heff "" emptyMem
  simp only [effect, Option.some.injEq, bind, Except.bind, pure, Except.pure] at this
  cases hx : evalOpnd ctx env a with
  | error e => simp [hx] at this
  | ok x =>
    cases hv : evalCast ctx.cfg ty x with
    | error e => simp [hx, hv] at this
    | ok w =>
      simp only [hx, hv, Except.ok.injEq, Prod.mk.injEq, Option.some.injEq, true_and] at this
      exact ⟨x, w, rfl, hv, this ▸ hget⟩

/-- the equations at point `u` hold in `env` -/
def InvAt (ctx : Ctx) (f : Func) (T : DomTab) (u : Pos) (env : Env) : Prop :=
  ∀ p j, instrAtPos f p = some j → pureKind j = true → sdomPt T p u = true → Holds ctx env j

theorem evalOpnd_loc {ctx : Ctx} {env : Env} {x : String} {v : Val} (h : env.get x = some v) :
    evalOpnd ctx env (.loc x) = .ok v := by
  simp only [evalOpnd, h]

theorem knownInt_sound {ctx : Ctx} {f : Func} {T : DomTab} (hf : SSAFacts f T) {u : Pos} {env : Env}
    (hinv : InvAt ctx f T u env) :
    ∀ (n : Nat) (o : Operand) (v : Int), knownInt f T u n o = some v → evalOpnd ctx env o = .ok (.int v)
  | 0, o, v, h => by simp [knownInt] at h
  | n + 1, .glob g, v, h => by simp [knownInt] at h
  | n + 1, .loc x, v, h => by
    simp only [knownInt] at h
    cases hp : defPos f x with
    | none => simp [hp] at h
    | some p =>
      simp only [hp] at h
      cases hs : sdomPt T p u with
      | false => simp [hs] at h
      | true =>
        simp only [hs, ↓reduceIte] at h
        obtain ⟨i, hi, hdx⟩ := defPos_spec hf hp
        simp only [hi] at h
        cases i <;> try (simp at h; done)
        case const d ty c =>
          simp only [dstName, Instr.dst?, Option.map, Option.some.injEq] at hdx; subst hdx
          cases ty <;> try (simp at h; done)
          case int t =>
            cases c <;> try (simp at h; done)
            case int cv =>
              simp only [Option.some.injEq] at h
              subst h
              obtain ⟨w, hw, hget⟩ := (hinv p _ hi rfl hs).const
              simp only [Spec.IR.evalConst, Except.ok.injEq] at hw; subst hw
              exact evalOpnd_loc hget
        case binop d ty op a b =>
          simp only [dstName, Instr.dst?, Option.map, Option.some.injEq] at hdx; subst hdx
          cases ty <;> try (simp at h; done)
          case int t =>
            cases ha : knownInt f T u n a with
            | none => simp [ha] at h
            | some xa =>
              cases hb : knownInt f T u n b with
              | none => simp [ha, hb] at h
              | some xb =>
                simp only [ha, hb] at h
                obtain ⟨x, y, w, hx, hy, hw, hget⟩ := (hinv p _ hi rfl hs).binop
                rw [knownInt_sound hf hinv n a xa ha] at hx
                rw [knownInt_sound hf hinv n b xb hb] at hy
                simp only [Except.ok.injEq] at hx hy; subst hx hy
                simp only [evalBinop] at hw
                rw [hw] at h
                cases w <;> try (simp at h; done)
                simp only [Option.some.injEq] at h
                subst h
                exact evalOpnd_loc hget
        case cast d ty a =>
          simp only [dstName, Instr.dst?, Option.map, Option.some.injEq] at hdx; subst hdx
          cases ty <;> try (simp at h; done)
          case int t =>
            cases ha : knownInt f T u n a with
            | none => simp [ha] at h
            | some xa =>
              simp only [ha, Option.some.injEq] at h
              subst h
              obtain ⟨x, w, hx, hw, hget⟩ := (hinv p _ hi rfl hs).cast
              rw [knownInt_sound hf hinv n a xa ha] at hx
              simp only [Except.ok.injEq] at hx; subst hx
              simp only [evalCast, Except.ok.injEq] at hw; subst hw
              exact evalOpnd_loc hget

theorem intBinop_add_zero {t : ITy} {va : Int} (h : Spec.IRArith.InRange t va) :
    intBinop t .add va 0 = .ok (.int va) := by
  simp only [intBinop, BinOp.arith?, Spec.IRArith.binop, Int.add_zero, Proofs.IRArith.wrap_of_inRange t va h]

theorem intBinop_zero_add {t : ITy} {va : Int} (h : Spec.IRArith.InRange t va) :
    intBinop t .add 0 va = .ok (.int va) := by
  simp only [intBinop, BinOp.arith?, Spec.IRArith.binop, Int.zero_add, Proofs.IRArith.wrap_of_inRange t va h]

theorem intBinop_mul_one {t : ITy} {va : Int} (h : Spec.IRArith.InRange t va) :
    intBinop t .mul va 1 = .ok (.int va) := by
  simp only [intBinop, BinOp.arith?, Spec.IRArith.binop, Int.mul_one, Proofs.IRArith.wrap_of_inRange t va h]

/-- `x := a + 0` (etc.) is an exact copy of `a` when `a` is in range -/
theorem copyOf_sound {ctx : Ctx} {f : Func} {T : DomTab} (hf : SSAFacts f T) {u : Pos} {env : Env}
    (hinv : InvAt ctx f T u env) (hty : TyInv f env) {fuel : Nat} {o a : Operand}
    (h : copyOf f T u fuel o = some a) : evalOpnd ctx env a = evalOpnd ctx env o := by
  cases o with
  | glob g => simp [copyOf] at h
  | loc x =>
    simp only [copyOf] at h
    cases hp : defPos f x with
    | none => simp [hp] at h
    | some px =>
      simp only [hp] at h
      cases hs : sdomPt T px u with
      | false => simp [hs] at h
      | true =>
        simp only [hs, ↓reduceIte] at h
        obtain ⟨i, hi, hdx⟩ := defPos_spec hf hp
        simp only [hi] at h
        cases i <;> try (simp at h; done)
        case binop d ty op a1 b1 =>
          simp only [dstName, Instr.dst?, Option.map, Option.some.injEq] at hdx; subst hdx
          cases ty <;> try (simp at h; done)
          case int t =>
            obtain ⟨xa, xb, v, hxa, hxb, hv, hget⟩ := (hinv px _ hi rfl hs).binop
            rw [evalOpnd_loc hget]
            cases op <;> try (simp at h; done)
            case add =>
              simp only at h
              split at h
              · rename_i hc
                simp only [Bool.and_eq_true, decide_eq_true_eq] at hc
                simp only [Option.some.injEq] at h; subst h
                rw [knownInt_sound hf hinv _ _ _ hc.1] at hxb
                simp only [Except.ok.injEq] at hxb; subst hxb
                cases xa <;> simp only [evalBinop, reduceCtorEq] at hv
                case int va =>
                  rw [intBinop_add_zero (evalOpnd_intOK hty hxa t va hc.2 rfl)] at hv
                  rw [hxa, hv]
              · split at h
                · rename_i hc
                  simp only [Bool.and_eq_true, decide_eq_true_eq] at hc
                  simp only [Option.some.injEq] at h; subst h
                  rw [knownInt_sound hf hinv _ _ _ hc.1] at hxa
                  simp only [Except.ok.injEq] at hxa; subst hxa
                  cases xb <;> simp only [evalBinop, reduceCtorEq] at hv
                  case int vb =>
                    rw [intBinop_zero_add (evalOpnd_intOK hty hxb t vb hc.2 rfl)] at hv
                    rw [hxb, hv]
                · simp at h
            case mul =>
              simp only at h
              split at h
              · rename_i hc
                simp only [Bool.and_eq_true, decide_eq_true_eq] at hc
                simp only [Option.some.injEq] at h; subst h
                rw [knownInt_sound hf hinv _ _ _ hc.1] at hxb
                simp only [Except.ok.injEq] at hxb; subst hxb
                cases xa <;> simp only [evalBinop, reduceCtorEq] at hv
                case int va =>
                  rw [intBinop_mul_one (evalOpnd_intOK hty hxa t va hc.2 rfl)] at hv
                  rw [hxa, hv]
              · simp at h

/-- a justified replacement operand has the value of the operand it replaces -/
theorem justB_sound {ctx : Ctx} {f : Func} {T : DomTab} (hf : SSAFacts f T) {ty : Bool} {u : Pos} {env : Env}
    (hinv : InvAt ctx f T u env) (hty : ty = true → TyInv f env) (hlas : ty = true → LasAt ctx f T u env) :
    ∀ (n : Nat) (o o' : Operand), justB f T ty u n o o' = true → evalOpnd ctx env o' = evalOpnd ctx env o
  | 0, o, o', h => by
    simp only [justB, beq_iff_eq] at h; rw [h]
  | n + 1, o, o', h => by
    simp only [justB, Bool.or_eq_true, beq_iff_eq, Bool.and_eq_true] at h
    rcases h with (((h | h) | h) | h) | h
    · rw [h]
    · obtain ⟨hT, h⟩ := h
      cases hc : copyOf f T u (n + 1) o with
      | none => simp [hc] at h
      | some a =>
        simp only [hc] at h
        rw [justB_sound hf hinv hty hlas n a o' h, copyOf_sound hf hinv (hty hT) hc]
    · obtain ⟨hT, h⟩ := h
      cases hl : loadOfOp f T u o with
      | none => simp [hl] at h
      | some v =>
        simp only [hl] at h
        cases o with
        | glob g => simp [loadOfOp] at hl
        | loc x =>
          simp only [loadOfOp] at hl
          rw [justB_sound hf hinv hty hlas n v o' h, hlas hT x v hl]
    · cases h1 : knownInt f T u (n + 1) o with
      | none => simp [h1] at h
      | some v =>
        cases h2 : knownInt f T u (n + 1) o' with
        | none => simp [h1, h2] at h
        | some v' =>
          simp only [h1, h2, beq_iff_eq] at h; subst h
          rw [knownInt_sound hf hinv _ _ _ h1, knownInt_sound hf hinv _ _ _ h2]
    · cases o <;> cases o' <;> try (simp at h; done)
      case loc.loc x y =>
        cases hpx : defPos f x with
        | none => simp [hpx] at h
        | some px =>
          cases hpy : defPos f y with
          | none => simp [hpx, hpy] at h
          | some py =>
            simp only [hpx, hpy, Bool.and_eq_true] at h
            obtain ⟨⟨hsx, hsy⟩, h⟩ := h
            obtain ⟨ix, hix, hdx⟩ := defPos_spec hf hpx
            obtain ⟨iy, hiy, hdy⟩ := defPos_spec hf hpy
            simp only [hix, hiy] at h
            cases ix <;> try (simp at h; done)
            case const d ty c =>
              cases iy <;> try (simp at h; done)
              case const d' ty' c' =>
                simp only [Bool.and_eq_true, beq_iff_eq] at h
                obtain ⟨rfl, rfl⟩ := h
                simp only [dstName, Instr.dst?, Option.map, Option.some.injEq] at hdx hdy; subst hdx hdy
                obtain ⟨w, hw, hget⟩ := (hinv px _ hix rfl hsx).const
                obtain ⟨w', hw', hget'⟩ := (hinv py _ hiy rfl hsy).const
                rw [hw] at hw'; simp only [Except.ok.injEq] at hw'; subst hw'
                rw [evalOpnd_loc hget, evalOpnd_loc hget']
            case binop d ty op a b =>
              cases iy <;> try (simp at h; done)
              case binop d' ty' op' a' b' =>
                simp only [Bool.and_eq_true, beq_iff_eq] at h
                obtain ⟨⟨⟨rfl, rfl⟩, ha⟩, hb⟩ := h
                simp only [dstName, Instr.dst?, Option.map, Option.some.injEq] at hdx hdy; subst hdx hdy
                obtain ⟨x1, y1, w, hx, hy, hw, hget⟩ := (hinv px _ hix rfl hsx).binop
                obtain ⟨x2, y2, w', hx', hy', hw', hget'⟩ := (hinv py _ hiy rfl hsy).binop
                rw [justB_sound hf hinv hty hlas n a a' ha, hx] at hx'
                rw [justB_sound hf hinv hty hlas n b b' hb, hy] at hy'
                simp only [Except.ok.injEq] at hx' hy'; subst hx' hy'
                rw [hw] at hw'; simp only [Except.ok.injEq] at hw'; subst hw'
                rw [evalOpnd_loc hget, evalOpnd_loc hget']


/-! ### static relation -/

inductive InstrsSub (f : Func) (T : DomTab) (ty : Bool) (bn : String) : Nat → List Instr → List Instr → Prop
  | nil {k : Nat} : InstrsSub f T ty bn k [] []
  | cons {k : Nat} {i i' : Instr} {r r' : List Instr} : instrOk f T ty (bn, k) i i' = true →
      InstrsSub f T ty bn (k + 1) r r' → InstrsSub f T ty bn k (i :: r) (i' :: r')

inductive BlocksSub (f : Func) (T : DomTab) (ty : Bool) : List Block → List Block → Prop
  | nil : BlocksSub f T ty [] []
  | cons {b b' : Block} {bs bs' : List Block} : b'.name = b.name → InstrsSub f T ty b.name 0 b.instrs b'.instrs →
      BlocksSub f T ty bs bs' → BlocksSub f T ty (b :: bs) (b' :: bs')

structure FnSub (ty : Bool) (f f' : Func) : Prop where
  name : f'.name = f.name
  params : f'.params = f.params
  ret : f'.ret = f.ret
  entry : f'.entry = f.entry
  facts : SSAFacts f (computeDoms f)
  blocks : BlocksSub f (computeDoms f) ty f.blocks f'.blocks

inductive FuncsSub (ty : Bool) : List Func → List Func → Prop
  | nil : FuncsSub ty [] []
  | cons {f f' : Func} {fs fs' : List Func} : FnSub ty f f' → FuncsSub ty fs fs' → FuncsSub ty (f :: fs) (f' :: fs')

structure ModSub (m m' : Module) : Prop where
  externs : m'.externs = m.externs
  vars : m'.vars = m.vars
  funcs : FuncsSub (tyModule m) m.funcs m'.funcs

theorem instrsOk_sound (f : Func) (T : DomTab) (ty : Bool) (bn : String) : ∀ (k : Nat) (l l' : List Instr),
    instrsOk f T ty bn k l l' = true → InstrsSub f T ty bn k l l'
  | _, [], [], _ => .nil
  | k, i :: r, i' :: r', h => by
    simp only [instrsOk, Bool.and_eq_true] at h
    exact .cons h.1 (instrsOk_sound f T ty bn (k + 1) r r' h.2)
  | _, [], _ :: _, h => by simp [instrsOk] at h
  | _, _ :: _, [], h => by simp [instrsOk] at h

theorem blocksOk_sound (f : Func) (T : DomTab) (ty : Bool) : ∀ (bs bs' : List Block), blocksOk f T ty bs bs' = true → BlocksSub f T ty bs bs'
  | [], [], _ => .nil
  | b :: bs, b' :: bs', h => by
    simp only [blocksOk, Bool.and_eq_true, decide_eq_true_eq] at h
    exact .cons h.1.1.symm (instrsOk_sound f T ty _ _ _ _ h.1.2) (blocksOk_sound f T ty bs bs' h.2)
  | [], _ :: _, h => by simp [blocksOk] at h
  | _ :: _, [], h => by simp [blocksOk] at h

theorem checkSubstFn_sound {ty : Bool} {f f' : Func} (h : checkSubstFn ty f f' = true) : FnSub ty f f' := by
  simp only [checkSubstFn, Bool.and_eq_true, decide_eq_true_eq] at h
  exact ⟨h.1.1.1.1.1.symm, h.1.1.1.1.2.symm, h.1.1.1.2.symm, h.1.1.2.symm, ssaCheck_facts h.1.2, blocksOk_sound _ _ _ _ _ h.2⟩

theorem funcsSubst_sound (ty : Bool) : ∀ (fs fs' : List Func), funcsSubst ty fs fs' = true → FuncsSub ty fs fs'
  | [], [], _ => .nil
  | f :: fs, f' :: fs', h => by
    simp only [funcsSubst, Bool.and_eq_true] at h
    exact .cons (checkSubstFn_sound h.1) (funcsSubst_sound ty fs fs' h.2)
  | [], _ :: _, h => by simp [funcsSubst] at h
  | _ :: _, [], h => by simp [funcsSubst] at h

theorem checkSubst_modSub {m m' : Module} (h : checkSubst m m' = true) : ModSub m m' := by
  simp only [checkSubst, Bool.and_eq_true, decide_eq_true_eq] at h
  exact ⟨h.1.1.symm, h.1.2.symm, funcsSubst_sound _ _ _ h.2⟩

theorem ModSub.modFacts {m m' : Module} (h : ModSub m m') : ModFacts m := by
  intro f hf
  have : ∀ {fs fs' : List Func}, FuncsSub (tyModule m) fs fs' → ∀ f ∈ fs, SSAFacts f (computeDoms f) := by
    intro fs fs' hr
    induction hr with
    | nil => intro f hf; simp at hf
    | cons hfs _ ih =>
      intro f hf
      rcases List.mem_cons.1 hf with rfl | hf
      · exact hfs.facts
      · exact ih f hf
  exact this h.funcs f hf

/-! ### what `instrOk` means -/

/-- the instruction `i'` is `i` with operands replaced by operands of equal value (at the given points) -/
def SubAtG (ctx : Ctx) (f : Func) (T : DomTab) (ty : Bool) (u : Pos) (i i' : Instr) : Prop :=
  ∃ g : Operand → Operand, i' = mapOps g i ∧ calleeSame i (mapOps g i) = true ∧
    (∀ env, InvAt ctx f T u env → (ty = true → TyInv f env) → (ty = true → LasAt ctx f T u env) →
      ∀ o ∈ i.uses, evalOpnd ctx env (g o) = evalOpnd ctx env o) ∧
    (∀ p ∈ i.phiIns, ∀ env, InvAt ctx f T (p.1, endIdx f p.1) env → (ty = true → TyInv f env) →
      (ty = true → LasAt ctx f T (p.1, endIdx f p.1) env) → evalOpnd ctx env (g p.2) = evalOpnd ctx env p.2)

/-- `i` is a conditional jump on two integers that are known at `u`, `i'` the jump it takes -/
def CjAt (ctx : Ctx) (f : Func) (T : DomTab) (u : Pos) (i i' : Instr) : Prop :=
  ∃ a c b yes no va vb, i = .cjump a c b yes no ∧ i' = .jump (if condInt c va vb then yes else no) ∧
    ∀ env, InvAt ctx f T u env → evalOpnd ctx env a = .ok (.int va) ∧ evalOpnd ctx env b = .ok (.int vb)

/-- `i` and `i'` are both (non-phi, non-control) binops with the same effect whenever `i` executes without error -/
def ChainAt (ctx : Ctx) (f : Func) (T : DomTab) (u : Pos) (i i' : Instr) : Prop :=
  (∃ d t op a b d' t' op' a' b', i = .binop d t op a b ∧ i' = .binop d' t' op' a' b') ∧
  ∀ env, InvAt ctx f T u env → ∀ fname mem p, effect ctx fname mem env i = some (.ok p) →
    effect ctx fname mem env i' = some (.ok p)

def SubAt (ctx : Ctx) (f : Func) (T : DomTab) (ty : Bool) (u : Pos) (i i' : Instr) : Prop :=
  SubAtG ctx f T ty u i i' ∨ CjAt ctx f T u i i' ∨ ChainAt ctx f T u i i'

theorem chain_arith (t : ITy) (op : BinOp) (hop : op = .add ∨ op = .sub) (n k1 k2 k3 : Int)
    (hk : Spec.IRArith.wrap t (k1 + k2) = Spec.IRArith.wrap t k3) {v1 v : Val}
    (h1 : intBinop t op n k1 = .ok v1) (h2 : evalBinop cfg (.int t) op v1 (.int k2) = .ok v) :
    evalBinop cfg (.int t) op (.int n) (.int k3) = .ok v := by
  rcases hop with rfl | rfl
  · simp only [intBinop, BinOp.arith?, Spec.IRArith.binop, Except.ok.injEq] at h1; subst h1
    simp only [evalBinop, intBinop, BinOp.arith?, Spec.IRArith.binop, Except.ok.injEq] at h2 ⊢; subst h2
    rw [Proofs.IRArith.wrap_add_wrap_left, ← Proofs.IRArith.wrap_add_wrap_right t n k3, ← hk,
      Proofs.IRArith.wrap_add_wrap_right, Int.add_assoc]
  · simp only [intBinop, BinOp.arith?, Spec.IRArith.binop, Except.ok.injEq] at h1; subst h1
    simp only [evalBinop, intBinop, BinOp.arith?, Spec.IRArith.binop, Except.ok.injEq] at h2 ⊢; subst h2
    rw [Proofs.IRArith.wrap_sub_wrap_left, ← Proofs.IRArith.wrap_sub_wrap_right t n k3, ← hk,
      Proofs.IRArith.wrap_sub_wrap_right, Int.sub_sub]

theorem chainFold_sound {ctx : Ctx} {f : Func} {T : DomTab} (hf : SSAFacts f T) {u : Pos} {i i' : Instr} {fuel : Nat}
    (h : chainFold f T u fuel i i' = true) : ChainAt ctx f T u i i' := by
  cases i <;> try (simp [chainFold] at h; done)
  case binop d ty op tt c2 =>
    cases i' <;> try (simp [chainFold] at h; done)
    case binop d' ty' op' y c3 =>
      refine ⟨⟨_, _, _, _, _, _, _, _, _, _, rfl, rfl⟩, ?_⟩
      cases ty <;> try (simp [chainFold] at h; done)
      cases ty' <;> try (simp [chainFold] at h; done)
      rename_i t t'
      simp only [chainFold, Bool.and_eq_true, decide_eq_true_eq, Bool.or_eq_true] at h
      obtain ⟨⟨⟨⟨rfl, rfl⟩, rfl⟩, hop⟩, h⟩ := h
      cases tt with
      | glob g => simp at h
      | loc x =>
        simp only at h
        cases hp : defPos f x with
        | none => simp [hp] at h
        | some pt =>
          simp only [hp, Bool.and_eq_true] at h
          obtain ⟨hs, h⟩ := h
          obtain ⟨j, hj, hdx⟩ := defPos_spec hf hp
          simp only [hj] at h
          cases j <;> try (simp at h; done)
          case binop d1 ty1 op1 y1 c1 =>
            simp only [dstName, Instr.dst?, Option.map, Option.some.injEq] at hdx; subst hdx
            cases ty1 <;> try (simp at h; done)
            rename_i t1
            simp only [Bool.and_eq_true, decide_eq_true_eq] at h
            obtain ⟨⟨⟨rfl, rfl⟩, rfl⟩, h⟩ := h
            cases h1 : knownInt f T u fuel c1 with
            | none => simp [h1] at h
            | some k1 =>
              cases h2 : knownInt f T u fuel c2 with
              | none => simp [h1, h2] at h
              | some k2 =>
                cases h3 : knownInt f T u fuel c3 with
                | none => simp [h1, h2, h3] at h
                | some k3 =>
                  simp only [h1, h2, h3, beq_iff_eq] at h
                  intro env hinv fname mem p he
                  obtain ⟨xy, x1, vt, hxy, hx1, hvt, hget⟩ := (hinv pt _ hj rfl hs).binop
                  rw [knownInt_sound hf hinv _ _ _ h1] at hx1
                  simp only [Except.ok.injEq] at hx1; subst hx1
                  simp only [effect, Option.some.injEq, bind, Except.bind, pure, Except.pure,
                    evalOpnd_loc hget, knownInt_sound hf hinv _ _ _ h2, knownInt_sound hf hinv _ _ _ h3, hxy] at he ⊢
                  cases xy <;> try (simp [evalBinop] at hvt; done)
                  rename_i ny
                  simp only [evalBinop] at hvt
                  cases hv : evalBinop ctx.cfg (.int t1) op1 vt (.int k2) with
                  | error e => simp [hv] at he
                  | ok v =>
                    simp only [hv] at he
                    rw [chain_arith t1 op1 hop ny k1 k2 k3 h hvt hv]
                    exact he


theorem instrOk_subAt {ctx : Ctx} {f : Func} {T : DomTab} (hf : SSAFacts f T) {ty : Bool} {u : Pos} {i i' : Instr}
    (h : instrOk f T ty u i i' = true) : SubAt ctx f T ty u i i' := by
  simp only [instrOk, Bool.or_eq_true, decide_eq_true_eq, Bool.and_eq_true, List.all_eq_true] at h
  rcases h with ((rfl | hcj) | hch) | ⟨⟨⟨h1, h0⟩, h2⟩, h3⟩
  case inl.inr => exact .inr (.inr (chainFold_sound hf hch))
  · exact .inl ⟨id, (mapOps_id i).symm, by rw [mapOps_id]; cases i <;> simp [calleeSame],
      fun _ _ _ _ _ _ => rfl, fun _ _ _ _ _ _ => rfl⟩
  · right; left
    cases i <;> try (simp [cjFold] at hcj; done)
    case cjump a c b yes no =>
      cases i' <;> try (simp [cjFold] at hcj; done)
      case jump t =>
        simp only [cjFold] at hcj
        cases ha : knownInt f T u (justFuel f) a with
        | none => simp [ha] at hcj
        | some va =>
          cases hb : knownInt f T u (justFuel f) b with
          | none => simp [ha, hb] at hcj
          | some vb =>
            simp only [ha, hb, beq_iff_eq] at hcj
            exact ⟨a, c, b, yes, no, va, vb, rfl, by rw [hcj],
              fun env hinv => ⟨knownInt_sound hf hinv _ _ _ ha, knownInt_sound hf hinv _ _ _ hb⟩⟩
  · exact .inl ⟨_, h1, h1 ▸ h0, fun env hinv hty hlas o ho => justB_sound hf hinv hty hlas _ _ _ (h2 o ho),
      fun p hp env hinv hty hlas => justB_sound hf hinv hty hlas _ _ _ (h3 p hp)⟩

theorem instrsSub_length {f : Func} {T : DomTab} {ty : Bool} {bn : String} : ∀ {k : Nat} {l l' : List Instr},
    InstrsSub f T ty bn k l l' → l'.length = l.length
  | _, _, _, .nil => rfl
  | _, _, _, .cons _ h => by simp [instrsSub_length h]

theorem instrsSub_drop {f : Func} {T : DomTab} {ty : Bool} {bn : String} : ∀ {k0 : Nat} {l l' : List Instr},
    InstrsSub f T ty bn k0 l l' → ∀ (k : Nat) {i : Instr} {r : List Instr}, l.drop k = i :: r →
      ∃ i' r', l'.drop k = i' :: r' ∧ instrOk f T ty (bn, k0 + k) i i' = true ∧ l'.length = l.length
  | _, _, _, .nil, k, i, r, h => by simp at h
  | k0, _, _, .cons (i := j) (i' := j') (r := rr) (r' := rr') hok hrest, 0, i, r, h => by
    simp only [List.drop_zero, List.cons.injEq] at h
    obtain ⟨rfl, rfl⟩ := h
    have hlen : rr'.length = rr.length := instrsSub_length hrest
    exact ⟨j', rr', rfl, by simpa using hok, by simp [hlen]⟩
  | k0, _, _, .cons hok hrest, k + 1, i, r, h => by
    simp only [List.drop_succ_cons] at h
    obtain ⟨i', r', h1, h2, h3⟩ := instrsSub_drop hrest k h
    refine ⟨i', r', by simpa using h1, ?_, by simp [h3]⟩
    have e : k0 + 1 + k = k0 + (k + 1) := by omega
    rw [← e]; exact h2

theorem findBlock_sub {f : Func} {T : DomTab} {ty : Bool} : ∀ {bs bs' : List Block}, BlocksSub f T ty bs bs' → ∀ (n : String),
    (bs.find? (·.name = n) = none → bs'.find? (·.name = n) = none) ∧
    (∀ b, bs.find? (·.name = n) = some b → ∃ b', bs'.find? (·.name = n) = some b' ∧ InstrsSub f T ty b.name 0 b.instrs b'.instrs)
  | _, _, .nil, n => by simp
  | _, _, .cons (b := b) (b' := b') hn ha hr, n => by
    have ih := findBlock_sub hr n
    by_cases hb : b.name = n
    · simp [List.find?, hb, hn]; exact hb ▸ ha
    · simp only [List.find?, hb, hn, decide_false]; exact ih

theorem findFunc_sub {ty : Bool} : ∀ {fs fs' : List Func}, FuncsSub ty fs fs' → ∀ (n : String),
    (fs.find? (·.name = n) = none → fs'.find? (·.name = n) = none) ∧
    (∀ f, fs.find? (·.name = n) = some f → ∃ f', fs'.find? (·.name = n) = some f' ∧ FnSub ty f f')
  | _, _, .nil, n => by simp
  | _, _, .cons (f := f) (f' := f') hf hr, n => by
    have ih := findFunc_sub hr n
    by_cases hb : f.name = n
    · simp [List.find?, hb, hf.name]; exact hf
    · simp only [List.find?, hb, hf.name, decide_false]; exact ih


/-! ### layout -/

/-- `instrOk` does not create, remove or change `literal` instructions (and anything else a function `lit`
    sees that is invariant under operand renaming and blind to jumps) -/
theorem instrOk_lit {α : Type} {f : Func} {T : DomTab} {ty : Bool} {u : Pos} {i i' : Instr} (lit : Instr → Option α)
    (hlit : ∀ g i, lit (mapOps g i) = lit i) (hj : ∀ t, lit (.jump t) = none)
    (hc : ∀ a c b y n, lit (.cjump a c b y n) = none) (hb : ∀ d t op a b, lit (.binop d t op a b) = none)
    (h : instrOk f T ty u i i' = true) : lit i' = lit i := by
  simp only [instrOk, Bool.or_eq_true, decide_eq_true_eq, Bool.and_eq_true] at h
  rcases h with ((rfl | hcj) | hch) | ⟨⟨⟨h1, _⟩, _⟩, _⟩
  case inl.inr =>
    cases i <;> try (simp [chainFold] at hch; done)
    cases i' <;> try (simp [chainFold] at hch; done)
    rw [hb, hb]
  · rfl
  · cases i <;> try (simp [cjFold] at hcj; done)
    cases i' <;> try (simp [cjFold] at hcj; done)
    rw [hj, hc]
  · rw [h1, hlit]

theorem filterMap_sub {α : Type} {f : Func} {T : DomTab} {ty : Bool} {bn : String} (lit : Instr → Option α)
    (hlit : ∀ g i, lit (mapOps g i) = lit i) (hj : ∀ t, lit (.jump t) = none)
    (hc : ∀ a c b y n, lit (.cjump a c b y n) = none) (hb : ∀ d t op a b, lit (.binop d t op a b) = none) :
    ∀ {k : Nat} {l l' : List Instr}, InstrsSub f T ty bn k l l' → l'.filterMap lit = l.filterMap lit
  | _, _, _, .nil => rfl
  | _, _, _, .cons hok h => by
    simp only [List.filterMap_cons, instrOk_lit lit hlit hj hc hb hok, filterMap_sub lit hlit hj hc hb h]

theorem blockLits_sub {f : Func} {T : DomTab} {ty : Bool} (fname : String) : ∀ {bs bs' : List Block}, BlocksSub f T ty bs bs' →
    (bs'.flatMap fun b => b.instrs.filterMap fun
      | .literal d data => some (fname, d, data)
      | _ => none) =
    (bs.flatMap fun b => b.instrs.filterMap fun
      | .literal d data => some (fname, d, data)
      | _ => none)
  | _, _, .nil => rfl
  | _, _, .cons _ ha hr => by
    simp only [List.flatMap_cons]
    rw [blockLits_sub fname hr, filterMap_sub _ (by intro g i; cases i <;> rfl) (by intros; rfl) (by intros; rfl) (by intros; rfl) ha]

theorem literals_sub {ty : Bool} : ∀ {fs fs' : List Func}, FuncsSub ty fs fs' →
    (fs'.flatMap fun f => f.blocks.flatMap fun b => b.instrs.filterMap fun
      | .literal d data => some (f.name, d, data)
      | _ => none) =
    (fs.flatMap fun f => f.blocks.flatMap fun b => b.instrs.filterMap fun
      | .literal d data => some (f.name, d, data)
      | _ => none)
  | _, _, .nil => rfl
  | _, _, .cons hf hr => by
    simp only [List.flatMap_cons]
    rw [literals_sub hr, hf.name, blockLits_sub _ hf.blocks]

theorem funcNames_sub {ty : Bool} : ∀ {fs fs' : List Func}, FuncsSub ty fs fs' → fs'.map (·.name) = fs.map (·.name)
  | _, _, .nil => rfl
  | _, _, .cons hf hr => by simp only [List.map_cons, funcNames_sub hr, hf.name]

theorem ModSub.literals {m m' : Module} (h : ModSub m m') : m'.literals = m.literals := literals_sub h.funcs

theorem ModSub.layout {m m' : Module} (h : ModSub m m') (cfg : Config) : mkLayout cfg m' = mkLayout cfg m := by
  simp only [mkLayout, h.literals, h.vars, Module.codeNames, funcNames_sub h.funcs, h.externs]

theorem ModSub.initGlob {m m' : Module} (h : ModSub m m') (cfg : Config) (l : Layout) :
    initGlob cfg m' l = initGlob cfg m l := by
  simp only [Spec.IR.initGlob, h.literals, h.vars]

structure CtxSub (ctx ctx' : Ctx) : Prop where
  cfg : ctx'.cfg = ctx.cfg
  layout : ctx'.layout = ctx.layout
  oracle : ctx'.oracle = ctx.oracle
  mod : ModSub ctx.mod ctx'.mod

theorem mkCtx_sub {m m' : Module} (h : ModSub m m') (cfg : Config) (oracle : Oracle) :
    CtxSub (mkCtx cfg m oracle) (mkCtx cfg m' oracle) := ⟨rfl, h.layout cfg, rfl, h⟩

theorem evalOpnd_ctx {ctx ctx' : Ctx} (hlay : ctx'.layout = ctx.layout) (env : Env) (o : Operand) :
    evalOpnd ctx' env o = evalOpnd ctx env o := by
  cases o <;> simp only [evalOpnd, hlay]

/-! ### phi values -/

theorem lookupStr_map {α β : Type} (g : α → β) : ∀ (l : List (String × α)) (k : String),
    lookupStr (l.map fun p => (p.1, g p.2)) k = (lookupStr l k).map g
  | [], _ => rfl
  | (y, v) :: r, k => by
    simp only [List.map, lookupStr]
    by_cases h : k = y
    · simp [h]
    · simp [h, lookupStr_map g r k]

theorem mapOps_isPhi (g : Operand → Operand) (i : Instr) : (mapOps g i).isPhi = i.isPhi := by
  cases i <;> rfl

theorem phiValues_sub {ctx ctx' : Ctx} (hlay : ctx'.layout = ctx.layout) {f : Func} {T : DomTab} (hf : SSAFacts f T)
    {ty : Bool} {pred : String} {env : Env} (hinv : InvAt ctx f T (pred, endIdx f pred) env)
    (hty : ty = true → TyInv f env) (hlas : ty = true → LasAt ctx f T (pred, endIdx f pred) env) {bn : String} :
    ∀ {k : Nat} {l l' : List Instr}, InstrsSub f T ty bn k l l' → phiValues ctx' env pred l' = phiValues ctx env pred l
  | _, _, _, .nil => rfl
  | _, _, _, .cons (i := i) (r := r) (r' := r') hok hrest => by
    have ih := phiValues_sub hlay hf hinv hty hlas hrest
    rcases instrOk_subAt (ctx := ctx) hf hok with ⟨g, rfl, _, _, hphi⟩ | ⟨a, c, b, yes, no, va, vb, rfl, rfl, _⟩ |
      ⟨⟨_, _, _, _, _, _, _, _, _, _, rfl, rfl⟩, _⟩
    case inr.inl =>
      rw [phiValues_nonphi _ _ _ _ rfl, phiValues_nonphi _ _ _ _ rfl]; exact ih
    case inr.inr =>
      rw [phiValues_nonphi _ _ _ _ rfl, phiValues_nonphi _ _ _ _ rfl]; exact ih
    cases hp : i.isPhi with
    | false =>
      rw [phiValues_nonphi _ _ _ _ hp, phiValues_nonphi _ _ _ _ (by rw [mapOps_isPhi]; exact hp)]
      exact ih
    | true =>
      obtain ⟨d, ty, ins, rfl⟩ := removable_not_phi_or hp
      simp only [mapOps, phiValues, lookupStr_map]
      cases hl : lookupStr ins pred with
      | none => simp
      | some o =>
        simp only [Option.map]
        have := hphi (pred, o) (by simp [Instr.phiIns]; exact lookupStr_mem hl) env hinv hty hlas
        simp only at this
        rw [evalOpnd_ctx hlay, this, ih]


/-! ### dynamic relation -/

structure FrSub (ty : Bool) (fr fr' : Frame) : Prop where
  fn : FnSub ty fr.fn fr'.fn
  cur : fr'.cur = fr.cur
  env : fr'.env = fr.env
  sp : fr'.spSave = fr.spSave
  retTo : fr'.retTo = fr.retTo
  rest : ∃ b b' k, fr.fn.findBlock fr.cur = some b ∧ fr'.fn.findBlock fr.cur = some b' ∧
    fr.rest = b.instrs.drop k ∧ fr'.rest = b'.instrs.drop k

inductive FramesSub (ty : Bool) : List Frame → List Frame → Prop
  | nil : FramesSub ty [] []
  | cons {c c' : Frame} {cs cs' : List Frame} : FrSub ty c c' → FramesSub ty cs cs' → FramesSub ty (c :: cs) (c' :: cs')

structure StSub (ty : Bool) (s s' : State) : Prop where
  mem : s'.mem = s.mem
  trace : s'.trace = s.trace
  top : FrSub ty s.top s'.top
  callers : FramesSub ty s.callers s'.callers

def ResSub (ty : Bool) : StepR → StepR → Prop
  | .next t, .next t' => StSub ty t t'
  | .done o, .done o' => o' = o
  | _, _ => False

theorem finalGlobals_sub {ctx ctx' : Ctx} (hc : CtxSub ctx ctx') (mem : Mem) :
    finalGlobals ctx' mem = finalGlobals ctx mem := by
  simp only [finalGlobals, hc.cfg, hc.layout, hc.mod.vars]

theorem doReturn_sub {ctx ctx' : Ctx} (hc : CtxSub ctx ctx') {ty : Bool} {s s' : State} (hs : StSub ty s s') (v : Option Val)
    {R : StepR} (h : doReturn ctx s v = .ok R) : ∃ R', doReturn ctx' s' v = .ok R' ∧ ResSub ty R R' := by
  obtain ⟨mem, top, callers, trace⟩ := s
  obtain ⟨mem', top', callers', trace'⟩ := s'
  obtain ⟨hmem, htr, htop, hcs⟩ := hs
  simp only at hmem htr htop hcs
  subst hmem htr
  cases hcs with
  | nil =>
    simp only [doReturn, htop.sp, finalGlobals_sub hc] at h ⊢
    split at h
    · simp at h
    · simp only [Except.ok.injEq] at h; subst h
      exact ⟨_, rfl, rfl⟩
  | cons hcc hcs =>
    rename_i c c' cs cs'
    simp only [doReturn, htop.sp, htop.retTo] at h ⊢
    cases hrt : top.retTo with
    | none =>
      simp only [hrt, Except.ok.injEq] at h ⊢; subst h
      exact ⟨_, rfl, ⟨rfl, rfl, hcc, hcs⟩⟩
    | some d =>
      cases v with
      | none => simp [hrt] at h
      | some x =>
        simp only [hrt, Except.ok.injEq] at h ⊢; subst h
        refine ⟨_, rfl, ?_⟩
        refine ⟨rfl, rfl, ⟨hcc.fn, hcc.cur, by simp only [hcc.env], hcc.sp, hcc.retTo, hcc.rest⟩, hcs⟩

theorem enterBlock_sub {ctx ctx' : Ctx} (hc : CtxSub ctx ctx') {ty : Bool} {fr fr' : Frame}
    (hfn : FnSub ty fr.fn fr'.fn) (hcur : fr'.cur = fr.cur) (henv : fr'.env = fr.env)
    (hsp : fr'.spSave = fr.spSave) (hrt : fr'.retTo = fr.retTo)
    (hinv : InvAt ctx fr.fn (computeDoms fr.fn) (fr.cur, endIdx fr.fn fr.cur) fr.env)
    (hty : ty = true → TyInv fr.fn fr.env)
    (hlas : ty = true → LasAt ctx fr.fn (computeDoms fr.fn) (fr.cur, endIdx fr.fn fr.cur) fr.env)
    (t : String) {nf : Frame} (h : enterBlock ctx fr t = .ok nf) :
    ∃ nf', enterBlock ctx' fr' t = .ok nf' ∧ FrSub ty nf nf' := by
  simp only [enterBlock, Func.findBlock] at h ⊢
  have hfb := findBlock_sub hfn.blocks t
  cases hb : fr.fn.blocks.find? (·.name = t) with
  | none => simp [hb] at h
  | some b =>
    obtain ⟨b', hb', hal⟩ := hfb.2 b hb
    simp only [hb, hb'] at h ⊢
    rw [hcur, henv, phiValues_sub hc.layout hfn.facts hinv hty hlas hal]
    cases hv : phiValues ctx fr.env fr.cur b.instrs with
    | error e => simp [hv, bind, Except.bind] at h
    | ok vals =>
      simp only [hv, bind, Except.bind, pure, Except.pure, Except.ok.injEq] at h
      subst h
      refine ⟨{ fr' with cur := t, rest := b'.instrs, env := fr.env.setMany vals },
        by simp only [bind, Except.bind, pure, Except.pure], ?_⟩
      exact ⟨hfn, rfl, rfl, hsp, hrt, b, b', 0, hb, hb', by simp, by simp⟩

theorem newFrame_sub {cfg : Config} {ty : Bool} {f f' : Func} (hfn : FnSub ty f f')
    (args : List Val) (sp : Nat) (rt : Option String) {fr : Frame}
    (h : newFrame cfg f args sp rt = .ok fr) : ∃ fr', newFrame cfg f' args sp rt = .ok fr' ∧ FrSub ty fr fr' := by
  simp only [newFrame, Func.findBlock, hfn.params, hfn.entry] at h ⊢
  have hfb := findBlock_sub hfn.blocks f.entry
  cases hp : bindParams cfg f.params args with
  | none => simp [hp] at h
  | some env =>
    cases hb : f.blocks.find? (·.name = f.entry) with
    | none => simp [hp, hb] at h
    | some b =>
      obtain ⟨b', hb', hal⟩ := hfb.2 b hb
      simp only [hp, hb, Except.ok.injEq] at h
      subst h
      exact ⟨{ fn := f', cur := f.entry, rest := b'.instrs, env := env, spSave := sp, retTo := rt },
        by simp only [hp, hb'], ⟨hfn, rfl, rfl, rfl, rfl, b, b', 0, hb, hb', by simp, by simp⟩⟩

theorem callNamed_sub {ctx ctx' : Ctx} (hc : CtxSub ctx ctx') {s s' : State} (hmem : s'.mem = s.mem)
    (htr : s'.trace = s.trace) (hcs : FramesSub (tyModule ctx.mod) s.callers s'.callers) {fr fr' : Frame}
    (hfr : FrSub (tyModule ctx.mod) fr fr') (dst : Option (String × Ty)) (name : String) (vs : List Val) {R : StepR}
    (h : callNamed ctx s fr dst name vs = .ok R) :
    ∃ R', callNamed ctx' s' fr' dst name vs = .ok R' ∧ ResSub (tyModule ctx.mod) R R' := by
  unfold callNamed at h ⊢
  have hff := findFunc_sub hc.mod.funcs name
  simp only [Module.findFunc] at h ⊢
  cases hf : ctx.mod.funcs.find? (·.name = name) with
  | some f =>
    obtain ⟨f', hf', hfn⟩ := hff.2 f hf
    simp only [hf, hf', hfn.ret] at h ⊢
    have push : ∀ (rt : Option String),
        (do let nf ← newFrame ctx.cfg f vs s.mem.stack.size rt
            pure (StepR.next { s with top := nf, callers := fr :: s.callers }) : Except Err StepR) = .ok R →
        ∃ R', (do let nf ← newFrame ctx'.cfg f' vs s'.mem.stack.size rt
                  pure (StepR.next { s' with top := nf, callers := fr' :: s'.callers }) : Except Err StepR) = .ok R' ∧
          ResSub (tyModule ctx.mod) R R' := by
      intro rt h2
      cases hnf : newFrame ctx.cfg f vs s.mem.stack.size rt with
      | error e => simp [hnf, bind, Except.bind] at h2
      | ok nf =>
        obtain ⟨nf', hnf', hrel⟩ := newFrame_sub hfn vs s.mem.stack.size rt hnf
        simp only [hnf, bind, Except.bind, pure, Except.pure, Except.ok.injEq] at h2
        subst h2
        refine ⟨.next { s' with top := nf', callers := fr' :: s'.callers },
          by simp only [hc.cfg, hmem, hnf', bind, Except.bind, pure, Except.pure], ?_⟩
        exact ⟨hmem, htr, hrel, .cons hfr hcs⟩
    cases hret : f.ret <;> cases dst <;> simp only [hret] at h ⊢
    · exact push _ h
    · simp [throw, throwThe, MonadExceptOf.throw] at h
    · exact push _ h
    · exact push _ h
  | none =>
    have hf' := hff.1 hf
    simp only [hf, hf', Module.findExtern, hc.mod.externs] at h ⊢
    cases he : ctx.mod.externs.find? (·.name = name) with
    | none => simp [he, throw, throwThe, MonadExceptOf.throw] at h
    | some e =>
      simp only [he] at h ⊢
      split at h
      · simp [throw, throwThe, MonadExceptOf.throw] at h
      · rename_i hun
        simp only [hun, Bool.false_eq_true, ↓reduceIte]
        split at h
        · simp only [pure, Except.pure, Except.ok.injEq] at h; subst h
          refine ⟨_, rfl, ?_⟩
          refine ⟨hmem, by simp only [htr, hc.cfg, hc.oracle], ?_, hcs⟩
          simp only [htr, hc.cfg, hc.oracle]
          exact ⟨hfr.fn, hfr.cur, by simp only [hfr.env], hfr.sp, hfr.retTo, hfr.rest⟩
        · simp only [pure, Except.pure, Except.ok.injEq] at h; subst h
          refine ⟨_, rfl, ?_⟩
          exact ⟨hmem, by simp only [htr, hc.cfg, hc.oracle], hfr, hcs⟩
        · simp only [pure, Except.pure, Except.ok.injEq] at h; subst h
          refine ⟨_, rfl, ?_⟩
          exact ⟨hmem, by simp only [htr], hfr, hcs⟩
        · simp [throw, throwThe, MonadExceptOf.throw] at h
        · simp [throw, throwThe, MonadExceptOf.throw] at h


/-! ### one step -/

theorem drop_len_inj {α : Type} {l : List α} {k k' : Nat} {x : α} {r : List α}
    (h : l.drop k = x :: r) (h' : l.drop k' = x :: r) : k = k' := by
  have e1 := congrArg List.length h
  have e2 := congrArg List.length h'
  simp only [List.length_drop, List.length_cons] at e1 e2
  omega

theorem subst_step {ctx ctx' : Ctx} (hc : CtxSub ctx ctx') {s s' : State} (hs : StSub (tyModule ctx.mod) s s')
    (hok : StateOK ctx s) (htyS : tyModule ctx.mod = true → TyStateOK ctx s)
    (hlasS : tyModule ctx.mod = true → LasStateOK ctx s)
    {R : StepR} (h : stepE ctx s = .ok R) : ∃ R', stepE ctx' s' = .ok R' ∧ ResSub (tyModule ctx.mod) R R' := by
  have htyI : tyModule ctx.mod = true → TyInv s.top.fn s.top.env := fun hT => (htyS hT).1.inv
  obtain ⟨hmem, htr, htop, hcs⟩ := hs
  obtain ⟨⟨hf, b0, k0, hb0, hrest0, hinv, _⟩, _⟩ := hok
  obtain ⟨hfn, hcur, henv, hsp, hrt, b, b', k, hb, hb', hrest, hrest'⟩ := htop
  cases hr : s.top.rest with
  | nil => rw [stepE_nil hr] at h; simp at h
  | cons i r =>
    rw [hb0] at hb; have := Option.some.inj hb; subst this
    rw [hr] at hrest hrest0
    have hk : k0 = k := drop_len_inj hrest0.symm hrest.symm
    subst hk
    obtain ⟨hik, hdrop, hklt⟩ := drop_eq_cons hrest.symm
    obtain ⟨hbm, hbn⟩ := findBlock_mem hb0
    have hlasI : tyModule ctx.mod = true → LasAt ctx s.top.fn (computeDoms s.top.fn) (s.top.cur, k0) s.top.env := by
      intro hT
      obtain ⟨⟨_, b1, k1, hb1, hrest1, hl1, _, _⟩, _⟩ := hlasS hT
      rw [hb0] at hb1; have := Option.some.inj hb1; subst this
      rw [hr] at hrest1
      have hk1 : k1 = k0 := drop_len_inj hrest1.symm hrest.symm
      subst hk1; exact hl1
    -- the transformed instruction
    have hsubB : InstrsSub s.top.fn (computeDoms s.top.fn) (tyModule ctx.mod) b0.name 0 b0.instrs b'.instrs := by
      obtain ⟨b2, hb2, hal⟩ := (findBlock_sub hfn.blocks s.top.cur).2 b0 hb0
      simp only [Func.findBlock] at hb'
      rw [hb'] at hb2; have := Option.some.inj hb2; subst this; exact hal
    obtain ⟨i', r', hdrop', hok', hlen⟩ := instrsSub_drop hsubB k0 hrest.symm
    rw [hdrop'] at hrest'
    obtain ⟨hik', hdropr', hklt'⟩ := drop_eq_cons hdrop'
    simp only [Nat.zero_add, hbn] at hok'
    rcases instrOk_subAt (ctx := ctx) hf hok' with hG | hC | hCh
    case inr.inr =>
      obtain ⟨⟨d, t, op, a, b1, d', t', op', a', b1', rfl, rfl⟩, hch⟩ := hCh
      have he : ∃ eff, effect ctx s.top.fn.name s.mem s.top.env (.binop d t op a b1) = some eff := ⟨_, rfl⟩
      obtain ⟨eff, he⟩ := he
      rw [stepE_effect hr he] at h
      cases eff with
      | error e => simp [Except.map] at h
      | ok p =>
        have he' : effect ctx' s'.top.fn.name s'.mem s'.top.env (.binop d' t' op' a' b1') = some (.ok p) := by
          have hcg := effect_congr hc.cfg hc.layout (i := .binop d' t' op' a' b1') (env := s.top.env) (env' := s'.top.env)
            id s.top.fn.name s.mem (fun o _ => by rw [henv]; exact evalOpnd_ctx hc.layout _ _)
          rw [mapOps_id] at hcg
          rw [hfn.name, hmem, hcg]
          exact hch s.top.env hinv _ _ p he
        rw [stepE_effect hrest' he']
        simp only [Except.map, Except.ok.injEq] at h ⊢
        subst h
        refine ⟨_, rfl, ?_⟩
        refine ⟨rfl, htr, ?_, hcs⟩
        refine ⟨hfn, hcur, ?_, hsp, hrt, b0, b', k0 + 1, hb0, hb', hdrop.symm, hdropr'.symm⟩
        simp only [applyEff, henv]
    case inr.inl =>
      obtain ⟨a, c, b2, yes, no, va, vb, rfl, rfl, hab⟩ := hC
      obtain ⟨ha, hb2⟩ := hab s.top.env hinv
      have hterm := terminator_is_last (hf.term b0 hbm) hik rfl
      have hend : endIdx s.top.fn s.top.cur = k0 := by simp only [endIdx, hb0]; omega
      rw [stepE_cjump hr, ha, hb2] at h
      rw [stepE_jump hrest']
      have hcond : evalCond c (.int va) (.int vb) = .ok (condInt c va vb) := by cases c <;> rfl
      simp only [hcond, bind, Except.bind] at h ⊢
      cases hbk : enterBlock ctx { s.top with rest := r } (if condInt c va vb then yes else no) with
      | error e => simp [hbk] at h
      | ok nf =>
        obtain ⟨nf', hbk', hrel⟩ := enterBlock_sub hc (fr := { s.top with rest := r })
          (fr' := { s'.top with rest := r' }) hfn hcur henv hsp hrt (by rw [hend]; exact hinv) htyI (by rw [hend]; exact hlasI) _ hbk
        simp only [hbk, pure, Except.pure, Except.ok.injEq] at h
        subst h
        exact ⟨.next { s' with top := nf' }, by simp only [hbk', pure, Except.pure],
          ⟨hmem, htr, hrel, hcs⟩⟩
    obtain ⟨g, rfl, hcallee, huses, hphis⟩ := hG
    have hops : ∀ o ∈ i.uses, evalOpnd ctx' s'.top.env (g o) = evalOpnd ctx s.top.env o := by
      intro o ho
      rw [henv, evalOpnd_ctx hc.layout]
      exact huses s.top.env hinv htyI hlasI o ho
    have hfrA : FrSub (tyModule ctx.mod) { s.top with rest := r } { s'.top with rest := r' } :=
      ⟨hfn, hcur, henv, hsp, hrt, b0, b', k0 + 1, hb0, hb', hdrop.symm, hdropr'.symm⟩
    cases he : effect ctx s.top.fn.name s.mem s.top.env i with
    | some eff =>
      have he' : effect ctx' s'.top.fn.name s'.mem s'.top.env (mapOps g i) = some eff := by
        rw [hfn.name, hmem, effect_congr hc.cfg hc.layout g s.top.fn.name s.mem hops, he]
      rw [stepE_effect hr he] at h
      rw [stepE_effect hrest' he']
      cases eff with
      | error e => simp [Except.map] at h
      | ok p =>
        simp only [Except.map, Except.ok.injEq] at h ⊢
        subst h
        refine ⟨_, rfl, ?_⟩
        refine ⟨rfl, htr, ?_, hcs⟩
        refine ⟨hfn, hcur, ?_, hsp, hrt, b0, b', k0 + 1, hb0, hb', hdrop.symm, hdropr'.symm⟩
        simp only [applyEff, henv]
    | none =>
      cases i <;> simp only [effect, reduceCtorEq] at he
      case jump t =>
        have hterm := terminator_is_last (hf.term b0 hbm) hik rfl
        have hend : endIdx s.top.fn s.top.cur = k0 := by simp only [endIdx, hb0]; omega
        simp only [mapOps] at hrest'
        rw [stepE_jump hr] at h
        rw [stepE_jump hrest']
        cases hbk : enterBlock ctx { s.top with rest := r } t with
        | error e => simp [hbk, bind, Except.bind] at h
        | ok nf =>
          obtain ⟨nf', hbk', hrel⟩ := enterBlock_sub hc (fr := { s.top with rest := r }) (fr' := { s'.top with rest := r' })
            hfn hcur henv hsp hrt (by rw [hend]; exact hinv) htyI (by rw [hend]; exact hlasI) t hbk
          simp only [hbk, bind, Except.bind, pure, Except.pure, Except.ok.injEq] at h
          subst h
          exact ⟨.next { s' with top := nf' }, by simp only [hbk', bind, Except.bind, pure, Except.pure],
            ⟨hmem, htr, hrel, hcs⟩⟩
      case cjump a c b2 yes no =>
        have hterm := terminator_is_last (hf.term b0 hbm) hik rfl
        have hend : endIdx s.top.fn s.top.cur = k0 := by simp only [endIdx, hb0]; omega
        simp only [mapOps] at hrest'
        rw [stepE_cjump hr] at h
        rw [stepE_cjump hrest', hops a (by simp [Instr.uses]), hops b2 (by simp [Instr.uses])]
        cases hx : evalOpnd ctx s.top.env a with
        | error e => simp [hx, bind, Except.bind] at h
        | ok x =>
          cases hy : evalOpnd ctx s.top.env b2 with
          | error e => simp [hx, hy, bind, Except.bind] at h
          | ok y =>
            cases ht : evalCond c x y with
            | error e => simp [hx, hy, ht, bind, Except.bind] at h
            | ok tv =>
              simp only [hx, hy, ht, bind, Except.bind] at h ⊢
              cases hbk : enterBlock ctx { s.top with rest := r } (if tv then yes else no) with
              | error e => simp [hbk] at h
              | ok nf =>
                obtain ⟨nf', hbk', hrel⟩ := enterBlock_sub hc (fr := { s.top with rest := r })
                  (fr' := { s'.top with rest := r' }) hfn hcur henv hsp hrt (by rw [hend]; exact hinv) htyI (by rw [hend]; exact hlasI) _ hbk
                simp only [hbk, pure, Except.pure, Except.ok.injEq] at h
                subst h
                exact ⟨.next { s' with top := nf' }, by simp only [hbk', pure, Except.pure],
                  ⟨hmem, htr, hrel, hcs⟩⟩
      case ret v =>
        simp only [mapOps] at hrest'
        rw [stepE_ret hr] at h
        rw [stepE_ret hrest', hfn.ret, hops v (by simp [Instr.uses])]
        cases hret : s.top.fn.ret with
        | none => simp [hret] at h
        | some rt =>
          simp only [hret] at h ⊢
          cases hx : evalOpnd ctx s.top.env v with
          | error e => simp [hx, bind, Except.bind] at h
          | ok x =>
            simp only [hx, bind, Except.bind] at h ⊢
            exact doReturn_sub hc (s := { s with top := { s.top with rest := r } })
              (s' := { s' with top := { s'.top with rest := r' } }) ⟨hmem, htr, hfrA, hcs⟩ _ h
      case exit =>
        simp only [mapOps] at hrest'
        rw [stepE_exit hr] at h
        rw [stepE_exit hrest', hfn.ret]
        cases hret : s.top.fn.ret with
        | some rt => simp [hret] at h
        | none =>
          simp only [hret] at h ⊢
          exact doReturn_sub hc (s := { s with top := { s.top with rest := r } })
            (s' := { s' with top := { s'.top with rest := r' } }) ⟨hmem, htr, hfrA, hcs⟩ _ h
      case fcall d ty callee args =>
        simp only [mapOps, calleeSame, decide_eq_true_eq] at hrest' hcallee
        rw [← hcallee] at hrest'
        rw [stepE_fcall hr, doCall_eq] at h
        rw [stepE_fcall hrest', doCall_eq]
        have hcal : calleeName ctx' s'.top.env callee = calleeName ctx s.top.env callee := by
          have hco := hops callee (by simp [Instr.uses])
          rw [← hcallee] at hco
          cases callee with
          | glob n => simp only [calleeName, hc.layout]
          | loc x => simp only [calleeName, hc.layout, evalAddr_congr "call" hco]
        have hargs : evalOpnds ctx' s'.top.env (args.map g) = evalOpnds ctx s.top.env args :=
          evalOpnds_congr g args (fun o ho => hops o (by simp [Instr.uses, ho]))
        simp only at h ⊢
        rw [hcal, hargs]
        cases hn : calleeName ctx s.top.env callee with
        | error e => simp [hn, bind, Except.bind] at h
        | ok name =>
          cases hvs : evalOpnds ctx s.top.env args with
          | error e => simp [hn, hvs, bind, Except.bind] at h
          | ok vs =>
            simp only [hn, hvs, bind, Except.bind] at h ⊢
            exact callNamed_sub hc hmem htr hcs hfrA _ _ _ h
      case pcall callee args =>
        simp only [mapOps, calleeSame, decide_eq_true_eq] at hrest' hcallee
        rw [← hcallee] at hrest'
        rw [stepE_pcall hr, doCall_eq] at h
        rw [stepE_pcall hrest', doCall_eq]
        have hcal : calleeName ctx' s'.top.env callee = calleeName ctx s.top.env callee := by
          have hco := hops callee (by simp [Instr.uses])
          rw [← hcallee] at hco
          cases callee with
          | glob n => simp only [calleeName, hc.layout]
          | loc x => simp only [calleeName, hc.layout, evalAddr_congr "call" hco]
        have hargs : evalOpnds ctx' s'.top.env (args.map g) = evalOpnds ctx s.top.env args :=
          evalOpnds_congr g args (fun o ho => hops o (by simp [Instr.uses, ho]))
        simp only at h ⊢
        rw [hcal, hargs]
        cases hn : calleeName ctx s.top.env callee with
        | error e => simp [hn, bind, Except.bind] at h
        | ok name =>
          cases hvs : evalOpnds ctx s.top.env args with
          | error e => simp [hn, hvs, bind, Except.bind] at h
          | ok vs =>
            simp only [hn, hvs, bind, Except.bind] at h ⊢
            exact callNamed_sub hc hmem htr hcs hfrA _ _ _ h


/-! ### the theorem -/

theorem initState_sub {ctx ctx' : Ctx} (hc : CtxSub ctx ctx') (fname : String) (args : List Val) {s : State}
    (h : initState ctx fname args = .ok s) : ∃ s', initState ctx' fname args = .ok s' ∧ StSub (tyModule ctx.mod) s s' := by
  simp only [initState, Module.findFunc] at h ⊢
  have hff := findFunc_sub hc.mod.funcs fname
  cases hf : ctx.mod.funcs.find? (·.name = fname) with
  | none => simp [hf] at h
  | some f =>
    obtain ⟨f', hf', hfn⟩ := hff.2 f hf
    simp only [hf, hf'] at h ⊢
    cases hnf : newFrame ctx.cfg f args 0 none with
    | error e => simp [hnf, bind, Except.bind] at h
    | ok fr =>
      obtain ⟨fr', hnf', hrel⟩ := newFrame_sub hfn args 0 none hnf
      simp only [hnf, bind, Except.bind, pure, Except.pure, Except.ok.injEq] at h
      subst h
      refine ⟨{ mem := { glob := initGlob ctx'.cfg ctx'.mod ctx'.layout, stack := #[] }, top := fr', callers := [], trace := [] },
        by simp only [hc.cfg, hnf', bind, Except.bind, pure, Except.pure], ?_⟩
      refine ⟨?_, rfl, hrel, .nil⟩
      simp only [hc.cfg, hc.layout, hc.mod.initGlob]

/-- **Soundness of the substitution validator**: replacing operands by operands that `checkSubst` can justify
    (common subexpressions, equal constants, folded integer constant expressions) preserves every defined
    behaviour of every function, for all arguments, oracles, configurations and fuel. -/
theorem ModSub.modTy {m m' : Module} (h : ModSub m m') (hT : tyModule m = true) : ModTy m := by
  intro f hf
  refine ⟨h.modFacts f hf, ?_⟩
  simp only [tyModule, List.all_eq_true] at hT
  exact hT f hf

theorem checkSubst_sound {m m' : Module} (h : checkSubst m m' = true) (cfg : Config) : Preserves cfg m m' := by
  intro oracle fname args fuel r g tr hex
  have hms := checkSubst_modSub h
  have hc := mkCtx_sub hms cfg oracle
  have hmf : ModFacts (mkCtx cfg m oracle).mod := hms.modFacts
  simp only [exec] at hex ⊢
  cases hi : initState (mkCtx cfg m oracle) fname args with
  | error e => simp [hi] at hex
  | ok s =>
    obtain ⟨s', hi', hrel⟩ := initState_sub hc fname args hi
    have hok := initState_ok hmf hi
    simp only [hi] at hex
    obtain ⟨n', hn'⟩ := sim_run (ctx := mkCtx cfg m oracle) (ctx' := mkCtx cfg m' oracle)
      (fun a a' => StSub (tyModule m) a a' ∧ StateOK (mkCtx cfg m oracle) a ∧
        (tyModule m = true → TyStateOK (mkCtx cfg m oracle) a) ∧
        (tyModule m = true → LasStateOK (mkCtx cfg m oracle) a))
      (by
        intro a a' t ⟨hR, hO, hTy, hLas⟩ hs
        obtain ⟨R', hR', hres⟩ := subst_step hc hR hO hTy hLas (stepE_ok_of_step_next hs)
        cases R' with
        | done o => simp [ResSub] at hres
        | next t' =>
          exact ⟨1, t', iter_one (step_of_stepE hR'), hres, inv_step hmf hO hs,
            fun hT => ty_step (hms.modTy hT) (hTy hT) hs,
            fun hT => las_step (hms.modTy hT) (hTy hT) (hLas hT) hs⟩)
      (by
        intro a a' r g tr ⟨hR, hO, hTy, hLas⟩ hs
        obtain ⟨R', hR', hres⟩ := subst_step hc hR hO hTy hLas (stepE_ok_of_step_done hs)
        cases R' with
        | next t' => simp [ResSub] at hres
        | done o =>
          simp only [ResSub] at hres; subst hres
          exact ⟨1, by simp only [run, step_of_stepE hR']⟩)
      fuel s s' r g tr ⟨hrel, hok, fun hT => initState_ty (hms.modTy hT) hi,
        fun hT => initState_las (hms.modTy hT) hi⟩ hex
    exact ⟨n', by simp only [hi', hn']⟩

end Proofs.Opt
