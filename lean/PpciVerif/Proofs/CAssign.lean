import PpciVerif.Model.CAssign
import Mathlib.Tactic.Ring
/-!
Multiplicity lemmas for `Model.CAssign`: in the emitted event sequence every call written in
the source occurs exactly once, and there is exactly one store per assignment / `++` / `--`.
-/
set_option linter.unusedSimpArgs false
namespace Proofs.CAssign
open Model.CAssign

theorem count_call_loadOf (f : Nat) (l : LExp) : [loadOf l].count (Ev.call f) = 0 := by
  cases l <;> simp [loadOf]

theorem count_call_storeOf (f : Nat) (l : LExp) : [storeOf l].count (Ev.call f) = 0 := by
  cases l <;> simp [storeOf]

theorem count_call_ls (f : Nat) (l : LExp) : [loadOf l, storeOf l].count (Ev.call f) = 0 := by
  cases l <;> simp [loadOf, storeOf]

mutual
  theorem calls_once (f : Nat) : ∀ e : RExp, (events e).count (Ev.call f) = callsIn f e
    | .const => by simp [events, callsIn]
    | .call g a => by
      have := calls_once f a
      simp only [events, callsIn, List.count_append, this, List.count_cons, List.count_nil]
      by_cases h : g = f <;> simp [h]
    | .bin a b => by simp only [events, callsIn, List.count_append, calls_once f a, calls_once f b]
    | .lval l => by simp only [events, callsIn, List.count_append, calls_onceL f l, count_call_loadOf, Nat.add_zero]
    | .assign l r => by
      simp only [events, callsIn, List.count_append, calls_onceL f l, calls_once f r, count_call_storeOf, Nat.add_zero]
    | .compound l r => by
      simp only [events, callsIn, List.count_append, calls_onceL f l, calls_once f r, count_call_ls, Nat.add_zero]
    | .incdec l => by simp only [events, callsIn, List.count_append, calls_onceL f l, count_call_ls, Nat.add_zero]
    | .comma a b => by simp only [events, callsIn, List.count_append, calls_once f a, calls_once f b]
  theorem calls_onceL (f : Nat) : ∀ l : LExp, (addr l).count (Ev.call f) = callsInL f l
    | .var _ => by simp [addr, callsInL]
    | .index i => by simp only [addr, callsInL, calls_once f i]
    | .deref p => by simp only [addr, callsInL, calls_once f p]
    | .member p => by simp only [addr, callsInL, calls_once f p]
end

theorem stores_loadOf (l : LExp) : [loadOf l].countP Ev.isStore = 0 := by cases l <;> simp [loadOf, Ev.isStore]
theorem stores_storeOf (l : LExp) : [storeOf l].countP Ev.isStore = 1 := by cases l <;> simp [storeOf, Ev.isStore]
theorem stores_ls (l : LExp) : [loadOf l, storeOf l].countP Ev.isStore = 1 := by
  cases l <;> simp [loadOf, storeOf, Ev.isStore, List.countP_cons]

mutual
  theorem stores_once : ∀ e : RExp, (events e).countP Ev.isStore = writesIn e
    | .const => by simp [events, writesIn]
    | .call g a => by
      simp only [events, writesIn, List.countP_append, stores_once a]
      simp [Ev.isStore]
    | .bin a b => by simp only [events, writesIn, List.countP_append, stores_once a, stores_once b]
    | .lval l => by simp only [events, writesIn, List.countP_append, stores_onceL l, stores_loadOf, Nat.add_zero]
    | .assign l r => by simp only [events, writesIn, List.countP_append, stores_onceL l, stores_once r, stores_storeOf]
    | .compound l r => by simp only [events, writesIn, List.countP_append, stores_onceL l, stores_once r, stores_ls]
    | .incdec l => by simp only [events, writesIn, List.countP_append, stores_onceL l, stores_ls]
    | .comma a b => by simp only [events, writesIn, List.countP_append, stores_once a, stores_once b]
  theorem stores_onceL : ∀ l : LExp, (addr l).countP Ev.isStore = writesInL l
    | .var _ => by simp [addr, writesInL]
    | .index i => by simp only [addr, writesInL, stores_once i]
    | .deref p => by simp only [addr, writesInL, stores_once p]
    | .member p => by simp only [addr, writesInL, stores_once p]
end

end Proofs.CAssign
