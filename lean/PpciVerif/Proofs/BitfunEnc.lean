import PpciVerif.Proofs.Bitfun
/-!
`encode_imm32`, `align`, `wrap_negative`, `inrange`, byte packing: the model
computes the `Spec` definitions (helper lemmas for `Props/C39.lean`, part 2).
-/
namespace Proofs.Bitfun
open Spec.Bits Proofs.Bits Proofs.PyInt Model Model.Bitfun

/-! ### encode_imm32 -/

/-- `x & 0xFFFFFF00` clears the low byte of a 32-bit value -/
theorem and_hi {x : Int} (hx : fitsU 32 x) : PyInt.and x 0xFFFFFF00 = x / 2 ^ 8 * 2 ^ 8 := by
  apply eq_of_testBit_eq; intro i
  have hM : (0xFFFFFF00 : Int) = (2 ^ 24 - 1) * 2 ^ 8 := by decide
  rw [testBit_and, hM, testBit_mul_pow, testBit_mul_pow, testBit_two_pow_sub_one, testBit_div_pow]
  by_cases h8 : 8 ≤ i
  · by_cases h32 : i < 32
    · have : i - 8 + 8 = i := by omega
      simp [h8, this]; omega
    · rw [testBit_of_fitsU hx (by omega), testBit_of_fitsU hx (by omega)]; simp
  · simp [h8]

theorem and_hi_eq_zero {x : Int} (hx : fitsU 32 x) : PyInt.and x 0xFFFFFF00 = 0 ↔ x < 256 := by
  rw [and_hi hx]
  have := hx.1
  constructor <;> intro h <;> omega

theorem and_ff (x : Int) : PyInt.and x 0xFF = x % 256 := and_255 x

attribute [local irreducible] Spec.Bits.rotl Spec.Bits.rotr Spec.Bits.ofBits

/-- what the loop of `encode_imm32` returns when it succeeds: the first even left
    rotation that fits in 8 bits, packed as `rot * 256 + imm8` -/
theorem encLoop_ok {v : Int} (hv : fitsU 32 v) : ∀ (r i : Nat) (e : Int), i + r = 16 → encLoop v r i = .ok e →
    ∃ j, i ≤ j ∧ j < 16 ∧ Spec.Bits.rotl 32 v (2 * (j : Int)) < 256 ∧
      e = (j : Int) * 256 + (Spec.Bits.rotl 32 v (2 * (j : Int)) : Int) ∧
      ∀ j', i ≤ j' → j' < j → ¬ Spec.Bits.rotl 32 v (2 * (j' : Int)) < 256 := by
  intro r
  induction r with
  | zero => intro i e _ h; simp [encLoop] at h
  | succ r ih =>
    intro i e hi h
    simp only [encLoop] at h
    rw [rotateLeft_eq hv (by omega) (by omega)] at h
    have hfit := fitsU_rotl 32 v ((i : Int) * 2)
    have hcomm : (i : Int) * 2 = 2 * (i : Int) := Int.mul_comm _ _
    simp only [Except.bind] at h
    by_cases hz : PyInt.and (Spec.Bits.rotl 32 v ((i : Int) * 2) : Int) 0xFFFFFF00 = 0
    · rw [if_pos hz] at h
      have hlt := (and_hi_eq_zero hfit).1 hz
      refine ⟨i, Nat.le_refl i, by omega, ?_, ?_, fun j' h1 h2 => by omega⟩
      · rw [← hcomm]; omega
      · have hfit8 : fitsU 8 (PyInt.and (Spec.Bits.rotl 32 v ((i : Int) * 2) : Int) 0xFF) := by
          rw [and_ff]; exact ⟨Int.emod_nonneg _ (by decide), Int.emod_lt_of_pos _ (by decide)⟩
        rw [or_eq_add_of_lt _ hfit8, and_ff, Int.emod_eq_of_lt hfit.1 hlt] at h
        injection h with h
        rw [← hcomm, ← h]; norm_num
    · rw [if_neg hz] at h
      obtain ⟨j, h1, h2, h3, h4, h5⟩ := ih (i + 1) e (by omega) h
      refine ⟨j, by omega, h2, h3, h4, fun j' a b => ?_⟩
      by_cases hj : j' = i
      · subst hj
        intro hlt
        apply hz
        rw [(and_hi_eq_zero hfit)]
        rw [hcomm]; omega
      · exact h5 j' (by omega) b

/-- … and when it fails: only with ValueError, and no even rotation fits in 8 bits -/
theorem encLoop_err {v : Int} (hv : fitsU 32 v) : ∀ (r i : Nat) (err : Err), i + r = 16 →
    encLoop v r i = .error err →
    err = .ValueError ∧ ∀ j, i ≤ j → j < 16 → ¬ Spec.Bits.rotl 32 v (2 * (j : Int)) < 256 := by
  intro r
  induction r with
  | zero =>
    intro i err hi h
    simp only [encLoop] at h
    injection h with h
    exact ⟨h.symm, fun j a b => by omega⟩
  | succ r ih =>
    intro i err hi h
    simp only [encLoop] at h
    rw [rotateLeft_eq hv (by omega) (by omega)] at h
    have hfit := fitsU_rotl 32 v ((i : Int) * 2)
    have hcomm : (i : Int) * 2 = 2 * (i : Int) := Int.mul_comm _ _
    simp only [Except.bind] at h
    by_cases hz : PyInt.and (Spec.Bits.rotl 32 v ((i : Int) * 2) : Int) 0xFFFFFF00 = 0
    · rw [if_pos hz] at h; cases h
    · rw [if_neg hz] at h
      obtain ⟨h1, h2⟩ := ih (i + 1) err (by omega) h
      refine ⟨h1, fun j a b => ?_⟩
      by_cases hj : j = i
      · subst hj
        intro hlt
        apply hz
        rw [(and_hi_eq_zero hfit)]
        rw [hcomm]; omega
      · exact h2 j (by omega) b

open Spec.ArmImm in
/-- a 32-bit value is a rotated 8-bit immediate iff some even left rotation of it fits in 8 bits -/
theorem representable_iff (v : Int) :
    Representable v ↔ fitsU 32 v ∧ ∃ j : Nat, j < 16 ∧ Spec.Bits.rotl 32 v (2 * (j : Int)) < 256 := by
  constructor
  · rintro ⟨rot, hr, imm, hi, rfl⟩
    refine ⟨fitsU_rotr _ _ _, rot, hr, ?_⟩
    have := rotl_rotr (n := 32) (by decide) (imm : Int) (2 * (rot : Int))
    rw [wrapU_of_fitsU ⟨Int.natCast_nonneg _, by omega⟩] at this
    have h' : Spec.Bits.rotl 32 (↑(Spec.Bits.rotr 32 (↑imm) (2 * ↑rot))) (2 * (rot : Int)) = imm := Int.ofNat_inj.1 this
    omega
  · rintro ⟨hv, j, hj, hlt⟩
    refine ⟨j, hj, Spec.Bits.rotl 32 v (2 * (j : Int)), hlt, ?_⟩
    have := rotr_rotl (n := 32) (by decide) v (2 * (j : Int))
    rw [wrapU_of_fitsU hv] at this
    exact this

open Spec.ArmImm in
theorem representableB_iff (v : Int) : representableB v = true ↔ Representable v := by
  rw [representable_iff]
  unfold representableB fitsU
  simp only [Bool.and_eq_true, decide_eq_true_eq, List.any_eq_true, List.mem_range]

open Spec.ArmImm in
/-- decoding the packed field gives back the value -/
theorem decode_pack {v : Int} (hv : fitsU 32 v) {j : Nat} (hlt : Spec.Bits.rotl 32 v (2 * (j : Int)) < 256) :
    (decode ((j : Int) * 256 + (Spec.Bits.rotl 32 v (2 * (j : Int)) : Int)) : Int) = v := by
  unfold decode
  have e1 : ((j : Int) * 256 + (Spec.Bits.rotl 32 v (2 * (j : Int)) : Int)) % 256 = (Spec.Bits.rotl 32 v (2 * (j : Int)) : Int) := by omega
  have e2 : ((j : Int) * 256 + (Spec.Bits.rotl 32 v (2 * (j : Int)) : Int)) / 256 = (j : Int) := by omega
  rw [e1, e2]
  have := rotr_rotl (n := 32) (by decide) v (2 * (j : Int))
  rw [wrapU_of_fitsU hv] at this
  exact this

/-! ### align -/

theorem neg_emod_eq_zero_iff (v : Int) (m : Int) : (-v) % m = 0 ↔ v % m = 0 := by
  constructor <;> intro h
  · have := Int.dvd_of_emod_eq_zero h
    exact Int.emod_eq_zero_of_dvd (Int.dvd_neg.1 this)
  · have := Int.dvd_of_emod_eq_zero h
    exact Int.emod_eq_zero_of_dvd (Int.dvd_neg.2 this)

theorem alignLoop_eq (m : Nat) (hm : 0 < m) : ∀ (k : Nat) (v : Int), (-v) % (m : Int) ≤ k →
    alignLoop m v k = v + (-v) % (m : Int) := by
  intro k
  induction k with
  | zero =>
    intro v h
    have := Int.emod_nonneg (-v) (show (m : Int) ≠ 0 by omega)
    simp only [alignLoop]; omega
  | succ k ih =>
    intro v h
    simp only [alignLoop]
    have h0 := Int.emod_nonneg (-v) (show (m : Int) ≠ 0 by omega)
    have h1 := Int.emod_lt_of_pos (-v) (show (0 : Int) < m by omega)
    by_cases hz : v % (m : Int) = 0
    · rw [if_neg (by simp [hz])]
      rw [(neg_emod_eq_zero_iff v m).2 hz]; simp
    · rw [if_pos hz]
      have hd : (-v) % (m : Int) ≠ 0 := fun hh => hz ((neg_emod_eq_zero_iff v m).1 hh)
      have e : (-(v + 1)) % (m : Int) = (-v) % (m : Int) - 1 := by
        have : -(v + 1) = -v - 1 := by ring
        rw [this, ← Int.emod_sub_emod, Int.emod_eq_of_lt (by omega) (by omega)]
      rw [ih (v + 1) (by omega), e]; ring

theorem align_eq (v : Int) {m : Nat} (hm : 0 < m) : align v m = .ok (v + (-v) % (m : Int)) := by
  unfold align
  rw [if_neg (by omega)]
  congr 1
  exact alignLoop_eq m hm m v (Int.le_of_lt (Int.emod_lt_of_pos _ (by omega)))

/-! ### wrap_negative / inrange -/

theorem wrapNegative_ok {bits : Nat} (hb : 1 ≤ bits) {v : Int} (h : fitsS bits v ∨ fitsU bits v) :
    wrapNegative v bits = .ok (wrapU bits v) := by
  unfold wrapNegative
  have h2 := pow_pred bits hb
  have hp := pow_pos (bits - 1)
  rw [if_neg (by omega)]
  dsimp only
  have hr : -(2 ^ (bits - 1)) ≤ v ∧ v < 2 ^ bits - 1 + 1 := by
    unfold fitsS fitsU at h
    rcases h with h | h <;> constructor <;> omega
  rw [if_neg (by simpa using hr), and_mask]
  have hnn : 0 ≤ v % 2 ^ bits := wrapU_nonneg bits v
  rw [if_neg (by simpa using hnn)]
  rfl

theorem wrapNegative_err {bits : Nat} (hb : 1 ≤ bits) {v : Int} (h : ¬ (fitsS bits v ∨ fitsU bits v)) :
    wrapNegative v bits = .error .ValueError := by
  unfold wrapNegative
  have h2 := pow_pred bits hb
  have hp := pow_pos (bits - 1)
  rw [if_neg (by omega)]
  dsimp only
  have hr : ¬ (-(2 ^ (bits - 1)) ≤ v ∧ v < 2 ^ bits - 1 + 1) := by
    unfold fitsS fitsU at h
    intro hh; apply h
    by_cases h0 : 0 ≤ v
    · right; constructor <;> omega
    · left; constructor <;> omega
  rw [if_pos hr]

theorem inrange_eq {bits : Nat} (hb : 1 ≤ bits) (v : Int) : inrange v bits = .ok (decide (fitsS bits v)) := by
  unfold inrange fitsS
  rw [if_neg (by omega)]

/-! ### value_to_bytes_big_endian, value_to_bits -/

theorem toBytesLE_eq_map (k : Nat) : ∀ x : Int,
    toBytesLE k x = (List.range k).map (fun i => (x / 2 ^ (i * 8) % 256).toNat) := by
  induction k with
  | zero => intro x; simp [toBytesLE]
  | succ k ih =>
    intro x
    rw [List.range_succ_eq_map]
    simp only [toBytesLE, List.map_cons, List.map_map]
    rw [ih]
    congr 1
    · simp
    · apply List.map_congr_left
      intro i _
      simp only [Function.comp]
      have : x / 256 / 2 ^ (i * 8) = x / 2 ^ ((i + 1) * 8) := by
        rw [ediv_ediv _ _ _ (by decide)]
        have : (i + 1) * 8 = 8 + i * 8 := by ring
        rw [this, pow_split]; norm_num
      rw [this]

theorem valueToBytesBigEndian_eq (v : Int) (size : Nat) :
    valueToBytesBigEndian v size = toBytesBE size v := by
  unfold valueToBytesBigEndian toBytesBE
  rw [toBytesLE_eq_map, ← List.map_reverse]
  apply List.map_congr_left
  intro i _
  rw [and_255]

theorem valueToBits_eq (v : Int) (bits : Nat) : valueToBits v bits = (List.range bits).map (testBit v) := by
  unfold valueToBits
  apply List.map_congr_left
  intro i _
  rw [Proofs.PyInt.and_comm]
  have := and_pow_eq_zero v i
  by_cases h : testBit v i
  · have hne : PyInt.and v (2 ^ i) ≠ 0 := fun hh => by rw [this.1 hh] at h; cases h
    simp [hne, h]
  · have hz : PyInt.and v (2 ^ i) = 0 := this.2 (by simpa using h)
    simp [hz, h]

end Proofs.Bitfun
