import PpciVerif.Model.RVFrame
/-!
# Lemmas about `Model.RVFrame` (core Lean only): saving and restoring a list of registers, and the frame discipline
-/
namespace Proofs.RVFrame
open Model.RVFrame

theorem run_append (a b : List FI) (t : FState) : run (a ++ b) t = run b (run a t) := by
  induction a generalizing t with
  | nil => rfl
  | cons i rest ih => simp [run, ih]

theorem save_regs (rs : List Nat) : ∀ (off : Int) (t : FState), (run (saveI rs off) t).regs = t.regs := by
  induction rs with
  | nil => intro off t; rfl
  | cons r rest ih => intro off t; simp [saveI, run, exec, ih]

/-- the save loop writes only below `sp + off` -/
theorem save_mem_above (rs : List Nat) : ∀ (off : Int) (t : FState) (a : Int), t.regs 2 + off ≤ a →
    (run (saveI rs off) t).mem a = t.mem a := by
  induction rs with
  | nil => intro off t a _; rfl
  | cons r rest ih =>
    intro off t a h
    simp only [saveI, run]
    rw [ih (off - 4) (exec (.sw r 2 (off - 4)) t) a (by simp [exec]; omega)]
    simp only [exec, setMem]
    have : a ≠ t.regs 2 + (off - 4) := by omega
    simp [this]

/-- restoring what was saved: every saved register gets back the value it had when it was saved, nothing else changes -/
theorem restore_save (rs : List Nat) : ∀ (off : Int) (t u : FState), rs.Nodup → 2 ∉ rs → u.regs 2 = t.regs 2 →
    (∀ a, t.regs 2 + off - 4 * rs.length ≤ a → a < t.regs 2 + off → u.mem a = (run (saveI rs off) t).mem a) →
    (∀ r ∈ rs, (run (restoreI rs off) u).regs r = t.regs r) ∧
    (∀ q, q ∉ rs → (run (restoreI rs off) u).regs q = u.regs q) ∧
    (run (restoreI rs off) u).mem = u.mem := by
  induction rs with
  | nil => intro off t u _ _ _ _; simp [restoreI, run]
  | cons r rest ih =>
    intro off t u hnd h2 hsp hmem
    have hnd' := List.nodup_cons.mp hnd
    have hr2 : r ≠ 2 := fun e => h2 (e ▸ List.mem_cons_self)
    have h2' : 2 ∉ rest := fun h => h2 (List.mem_cons_of_mem _ h)
    -- the states after the first store / the first load
    let t1 := exec (.sw r 2 (off - 4)) t
    let u1 := exec (.lw r 2 (off - 4)) u
    have ht1r : t1.regs = t.regs := rfl
    have hu1m : u1.mem = u.mem := rfl
    have hu1sp : u1.regs 2 = t1.regs 2 := by
      simp only [u1, t1, exec, setReg]
      have : (2 : Nat) ≠ r := fun e => hr2 e.symm
      simp [this, hsp]
    have hlen : ((r :: rest).length : Int) = rest.length + 1 := by simp
    -- value loaded into r
    have hval : u1.regs r = t.regs r := by
      simp only [u1, exec, setReg, if_true]
      rw [hmem (u.regs 2 + (off - 4)) (by rw [hsp, hlen]; omega) (by rw [hsp]; omega)]
      simp only [saveI, run]
      rw [save_mem_above rest (off - 4) t1 _ (by rw [hsp]; simp [t1, exec])]
      simp [t1, exec, setMem, hsp]
    have IH := ih (off - 4) t1 u1 hnd'.2 h2' hu1sp (by
      intro a ha hb
      rw [hu1m]
      have := hmem a (by rw [hlen]; simp only [ht1r] at ha; omega) (by simp only [ht1r] at hb; omega)
      simpa [saveI, run] using this)
    simp only [restoreI, run]
    refine ⟨?_, ?_, ?_⟩
    · intro q hq
      rcases List.mem_cons.mp hq with rfl | hq
      · rw [IH.2.1 q hnd'.1]; exact hval
      · rw [IH.1 q hq, ht1r]
    · intro q hq
      have hq1 : q ≠ r := fun e => hq (e ▸ List.mem_cons_self)
      have hq2 : q ∉ rest := fun h => hq (List.mem_cons_of_mem _ h)
      rw [IH.2.1 q hq2]
      simp [u1, exec, setReg, hq1]
    · rw [IH.2.2, hu1m]

theorem roundUp_gt (x : Int) : x < roundUp x := by
  unfold roundUp
  have := Int.emod_lt_of_pos x (show (0 : Int) < 16 by decide)
  omega

/-- the optional stack-pointer adjustment for the outgoing-argument area -/
def adj (c : Bool) (k : Int) : List FI := if c then [.addi 2 2 k] else []

theorem adj_facts (c : Bool) (k : Int) (t : FState) :
    (run (adj c k) t).regs 2 = t.regs 2 + (if c then k else 0) ∧
    (∀ q, q ≠ 2 → (run (adj c k) t).regs q = t.regs q) ∧ (run (adj c k) t).mem = t.mem := by
  cases c
  · simp [adj, run]
  · refine ⟨by simp [adj, run, exec, setReg], ?_, by simp [adj, run, exec]⟩
    intro q hq
    simp [adj, run, exec, setReg, hq]

/-- **frame discipline** on the stack machine, see `Props.C05.riscv_frame_discipline` -/
theorem frame_discipline (stacksize extras : Int) (saved : List Nat) (hnd : saved.Nodup)
    (hsv : ∀ r ∈ saved, r ≠ 1 ∧ r ≠ 2 ∧ r ≠ 8) (s : FState) (body : FState → FState)
    (hsp : ∀ t, (body t).regs 2 = t.regs 2)
    (hmem : ∀ t a, s.regs 2 - ssize stacksize - rsize saved ≤ a → a < s.regs 2 - ssize stacksize + 8 →
      (body t).mem a = t.mem a) :
    let f := run (epilogue stacksize extras saved) (body (run (prologue stacksize extras saved) s))
    f.regs 2 = s.regs 2 ∧ f.regs 1 = s.regs 1 ∧ f.regs 8 = s.regs 8 ∧ ∀ r ∈ saved, f.regs r = s.regs r := by
  intro f
  -- abbreviations
  let S := ssize stacksize
  let R := rsize saved
  have h2 : 2 ∉ saved := fun h => (hsv 2 h).2.1 rfl
  have hR : 4 * (saved.length : Int) < R := roundUp_gt _
  -- prologue, first five instructions
  let p1 : FState := run [.addi 2 2 (-S), .sw 1 2 4, .sw 8 2 0, .addi 8 2 8, .addi 2 2 (-R)] s
  have p1_sp : p1.regs 2 = s.regs 2 - S - R := by simp [p1, run, exec, setReg]; omega
  have p1_other : ∀ q, q ≠ 2 → q ≠ 8 → p1.regs q = s.regs q := by
    intro q h2 h8; simp [p1, run, exec, setReg, h2, h8]
  have p1_ra : p1.mem (s.regs 2 - S + 4) = s.regs 1 := by
    simp only [p1, run, exec, setReg, setMem]
    simp only [if_true]
    rw [if_neg (by omega), if_pos (by omega)]
    simp
  have p1_fp : p1.mem (s.regs 2 - S) = s.regs 8 := by
    simp only [p1, run, exec, setReg, setMem]
    simp only [if_true]
    rw [if_pos (by omega)]
    simp
  let p2 := run (saveI saved R) p1
  have p2_regs : p2.regs = p1.regs := save_regs saved R p1
  let c : Bool := decide (extras ≠ 0)
  let p3 := run (adj c (-(roundUp extras))) p2
  have hp3 := adj_facts c (-(roundUp extras)) p2
  have hpro : run (prologue stacksize extras saved) s = p3 := by
    simp only [prologue, run_append, p3, p2, p1, adj, c]
    by_cases he : extras = 0 <;> simp [he, S, R]
  let b := body p3
  let e1 := run (adj c (roundUp extras)) b
  have he1 := adj_facts c (roundUp extras) b
  have e1_sp : e1.regs 2 = p1.regs 2 := by
    rw [he1.1, hsp p3, hp3.1, p2_regs]
    by_cases hc : c = true <;> simp [hc]
    omega
  have e1_mem : e1.mem = b.mem := he1.2.2
  have b_mem : ∀ a, s.regs 2 - S - R ≤ a → a < s.regs 2 - S + 8 → b.mem a = p2.mem a := by
    intro a h1 h2'
    rw [hmem p3 a h1 h2', hp3.2.2]
  have RS := restore_save saved R p1 e1 hnd h2 e1_sp (by
    intro a ha hb
    rw [e1_mem]
    exact b_mem a (by rw [p1_sp] at ha; omega) (by rw [p1_sp] at hb; omega))
  let e2 := run (restoreI saved R) e1
  have e2_sp : e2.regs 2 = s.regs 2 - S - R := by rw [RS.2.1 2 h2, e1_sp, p1_sp]
  have e2_mem : e2.mem = b.mem := by rw [RS.2.2, e1_mem]
  have slot : ∀ a, s.regs 2 - S ≤ a → a < s.regs 2 - S + 8 → e2.mem a = p1.mem a := by
    intro a h1 h2'
    rw [e2_mem, b_mem a (by omega) h2']
    exact save_mem_above saved R p1 a (by rw [p1_sp]; omega)
  have hepi : f = run [.addi 2 2 R, .lw 1 2 4, .lw 8 2 0, .addi 2 2 S, .ret] e2 := by
    simp only [f, epilogue, run_append, hpro, e2, e1, b, adj, c]
    by_cases he : extras = 0 <;> simp [he, S, R]
  have ra_v : e2.mem (e2.regs 2 + R + 4) = s.regs 1 := by
    have : e2.regs 2 + R + 4 = s.regs 2 - S + 4 := by rw [e2_sp]; omega
    rw [this, slot _ (by omega) (by omega), p1_ra]
  have fp_v : e2.mem (e2.regs 2 + R + 0) = s.regs 8 := by
    have : e2.regs 2 + R + 0 = s.regs 2 - S := by rw [e2_sp]; omega
    rw [this, slot _ (by omega) (by omega), p1_fp]
  rw [hepi]
  refine ⟨?_, ?_, ?_, ?_⟩
  · simp [run, exec, setReg, e2_sp]
  · simp [run, exec, setReg]; exact ra_v
  · simp [run, exec, setReg]; simpa using fp_v
  · intro r hr
    obtain ⟨r1, r2, r8⟩ := hsv r hr
    simp [run, exec, setReg, r1, r2, r8]
    rw [RS.1 r hr, p1_other r r2 r8]

end Proofs.RVFrame
