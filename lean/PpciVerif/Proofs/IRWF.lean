import PpciVerif.Proofs.IRGraph
/-!
# Proofs.IRWF — the Boolean checker `Spec.IR.wfFunc` decides the declarative `Spec.IRWF.WF`

`wfFunc_iff : wfFunc m f = true ↔ WF m f` and `wfModule_iff : wfModule m = true ↔ WFModule m`,
for every module and function, no side condition.  One lemma per named check of `wfChecks`.
Core Lean only.
-/
namespace Proofs.IRWF
open Spec.IR Spec.IRWF Proofs.IRGraph

/-! ## small list facts -/

theorem allDistinct_iff : ∀ l : List String, allDistinct l = true ↔ l.Nodup := by
  intro l
  induction l with
  | nil => simp [allDistinct]
  | cons a l ih => simp [allDistinct, ih, List.nodup_cons]

theorem sameSet_iff (a b : List String) : sameSet a b = true ↔ ∀ x, x ∈ a ↔ x ∈ b := by
  simp only [sameSet, Bool.and_eq_true, List.all_eq_true, List.contains_iff_mem]
  constructor
  · rintro ⟨h1, h2⟩ x; exact ⟨h1 x, h2 x⟩
  · intro h; exact ⟨fun x => (h x).1, fun x => (h x).2⟩

theorem terminatedOk_iff (b : Block) : b.terminatedOk = true ↔ Terminated b := by
  unfold Block.terminatedOk Terminated
  constructor
  · intro h
    cases hr : b.instrs.reverse with
    | nil => rw [hr] at h; simp at h
    | cons l init =>
      rw [hr] at h
      simp only [Bool.and_eq_true, List.all_eq_true, Bool.not_eq_true'] at h
      refine ⟨init.reverse, l, ?_, h.1, ?_⟩
      · have := congrArg List.reverse hr
        simpa using this
      · intro i hi; exact h.2 i (List.mem_reverse.1 hi)
  · rintro ⟨init, t, he, ht, hi⟩
    rw [he]
    simp only [List.reverse_append, List.reverse_cons, List.reverse_nil, List.nil_append,
      List.cons_append, Bool.and_eq_true, List.all_eq_true, Bool.not_eq_true', List.mem_reverse]
    exact ⟨ht, hi⟩

theorem mem_preds (f : Func) (p n : String) : p ∈ f.preds n ↔ IsPred f p n := by
  unfold Func.preds IsPred
  simp only [List.mem_map, List.mem_filter, List.contains_iff_mem]
  constructor
  · rintro ⟨b, ⟨hb, hs⟩, hn⟩; exact ⟨b, hb, hn, hs⟩
  · rintro ⟨b, hb, hn, hs⟩; exact ⟨b, ⟨hb, hs⟩, hn⟩

/-! ## definitions -/

/-- the definition site recorded in a `Def` -/
def siteOf (d : Def) : Option (String × Nat) :=
  match d.block with
  | none => none
  | some bn => some (bn, d.idx)

theorem mem_blockDefs (bn : String) (instrs : List Instr) : ∀ (k : Nat) (d : Def),
    d ∈ blockDefs bn k instrs ↔
      ∃ j i, instrs[j]? = some i ∧ i.dst? = some (d.name, d.ty) ∧ d.block = some bn ∧ d.idx = k + j := by
  induction instrs with
  | nil => intro k d; simp [blockDefs]
  | cons i r ih =>
    intro k d
    unfold blockDefs
    cases hd : i.dst? with
    | none =>
      simp only [ih]
      constructor
      · rintro ⟨j, i', h1, h2, h3, h4⟩
        exact ⟨j + 1, i', by simpa using h1, h2, h3, by omega⟩
      · rintro ⟨j, i', h1, h2, h3, h4⟩
        cases j with
        | zero => simp at h1; subst h1; rw [hd] at h2; cases h2
        | succ j => exact ⟨j, i', by simpa using h1, h2, h3, by omega⟩
    | some p =>
      obtain ⟨x, ty⟩ := p
      simp only [List.mem_cons, ih]
      constructor
      · rintro (h | ⟨j, i', h1, h2, h3, h4⟩)
        · subst h
          exact ⟨0, i, by simp, by simpa using hd, rfl, by simp⟩
        · exact ⟨j + 1, i', by simpa using h1, h2, h3, by omega⟩
      · rintro ⟨j, i', h1, h2, h3, h4⟩
        cases j with
        | zero =>
          left
          simp at h1; subst h1
          rw [hd] at h2
          cases d
          simp at h2 h3 h4 ⊢
          exact ⟨h2.1.symm, h2.2.symm, h3, h4⟩
        | succ j => right; exact ⟨j, i', by simpa using h1, h2, h3, by omega⟩

theorem mem_defs (f : Func) (d : Def) :
    d ∈ f.defs ↔ ((d.name, d.ty) ∈ f.params ∧ d.block = none ∧ d.idx = 0) ∨
      ∃ b ∈ f.blocks, ∃ j i, b.instrs[j]? = some i ∧ i.dst? = some (d.name, d.ty) ∧
        d.block = some b.name ∧ d.idx = j := by
  unfold Func.defs
  simp only [List.mem_append, List.mem_map, List.mem_flatMap, mem_blockDefs]
  constructor
  · rintro (⟨p, hp, he⟩ | ⟨b, hb, j, i, h1, h2, h3, h4⟩)
    · subst he; exact Or.inl ⟨hp, rfl, rfl⟩
    · exact Or.inr ⟨b, hb, j, i, h1, h2, h3, by omega⟩
  · rintro (⟨hp, h1, h2⟩ | ⟨b, hb, j, i, h1, h2, h3, h4⟩)
    · left
      refine ⟨(d.name, d.ty), hp, ?_⟩
      cases d; simp at h1 h2 ⊢; exact ⟨h1.symm, h2.symm⟩
    · exact Or.inr ⟨b, hb, j, i, h1, h2, h3, by omega⟩

theorem defSite_iff (f : Func) (x : String) (ty : Ty) (s : Option (String × Nat)) :
    DefSite f x ty s ↔ ∃ d ∈ f.defs, d.name = x ∧ d.ty = ty ∧ siteOf d = s := by
  constructor
  · intro h
    cases h with
    | param hp =>
      exact ⟨⟨x, ty, none, 0⟩, (mem_defs f _).2 (Or.inl ⟨hp, rfl, rfl⟩), rfl, rfl, rfl⟩
    | @instr b k i hb hk hd =>
      exact ⟨⟨x, ty, some b.name, k⟩, (mem_defs f _).2 (Or.inr ⟨b, hb, k, i, hk, hd, rfl, rfl⟩), rfl, rfl, rfl⟩
  · rintro ⟨d, hd, hn, ht, hs⟩
    subst hn ht hs
    rcases (mem_defs f d).1 hd with ⟨hp, h1, _⟩ | ⟨b, hb, j, i, h1, h2, h3, h4⟩
    · simp only [siteOf, h1]; exact DefSite.param hp
    · simp only [siteOf, h3, h4]; exact DefSite.instr hb h1 h2

theorem find_of_nodup : ∀ (l : List Def), (l.map (·.name)).Nodup → ∀ d ∈ l,
    l.find? (·.name = d.name) = some d := by
  intro l
  induction l with
  | nil => intro _ d hd; simp at hd
  | cons a l ih =>
    intro nd d hd
    simp only [List.map_cons, List.nodup_cons] at nd
    rcases List.mem_cons.1 hd with e | e
    · subst e; simp
    · have hne : a.name ≠ d.name := by
        intro h
        exact nd.1 (List.mem_map.2 ⟨d, e, h.symm⟩)
      rw [List.find?_cons]
      simp only [hne, decide_false]
      exact ih nd.2 d e

theorem findDef_iff {f : Func} (nd : (f.defs.map (·.name)).Nodup) (x : String) (d : Def) :
    findDef f.defs x = some d ↔ d ∈ f.defs ∧ d.name = x := by
  unfold findDef
  constructor
  · intro h
    have h1 := List.mem_of_find?_eq_some h
    have h2 := List.find?_some h
    exact ⟨h1, by simpa using h2⟩
  · rintro ⟨h1, h2⟩
    subst h2
    exact find_of_nodup _ nd d h1

/-! ## typing -/

theorem find?_isSome_name {α : Type} (l : List α) (nm : α → String) (g : String) :
    (l.find? (fun a => nm a = g)).isSome = true ↔ ∃ a ∈ l, nm a = g := by
  rw [List.find?_isSome]; simp

theorem declared_iff (m : Module) (g : String) :
    ((m.findVar g).isSome || (m.findFunc g).isSome || (m.findExtern g).isSome) = true ↔ Declared m g := by
  unfold Module.findVar Module.findFunc Module.findExtern Declared
  simp only [Bool.or_eq_true, find?_isSome_name, or_assoc]

theorem opndTy_iff {m : Module} {f : Func} (nd : (f.defs.map (·.name)).Nodup) (o : Operand) (t : Ty) :
    opndTy m f.defs o = some t ↔ HasTy m f o t := by
  cases o with
  | loc x =>
    simp only [opndTy, HasTy, Option.map_eq_some_iff]
    constructor
    · rintro ⟨d, hd, ht⟩
      obtain ⟨h1, h2⟩ := (findDef_iff nd x d).1 hd
      exact ⟨siteOf d, (defSite_iff f x t _).2 ⟨d, h1, h2, ht, rfl⟩⟩
    · rintro ⟨s, hs⟩
      obtain ⟨d, h1, h2, h3, _⟩ := (defSite_iff f x t s).1 hs
      exact ⟨d, (findDef_iff nd x d).2 ⟨h1, h2⟩, h3⟩
  | glob g =>
    simp only [opndTy, HasTy]
    by_cases h : ((m.findVar g).isSome || (m.findFunc g).isSome || (m.findExtern g).isSome) = true
    · rw [if_pos h]
      have := (declared_iff m g).1 h
      constructor
      · intro e; simp at e; exact ⟨e.symm, this⟩
      · rintro ⟨e, _⟩; simp [e]
    · rw [if_neg h]
      have : ¬ Declared m g := fun hd => h ((declared_iff m g).2 hd)
      simp [this]

theorem opndTy_isSome_iff {m : Module} {f : Func} (nd : (f.defs.map (·.name)).Nodup) (o : Operand) :
    (opndTy m f.defs o).isSome = true ↔ ∃ t, HasTy m f o t := by
  rw [Option.isSome_iff_exists]
  constructor
  · rintro ⟨t, h⟩; exact ⟨t, (opndTy_iff nd o t).1 h⟩
  · rintro ⟨t, h⟩; exact ⟨t, (opndTy_iff nd o t).2 h⟩

theorem argsTyped_iff {m : Module} {f : Func} (nd : (f.defs.map (·.name)).Nodup) :
    ∀ (args : List Operand) (ps : List Ty),
      args.map (opndTy m f.defs) = ps.map some ↔ ArgsTyped m f args ps := by
  intro args
  induction args with
  | nil => intro ps; cases ps <;> simp [ArgsTyped]
  | cons a as ih =>
    intro ps
    cases ps with
    | nil => simp [ArgsTyped]
    | cons p ps => simp [ArgsTyped, ih, opndTy_iff nd]

theorem callTypesOk_iff {m : Module} {f : Func} (nd : (f.defs.map (·.name)).Nodup)
    (callee : Operand) (args : List Operand) (res : Option Ty) :
    callTypesOk m f.defs callee args res = true ↔ CallTyped m f callee args res := by
  unfold callTypesOk CallTyped
  simp only [Bool.and_eq_true, decide_eq_true_eq, List.all_eq_true]
  have e1 : opndTy m f.defs callee = some .ptr ↔ HasTy m f callee .ptr := opndTy_iff nd _ _
  have e2 : (∀ a ∈ args, (opndTy m f.defs a).isSome = true) ↔ ∀ a ∈ args, ∃ t, HasTy m f a t := by
    constructor <;> intro h a ha
    · exact (opndTy_isSome_iff nd a).1 (h a ha)
    · exact (opndTy_isSome_iff nd a).2 (h a ha)
  rw [e1, e2, and_assoc]
  refine and_congr Iff.rfl (and_congr Iff.rfl ?_)
  cases callee with
  | loc x => simp
  | glob g =>
    simp only
    cases hs : m.sigOf g with
    | none => simp
    | some pr =>
      obtain ⟨ps, r⟩ := pr
      simp only [Bool.and_eq_true, decide_eq_true_eq, argsTyped_iff nd]
      constructor
      · rintro ⟨h3, h4⟩; exact ⟨ps, r, rfl, h3, h4⟩
      · rintro ⟨ps', r', e, h3, h4⟩; cases e; exact ⟨h3, h4⟩

theorem instrTypesOk_iff {m : Module} {f : Func} (nd : (f.defs.map (·.name)).Nodup) (i : Instr) :
    instrTypesOk m f f.defs i = true ↔ InstrTyped m f i := by
  cases i with
  | const d ty c =>
    simp only [instrTypesOk, InstrTyped]
    cases ty <;> cases c <;> simp
  | undefined d ty => simp [instrTypesOk, InstrTyped]
  | literal d data => simp [instrTypesOk, InstrTyped]
  | alloc d s a => simp [instrTypesOk, InstrTyped]
  | addrof d src =>
    simp only [instrTypesOk, InstrTyped]
    cases h : opndTy m f.defs src with
    | none =>
      simp only [Bool.false_eq_true, false_iff]
      rintro ⟨s, a, hh⟩
      rw [(opndTy_iff nd _ _).2 hh] at h; cases h
    | some t =>
      have ht := (opndTy_iff nd _ _).1 h
      cases t with
      | blob s a => simp only [true_iff]; exact ⟨s, a, ht⟩
      | _ =>
        simp only [Bool.false_eq_true, false_iff]
        rintro ⟨s, a, hh⟩
        rw [(opndTy_iff nd _ _).2 hh] at h; cases h
  | binop d ty op a b => simp [instrTypesOk, InstrTyped, opndTy_iff nd, and_assoc]
  | unop d ty op a => simp [instrTypesOk, InstrTyped, opndTy_iff nd]
  | cast d ty a =>
    simp only [instrTypesOk, InstrTyped, Bool.and_eq_true, Bool.not_eq_true']
    cases h : opndTy m f.defs a with
    | none =>
      simp only [Bool.false_eq_true, and_false, false_iff]
      rintro ⟨_, t, hh, _⟩
      rw [(opndTy_iff nd _ _).2 hh] at h; cases h
    | some t =>
      have ht := (opndTy_iff nd _ _).1 h
      simp only [Bool.not_eq_true']
      constructor
      · rintro ⟨h1, h2⟩; exact ⟨h1, t, ht, h2⟩
      · rintro ⟨h1, t', hh, h2⟩
        rw [(opndTy_iff nd _ _).2 hh] at h; cases h
        exact ⟨h1, h2⟩
  | load d ty addr vol => simp [instrTypesOk, InstrTyped, opndTy_iff nd]
  | store ty v addr vol => simp [instrTypesOk, InstrTyped, opndTy_iff nd, and_assoc]
  | copyblob d s n => simp [instrTypesOk, InstrTyped, opndTy_iff nd]
  | phi d ty ins => simp [instrTypesOk, InstrTyped, opndTy_iff nd]
  | fcall d ty callee args => simp only [instrTypesOk, InstrTyped, callTypesOk_iff nd]
  | pcall callee args => simp only [instrTypesOk, InstrTyped, callTypesOk_iff nd]
  | asm t i o c => simp only [instrTypesOk, InstrTyped, List.all_eq_true, opndTy_isSome_iff nd]
  | jump t => simp [instrTypesOk, InstrTyped]
  | cjump a c b y n =>
    simp only [instrTypesOk, InstrTyped]
    cases ha : opndTy m f.defs a with
    | none =>
      simp only [Bool.false_eq_true, false_iff]
      rintro ⟨t, h1, _, _⟩
      rw [(opndTy_iff nd _ _).2 h1] at ha; cases ha
    | some t1 =>
      cases hb : opndTy m f.defs b with
      | none =>
        simp only [Bool.false_eq_true, false_iff]
        rintro ⟨t, _, h2, _⟩
        rw [(opndTy_iff nd _ _).2 h2] at hb; cases hb
      | some t2 =>
        simp only [Bool.and_eq_true, decide_eq_true_eq, Bool.not_eq_true']
        constructor
        · rintro ⟨e, h⟩
          subst e
          exact ⟨t1, (opndTy_iff nd _ _).1 ha, (opndTy_iff nd _ _).1 hb, h⟩
        · rintro ⟨t, h1, h2, h3⟩
          rw [(opndTy_iff nd _ _).2 h1] at ha; cases ha
          rw [(opndTy_iff nd _ _).2 h2] at hb; cases hb
          exact ⟨rfl, h3⟩
  | ret v =>
    simp only [instrTypesOk, InstrTyped]
    cases f.ret with
    | none => simp
    | some rt => simp [opndTy_iff nd]
  | exit => simp [instrTypesOk, InstrTyped]

/-! ## dominance of uses -/

theorem useDominated_iff {f : Func} (nd : (f.defs.map (·.name)).Nodup) (bn : String) (k : Nat) (o : Operand) :
    useDominated f f.defs bn k o = true ↔ UseDominated f bn k o := by
  cases o with
  | glob g => simp [useDominated, UseDominated]
  | loc x =>
    simp only [useDominated, UseDominated]
    constructor
    · intro h
      cases hd : findDef f.defs x with
      | none => rw [hd] at h; cases h
      | some d =>
        rw [hd] at h
        obtain ⟨h1, h2⟩ := (findDef_iff nd x d).1 hd
        refine ⟨d.ty, siteOf d, (defSite_iff f x d.ty _).2 ⟨d, h1, h2, rfl, rfl⟩, ?_⟩
        unfold siteOf
        cases hb : d.block with
        | none => trivial
        | some db =>
          simp only [hb] at h ⊢
          by_cases e : db = bn
          · rw [if_pos e] at h; exact Or.inl ⟨e, by simpa using h⟩
          · rw [if_neg e] at h; exact Or.inr ⟨e, (dominates_iff f db bn).1 h⟩
    · rintro ⟨ty, s, hs, hm⟩
      obtain ⟨d, h1, h2, _, h4⟩ := (defSite_iff f x ty s).1 hs
      rw [(findDef_iff nd x d).2 ⟨h1, h2⟩]
      subst h4
      unfold siteOf at hm
      cases hb : d.block with
      | none => simp [hb]
      | some db =>
        simp only [hb] at hm ⊢
        rcases hm with ⟨e, hlt⟩ | ⟨e, hdom⟩
        · rw [if_pos e]; simpa using hlt
        · rw [if_neg e]; exact (dominates_iff f db bn).2 hdom

theorem phiUseDominated_iff {f : Func} (nd : (f.defs.map (·.name)).Nodup) (pred : String) (o : Operand) :
    phiUseDominated f f.defs pred o = true ↔ PhiUseDominated f pred o := by
  cases o with
  | glob g => simp [phiUseDominated, PhiUseDominated]
  | loc x =>
    simp only [phiUseDominated, PhiUseDominated]
    constructor
    · intro h
      cases hd : findDef f.defs x with
      | none => rw [hd] at h; cases h
      | some d =>
        rw [hd] at h
        obtain ⟨h1, h2⟩ := (findDef_iff nd x d).1 hd
        refine ⟨d.ty, siteOf d, (defSite_iff f x d.ty _).2 ⟨d, h1, h2, rfl, rfl⟩, ?_⟩
        unfold siteOf
        cases hb : d.block with
        | none => trivial
        | some db =>
          simp only [hb] at h ⊢
          exact (dominates_iff f db pred).1 h
    · rintro ⟨ty, s, hs, hm⟩
      obtain ⟨d, h1, h2, _, h4⟩ := (defSite_iff f x ty s).1 hs
      rw [(findDef_iff nd x d).2 ⟨h1, h2⟩]
      subst h4
      unfold siteOf at hm
      cases hb : d.block with
      | none => simp [hb]
      | some db =>
        simp only [hb] at hm ⊢
        exact (dominates_iff f db pred).2 hm

theorem instrsDominated_iff (f : Func) (ds : List Def) (bn : String) (instrs : List Instr) : ∀ k : Nat,
    instrsDominated f ds bn k instrs = true ↔
      ∀ j i, instrs[j]? = some i →
        (∀ o ∈ i.uses, useDominated f ds bn (k + j) o = true) ∧
        (∀ p ∈ i.phiIns, phiUseDominated f ds p.1 p.2 = true) := by
  induction instrs with
  | nil => intro k; simp [instrsDominated]
  | cons i r ih =>
    intro k
    simp only [instrsDominated, Bool.and_eq_true, List.all_eq_true, ih]
    constructor
    · rintro ⟨⟨h1, h2⟩, h3⟩ j i' hj
      cases j with
      | zero => simp at hj; subst hj; exact ⟨by simpa using h1, h2⟩
      | succ j =>
        have := h3 j i' (by simpa using hj)
        have e : k + 1 + j = k + (j + 1) := by omega
        rw [e] at this; exact this
    · intro h
      refine ⟨⟨by simpa using (h 0 i (by simp)).1, (h 0 i (by simp)).2⟩, ?_⟩
      intro j i' hj
      have := h (j + 1) i' (by simpa using hj)
      have e : k + 1 + j = k + (j + 1) := by omega
      rw [e]; exact this

/-! ## the main theorem -/

theorem wfFunc_unfold (m : Module) (f : Func) : wfFunc m f = true ↔
    (!f.blocks.isEmpty) = true ∧ (f.blocks.head?.map (·.name)) = some f.entry ∧
    allDistinct f.blockNames = true ∧ allDistinct (f.defs.map (·.name)) = true ∧
    f.blocks.all Block.terminatedOk = true ∧
    f.blocks.all (fun b => b.instrs.all (fun i => i.targets.all f.blockNames.contains)) = true ∧
    f.blockNames.all (f.reach none).contains = true ∧
    f.blocks.all (fun b => b.phis.all (fun i =>
        allDistinct (i.phiIns.map (·.1)) && sameSet (i.phiIns.map (·.1)) (f.preds b.name))) = true ∧
    f.blocks.all (fun b => b.instrs.all (instrTypesOk m f f.defs)) = true ∧
    f.blocks.all (fun b => instrsDominated f f.defs b.name 0 b.instrs) = true := by
  simp only [wfFunc, wfChecks, List.all_cons, List.all_nil, Bool.and_true, Bool.and_eq_true,
    decide_eq_true_eq]

/-- **Main theorem (C03).**  The Boolean checker accepts `f` iff `f` is well-formed by the
    declarative definition of the property (paths, definition sites, typing relation). -/
theorem wfFunc_iff (m : Module) (f : Func) : wfFunc m f = true ↔ WF m f := by
  rw [wfFunc_unfold]
  constructor
  · rintro ⟨h1, h2, h3, h4, h5, h6, h7, h8, h9, h10⟩
    have nd := (allDistinct_iff _).1 h4
    refine ⟨?_, (allDistinct_iff _).1 h3, nd, ?_, ?_, ?_, ?_, ?_, ?_⟩
    · cases hb : f.blocks with
      | nil => rw [hb] at h2; simp at h2
      | cons b rest => rw [hb] at h2; exact ⟨b, rest, rfl, by simpa using h2⟩
    · intro b hb
      exact (terminatedOk_iff b).1 (List.all_eq_true.1 h5 b hb)
    · intro b hb i hi t ht
      have := List.all_eq_true.1 (List.all_eq_true.1 (List.all_eq_true.1 h6 b hb) i hi) t ht
      rw [List.contains_iff_mem] at this
      obtain ⟨b', hb', e⟩ := List.mem_map.1 this
      exact ⟨b', hb', e⟩
    · intro b hb
      exact (reachable_iff f b.name).1 (List.all_eq_true.1 h7 b.name (List.mem_map.2 ⟨b, hb, rfl⟩))
    · intro b hb i hi hphi
      have := List.all_eq_true.1 (List.all_eq_true.1 h8 b hb) i (by
        unfold Block.phis; exact List.mem_filter.2 ⟨hi, hphi⟩)
      simp only [Bool.and_eq_true] at this
      refine ⟨(allDistinct_iff _).1 this.1, fun p => ?_⟩
      rw [(sameSet_iff _ _).1 this.2 p, mem_preds]
    · intro b hb i hi
      exact (instrTypesOk_iff nd i).1 (List.all_eq_true.1 (List.all_eq_true.1 h9 b hb) i hi)
    · intro b hb k i hk
      have := (instrsDominated_iff f f.defs b.name b.instrs 0).1 (List.all_eq_true.1 h10 b hb) k i hk
      rw [Nat.zero_add] at this
      exact ⟨fun o ho => (useDominated_iff nd _ _ o).1 (this.1 o ho),
             fun p hp => (phiUseDominated_iff nd _ _).1 (this.2 p hp)⟩
  · intro h
    obtain ⟨b0, rest, hb0, he⟩ := h.entry_first
    have nd := h.value_names
    refine ⟨by simp [hb0], by simp [hb0, he], (allDistinct_iff _).2 h.block_names,
      (allDistinct_iff _).2 nd, ?_, ?_, ?_, ?_, ?_, ?_⟩
    · exact List.all_eq_true.2 fun b hb => (terminatedOk_iff b).2 (h.terminated b hb)
    · refine List.all_eq_true.2 fun b hb => List.all_eq_true.2 fun i hi => List.all_eq_true.2 fun t ht => ?_
      obtain ⟨b', hb', e⟩ := h.targets b hb i hi t ht
      rw [List.contains_iff_mem]
      exact List.mem_map.2 ⟨b', hb', e⟩
    · refine List.all_eq_true.2 fun n hn => ?_
      obtain ⟨b, hb, e⟩ := List.mem_map.1 hn
      subst e
      exact (reachable_iff f b.name).2 (h.reachable b hb)
    · refine List.all_eq_true.2 fun b hb => List.all_eq_true.2 fun i hi => ?_
      unfold Block.phis at hi
      obtain ⟨hi1, hi2⟩ := List.mem_filter.1 hi
      obtain ⟨p1, p2⟩ := h.phis b hb i hi1 hi2
      simp only [Bool.and_eq_true]
      refine ⟨(allDistinct_iff _).2 p1, (sameSet_iff _ _).2 fun p => ?_⟩
      rw [p2 p, mem_preds]
    · exact List.all_eq_true.2 fun b hb => List.all_eq_true.2 fun i hi =>
        (instrTypesOk_iff nd i).2 (h.typed b hb i hi)
    · refine List.all_eq_true.2 fun b hb => (instrsDominated_iff f f.defs b.name b.instrs 0).2 ?_
      intro j i hj
      obtain ⟨d1, d2⟩ := h.dominated b hb j i hj
      rw [Nat.zero_add]
      exact ⟨fun o ho => (useDominated_iff nd _ _ o).2 (d1 o ho),
             fun p hp => (phiUseDominated_iff nd _ _).2 (d2 p hp)⟩

theorem wfModule_iff (m : Module) : wfModule m = true ↔ WFModule m := by
  unfold wfModule
  simp only [Bool.and_eq_true, List.all_eq_true, allDistinct_iff, wfFunc_iff]
  exact ⟨fun ⟨a, b⟩ => ⟨a, b⟩, fun ⟨a, b⟩ => ⟨a, b⟩⟩

end Proofs.IRWF
