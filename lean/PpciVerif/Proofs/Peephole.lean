import PpciVerif.Model.Peephole
/-!
# `Proofs.Peephole` (core Lean only)

1. `runStream_eq_peep` — the window machine of `PeepHoleStream` computes the list function `peep`.
2. `erase_equiv` — deleting ONE unconditional jump that is directly followed by its target label
   (defined once) or by another jump to the same label is a `TraceEquiv` (both directions), for
   every semantics of the other instructions.
3. `peep_equiv` — `peep` is a composition of such deletions, right to left.
-/
namespace Proofs.Peephole
open Spec.ItemTrace Model.Peephole
open Model.MCode (findLabelL succsL pick Instr)

/-! ## 1. the stream is the list function -/

theorem clip_nil (size : Nat) (o : List Item) : clip size ⟨[], o⟩ = ⟨[], o⟩ := by
  rw [clip]

theorem clip_cons (size : Nat) (x : Item) (w o : List Item) :
    clip size ⟨x :: w, o⟩ = if (x :: w).length > size then clip size ⟨w, o ++ [x]⟩ else ⟨x :: w, o⟩ := by
  rw [clip]

theorem clip0 (w : List Item) : ∀ o, clip 0 ⟨w, o⟩ = ⟨[], o ++ w⟩ := by
  induction w with
  | nil => intro o; simp [clip_nil]
  | cons x w ih => intro o; rw [clip_cons]; simp [ih]

/-- the window after `b` arrived behind `a` -/
def merge (a c : Item) : List Item := if dropPair a c then [c] else [a, c]

theorem emit0 (o : List Item) (c : Item) : doEmit ⟨[], o⟩ c = ⟨[c], o⟩ := by
  simp [doEmit, clip_cons]

theorem emit1 (o : List Item) (a c : Item) : doEmit ⟨[a], o⟩ c = ⟨merge a c, o⟩ := by
  cases a <;> cases c <;> simp [doEmit, clip_cons, effect?, isLabel, dropPair, merge] <;> split <;> simp_all

theorem emit2 (o : List Item) (a b c : Item) : doEmit ⟨[a, b], o⟩ c = ⟨merge b c, o ++ [a]⟩ := by
  cases b <;> cases c <;> simp [doEmit, clip_cons, effect?, isLabel, dropPair, merge] <;> split <;> simp_all

/-- window states that occur: at most two items, never a droppable pair -/
inductive WinOk : List Item → Prop
  | nil : WinOk []
  | one (a : Item) : WinOk [a]
  | two (a b : Item) (h : dropPair a b = false) : WinOk [a, b]

theorem peep_pair (a b : Item) (rest : List Item) :
    peep (a :: b :: rest) = if dropPair a b then peep (b :: rest) else a :: peep (b :: rest) := by
  rw [peep]

theorem peep_single (a : Item) : peep [a] = [a] := by rw [peep]; intro _ _ _ h; simp at h
theorem peep_nil : peep [] = [] := by rw [peep]; intro _ _ _ h; simp at h

theorem stream_inv (items : List Item) : ∀ (w o : List Item), WinOk w →
    (flush (items.foldl doEmit ⟨w, o⟩)).out = o ++ peep (w ++ items) := by
  induction items with
  | nil =>
    intro w o hw
    simp only [List.foldl, flush, clip0, List.append_nil]
    cases hw with
    | nil => simp [peep_nil]
    | one a => simp [peep_single]
    | two a b h => simp [peep_pair, h, peep_single]
  | cons c rest ih =>
    intro w o hw
    simp only [List.foldl]
    cases hw with
    | nil => rw [emit0, ih _ _ (WinOk.one c)]; simp
    | one a =>
      rw [emit1]
      by_cases hd : dropPair a c = true
      · simp only [merge, hd, if_true]
        rw [ih _ _ (WinOk.one c)]
        simp [peep_pair, hd]
      · have hd' : dropPair a c = false := by simpa using hd
        simp only [merge, hd', Bool.false_eq_true, if_false]
        rw [ih _ _ (WinOk.two a c hd')]
        simp
    | two a b h =>
      rw [emit2]
      by_cases hd : dropPair b c = true
      · simp only [merge, hd, if_true]
        rw [ih _ _ (WinOk.one c)]
        simp [peep_pair, hd, h]
      · have hd' : dropPair b c = false := by simpa using hd
        simp only [merge, hd', Bool.false_eq_true, if_false]
        rw [ih _ _ (WinOk.two b c hd')]
        simp [peep_pair, h]

/-- `PeepHoleStream` fed with `items` and flushed hands exactly `peep items` downstream -/
theorem runStream_eq_peep (items : List Item) : runStream items = peep items := by
  unfold runStream
  rw [stream_inv items [] [] WinOk.nil]
  simp

/-! ## 2. deleting one jump -/

/-- index map of `eraseIdx i`: positions after `i` move down by one, `i` itself falls onto its successor -/
def em (i j : Nat) : Nat := if j ≤ i then j else j - 1

theorem findLabelL_shift (l : Nat) : ∀ (xs : List (Option Nat)) (base : Nat),
    findLabelL l xs (base + 1) = findLabelL l xs base + 1 := by
  intro xs
  induction xs with
  | nil => intro base; rfl
  | cons x rest ih =>
    intro base
    simp only [findLabelL]
    split
    · rfl
    · exact ih (base + 1)

theorem findLabelL_ge (l : Nat) : ∀ (xs : List (Option Nat)) (base : Nat), base ≤ findLabelL l xs base := by
  intro xs
  induction xs with
  | nil => intro base; exact Nat.le_refl _
  | cons x rest ih =>
    intro base
    simp only [findLabelL]
    split
    · exact Nat.le_refl _
    · exact Nat.le_trans (Nat.le_succ _) (ih (base + 1))

/-- erasing an entry that is not label `l` moves the position of `l` like every other index -/
theorem findLabelL_erase (l : Nat) : ∀ (xs : List (Option Nat)) (i base : Nat), xs[i]? ≠ some (some l) →
    findLabelL l (xs.eraseIdx i) base =
      (if findLabelL l xs base ≤ base + i then findLabelL l xs base else findLabelL l xs base - 1) := by
  intro xs
  induction xs with
  | nil => intro i base _; simp [findLabelL]
  | cons x rest ih =>
    intro i base h
    cases i with
    | zero =>
      have hx : x ≠ some l := by simpa using h
      have hge := findLabelL_ge l rest (base + 1)
      simp only [List.eraseIdx_cons_zero, findLabelL, hx, if_false, Nat.add_zero]
      rw [findLabelL_shift] at *
      have : ¬ findLabelL l rest base + 1 ≤ base := by omega
      simp [this]
    | succ i' =>
      simp only [List.eraseIdx_cons_succ, findLabelL]
      by_cases hx : x = some l
      · simp [hx]
      · simp only [hx, if_false]
        have h' : rest[i']? ≠ some (some l) := by simpa using h
        rw [ih i' (base + 1) h']
        have e : base + 1 + i' = base + (i' + 1) := by omega
        rw [e]

theorem labels_eraseIdx (p : List Item) (i : Nat) : labels (p.eraseIdx i) = (labels p).eraseIdx i := by
  unfold labels
  induction p generalizing i with
  | nil => simp
  | cons a rest ih =>
    cases i with
    | zero => simp
    | succ i' => simp [ih]

theorem labels_get (p : List Item) (i : Nat) : (labels p)[i]? = (p[i]?).map lab := by
  simp [labels]

/-- label resolution commutes with deleting a non-label -/
theorem findLabel_erase (p : List Item) (i l : Nat) (h : ∀ x, p[i]? = some x → lab x = none) :
    findLabel (p.eraseIdx i) l = em i (findLabel p l) := by
  unfold findLabel em
  rw [labels_eraseIdx, findLabelL_erase]
  · simp
  · rw [labels_get]
    cases hp : p[i]? with
    | none => simp
    | some x => simp [h x hp]

theorem get_erase (p : List Item) (i j : Nat) (hj : j ≠ i) : (p.eraseIdx i)[em i j]? = p[j]? := by
  unfold em
  by_cases h : j ≤ i
  · have : j < i := by omega
    simp only [h, if_true]
    exact List.getElem?_eraseIdx_of_lt this
  · simp only [h, if_false]
    rw [List.getElem?_eraseIdx_of_ge (by omega)]
    congr 1
    omega

theorem get_erase_self (p : List Item) (i : Nat) : (p.eraseIdx i)[i]? = p[i + 1]? :=
  List.getElem?_eraseIdx_of_ge (Nat.le_refl i)

theorem em_succ (i j : Nat) (hj : j ≠ i) : em i (j + 1) = em i j + 1 := by
  unfold em
  by_cases h : j ≤ i
  · have : j + 1 ≤ i := by omega
    simp [h, this]
  · have : ¬ j + 1 ≤ i := by omega
    simp only [h, this, if_false]
    omega

theorem pick_map (f : Nat → Nat) (l : List Nat) (k d : Nat) : pick (l.map f) k (f d) = f (pick l k d) := by
  unfold pick
  simp only [List.getElem?_map]
  cases l[k]? with
  | some x => rfl
  | none =>
    cases l with
    | nil => rfl
    | cons a r => rfl

theorem succsL_erase (p : List Item) (i j : Nat) (js : List Nat) (hj : j ≠ i)
    (h : ∀ x, p[i]? = some x → lab x = none) :
    succsL (labels (p.eraseIdx i)) (em i j) js = (succsL (labels p) j js).map (em i) := by
  unfold succsL
  by_cases he : js.isEmpty
  · simp [he, em_succ i j hj]
  · simp only [he, Bool.false_eq_true, if_false, List.map_map]
    apply List.map_congr_left
    intro l _
    exact findLabel_erase p i l h

/-- `p[i]` is a jump that the peephole filter may delete -/
structure Deletable (p : List Item) (i t : Nat) : Prop where
  at_i : p[i]? = some (.jump t)
  next : p[i + 1]? = some (.jump t) ∨ (p[i + 1]? = some (.label t) ∧ findLabel p t = i + 1)

def mc {σ : Type} (i : Nat) (c : Cfg σ) : Cfg σ := ⟨em i c.pc, c.st⟩

theorem nolab_of_jump {p : List Item} {i t : Nat} (h : p[i]? = some (.jump t)) :
    ∀ x, p[i]? = some x → lab x = none := by
  intro x hx
  rw [h] at hx
  cases hx
  rfl

/-- away from the deleted position both programs do the same thing -/
theorem step_erase_ne {σ : Type} (X : Exec σ) (p : List Item) (i : Nat) (c : Cfg σ) (hne : c.pc ≠ i)
    (h : ∀ x, p[i]? = some x → lab x = none) :
    step X (p.eraseIdx i) (mc i c) = (step X p c).map (fun r => (mc i r.1, r.2)) := by
  unfold step
  simp only [mc]
  rw [get_erase p i c.pc hne]
  cases hp : p[c.pc]? with
  | none => rfl
  | some it =>
    cases it with
    | label l => simp [em_succ i c.pc hne]
    | jump t' => simp [findLabel_erase p i t' h]
    | other ins =>
      simp only [Option.map]
      rw [succsL_erase p i c.pc ins.jumps hne h, ← em_succ i c.pc hne, pick_map]

/-- the deleted jump itself -/
theorem step_at {σ : Type} (X : Exec σ) (p : List Item) (i t : Nat) (st : σ) (h : p[i]? = some (.jump t)) :
    step X p ⟨i, st⟩ = some (⟨findLabel p t, st⟩, none) := by
  simp [step, h]

theorem trace_succ_none {σ : Type} (X : Exec σ) (p : List Item) (n : Nat) (c : Cfg σ) (h : step X p c = none) :
    trace X p (n + 1) c = ([], c) := by
  simp [trace, h]

theorem trace_succ_some {σ : Type} (X : Exec σ) (p : List Item) (n : Nat) (c c' : Cfg σ) (ev : Option (Event σ))
    (h : step X p c = some (c', ev)) :
    trace X p (n + 1) c = (evList ev ++ (trace X p n c').1, (trace X p n c').2) := by
  simp [trace, h]

theorem erase_fwd {σ : Type} (X : Exec σ) (p : List Item) (i t : Nat) (hd : Deletable p i t) :
    ∀ n (c : Cfg σ), ∃ n', n' ≤ n ∧
      (trace X (p.eraseIdx i) n' (mc i c)).1 = (trace X p n c).1 ∧
      (trace X (p.eraseIdx i) n' (mc i c)).2 = mc i (trace X p n c).2 := by
  have hl := nolab_of_jump hd.at_i
  intro n
  induction n with
  | zero => intro c; exact ⟨0, Nat.le_refl _, rfl, rfl⟩
  | succ n ih =>
    intro c
    by_cases hne : c.pc = i
    · -- the deleted jump: silent in `p`
      have hc : c = ⟨i, c.st⟩ := by cases c; simp at hne; simp [hne]
      have hs := step_at X p i t c.st hd.at_i
      rw [← hc] at hs
      rw [trace_succ_some X p n c _ _ hs]
      simp only [evList, List.nil_append]
      rcases hd.next with hj | ⟨hlab, hf⟩
      · -- followed by a jump to the same label: one step of `q`
        obtain ⟨n', hn', e1, e2⟩ := ih ⟨findLabel p t, c.st⟩
        refine ⟨n' + 1, by omega, ?_, ?_⟩
        · have hq : step X (p.eraseIdx i) (mc i c) = some (mc i ⟨findLabel p t, c.st⟩, none) := by
            have : (p.eraseIdx i)[i]? = some (.jump t) := by rw [get_erase_self, hj]
            simp [step, mc, hne, em, this, findLabel_erase p i t hl]
          rw [trace_succ_some X _ n' _ _ _ hq]
          simpa [evList] using e1
        · have hq : step X (p.eraseIdx i) (mc i c) = some (mc i ⟨findLabel p t, c.st⟩, none) := by
            have : (p.eraseIdx i)[i]? = some (.jump t) := by rw [get_erase_self, hj]
            simp [step, mc, hne, em, this, findLabel_erase p i t hl]
          rw [trace_succ_some X _ n' _ _ _ hq]
          exact e2
      · -- followed by its label: `q` is already there
        obtain ⟨n', hn', e1, e2⟩ := ih ⟨findLabel p t, c.st⟩
        have hsame : mc i (⟨findLabel p t, c.st⟩ : Cfg σ) = mc i c := by
          simp [mc, hf, hne, em]
        rw [hsame] at e1 e2
        exact ⟨n', by omega, e1, e2⟩
    · have hs := step_erase_ne X p i c hne hl
      cases hp : step X p c with
      | none =>
        rw [hp] at hs
        refine ⟨0, by omega, ?_, ?_⟩
        · simp [trace, hp]
        · simp [trace, hp]
      | some r =>
        obtain ⟨c', ev⟩ := r
        rw [hp] at hs
        simp only [Option.map] at hs
        obtain ⟨n', hn', e1, e2⟩ := ih c'
        refine ⟨n' + 1, by omega, ?_, ?_⟩
        · rw [trace_succ_some X _ n' _ _ _ hs, trace_succ_some X p n c _ _ hp]
          simp [e1]
        · rw [trace_succ_some X _ n' _ _ _ hs, trace_succ_some X p n c _ _ hp]
          exact e2

theorem erase_bwd {σ : Type} (X : Exec σ) (p : List Item) (i t : Nat) (hd : Deletable p i t) :
    ∀ n' (c : Cfg σ), ∃ n, n' ≤ n ∧
      (trace X p n c).1 = (trace X (p.eraseIdx i) n' (mc i c)).1 ∧
      mc i (trace X p n c).2 = (trace X (p.eraseIdx i) n' (mc i c)).2 := by
  have hl := nolab_of_jump hd.at_i
  intro n'
  induction n' with
  | zero => intro c; exact ⟨0, Nat.le_refl _, rfl, rfl⟩
  | succ n' ih =>
    intro c
    by_cases hne : c.pc = i
    · have hc : c = ⟨i, c.st⟩ := by cases c; simp at hne; simp [hne]
      have hs := step_at X p i t c.st hd.at_i
      rw [← hc] at hs
      rcases hd.next with hj | ⟨hlab, hf⟩
      · -- `q` executes the second jump, `p` the first: one step each
        have hq : step X (p.eraseIdx i) (mc i c) = some (mc i ⟨findLabel p t, c.st⟩, none) := by
          have : (p.eraseIdx i)[i]? = some (.jump t) := by rw [get_erase_self, hj]
          simp [step, mc, hne, em, this, findLabel_erase p i t hl]
        obtain ⟨n, hn, e1, e2⟩ := ih ⟨findLabel p t, c.st⟩
        refine ⟨n + 1, by omega, ?_, ?_⟩
        · rw [trace_succ_some X p n c _ _ hs, trace_succ_some X _ n' _ _ _ hq]
          simpa [evList] using e1
        · rw [trace_succ_some X p n c _ _ hs, trace_succ_some X _ n' _ _ _ hq]
          exact e2
      · -- `q` passes the label: `p` jumps to it and passes it (two steps)
        have hq : step X (p.eraseIdx i) (mc i c) = some (mc i ⟨i + 2, c.st⟩, none) := by
          have : (p.eraseIdx i)[i]? = some (.label t) := by rw [get_erase_self, hlab]
          simp [step, mc, hne, em, this]
        have hs2 : step X p ⟨i + 1, c.st⟩ = some (⟨i + 2, c.st⟩, none) := by
          simp [step, hlab]
        rw [hf] at hs
        obtain ⟨n, hn, e1, e2⟩ := ih ⟨i + 2, c.st⟩
        refine ⟨n + 2, by omega, ?_, ?_⟩
        · rw [trace_succ_some X p (n + 1) c _ _ hs, trace_succ_some X p n _ _ _ hs2,
              trace_succ_some X _ n' _ _ _ hq]
          simpa [evList] using e1
        · rw [trace_succ_some X p (n + 1) c _ _ hs, trace_succ_some X p n _ _ _ hs2,
              trace_succ_some X _ n' _ _ _ hq]
          exact e2
    · have hs := step_erase_ne X p i c hne hl
      cases hp : step X p c with
      | none =>
        rw [hp] at hs
        refine ⟨n' + 1, Nat.le_refl _, ?_, ?_⟩
        · simp [trace, hp, hs]
        · simp [trace, hp, hs]
      | some r =>
        obtain ⟨c', ev⟩ := r
        rw [hp] at hs
        simp only [Option.map] at hs
        obtain ⟨n, hn, e1, e2⟩ := ih c'
        refine ⟨n + 1, by omega, ?_, ?_⟩
        · rw [trace_succ_some X _ n' _ _ _ hs, trace_succ_some X p n c _ _ hp]
          simp [e1]
        · rw [trace_succ_some X _ n' _ _ _ hs, trace_succ_some X p n c _ _ hp]
          exact e2

/-- deleting one deletable jump is a trace equivalence -/
theorem erase_equiv {σ : Type} (X : Exec σ) (p : List Item) (i t : Nat) (hd : Deletable p i t) :
    TraceEquiv X p (p.eraseIdx i) (em i) := by
  constructor
  · intro n c
    obtain ⟨n', h1, h2, h3⟩ := erase_fwd X p i t hd n c
    refine ⟨n', h1, h2, ?_, ?_⟩
    · have := congrArg Cfg.pc h3; simpa [mc] using this
    · have := congrArg Cfg.st h3; simpa [mc] using this
  · intro n' c
    obtain ⟨n, h1, h2, h3⟩ := erase_bwd X p i t hd n' c
    refine ⟨n, h1, h2, ?_, ?_⟩
    · have := congrArg Cfg.pc h3; simpa [mc] using this
    · have := congrArg Cfg.st h3; simpa [mc] using this

/-! ## 3. `peep` is a composition of deletions -/

theorem equiv_refl {σ : Type} (X : Exec σ) (p : List Item) : TraceEquiv X p p id := by
  constructor
  · intro n c; exact ⟨n, Nat.le_refl _, rfl, rfl, rfl⟩
  · intro n c; exact ⟨n, Nat.le_refl _, rfl, rfl, rfl⟩

theorem equiv_trans {σ : Type} (X : Exec σ) (p q r : List Item) (m₁ m₂ : Nat → Nat)
    (h₁ : TraceEquiv X p q m₁) (h₂ : TraceEquiv X q r m₂) : TraceEquiv X p r (m₂ ∘ m₁) := by
  constructor
  · intro n c
    obtain ⟨n1, a1, a2, a3, a4⟩ := h₁.1 n c
    obtain ⟨n2, b1, b2, b3, b4⟩ := h₂.1 n1 ⟨m₁ c.pc, c.st⟩
    refine ⟨n2, by omega, ?_, ?_, ?_⟩
    · simpa [Function.comp] using b2.trans a2
    · simp only [Function.comp]; rw [b3, a3]
    · simp only [Function.comp]; rw [b4, a4]
  · intro n' c
    obtain ⟨n1, b1, b2, b3, b4⟩ := h₂.2 n' ⟨m₁ c.pc, c.st⟩
    obtain ⟨n, a1, a2, a3, a4⟩ := h₁.2 n1 c
    refine ⟨n, by omega, ?_, ?_, ?_⟩
    · simpa [Function.comp] using a2.trans b2
    · simp only [Function.comp]; rw [a3, b3]
    · simp only [Function.comp]; rw [a4, b4]

/-- a dropped item is a jump whose target is the effect of its successor -/
theorem dropPair_true {a b : Item} (h : dropPair a b = true) : ∃ t, a = .jump t ∧ effect? b = some t := by
  cases a <;> cases b <;> simp_all [dropPair, effect?]

theorem effect_some {b : Item} {t : Nat} (h : effect? b = some t) : b = .jump t ∨ b = .label t := by
  cases b <;> simp_all [effect?]

/-- the first item of `peep (b :: rest)` has the effect of `b` -/
theorem peep_head (rest : List Item) : ∀ b, ∃ b' r', peep (b :: rest) = b' :: r' ∧ effect? b' = effect? b := by
  induction rest with
  | nil => intro b; exact ⟨b, [], peep_single b, rfl⟩
  | cons c rest ih =>
    intro b
    rw [peep_pair]
    by_cases hd : dropPair b c = true
    · obtain ⟨c', r', e1, e2⟩ := ih c
      obtain ⟨t, hb, hc⟩ := dropPair_true hd
      refine ⟨c', r', by simp [hd, e1], ?_⟩
      rw [e2, hc, hb]; rfl
    · exact ⟨b, peep (c :: rest), by simp [hd], rfl⟩

/-- labels are never dropped -/
theorem peep_labels : ∀ (l : List Item), (peep l).filterMap lab = l.filterMap lab
  | [] => by rw [peep_nil]
  | [a] => by rw [peep_single]
  | a :: b :: rest => by
    rw [peep_pair]
    have ih := peep_labels (b :: rest)
    by_cases hd : dropPair a b = true
    · obtain ⟨t, ha, _⟩ := dropPair_true hd
      simp only [hd, if_true, ih]
      subst ha
      rw [List.filterMap_cons (a := Item.jump t)]
      rfl
    · simp only [hd, Bool.false_eq_true, if_false]
      rw [List.filterMap_cons, List.filterMap_cons, ih]

theorem findLabelL_unique (t : Nat) : ∀ (p : List Item) (k base : Nat), p[k]? = some (.label t) →
    (p.filterMap lab).Nodup → findLabelL t (labels p) base = base + k := by
  intro p
  induction p with
  | nil => intro k base h; simp at h
  | cons x rest ih =>
    intro k base h nd
    cases k with
    | zero =>
      have : x = .label t := by simpa using h
      subst this
      simp [labels, lab, findLabelL]
    | succ k' =>
      have hk : rest[k']? = some (.label t) := by simpa using h
      have hmem : t ∈ rest.filterMap lab := by
        refine List.mem_filterMap.mpr ⟨.label t, ?_, rfl⟩
        exact List.mem_of_getElem? hk
      by_cases hx : lab x = some t
      · exfalso
        rw [List.filterMap_cons, hx] at nd
        exact (List.nodup_cons.mp nd).1 hmem
      · have nd' : (rest.filterMap lab).Nodup := by
          rw [List.filterMap_cons] at nd
          cases hl : lab x with
          | none => simpa [hl] using nd
          | some y => rw [hl] at nd; exact (List.nodup_cons.mp nd).2
        have := ih k' (base + 1) hk nd'
        simp only [labels, List.map_cons, findLabelL, hx, if_false] at *
        rw [this]; omega

theorem peep_equiv_gen {σ : Type} (X : Exec σ) : ∀ (l pre : List Item), LabelsDistinct (pre ++ l) →
    ∃ m : Nat → Nat, m 0 = 0 ∧ TraceEquiv X (pre ++ l) (pre ++ peep l) m := by
  intro l
  induction l with
  | nil => intro pre _; exact ⟨id, rfl, by rw [peep_nil]; exact equiv_refl X _⟩
  | cons a l' ih =>
    intro pre hd
    cases l' with
    | nil => exact ⟨id, rfl, by rw [peep_single]; exact equiv_refl X _⟩
    | cons b rest =>
      have e : pre ++ a :: b :: rest = (pre ++ [a]) ++ (b :: rest) := by simp
      obtain ⟨m₁, hm₁, h₁⟩ := ih (pre ++ [a]) (by rw [← e]; exact hd)
      rw [← e] at h₁
      have e' : (pre ++ [a]) ++ peep (b :: rest) = pre ++ a :: peep (b :: rest) := by simp
      rw [e'] at h₁
      rw [peep_pair]
      by_cases hdp : dropPair a b = true
      · simp only [hdp, if_true]
        obtain ⟨t, ha, hb⟩ := dropPair_true hdp
        obtain ⟨b', r', ep, eb⟩ := peep_head rest b
        rw [ep] at h₁ ⊢
        subst ha
        have hb' : effect? b' = some t := by rw [eb, hb]
        -- distinct labels of the intermediate program
        have fmj : ∀ Y : List Item, List.filterMap lab (pre ++ Item.jump t :: Y) =
            List.filterMap lab pre ++ List.filterMap lab Y := by
          intro Y
          rw [List.filterMap_append, List.filterMap_cons (a := Item.jump t)]
          rfl
        have hd' : LabelsDistinct (pre ++ .jump t :: b' :: r') := by
          unfold LabelsDistinct at hd ⊢
          have := peep_labels (b :: rest)
          rw [ep] at this
          rw [fmj, this, ← fmj]
          exact hd
        have hdel : Deletable (pre ++ .jump t :: b' :: r') pre.length t := by
          constructor
          · simp
          · have hn : (pre ++ Item.jump t :: b' :: r')[pre.length + 1]? = some b' := by
              rw [List.getElem?_append_right (by omega)]
              simp
            rcases effect_some hb' with rfl | rfl
            · exact Or.inl hn
            · refine Or.inr ⟨hn, ?_⟩
              have := findLabelL_unique t _ (pre.length + 1) 0 hn hd'
              simpa [findLabel] using this
        have h₂ := erase_equiv X _ pre.length t hdel
        have ee : (pre ++ Item.jump t :: b' :: r').eraseIdx pre.length = pre ++ b' :: r' := by
          rw [List.eraseIdx_append_of_length_le (Nat.le_refl _)]
          simp
        rw [ee] at h₂
        exact ⟨em pre.length ∘ m₁, by simp [Function.comp, hm₁, em], equiv_trans X _ _ _ _ _ h₁ h₂⟩
      · simp only [hdp, Bool.false_eq_true, if_false]
        exact ⟨m₁, hm₁, h₁⟩

/-- the peephole rewrite preserves the label-resolved trace semantics of every stream whose
    label names are distinct, whatever the other instructions do -/
theorem peep_equiv {σ : Type} (X : Exec σ) (p : List Item) (hd : LabelsDistinct p) :
    ∃ m : Nat → Nat, m 0 = 0 ∧ TraceEquiv X p (peep p) m := by
  simpa using peep_equiv_gen X p [] (by simpa using hd)

/-- a stream without unconditional-jump items (every target but x86-64: no instruction class has an
    `effect` method) passes unchanged -/
theorem peep_id_of_no_jump : ∀ (l : List Item), (∀ x ∈ l, ∀ t, x ≠ .jump t) → peep l = l
  | [], _ => peep_nil
  | [a], _ => peep_single a
  | a :: b :: rest, h => by
    rw [peep_pair]
    have hnd : dropPair a b = false := by
      cases hd : dropPair a b with
      | false => rfl
      | true =>
        obtain ⟨t, ha, _⟩ := dropPair_true hd
        exact absurd ha (h a List.mem_cons_self t)
    simp only [hnd, Bool.false_eq_true, if_false]
    rw [peep_id_of_no_jump (b :: rest) (fun x hx => h x (List.mem_cons_of_mem _ hx))]

/-- everything that is not an unconditional jump survives, in order -/
theorem peep_keeps_non_jumps : ∀ (l : List Item),
    (peep l).filter (fun x => (effect? x).isNone || isLabel x) = l.filter (fun x => (effect? x).isNone || isLabel x)
  | [] => by rw [peep_nil]
  | [a] => by rw [peep_single]
  | a :: b :: rest => by
    rw [peep_pair]
    have ih := peep_keeps_non_jumps (b :: rest)
    by_cases hd : dropPair a b = true
    · obtain ⟨t, ha, _⟩ := dropPair_true hd
      simp only [hd, if_true, ih]
      subst ha
      rw [List.filter_cons (x := Item.jump t)]
      simp [effect?, isLabel]
    · simp only [hd, Bool.false_eq_true, if_false]
      rw [List.filter_cons, List.filter_cons, ih]

end Proofs.Peephole
