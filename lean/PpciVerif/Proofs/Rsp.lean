import PpciVerif.Model.Rsp
import PpciVerif.Spec.Rsp
/-! Helper lemmas for C35 (GDB RSP). -/
namespace Proofs.Rsp
open Model.Rsp

/-! ### escaping -/

theorem escapeData_cons (c : Nat) (cs : List Nat) :
    escapeData (c :: cs) = Spec.Rsp.escChar c ++ escapeData cs := by
  unfold escapeData Spec.Rsp.escChar Spec.Rsp.special
  by_cases h1 : c = 125
  · subst h1; simp [replaceCh]
  · by_cases h2 : c = 42
    · subst h2; simp [replaceCh]
    · by_cases h3 : c = 35
      · subst h3; simp [replaceCh]
      · by_cases h4 : c = 36
        · subst h4; simp [replaceCh]
        · simp [replaceCh, h1, h2, h3, h4]

/-- the four successive `str.replace` calls are the character-wise escaping of the spec -/
theorem escapeData_eq (d : List Nat) : escapeData d = Spec.Rsp.escape d := by
  induction d with
  | nil => simp [escapeData, replaceCh, Spec.Rsp.escape]
  | cons c cs ih => rw [escapeData_cons, ih]; simp [Spec.Rsp.escape]

theorem escChar_no_hash (c : Nat) : ∀ b ∈ Spec.Rsp.escChar c, b ≠ 35 := by
  unfold Spec.Rsp.escChar Spec.Rsp.special
  by_cases h1 : c = 125
  · subst h1; simp
  · by_cases h2 : c = 42
    · subst h2; simp
    · by_cases h3 : c = 35
      · subst h3; simp
      · by_cases h4 : c = 36
        · subst h4; simp
        · simp [h1, h2, h3, h4]

/-- escaped packet-data never contains `#` -/
theorem escape_no_hash (p : List Nat) : ∀ b ∈ Spec.Rsp.escape p, b ≠ 35 := by
  intro b hb
  simp only [Spec.Rsp.escape, List.mem_flatMap] at hb
  obtain ⟨c, _, hc⟩ := hb
  exact escChar_no_hash c b hc

theorem unescAux_escChar (c : Nat) (rest : List Nat) :
    unescAux false (Spec.Rsp.escChar c ++ rest) = c :: unescAux false rest := by
  unfold Spec.Rsp.escChar Spec.Rsp.special
  by_cases h1 : c = 125
  · subst h1; simp [unescAux]
  · by_cases h2 : c = 42
    · subst h2; simp [unescAux]
    · by_cases h3 : c = 35
      · subst h3; simp [unescAux]
      · by_cases h4 : c = 36
        · subst h4; simp [unescAux]
        · simp [unescAux, h1, h2, h3, h4]

/-- the unescape loop of `rsp_unpack` inverts the escaping of `rsp_pack` -/
theorem unescape_escape (p : List Nat) : unescape (Spec.Rsp.escape p) = p := by
  unfold unescape
  induction p with
  | nil => simp [Spec.Rsp.escape, unescAux]
  | cons c cs ih =>
    have : Spec.Rsp.escape (c :: cs) = Spec.Rsp.escChar c ++ Spec.Rsp.escape cs := by
      simp [Spec.Rsp.escape]
    rw [this, unescAux_escChar, ih]

/-- the flag loop is the two-character specification -/
theorem unescAux_eq_spec : ∀ d : List Nat, unescAux false d = Spec.Rsp.unescape d
  | [] => by simp [unescAux, Spec.Rsp.unescape]
  | [c] => by by_cases h : c = 125 <;> simp [unescAux, Spec.Rsp.unescape, h]
  | c :: d :: rest => by
    have ih1 := unescAux_eq_spec rest
    have ih2 := unescAux_eq_spec (d :: rest)
    by_cases h : c = 125
    · subst h; simp only [unescAux, Spec.Rsp.unescape, if_true, ih1]
    · rw [Spec.Rsp.unescape, if_neg h, ← ih2]; simp [unescAux, h]

theorem unescape_eq_spec (d : List Nat) : unescape d = Spec.Rsp.unescape d := unescAux_eq_spec d

/-! ### the checksum field -/

theorem hexVal_hexUp : ∀ d, d < 16 → hexVal (hexUp d) = some d := by decide

theorem checksum_lt (d : List Nat) : checksum d < 256 := by
  unfold checksum; omega

theorem pyInt16_hexUp (n : Nat) (h : n < 256) :
    pyInt16 (hexUp (n / 16)) (hexUp (n % 16)) = some (n : Int) := by
  unfold pyInt16
  rw [hexVal_hexUp (n / 16) (by omega), hexVal_hexUp (n % 16) (by omega)]
  simp only [Option.some.injEq]
  congr 1; omega

/-- the field written by `rsp_pack` is accepted by `rsp_unpack` -/
theorem crcAccepts_pack (d : List Nat) :
    crcAccepts d (hexUp (checksum d / 16)) (hexUp (checksum d % 16)) = true := by
  unfold crcAccepts
  rw [pyInt16_hexUp _ (checksum_lt d)]
  simp

theorem hexDigit?_eq (c : Nat) : Spec.Rsp.hexDigit? c = hexVal c := rfl

theorem checksum_eq (d : List Nat) : Spec.Rsp.checksum d = checksum d := rfl

/-- … and is a good checksum in the sense of the specification -/
theorem checksumOk_pack (d : List Nat) :
    Spec.Rsp.checksumOk d (hexUp (checksum d / 16)) (hexUp (checksum d % 16)) = true := by
  unfold Spec.Rsp.checksumOk
  have h := checksum_lt d
  rw [hexDigit?_eq, hexDigit?_eq, hexVal_hexUp _ (by omega), hexVal_hexUp _ (by omega)]
  simp [checksum_eq]; omega

/-- the checksum field is exactly two hex digits -/
def strictField (c1 c2 : Nat) : Bool := (hexVal c1).isSome && (hexVal c2).isSome

/-- on two-hex-digit fields `int(s,16)` is the specification's reading -/
theorem crcAccepts_eq_checksumOk_of_strict (d : List Nat) (c1 c2 : Nat) (h : strictField c1 c2 = true) :
    crcAccepts d c1 c2 = Spec.Rsp.checksumOk d c1 c2 := by
  unfold strictField at h
  unfold crcAccepts Spec.Rsp.checksumOk pyInt16
  rw [hexDigit?_eq, hexDigit?_eq]
  cases h1 : hexVal c1 with
  | none => simp [h1] at h
  | some x =>
    cases h2 : hexVal c2 with
    | none => simp [h2] at h
    | some y =>
      simp only [checksum_eq]
      by_cases e : 16 * x + y = checksum d
      · simp [e]
      · have h3 : ¬ ((checksum d : Int) = 16 * (x : Int) + (y : Int)) := by omega
        simp [e, h3]

/-- a good checksum (specification) is always accepted -/
theorem checksumOk_imp_crcAccepts (d : List Nat) (c1 c2 : Nat) (h : Spec.Rsp.checksumOk d c1 c2 = true) :
    crcAccepts d c1 c2 = true := by
  have hs : strictField c1 c2 = true := by
    unfold Spec.Rsp.checksumOk at h
    unfold strictField
    rw [hexDigit?_eq, hexDigit?_eq] at h
    cases h1 : hexVal c1 <;> cases h2 : hexVal c2 <;> simp [h1, h2] at h ⊢
  rw [crcAccepts_eq_checksumOk_of_strict d c1 c2 hs, h]

/-! ### rsp_unpack on a frame -/

theorem unpack_frame (d : List Nat) (c1 c2 : Nat) :
    unpack (36 :: (d ++ [35, c1, c2])) =
      if crcAccepts d c1 c2 then .ok (unescape d) else .error .valueError := by
  have hr : (36 :: (d ++ [35, c1, c2])).reverse = c2 :: c1 :: 35 :: (d.reverse ++ [36]) := by simp
  simp only [unpack]
  rw [hr]
  simp

/-! ### the receive path -/

theorem feed_cons (h : HState) (b : Nat) (bs : List Nat) : feed h (b :: bs) = feed (processByte h b) bs := rfl

theorem feed_nil (h : HState) : feed h [] = h := rfl

theorem feed_append (h : HState) (a b : List Nat) : feed h (a ++ b) = feed (feed h a) b := by
  simp [feed, List.foldl_append]

theorem feed_err (q s dl e) (dec : DState) (bs : List Nat) :
    feed ⟨dec, q, s, dl, some e⟩ bs = ⟨dec, q, s, dl, some e⟩ := by
  induction bs with
  | nil => rfl
  | cons b bs ih => rw [feed_cons]; simpa [processByte] using ih

/-- inside a packet nothing happens until `#` -/
theorem feed_body (buf : List Nat) (q s dl) (d : List Nat) (hd : ∀ b ∈ d, b ≠ 35) :
    feed ⟨.body buf, q, s, dl, none⟩ d = ⟨.body (buf ++ d), q, s, dl, none⟩ := by
  induction d generalizing buf with
  | nil => simp [feed_nil]
  | cons b bs ih =>
    have hb : b ≠ 35 := hd b (by simp)
    rw [feed_cons]
    have : processByte ⟨.body buf, q, s, dl, none⟩ b = ⟨.body (buf ++ [b]), q, s, dl, none⟩ := by
      simp [processByte, dstep, hb]
    rw [this, ih (buf ++ [b]) (fun x hx => hd x (by simp [hx]))]
    simp

/-- a whole frame `$ d # c1 c2` arriving in the idle state is handed to `decodepkt` -/
theorem feed_frame (q s dl) (d : List Nat) (c1 c2 : Nat) (hd : ∀ b ∈ d, b ≠ 35) :
    feed ⟨.idle, q, s, dl, none⟩ (36 :: (d ++ [35, c1, c2])) =
      decodepkt ⟨.idle, q, s, dl, none⟩ (36 :: (d ++ [35, c1, c2])) := by
  rw [feed_cons]
  have h0 : processByte ⟨.idle, q, s, dl, none⟩ 36 = ⟨.body [36], q, s, dl, none⟩ := by
    simp [processByte, dstep]
  rw [h0, feed_append, feed_body [36] q s dl d hd]
  simp [feed, processByte, dstep]

theorem decodepkt_frame (h : HState) (d : List Nat) (c1 c2 : Nat) :
    decodepkt h (36 :: (d ++ [35, c1, c2])) =
      if crcAccepts d c1 c2 then { h with sent := h.sent ++ [[43]], delivered := h.delivered ++ [unescape d] }
      else { h with sent := h.sent ++ [[45]] } := by
  unfold decodepkt
  rw [unpack_frame]
  by_cases hc : crcAccepts d c1 c2 = true <;> simp [hc]

/-- what a frame does to an idle handler -/
theorem feed_frame_result (q s dl) (d : List Nat) (c1 c2 : Nat) (hd : ∀ b ∈ d, b ≠ 35) :
    feed ⟨.idle, q, s, dl, none⟩ (36 :: (d ++ [35, c1, c2])) =
      if crcAccepts d c1 c2 then ⟨.idle, q, s ++ [[43]], dl ++ [unescape d], none⟩
      else ⟨.idle, q, s ++ [[45]], dl, none⟩ := by
  rw [feed_frame q s dl d c1 c2 hd, decodepkt_frame]

/-! ### streams of items -/
open Spec.Rsp (Item)

/-- the payload the CODE hands over for an item (acceptance by `int(cc,16)`) -/
def mPayload : Item → Option (List Nat)
  | .frame d c1 c2 => if crcAccepts d c1 c2 then some (unescape d) else none
  | _ => none

/-- the acknowledgement the CODE writes for an item -/
def mReply : Item → Option (List Nat)
  | .frame d c1 c2 => if crcAccepts d c1 c2 then some [43] else some [45]
  | _ => none

/-- frames the code accepts although their checksum field is not two hex digits (`+0`, ` 5`, …):
    exactly the region where the code and the specification differ -/
def laxItem : Item → Bool
  | .frame d c1 c2 => crcAccepts d c1 c2 && !strictField c1 c2
  | _ => false

theorem strict_or_not_accepted (d : List Nat) (c1 c2 : Nat) (h : laxItem (.frame d c1 c2) = false) :
    crcAccepts d c1 c2 = Spec.Rsp.checksumOk d c1 c2 := by
  by_cases hs : strictField c1 c2 = true
  · exact crcAccepts_eq_checksumOk_of_strict d c1 c2 hs
  · have ha : crcAccepts d c1 c2 = false := by
      simp only [laxItem, Bool.and_eq_false_iff] at h
      rcases h with h | h
      · exact h
      · simp [hs] at h
    have hn : Spec.Rsp.checksumOk d c1 c2 = false := by
      cases hc : Spec.Rsp.checksumOk d c1 c2 with
      | false => rfl
      | true => rw [checksumOk_imp_crcAccepts d c1 c2 hc] at ha; cases ha
    rw [ha, hn]

theorem mPayload_eq_spec (it : Item) (h : laxItem it = false) : mPayload it = it.payload? := by
  cases it with
  | ack c => rfl
  | noise b => rfl
  | frame d c1 c2 =>
    simp only [mPayload, Item.payload?, strict_or_not_accepted d c1 c2 h, unescape_eq_spec]

theorem mReply_eq_spec (it : Item) (h : laxItem it = false) : mReply it = it.reply? := by
  cases it with
  | ack c => rfl
  | noise b => rfl
  | frame d c1 c2 =>
    simp only [mReply, Item.reply?, strict_or_not_accepted d c1 c2 h]

theorem render_cons (it : Item) (rest : List Item) :
    Spec.Rsp.render (it :: rest) = it.render ++ Spec.Rsp.render rest := by
  simp [Spec.Rsp.render]

theorem render_append (a b : List Item) :
    Spec.Rsp.render (a ++ b) = Spec.Rsp.render a ++ Spec.Rsp.render b := by
  simp [Spec.Rsp.render]

theorem feed_noise (q s dl) (b : Nat) (h : (Item.noise b).wf = true) :
    feed ⟨.idle, q, s, dl, none⟩ [b] = ⟨.idle, q, s, dl, none⟩ := by
  simp only [Item.wf, Bool.and_eq_true, bne_iff_ne, ne_eq] at h
  simp [feed, processByte, dstep, h]

theorem feed_ack (s dl) (c : Nat) (h : (Item.ack c).wf = true) :
    feed ⟨.idle, none, s, dl, none⟩ [c] = ⟨.idle, some c, s, dl, none⟩ := by
  simp only [Item.wf, Bool.or_eq_true, beq_iff_eq] at h
  rcases h with h | h <;> subst h <;> simp [feed, processByte, dstep]

/-- a second acknowledgement while the slot is occupied is `queue.Full` -/
theorem feed_ack_full (a : Nat) (s dl) (c : Nat) (h : (Item.ack c).wf = true) :
    feed ⟨.idle, some a, s, dl, none⟩ [c] = ⟨.idle, some a, s, dl, some .full⟩ := by
  simp only [Item.wf, Bool.or_eq_true, beq_iff_eq] at h
  rcases h with h | h <;> subst h <;> simp [feed, processByte, dstep]

theorem frame_wf_no_hash (d : List Nat) (c1 c2 : Nat) (h : (Item.frame d c1 c2).wf = true) :
    ∀ b ∈ d, b ≠ 35 := by
  intro b hb e
  subst e
  simp only [Item.wf, Bool.not_eq_true', List.contains_eq_mem] at h
  simp [hb] at h

/-- a stream of frames and noise bytes (no acknowledgements): one reply per frame, the
    accepted frames are delivered in order, once each; the ack slot is not touched -/
theorem feed_items_noack (items : List Item) (q s dl)
    (hw : ∀ it ∈ items, it.wf = true ∧ it.isAck = false) :
    feed ⟨.idle, q, s, dl, none⟩ (Spec.Rsp.render items) =
      ⟨.idle, q, s ++ items.filterMap mReply, dl ++ items.filterMap mPayload, none⟩ := by
  induction items generalizing s dl with
  | nil => simp [Spec.Rsp.render, feed_nil]
  | cons it rest ih =>
    have hrest : ∀ x ∈ rest, x.wf = true ∧ x.isAck = false := fun x hx => hw x (by simp [hx])
    have hit := hw it (by simp)
    rw [render_cons, feed_append]
    cases it with
    | ack c => simp [Item.isAck] at hit
    | noise b =>
      simp only [Item.render]
      rw [feed_noise q s dl b hit.1, ih s dl hrest,
        List.filterMap_cons_none (f := mReply) rfl, List.filterMap_cons_none (f := mPayload) rfl]
    | frame d c1 c2 =>
      simp only [Item.render]
      rw [feed_frame_result q s dl d c1 c2 (frame_wf_no_hash d c1 c2 hit.1)]
      cases hc : crcAccepts d c1 c2 with
      | true =>
        have e1 : mReply (.frame d c1 c2) = some [43] := by simp [mReply, hc]
        have e2 : mPayload (.frame d c1 c2) = some (unescape d) := by simp [mPayload, hc]
        simp only [if_true]
        rw [ih _ _ hrest, List.filterMap_cons_some e1, List.filterMap_cons_some e2]
        simp
      | false =>
        have e1 : mReply (.frame d c1 c2) = some [45] := by simp [mReply, hc]
        have e2 : mPayload (.frame d c1 c2) = none := by simp [mPayload, hc]
        simp only [Bool.false_eq_true, if_false]
        rw [ih _ _ hrest, List.filterMap_cons_some e1, List.filterMap_cons_none e2]
        simp

/-! ### the decoder alone -/

theorem decodeAll_append (s : DState) (a b : List Nat) :
    decodeAll s (a ++ b) =
      ((decodeAll (decodeAll s a).1 b).1, (decodeAll s a).2 ++ (decodeAll (decodeAll s a).1 b).2) := by
  induction a generalizing s with
  | nil => simp [decodeAll]
  | cons x xs ih =>
    simp only [List.cons_append, decodeAll]
    rw [ih]
    cases (dstep s x).2 <;> simp

theorem decodeAll_body (buf d : List Nat) (hd : ∀ b ∈ d, b ≠ 35) :
    decodeAll (.body buf) d = (.body (buf ++ d), []) := by
  induction d generalizing buf with
  | nil => simp [decodeAll]
  | cons b bs ih =>
    have hb : b ≠ 35 := hd b (by simp)
    simp only [decodeAll, dstep, hb, if_false]
    rw [ih (buf ++ [b]) (fun x hx => hd x (by simp [hx]))]
    simp

/-- up to and including the first checksum character nothing is yielded -/
theorem decodeAll_frame_init (d : List Nat) (c1 : Nat) (hd : ∀ b ∈ d, b ≠ 35) :
    decodeAll .idle (36 :: (d ++ [35, c1])) = (.crc2 (36 :: (d ++ [35, c1])), []) := by
  have h1 : decodeAll .idle (36 :: (d ++ [35, c1])) = decodeAll (.body [36]) (d ++ [35, c1]) := by
    simp [decodeAll, dstep]
  rw [h1, decodeAll_append, decodeAll_body [36] d hd]
  simp [decodeAll, dstep]

/-- the frame is yielded on its last byte -/
theorem decodeAll_frame (d : List Nat) (c1 c2 : Nat) (hd : ∀ b ∈ d, b ≠ 35) :
    decodeAll .idle (36 :: (d ++ [35, c1, c2])) = (.idle, [.pkt (36 :: (d ++ [35, c1, c2]))]) := by
  have e : 36 :: (d ++ [35, c1, c2]) = (36 :: (d ++ [35, c1])) ++ [c2] := by simp
  rw [e, decodeAll_append, decodeAll_frame_init d c1 hd]
  simp [decodeAll, dstep]

/-- while the decoder yields nothing the handler only moves its decoder state -/
theorem feed_silent (dec : DState) (q s dl) (bs : List Nat) (h : (decodeAll dec bs).2 = []) :
    feed ⟨dec, q, s, dl, none⟩ bs = ⟨(decodeAll dec bs).1, q, s, dl, none⟩ := by
  induction bs generalizing dec with
  | nil => simp [decodeAll, feed_nil]
  | cons b bs ih =>
    simp only [decodeAll] at h ⊢
    rw [feed_cons]
    cases hm : (dstep dec b).2 with
    | some m => simp [hm] at h
    | none =>
      simp only [hm] at h
      have : processByte ⟨dec, q, s, dl, none⟩ b = ⟨(dstep dec b).1, q, s, dl, none⟩ := by
        simp [processByte, hm]
      rw [this, ih _ h]

/-! ### the sender -/
open Spec.Rsp (nacksBeforePlus transmissions outcome Outcome)

/-- one reply of the peer, with what it does to an idle handler whose ack slot is free -/
structure Round where
  bytes : List Nat                 -- the bytes injected by the transmission
  ack : Nat                        -- the one acknowledgement they contain
  sent : List (List Nat)           -- what the receive path writes while processing them
  deliv : List (List Nat)          -- what it delivers
  deriving Repr

def Round.good (r : Round) : Prop :=
  ∀ s dl, feed ⟨.idle, none, s, dl, none⟩ r.bytes = ⟨.idle, some r.ack, s ++ r.sent, dl ++ r.deliv, none⟩

def errOf : Outcome → Option Err
  | .acked => none
  | .retryFail => some .valueError
  | .timeout => some .empty

theorem nacks_cons_plus (acks : List Nat) : nacksBeforePlus (43 :: acks) = 0 := by
  simp [nacksBeforePlus]

theorem nacks_cons_ne (a : Nat) (acks : List Nat) (h : a ≠ 43) :
    nacksBeforePlus (a :: acks) = 1 + nacksBeforePlus acks := by
  simp [nacksBeforePlus, h]; omega

theorem nacks_le_length (acks : List Nat) : nacksBeforePlus acks ≤ acks.length := by
  unfold nacksBeforePlus
  exact (List.takeWhile_sublist _).length_le

/-- the retransmission loop: `k = min n R` further transmissions, where `n` counts the
    leading non-`+` acknowledgements starting with the one in hand -/
theorem resend_rounds (wire : List Nat) (rounds : List Round) (hg : ∀ r ∈ rounds, r.good)
    (s dl : List (List Nat)) (res : Nat) (R : Nat) (hR : 1 ≤ R) :
    resend wire (rounds.map Round.bytes) ⟨.idle, none, s, dl, none⟩ res (R : Int) =
      let A := res :: rounds.map Round.ack
      let k := min (nacksBeforePlus A) R
      ⟨.idle, none,
        s ++ (rounds.take k).flatMap (fun r => wire :: r.sent) ++ (if outcome R A = .timeout then [wire] else []),
        dl ++ (rounds.take k).flatMap Round.deliv,
        errOf (outcome R A)⟩ := by
  induction rounds generalizing s dl res R with
  | nil =>
    by_cases hres : res = 43
    · subst hres
      have : (0 : Nat) < R := by omega
      simp [resend, nacks_cons_plus, outcome, errOf, this]
    · have hn : nacksBeforePlus [res] = 1 := by simp [nacksBeforePlus, hres]
      have ho : outcome R [res] = .timeout := by
        simp only [outcome, hn, List.length_singleton]
        by_cases h1 : 1 < R
        · simp [h1]
        · have : ¬ R < 1 := by omega
          simp [h1, this]
      simp [resend, transmit, feed_nil, hres, hn, ho, errOf]
  | cons r rest ih =>
    have hgr : r.good := hg r (by simp)
    have hgrest : ∀ x ∈ rest, x.good := fun x hx => hg x (by simp [hx])
    by_cases hres : res = 43
    · subst hres
      have : (0 : Nat) < R := by omega
      simp [resend, nacks_cons_plus, outcome, errOf, this]
    · have hn : nacksBeforePlus (res :: r.ack :: List.map Round.ack rest)
          = 1 + nacksBeforePlus (r.ack :: List.map Round.ack rest) := nacks_cons_ne res _ hres
      have hfeed := hgr (s ++ [wire]) dl
      simp only [List.map_cons, resend, if_neg hres, transmit]
      simp only [hfeed, Option.isSome_none, Bool.false_eq_true, if_false]
      by_cases h1 : R = 1
      · subst h1
        have ho : outcome 1 (res :: r.ack :: List.map Round.ack rest) = .retryFail := by
          simp only [outcome, hn, List.length_cons, List.length_map]
          have a1 : ¬ (1 + nacksBeforePlus (r.ack :: List.map Round.ack rest) < 1) := by omega
          have a2 : 1 < rest.length + 1 + 1 := by omega
          simp only [a1, a2, if_false, if_true]
        have hk : min (nacksBeforePlus (res :: r.ack :: List.map Round.ack rest)) 1 = 1 := by
          rw [hn]; omega
        simp [ho, hk, errOf]
      · have hR' : 1 ≤ R - 1 := by omega
        have hne : ¬ ((R : Int) - 1 = 0) := by omega
        have hcast : ((R : Int) - 1) = ((R - 1 : Nat) : Int) := by omega
        simp only [if_neg hne]
        rw [hcast, ih hgrest _ _ r.ack (R - 1) hR']
        have hnA := hn
        have hk : min (nacksBeforePlus (res :: r.ack :: List.map Round.ack rest)) R
            = 1 + min (nacksBeforePlus (r.ack :: List.map Round.ack rest)) (R - 1) := by
          rw [hnA]; omega
        have ho : outcome R (res :: r.ack :: List.map Round.ack rest)
            = outcome (R - 1) (r.ack :: List.map Round.ack rest) := by
          simp only [outcome, hnA, List.length_cons, List.length_map]
          have e1 : (1 + nacksBeforePlus (r.ack :: List.map Round.ack rest) < R)
              ↔ (nacksBeforePlus (r.ack :: List.map Round.ack rest) < R - 1) := by omega
          have e2 : (1 + nacksBeforePlus (r.ack :: List.map Round.ack rest) < rest.length + 1 + 1)
              ↔ (nacksBeforePlus (r.ack :: List.map Round.ack rest) < rest.length + 1) := by omega
          have e3 : (R < rest.length + 1 + 1) ↔ (R - 1 < rest.length + 1) := by omega
          simp only [e1, e2, e3]
        rw [hk, ho]
        simp [List.take_succ_cons, Nat.add_comm 1]

/-- `sendpkt` against a peer whose every reply carries exactly one acknowledgement -/
theorem sendpkt_rounds (data : List Nat) (rounds : List Round) (hg : ∀ r ∈ rounds, r.good)
    (s dl : List (List Nat)) (R : Nat) (hR : 1 ≤ R) :
    sendpkt ⟨.idle, none, s, dl, none⟩ data (R : Int) (rounds.map Round.bytes) =
      let A := rounds.map Round.ack
      let t := transmissions R A
      ⟨.idle, none,
        s ++ (rounds.take t).flatMap (fun r => pack data :: r.sent)
          ++ (if outcome R A = .timeout then [pack data] else []),
        dl ++ (rounds.take t).flatMap Round.deliv,
        errOf (outcome R A)⟩ := by
  cases rounds with
  | nil =>
    have : (0 : Nat) < R := by omega
    simp [sendpkt, transmit, feed_nil, outcome, nacksBeforePlus, errOf, this]
  | cons r rest =>
    have hgr : r.good := hg r (by simp)
    have hgrest : ∀ x ∈ rest, x.good := fun x hx => hg x (by simp [hx])
    have hfeed := hgr (s ++ [pack data]) dl
    simp only [sendpkt, List.map_cons, List.headD_cons, List.tail_cons, transmit,
      Option.isSome_none, Bool.false_eq_true, if_false]
    simp only [hfeed, Option.isSome_none, Bool.false_eq_true, if_false]
    rw [resend_rounds (pack data) rest hgrest _ _ r.ack R hR]
    simp [transmissions, List.take_succ_cons, Nat.add_comm 1]

/-- a reply that is just the acknowledgement byte -/
def Round.ofAck (a : Nat) : Round := ⟨[a], a, [], []⟩

theorem Round.ofAck_good (a : Nat) (h : a = 43 ∨ a = 45) : (Round.ofAck a).good := by
  intro s dl
  have hw : (Item.ack a).wf = true := by rcases h with h | h <;> subst h <;> rfl
  simpa [Round.ofAck] using feed_ack s dl a hw

/-- a reply with notifications / noise before and after the acknowledgement -/
def Round.ofItems (pre : List Item) (a : Nat) (post : List Item) : Round :=
  ⟨Spec.Rsp.render (pre ++ [.ack a] ++ post), a,
   (pre ++ post).filterMap mReply, (pre ++ post).filterMap mPayload⟩

theorem Round.ofItems_good (pre post : List Item) (a : Nat) (h : a = 43 ∨ a = 45)
    (hpre : ∀ it ∈ pre, it.wf = true ∧ it.isAck = false)
    (hpost : ∀ it ∈ post, it.wf = true ∧ it.isAck = false) : (Round.ofItems pre a post).good := by
  intro s dl
  have hw : (Item.ack a).wf = true := by rcases h with h | h <;> subst h <;> rfl
  simp only [Round.ofItems, render_append, feed_append]
  rw [feed_items_noack pre none s dl hpre]
  have : Spec.Rsp.render [Item.ack a] = [a] := by simp [Spec.Rsp.render, Item.render]
  rw [this, feed_ack _ _ a hw, feed_items_noack post (some a) _ _ hpost]
  simp [List.filterMap_append]

/-! ### facts about the sender specification -/

theorem transmissions_of_not_timeout (R : Nat) (acks : List Nat) (h : outcome R acks ≠ .timeout) :
    transmissions R acks ≤ acks.length := by
  have hle := nacks_le_length acks
  unfold outcome at h
  unfold transmissions
  by_cases h1 : nacksBeforePlus acks < R
  · by_cases h2 : nacksBeforePlus acks < acks.length
    · omega
    · simp [h1, h2] at h
  · by_cases h2 : R < acks.length
    · omega
    · simp [h1, h2] at h

theorem transmissions_of_timeout (R : Nat) (acks : List Nat) (h : outcome R acks = .timeout) :
    transmissions R acks = acks.length + 1 := by
  have hle := nacks_le_length acks
  unfold outcome at h
  unfold transmissions
  by_cases h1 : nacksBeforePlus acks < R
  · by_cases h2 : nacksBeforePlus acks < acks.length
    · simp [h1, h2] at h
    · omega
  · by_cases h2 : R < acks.length
    · simp [h1, h2] at h
    · omega

theorem flatMap_const_singleton {α β : Type} (l : List α) (x : β) :
    l.flatMap (fun _ => [x]) = List.replicate l.length x := by
  induction l with
  | nil => rfl
  | cons a l ih => simp [List.replicate_succ, ih]

theorem filterMap_congr' {α β : Type} (l : List α) (f g : α → Option β) (h : ∀ x ∈ l, f x = g x) :
    l.filterMap f = l.filterMap g := by
  induction l with
  | nil => rfl
  | cons a l ih =>
    have ha := h a (by simp)
    have hl := ih (fun x hx => h x (by simp [hx]))
    simp [List.filterMap_cons, ha, hl]

theorem flatMap_congr' {α β : Type} (l : List α) (f g : α → List β) (h : ∀ x ∈ l, f x = g x) :
    l.flatMap f = l.flatMap g := by
  induction l with
  | nil => rfl
  | cons a l ih =>
    have ha := h a (by simp)
    have hl := ih (fun x hx => h x (by simp [hx]))
    simp [ha, hl]

theorem pack_eq (p : List Nat) :
    pack p = 36 :: (Spec.Rsp.escape p ++
      [35, hexUp (checksum (Spec.Rsp.escape p) / 16), hexUp (checksum (Spec.Rsp.escape p) % 16)]) := by
  simp [pack, escapeData_eq]

end Proofs.Rsp
