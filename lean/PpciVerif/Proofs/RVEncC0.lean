import PpciVerif.Proofs.RVEnc
/-!
C08 Thm B, compressed classes, stage 1: `Spec.RV32.decodeC` of a parcel assembled from its five
coarse fields (`op`, bits 6:2, bits 11:7, bit 12, `funct3`) is the field-level decoder `decodeCF`
(every 16-bit parcel is such an assembly).
-/
set_option linter.unusedSimpArgs false
set_option linter.unusedVariables false
namespace Proofs.RVEnc
open Spec.RV32 Model.RVEnc

def asmC (op lo5 hi5 b12 f3 : Nat) : Nat := op + lo5 * 4 + hi5 * 128 + b12 * 4096 + f3 * 8192

structure BndC (op lo5 hi5 b12 f3 : Nat) : Prop where
  op : op < 4
  lo5 : lo5 < 32
  hi5 : hi5 < 32
  b12 : b12 < 2
  f3 : f3 < 8

theorem fieldsC (w : Nat) : w = asmC (w % 4) (w / 4 % 32) (w / 128 % 32) (w / 4096 % 2) (w / 8192) := by
  unfold asmC; omega

def immCIF (lo5 b12 : Nat) : Int := sext 6 (b12 * 32 + lo5)
def immCJF (lo5 hi5 b12 : Nat) : Int :=
  sext 12 (b12 * 2048 + hi5 / 16 * 16 + hi5 / 4 % 4 * 256 + hi5 / 2 % 2 * 1024
           + hi5 % 2 * 64 + lo5 / 16 * 128 + lo5 / 2 % 8 * 2 + lo5 % 2 * 32)
def immCBF (lo5 hi5 b12 : Nat) : Int :=
  sext 9 (b12 * 256 + hi5 / 8 * 8 + lo5 / 8 * 64 + lo5 / 2 % 4 * 2 + lo5 % 2 * 32)

/-- `Spec.RV32.decodeC` on the fields -/
def decodeCF (op lo5 hi5 b12 f3 : Nat) : Option CInstr :=
  if op = 0 then
    (if f3 = 0 then
       (let nz := (hi5 % 16) * 64 + (hi5 / 16 + b12 * 2) * 16 + (lo5 / 8 % 2) * 8 + (lo5 / 16) * 4
        if nz = 0 then none else some (.addi4spn (8 + lo5 % 8) nz))
     else if f3 = 2 then some (.lw (8 + lo5 % 8) (8 + hi5 % 8) ((lo5 / 8 % 2) * 64 + (hi5 / 8 + b12 * 4) * 8 + (lo5 / 16) * 4))
     else if f3 = 6 then some (.sw (8 + lo5 % 8) (8 + hi5 % 8) ((lo5 / 8 % 2) * 64 + (hi5 / 8 + b12 * 4) * 8 + (lo5 / 16) * 4))
     else none)
  else if op = 1 then
    (if f3 = 0 then (if hi5 = 0 then (if immCIF lo5 b12 = 0 then some .nop else none) else some (.addi hi5 (immCIF lo5 b12)))
     else if f3 = 1 then some (.jal (immCJF lo5 hi5 b12))
     else if f3 = 2 then some (.li hi5 (immCIF lo5 b12))
     else if f3 = 3 then
       (if hi5 = 2 then
          (let nz := sext 10 (b12 * 512 + (lo5 / 2 % 4) * 128 + (lo5 / 8 % 2) * 64 + (lo5 % 2) * 32 + (lo5 / 16) * 16)
           if nz = 0 then none else some (.addi16sp nz))
        else if immCIF lo5 b12 = 0 then none else some (.lui hi5 (immCIF lo5 b12)))
     else if f3 = 4 then
       (let sel := (hi5 / 8)
        if sel = 0 then (if b12 = 0 then some (.srli (8 + hi5 % 8) lo5) else none)
        else if sel = 1 then (if b12 = 0 then some (.srai (8 + hi5 % 8) lo5) else none)
        else if sel = 2 then some (.andi (8 + hi5 % 8) (immCIF lo5 b12))
        else if b12 = 0 then
          (let f2 := (lo5 / 8)
           if f2 = 0 then some (.alu .sub (8 + hi5 % 8) (8 + lo5 % 8))
           else if f2 = 1 then some (.alu .xor (8 + hi5 % 8) (8 + lo5 % 8))
           else if f2 = 2 then some (.alu .or (8 + hi5 % 8) (8 + lo5 % 8))
           else some (.alu .and (8 + hi5 % 8) (8 + lo5 % 8)))
        else none)
     else if f3 = 5 then some (.j (immCJF lo5 hi5 b12))
     else if f3 = 6 then some (.beqz (8 + hi5 % 8) (immCBF lo5 hi5 b12))
     else some (.bnez (8 + hi5 % 8) (immCBF lo5 hi5 b12)))
  else if op = 2 then
    (if f3 = 0 then (if b12 = 0 then some (.slli hi5 lo5) else none)
     else if f3 = 2 then
       (if hi5 = 0 then none else some (.lwsp hi5 ((lo5 % 4) * 64 + b12 * 32 + (lo5 / 4) * 4)))
     else if f3 = 4 then
       (if b12 = 0 then
          (if lo5 = 0 then (if hi5 = 0 then none else some (.jr hi5)) else some (.mv hi5 lo5))
        else
          (if lo5 = 0 then (if hi5 = 0 then some .ebreak else some (.jalr hi5)) else some (.add hi5 lo5)))
     else if f3 = 6 then some (.swsp lo5 ((hi5 % 4) * 64 + (hi5 / 4 + b12 * 8) * 4))
     else none)
  else none

theorem decodeC_asmC {op lo5 hi5 b12 f3 : Nat} (hb : BndC op lo5 hi5 b12 f3) :
    decodeC (asmC op lo5 hi5 b12 f3) = decodeCF op lo5 hi5 b12 f3 := by
  obtain ⟨h1, h2, h3, h4, h5⟩ := hb
  have e0 : ¬ (2 ^ 16 ≤ asmC op lo5 hi5 b12 f3) := by unfold asmC; omega
  have e_0_2 : bits (asmC op lo5 hi5 b12 f3) 0 2 = op := by unfold bits asmC; omega
  have e_2_1 : bits (asmC op lo5 hi5 b12 f3) 2 1 = (lo5 % 2) := by unfold bits asmC; omega
  have e_2_2 : bits (asmC op lo5 hi5 b12 f3) 2 2 = (lo5 % 4) := by unfold bits asmC; omega
  have e_2_3 : bits (asmC op lo5 hi5 b12 f3) 2 3 = (lo5 % 8) := by unfold bits asmC; omega
  have e_2_5 : bits (asmC op lo5 hi5 b12 f3) 2 5 = lo5 := by unfold bits asmC; omega
  have e_3_2 : bits (asmC op lo5 hi5 b12 f3) 3 2 = (lo5 / 2 % 4) := by unfold bits asmC; omega
  have e_3_3 : bits (asmC op lo5 hi5 b12 f3) 3 3 = (lo5 / 2 % 8) := by unfold bits asmC; omega
  have e_4_3 : bits (asmC op lo5 hi5 b12 f3) 4 3 = (lo5 / 4) := by unfold bits asmC; omega
  have e_5_1 : bits (asmC op lo5 hi5 b12 f3) 5 1 = (lo5 / 8 % 2) := by unfold bits asmC; omega
  have e_5_2 : bits (asmC op lo5 hi5 b12 f3) 5 2 = (lo5 / 8) := by unfold bits asmC; omega
  have e_6_1 : bits (asmC op lo5 hi5 b12 f3) 6 1 = (lo5 / 16) := by unfold bits asmC; omega
  have e_7_1 : bits (asmC op lo5 hi5 b12 f3) 7 1 = (hi5 % 2) := by unfold bits asmC; omega
  have e_7_2 : bits (asmC op lo5 hi5 b12 f3) 7 2 = (hi5 % 4) := by unfold bits asmC; omega
  have e_7_3 : bits (asmC op lo5 hi5 b12 f3) 7 3 = (hi5 % 8) := by unfold bits asmC; omega
  have e_7_4 : bits (asmC op lo5 hi5 b12 f3) 7 4 = (hi5 % 16) := by unfold bits asmC; omega
  have e_7_5 : bits (asmC op lo5 hi5 b12 f3) 7 5 = hi5 := by unfold bits asmC; omega
  have e_8_1 : bits (asmC op lo5 hi5 b12 f3) 8 1 = (hi5 / 2 % 2) := by unfold bits asmC; omega
  have e_9_2 : bits (asmC op lo5 hi5 b12 f3) 9 2 = (hi5 / 4 % 4) := by unfold bits asmC; omega
  have e_9_4 : bits (asmC op lo5 hi5 b12 f3) 9 4 = (hi5 / 4 + b12 * 8) := by unfold bits asmC; omega
  have e_10_2 : bits (asmC op lo5 hi5 b12 f3) 10 2 = (hi5 / 8) := by unfold bits asmC; omega
  have e_10_3 : bits (asmC op lo5 hi5 b12 f3) 10 3 = (hi5 / 8 + b12 * 4) := by unfold bits asmC; omega
  have e_11_1 : bits (asmC op lo5 hi5 b12 f3) 11 1 = (hi5 / 16) := by unfold bits asmC; omega
  have e_11_2 : bits (asmC op lo5 hi5 b12 f3) 11 2 = (hi5 / 16 + b12 * 2) := by unfold bits asmC; omega
  have e_12_1 : bits (asmC op lo5 hi5 b12 f3) 12 1 = b12 := by unfold bits asmC; omega
  have e_13_3 : bits (asmC op lo5 hi5 b12 f3) 13 3 = f3 := by unfold bits asmC; omega
  have i1 : immCI (asmC op lo5 hi5 b12 f3) = immCIF lo5 b12 := by unfold immCI immCIF; rw [e_12_1, e_2_5]
  have i2 : immCJ (asmC op lo5 hi5 b12 f3) = immCJF lo5 hi5 b12 := by
    unfold immCJ immCJF; rw [e_12_1, e_11_1, e_9_2, e_8_1, e_7_1, e_6_1, e_3_3, e_2_1]
  have i3 : immCB (asmC op lo5 hi5 b12 f3) = immCBF lo5 hi5 b12 := by
    unfold immCB immCBF; rw [e_12_1, e_10_2, e_5_2, e_3_2, e_2_1]
  unfold decodeC decodeCF
  simp only [e0, e_0_2, e_2_1, e_2_2, e_2_3, e_2_5, e_3_2, e_3_3, e_4_3, e_5_1, e_5_2, e_6_1, e_7_1, e_7_2, e_7_3, e_7_4, e_7_5, e_8_1, e_9_2, e_9_4, e_10_2, e_10_3, e_11_1, e_11_2, e_12_1, e_13_3, i1, i2, i3, if_false]

end Proofs.RVEnc
