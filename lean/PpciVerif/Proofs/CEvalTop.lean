import PpciVerif.Proofs.CEvalMain
/-!
C27/C28: packing and the four users of constant expressions; totality of the pipeline.
-/
set_option linter.unusedSimpArgs false
namespace Proofs.CEval
open Model.CEval Model.CSyntax
open Spec.CInt (Expr Base Suffix UnOp BinOp inRange convert uac typeOf arith toU ofU litType)

/-! ### packing -/

theorem pack_eq (τ : Ty) (v : Int) :
    pack τ v = structPack τ.size τ.isSigned (toIntegerType τ v) := by
  cases τ <;> rfl

theorem structPack_ok (τ : Ty) {w : Int} (h : InRangeM τ w) :
    structPack τ.size τ.isSigned w =
      .ok ((List.range τ.size).map fun i => ((w % 2 ^ (8 * τ.size)) / 256 ^ i % 256).toNat) := by
  unfold structPack
  have : (if τ.isSigned = true then -(2 ^ (8 * τ.size - 1)) else (0:Int)) ≤ w ∧
      w ≤ (if τ.isSigned = true then 2 ^ (8 * τ.size - 1) - 1 else 2 ^ (8 * τ.size) - 1) := by
    simpa [InRangeM, limitMax] using h
  simp only [this, and_self, if_true]

/-- `CContext.pack` never raises for an integer value, whatever its size -/
theorem pack_total (τ : Ty) (v : Int) : ∃ bs, pack τ v = .ok bs := by
  rw [pack_eq, structPack_ok τ (toIntegerType_inRange τ v)]; exact ⟨_, rfl⟩

theorem pack_spec (σ : Spec.CInt.Ty) {w : Int} (h : inRange σ w = true) :
    pack (M σ) w = .ok (Spec.CInt.bytesLE σ w) := by
  have hr := (inRangeM_iff σ w).mpr h
  rw [pack_eq, toIntegerType_of_inRange hr, structPack_ok _ hr]
  cases σ <;> rfl

/-- `pack` of ANY integer is the image of the value converted to the type -/
theorem pack_convert (σ : Spec.CInt.Ty) (v : Int) :
    pack (M σ) v = .ok (Spec.CInt.bytesLE σ (convert σ v)) := by
  have h := pack_spec σ (convert_inRange σ v)
  rw [pack_eq] at h ⊢
  rw [← toIntegerType_eq_convert, toIntegerType_idem] at h
  rw [← toIntegerType_eq_convert]; exact h

/-! ### enum and pointer types -/

theorem packAny_basic (τ : Ty) (v : Int) : packAny (.basic τ) v = pack τ v := rfl
theorem packAny_enum (v : Int) : packAny .enum v = pack .int v := rfl
theorem packAny_ptr (v : Int) : packAny .ptr v = pack .ulong v := rfl

/-- `CContext.pack` never raises for any type it accepts (integer basic types, enums, pointers) and any integer -/
theorem packAny_total (t : PackTy) (v : Int) : ∃ bs, packAny t v = .ok bs := by
  cases t with
  | basic τ => exact pack_total τ v
  | enum => exact pack_total .int v
  | ptr => exact pack_total .ulong v

theorem packAny_enum_spec (v : Int) :
    packAny .enum v = .ok (Spec.CInt.bytesLE .int (convert .int v)) := by
  rw [packAny_enum]; exact pack_convert .int v

theorem packAny_ptr_spec (v : Int) :
    packAny .ptr v = .ok (Spec.CInt.bytesLE .ulong (convert .ulong v)) := by
  rw [packAny_ptr]; exact pack_convert .ulong v

/-! ### a value implies a type -/

theorem typeOf_of_eval : ∀ (e : Expr) (v : Int), Spec.CInt.eval e = some v → ∃ σ, typeOf e = some σ := by
  intro e
  induction e with
  | lit b s x =>
    intro v h
    simp only [Spec.CInt.eval, Option.map_eq_some_iff] at h
    obtain ⟨σ, hσ, _⟩ := h
    exact ⟨σ, by simp [typeOf, hσ]⟩
  | chr x =>
    intro v h
    simp only [Spec.CInt.eval] at h
    split at h
    · rename_i hx; exact ⟨.int, by simp [typeOf, hx]⟩
    · cases h
  | cast τ a ih =>
    intro v h
    simp only [Spec.CInt.eval, Option.map_eq_some_iff] at h
    obtain ⟨x, hx, _⟩ := h
    obtain ⟨σ, hσ⟩ := ih x hx
    exact ⟨τ, by simp [typeOf, hσ]⟩
  | un op a _ =>
    intro v h
    cases hsa : typeOf a with
    | none => simp [Spec.CInt.eval, hsa] at h
    | some sa => cases op <;> simp [typeOf, hsa]
  | bin op a b _ _ =>
    intro v h
    cases hsa : typeOf a with
    | none => simp [Spec.CInt.eval, hsa] at h
    | some sa =>
      cases hsb : typeOf b with
      | none => simp [Spec.CInt.eval, hsa, hsb] at h
      | some sb =>
        simp only [typeOf, hsa, hsb]
        split
        · exact ⟨_, rfl⟩
        · split <;> exact ⟨_, rfl⟩
  | cond c a b _ _ _ =>
    intro v h
    cases hsc : typeOf c with
    | none => simp [Spec.CInt.eval, hsc] at h
    | some sc =>
      cases hsa : typeOf a with
      | none => simp [Spec.CInt.eval, hsc, hsa] at h
      | some sa =>
        cases hsb : typeOf b with
        | none => simp [Spec.CInt.eval, hsc, hsa, hsb] at h
        | some sb => exact ⟨uac sa sb, by simp [typeOf, hsc, hsa, hsb]⟩

/-- the heart of C27: typing and value of every expression C gives a value to -/
theorem elab_eval (e : Expr) (v : Int) (h : Spec.CInt.eval e = some v) :
    ∃ σ t, typeOf e = some σ ∧ elaborate (render e) = .ok t ∧ t.ty = M σ ∧ eval t = .ok v ∧ inRange σ v = true := by
  obtain ⟨σ, hσ⟩ := typeOf_of_eval e v h
  obtain ⟨t, ht⟩ := elab_sound e σ hσ
  exact ⟨σ, t, hσ, ht.elab_ok, ht.ty, ht.value v h, ht.inRange h⟩

/-! ### the four users -/

theorem initializer_spec (τ : Spec.CInt.Ty) (e : Expr) (bs : List Nat) (h : Spec.CInt.initBytes τ e = some bs) :
    initializer (M τ) (render e) = .ok bs := by
  simp only [Spec.CInt.initBytes, Option.map_eq_some_iff] at h
  obtain ⟨v, hv, rfl⟩ := h
  obtain ⟨σ, t, _, he, hty, hev, hr⟩ := elab_eval e v hv
  simp only [initializer, he, bind_ok, eval_coerce_M hty hev hr]
  exact pack_spec τ (convert_inRange τ v)

theorem caseLabel_spec (ctl : Spec.CInt.Ty) (e : Expr) (v : Int) (h : Spec.CInt.caseLabel ctl e = some v) :
    caseLabel (M ctl) (render e) = .ok v := by
  simp only [Spec.CInt.caseLabel, Option.map_eq_some_iff] at h
  obtain ⟨x, hx, rfl⟩ := h
  obtain ⟨σ, t, _, he, hty, hev, hr⟩ := elab_eval e x hx
  simp only [caseLabel, he, bind_ok, promoteTy_M, eval_coerce_M hty hev hr]

theorem enumerator_spec (e : Expr) (v : Int) (h : Spec.CInt.enumerator e = some v) :
    enumerator (render e) = .ok v := by
  unfold Spec.CInt.enumerator at h
  cases hx : Spec.CInt.eval e with
  | none => simp [hx] at h
  | some x =>
    simp only [hx] at h
    split at h
    · injection h with h; subst h
      obtain ⟨σ, t, _, he, _, hev, _⟩ := elab_eval e x hx
      simp only [enumerator, he, bind_ok, hev]
    · cases h

theorem arraySize_spec (e : Expr) (v : Int) (h : Spec.CInt.arrayBound e = some v) :
    arraySize (render e) = .ok v := by
  unfold Spec.CInt.arrayBound at h
  cases hx : Spec.CInt.eval e with
  | none => simp [hx] at h
  | some x =>
    simp only [hx] at h
    split at h
    · rename_i hb
      injection h with h; subst h
      obtain ⟨σ, t, _, he, hty, hev, hr⟩ := elab_eval e x hx
      have hlong : inRange .long x = true := by
        simp only [inRange, Spec.CInt.Ty.minV, Spec.CInt.Ty.maxV, Spec.CInt.Ty.signed, Spec.CInt.Ty.bits, if_true,
          Bool.and_eq_true, decide_eq_true_eq] at hb ⊢
        omega
      have := eval_coerce_M (σ' := .long) hty hev hr
      rw [convert_of_inRange hlong] at this
      simp only [arraySize, he, bind_ok, sizeT]
      exact this
    · cases h

theorem initializerEnum_spec (e : Expr) (bs : List Nat) (h : Spec.CInt.initBytesEnum e = some bs) :
    initializerEnum (render e) = .ok bs := by
  simp only [Spec.CInt.initBytesEnum, Option.map_eq_some_iff] at h
  obtain ⟨v, hv, rfl⟩ := h
  obtain ⟨σ, t, _, he, _, hev, _⟩ := elab_eval e v hv
  simp only [initializerEnum, he, bind_ok, hev]
  exact packAny_enum_spec v

theorem initializerPtr_spec (e : Expr) (bs : List Nat) (h : Spec.CInt.initBytesPtr e = some bs) :
    initializerPtr (render e) = .ok bs := by
  simp only [Spec.CInt.initBytesPtr, Option.map_eq_some_iff] at h
  obtain ⟨v, hv, rfl⟩ := h
  obtain ⟨σ, t, _, he, _, hev, _⟩ := elab_eval e v hv
  simp only [initializerPtr, he, bind_ok, hev]
  exact packAny_ptr_spec v

/-! ### enumerator lists -/

theorem enumValuesFrom_spec : ∀ (l : List (Option Expr)) (next : Int) (vs : List Int),
    Spec.CInt.enumValuesFrom next l = some vs →
    enumValuesFrom next (l.map (Option.map render)) = .ok vs := by
  intro l
  induction l with
  | nil => intro next vs h; simp [Spec.CInt.enumValuesFrom] at h; subst h; rfl
  | cons item rest ih =>
    intro next vs h
    simp only [Spec.CInt.enumValuesFrom] at h
    cases item with
    | none =>
      simp only at h
      split at h
      · simp only [Option.map_eq_some_iff] at h
        obtain ⟨ws, hws, rfl⟩ := h
        simp only [List.map_cons, Option.map_none, enumValuesFrom, bind_ok, pure_eq_ok, ih _ _ hws]
      · cases h
    | some e =>
      simp only at h
      cases hv : Spec.CInt.eval e with
      | none => simp [hv] at h
      | some v =>
        simp only [hv] at h
        split at h
        · rename_i hr
          simp only [Option.map_eq_some_iff] at h
          obtain ⟨ws, hws, rfl⟩ := h
          have he : enumerator (render e) = .ok v :=
            enumerator_spec e v (by simp [Spec.CInt.enumerator, hv, hr])
          simp only [List.map_cons, Option.map_some, enumValuesFrom, he, bind_ok, pure_eq_ok, ih _ _ hws]
        · cases h

theorem enumValues_spec (l : List (Option Expr)) (vs : List Int) (h : Spec.CInt.enumValues l = some vs) :
    enumValues (l.map (Option.map render)) = .ok vs :=
  enumValuesFrom_spec l 0 vs h

end Proofs.CEval
