import PpciVerif.Proofs.T1_PyRt
import PpciVerif.Proofs.PyInt
/-!
T1 (py2lean): literal bit masks of `Model.PyInt` operators as `/` and `%`, so that a generated
`x & 0x7F` and a rewritten `x % 128` normalise to the same term.
-/
namespace Proofs.T1
open Model Model.PyRt Spec.Bits Proofs.Bits Proofs.PyInt

theorem and_127 (x : Int) : PyInt.and x 127 = x % 128 := by simpa using and_mask x 7
theorem and_1 (x : Int) : PyInt.and x 1 = x % 2 := and_one x
theorem and_0xFF (x : Int) : PyInt.and x 255 = x % 256 := and_255 x
theorem and_0xFFFFFFFF (x : Int) : PyInt.and x 4294967295 = x % 4294967296 := by simpa using and_mask x 32

/-- a single-bit mask tests one binary digit -/
theorem and_bit (x : Int) (k : Nat) : PyInt.and x (2 ^ k) = (x / 2 ^ k % 2) * 2 ^ k := by
  rw [and_pow]
  unfold testBit
  have h := Int.emod_two_eq (x / 2 ^ k)
  by_cases h1 : x / 2 ^ k % 2 = 1
  · simp [h1]
  · have h0 : x / 2 ^ k % 2 = 0 := by omega
    simp [h0]
theorem and_64 (x : Int) : PyInt.and x 64 = (x / 64 % 2) * 64 := by simpa using and_bit x 6
theorem and_128 (x : Int) : PyInt.and x 128 = (x / 128 % 2) * 128 := by simpa using and_bit x 7

/-- `b | 0x80` on a 7-bit value -/
theorem or_128 {b : Int} (h0 : 0 ≤ b) (h1 : b < 128) : PyInt.or b 128 = b + 128 := by
  have := or_eq_add_of_lt 1 (k := 7) (b := b) ⟨h0, by simpa using h1⟩
  rw [Proofs.PyInt.or_comm]; simp at this; rw [this]; omega


/-- normal form for comparing generated code with hand models: literal masks, shifts, floor
    division / modulo by positive literals become `/` and `%` on `Int` (so `x & 0x7F` and
    `x % 128`, `x >> 1` and `x // 2`, `x << 1` and `x * 2` normalise to the same term) -/
macro "py_norm" : tactic => `(tactic| try simp only [Proofs.T1.fmod_pos, Proofs.T1.fdiv_pos, Int.reduceLT,
  Proofs.T1.and_1, Proofs.T1.and_127, Proofs.T1.and_0xFF, Proofs.T1.and_0xFFFFFFFF, Proofs.T1.and_64, Proofs.T1.and_128,
  Model.PyRt.shrN, Model.PyRt.shlN, Int.reducePow, Int.pow_one, Int.reduceNeg])

end Proofs.T1
