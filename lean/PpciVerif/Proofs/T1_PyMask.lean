import PpciVerif.Proofs.T1_PyRt
import PpciVerif.Proofs.PyInt
/-!
T1 (py2lean): literal bit masks of `Model.PyInt` operators as `/` and `%`, so that a generated
`x & 0x7F` and a rewritten `x % 128` normalise to the same term.
-/
namespace Proofs.T1
open Model Model.PyRt Spec.Bits Proofs.Bits Proofs.PyInt

theorem and_127 (x : Int) : PyInt.and x 127 = x % 128 := by simpa using and_mask x 7
theorem and_1 (x : Int) : PyInt.and x 1 = x % 2 := and_one x
theorem and_0xFF (x : Int) : PyInt.and x 255 = x % 256 := and_255 x
theorem and_0xFFFFFFFF (x : Int) : PyInt.and x 4294967295 = x % 4294967296 := by simpa using and_mask x 32

theorem and_3 (x : Int) : PyInt.and x 3 = x % 4 := by simpa using and_mask x 2
theorem and_7 (x : Int) : PyInt.and x 7 = x % 8 := by simpa using and_mask x 3
theorem and_15 (x : Int) : PyInt.and x 15 = x % 16 := by simpa using and_mask x 4
theorem and_31 (x : Int) : PyInt.and x 31 = x % 32 := by simpa using and_mask x 5
theorem and_63 (x : Int) : PyInt.and x 63 = x % 64 := by simpa using and_mask x 6
theorem and_1023 (x : Int) : PyInt.and x 1023 = x % 1024 := by simpa using and_mask x 10
theorem and_2047 (x : Int) : PyInt.and x 2047 = x % 2048 := by simpa using and_mask x 11
theorem and_4095 (x : Int) : PyInt.and x 4095 = x % 4096 := by simpa using and_mask x 12
theorem and_0xFFFF (x : Int) : PyInt.and x 65535 = x % 65536 := by simpa using and_mask x 16
theorem and_0xFFFFF (x : Int) : PyInt.and x 1048575 = x % 1048576 := by simpa using and_mask x 20

/-- a single-bit mask tests one binary digit -/
theorem and_bit (x : Int) (k : Nat) : PyInt.and x (2 ^ k) = (x / 2 ^ k % 2) * 2 ^ k := by
  rw [and_pow]
  unfold testBit
  have h := Int.emod_two_eq (x / 2 ^ k)
  by_cases h1 : x / 2 ^ k % 2 = 1
  · simp [h1]
  · have h0 : x / 2 ^ k % 2 = 0 := by omega
    simp [h0]
theorem and_64 (x : Int) : PyInt.and x 64 = (x / 64 % 2) * 64 := by simpa using and_bit x 6
theorem and_128 (x : Int) : PyInt.and x 128 = (x / 128 % 2) * 128 := by simpa using and_bit x 7
theorem and_2048 (x : Int) : PyInt.and x 2048 = (x / 2048 % 2) * 2048 := by simpa using and_bit x 11

/-- `b | 0x80` on a 7-bit value -/
theorem or_128 {b : Int} (h0 : 0 ≤ b) (h1 : b < 128) : PyInt.or b 128 = b + 128 := by
  have := or_eq_add_of_lt 1 (k := 7) (b := b) ⟨h0, by simpa using h1⟩
  rw [Proofs.PyInt.or_comm]; simp at this; rw [this]; omega


/-- normal form for comparing generated code with hand models: literal masks, shifts, floor
    division / modulo by positive literals become `/` and `%` on `Int` (so `x & 0x7F` and
    `x % 128`, `x >> 1` and `x // 2`, `x << 1` and `x * 2` normalise to the same term) -/
macro "py_norm" : tactic => `(tactic| try simp only [Proofs.T1.fmod_pos, Proofs.T1.fdiv_pos, Int.reduceLT,
  Proofs.T1.and_1, Proofs.T1.and_127, Proofs.T1.and_0xFF, Proofs.T1.and_0xFFFFFFFF, Proofs.T1.and_64, Proofs.T1.and_128,
  Proofs.T1.and_3, Proofs.T1.and_7, Proofs.T1.and_15, Proofs.T1.and_31, Proofs.T1.and_63, Proofs.T1.and_1023, Proofs.T1.and_2047,
  Proofs.T1.and_4095, Proofs.T1.and_0xFFFF, Proofs.T1.and_0xFFFFF, Proofs.T1.and_2048,
  Model.PyRt.shrN, Model.PyRt.shlN, Int.reducePow, Int.pow_one, Int.reduceNeg])

end Proofs.T1
