import PpciVerif.Model.FuncTable
namespace Proofs.FuncTable
open Model.FuncTable

theorem slotOf_some : ∀ (t : List Nat) (f s : Nat), slotOf t f = some s → t[s]? = some f := by
  intro t
  induction t with
  | nil => intro f s h; simp [slotOf] at h
  | cons g t ih =>
    intro f s h
    simp only [slotOf] at h
    split at h
    · next hg => cases h; simp [hg]
    · cases hs : slotOf t f with
      | none => simp [hs] at h
      | some s' =>
        simp [hs] at h
        subst h
        simpa using ih f s' hs

theorem slotOf_none : ∀ (t : List Nat) (f : Nat), slotOf t f = none → f ∉ t := by
  intro t
  induction t with
  | nil => intro f _; simp
  | cons g t ih =>
    intro f h
    simp only [slotOf] at h
    split at h
    · cases h
    · next hg =>
      cases hs : slotOf t f with
      | some s' => simp [hs] at h
      | none =>
        have := ih f hs
        simp only [List.mem_cons, not_or]
        exact ⟨fun e => hg e.symm, this⟩

theorem slotOf_mem : ∀ (t : List Nat) (f : Nat), f ∈ t → ∃ s, slotOf t f = some s := by
  intro t f hm
  cases h : slotOf t f with
  | some s => exact ⟨s, rfl⟩
  | none => exact absurd hm (slotOf_none t f h)

/-- one use: the table only grows at the end and the emitted slot holds `f` -/
theorem take_spec (t : List Nat) (f : Nat) :
    (∃ r, (take t f).1 = t ++ r) ∧ (take t f).1[(take t f).2]? = some f := by
  unfold take
  cases h : slotOf t f with
  | some s => exact ⟨⟨[], by simp⟩, slotOf_some t f s h⟩
  | none => exact ⟨⟨[f], rfl⟩, by simp⟩

theorem getElem?_append_some {t r : List Nat} {s f : Nat} (h : t[s]? = some f) : (t ++ r)[s]? = some f := by
  have hl : s < t.length := by
    rcases Nat.lt_or_ge s t.length with hlt | hge
    · exact hlt
    · rw [List.getElem?_eq_none hge] at h; cases h
  rw [List.getElem?_append_left hl]; exact h

/-- all uses: the final table extends the initial one, one slot per use, and the
    final table holds at every emitted slot the function whose address was taken -/
theorem run_spec : ∀ (uses t : List Nat),
    (∃ r, (run t uses).1 = t ++ r) ∧ (run t uses).2.length = uses.length ∧
    ∀ p ∈ uses.zip (run t uses).2, (run t uses).1[p.2]? = some p.1 := by
  intro uses
  induction uses with
  | nil => intro t; exact ⟨⟨[], by simp [run]⟩, rfl, by simp [run]⟩
  | cons f fs ih =>
    intro t
    obtain ⟨⟨r1, h1⟩, hs⟩ := take_spec t f
    obtain ⟨⟨r2, h2⟩, hl, hall⟩ := ih (take t f).1
    simp only [run]
    refine ⟨⟨r1 ++ r2, by rw [h2, h1, List.append_assoc]⟩, by simp [hl], ?_⟩
    intro p hp
    simp only [List.zip_cons_cons, List.mem_cons] at hp
    rcases hp with rfl | hp
    · simp only []
      rw [h2]; exact getElem?_append_some hs
    · exact hall p hp

/-- a function that already has a slot keeps it -/
theorem take_stable (t : List Nat) (f : Nat) (hm : f ∈ t) : (take t f).1 = t := by
  obtain ⟨s, hs⟩ := slotOf_mem t f hm
  simp [take, hs]

end Proofs.FuncTable
